(** Lemma B, step 5a: a SELECT with a [WHERE c IN (sub-query)] clause.

    SUMMARY
    - Target ([lemma_B_wherein_statement], Part 0): Lemma B for INSERT / CREATE TABLE AS / CREATE VIEW AS over
      [QSelect items from cj wh], FROM = distinct base tables, [wh] = None or [Some (c, sq)] with [sq] again such a SELECT
      ([sel_wherein_syntactic]).  It is a [Definition : Prop], checked by [vm_compute] on twelve varied instances inside
      all guards ([wherein_checks]: aliases shared between the scopes, the same table in both scopes, equal item names,
      stars, INSERT column list, noise, nested WHERE): no counterexample.  NOT proved in this generality.
    - What the model does ([wherein_holder]): the sub-query holder is composed into the holder of the enclosing SELECT
      before that SELECT is processed.  Its tables are read; its select items feed columns owned by the sub-query node
      (parent kind SubQuery), which are leaves without successors.  [get_column_lineage] drops paths ending in such a
      column, so the sub-query contributes no end-to-end pair - as in the specification.  But the composition is visible
      to the enclosing SELECT: a table read in both scopes is stored once, as the object of the sub-query (with ITS
      alias); the alias labels of the sub-query hang on that object and are seen by the alias mapping of the enclosing
      scope; source columns are therefore known up to Python equality only.
    - PROVED ([lemma_B_wherein1_restricted], closed under the global context), for an arbitrary trivia list, any number
      of items and tables: INSERT without column list / CREATE TABLE AS / CREATE VIEW AS over
         SELECT items FROM tables WHERE c IN (SELECT items' FROM tables')
      under the executable guard [wherein1_shape] (on the syntax, like [sel_tables_shape] of LemmaBProofs; it does not
      mention [colshape]): the conditions of step 1-4 for both scopes ([tables_condb], [items_condb], [noqual_itemsb]),
      and
        [resolvedb]    the sub-query has no unresolved column (unqualified references only over one table);
        [items_leakb]  a name of a sub-query table that lands on a table of the enclosing FROM (same table) and is used
                       as a qualifier there is a name of that table there (K-C02-8 in executable form);
        [crossb]       the name of an unresolved column of the enclosing scope is not referenced in the sub-query
                       (K-C02-5 across scopes).
      The tables of the two scopes MAY coincide, under the same or different aliases.
      [model_pairs_wherein1] is the model side under semantic hypotheses; [wherein1_colshape_reduction] reduces the
      [colshape] form of the theorem to the implication [colshape_gives_wherein1_statement] (colshape => wherein1_shape
      on the fragment), which is checked on 16 instances ([colshape_gives_wherein1_checked]) but NOT proved.
    - General results, reusable for the remaining cases of step 5:
        Part 1  [lineage_of_realises_in] / [script_pairs_of_holder_in]: Part P of LemmaBProofs for holders in which
                some column edges end in columns of sub-queries;
        Part 2  [select_core_f]: one SELECT over base tables started on a holder with foreign material (any frame
                satisfying [finv]), stored objects up to Python equality ([HS_f]: the source columns of an item);
                also used, with an empty frame and a SubQuery target, for the sub-query itself ([inner_holder]);
        Part 3  [holder_realises_f]: the statement holder realises the flows of the outer items when the frame is inert;
        Part 4  [compose_edge_pred], [frame_tags], [frame_facts], navigation [extract_select_where],
                [analyze_insert_q], [analyze_create_q] (any WHERE).
    - MISSING for [lemma_B_wherein_statement]: (1) [colshape_gives_wherein1_statement]; (2) the INSERT column list
      (Part K of LemmaBProofs on a frame: [write_columns] exact); (3) sub-queries with unresolved columns (then the
      stored unresolved columns of two scopes have to be told apart by name: the [count_s] condition of [ref_ok]);
      (4) nested WHERE .. IN ([frame_facts] for a frame that itself contains a frame, and the fuel bound).
    - No refutation: no instance inside the guards was found on which the statement fails. *)
From Coq Require Import Permutation.
From SV Require Import Tree.Render Tree.LemmaA Tree.LemmaAProofs Tree.LemmaB Tree.LemmaBProofs Ident.Escape Ident.EscapeProofs
     Holder.PathProofs Holder.SortProofs.
From SV Require TriviaProofs.

(* ================================================================== *)
(** * Part 0: the fragment, the statement, and executable checks of the statement inside [colshape] *)

(** a SELECT over distinct base tables whose WHERE sub-query, if any, is again such a SELECT *)
Fixpoint wsel_ok (fuel : nat) (q : query) : bool :=
  match fuel with
  | O => false
  | S k =>
      match q with
      | QSelect _ from _ wh =>
          forallb is_rtable from && trefs_distinct (map rtref from)
          && match wh with None => true | Some (_, sq) => wsel_ok k sq end
      | _ => false
      end
  end.

Definition sel_wherein_syntactic (s : stmt) : bool :=
  match s with
  | SInsert _ _ q | SCtas _ q | SView _ q => wsel_ok (S (q_size q)) q
  | _ => false
  end.

Definition lemma_B_wherein_statement : Prop :=
  forall noise e s, noise_ok noise = true -> env_ok e = true -> stmt_ok s = true -> sshape s = true -> colshape s = true ->
    sel_wherein_syntactic s = true -> script_pairs e false [] [r_stmt noise s] = spec_pairs (e_cfg e) s.

(** ** instances: no counterexample found inside the guards *)
Definition ws5 : seg := Seg "whitespace" "whitespace" ["whitespace"] " " true false false [].
Definition cm5 : seg := Seg "comment" "inline_comment" ["comment"; "inline_comment"] "-- x" false true false [].
Definition selw (items : list item) (from : list rel) (cj : bool) (c : string) (sq : query) : query :=
  QSelect items from cj (Some (c, sq)).
Definition e_s5 : env := mk_env "ansi" "sch" "sch" {| p_truthy := false; p_cols := [] |} [].

Definition wherein_instances : list (list seg * env * stmt) :=
  [ (* the basic shape *)
    ([], e_cxB, SInsert tx None (selw [ci None "a"] [tb "t"] false "a" (sel1 [ci None "b"] [tb "u"])));
    (* the same table in both scopes, the same item name *)
    ([ws5], e_cxB, SInsert tx None (selw [ci None "a"] [tb "t"] false "a" (sel1 [ci None "a"] [tb "t"])));
    (* the same table under two aliases *)
    ([ws5; cm5], e_cxB, SInsert tx None (selw [ci (Some "p") "a"] [tba "t" "p"] false "a" (sel1 [ci (Some "q") "b"] [tba "t" "q"])));
    (* the same alias for the same table in both scopes; default schema set; item alias *)
    ([ws5], e_s5, SCtas tx (selw [ci (Some "p") "a"; cia None "b" "z"] [tba "t" "p"] false "a" (sel1 [ci (Some "p") "a"] [tba "t" "p"])));
    (* a star in the outer query *)
    ([ws5], e_cxB, SView tx (selw [IStar None] [tb "t"] false "a" (sel1 [ci None "a"] [tb "u"])));
    (* an INSERT column list *)
    ([ws5], e_cxB, SInsert tx (Some ["m"; "n"]) (selw [ci None "a"; ci None "b"] [tb "t"] false "a" (sel1 [ci None "a"] [tb "u"])));
    (* several tables in both scopes, an unresolved column in each *)
    ([ws5], e_cxB, SInsert tx None (selw [ci None "a"; ci (Some "t") "b"] [tb "t"; tb "v"] true "a" (sel1 [ci None "c"] [tb "u"; tb "w"])));
    (* a nested WHERE .. IN, reading the outermost table again *)
    ([ws5], e_cxB, SInsert tx None (selw [ci None "a"] [tb "t"] false "a" (selw [ci None "b"] [tb "u"] false "b" (sel1 [ci None "c"] [tb "t"]))));
    (* outer alias, inner reference by the table's own name *)
    ([ws5], e_cxB, SInsert tx None (selw [ci (Some "p") "a"; ci None "b"] [tba "t" "p"] false "a" (sel1 [ci (Some "t") "a"] [tb "t"])));
    (* schemas, joins, q.* *)
    ([cm5], e_s5, SView (Some "s1", "x") (selw [IStar (Some "z"); cia (Some "t") "a" "k"] [tbs "s1" "t" None; tbs "s2" "t2" (Some "z")] false "k"
                                          (sel1 [cia None "b" "k"] [tbs "s2" "t2" (Some "z")])));
    (* two tables shared between the scopes, inner join *)
    ([ws5], e_cxB, SCtas tx (selw [ci (Some "t") "a"; ci (Some "v") "b"] [tb "t"; tb "v"] false "a" (sel1 [ci (Some "v") "c"; ci (Some "t") "d"] [tb "v"; tb "t"])));
    (* INSERT column list, nested WHERE, noise *)
    ([ws5; cm5], e_s5, SInsert tx (Some ["m"]) (selw [ci (Some "t") "a"] [tb "t"; tba "v" "w"] true "a"
                                                 (selw [ci None "a2"] [tb "v"] false "b" (sel1 [ci None "c"] [tba "t" "r"])))) ].

Example wherein_checks :
  map (fun p => lemma_B_check (fst (fst p)) (snd (fst p)) (snd p)) wherein_instances =
  ["holds"; "holds"; "holds"; "holds"; "holds"; "holds"; "holds"; "holds"; "holds"; "holds"; "holds"; "holds"].
Proof. vm_compute. reflexivity. Qed.

Example wherein_instances_in_fragment : forallb (fun p => sel_wherein_syntactic (snd p)) wherein_instances = true.
Proof. vm_compute. reflexivity. Qed.

(** what the model does with the sub-query: its tables are read, its select items feed the columns of a sub-query
    node, which are leaves that do not belong to a table *)
Example wherein_holder :
  show_analysis e_cxB false (r_stmt [] (SInsert tx None (selw [ci None "a"] [tb "t"] false "a" (sel1 [ci None "b"] [tb "u"])))) =
  "N=A:t[];A:u[];C:<default>.t.a{T:<default>.t}[];C:<default>.u.b{T:<default>.u}[];C:<default>.x.a{T:<default>.x}[];C:subquery_<(selectbfromu)>.b{Q:subquery_<(selectbfromu)>}[];Q:subquery_<(selectbfromu)>[];T:<default>.t[read];T:<default>.u[read];T:<default>.x[write]#E=C:<default>.t.a{T:<default>.t}>C:<default>.x.a{T:<default>.x}:lineage;C:<default>.u.b{T:<default>.u}>C:subquery_<(selectbfromu)>.b{Q:subquery_<(selectbfromu)>}:lineage;Q:subquery_<(selectbfromu)>>C:subquery_<(selectbfromu)>.b{Q:subquery_<(selectbfromu)>}:has_column;T:<default>.t>A:t:has_alias;T:<default>.t>C:<default>.t.a{T:<default>.t}:has_column;T:<default>.u>A:u:has_alias;T:<default>.u>C:<default>.u.b{T:<default>.u}:has_column;T:<default>.x>C:<default>.x.a{T:<default>.x}:has_column".
Proof. vm_compute. reflexivity. Qed.

(* ================================================================== *)
(** * Part 1: from a holder to the reported pairs, when some column edges end in columns of sub-queries

    [realises_in g FL]: the edges leaving a column are the flows [FL], or end in a column owned by a sub-query (which
    has no successor).  Such columns are leaves that [get_column_lineage] filters out, so the reported pairs are
    those of [FL]. *)
Record realises_in (g : graph) (FL : list flow) : Prop := {
  ri_sound : forall x y, is_column x = true -> has_edge g x y = true ->
             (exists f, In f FL /\ node_eqb x (NCol (fst f)) = true /\ node_eqb y (NCol (snd f)) = true) \/
             (parent_is KSubq y = true /\ forall f, In f FL -> node_eqb x (NCol (snd f)) = false);
  ri_inert : forall x y, parent_is KSubq x = true -> has_edge g x y = false;
  ri_complete : forall f, In f FL -> has_edge g (NCol (fst f)) (NCol (snd f)) = true;
  ri_nodes : forall f, In f FL -> has_node g (NCol (fst f)) = true /\ has_node g (NCol (snd f)) = true;
  ri_lits : lits_in (fun n => forall f, In f FL -> node_eqb n (NCol (fst f)) = true -> src_str n = src_str (NCol (fst f))) g
}.

Definition flows_ok_in (FL : list flow) : Prop :=
  flows_ok FL /\ forall f, In f FL -> parent_is KSubq (NCol (fst f)) = false.

Lemma parent_subq_not_table n : parent_is KSubq n = true -> parent_is KTable n = false.
Proof.
  destruct n as [|c|]; cbn [parent_is]; try discriminate. destruct (col_parent c) as [d|]; [|discriminate].
  destruct (dk d); cbn; congruence.
Qed.

Theorem lineage_of_realises_in g FL :
  realises_in g FL -> flows_ok_in FL ->
  forall x, In x (map pair_str (column_lineage g true false)) <-> In x (map flow_str FL).
Proof.
  intros R [[F1 F2] F3] x.
  assert (ES : forall a b c, node_eqb a b = true -> node_eqb a c = true -> node_eqb b c = true).
  { intros a b c H1 H2. apply (node_eqb_trans b a c); [apply node_eqb_true_sym; exact H1|exact H2]. }
  split.
  - (* soundness *)
    intros Hx. apply in_map_iff in Hx. destruct Hx as (p & <- & Hp).
    unfold column_lineage in Hp. cbv zeta in Hp.
    apply in_flat_map in Hp. destruct Hp as (s & Hs & Hp). apply in_flat_map in Hp. destruct Hp as (t & Ht & Hp).
    apply in_flat_map in Hp. destruct Hp as (path & Hpath & Hp).
    destruct (Nat.ltb 1 (List.length path)) eqn:Hlen; [|destruct Hp]. destruct Hp as [<-|[]]. apply Nat.ltb_lt in Hlen.
    apply filter_In in Hs. destruct Hs as [Hs _]. apply in_map_iff in Hs. destruct Hs as ([s' a] & Es & Hs). cbn [fst] in Es. subst s'.
    unfold column_graph, subgraph in Hs. cbn [gnodes] in Hs. apply filter_In in Hs. cbn [fst] in Hs. destruct Hs as [Hs Hsc].
    assert (Hs' : In s (map fst (gnodes g))) by (apply in_map_iff; exists (s, a); auto).
    apply filter_In in Ht. destruct Ht as [_ Htt].
    apply all_simple_paths_sound in Hpath. destruct Hpath as (r & -> & Hch & _ & Hlast).
    destruct r as [|x1 r']; [cbn [List.length] in Hlen; lia|].
    destruct Hch as [Hc1 Hc2]. apply successors_edge in Hc1.
    destruct (ri_sound _ _ R s x1 Hsc Hc1) as [(f & Hf & E1 & E2)|[Hsub _]].
    + destruct r' as [|x2 r''].
      * rewrite pair_str_cons. cbn [last]. apply in_map_iff. exists f. split; [|exact Hf]. unfold flow_str.
        rewrite (proj1 (ri_lits _ _ R) s Hs' f Hf E1), (node_str_eqb_col x1 _ E2). reflexivity.
      * exfalso. destruct Hc2 as [Hc2 _]. apply successors_edge in Hc2.
        assert (Hx1 : is_column x1 = true) by (rewrite (is_column_eqb _ _ E2); reflexivity).
        destruct (ri_sound _ _ R x1 x2 Hx1 Hc2) as [(f' & Hf' & E3 & _)|[_ Hno]].
        -- pose proof (ES _ _ _ E2 E3) as E. cbn [node_eqb] in E. rewrite (F1 f f' Hf Hf') in E. discriminate.
        -- rewrite (Hno f Hf) in E2. discriminate.
    + exfalso. destruct r' as [|x2 r''].
      * cbn [last] in Hlast. rewrite <- (parent_is_eqb KTable _ _ Hlast) in Htt.
        rewrite (parent_subq_not_table _ Hsub) in Htt. discriminate.
      * destruct Hc2 as [Hc2 _]. apply successors_edge in Hc2. rewrite (ri_inert _ _ R x1 x2 Hsub) in Hc2. discriminate.
  - (* completeness *)
    intros Hx. apply in_map_iff in Hx. destruct Hx as (f & <- & Hf).
    destruct (ri_nodes _ _ R f Hf) as [N1 N2]. apply has_node_In in N1, N2.
    destruct N1 as (s & Hs & Es). destruct N2 as (t & Ht & Et).
    pose proof (ri_complete _ _ R f Hf) as He. apply has_edge_In in He. destruct He as (e & He & Ee1 & Ee2).
    set (v := snd (fst e)) in *.
    assert (Hsc : is_column s = true) by (rewrite <- (is_column_eqb _ _ Es); reflexivity).
    assert (Htc : is_column t = true) by (rewrite <- (is_column_eqb _ _ Et); reflexivity).
    assert (Esv : node_eqb s (fst (fst e)) = true) by (apply (ES _ _ _ Es Ee1)).
    assert (Etv : node_eqb v t = true) by (apply (node_eqb_trans v (NCol (snd f)) t); [apply node_eqb_true_sym; exact Ee2|exact Et]).
    assert (Hvs : node_eqb v s = false).
    { destruct (node_eqb v s) eqn:E; [|reflexivity]. exfalso.
      assert (E' : node_eqb (NCol (snd f)) (NCol (fst f)) = true).
      { apply (node_eqb_trans _ v _ Ee2). apply (node_eqb_trans v s _ E). apply node_eqb_true_sym. exact Es. }
      cbn [node_eqb] in E'. rewrite (F1 f f Hf Hf) in E'. discriminate. }
    assert (Hst : node_eqb s t = false).
    { destruct (node_eqb s t) eqn:E; [|reflexivity]. exfalso.
      assert (E' : node_eqb v s = true) by (apply (node_eqb_trans v t s Etv); apply node_eqb_true_sym; exact E). congruence. }
    apply in_map_iff. exists [s; v]. split.
    { rewrite pair_str_cons. cbn [last]. unfold flow_str.
      rewrite (proj1 (ri_lits _ _ R) s Hs f Hf (node_eqb_true_sym _ _ Es)).
      rewrite (node_str_eqb_col v (snd f) (node_eqb_true_sym _ _ Ee2)). reflexivity. }
    unfold column_lineage. cbv zeta. apply in_flat_map. exists s. split.
    { apply filter_In. split.
      - apply in_map_iff in Hs. destruct Hs as ([s' a] & Es' & Hs). cbn [fst] in Es'. subst s'.
        apply in_map_iff. exists (s, a). split; [reflexivity|]. unfold column_graph, subgraph. cbn [gnodes]. apply filter_In. auto.
      - apply Nat.eqb_eq. unfold indeg. apply length_zero_iff_none. intros e' He'.
        unfold in_edges, column_graph, subgraph in He'. cbn [gedges] in He'. apply filter_In in He'. destruct He' as [He' E1].
        apply filter_In in He'. destruct He' as [He' E2]. apply andb_true_iff in E2. destruct E2 as [E2 _].
        assert (Hh : has_edge g (fst (fst e')) s = true).
        { apply has_edge_In. exists e'. split; [exact He'|]. split; [apply node_eqb_refl|exact E1]. }
        destruct (ri_sound _ _ R _ _ E2 Hh) as [(f' & Hf' & _ & E4)|[Hsub _]].
        + assert (E' : node_eqb (NCol (snd f')) (NCol (fst f)) = true).
          { apply (node_eqb_trans _ s _); [apply node_eqb_true_sym; exact E4|apply node_eqb_true_sym; exact Es]. }
          cbn [node_eqb] in E'. rewrite (F1 f' f Hf' Hf) in E'. discriminate.
        + rewrite <- (parent_is_eqb KSubq _ _ Es), (F3 f Hf) in Hsub. discriminate. }
    apply in_flat_map. exists t. split.
    { apply filter_In. split; [apply filter_In; split|].
      - apply in_map_iff in Ht. destruct Ht as ([t' a] & Et' & Ht). cbn [fst] in Et'. subst t'.
        apply in_map_iff. exists (t, a). split; [reflexivity|]. unfold column_graph, subgraph. cbn [gnodes]. apply filter_In. auto.
      - apply Nat.eqb_eq. unfold outdeg. apply length_zero_iff_none. intros e' He'.
        unfold out_edges, column_graph, subgraph in He'. cbn [gedges] in He'. apply filter_In in He'. destruct He' as [He' E1].
        apply filter_In in He'. destruct He' as [He' _].
        assert (Hh : has_edge g t (snd (fst e')) = true).
        { apply has_edge_In. exists e'. split; [exact He'|]. split; [exact E1|apply node_eqb_refl]. }
        destruct (ri_sound _ _ R _ _ Htc Hh) as [(f' & Hf' & E3 & _)|[_ Hno]].
        + pose proof (ES _ _ _ (node_eqb_true_sym _ _ Et) E3) as E'. cbn [node_eqb] in E'. rewrite (F1 f f' Hf Hf') in E'. discriminate.
        + rewrite node_eqb_sym in Et. rewrite (Hno f Hf) in Et. discriminate.
      - rewrite <- (parent_is_eqb KTable _ _ Et). apply F2. exact Hf. }
    apply in_flat_map. exists [s; v]. split; [|cbn [List.length Nat.ltb Nat.leb]; left; reflexivity].
    unfold all_simple_paths. rewrite Hst. apply in_map_iff. exists [v]. split; [reflexivity|].
    apply paths_from_complete.
    + discriminate.
    + cbn [List.length]. apply in_map_iff in Hs. destruct Hs as (pa & _ & Hs). destruct (gnodes g); [destruct Hs|cbn [List.length]; lia].
    + split; [|exact I]. unfold successors. apply in_map_iff. exists e. split; [reflexivity|]. unfold out_edges. apply filter_In. auto.
    + split; [reflexivity|exact I].
    + intros y [<-|[]]. unfold memn. cbn [existsb]. rewrite Hvs. reflexivity.
    + cbn [last]. exact Etv.
    + intros y [].
Qed.

Theorem script_pairs_of_holder_in e stmt G FL :
  analyze (with_cols e (view_cols [] [])) false stmt = Ok G ->
  p_truthy (e_provider e) = false -> clean_holder G -> lits_in (unres_ok G) G ->
  realises_in G FL -> flows_ok_in FL ->
  script_pairs e false [] [stmt] = uniq_sorted (sort_strings (map flow_str FL)).
Proof.
  intros Ea Hp Hc Hu R F. unfold script_pairs, script_graph. cbn [run_statements]. rewrite Ea. cbn [rev app fst snd map].
  match goal with |- context [build ?P [holder_of G]] => destruct (build_one P G Hp Hc Hu) as (gF & E & B1 & B2 & B3) end.
  rewrite E. apply us_ext. apply lineage_of_realises_in; [|exact F].
  constructor.
  - intros x y Hx Hxy. rewrite B1 in Hxy by (left; exact Hx). exact (ri_sound _ _ R x y Hx Hxy).
  - intros x y Hx. rewrite B1; [exact (ri_inert _ _ R x y Hx)|]. left. destruct x as [|c|]; cbn in Hx; try discriminate. reflexivity.
  - intros f Hf. rewrite B1 by (left; reflexivity). exact (ri_complete _ _ R f Hf).
  - intros f Hf. destruct (ri_nodes _ _ R f Hf). split; apply B2; assumption.
  - apply B3; [|exact (ri_lits _ _ R)]. intros d f _ E'. discriminate E'.
Qed.

(* ================================================================== *)
(** * Part 2: one SELECT over base tables, started on a holder that already contains other material (the composed
      holder of the WHERE sub-query).  Stored node objects are known up to Python equality only: a table read in both
      scopes is stored once, with the alias of its first occurrence. *)

Lemma has_edge_l_cong_l a b y l : node_eqb a b = true -> has_edge_l a y l = has_edge_l b y l.
Proof.
  intros H. induction l as [|e0 r IH]; [reflexivity|]. cbn [has_edge_l]. rewrite IH. unfold edge_is.
  rewrite (node_eqb_cong_l a b _ H). reflexivity.
Qed.
Lemma has_edge_cong_l g a b y : node_eqb a b = true -> has_edge g a y = has_edge g b y.
Proof. apply has_edge_l_cong_l. Qed.
Lemma has_edge_l_cong_r a y y' l : node_eqb y y' = true -> has_edge_l a y l = has_edge_l a y' l.
Proof.
  intros H. induction l as [|e0 r IH]; [reflexivity|]. cbn [has_edge_l]. rewrite IH. unfold edge_is.
  rewrite (node_eqb_cong_l y y' _ H). reflexivity.
Qed.
Lemma has_edge_cong_r g a y y' : node_eqb y y' = true -> has_edge g a y = has_edge g a y'.
Proof. apply has_edge_l_cong_r. Qed.

Lemma canon_shape_str v l s : canon_l v l = NStr s -> v = NStr s.
Proof.
  intros H. pose proof (canon_eqb v l) as E. rewrite H in E. destruct v as [| |s']; cbn [node_eqb] in E; try discriminate.
  apply String.eqb_eq in E. subst. reflexivity.
Qed.

Lemma no_succ_out_edges g n : (forall y, has_edge g n y = false) -> out_edges g n = [].
Proof.
  intros H. unfold out_edges. apply filter_none. intros e0 He. destruct (node_eqb n (fst (fst e0))) eqn:E; [|reflexivity].
  assert (K : has_edge g n (snd (fst e0)) = true) by (apply has_edge_In; exists e0; split; [exact He|split; [exact E|apply node_eqb_refl]]).
  rewrite H in K. discriminate.
Qed.

(** ** sorted insertion of parents, up to Python equality *)
Lemma insert_parent_nodup v l : NoDup (map dstr l) -> ~ In (dstr v) (map dstr l) -> NoDup (map dstr (insert_parent v l)).
Proof.
  induction l as [|y r IH]; intros Hn Hv; cbn [insert_parent map]; [constructor; [intros []|constructor]|].
  destruct (_ && _); cbn [map]; [constructor; assumption|].
  cbn [map] in Hn, Hv. inversion Hn. subst. constructor.
  - intros K. apply in_map_iff in K. destruct K as (z & Ez & Hz). apply In_insert_parent in Hz. destruct Hz as [->|Hz].
    + apply Hv. left. symmetry. exact Ez.
    + apply H1. apply in_map_iff. exists z. auto.
  - apply IH; [assumption|]. intros K. apply Hv. right. exact K.
Qed.

Definition tab_ok (x : dataset) : Prop := dk x = KTable /\ data_ok x.

Lemma tab_ok_dstr_eqb x y : tab_ok x -> tab_ok y -> dstr x = dstr y -> dataset_eqb x y = true.
Proof.
  intros [K1 D1] [K2 D2] E. unfold data_ok in *. rewrite K1 in D1. rewrite K2 in D2. unfold dataset_eqb. rewrite K1, K2, D1, D2, E.
  cbn. apply String.eqb_refl.
Qed.
Lemma tab_ok_eqb_dstr x y : tab_ok x -> tab_ok y -> dataset_eqb x y = true -> dstr x = dstr y.
Proof. intros [K1 D1] [K2 D2] E. symmetry. exact (proj2 (eqb_table_dstr x y E D1 D2 K1)). Qed.
Lemma tab_ok_eqb x y : tab_ok x -> data_ok y -> dataset_eqb x y = true -> tab_ok y.
Proof. intros [K1 D1] D2 E. split; [rewrite <- (dataset_eqb_dk _ _ E); exact K1|exact D2]. Qed.

Lemma memd_mono v w l : memd v l = true -> memd v (if memd w l then l else insert_parent w l) = true.
Proof.
  intros H. destruct (memd w l); [exact H|]. apply memd_In_eqb in H. destruct H as (z & Hz & E).
  unfold memd. apply existsb_exists. exists z. split; [apply In_insert_parent; right; exact Hz|exact E].
Qed.

Lemma pfold_f values : forall l,
  (forall x, In x values -> tab_ok x) -> (forall x, In x l -> tab_ok x) -> NoDup (map dstr l) ->
  NoDup (map dstr (pfold values l)) /\ (forall x, In x (pfold values l) -> In x l \/ In x values) /\
  (forall x, memd x l = true \/ In x values -> memd x (pfold values l) = true).
Proof.
  induction values as [|v r IH]; intros l Hv Hl Hn; cbn [pfold fold_left].
  - split; [exact Hn|]. split; [auto|]. intros x [H|[]]. exact H.
  - fold (pfold r (if memd v l then l else insert_parent v l)).
    set (l' := if memd v l then l else insert_parent v l).
    assert (Hl' : forall x, In x l' -> tab_ok x).
    { unfold l'. destruct (memd v l); [exact Hl|]. intros x Hx. apply In_insert_parent in Hx. destruct Hx as [->|Hx]; [apply Hv; left; reflexivity|apply Hl; exact Hx]. }
    assert (Hn' : NoDup (map dstr l')).
    { unfold l'. destruct (memd v l) eqn:Em; [exact Hn|]. apply insert_parent_nodup; [exact Hn|].
      intros K. apply in_map_iff in K. destruct K as (z & Ez & Hz).
      assert (memd v l = true); [|congruence]. unfold memd. apply existsb_exists. exists z. split; [exact Hz|].
      apply tab_ok_dstr_eqb; [apply Hv; left; reflexivity|apply Hl; exact Hz|symmetry; exact Ez]. }
    assert (Hsub : forall x, In x l' -> In x l \/ x = v).
    { unfold l'. destruct (memd v l); [auto|]. intros x Hx. apply In_insert_parent in Hx. tauto. }
    assert (Hmv : memd v l' = true).
    { unfold l'. destruct (memd v l) eqn:Em; [exact Em|]. unfold memd. apply existsb_exists. exists v. split; [apply In_insert_parent; left; reflexivity|apply dataset_eqb_refl]. }
    destruct (IH l' (fun x Hx => Hv x (or_intror Hx)) Hl' Hn') as (A & B & C). split; [exact A|]. split.
    + intros x Hx. destruct (B x Hx) as [K|K]; [destruct (Hsub x K) as [K'| ->]; [left; exact K'|right; left; reflexivity]|right; right; exact K].
    + intros x [Hx|[<-|Hx]]; apply C; [left; apply memd_mono; exact Hx|left; exact Hmv|right; exact Hx].
Qed.

Lemma memd_dedup x l : forall seen, In x l -> memd x (dedup_ds l seen) = true \/ memd x seen = true.
Proof.
  induction l as [|a r IH]; intros seen Hx; [destruct Hx|]. cbn [dedup_ds]. destruct (memd a seen) eqn:Em.
  - destruct Hx as [<-|Hx]; [right; exact Em|apply IH; exact Hx].
  - destruct Hx as [<-|Hx].
    + left. unfold memd. cbn [existsb]. rewrite dataset_eqb_refl. reflexivity.
    + destruct (IH (a :: seen) Hx) as [K|K]; [left; unfold memd in *; cbn [existsb]; rewrite K; apply orb_true_r|].
      unfold memd in K. cbn [existsb] in K. apply orb_true_iff in K. destruct K as [K|K]; [|right; exact K].
      left. unfold memd. cbn [existsb]. rewrite K. reflexivity.
Qed.

Lemma dedup_all_memd r : forall seen, (forall x, In x r -> memd x seen = true) -> dedup_ds r seen = [].
Proof.
  induction r as [|a r IH]; intros seen H; [reflexivity|]. cbn [dedup_ds]. rewrite (H a (or_introl eq_refl)). apply IH.
  intros x Hx. apply H. right. exact Hx.
Qed.

Lemma dedup_all_eqb l d1 : l <> [] -> (forall x, In x l -> dataset_eqb x d1 = true) -> exists u, In u l /\ dedup_ds l [] = [u].
Proof.
  destruct l as [|a r]; [congruence|]. intros _ H. exists a. split; [left; reflexivity|]. cbn [dedup_ds memd existsb]. f_equal.
  apply dedup_all_memd. intros x Hx. unfold memd. cbn [existsb]. rewrite orb_false_r.
  apply (dataset_eqb_trans x d1 a); [apply H; right; exact Hx|apply dataset_eqb_true_sym; apply H; left; reflexivity].
Qed.

Section Core.
Variable e : env.
Hypothesis Hprov : p_truthy (e_provider e) = false.
Variable d : dataset.
Variable ts : list dataset.
Hypothesis Hgo : group_ok d ts.
Hypothesis Hinj : ts_inj ts.
Hypothesis Hnd : names_nodot ts.
Hypothesis Hdo : Forall data_ok ts.
Hypothesis Hd_ok : data_ok d.
(** [L a w]: the label [a] may hang on the stored object of the table [w] of this scope, left there by another scope *)
Variable L : string -> dataset -> Prop.
Hypothesis HLdot : forall a w v, L a w -> In v ts -> a <> dstr v.
(** the names of the unresolved columns of this scope *)
Variable NM : list string.

Lemma ts_tab_ok w : In w ts -> tab_ok w.
Proof. intros Hw. split; [exact (go_tables _ _ Hgo w Hw)|]. rewrite Forall_forall in Hdo. apply Hdo. exact Hw. Qed.

(** the stored object of an unresolved column of this scope *)
Definition UP (c : column) : Prop :=
  2 <= List.length (cparents c) /\ (In (craw c) NM /\ escape (craw c) = craw c) /\
  (forall p, In p (cparents c) -> tab_ok p /\ exists w, In w ts /\ dataset_eqb p w = true) /\
  (forall w, In w ts -> exists p, In p (cparents c) /\ dataset_eqb p w = true) /\
  NoDup (map dstr (cparents c)).
Definition QC (n : Graph.node) : Prop :=
  match n with NCol c => List.length (cparents c) = 1 \/ UP c | _ => True end.

Record finv (g : graph) : Prop := {
  fi_alias : forall e0 src a, In e0 (gedges g) -> fst e0 = (NData src, NStr a) ->
             etype (snd e0) = "has_alias" /\ forall w, In w ts -> dataset_eqb src w = true -> a = dalias w \/ L a w;
  fi_types : forall e0, In e0 (gedges g) -> etype (snd e0) = "lineage" \/ etype (snd e0) = "has_column" \/ etype (snd e0) = "has_alias";
  fi_srcq : forall e0 c p, In e0 (gedges g) -> fst (fst e0) = NCol c -> cparents c = [p] -> dk p = KTable;
  fi_drop : drop_free g
}.

Lemma finv_add_node g n a : finv g -> ~ In ("drop", true) a -> finv (add_node g n a).
Proof. intros [A B C D] Ha. constructor; [exact A|exact B|exact C|apply drop_free_add_node; assumption]. Qed.

Lemma finv_add_edge_col g u v a :
  finv g -> (forall s, v <> NStr s) -> (etype a = "lineage" \/ etype a = "has_column") ->
  (forall c p, u = NCol c -> cparents c = [p] -> dk p = KTable) -> finv (add_edge g u v a).
Proof.
  intros [A B C D] Hv Ha Hu. constructor; [| | |apply drop_free_add_edge; exact D].
  - intros e0 src a0 He Hf. unfold add_edge in He. cbn [gedges] in He. apply In_upsert_edge' in He.
    destruct He as [->|[He|(e1 & He1 & E1 & ->)]].
    + cbn [fst] in Hf. inversion Hf as [[H1 H2]]. apply canon_shape_str in H2. exfalso. exact (Hv _ H2).
    + exact (A e0 src a0 He Hf).
    + cbn [fst] in Hf. unfold edge_is in E1. apply andb_true_iff in E1. destruct E1 as [_ E1]. rewrite Hf in E1. cbn [fst snd] in E1.
      rewrite node_eqb_sym in E1. apply eqb_shape_str in E1. apply canon_shape_str in E1. exfalso. exact (Hv _ E1).
  - intros e0 He. unfold add_edge in He. cbn [gedges] in He. apply In_upsert_edge' in He.
    destruct He as [->|[He|(e1 & He1 & E1 & ->)]]; [cbn [snd]; tauto|exact (B e0 He)|cbn [snd eattr_update etype]; tauto].
  - intros e0 c p He Hf Hc. unfold add_edge in He. cbn [gedges] in He. apply In_upsert_edge' in He.
    destruct He as [->|[He|(e1 & He1 & E1 & ->)]].
    + cbn [fst] in Hf. pose proof (canon_eqb u (gnodes (add_node (add_node g u []) v []))) as E. rewrite Hf in E.
      destruct u as [|cu|]; cbn [node_eqb] in E; try discriminate. unfold col_eqb in E. apply andb_true_iff in E. destruct E as [_ E].
      unfold col_parent at 2 in E. rewrite Hc in E. destruct (col_parent cu) as [pu|] eqn:Ecu; cbn [opt_dataset_eqb] in E; [|discriminate].
      rewrite <- (dataset_eqb_dk _ _ E). apply (Hu cu pu eq_refl). apply col_parent_some. exact Ecu.
    + exact (C e0 c p He Hf Hc).
    + cbn [fst] in Hf. exact (C e1 c p He1 Hf Hc).
Qed.

Lemma finv_add_edge_alias g v :
  finv g -> In v ts -> finv (add_edge g (NData v) (NStr (dalias v)) e_has_alias).
Proof.
  intros [A B C D] Hv. constructor; [| | |apply drop_free_add_edge; exact D].
  - intros e0 src a0 He Hf. unfold add_edge in He. cbn [gedges] in He. apply In_upsert_edge' in He.
    destruct He as [->|[He|(e1 & He1 & E1 & ->)]].
    + cbn [fst snd] in *. split; [reflexivity|]. rewrite canon_str in Hf.
      destruct (canon_data v (gnodes (add_node (add_node g (NData v) []) (NStr (dalias v)) []))) as (src' & Es & Eq). rewrite Es in Hf.
      inversion Hf. subst src' a0. intros w Hw Ew. left.
      rewrite (go_distinct _ _ Hgo v w Hv Hw (dataset_eqb_trans _ _ _ Eq Ew)). reflexivity.
    + exact (A e0 src a0 He Hf).
    + cbn [fst snd] in *. split; [reflexivity|]. exact (proj2 (A e1 src a0 He1 Hf)).
  - intros e0 He. unfold add_edge in He. cbn [gedges] in He. apply In_upsert_edge' in He.
    destruct He as [->|[He|(e1 & He1 & E1 & ->)]]; [cbn [snd]; tauto|exact (B e0 He)|cbn [snd eattr_update etype]; tauto].
  - intros e0 c p He Hf Hc. unfold add_edge in He. cbn [gedges] in He. apply In_upsert_edge' in He.
    destruct He as [->|[He|(e1 & He1 & E1 & ->)]].
    + cbn [fst] in Hf. destruct (canon_data v (gnodes (add_node (add_node g (NData v) []) (NStr (dalias v)) []))) as (src' & Es & _).
      rewrite Es in Hf. discriminate.
    + exact (C e0 c p He Hf Hc).
    + cbn [fst] in Hf. exact (C e1 c p He1 Hf Hc).
Qed.

(** ** the alias mapping *)
Definition stored (g : graph) (u : dataset) : Prop :=
  In u ts \/ exists e0 a, In e0 (gedges g) /\ fst e0 = (NData u, NStr a).

Lemma stored_ok g u : gok g -> stored g u -> data_ok u.
Proof.
  intros Hg [Hu|(e0 & a & He & Hf)]; [rewrite Forall_forall in Hdo; apply Hdo; exact Hu|].
  destruct Hg as [_ Hg]. rewrite Forall_forall in Hg. destruct (Hg e0 He) as [H _]. rewrite Hf in H. exact H.
Qed.

Lemma am_sound_f g q v :
  finv g -> assoc_list q (get_alias_mapping g ts) = Some v ->
  (In v ts /\ (draw v = q \/ dstr v = q)) \/
  (exists w, In w ts /\ dataset_eqb v w = true /\ (q = dalias w \/ L q w) /\ stored g v).
Proof.
  intros Hf H. rewrite get_alias_mapping_eq in H. cbv zeta in H. rewrite (filter_tables ts (go_tables _ _ Hgo)) in H.
  apply fold_tables_sound in H. destruct H as [[H1 H2]|H]; [left; auto|].
  apply fold_tables_sound in H. destruct H as [[H1 H2]|H]; [left; auto|].
  apply alias_fold_sound in H. destruct H as [(e0 & He & Ht & Hfst & Hm)|H]; [|discriminate].
  apply edges_nx_In in He. apply memd_In_eqb in Hm. destruct Hm as (w & Hw & E).
  right. exists w. destruct (fi_alias g Hf e0 v q He Hfst) as [_ Hl]. split; [exact Hw|]. split; [exact E|]. split; [exact (Hl w Hw E)|].
  right. exists e0, q. auto.
Qed.

Lemma am_values_f g x :
  In x (map snd (get_alias_mapping g ts)) -> In x ts \/ (stored g x /\ exists w, In w ts /\ dataset_eqb x w = true).
Proof.
  intros H. rewrite get_alias_mapping_eq in H. cbv zeta in H. rewrite (filter_tables ts (go_tables _ _ Hgo)) in H.
  apply fold_tables_values in H. destruct H as [H|H]; [left; exact H|].
  apply fold_tables_values in H. destruct H as [H|H]; [left; exact H|].
  apply alias_fold_values in H. destruct H as [(e0 & a & He & Ht & Hf & Hm)|H]; [|destruct H].
  apply edges_nx_In in He. apply memd_In_eqb in Hm. right. split; [right; exists e0, a; auto|exact Hm].
Qed.

Lemma am_complete_f g v :
  finv g -> In v ts -> has_edge g (NData v) (NStr (dalias v)) = true -> has_node g (NData v) = true ->
  is_some (assoc_list (dalias v) (get_alias_mapping g ts)) = true.
Proof.
  intros Hf Hv He Hn. rewrite get_alias_mapping_eq. cbv zeta. rewrite (filter_tables ts (go_tables _ _ Hgo)).
  apply fold_tables_mono. apply fold_tables_mono.
  apply has_edge_In in He. destruct He as (e0 & He & E1 & E2). apply eqb_shape_str in E2.
  destruct e0 as [[u y] a]. cbn [fst snd] in *. subst y. destruct u as [src| |]; cbn [node_eqb] in E1; try discriminate.
  destruct (fi_alias g Hf _ src (dalias v) He eq_refl) as [Ht _].
  apply (alias_fold_complete ts (edges_nx g) [] (NData src, NStr (dalias v), a) src (dalias v)).
  - apply edges_nx_complete; [exact He|]. cbn [fst]. unfold has_node in *. rewrite <- (has_node_l_cong (NData v) (NData src) _ E1). exact Hn.
  - exact Ht.
  - reflexivity.
  - unfold memd. apply existsb_exists. exists v. split; [exact Hv|apply dataset_eqb_true_sym; exact E1].
Qed.

Record sinv (g : graph) : Prop := {
  sv_gok : gok g;
  sv_finv : finv g;
  sv_alias : forall v, In v ts -> has_edge g (NData v) (NStr (dalias v)) = true /\ has_node g (NData v) = true;
  sv_lits : lits_in QC g
}.

Definition qual_ok (q : string) (v : dataset) : Prop :=
  In v ts /\ dalias v = q /\ forall w, In w ts -> (dalias w = q \/ draw w = q \/ dstr w = q \/ L q w) -> w = v.

Lemma am_lookup_f g q v :
  sinv g -> qual_ok q v ->
  exists u, assoc_list q (get_alias_mapping g ts) = Some u /\ dataset_eqb u v = true /\ stored g u.
Proof.
  intros Hs (Hv & Eq & Hu). subst q.
  pose proof (am_complete_f g v (sv_finv g Hs) Hv (proj1 (sv_alias g Hs v Hv)) (proj2 (sv_alias g Hs v Hv))) as Hsome.
  destruct (assoc_list (dalias v) (get_alias_mapping g ts)) as [u|] eqn:E; [|discriminate]. exists u. split; [reflexivity|].
  destruct (am_sound_f g _ u (sv_finv g Hs) E) as [[Hin Hor]|(w & Hw & Ew & Hor & Hst)].
  - rewrite (Hu u Hin) by tauto. split; [apply dataset_eqb_refl|left; exact Hv].
  - assert (w = v) by (apply Hu; [exact Hw|destruct Hor as [->|K]; [left; reflexivity|right; right; right; exact K]]). subst w. auto.
Qed.

Lemma am_covers_f g w : sinv g -> In w ts -> In w (map snd (get_alias_mapping g ts)).
Proof.
  intros Hs Hw.
  assert (Hsome : is_some (assoc_list (dstr w) (get_alias_mapping g ts)) = true).
  { rewrite get_alias_mapping_eq. cbv zeta. rewrite (filter_tables ts (go_tables _ _ Hgo)). apply fold_tables_complete. exact Hw. }
  destruct (assoc_list (dstr w) (get_alias_mapping g ts)) as [u|] eqn:E; [|discriminate].
  pose proof (assoc_list_In _ _ _ E) as Hin.
  destruct (am_sound_f g _ u (sv_finv g Hs) E) as [[Hu [K|K]]|(w' & Hw' & _ & [K|K] & _)].
  - exfalso. exact (proj2 (Hnd w u Hw Hu) K).
  - rewrite <- (proj2 Hinj u w Hu Hw K). exact Hin.
  - exfalso. exact (proj1 (Hnd w w' Hw Hw') (eq_sym K)).
  - exfalso. exact (HLdot _ _ w K Hw eq_refl).
Qed.

(** ** the source columns of a select item, up to Python equality *)
Definition xref_ok_f (x : xcol) : Prop :=
  cparents (xc x) = [] /\
  exists c qq, xsrc x = [(c, qq)] /\ escape c = c /\
               match qq with
               | Some q => exists v, qual_ok q v
               | None => (exists d1, ts = [d1]) \/ (multi ts /\ c <> "*" /\ In c NM)
               end.

Definition srcp (s : column) : Prop :=
  (exists u, cparents s = [u] /\ tab_ok u /\ exists w, In w ts /\ dataset_eqb u w = true) \/ UP s.

Lemma multi_len2 : multi ts -> forall P, (forall w, In w ts -> exists p, In p P /\ tab_ok p /\ dataset_eqb p w = true) -> 2 <= List.length P.
Proof.
  intros (a & b & Ha & Hb & Hab) P HP. destruct (HP a Ha) as (pa & Hpa & Ta & Ea). destruct (HP b Hb) as (pb & Hpb & Tb & Eb).
  apply (two_members P pa pb Hpa Hpb). intros ->. apply Hab. apply (go_distinct _ _ Hgo a b Ha Hb).
  apply (dataset_eqb_trans a pb b); [apply dataset_eqb_true_sym; exact Ea|exact Eb].
Qed.

Lemma Ucol_multi c : multi ts -> 2 <= List.length (cparents (Ucol ts c)).
Proof.
  intros Hm. destruct (Ucol_props ts c Hinj) as (_ & _ & U3). apply (multi_len2 Hm). intros w Hw. exists w.
  split; [apply U3; exact Hw|]. split; [apply ts_tab_ok; exact Hw|apply dataset_eqb_refl].
Qed.

Lemma HS_f g x :
  sinv g -> xref_ok_f x ->
  exists s s0, to_source_columns e x (get_alias_mapping g ts) = Ok [s] /\ S_of ts x = [s0] /\ col_eqb s s0 = true /\ srcp s.
Proof.
  intros Hs (_ & c & qq & Hx & Hc & Hq). unfold S_of. rewrite Hx. destruct qq as [q|].
  - destruct Hq as (v & Hqv). destruct (am_lookup_f g q v Hs Hqv) as (u & Ea & Eu & Hst). destruct Hqv as (Hv & Eq & Huq).
    rewrite (find_dalias ts q v Hv Eq (fun w Hw E => Huq w Hw (or_introl E))).
    exists {| craw := c; cparents := [u] |}, {| craw := c; cparents := [v] |}.
    split; [apply (tsc_qualified e x _ c q u); assumption|]. split; [reflexivity|].
    pose proof (tab_ok_eqb v u (ts_tab_ok v Hv) (stored_ok g u (sv_gok g Hs) Hst) (dataset_eqb_true_sym _ _ Eu)) as Tu.
    split.
    + unfold col_eqb, col_str, col_parent. cbn [cparents craw opt_dataset_eqb]. rewrite Eu, andb_true_r.
      rewrite (proj1 Tu), (go_tables _ _ Hgo v Hv), (tab_ok_eqb_dstr u v Tu (ts_tab_ok v Hv) Eu). apply String.eqb_refl.
    + left. exists u. split; [reflexivity|]. split; [exact Tu|]. exists v. auto.
  - destruct Hq as [(d1 & Ed)|(Hm & Hstar & Hnm)].
    + assert (Hd1 : In d1 ts) by (rewrite Ed; left; reflexivity).
      assert (Hall : forall y, In y (map snd (get_alias_mapping g ts)) -> dataset_eqb y d1 = true /\ stored g y).
      { intros y Hy. destruct (am_values_f g y Hy) as [K|[K (w & Hw & E)]].
        - rewrite Ed in K. destruct K as [<-|[]]. split; [apply dataset_eqb_refl|left; exact Hd1].
        - rewrite Ed in Hw. destruct Hw as [<-|[]]. auto. }
      destruct (dedup_all_eqb (map snd (get_alias_mapping g ts)) d1) as (u & Hu & Eu).
      { pose proof (am_covers_f g d1 Hs Hd1) as K. intros E0. rewrite E0 in K. destruct K. }
      { intros y Hy. exact (proj1 (Hall y Hy)). }
      destruct (Hall u Hu) as [Eq Hst]. rewrite Ed.
      exists {| craw := c; cparents := [u] |}, {| craw := c; cparents := [d1] |}.
      split; [apply tsc_unq_single; [exact Hx|exact Hc|rewrite <- Ed; exact Eu]|]. split; [reflexivity|].
      pose proof (tab_ok_eqb d1 u (ts_tab_ok d1 Hd1) (stored_ok g u (sv_gok g Hs) Hst) (dataset_eqb_true_sym _ _ Eq)) as Tu.
      split.
      * unfold col_eqb, col_str, col_parent. cbn [cparents craw opt_dataset_eqb]. rewrite Eq, andb_true_r.
        rewrite (proj1 Tu), (go_tables _ _ Hgo d1 Hd1), (tab_ok_eqb_dstr u d1 Tu (ts_tab_ok d1 Hd1) Eq). apply String.eqb_refl.
      * left. exists u. split; [reflexivity|]. split; [exact Tu|]. exists d1. auto.
    + rewrite (multi_not_single ts _ _ _ Hm).
      set (values := dedup_ds (map snd (get_alias_mapping g ts)) []).
      set (U := fold_left add_parent values {| craw := c; cparents := [] |}).
      assert (Hval : forall y, In y values -> tab_ok y /\ exists w, In w ts /\ dataset_eqb y w = true).
      { intros y Hy. apply In_dedup_ds in Hy. destruct (am_values_f g y Hy) as [K|[K (w & Hw & E)]].
        - split; [apply ts_tab_ok; exact K|]. exists y. split; [exact K|apply dataset_eqb_refl].
        - split; [|exists w; auto]. apply (tab_ok_eqb w y (ts_tab_ok w Hw) (stored_ok g y (sv_gok g Hs) K)). apply dataset_eqb_true_sym. exact E. }
      destruct (pfold_f values [] (fun y Hy => proj1 (Hval y Hy)) (fun y Hy => match Hy with end) (NoDup_nil _)) as (P1 & P2 & P3).
      assert (EU : U = {| craw := c; cparents := pfold values [] |}) by (unfold U; rewrite fold_add_parent_eq; reflexivity).
      assert (Hcov : forall w, In w ts -> exists p, In p (pfold values []) /\ tab_ok p /\ dataset_eqb p w = true).
      { intros w Hw. destruct (memd_dedup w _ [] (am_covers_f g w Hs Hw)) as [K|K]; [|discriminate K].
        apply memd_In_eqb in K. destruct K as (y & Hy & Ey). fold values in Hy.
        pose proof (P3 y (or_intror Hy)) as K2. apply memd_In_eqb in K2. destruct K2 as (p & Hp & Ep).
        exists p. destruct (P2 p Hp) as [[]|Hpv]. split; [exact Hp|]. split; [exact (proj1 (Hval p Hpv))|].
        apply dataset_eqb_true_sym. apply (dataset_eqb_trans w y p Ey Ep). }
      assert (Hlen : 2 <= List.length (pfold values [])).
      { apply (multi_len2 Hm). exact Hcov. }
      exists U, (Ucol ts c). split; [|split; [reflexivity|split]].
      * unfold to_source_columns. rewrite Hx. cbn [map concat_res]. rewrite Hc. apply String.eqb_neq in Hstar. rewrite Hstar. reflexivity.
      * unfold col_eqb, col_str. rewrite (col_parent_none U) by (rewrite EU; exact Hlen).
        rewrite (col_parent_none _ (Ucol_multi c Hm)). rewrite EU, (proj1 (Ucol_props ts c Hinj)). cbn [craw opt_dataset_eqb].
        rewrite String.eqb_refl. reflexivity.
      * right. rewrite EU. unfold UP. cbn [craw cparents]. split; [exact Hlen|]. split; [split; [exact Hnm|exact Hc]|]. split; [|split; [|exact P1]].
        -- intros p Hp0. destruct (P2 p Hp0) as [[]|Hpv]. exact (Hval p Hpv).
        -- intros w Hw. destruct (Hcov w Hw) as (p & Hp0 & _ & Ep). exists p. auto.
Qed.

(** ** edge lists up to Python equality *)
Definition eqbl (EL EL' : list (Graph.node * Graph.node)) : Prop :=
  Forall2 (fun p p' => node_eqb (fst p) (fst p') = true /\ node_eqb (snd p) (snd p') = true) EL EL'.

Lemma ematch_eqbl x y EL EL' : eqbl EL EL' -> ematch x y EL = ematch x y EL'.
Proof.
  induction 1 as [|p p' l l' [E1 E2] _ IH]; [reflexivity|]. rewrite !ematch_cons, IH.
  rewrite (node_eqb_cong_r _ _ x E1), (node_eqb_cong_r _ _ y E2). reflexivity.
Qed.

Lemma eqbl_In EL EL' p' :
  eqbl EL EL' -> In p' EL' -> exists p, In p EL /\ node_eqb (fst p) (fst p') = true /\ node_eqb (snd p) (snd p') = true.
Proof.
  induction 1 as [|p q l l' [E1 E2] _ IH]; intros Hin; [destruct Hin|]. destruct Hin as [<-|Hin]; [exists p; split; [left; reflexivity|auto]|].
  destruct (IH Hin) as (p0 & H0 & H1). exists p0. split; [right; exact H0|exact H1].
Qed.

Lemma ext_eqb g g' EL EL' : ext g g' EL -> eqbl EL EL' -> ext g g' EL'.
Proof.
  intros [A B C] H. constructor; [intros x y; rewrite A; f_equal; apply ematch_eqbl; exact H|exact B|].
  intros p' Hp'. destruct (eqbl_In EL EL' p' H Hp') as (p & Hp0 & E1 & E2). destruct (C p Hp0) as [N1 N2]. unfold has_node in *.
  rewrite <- (has_node_l_cong _ _ _ E1), <- (has_node_l_cong _ _ _ E2). auto.
Qed.

Lemma acl_edges_eqb s s0 tgt : col_eqb s s0 = true -> eqbl (acl_edges s tgt d) (acl_edges s0 tgt d).
Proof.
  intros E. unfold acl_edges. pose proof E as E'. unfold col_eqb in E'. apply andb_true_iff in E'. destruct E' as [_ E'].
  assert (R : forall n, node_eqb n n = true) by apply node_eqb_refl.
  constructor; [cbn [fst snd node_eqb]; rewrite E, col_eqb_refl; auto|]. constructor; [cbn [fst snd]; rewrite !R; auto|].
  destruct (col_parent s) as [u|], (col_parent s0) as [v|]; cbn [opt_dataset_eqb] in E'; try discriminate; [|constructor].
  constructor; [|constructor]. cbn [fst snd node_eqb]. auto.
Qed.

(** ** one source column feeding one target column *)
Lemma srcp_nok s : srcp s -> nok (NCol s).
Proof.
  intros [(u & Eu & Tu & _)|(_ & _ & HP & _ & _)]; cbn [nok].
  - rewrite Eu. constructor; [exact (proj2 Tu)|constructor].
  - apply Forall_forall. intros p0 Hp0. exact (proj2 (proj1 (HP p0 Hp0))).
Qed.

Lemma srcp_single s c p : srcp s -> NCol s = NCol c -> cparents c = [p] -> dk p = KTable.
Proof.
  intros Hs E Hc. inversion E. subst c. destruct Hs as [(u & Eu & Tu & _)|(Hl & _)].
  - rewrite Eu in Hc. inversion Hc. subst. exact (proj1 Tu).
  - rewrite Hc in Hl. cbn in Hl. lia.
Qed.

Lemma srcp_parent_not_target s sp : srcp s -> col_parent s = Some sp -> node_eqb (NData d) (NData sp) = false.
Proof.
  intros Hs Ep. apply col_parent_some in Ep. destruct Hs as [(u & Eu & _ & w & Hw & Ew)|(Hl & _)]; [|rewrite Ep in Hl; cbn in Hl; lia].
  rewrite Eu in Ep. inversion Ep. subst u. cbn [node_eqb]. destruct (dataset_eqb d sp) eqn:E; [|reflexivity].
  rewrite <- (go_target _ _ Hgo w Hw). symmetry. apply (dataset_eqb_trans w sp d); [apply dataset_eqb_true_sym; exact Ew|apply dataset_eqb_true_sym; exact E].
Qed.

Lemma QC_srcp s : srcp s -> QC (NCol s).
Proof. intros [(u & Eu & _)|H]; [left; rewrite Eu; reflexivity|right; exact H]. Qed.

Lemma sinv_ext g g' el : sinv g -> ext g g' el -> gok g' -> finv g' -> lits_in QC g' -> sinv g'.
Proof.
  intros [A1 A2 A3 A4] X G F Lq. constructor; [exact G|exact F| |exact Lq]. intros v Hv. destruct (A3 v Hv) as [B1 B2]. split.
  - rewrite (ext_edges _ _ _ X), B1. reflexivity.
  - apply (ext_mono _ _ _ X). exact B2.
Qed.

Lemma acl_ok_f g src tgt :
  sinv g -> cparents tgt = [d] -> srcp src ->
  exists g', add_column_lineage g src tgt = Ok g' /\ ext g g' (acl_edges src tgt d) /\ sinv g' /\
             (forall k, holder_nodes g' k = holder_nodes g k) /\
             List.length (out_edges g' (NData d)) <= S (List.length (out_edges g (NData d))).
Proof.
  intros Hs Ht Hsrc.
  assert (Hpt : col_parent tgt = Some d) by (unfold col_parent; rewrite Ht; reflexivity).
  assert (Hc1 : col1 tgt).
  { split; [cbn [nok]; rewrite Ht; constructor; [exact Hd_ok|constructor]|exists d; exact Ht]. }
  destruct (add_column_lineage_ok g src tgt (sv_gok g Hs) (srcp_nok src Hsrc) Hc1) as (g' & E' & Hgok' & Htags).
  exists g'. split; [exact E'|]. unfold add_column_lineage in E'. rewrite Hpt in E'.
  set (g1 := add_edge g (NCol src) (NCol tgt) lineage_edge) in *.
  set (g2 := add_edge g1 (NData d) (NCol tgt) (e_has_column None)) in *.
  assert (Qt : QC (NCol tgt)) by (left; rewrite Ht; reflexivity).
  assert (L1 : lits_in QC g1) by (apply lits_add_edge; [exact (sv_lits g Hs)|apply QC_srcp; exact Hsrc|exact Qt]).
  assert (L2 : lits_in QC g2) by (apply lits_add_edge; [exact L1|exact I|exact Qt]).
  assert (F1 : finv g1).
  { apply finv_add_edge_col; [exact (sv_finv g Hs)|discriminate|left; reflexivity|]. intros c p0 E Hc. exact (srcp_single src c p0 Hsrc E Hc). }
  assert (F2 : finv g2) by (apply finv_add_edge_col; [exact F1|discriminate|right; reflexivity|discriminate]).
  assert (X2 : ext g g2 ([(NCol src, NCol tgt)] ++ [(NData d, NCol tgt)])) by (apply (ext_trans g g1 g2); apply ext_add_edge).
  assert (O1 : out_edges g1 (NData d) = out_edges g (NData d)) by (apply out_edges_add_edge_other; reflexivity).
  assert (O2 : List.length (out_edges g2 (NData d)) <= S (List.length (out_edges g (NData d)))) by (rewrite <- O1; apply out_edges_add_edge_len).
  unfold acl_edges. destruct (col_parent src) as [sp|] eqn:Es.
  - inversion E'. subst g'. clear E'.
    assert (X3 : ext g (add_edge g2 (NData sp) (NCol src) (e_has_column None)) ([(NCol src, NCol tgt); (NData d, NCol tgt)] ++ [(NData sp, NCol src)])).
    { change ([(NCol src, NCol tgt); (NData d, NCol tgt)] ++ [(NData sp, NCol src)])
        with (([(NCol src, NCol tgt)] ++ [(NData d, NCol tgt)]) ++ [(NData sp, NCol src)]).
      apply (ext_trans g g2 _ _ _ X2). apply ext_add_edge. }
    split; [exact X3|]. split; [|split; [exact Htags|]].
    + apply (sinv_ext g _ _ Hs X3 Hgok').
      * apply finv_add_edge_col; [exact F2|discriminate|right; reflexivity|discriminate].
      * apply lits_add_edge; [exact L2|exact I|apply QC_srcp; exact Hsrc].
    + rewrite out_edges_add_edge_other; [exact O2|]. exact (srcp_parent_not_target src sp Hsrc Es).
  - inversion E'. subst g'. clear E'. rewrite app_nil_r. split; [exact X2|]. split; [|split; [exact Htags|exact O2]].
    apply (sinv_ext g _ _ Hs X2 Hgok' F2 L2).
Qed.

(** ** [end_of_query_cleanup] for the table group of this scope *)
Lemma eoq_step_f g2 idx ncols x :
  sinv g2 -> sq_write g2 = [d] -> xref_ok_f x -> List.length (out_edges g2 (NData d)) <= idx -> idx < ncols ->
  exists g3, eoq_step e ts ncols d g2 idx x = Ok g3 /\
             ext g2 g3 (flat_map (fun s => acl_edges s (own_col d x) d) (S_of ts x)) /\ sinv g3 /\
             (forall k, holder_nodes g3 k = holder_nodes g2 k) /\ List.length (out_edges g3 (NData d)) <= S idx.
Proof.
  intros Hs Hw Hx Ho Hn. destruct (HS_f g2 x Hs Hx) as (s & s0 & Et & ES & Ecol & Hsrc). destruct Hx as [Hx0 _].
  unfold eoq_step. rewrite Et. cbv zeta.
  assert (Etgt : (if Nat.eqb (List.length (write_columns g2)) ncols
                  then match nth_error (write_columns g2) idx with Some c => c | None => add_parent (xc x) d end
                  else add_parent (xc x) d) = own_col d x).
  { pose proof (write_columns_len g2 d Hw) as Hwl.
    replace (Nat.eqb (List.length (write_columns g2)) ncols) with false; [reflexivity|]. symmetry. apply Nat.eqb_neq. lia. }
  rewrite Etgt. cbn [fold_left].
  assert (Hown : cparents (own_col d x) = [d]) by (rewrite (own_col_eq d x Hx0); reflexivity).
  destruct (acl_ok_f g2 s (own_col d x) Hs Hown Hsrc) as (g3 & E3 & X3 & S3 & T3 & O3). rewrite E3.
  exists g3. split; [reflexivity|]. split; [|split; [exact S3|split; [exact T3|lia]]].
  rewrite ES. cbn [flat_map]. rewrite app_nil_r. apply (ext_eqb _ _ _ _ X3). apply acl_edges_eqb. exact Ecol.
Qed.

Lemma eoq_fold_f cols :
  (forall x, In x cols -> xref_ok_f x) ->
  forall l g2 idx,
    (forall x, In x l -> In x cols) -> sinv g2 -> sq_write g2 = [d] ->
    List.length (out_edges g2 (NData d)) <= idx -> idx + List.length l = List.length cols ->
    exists g', fst (fold_left (fun acc2 x => let '(rg, idx) := acc2 in
                                  (do g2 <- rg; eoq_step e ts (List.length cols) d g2 idx x, Datatypes.S idx)) l (Ok g2, idx)) = Ok g' /\
               ext g2 g' (sel_edges d (S_of ts) (own_pairs d l)) /\ sinv g' /\ (forall k, holder_nodes g' k = holder_nodes g2 k).
Proof.
  intros HX. induction l as [|x r IH]; intros g2 idx Hl Hs Hw Ho Hn; cbn [fold_left].
  - exists g2. split; [reflexivity|]. split; [apply ext_refl|]. split; [exact Hs|reflexivity].
  - cbn [List.length] in Hn.
    destruct (eoq_step_f g2 idx (List.length cols) x Hs Hw (HX x (Hl x (or_introl eq_refl))) Ho ltac:(lia)) as (g3 & E3 & X3 & S3 & T3 & O3).
    rewrite E3. assert (Hw3 : sq_write g3 = [d]) by (unfold sq_write; rewrite T3; exact Hw).
    destruct (IH g3 (Datatypes.S idx) (fun y Hy => Hl y (or_intror Hy)) S3 Hw3 O3 ltac:(lia)) as (g' & E' & X' & S' & T').
    exists g'. split; [exact E'|]. split.
    + unfold sel_edges, own_pairs. cbn [map flat_map fst snd]. apply (ext_trans g2 g3 g'); assumption.
    + split; [exact S'|]. intros k. rewrite T', T3. reflexivity.
Qed.

Lemma expand_wildcard_id_f g : finv g -> expand_wildcard e g = Ok g.
Proof.
  intros Hf. unfold expand_wildcard. destruct (get_target_table g) as [tgt|]; [|reflexivity].
  apply fold_res_id. intros c _. destruct (String.eqb (craw c) "*"); [|reflexivity].
  apply fold_res_id. intros sw Hsw. destruct (col_parent sw) as [st|] eqn:Est; [|reflexivity].
  assert (Hk : dk st = KTable).
  { unfold get_source_columns in Hsw. apply in_flat_map in Hsw. destruct Hsw as (e0 & He0 & Hsw).
    unfold in_edges in He0. apply filter_In in He0. destruct He0 as [He0 _].
    destruct (String.eqb (etype (snd e0)) "lineage"); [|destruct Hsw].
    destruct (fst (fst e0)) as [d0|c0|s0] eqn:Ef; [destruct Hsw| |destruct Hsw]. destruct Hsw as [->|[]].
    exact (fi_srcq g Hf e0 sw st He0 Ef (col_parent_some _ _ Est)). }
  rewrite Hk, Hprov. reflexivity.
Qed.

(** ** reading the tables of the FROM clause *)
Lemma add_reads_f : forall l g,
  (forall v, In v l -> In v ts) -> finv g -> lits_in QC g ->
  finv (fold_left add_read l g) /\ lits_in QC (fold_left add_read l g) /\
  ext g (fold_left add_read l g) (map (fun v => (NData v, NStr (dalias v))) l) /\
  out_edges (fold_left add_read l g) (NData d) = out_edges g (NData d).
Proof.
  induction l as [|v r IH]; intros g Hl Hf Hq; cbn [fold_left map].
  - split; [exact Hf|]. split; [exact Hq|]. split; [apply ext_refl|reflexivity].
  - assert (Hv : In v ts) by (apply Hl; left; reflexivity). pose proof (go_tables _ _ Hgo v Hv) as Hk.
    assert (F1 : finv (add_read g v)).
    { rewrite (add_read_table g v Hk). apply finv_add_edge_alias; [|exact Hv]. apply finv_add_node; [exact Hf|].
      intros [K|[]]. discriminate K. }
    assert (L1 : lits_in QC (add_read g v)).
    { rewrite (add_read_table g v Hk). apply lits_add_edge; [apply lits_add_node; [exact Hq|exact I]|exact I|exact I]. }
    assert (X1 : ext g (add_read g v) [(NData v, NStr (dalias v))]).
    { rewrite (add_read_table g v Hk).
      apply (ext_trans g (add_node g (NData v) [("read", true)]) _ [] _ (ext_add_node g _ _) (ext_add_edge _ _ _ _)). }
    assert (O1 : out_edges (add_read g v) (NData d) = out_edges g (NData d)).
    { rewrite (add_read_table g v Hk). rewrite out_edges_add_edge_other; [reflexivity|].
      cbn [node_eqb]. rewrite dataset_eqb_sym. apply (go_target _ _ Hgo v Hv). }
    destruct (IH (add_read g v) (fun w Hw => Hl w (or_intror Hw)) F1 L1) as (A1 & A2 & A3 & A4).
    split; [exact A1|]. split; [exact A2|]. split; [|rewrite A4; exact O1].
    apply (ext_trans g (add_read g v) _ [(NData v, NStr (dalias v))] _ X1 A3).
Qed.

(** ** the SELECT, on a holder [g1] that contains foreign material *)
Lemma select_core_f g1 cols :
  gok g1 -> finv g1 -> lits_in QC g1 -> sq_write g1 = [d] -> (forall y, has_edge g1 (NData d) y = false) ->
  (forall x, In x cols -> xref_ok_f x) ->
  exists sub, (do g2 <- end_of_query_cleanup e g1 ts cols []; expand_wildcard e g2) = Ok sub /\
              ext g1 sub (map (fun v => (NData v, NStr (dalias v))) ts ++ sel_edges d (S_of ts) (own_pairs d cols)) /\
              sinv sub /\ (forall k, k <> "read" -> holder_nodes sub k = holder_nodes g1 k).
Proof.
  intros Hg Hf Hq Hw Hno HX.
  destruct (add_reads_f ts g1 (fun v Hv => Hv) Hf Hq) as (A1 & A2 & A3 & A4).
  destruct (fold_add_read ts g1 Hg Hdo) as (G1 & G2 & _).
  rewrite eoq_single. cbv zeta. set (g0 := fold_left add_read ts g1) in *.
  assert (Hw0 : sq_write g0 = [d]) by (unfold sq_write; rewrite G2 by discriminate; exact Hw).
  rewrite Hw0.
  assert (Hs0 : sinv g0).
  { constructor; [exact G1|exact A1| |exact A2]. intros v Hv.
    assert (Hin : In (NData v, NStr (dalias v)) (map (fun v => (NData v, NStr (dalias v))) ts)) by (apply in_map_iff; exists v; auto).
    split.
    - rewrite (ext_edges _ _ _ A3). apply orb_true_iff. right. unfold ematch. apply existsb_exists. eexists. split; [exact Hin|].
      cbn [fst snd]. rewrite !node_eqb_refl. reflexivity.
    - exact (proj1 (ext_new _ _ _ A3 _ Hin)). }
  destruct (eoq_fold_f cols HX cols g0 0 (fun x Hx => Hx) Hs0 Hw0) as (g' & E' & X' & S' & T').
  - rewrite A4, (no_succ_out_edges g1 (NData d) Hno). cbn. lia.
  - reflexivity.
  - rewrite E'. rewrite (expand_wildcard_id_f g' (sv_finv g' S')).
    exists g'. split; [reflexivity|]. split; [apply (ext_trans g1 g0 g'); assumption|]. split; [exact S'|].
    intros k Hk. rewrite T'. apply G2. exact Hk.
Qed.
End Core.

(* ================================================================== *)
(** * Part 3: the statement holder realises the flows of the outer select items; what the sub-query left in the holder
      ([g1]) only has to be inert: its column edges end in columns of sub-queries, which have no successors *)

Lemma xref_ok_f_old ts L NM x : xref_ok_f ts L NM x -> xref_ok ts x.
Proof.
  intros (H0 & c & qq & Hx & Hc & Hq). split; [exact H0|]. exists c, qq. split; [exact Hx|]. split; [exact Hc|].
  destruct qq as [q|].
  - destruct Hq as (v & Hv & Eq & Hu). exists v. split; [exact Hv|]. split; [exact Eq|]. intros w Hw Hor. apply Hu; [exact Hw|tauto].
  - destruct Hq as [H|(Hm & Hs & _)]; [left; exact H|right; auto].
Qed.

Theorem holder_realises_f d ts L xs g1 sub :
  let NM := unres_names ts xs in
  let FL := flows_of (S_of ts) (own_pairs d xs) in
  group_ok d ts -> ts_inj ts -> Forall data_ok ts -> NoDup (map dstr ts) -> dk d = KTable ->
  (forall x, In x xs -> xref_ok_f ts L NM x) ->
  (forall nm, In nm NM -> exists x, In x xs /\ In (Ucol ts nm) (S_of ts x)) ->
  (forall x' s' nm v, In nm NM -> In x' xs -> In s' (S_of ts x') -> cparents s' = [v] -> craw s' <> nm) ->
  ext g1 sub (map (fun v => (NData v, NStr (dalias v))) ts ++ sel_edges d (S_of ts) (own_pairs d xs)) ->
  sinv ts L NM sub ->
  (forall x y, is_column x = true -> has_edge g1 x y = true -> parent_is KSubq y = true) ->
  (forall x y, parent_is KSubq x = true -> has_edge g1 x y = false) ->
  (forall nm y, has_edge g1 (NCol {| craw := nm; cparents := [d] |}) y = false) ->
  (forall nm p w, In nm NM -> tab_ok p -> In w ts -> dataset_eqb p w = true -> has_edge g1 (NData p) (NCol (mk_col nm p)) = false) ->
  let G := compose (add_write empty_graph d) sub in
  clean_holder G /\ lits_in (unres_ok G) G /\ realises_in G FL /\ flows_ok_in FL.
Proof.
  intros NM FL Hgo Hinj Hdo Hnds Hd HX HNM HNQ X Hs FR3 FR4 FR5 FR6 G.
  set (gb := add_write empty_graph d).
  assert (Tok : forall w, In w ts -> tab_ok w) by (intros w Hw; apply (ts_tab_ok d ts Hgo Hdo w Hw)).
  assert (HE : forall x y, has_edge G x y = has_edge g1 x y || (ematch x y (map (fun v => (NData v, NStr (dalias v))) ts) || ematch x y (sel_edges d (S_of ts) (own_pairs d xs)))).
  { intros x y. unfold G. rewrite has_edge_compose, (ext_edges _ _ _ X), ematch_app. reflexivity. }
  assert (HF : forall f, In f FL ->
               exists x s, In x xs /\ In s (S_of ts x) /\ f = (s, own_col d x) /\
                           ((exists v, In v ts /\ cparents s = [v]) \/
                            (exists nm, In nm NM /\ s = Ucol ts nm /\ escape nm = nm /\ 2 <= List.length (cparents s))) /\
                           own_col d x = {| craw := craw (xc x); cparents := [d] |}).
  { intros f Hf. unfold FL, flows_of in Hf. apply in_flat_map in Hf. destruct Hf as (p0 & Hp0 & Hf). apply in_map_iff in Hf.
    destruct Hf as (s & <- & Hs0). unfold own_pairs in Hp0. apply in_map_iff in Hp0. destruct Hp0 as (x & <- & Hx). cbn [fst snd] in *.
    destruct (S_of_props d ts xs x Hgo Hinj Hd Hx (xref_ok_f_old ts L NM x (HX x Hx))) as (A1 & _ & _ & _ & A5).
    exists x, s. split; [exact Hx|]. split; [exact Hs0|]. split; [reflexivity|]. split; [exact (A5 s Hs0)|apply own_col_eq; exact A1]. }
  assert (HEc : forall x y, is_column x = true ->
                has_edge G x y = has_edge g1 x y || ematch x y (map (fun f : flow => (NCol (fst f), NCol (snd f))) FL)).
  { intros x y Hx. rewrite HE, (ematch_alias_col x y ts Hx), (ematch_sel_col d (S_of ts) (own_pairs d xs) x y Hx). reflexivity. }
  assert (Rc : forall f, In f FL -> has_edge G (NCol (fst f)) (NCol (snd f)) = true).
  { intros f Hf. rewrite HEc by reflexivity. apply orb_true_iff. right. unfold ematch. apply existsb_exists. exists (NCol (fst f), NCol (snd f)).
    split; [apply in_map_iff; exists f; auto|]. cbn [fst snd]. rewrite !node_eqb_refl. reflexivity. }
  assert (F3 : forall f, In f FL -> parent_is KSubq (NCol (fst f)) = false).
  { intros f Hf. destruct (HF f Hf) as (x & s & _ & _ & -> & [(v & Hv & Ev)|(nm & _ & -> & _ & Hl)] & _); cbn [fst parent_is].
    - unfold col_parent. rewrite Ev, (go_tables _ _ Hgo v Hv). reflexivity.
    - rewrite (col_parent_none _ Hl). reflexivity. }
  assert (LG : lits_in (QC ts NM) G).
  { apply lits_compose; [|exact (sv_lits _ _ _ _ Hs)]. split; [intros n [<-|[]]; exact I|intros e0 []]. }
  assert (Ueq : forall c, UP ts NM c -> col_eqb c (Ucol ts (craw c)) = true /\
                          sort_strings (map dstr (cparents c)) = sort_strings (map dstr (cparents (Ucol ts (craw c))))).
  { intros c (Hl & Hnm & HP & Hcov & Hnd'). destruct (Ucol_props ts (craw c) Hinj) as (U1 & _ & U3).
    assert (Hl' : 2 <= List.length (cparents (Ucol ts (craw c)))).
    { destruct (cparents c) as [|p1 [|p2 r]] eqn:Ec; cbn [List.length] in Hl; try lia.
      destruct (HP p1 (or_introl eq_refl)) as [T1 (w1 & Hw1 & E1)]. destruct (HP p2 (or_intror (or_introl eq_refl))) as [T2 (w2 & Hw2 & E2)].
      apply (two_members _ w1 w2); [apply U3; exact Hw1|apply U3; exact Hw2|]. intros ->.
      cbn [map] in Hnd'. inversion Hnd'. apply H1. left.
      rewrite (tab_ok_eqb_dstr p2 w2 T2 (Tok w2 Hw2) E2), (tab_ok_eqb_dstr p1 w2 T1 (Tok w2 Hw2) E1). reflexivity. }
    split.
    - unfold col_eqb, col_str. rewrite (col_parent_none c Hl), (col_parent_none _ Hl'), U1. cbn [opt_dataset_eqb]. rewrite String.eqb_refl. reflexivity.
    - rewrite (unres_strs ts (craw c) Hinj Hnds). apply sort_strings_set_eq; [exact Hnd'|exact Hnds|].
      intros sx. rewrite !in_map_iff. split.
      + intros (p0 & <- & Hp0). destruct (HP p0 Hp0) as [T0 (w & Hw & E0)]. exists w. split; [symmetry; exact (tab_ok_eqb_dstr p0 w T0 (Tok w Hw) E0)|exact Hw].
      + intros (w & <- & Hw). destruct (Hcov w Hw) as (p0 & Hp0 & E0). exists p0. split; [exact (tab_ok_eqb_dstr p0 w (proj1 (HP p0 Hp0)) (Tok w Hw) E0)|exact Hp0]. }
  split; [|split; [|split]].
  - (* clean_holder *)
    split.
    + intros n a Hin. destruct (attr_true "drop" a) eqn:E; [|reflexivity]. exfalso. apply attr_true_In in E.
      refine (drop_free_compose gb sub _ (fi_drop _ _ _ (sv_finv _ _ _ _ Hs)) n a Hin E).
      intros n0 a0 [H|[]]. inversion H. intros [K|[]]. discriminate K.
    + apply (etype_compose (fun s => String.eqb s "rename" = false)); [intros e0 []|].
      intros e0 He0. destruct (fi_types _ _ _ (sv_finv _ _ _ _ Hs) e0 He0) as [-> |[-> | ->]]; reflexivity.
  - (* unresolved columns *)
    apply (lits_weaken (QC ts NM)); [|exact LG]. intros n Hn u Hu. destruct n as [|c|]; cbn [unresolved] in Hu; try discriminate.
    cbn [QC] in Hn. destruct Hn as [Hn|Hn]; [rewrite Hn in Hu; cbn in Hu; discriminate|].
    destruct (Nat.ltb 1 (List.length (cparents c))); [|discriminate]. inversion Hu. subst u. clear Hu.
    pose proof Hn as (Hl & [Hnm Eesc] & HP & Hcov & Hnd'). split.
    + unfold candidates_in_graph. apply flat_map_none. intros p Hp.
      destruct (has_edge G (NData p) (NCol (mk_col (craw c) p))) eqn:Ehe; [|reflexivity]. exfalso.
      destruct (HP p Hp) as [Tp (w & Hw & Ew)].
      rewrite HE, (FR6 (craw c) p w Hnm Tp Hw Ew), ematch_alias_ycol in Ehe. cbn [orb] in Ehe.
      apply ematch_sel_data in Ehe. destruct Ehe as (p' & s' & Hp' & Hs' & [[K _]|(sp & Esp & K1 & K2)]).
      * assert (Kw : dataset_eqb w d = true) by (apply (dataset_eqb_trans w p d); [apply dataset_eqb_true_sym; exact Ew|exact K]).
        rewrite (go_target _ _ Hgo w Hw) in Kw. discriminate.
      * unfold own_pairs in Hp'. apply in_map_iff in Hp'. destruct Hp' as (x' & <- & Hx'). cbn [fst] in Hs'.
        destruct (S_of_props d ts xs x' Hgo Hinj Hd Hx' (xref_ok_f_old ts L NM x' (HX x' Hx'))) as (_ & _ & _ & _ & A5).
        destruct (A5 s' Hs') as [(v & Hv & Ev)|(nm' & _ & -> & _ & Hl')]; [|rewrite (col_parent_none _ Hl') in Esp; discriminate].
        unfold col_parent in Esp. rewrite Ev in Esp. inversion Esp. subst sp.
        cbn [node_eqb] in K2. unfold col_eqb in K2. apply andb_true_iff in K2. destruct K2 as [K2 _]. apply String.eqb_eq in K2.
        unfold col_str, col_parent, mk_col in K2. cbn [cparents craw] in K2. rewrite Ev, (proj1 Tp), (go_tables _ _ Hgo v Hv) in K2.
        rewrite (tab_ok_eqb_dstr p v Tp (Tok v Hv) K1) in K2. apply append_cancel in K2. apply append_cancel in K2.
        rewrite Eesc in K2. apply (HNQ x' s' (craw c) v Hnm Hx' Hs' Ev). symmetry. exact K2.
    + destruct (HNM (craw c) Hnm) as (x & Hx & Hsx). exists (NCol (own_col d x)).
      rewrite (has_edge_cong_l G (NCol c) (NCol (Ucol ts (craw c)))) by (cbn [node_eqb]; exact (proj1 (Ueq c Hn))).
      apply (Rc (Ucol ts (craw c), own_col d x)). unfold FL, flows_of. apply in_flat_map. exists (x, own_col d x).
      split; [unfold own_pairs; apply in_map_iff; exists x; auto|]. apply in_map_iff. exists (Ucol ts (craw c)). auto.
  - (* realises_in *)
    constructor.
    + intros x y Hx Hxy. rewrite (HEc x y Hx) in Hxy. apply orb_true_iff in Hxy. destruct Hxy as [Hxy|Hxy].
      * right. split; [exact (FR3 x y Hx Hxy)|]. intros f Hf. destruct (HF f Hf) as (x0 & s & _ & _ & -> & _ & Eo). cbn [snd]. rewrite Eo.
        destruct (node_eqb x _) eqn:E; [|reflexivity]. rewrite (has_edge_cong_l g1 _ _ y E), FR5 in Hxy. discriminate.
      * left. unfold ematch in Hxy. apply existsb_exists in Hxy.
        destruct Hxy as (p & Hp & E). apply in_map_iff in Hp. destruct Hp as (f & <- & Hf). cbn [fst snd] in E.
        apply andb_true_iff in E. exists f. tauto.
    + intros x y Hx. assert (Hxc : is_column x = true) by (destruct x; cbn in Hx; try discriminate; reflexivity).
      rewrite (HEc x y Hxc), (FR4 x y Hx). cbn [orb]. destruct (ematch x y _) eqn:E; [|reflexivity]. exfalso.
      unfold ematch in E. apply existsb_exists in E. destruct E as (p & Hp0 & E). apply in_map_iff in Hp0. destruct Hp0 as (f & <- & Hf).
      cbn [fst snd] in E. apply andb_true_iff in E. destruct E as [E _]. rewrite (parent_is_eqb KSubq _ _ E), (F3 f Hf) in Hx. discriminate.
    + exact Rc.
    + intros f Hf. destruct (HF f Hf) as (x & s & Hx & Hs0 & -> & _).
      assert (Hin : In (NCol s, NCol (own_col d x)) (map (fun v => (NData v, NStr (dalias v))) ts ++ sel_edges d (S_of ts) (own_pairs d xs))).
      { apply in_app_iff. right. unfold sel_edges. apply in_flat_map. exists (x, own_col d x). split; [unfold own_pairs; apply in_map_iff; exists x; auto|].
        apply in_flat_map. exists s. split; [exact Hs0|]. left. reflexivity. }
      destruct (ext_new _ _ _ X _ Hin) as [N1 N2]. cbn [fst snd] in *. unfold G. rewrite !has_node_compose, N1, N2, !orb_true_r. auto.
    + apply (lits_weaken (QC ts NM)); [|exact LG]. intros n Hn f Hf E.
      destruct (HF f Hf) as (x & s & _ & _ & -> & [(v & _ & Ev)|(nm & _ & -> & _ & Hl)] & _); cbn [fst] in *.
      * apply (src_str_eqb_single n s v); [unfold col_parent; rewrite Ev; reflexivity|exact E].
      * destruct n as [|c|]; cbn [node_eqb] in E; try discriminate. cbn [QC] in Hn.
        unfold col_eqb in E. apply andb_true_iff in E. destruct E as [E1 E2]. rewrite (col_parent_none _ Hl) in E2.
        destruct Hn as [Hn|Hn].
        -- unfold col_parent in E2. destruct (cparents c) as [|p1 [|p2 r]]; cbn [List.length] in Hn; discriminate.
        -- destruct (Ueq c Hn) as [_ Estr]. pose proof Hn as (Hlc & _).
           apply String.eqb_eq in E1. unfold col_str in E1. rewrite (col_parent_none _ Hl), (col_parent_none _ Hlc) in E1.
           rewrite (proj1 (Ucol_props ts nm Hinj)) in E1. cbn [src_str]. rewrite (col_parent_none _ Hlc), (col_parent_none _ Hl), Estr, E1.
           rewrite (proj1 (Ucol_props ts nm Hinj)). reflexivity.
  - (* flows_ok_in *)
    split; [split|exact F3].
    + intros f f' Hf Hf'. destruct (HF f Hf) as (x & s & _ & _ & -> & _ & Eo).
      destruct (HF f' Hf') as (x' & s' & _ & _ & -> & Hk & _). cbn [fst snd]. rewrite Eo.
      unfold col_eqb. destruct Hk as [(v' & Hv' & Ev')|(nm & _ & -> & _ & Hl)].
      * unfold col_parent. cbn [cparents]. rewrite Ev'. cbn [opt_dataset_eqb].
        rewrite dataset_eqb_sym, (go_target _ _ Hgo v' Hv'). apply andb_false_r.
      * rewrite (col_parent_none _ Hl). unfold col_parent at 1. cbn [cparents opt_dataset_eqb]. apply andb_false_r.
    + intros f Hf. destruct (HF f Hf) as (x & s & _ & _ & -> & _ & Eo). cbn [snd]. rewrite Eo.
      cbn [parent_is col_parent cparents]. rewrite Hd. reflexivity.
Qed.

(* ================================================================== *)
(** * Part 4: composing the holder of the sub-query into the holder of the enclosing SELECT *)

(** edge properties that are stable under Python equality of the end points and depend on the attributes through
    the edge type only are preserved by [compose] *)
Lemma compose_edge_pred (P : Graph.node -> Graph.node -> eattrs -> Prop) g h :
  (forall u v a u' v', P u v a -> node_eqb u u' = true -> node_eqb v v' = true -> P u' v' a) ->
  (forall u v a a', P u v a -> etype a' = etype a -> P u v a') ->
  (forall e0, In e0 (gedges g) -> P (fst (fst e0)) (snd (fst e0)) (snd e0)) ->
  (forall e0, In e0 (gedges h) -> P (fst (fst e0)) (snd (fst e0)) (snd e0)) ->
  forall e0, In e0 (gedges (compose g h)) -> P (fst (fst e0)) (snd (fst e0)) (snd e0).
Proof.
  intros Hq Ha Hg Hh. unfold compose. cbn [gedges]. set (ns := fold_left _ (gnodes h) (gnodes g)). clearbody ns.
  revert Hh. generalize (gedges g) Hg. induction (gedges h) as [|e1 r IH]; intros l Hl Hr; cbn [fold_left]; [exact Hl|].
  apply IH.
  - intros e0 He. apply In_upsert_edge' in He.
    pose proof (Hr e1 (or_introl eq_refl)) as P1.
    destruct He as [->|[He|(e2 & He2 & E2 & ->)]].
    + cbn [fst snd]. apply (Hq _ _ _ _ _ P1); apply canon_eqb.
    + apply Hl. exact He.
    + cbn [fst snd]. unfold edge_is in E2. apply andb_true_iff in E2. destruct E2 as [E21 E22].
      apply (Ha _ _ (snd e1)); [|reflexivity].
      apply (Hq _ _ _ _ _ P1); [apply (node_eqb_trans _ _ _ (canon_eqb _ ns) E21)|apply (node_eqb_trans _ _ _ (canon_eqb _ ns) E22)].
  - intros e0 He. apply Hr. right. exact He.
Qed.

Lemma no_members_nil {A} (l : list A) : (forall x, ~ In x l) -> l = [].
Proof. destruct l as [|a r]; [reflexivity|]. intros H. exfalso. apply (H a). left. reflexivity. Qed.

Lemma noeqb_single l d0 : noeqb l -> (forall x, In x l -> x = d0) -> In d0 l -> l = [d0].
Proof.
  destruct l as [|x r]; intros Hn Hall Hin; [destruct Hin|]. rewrite (Hall x (or_introl eq_refl)) in *. f_equal.
  destruct r as [|y r']; [reflexivity|]. exfalso. cbn [noeqb] in Hn. destruct Hn as [Hn _].
  specialize (Hn y (or_introl eq_refl)). rewrite (Hall y (or_intror (or_introl eq_refl))), dataset_eqb_refl in Hn. discriminate.
Qed.

Lemma uniq_compose g h : uniq (gnodes g) -> uniq (gnodes (compose g h)).
Proof. intros H. unfold compose. cbn [gnodes]. exact (uniq_upserts (gnodes h) (gnodes g) H). Qed.

(** the holder of the enclosing query with the sub-query holder composed in *)
Definition frame_of (gb sh : graph) (sqd : dataset) : graph := compose gb (set_attr sh [NData sqd] "write" false).

Lemma frame_tags gb sh sqd d0 :
  gok gb -> gok sh -> dk sqd = KSubq -> dk d0 = KTable -> sq_write gb = [d0] -> sq_cte gb = [] ->
  holder_nodes sh "write" = [sqd] -> holder_nodes sh "cte" = [] ->
  gok (frame_of gb sh sqd) /\ sq_write (frame_of gb sh sqd) = [d0] /\ sq_cte (frame_of gb sh sqd) = [].
Proof.
  intros Hgb Hsh Hk Hd Hw Hc Hsw Hsc. unfold frame_of.
  pose proof (gok_set_attr_write sh sqd Hsh Hk) as Hsa.
  assert (Ew : forall x, ~ In x (holder_nodes (set_attr sh [NData sqd] "write" false) "write")).
  { intros x Hx. apply tag_set_attr_write in Hx. destruct Hx as [Hx Hne]. rewrite Hsw in Hx. destruct Hx as [<-|[]].
    rewrite dataset_eqb_refl in Hne. discriminate. }
  split; [apply gok_compose; assumption|]. split.
  - unfold sq_write in *. apply noeqb_single.
    + rewrite holder_nodes_hn. apply hn_noeqb. apply uniq_compose. exact (proj1 (proj1 Hgb)).
    + intros x Hx. destruct (tag_compose_sound gb _ "write" x Hsa Hx) as [K|(d' & K & _)]; [rewrite Hw in K; destruct K as [<-|[]]; reflexivity|].
      exfalso. exact (Ew d' K).
    + apply tag_compose_mono; [exact Hsa|right; rewrite Hd; discriminate|rewrite Hw; left; reflexivity].
  - unfold sq_cte in *. apply no_members_nil. intros x Hx.
    destruct (tag_compose_sound gb _ "cte" x Hsa Hx) as [K|(d' & K & _)]; [rewrite Hc in K; exact K|].
    rewrite (tag_set_attr_other sh _ "write" false "cte") in K by discriminate. rewrite Hsc in K. exact K.
Qed.

Lemma frame_edges gb sh sqd x y : (forall x y, has_edge gb x y = false) -> has_edge (frame_of gb sh sqd) x y = has_edge sh x y.
Proof. intros H. unfold frame_of. rewrite has_edge_compose, has_edge_set_attr, H. reflexivity. Qed.

(** ** navigation: a rendered SELECT over base tables with WHERE c IN (sub-query) *)
Section NavW.
Variable noise : list seg.
Hypothesis Hnoise : noise_ok noise = true.
Variable e : env.
Hypothesis Henv : env_ok e = true.

Lemma extract_select_where f stmt items from cj k c sq ctx sh :
  sel_segments stmt = [r_sc noise items; r_fc noise (S k) from cj; r_where noise (S k) c sq] ->
  forallb item_ok items = true -> from <> [] -> forallb rel_ok from = true -> body_ok (S k) sq = true ->
  let sqd := mk_subquery (r_brq noise (S k) sq) None in
  extract (S f) e XSelect (r_brq noise (S k) sq)
          {| c_cte := Some (sq_cte (init_holder ctx)); c_write := Some [sqd]; c_write_columns := None |} = Ok sh ->
  sq_cte (frame_of (init_holder ctx) sh sqd) = [] ->
  extract (S (S f)) e XSelect stmt ctx =
  (do g2 <- end_of_query_cleanup e (frame_of (init_holder ctx) sh sqd) (map (tbl_of e) from) (map xcol_of items) []; expand_wildcard e g2).
Proof.
  intros Hseg Hit Hne Hrel Hsq sqd Hsh Hc. rewrite extract_select_eq, Hseg.
  assert (Hrt : forallb is_rtable from = true).
  { rewrite forallb_forall in *. intros r Hr. specialize (Hrel r Hr). destruct r; try discriminate. reflexivity. }
  unfold sel_subqueries. cbn [map concat_res].
  rewrite (sel_subq1_sc noise Hnoise items Hit), (sel_subq1_fc_tables noise Hnoise (S k) from cj Hne Hrt),
          (sel_subq1_where noise Hnoise k c sq (body_ok_is_body _ _ Hsq)).
  cbn [app]. fold sqd. rewrite ex_subquery_cons.
  assert (Edq : dquery sqd = Some (r_brq noise (S k) sq)) by reflexivity. rewrite Edq.
  rewrite (gc_brq_with noise Hnoise _ _ Hsq). cbv zeta. rewrite Hsh. fold (frame_of (init_holder ctx) sh sqd).
  unfold ex_subquery at 1. cbn [fold_left].
  unfold sel_fold. rewrite sel_fold_clauses.
  - cbn [fold_left]. rewrite (handle_child_sc_exact noise Hnoise e Henv f _ items Hit). rewrite (handle_child_fc noise e Henv).
    cbn [s_g s_tables s_columns s_barriers app].
    rewrite (list_tables_exact noise Hnoise e Henv (S k) from cj _ Hne Hrel Hc). rewrite (handle_child_where noise e Henv).
    cbn [s_g s_tables s_columns s_barriers]. reflexivity.
  - intros s [<-|[<-|[<-|[]]]]; [apply (ise_sc noise Hnoise)|apply (ise_fc noise Hnoise)|apply (ise_where noise Hnoise)].
Qed.

(** INSERT INTO t / CREATE TABLE t AS / CREATE VIEW t AS over a SELECT: up to the delegation to the SELECT extractor *)
Lemma analyze_insert_q t items from cj wh :
  tref_ok t = true ->
  let q := QSelect items from cj wh in
  let stmt := r_stmt noise (SInsert t None q) in
  analyze e false stmt =
  (do sub <- extract (S (S (S (3 * depth stmt + 6)))) e XSelect (r_query noise (S (q_size q)) q) (dctx (add_write empty_graph (tbl e t None)));
   Ok (compose (add_write empty_graph (tbl e t None)) sub)).
Proof.
  intros Ht q stmt0. set (k := q_size q). set (Q := r_query noise (S k) q).
  set (stmt := node "insert_statement" ["insert_statement"] (sep noise ([kw "insert"; kw "into"; r_tref t] ++ cols_part noise None ++ [Q]))).
  assert (Es : stmt0 = stmt) by reflexivity. rewrite Es.
  assert (Ea : analyze e false stmt = extract (S (S (S (S (3 * depth stmt + 6))))) e XCreateInsert stmt empty_ctx).
  { replace (S (S (S (S (3 * depth stmt + 6))))) with (3 * depth stmt + 10) by lia. reflexivity. }
  set (F := 3 * depth stmt + 6) in *.
  rewrite Ea, extract_ci_eq. unfold stmt at 2. rewrite (lcs_node noise Hnoise) by reflexivity.
  rewrite !filter_app. cbn [cols_part filter app]. change (nn (kw "insert")) with true. change (nn (kw "into")) with true.
  change (nn (r_tref t)) with true. unfold Q at 1. rewrite (nn_rq noise). cbn iota. fold Q.
  change (init_holder empty_ctx) with empty_graph. cbn [app fold_left].
  rewrite (ci_kw_target e (S (S (S F))) stmt empty_graph false false "insert" eq_refl), (ci_kw_target e (S (S (S F))) stmt empty_graph true false "into" eq_refl).
  rewrite (ci_tref e Henv), (table_of_seg_exact e Henv t None Ht I).
  unfold Q, q. rewrite ci_select. unfold ex_delegate. fold (dctx (add_write empty_graph (tbl e t None))).
  destruct (extract (S (S (S F))) e XSelect _ _); reflexivity.
Qed.

Lemma analyze_create_q (view : bool) t items from cj wh :
  tref_ok t = true ->
  let q := QSelect items from cj wh in
  let stmt := r_stmt noise (if view then SView t q else SCtas t q) in
  analyze e false stmt =
  (do sub <- extract (S (S (S (3 * depth stmt + 6)))) e XSelect (r_query noise (S (q_size q)) q) (dctx (add_write empty_graph (tbl e t None)));
   Ok (compose (add_write empty_graph (tbl e t None)) sub)).
Proof.
  intros Ht q stmt0. set (k := q_size q). set (Q := r_query noise (S k) q).
  set (ty0 := if view then "create_view_statement" else "create_table_statement").
  set (w0 := if view then "view" else "table").
  set (stmt := node ty0 [ty0] (sep noise [kw "create"; kw w0; r_tref t; kw "as"; Q])).
  assert (Es : stmt0 = stmt) by (unfold stmt0; destruct view; reflexivity). rewrite Es.
  assert (Ea : analyze e false stmt = extract (S (S (S (S (3 * depth stmt + 6))))) e XCreateInsert stmt empty_ctx).
  { replace (S (S (S (S (3 * depth stmt + 6))))) with (3 * depth stmt + 10) by lia. destruct view; reflexivity. }
  set (F := 3 * depth stmt + 6) in *.
  rewrite Ea, extract_ci_eq. unfold stmt at 2. rewrite (lcs_node noise Hnoise) by (destruct view; reflexivity).
  cbn [filter]. change (nn (kw "create")) with true. change (nn (kw w0)) with true. change (nn (kw "as")) with true.
  change (nn (r_tref t)) with true. unfold Q at 1. rewrite (nn_rq noise). cbn iota. fold Q.
  change (init_holder empty_ctx) with empty_graph. cbn [fold_left].
  rewrite (ci_kw_other e (S (S (S F))) stmt empty_graph false "create" eq_refl eq_refl).
  rewrite (ci_kw_target e (S (S (S F))) stmt empty_graph false false w0) by (destruct view; reflexivity).
  rewrite (ci_tref e Henv), (table_of_seg_exact e Henv t None Ht I).
  rewrite (ci_kw_other e (S (S (S F))) stmt _ false "as" eq_refl eq_refl).
  unfold Q, q. rewrite ci_select. unfold ex_delegate. fold (dctx (add_write empty_graph (tbl e t None))).
  destruct (extract (S (S (S F))) e XSelect _ _); reflexivity.
Qed.
End NavW.

(** ** the holder of a sub-query without unresolved columns, and what it leaves in the holder of the enclosing query *)
Definition LF : string -> dataset -> Prop := fun _ _ => False.
Definition leak (ts' : list dataset) (a : string) (w : dataset) : Prop :=
  exists v', In v' ts' /\ a = dalias v' /\ dataset_eqb v' w = true.

Lemma S_of_resolved ts L x s :
  xref_ok_f ts L [] x -> In s (S_of ts x) ->
  exists v c qq, In v ts /\ s = {| craw := c; cparents := [v] |} /\ xsrc x = [(c, qq)].
Proof.
  intros (_ & c & qq & Hx & _ & Hq) Hs. unfold S_of in Hs. rewrite Hx in Hs. destruct qq as [q|].
  - destruct Hq as (v & Hv & Eq & Hu). rewrite (find_dalias ts q v Hv Eq (fun w Hw E => Hu w Hw (or_introl E))) in Hs.
    destruct Hs as [<-|[]]. exists v, c, (Some q). auto.
  - destruct Hq as [(d1 & ->)|(_ & _ & [])]. destruct Hs as [<-|[]]. exists d1, c, None. split; [left; reflexivity|auto].
Qed.

Lemma ematch_sel_ystr d S l x a : ematch x (NStr a) (sel_edges d S l) = false.
Proof.
  unfold ematch. apply existsb_none. intros p Hp. unfold sel_edges in Hp. apply in_flat_map in Hp. destruct Hp as (x0 & _ & Hp).
  apply in_flat_map in Hp. destruct Hp as (s & _ & Hp). unfold acl_edges in Hp. cbn [app In] in Hp.
  destruct Hp as [<-|[<-|Hp]]; cbn [fst snd node_eqb]; try apply andb_false_r.
  destruct (col_parent s); [|destruct Hp]. destruct Hp as [<-|[]]. cbn [fst snd node_eqb]. apply andb_false_r.
Qed.

Lemma ematch_alias_in x y (ts : list dataset) :
  ematch x y (map (fun v => (NData v, NStr (dalias v))) ts) = true ->
  exists v, In v ts /\ node_eqb x (NData v) = true /\ y = NStr (dalias v).
Proof.
  unfold ematch. intros H. apply existsb_exists in H. destruct H as (p & Hp & E). apply in_map_iff in Hp. destruct Hp as (v & <- & Hv).
  cbn [fst snd] in E. apply andb_true_iff in E. destruct E as [E1 E2]. exists v. split; [exact Hv|]. split; [exact E1|].
  rewrite node_eqb_sym in E2. apply eqb_shape_str in E2. exact E2.
Qed.

Lemma drop_free_set_attr_write g ns : drop_free g -> drop_free (set_attr g ns "write" false).
Proof.
  intros H n a Hin. unfold set_attr in Hin. cbn [gnodes] in Hin. apply in_map_iff in Hin. destruct Hin as ([m b] & E & Hin). cbn [fst snd] in E.
  destruct (existsb (node_eqb m) ns); inversion E; subst n a.
  - intros K. apply In_attr_set in K. destruct K as [K|K]; [discriminate K|exact (H m b Hin K)].
  - exact (H m b Hin).
Qed.

Section Frame.
Variable e : env.
Hypothesis Hprov : p_truthy (e_provider e) = false.
(** the sub-query: its node, tables, select items *)
Variable sqd : dataset.
Hypothesis Hsqk : dk sqd = KSubq.
Hypothesis Hsqok : data_ok sqd.
Variable ts' : list dataset.
Variable xs' : list xcol.
Hypothesis Hgo' : group_ok sqd ts'.
Hypothesis Hinj' : ts_inj ts'.
Hypothesis Hnd' : names_nodot ts'.
Hypothesis Hdo' : Forall data_ok ts'.
Hypothesis HX' : forall x, In x xs' -> xref_ok_f ts' LF [] x.

Definition EL' := map (fun v => (NData v, NStr (dalias v))) ts' ++ sel_edges sqd (S_of ts') (own_pairs sqd xs').

Lemma inner_holder :
  exists sh, (do g2 <- end_of_query_cleanup e (add_write empty_graph sqd) ts' xs' []; expand_wildcard e g2) = Ok sh /\
             (forall x y, has_edge sh x y = ematch x y EL') /\ sinv ts' LF [] sh /\
             holder_nodes sh "write" = [sqd] /\ holder_nodes sh "cte" = [].
Proof.
  set (gbi := add_write empty_graph sqd).
  assert (G : gok gbi) by (apply gok_add_tag; [apply gok_empty|exact Hsqok]).
  assert (F : finv ts' LF gbi).
  { constructor; [intros e0 src a []|intros e0 []|intros e0 c p []|].
    intros n a [H|[]]. inversion H. intros [K|[]]. discriminate K. }
  assert (Lq : lits_in (QC ts' []) gbi) by (split; [intros n [<-|[]]; exact I|intros e0 []]).
  destruct (select_core_f e Hprov sqd ts' Hgo' Hinj' Hnd' Hdo' Hsqok LF (fun a w v K _ => match K with end) [] gbi xs' G F Lq eq_refl (fun y => eq_refl) HX')
    as (sh & E & X & S & T).
  exists sh. split; [exact E|]. split; [intros x y; rewrite (ext_edges _ _ _ X); reflexivity|]. split; [exact S|].
  split; [rewrite T by discriminate; reflexivity|rewrite T by discriminate; reflexivity].
Qed.

(** the enclosing query *)
Variable d : dataset.
Variable ts : list dataset.
Variable NM : list string.
Hypothesis Hd : dk d = KTable.
Hypothesis Hd_ok : data_ok d.
Hypothesis Hgo : group_ok d ts.
Hypothesis Hdo : Forall data_ok ts.
Hypothesis Hnoself : forall v', In v' ts' -> dataset_eqb v' d = false.
Hypothesis Hcross : forall nm x' c qq, In nm NM -> In x' xs' -> xsrc x' = [(c, qq)] -> c <> escape nm.

Lemma frame_facts sh :
  (forall x y, has_edge sh x y = ematch x y EL') -> sinv ts' LF [] sh ->
  holder_nodes sh "write" = [sqd] -> holder_nodes sh "cte" = [] ->
  let g1 := frame_of (add_write empty_graph d) sh sqd in
  gok g1 /\ finv ts (leak ts') g1 /\ lits_in (QC ts NM) g1 /\ sq_write g1 = [d] /\ sq_cte g1 = [] /\
  (forall y, has_edge g1 (NData d) y = false) /\
  (forall x y, is_column x = true -> has_edge g1 x y = true -> parent_is KSubq y = true) /\
  (forall x y, parent_is KSubq x = true -> has_edge g1 x y = false) /\
  (forall nm y, has_edge g1 (NCol {| craw := nm; cparents := [d] |}) y = false) /\
  (forall nm p w, In nm NM -> tab_ok p -> In w ts -> dataset_eqb p w = true -> has_edge g1 (NData p) (NCol (mk_col nm p)) = false).
Proof.
  intros HE Hs Tw Tc g1. set (gb := add_write empty_graph d).
  assert (Gb : gok gb) by (apply gok_add_tag; [apply gok_empty|exact Hd_ok]).
  destruct (frame_tags gb sh sqd d Gb (sv_gok _ _ _ _ Hs) Hsqk Hd eq_refl eq_refl Tw Tc) as (G1 & W1 & C1).
  assert (HE1 : forall x y, has_edge g1 x y = ematch x y EL') by (intros x y; unfold g1; rewrite frame_edges by reflexivity; apply HE).
  assert (Tok' : forall w, In w ts' -> tab_ok w) by (intros w Hw; apply (ts_tab_ok sqd ts' Hgo' Hdo' w Hw)).
  assert (Tok : forall w, In w ts -> tab_ok w) by (intros w Hw; apply (ts_tab_ok d ts Hgo Hdo w Hw)).
  (* the column flows of the sub-query *)
  assert (HF : forall x y, is_column x = true -> ematch x y EL' = true ->
               exists x' v c qq, In x' xs' /\ In v ts' /\ xsrc x' = [(c, qq)] /\ node_eqb x (NCol {| craw := c; cparents := [v] |}) = true /\
                                 node_eqb y (NCol (own_col sqd x')) = true).
  { intros x y Hx H. unfold EL' in H. rewrite ematch_app, (ematch_alias_col x y ts' Hx), (ematch_sel_col sqd (S_of ts') _ x y Hx) in H. cbn [orb] in H.
    unfold ematch in H. apply existsb_exists in H. destruct H as (p & Hp0 & E). apply in_map_iff in Hp0. destruct Hp0 as (f & <- & Hf).
    cbn [fst snd] in E. apply andb_true_iff in E. destruct E as [E1 E2].
    unfold flows_of in Hf. apply in_flat_map in Hf. destruct Hf as (p0 & Hp0 & Hf). apply in_map_iff in Hf. destruct Hf as (s & <- & Hs0).
    unfold own_pairs in Hp0. apply in_map_iff in Hp0. destruct Hp0 as (x' & <- & Hx'). cbn [fst snd] in *.
    destruct (S_of_resolved ts' LF x' s (HX' x' Hx') Hs0) as (v & c & qq & Hv & -> & Exs). exists x', v, c, qq. auto. }
  assert (Hown : forall x', In x' xs' -> own_col sqd x' = {| craw := craw (xc x'); cparents := [sqd] |}).
  { intros x' Hx'. apply own_col_eq. exact (proj1 (HX' x' Hx')). }
  (* edges from a dataset to a column *)
  assert (HD : forall p y, ematch (NData p) (NCol y) EL' = true ->
               dataset_eqb p sqd = true \/ exists x' v c qq, In x' xs' /\ In v ts' /\ xsrc x' = [(c, qq)] /\ dataset_eqb p v = true /\
                                                            col_eqb y {| craw := c; cparents := [v] |} = true).
  { intros p y H. unfold EL' in H. rewrite ematch_app, ematch_alias_ycol in H. cbn [orb] in H.
    apply ematch_sel_data in H. destruct H as (p0 & s & Hp0 & Hs0 & [[K _]|(sp & Esp & K1 & K2)]); [left; exact K|right].
    unfold own_pairs in Hp0. apply in_map_iff in Hp0. destruct Hp0 as (x' & <- & Hx'). cbn [fst] in Hs0.
    destruct (S_of_resolved ts' LF x' s (HX' x' Hx') Hs0) as (v & c & qq & Hv & -> & Exs).
    unfold col_parent in Esp. cbn [cparents] in Esp. inversion Esp. subst sp. exists x', v, c, qq. auto. }
  split; [exact G1|]. split; [|split; [|split; [exact W1|split; [exact C1|]]]].
  - (* finv *)
    assert (Esh : forall e0, In e0 (gedges (set_attr sh [NData sqd] "write" false)) -> In e0 (gedges sh)) by (intros e0 H; exact H).
    constructor.
    + intros e0 src a He Hf.
      refine (compose_edge_pred (fun u v at0 => forall src al, u = NData src -> v = NStr al ->
                etype at0 = "has_alias" /\ forall w, In w ts -> dataset_eqb src w = true -> al = dalias w \/ leak ts' al w)
              gb _ _ _ _ _ e0 He src a _ _).
      * intros u v at0 u' v' HP E1 E2 src' al -> ->. rewrite node_eqb_sym in E2. apply eqb_shape_str in E2. subst v.
        destruct u as [src0| |]; cbn [node_eqb] in E1; try discriminate. destruct (HP src0 al eq_refl eq_refl) as [Q1 Q2]. split; [exact Q1|].
        intros w Hw Ew. apply (Q2 w Hw). apply (dataset_eqb_trans src0 src' w E1 Ew).
      * intros u v at0 a' HP E src' al Eu Ev. rewrite E. exact (HP src' al Eu Ev).
      * intros e1 [].
      * intros e1 He1 src' al Eu Ev. apply Esh in He1. destruct e1 as [[u v] at1]. cbn [fst snd] in *. subst u v.
        split; [exact (proj1 (fi_alias _ _ _ (sv_finv _ _ _ _ Hs) _ src' al He1 eq_refl))|].
        assert (K : has_edge sh (NData src') (NStr al) = true).
        { apply has_edge_In. eexists. split; [exact He1|]. cbn [fst snd]. rewrite !node_eqb_refl. auto. }
        rewrite HE in K. unfold EL' in K. rewrite ematch_app, ematch_sel_ystr, orb_false_r in K.
        apply ematch_alias_in in K. destruct K as (v' & Hv' & E1 & E2). inversion E2. subst al. cbn [node_eqb] in E1.
        intros w Hw Ew. right. exists v'. split; [exact Hv'|]. split; [reflexivity|].
        apply (dataset_eqb_trans v' src' w); [apply dataset_eqb_true_sym; exact E1|exact Ew].
      * rewrite Hf. reflexivity.
      * rewrite Hf. reflexivity.
    + intros e0 He.
      refine (compose_edge_pred (fun _ _ at0 => etype at0 = "lineage" \/ etype at0 = "has_column" \/ etype at0 = "has_alias") gb _ _ _ _ _ e0 He).
      * auto.
      * intros u v at0 a' HP E. rewrite E. exact HP.
      * intros e1 [].
      * intros e1 He1. exact (fi_types _ _ _ (sv_finv _ _ _ _ Hs) e1 (Esh e1 He1)).
    + intros e0 c p He Hf Hc.
      refine (compose_edge_pred (fun u _ _ => forall c p, u = NCol c -> cparents c = [p] -> dk p = KTable) gb _ _ _ _ _ e0 He c p Hf Hc).
      * intros u v at0 u' v' HP E1 _ c' p' -> Hc'. destruct u as [|cu|]; cbn [node_eqb] in E1; try discriminate.
        unfold col_eqb in E1. apply andb_true_iff in E1. destruct E1 as [_ E1]. unfold col_parent at 2 in E1. rewrite Hc' in E1.
        destruct (col_parent cu) as [pu|] eqn:Ecu; cbn [opt_dataset_eqb] in E1; [|discriminate].
        rewrite <- (dataset_eqb_dk _ _ E1). exact (HP cu pu eq_refl (col_parent_some _ _ Ecu)).
      * intros u v at0 a' HP _. exact HP.
      * intros e1 [].
      * intros e1 He1 c' p' Eu Hc'. exact (fi_srcq _ _ _ (sv_finv _ _ _ _ Hs) e1 c' p' (Esh e1 He1) Eu Hc').
    + unfold g1, frame_of. apply drop_free_compose.
      * intros n a [H|[]]. inversion H. intros [K|[]]. discriminate K.
      * apply drop_free_set_attr_write. exact (fi_drop _ _ _ (sv_finv _ _ _ _ Hs)).
  - (* stored column objects have one parent *)
    unfold g1, frame_of. apply lits_compose; [split; [intros n [<-|[]]; exact I|intros e0 []]|]. apply lits_set_attr.
    apply (lits_weaken (QC ts' [])); [|exact (sv_lits _ _ _ _ Hs)]. intros n Hn. destruct n as [|c|]; try exact I.
    cbn [QC] in *. destruct Hn as [Hn|(_ & [[] _] & _)]. left. exact Hn.
  - split; [|split; [|split; [|split]]].
    + (* no edge leaves the target table *)
      intros y. rewrite HE1. destruct (ematch (NData d) y EL') eqn:E; [|reflexivity]. exfalso. unfold EL' in E. rewrite ematch_app in E.
      apply orb_true_iff in E. destruct E as [E|E].
      * apply ematch_alias_in in E. destruct E as (v' & Hv' & E1 & _). cbn [node_eqb] in E1. rewrite dataset_eqb_sym, (Hnoself v' Hv') in E1. discriminate.
      * destruct y as [|cy|ay]; [| |rewrite ematch_sel_ystr in E; discriminate].
        -- unfold ematch in E. apply existsb_exists in E. destruct E as (p & Hp0 & E). unfold sel_edges in Hp0.
           apply in_flat_map in Hp0. destruct Hp0 as (x0 & _ & Hp0). apply in_flat_map in Hp0. destruct Hp0 as (s & _ & Hp0).
           unfold acl_edges in Hp0. cbn [app In] in Hp0. apply andb_true_iff in E. destruct E as [_ E].
           destruct Hp0 as [<-|[<-|Hp0]]; try (cbn [snd node_eqb] in E; discriminate).
           destruct (col_parent s); [|destruct Hp0]. destruct Hp0 as [<-|[]]. cbn [snd node_eqb] in E. discriminate.
        -- assert (E' : ematch (NData d) (NCol cy) EL' = true) by (unfold EL'; rewrite ematch_app, E; apply orb_true_r).
           destruct (HD d cy E') as [K|(x' & v & c & qq & _ & Hv & _ & K & _)].
           ++ unfold dataset_eqb in K. rewrite Hd, Hsqk in K. discriminate.
           ++ rewrite dataset_eqb_sym, (Hnoself v Hv) in K. discriminate.
    + intros x y Hx Hxy. rewrite HE1 in Hxy. destruct (HF x y Hx Hxy) as (x' & v & c & qq & Hx' & _ & _ & _ & Ey).
      rewrite (parent_is_eqb KSubq _ _ Ey), (Hown x' Hx'). cbn [parent_is col_parent cparents]. rewrite Hsqk. reflexivity.
    + intros x y Hx. assert (Hxc : is_column x = true) by (destruct x; cbn in Hx; try discriminate; reflexivity).
      rewrite HE1. destruct (ematch x y EL') eqn:E; [|reflexivity]. exfalso.
      destruct (HF x y Hxc E) as (x' & v & c & qq & _ & Hv & _ & Ex & _).
      rewrite (parent_is_eqb KSubq _ _ Ex) in Hx. cbn [parent_is col_parent cparents] in Hx. rewrite (proj1 (Tok' v Hv)) in Hx. discriminate.
    + intros nm y. rewrite HE1. destruct (ematch _ y EL') eqn:E; [|reflexivity]. exfalso.
      destruct (HF (NCol {| craw := nm; cparents := [d] |}) y eq_refl E) as (x' & v & c & qq & _ & Hv & _ & Ex & _). cbn [node_eqb] in Ex.
      unfold col_eqb in Ex. apply andb_true_iff in Ex. destruct Ex as [_ Ex]. cbn [col_parent cparents opt_dataset_eqb] in Ex.
      rewrite dataset_eqb_sym, (Hnoself v Hv) in Ex. discriminate.
    + intros nm p w Hnm Tp0 Hw Ew. rewrite HE1. destruct (ematch _ _ EL') eqn:E; [|reflexivity]. exfalso.
      assert (Tp : dk p = KTable) by (exact (proj1 Tp0)).
      destruct (HD p _ E) as [K|(x' & v & c & qq & Hx' & Hv & Exs & K1 & K2)].
      * unfold dataset_eqb in K. rewrite Tp, Hsqk in K. discriminate.
      * unfold col_eqb in K2. apply andb_true_iff in K2. destruct K2 as [K2 _]. apply String.eqb_eq in K2.
        unfold col_str, col_parent, mk_col in K2. cbn [cparents craw] in K2. rewrite Tp, (proj1 (Tok' v Hv)) in K2.
        assert (Edv : dstr p = dstr v) by (exact (tab_ok_eqb_dstr p v Tp0 (Tok' v Hv) K1)).
        rewrite Edv in K2. apply append_cancel in K2. apply append_cancel in K2. exact (Hcross nm x' c qq Hnm Hx' Exs (eq_sym K2)).
Qed.
End Frame.

(* ================================================================== *)
(** * Part 5: the model side of the statement: INSERT INTO t / CREATE TABLE t AS / CREATE VIEW t AS
      SELECT items FROM tables WHERE c IN (SELECT items' FROM tables'), the sub-query without unresolved columns *)

Lemma body_ok_tables k items from cj :
  forallb item_ok items = true -> from <> [] -> forallb rel_ok from = true -> body_ok (S k) (QSelect items from cj None) = true.
Proof.
  intros Hit Hne Hrel. cbn [body_ok]. rewrite Hit, andb_true_r. apply andb_true_iff. split; [destruct from; [congruence|reflexivity]|].
  revert Hrel. apply forallb_impl. intros r _ Hr. destruct r; try discriminate. exact Hr.
Qed.

Theorem model_pairs_wherein1 noise e (s : stmt) t items from cj c items' from' cj' :
  noise_ok noise = true -> env_ok e = true ->
  let q := QSelect items from cj (Some (c, QSelect items' from' cj' None)) in
  (s = SInsert t None q \/ s = SCtas t q \/ s = SView t q) ->
  tref_ok t = true -> forallb item_ok items = true -> from <> [] -> forallb rel_ok from = true ->
  forallb item_ok items' = true -> from' <> [] -> forallb rel_ok from' = true ->
  let d := tbl e t None in let ts := map (tbl_of e) from in let xs := map xcol_of items in
  let ts' := map (tbl_of e) from' in let xs' := map xcol_of items' in
  let NM := unres_names ts xs in
  group_ok d ts -> ts_inj ts -> names_nodot ts -> NoDup (map dstr ts) ->
  ts_inj ts' -> names_nodot ts' -> (forall v', In v' ts' -> dataset_eqb v' d = false) ->
  (forall x, In x xs -> xref_ok_f ts (leak ts') NM x) -> noqual ts xs ->
  (forall x', In x' xs' -> xref_ok_f ts' LF [] x') ->
  (forall nm x' c0 qq, In nm NM -> In x' xs' -> xsrc x' = [(c0, qq)] -> c0 <> nm) ->
  script_pairs e false [] [r_stmt noise s] = uniq_sorted (sort_strings (map flow_str (flows_of (S_of ts) (own_pairs d xs)))).
Proof.
  intros Hn He q Hs Ht Hit Hne Hrel Hit' Hne' Hrel' d ts xs ts' xs' NM Hgo Hinj Hnd Hnds Hinj' Hnd' Hnoself HX Hnq HX' Hcross.
  set (e' := with_cols e (view_cols [] [])).
  assert (He' : env_ok e' = true) by exact He.
  assert (Hp : p_truthy (e_provider e') = false) by exact (proj1 (env_facts e' He')).
  assert (Htab : forall (fr : list rel), forallb rel_ok fr = true -> forall v, In v (map (tbl_of e') fr) -> tab_ok v).
  { intros fr Hfr v Hv. apply in_map_iff in Hv. destruct Hv as (r & <- & Hr). rewrite forallb_forall in Hfr. specialize (Hfr r Hr).
    destruct r; try discriminate. split; reflexivity. }
  assert (Hdo : Forall data_ok ts) by (apply Forall_forall; intros v Hv; exact (proj2 (Htab from Hrel v Hv))).
  assert (Hdo' : Forall data_ok ts') by (apply Forall_forall; intros v Hv; exact (proj2 (Htab from' Hrel' v Hv))).
  set (sq := QSelect items' from' cj' None) in *.
  assert (Hk : exists k, q_size q = S k) by (eexists; apply q_size_select). destruct Hk as [k Hk].
  set (sqd := mk_subquery (r_brq noise (S k) sq) None).
  assert (Hsqk : dk sqd = KSubq) by reflexivity.
  assert (Hsqok : data_ok sqd) by (unfold data_ok; cbn; discriminate).
  assert (Hgo' : group_ok sqd ts').
  { constructor; [intros v Hv; exact (proj1 (Htab from' Hrel' v Hv))|exact (proj1 Hinj')|].
    intros v Hv. unfold dataset_eqb. rewrite (proj1 (Htab from' Hrel' v Hv)), Hsqk. reflexivity. }
  set (gb := add_write empty_graph d).
  (* the sub-query holder *)
  destruct (inner_holder e' Hp sqd Hsqok ts' xs' Hgo' Hinj' Hnd' Hdo' HX') as (sh & Esh & HEsh & Ssh & Twsh & Tcsh).
  assert (Hcross' : forall nm x' c0 qq, In nm NM -> In x' xs' -> xsrc x' = [(c0, qq)] -> c0 <> escape nm).
  { intros nm x' c0 qq Hnm Hx' Exs. replace (escape nm) with nm; [exact (Hcross nm x' c0 qq Hnm Hx' Exs)|].
    unfold NM, unres_names in Hnm.
    assert (Hin : In nm (flat_map (fun x => match xsrc x with [(c1, None)] => [c1] | _ => [] end) xs)) by (destruct ts as [|a [|b r]]; [exact Hnm|destruct Hnm|exact Hnm]).
    apply in_flat_map in Hin. destruct Hin as (x & Hx & Hin). destruct (HX x Hx) as (_ & c1 & qq1 & Ex & Hc1 & _). rewrite Ex in Hin.
    destruct qq1; [destruct Hin|]. destruct Hin as [<-|[]]. symmetry. exact Hc1. }
  destruct (frame_facts sqd Hsqk ts' xs' Hgo' Hdo' HX' d ts NM eq_refl eq_refl Hgo Hdo Hnoself Hcross' sh HEsh Ssh Twsh Tcsh)
    as (G1 & F1 & L1 & W1 & C1 & N1 & FR3 & FR4 & FR5 & FR6).
  fold gb in G1, F1, L1, W1, C1, N1, FR3, FR4, FR5, FR6. set (g1 := frame_of gb sh sqd) in *.
  (* the enclosing SELECT on the frame *)
  destruct (select_core_f e' Hp d ts Hgo Hinj Hnd Hdo eq_refl (leak ts')) with (NM := NM) (g1 := g1) (cols := xs) as (sub & Esub & Xsub & Ssub & Tsub); try assumption.
  { intros a w v (v' & Hv' & -> & _) Hv K. exact (proj1 (Hnd' _ _ Hv' Hv') K) || idtac.
    pose proof (Htab from' Hrel' v' Hv') as _. apply in_map_iff in Hv'. destruct Hv' as (r' & <- & Hr'). apply in_map_iff in Hv. destruct Hv as (r & <- & Hr).
    rewrite forallb_forall in Hrel, Hrel'. pose proof (Hrel r Hr) as Ok1. pose proof (Hrel' r' Hr') as Ok2.
    destruct r as [t1 al1| |]; try discriminate. destruct r' as [t2 al2| |]; try discriminate. cbn [tbl_of tbl dalias dstr] in K.
    cbn [rel_ok] in Ok2. apply andb_true_iff in Ok2. destruct Ok2 as [Ht2 Ha2]. unfold tref_ok in Ht2. apply andb_true_iff in Ht2.
    destruct al2 as [a2|]; [exact (id_ok_not_tref a2 _ _ Ha2 (eq_sym K))|exact (id_ok_not_tref (snd t2) _ _ (proj1 Ht2) (eq_sym K))]. }
  (* the statement holder *)
  assert (Ea : analyze e' false (r_stmt noise s) = Ok (compose gb sub)).
  { assert (Eq : analyze e' false (r_stmt noise s) =
                 (do sub0 <- extract (S (S (S (3 * depth (r_stmt noise s) + 6)))) e' XSelect (r_query noise (S (q_size q)) q) (dctx gb); Ok (compose gb sub0))).
    { destruct Hs as [->|[->| ->]]; [apply (analyze_insert_q noise Hn e' He' t items from cj _ Ht)
                                    |apply (analyze_create_q noise Hn e' He' false t items from cj _ Ht)
                                    |apply (analyze_create_q noise Hn e' He' true t items from cj _ Ht)]. }
    rewrite Eq. set (F := 3 * depth (r_stmt noise s) + 6). rewrite Hk.
    assert (Ein : extract (S (S F)) e' XSelect (r_brq noise (S k) sq)
                    {| c_cte := Some (sq_cte (init_holder (dctx gb))); c_write := Some [sqd]; c_write_columns := None |} = Ok sh).
    { rewrite (select_tables_extract noise Hn e' He' F _ items' from' cj' k); [exact Esh| |exact Hit'|exact Hne'|exact Hrel'|reflexivity].
      unfold sq. rewrite (sel_segments_brq_select noise Hn). reflexivity. }
    rewrite (extract_select_where noise Hn e' He' (S F) _ items from cj k c sq (dctx gb) sh); [| |exact Hit|exact Hne|exact Hrel| |exact Ein|].
    - change (init_holder (dctx gb)) with gb. fold sqd. fold g1. change (map (tbl_of e') from) with ts. change (map xcol_of items) with xs. rewrite Esub. reflexivity.
    - unfold q. rewrite (sel_segments_top_select noise Hn). unfold clauses. rewrite r_wh_some. reflexivity.
    - apply body_ok_tables; assumption.
    - change (init_holder (dctx gb)) with gb. exact C1. }
  assert (Hxs : forall x, In x xs -> xref_ok ts x) by (intros x Hx; apply (xref_ok_f_old ts (leak ts') NM x (HX x Hx))).
  destruct (holder_realises_f d ts (leak ts') xs g1 sub Hgo Hinj Hdo Hnds eq_refl HX) as (K1 & K2 & K3 & K4); try assumption.
  - intros nm Hnm. unfold unres_names in Hnm.
    assert (Hns : forall (A : Type) (f : dataset -> A) (g : A), In nm (match ts with [_] => [] | _ => [nm] end) -> match ts with [d1] => f d1 | _ => g end = g).
    { intros A f g. destruct ts as [|a [|b r]]; [reflexivity|intros []|reflexivity]. }
    assert (Hin : In nm (flat_map (fun x => match xsrc x with [(c1, None)] => [c1] | _ => [] end) xs) /\ In nm (match ts with [_] => [] | _ => [nm] end)).
    { destruct ts as [|a [|b r]]; [split; [exact Hnm|left; reflexivity]|destruct Hnm|split; [exact Hnm|left; reflexivity]]. }
    destruct Hin as [Hin Hsh]. apply in_flat_map in Hin. destruct Hin as (x & Hx & Hin). exists x. split; [exact Hx|].
    unfold S_of. destruct (xsrc x) as [|[c1 qq] rest]; [destruct Hin|]. destruct qq as [q1|]; [destruct Hin|].
    destruct rest as [|p r]; [|destruct Hin]. destruct Hin as [->|[]].
    rewrite (Hns _ _ _ Hsh). left. reflexivity.
  - intros x' s' nm v Hnm Hx' Hs' Ev. unfold unres_names in Hnm.
    assert (Hm : In nm (flat_map (fun x => match xsrc x with [(c1, None)] => [c1] | _ => [] end) xs) /\ (forall d1, ts <> [d1])).
    { destruct ts as [|a [|b r]]; [split; [exact Hnm|discriminate]|destruct Hnm|split; [exact Hnm|discriminate]]. }
    destruct Hm as [Hin Hns]. apply in_flat_map in Hin. destruct Hin as (x & Hx & Hin).
    destruct (Hxs x Hx) as (_ & c1 & qq & Ex & _ & Hq). rewrite Ex in Hin. destruct qq as [q1|]; [destruct Hin|]. destruct Hin as [->|[]].
    destruct Hq as [(d1 & Ed)|[Hmul _]]; [exfalso; exact (Hns d1 Ed)|].
    destruct (Hxs x' Hx') as (_ & c' & qq' & Ex' & _ & Hq'). unfold S_of in Hs'. rewrite Ex' in Hs'. destruct qq' as [q'|].
    + destruct Hq' as (v' & Hv' & Eq' & Hu'). rewrite (find_dalias ts q' v' Hv' Eq' (fun w Hw E => Hu' w Hw (or_introl E))) in Hs'.
      destruct Hs' as [<-|[]]. cbn [craw]. apply (Hnq x x' nm c' q' Hx Hx' Ex Ex' Hmul).
    + rewrite (multi_not_single ts _ _ _ Hmul) in Hs'. destruct Hs' as [<-|[]].
      destruct (Ucol_props ts c' Hinj) as (_ & _ & U3). destruct Hmul as (a & b & Ha & Hb & Hab).
      pose proof (two_members _ a b (proj2 (U3 a) Ha) (proj2 (U3 b) Hb) Hab) as Hl. rewrite Ev in Hl. cbn in Hl. lia.
  - apply (script_pairs_of_holder_in e (r_stmt noise s) _ _ Ea (proj1 (env_facts e He)) K1 K2 K3 K4).
Qed.

(* ================================================================== *)
(** * Part 6: the specification side, executable conditions, and the theorem for one level of WHERE .. IN *)

Lemma spec_strs_select_w ds (s : stmt) t items from cj wh :
  (s = SInsert t None (QSelect items from cj wh) \/ s = SCtas t (QSelect items from cj wh) \/ s = SView t (QSelect items from cj wh)) ->
  forallb is_rtable from = true ->
  map (fun p => (show_src (fst p) ++ ">" ++ snd p)%string) (spec_flows ds s) =
  flat_map (spec_item_strs (tref_str ds t) (map (sbind ds) from)) items.
Proof.
  intros Hs Hrt.
  assert (E : spec_flows ds s =
              flat_map (fun c : colspec => map (fun sr => (sr, (tref_str ds t ++ "." ++ fst c)%string)) (snd c))
                       (flat_map (item_cols (map (sbind ds) from)) items)).
  { destruct Hs as [->|[->| ->]]; unfold spec_flows; rewrite (q_cols_select _ ds items from cj wh Hrt); [apply combine_names_flows|reflexivity|reflexivity]. }
  rewrite E, flat_map_flat_map, map_flat_map'. apply flat_map_ext. intros i. unfold spec_item_strs.
  rewrite map_flat_map'. apply flat_map_ext. intros c. rewrite map_map. reflexivity.
Qed.

Lemma stmt_ok_select_w t items from cj c items' from' cj' :
  let q := QSelect items from cj (Some (c, QSelect items' from' cj' None)) in
  tref_ok t && frag_query (S (q_size q)) q && names_ok_q (S (q_size q)) [] q = true ->
  forallb is_rtable from = true -> forallb is_rtable from' = true ->
  tref_ok t = true /\ forallb item_ok items = true /\ from <> [] /\ forallb rel_ok from = true /\
  forallb item_ok items' = true /\ from' <> [] /\ forallb rel_ok from' = true.
Proof.
  intros q Hok Hrt Hrt'. apply andb_true_iff in Hok. destruct Hok as [Hok Hnames]. apply andb_true_iff in Hok. destruct Hok as [Ht Hfrag].
  assert (Hsz : exists k, q_size q = S k) by (eexists; apply q_size_select). destruct Hsz as [k Hk].
  rewrite Hk in Hfrag, Hnames. unfold q in Hfrag, Hnames. cbn [frag_query names_ok_q] in Hfrag, Hnames.
  rewrite !andb_true_r in Hfrag, Hnames.
  apply andb_true_iff in Hfrag. destruct Hfrag as [Hfrag Hfrag']. apply andb_true_iff in Hfrag. destruct Hfrag as [Hfrag _].
  apply andb_true_iff in Hfrag. destruct Hfrag as [_ Hne].
  apply andb_true_iff in Hfrag'. destruct Hfrag' as [Hfrag' _]. apply andb_true_iff in Hfrag'. destruct Hfrag' as [_ Hne'].
  apply andb_true_iff in Hnames. destruct Hnames as [Hnames Hnames']. apply andb_true_iff in Hnames. destruct Hnames as [Hitems Hrels].
  apply andb_true_iff in Hnames'. destruct Hnames' as [_ Hnames']. apply andb_true_iff in Hnames'. destruct Hnames' as [Hitems' Hrels'].
  split; [exact Ht|]. split; [exact Hitems|]. split; [destruct from; [discriminate|discriminate]|]. split; [|split; [exact Hitems'|split; [destruct from'; [discriminate|discriminate]|]]].
  - revert Hrels. apply forallb_impl. intros r Hr0. rewrite forallb_forall in Hrt. specialize (Hrt r Hr0). destruct r; try discriminate. auto.
  - revert Hrels'. apply forallb_impl. intros r Hr0. rewrite forallb_forall in Hrt'. specialize (Hrt' r Hr0). destruct r; try discriminate. auto.
Qed.

(** ** executable conditions *)
(** a label [q] of the sub-query scope that lands on a table of the enclosing scope is a name of that table there *)
Definition leakb (from from' : list rel) (q : string) : bool :=
  forallb (fun r' => negb (String.eqb (rname r') q) ||
                     forallb (fun r => negb (tref_clash (rtref r) (rtref r')) || String.eqb (rname r) q) from) from'.
Definition items_leakb (from from' : list rel) (items : list item) : bool :=
  forallb (fun i => match snd (item_ref i) with Some q => leakb from from' q | None => true end) items.
(** the sub-query has no unresolved column: unqualified references only over one table *)
Definition resolvedb (from' : list rel) (items' : list item) : bool :=
  forallb (fun i => match snd (item_ref i) with Some _ => true | None => match from' with [_] => true | _ => false end end) items'.
(** the name of an unresolved column of the enclosing scope is not referenced in the sub-query (K-C02-5 across scopes) *)
Definition crossb (from : list rel) (items items' : list item) : bool :=
  negb (Nat.leb 2 (List.length from)) ||
  forallb (fun i => match snd (item_ref i) with
                    | None => forallb (fun i' => negb (String.eqb (fst (item_ref i')) (fst (item_ref i)))) items'
                    | Some _ => true end) items.

Definition wherein1_shape (s : stmt) : bool :=
  match s with
  | SInsert t None (QSelect items from _ (Some (_, QSelect items' from' _ None)))
  | SCtas t (QSelect items from _ (Some (_, QSelect items' from' _ None)))
  | SView t (QSelect items from _ (Some (_, QSelect items' from' _ None))) =>
      forallb is_rtable from && tables_condb t from && items_condb from items && noqual_itemsb from items
      && forallb is_rtable from' && tables_condb t from' && items_condb from' items' && resolvedb from' items'
      && items_leakb from from' items && crossb from items items'
  | _ => false
  end.

Lemma unres_names_in e from items nm :
  from <> [] -> forallb item_ok items = true -> In nm (unres_names (map (tbl_of e) from) (map xcol_of items)) ->
  2 <= List.length from /\ exists i, In i items /\ item_ref i = (nm, None).
Proof.
  intros Hne Hit H. unfold unres_names in H.
  assert (K : In nm (flat_map (fun x => match xsrc x with [(c1, None)] => [c1] | _ => [] end) (map xcol_of items)) /\ 2 <= List.length from).
  { destruct from as [|a [|b r]]; [congruence|destruct H|split; [exact H|cbn; lia]]. }
  destruct K as [K Hl]. split; [exact Hl|]. apply in_flat_map in K. destruct K as (x & Hx & K). apply in_map_iff in Hx. destruct Hx as (i & <- & Hi).
  rewrite forallb_forall in Hit. destruct (xcol_of_facts i (Hit i Hi)) as (_ & F2 & _). rewrite F2 in K. exists i. split; [exact Hi|].
  destruct (item_ref i) as [c1 [q1|]]; [destruct K|]. destruct K as [<-|[]]. reflexivity.
Qed.

Lemma unres_names_intro e t from items i c :
  forallb rel_ok from = true -> tables_cond (e_cfg e) t from -> forallb item_ok items = true ->
  In i items -> item_ref i = (c, None) -> 2 <= List.length from ->
  In c (unres_names (map (tbl_of e) from) (map xcol_of items)).
Proof.
  intros Hrel Htc Hit Hi Ei Hl. unfold unres_names.
  assert (K : In c (flat_map (fun x => match xsrc x with [(c1, None)] => [c1] | _ => [] end) (map xcol_of items))).
  { apply in_flat_map. exists (xcol_of i). split; [apply in_map; exact Hi|]. rewrite forallb_forall in Hit.
    destruct (xcol_of_facts i (Hit i Hi)) as (_ & F2 & _). rewrite F2, Ei. left. reflexivity. }
  destruct from as [|a [|b r]]; cbn [List.length] in Hl; try lia. exact K.
Qed.

(** the conditions of [model_pairs_wherein1] from the executable ones *)
Lemma xref_ok_f_of e t from from' items :
  forallb rel_ok from = true -> forallb rel_ok from' = true -> forallb item_ok items = true ->
  tables_cond (e_cfg e) t from -> items_cond from items -> items_leakb from from' items = true ->
  forall x, In x (map xcol_of items) ->
    xref_ok_f (map (tbl_of e) from) (leak (map (tbl_of e) from')) (unres_names (map (tbl_of e) from) (map xcol_of items)) x.
Proof.
  intros Hrel Hrel' Hit Htc Hc Hlk x Hx. apply in_map_iff in Hx. destruct Hx as (i & <- & Hi).
  pose proof Hrel as Hrel0. pose proof Hit as Hit0. rewrite forallb_forall in Hit, Hrel. destruct (xcol_of_facts i (Hit i Hi)) as (F1 & F2 & F3 & F4).
  split; [rewrite F1; reflexivity|]. exists (fst (item_ref i)), (snd (item_ref i)).
  split; [rewrite F2; destruct (item_ref i); reflexivity|]. split; [exact F3|].
  pose proof (Hc i Hi) as Hci. unfold items_leakb in Hlk. rewrite forallb_forall in Hlk. specialize (Hlk i Hi).
  destruct (snd (item_ref i)) as [q|] eqn:Eq.
  - destruct Hci as (r0 & Hr0 & En & Hu). exists (tbl_of e r0). split; [apply in_map; exact Hr0|].
    rewrite (tbl_of_table e r0 (rel_ok_table _ (Hrel r0 Hr0))). split; [exact En|].
    intros w Hw Hor. apply in_map_iff in Hw. destruct Hw as (r & <- & Hr).
    rewrite (tbl_of_table e r (rel_ok_table _ (Hrel r Hr))) in *. cbn [tbl dalias draw dstr] in Hor.
    rewrite (Hu r Hr); [reflexivity|]. destruct Hor as [H|[H|[H|H]]]; [left; exact H|right; exact H| |].
    + exfalso. exact (id_ok_not_tref q _ _ F4 H).
    + destruct H as (v' & Hv' & Eqv & Ev). apply in_map_iff in Hv'. destruct Hv' as (r' & <- & Hr').
      rewrite forallb_forall in Hrel'. rewrite (tbl_of_table e r' (rel_ok_table _ (Hrel' r' Hr'))) in *. cbn [tbl dalias] in Eqv.
      apply tbl_eqb_str in Ev. unfold leakb in Hlk. rewrite forallb_forall in Hlk. specialize (Hlk r' Hr').
      assert (En' : rname r' = q) by (unfold rname; symmetry; exact Eqv). rewrite En', String.eqb_refl in Hlk. cbn [negb orb] in Hlk.
      rewrite forallb_forall in Hlk. specialize (Hlk r Hr).
      rewrite (tref_str_eq_clash (e_cfg e) (rtref r) (rtref r') (rel_ok_id r (Hrel r Hr)) (rel_ok_id r' (Hrel' r' Hr')) (eq_sym Ev)) in Hlk.
      cbn [negb orb] in Hlk. left. apply String.eqb_eq. exact Hlk.
  - destruct Hci as [(r & ->)|[Hl Hs]]; [left; exists (tbl_of e r); reflexivity|].
    right. split; [exact (multi_of e t from Hrel0 Htc Hl)|]. split; [exact Hs|].
    apply (unres_names_intro e t from items i _ Hrel0 Htc Hit0 Hi); [|exact Hl]. destruct (item_ref i) as [c0 o]. cbn [fst snd] in *. subst o. reflexivity.
Qed.

Lemma xref_ok_f_resolved e t from' items' :
  forallb rel_ok from' = true -> forallb item_ok items' = true ->
  tables_cond (e_cfg e) t from' -> items_cond from' items' -> resolvedb from' items' = true ->
  forall x, In x (map xcol_of items') -> xref_ok_f (map (tbl_of e) from') LF [] x.
Proof.
  intros Hrel Hit Htc Hc Hres x Hx. apply in_map_iff in Hx. destruct Hx as (i & <- & Hi).
  rewrite forallb_forall in Hit, Hrel. destruct (xcol_of_facts i (Hit i Hi)) as (F1 & F2 & F3 & F4).
  split; [rewrite F1; reflexivity|]. exists (fst (item_ref i)), (snd (item_ref i)).
  split; [rewrite F2; destruct (item_ref i); reflexivity|]. split; [exact F3|].
  pose proof (Hc i Hi) as Hci. unfold resolvedb in Hres. rewrite forallb_forall in Hres. specialize (Hres i Hi).
  destruct (snd (item_ref i)) as [q|].
  - destruct Hci as (r0 & Hr0 & En & Hu). exists (tbl_of e r0). split; [apply in_map; exact Hr0|].
    rewrite (tbl_of_table e r0 (rel_ok_table _ (Hrel r0 Hr0))). split; [exact En|].
    intros w Hw Hor. apply in_map_iff in Hw. destruct Hw as (r & <- & Hr).
    rewrite (tbl_of_table e r (rel_ok_table _ (Hrel r Hr))) in *. cbn [tbl dalias draw dstr] in Hor.
    rewrite (Hu r Hr); [reflexivity|]. destruct Hor as [H|[H|[H|[]]]]; [left; exact H|right; exact H|].
    exfalso. exact (id_ok_not_tref q _ _ F4 H).
  - left. destruct from' as [|r [|r2 l]]; try discriminate. exists (tbl_of e r). reflexivity.
Qed.

Theorem lemma_B_wherein1_restricted : forall noise e s,
  noise_ok noise = true -> env_ok e = true -> stmt_ok s = true -> wherein1_shape s = true ->
  script_pairs e false [] [r_stmt noise s] = spec_pairs (e_cfg e) s.
Proof.
  intros noise e s Hn He Hok Hsh.
  assert (K : exists t items from cj c items' from' cj',
            let q := QSelect items from cj (Some (c, QSelect items' from' cj' None)) in
            (s = SInsert t None q \/ s = SCtas t q \/ s = SView t q) /\
            forallb is_rtable from && tables_condb t from && items_condb from items && noqual_itemsb from items
            && forallb is_rtable from' && tables_condb t from' && items_condb from' items' && resolvedb from' items'
            && items_leakb from from' items && crossb from items items' = true /\
            tref_ok t && frag_query (S (q_size q)) q && names_ok_q (S (q_size q)) [] q = true).
  { destruct s as [t [cs|] q|t q|t q|q|kind]; cbn [wherein1_shape] in Hsh; try discriminate;
      destruct q as [items from cj [[c sq]|]| |]; try discriminate; destruct sq as [items' from' cj' [wh'|]| |]; try discriminate;
      exists t, items, from, cj, c, items', from', cj'; cbv zeta; (split; [auto|]); (split; [exact Hsh|]);
      cbn [stmt_ok] in Hok; try exact Hok. rewrite andb_true_r in Hok. exact Hok. }
  destruct K as (t & items & from & cj & c & items' & from' & cj' & Hs & Hsh' & Hok'). cbv zeta in Hs, Hok'.
  repeat (apply andb_true_iff in Hsh'; let H := fresh "B" in destruct Hsh' as [Hsh' H]).
  rename Hsh' into Hrt. rename B into Hcr. rename B0 into Hlk. rename B1 into Hres. rename B2 into Hic'. rename B3 into Htc'. rename B4 into Hrt'.
  rename B5 into Hnq. rename B6 into Hic. rename B7 into Htc.
  destruct (stmt_ok_select_w t items from cj c items' from' cj' Hok' Hrt Hrt') as (Ht & Hit & Hne & Hrel & Hit' & Hne' & Hrel').
  pose proof (tables_condb_ok (e_cfg e) t from Ht Hrel Htc) as Ptc. pose proof (tables_condb_ok (e_cfg e) t from' Ht Hrel' Htc') as Ptc'.
  pose proof (items_condb_ok from items Hic) as Pic. pose proof (items_condb_ok from' items' Hic') as Pic'.
  pose proof (noqual_itemsb_ok from items Hnq) as Pnq.
  rewrite (model_pairs_wherein1 noise e s t items from cj c items' from' cj' Hn He Hs Ht Hit Hne Hrel Hit' Hne' Hrel'
             (group_ok_of e t from Hrel Ptc) (ts_inj_of e t from Hrel Ptc) (names_nodot_of e from Hrel)).
  - unfold spec_pairs. rewrite (spec_strs_select_w (e_cfg e) s t items from cj _ Hs Hrt).
    f_equal. f_equal. unfold flows_of, own_pairs. rewrite !flat_map_map', map_flat_map'. cbn [fst snd]. apply flat_map_ext_in'. intros i Hi.
    symmetry. apply item_corr; [exact Hrel| |exact Ptc|exact (Pic i Hi)]. rewrite forallb_forall in Hit. apply Hit. exact Hi.
  - rewrite (map_dstr_tbl e from Hrel). exact (proj1 Ptc).
  - exact (ts_inj_of e t from' Hrel' Ptc').
  - exact (names_nodot_of e from' Hrel').
  - intros v' Hv'. exact (go_target _ _ (group_ok_of e t from' Hrel' Ptc') v' Hv').
  - exact (xref_ok_f_of e t from from' items Hrel Hrel' Hit Ptc Pic Hlk).
  - exact (noqual_of e from items Hit Pnq).
  - exact (xref_ok_f_resolved e t from' items' Hrel' Hit' Ptc' Pic' Hres).
  - intros nm x' c0 qq Hnm Hx' Exs Ec. subst c0.
    destruct (unres_names_in e from items nm Hne Hit Hnm) as (Hl & i & Hi & Ei).
    apply in_map_iff in Hx'. destruct Hx' as (i' & <- & Hi'). rewrite forallb_forall in Hit'.
    destruct (xcol_of_facts i' (Hit' i' Hi')) as (_ & F2 & _). rewrite F2 in Exs. inversion Exs as [Eref].
    unfold crossb in Hcr. apply orb_true_iff in Hcr. destruct Hcr as [Hcr|Hcr].
    + apply negb_true_iff in Hcr. apply Nat.leb_gt in Hcr. lia.
    + rewrite forallb_forall in Hcr. specialize (Hcr i Hi). rewrite Ei in Hcr. cbn [fst snd] in Hcr.
      rewrite forallb_forall in Hcr. specialize (Hcr i' Hi'). rewrite Eref in Hcr. cbn [fst] in Hcr. rewrite String.eqb_refl in Hcr. discriminate.
Qed.
Print Assumptions lemma_B_wherein1_restricted.

(** ** non-vacuity: instances satisfying every hypothesis of [lemma_B_wherein1_restricted] (and so, through its proof,
       those of [model_pairs_wherein1], [holder_realises_f], [select_core_f], [frame_facts]) *)
Definition wherein1_instances : list (list seg * env * stmt) :=
  [ ([], e_cxB, SInsert tx None (selw [ci None "a"] [tb "t"] false "a" (sel1 [ci None "b"] [tb "u"])));
    (* the same table in both scopes *)
    ([ws5], e_cxB, SInsert tx None (selw [ci None "a"] [tb "t"] false "a" (sel1 [ci None "a"] [tb "t"])));
    (* ... under two aliases: the stored table object carries the alias of the sub-query *)
    ([ws5; cm5], e_cxB, SInsert tx None (selw [ci (Some "p") "a"] [tba "t" "p"] false "a" (sel1 [ci (Some "q") "b"] [tba "t" "q"])));
    ([ws5], e_s5, SCtas tx (selw [ci (Some "p") "a"; cia None "b" "z"] [tba "t" "p"] false "a" (sel1 [ci (Some "p") "a"] [tba "t" "p"])));
    ([ws5], e_cxB, SView tx (selw [IStar None] [tb "t"] false "a" (sel1 [ci None "a"] [tb "u"])));
    ([ws5], e_cxB, SInsert tx None (selw [ci (Some "p") "a"; ci None "b"] [tba "t" "p"] false "a" (sel1 [ci (Some "t") "a"] [tb "t"])));
    ([cm5], e_s5, SView (Some "s1", "x") (selw [IStar (Some "z"); cia (Some "t") "a" "k"] [tbs "s1" "t" None; tbs "s2" "t2" (Some "z")] false "k"
                                          (sel1 [cia None "b" "k"] [tbs "s2" "t2" (Some "z")])));
    (* several tables in both scopes, an unresolved column in the enclosing one *)
    ([ws5], e_cxB, SCtas tx (selw [ci (Some "t") "a"; ci None "b"] [tb "t"; tb "v"] true "a" (sel1 [ci (Some "v") "c"; ci (Some "t") "d"] [tb "v"; tb "t"])));
    (* outside [colshape] (the alias p names two tables in the two scopes), inside [wherein1_shape] *)
    ([ws5], e_cxB, SInsert tx None (selw [ci (Some "p") "a"] [tba "t" "p"] false "a" (sel1 [ci (Some "p") "b"] [tba "u" "p"]))) ].

Example wherein1_nonvacuous :
  forallb (fun p => noise_ok (fst (fst p)) && env_ok (snd (fst p)) && stmt_ok (snd p) && wherein1_shape (snd p)) wherein1_instances = true.
Proof. vm_compute. reflexivity. Qed.

Example wherein1_applied :
  let s := SInsert tx None (selw [ci (Some "p") "a"] [tba "t" "p"] false "a" (sel1 [ci (Some "q") "b"] [tba "t" "q"])) in
  script_pairs e_cxB false [] [r_stmt [ws5; cm5] s] = spec_pairs "" s.
Proof. intros s. apply lemma_B_wherein1_restricted; vm_compute; reflexivity. Qed.

(** ** the relation to [colshape]
    [wherein1_shape] is stated on the syntax, as [sel_tables_shape] is for the statements without WHERE; it does not
    mention [colshape].  On every instance of the fragment tried, [colshape] implies it; it also holds for some
    statements outside [colshape] (last instance above).  The implication itself is not proved here. *)
Definition sel_wherein1_syntactic (s : stmt) : bool :=
  match s with
  | SInsert t None (QSelect items from _ (Some (_, QSelect items' from' _ None)))
  | SCtas t (QSelect items from _ (Some (_, QSelect items' from' _ None)))
  | SView t (QSelect items from _ (Some (_, QSelect items' from' _ None))) =>
      forallb is_rtable from && trefs_distinct (map rtref from) && forallb is_rtable from' && trefs_distinct (map rtref from')
      && resolvedb from' items'
  | _ => false
  end.

Definition colshape_gives_wherein1_statement : Prop :=
  forall s, stmt_ok s = true -> colshape s = true -> sel_wherein1_syntactic s = true -> wherein1_shape s = true.

Definition lemma_B_wherein1_colshape_statement : Prop :=
  forall noise e s, noise_ok noise = true -> env_ok e = true -> stmt_ok s = true -> sshape s = true -> colshape s = true ->
    sel_wherein1_syntactic s = true -> script_pairs e false [] [r_stmt noise s] = spec_pairs (e_cfg e) s.

(** the second follows from the first *)
Theorem wherein1_colshape_reduction : colshape_gives_wherein1_statement -> lemma_B_wherein1_colshape_statement.
Proof. intros H noise e s Hn He Hok _ Hc Hsyn. apply lemma_B_wherein1_restricted; auto. Qed.
Print Assumptions wherein1_colshape_reduction.

Example colshape_gives_wherein1_checked :
  forallb (fun p => negb (stmt_ok (snd p) && colshape (snd p) && sel_wherein1_syntactic (snd p)) || wherein1_shape (snd p))
          (wherein_instances ++ wherein1_instances) = true.
Proof. vm_compute. reflexivity. Qed.
Example colshape_gives_wherein1_checked_nonvacuous :
  List.length (filter (fun p => stmt_ok (snd p) && colshape (snd p) && sel_wherein1_syntactic (snd p)) (wherein_instances ++ wherein1_instances)) = 16.
Proof. vm_compute. reflexivity. Qed.

Print Assumptions model_pairs_wherein1.
Print Assumptions holder_realises_f.
Print Assumptions select_core_f.
Print Assumptions script_pairs_of_holder_in.
