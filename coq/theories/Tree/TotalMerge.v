(** C10 on ALL segment trees, part 6: the MERGE extractor (after fix F11: no column lineage without an identified
    target table). *)
From SV Require Import Tree.Observe Tree.TriviaProofs Tree.LemmaAProofs Tree.HolderInv Tree.ExtractInv
     Tree.TotalDefs Tree.TotalLeaves Tree.TotalHolder Tree.TotalExtract Tree.TotalMain.
Require Import Lia.
Open Scope string_scope.
Open Scope list_scope.

Definition mstate := (graph * bool * bool * option dataset)%type.

Definition merge_step (fuel : nat) (e : env) (segments : list seg) (a : mstate) (i : nat) (s : seg) : res mstate :=
     let '(g, tgt_flag, src_flag, direct) := a in
     do step1 <-
       (if tyis s "merge_match" then
          do g1 <- fold_left (fun accg wm =>
                     do gg <- accg;
                     match get_child wm ["merge_update_clause"] with
                     | Some muc =>
                       match get_child muc ["set_clause_list"] with
                       | Some scl =>
                           fold_left (fun accg2 sc =>
                             do g2 <- accg2;
                             match get_children sc ["column_reference"] with
                             | [c0; c1] =>
                                 do sq <- extract_column_qualifier c1;
                                 (* after fix F11: without an identified target the target column is not looked at *)
                                 do tcol <- (match st_write g2 with
                                             | w :: _ =>
                                                 do tq <- extract_column_qualifier c0;
                                                 Ok (match tq with Some t => Some (plain_col (fst t) (Some w)) | None => None end)
                                             | [] => Ok None
                                             end);
                                 match sq, tcol with
                                 | Some sc0, Some tc => add_column_lineage g2 (plain_col (fst sc0) direct) tc
                                 | _, _ => Ok g2
                                 end
                             | _ => Ok g2
                             end) (get_children scl ["set_clause"]) (Ok gg)
                       | None => Ok gg
                       end
                     | None => Ok gg
                     end) (get_children s ["merge_when_matched_clause"]) (Ok g);
          do g2 <- fold_left (fun accg wn =>
                     do gg <- accg;
                     match get_child wn ["merge_insert_clause"] with
                     | Some mi =>
                       match get_child mi ["bracketed"] with
                       | Some b =>
                           do ins <- concat_res (map (fun cr =>
                                       match st_write gg with
                                       | w :: _ =>
                                           do q <- extract_column_qualifier cr;
                                           match q with
                                           | Some c => Ok [plain_col (fst c) (Some w)]
                                           | None => Ok []
                                           end
                                       | [] => Ok []
                                       end) (get_children b ["column_reference"]));
                           match get_child mi ["values_clause"] with
                           | Some vc =>
                             match get_child vc ["bracketed"] with
                             | Some vb =>
                                 fst (fold_left (fun acc3 ex =>
                                        let '(rg, j) := acc3 in
                                        (do g3 <- rg;
                                         match get_child ex ["column_reference"] with
                                         | Some cro =>
                                             do q <- extract_column_qualifier cro;
                                             match q with
                                             | Some c =>
                                                 (* after fix F6: a value beyond the insert column list is skipped *)
                                                 match nth_error ins j with
                                                 | Some tc => add_column_lineage g3 (plain_col (fst c) direct) tc
                                                 | None => Ok g3
                                                 end
                                             | None => Ok g3
                                             end
                                         | None => Ok g3
                                         end, S j)) (get_children vb ["literal"; "expression"]) (Ok gg, 0))
                             | None => Ok gg
                             end
                           | None => Ok gg
                           end
                       | None => Ok gg
                       end
                     | None => Ok gg
                     end) (get_children s ["merge_when_not_matched_clause"]) (Ok g1);
          Ok (g2, tgt_flag, src_flag, direct, false)
        else if tyis s "keyword" then
          let u := raw_upper s in
          if mem_string u ["MERGE"; "INTO"] then Ok (g, true, src_flag, direct, true)
          else if String.eqb u "USING" then Ok (g, tgt_flag, true, direct, true)
          else Ok (g, tgt_flag, src_flag, direct, true)
        else Ok (g, tgt_flag, src_flag, direct, false));
     let '(g1, tf, sf, dr, continued) := step1 in
     if continued then Ok (g1, tf, sf, dr)
     else
       do g2 <- (if tf then do t <- find_table e s; Ok (match t with Some d => add_write g1 d | None => g1 end) else Ok g1);
       if sf then
         do t <- find_table e s;
         match t with
         | Some d => Ok (add_read g2 d, false, false, Some d)
         | None =>
             if tyis s "bracketed" then
               do nx <- nth_res segments (S i);
               do alias <- (if tyis nx "alias_expression" then do a <- extract_identifier nx; Ok (Some a) else Ok None);
               let q := extract_innermost_bracketed s in
               let ds := mk_subquery q alias in
               let g3 := add_read g2 ds in
               let cls := match get_child q ["with_compound_statement"] with Some _ => XCte | None => XSelect end in
               do sub <- extract fuel e cls q {| c_cte := Some (sq_cte g3); c_write := Some [ds]; c_write_columns := None |};
               Ok (compose g3 sub, false, false, Some ds)
             else Ok (g2, false, false, dr)
         end
       else Ok (g2, false, sf, dr).

Lemma extract_merge_eq fuel e stmt :
  extract_merge fuel e stmt =
  (let segments := list_child_segments stmt true in
   do r <- fst (fold_left (fun (accp : res mstate * nat) s => let '(acc, i) := accp in
                  (do a <- acc; merge_step fuel e segments a i s, S i)) segments (Ok (empty_graph, false, false, None), 0));
   Ok (fst (fst (fst r)))).
Proof. reflexivity. Qed.

Lemma plain_col_ok name p : (forall d, p = Some d -> ds_ok d) -> col_ok (plain_col name p).
Proof. intros H. unfold plain_col. destruct p as [d|]; [apply col_ok_one; exact (H d eq_refl)|apply col_ok_nil]. Qed.

Lemma st_write_head_ok g w r : GI g -> st_write g = w :: r -> ds_ok w.
Proof.
  intros G E. apply (holder_nodes_ok g "write" w G). assert (Hw : In w (st_write g)) by (rewrite E; left; reflexivity).
  unfold st_write in Hw. apply filter_In in Hw. exact (proj1 Hw).
Qed.

Definition merge_matched (s : seg) (g : graph) (direct : option dataset) : res graph :=
fold_left (fun accg wm =>
                     do gg <- accg;
                     match get_child wm ["merge_update_clause"] with
                     | Some muc =>
                       match get_child muc ["set_clause_list"] with
                       | Some scl =>
                           fold_left (fun accg2 sc =>
                             do g2 <- accg2;
                             match get_children sc ["column_reference"] with
                             | [c0; c1] =>
                                 do sq <- extract_column_qualifier c1;
                                 (* after fix F11: without an identified target the target column is not looked at *)
                                 do tcol <- (match st_write g2 with
                                             | w :: _ =>
                                                 do tq <- extract_column_qualifier c0;
                                                 Ok (match tq with Some t => Some (plain_col (fst t) (Some w)) | None => None end)
                                             | [] => Ok None
                                             end);
                                 match sq, tcol with
                                 | Some sc0, Some tc => add_column_lineage g2 (plain_col (fst sc0) direct) tc
                                 | _, _ => Ok g2
                                 end
                             | _ => Ok g2
                             end) (get_children scl ["set_clause"]) (Ok gg)
                       | None => Ok gg
                       end
                     | None => Ok gg
                     end) (get_children s ["merge_when_matched_clause"]) (Ok g).

Definition merge_not_matched (s : seg) (g : graph) (direct : option dataset) : res graph :=
fold_left (fun accg wn =>
                     do gg <- accg;
                     match get_child wn ["merge_insert_clause"] with
                     | Some mi =>
                       match get_child mi ["bracketed"] with
                       | Some b =>
                           do ins <- concat_res (map (fun cr =>
                                       match st_write gg with
                                       | w :: _ =>
                                           do q <- extract_column_qualifier cr;
                                           match q with
                                           | Some c => Ok [plain_col (fst c) (Some w)]
                                           | None => Ok []
                                           end
                                       | [] => Ok []
                                       end) (get_children b ["column_reference"]));
                           match get_child mi ["values_clause"] with
                           | Some vc =>
                             match get_child vc ["bracketed"] with
                             | Some vb =>
                                 fst (fold_left (fun acc3 ex =>
                                        let '(rg, j) := acc3 in
                                        (do g3 <- rg;
                                         match get_child ex ["column_reference"] with
                                         | Some cro =>
                                             do q <- extract_column_qualifier cro;
                                             match q with
                                             | Some c =>
                                                 (* after fix F6: a value beyond the insert column list is skipped *)
                                                 match nth_error ins j with
                                                 | Some tc => add_column_lineage g3 (plain_col (fst c) direct) tc
                                                 | None => Ok g3
                                                 end
                                             | None => Ok g3
                                             end
                                         | None => Ok g3
                                         end, S j)) (get_children vb ["literal"; "expression"]) (Ok gg, 0))
                             | None => Ok gg
                             end
                           | None => Ok gg
                           end
                       | None => Ok gg
                       end
                     | None => Ok gg
                     end) (get_children s ["merge_when_not_matched_clause"]) (Ok g).

Lemma nth_after {A} (pre : list A) s r : nth_res (pre ++ s :: r) (S (List.length pre)) = nth_res r 0.
Proof. unfold nth_res. induction pre as [|p pre IH]; cbn [app List.length nth_error]; [destruct r; reflexivity|exact IH]. Qed.

Lemma tyis_other s t t' : tyis s t = true -> String.eqb t t' = false -> tyis s t' = false.
Proof. intros H N. apply tyis_eq in H. unfold tyis. rewrite H. exact N. Qed.

Lemma merge_matched_ok stmt s g direct : Ds stmt s -> GI g -> (forall d, direct = Some d -> ds_ok d) ->
  okv GI (merge_matched s g direct).
Proof.
  intros Dsx HG Hdir. pose proof (Ds_ef _ _ Dsx) as Es. unfold merge_matched.
  eapply (okr_fold GI); [|exact HG]. intros gg wm Hwm Hgg. pose proof (Ds_get_children s _ wm Es Hwm) as Dwm.
  destruct (get_child wm ["merge_update_clause"]) as [muc|] eqn:E1; [|exact Hgg]. pose proof (Ds_get_child wm _ muc (Ds_ef _ _ Dwm) E1) as D1.
  destruct (get_child muc ["set_clause_list"]) as [scl|] eqn:E2; [|exact Hgg]. pose proof (Ds_get_child muc _ scl (Ds_ef _ _ D1) E2) as D2.
  eapply (okr_fold GI); [|exact Hgg]. intros g2 sc Hsc G2. pose proof (Ds_get_children scl _ sc (Ds_ef _ _ D2) Hsc) as Dsc.
  destruct (get_children sc ["column_reference"]) as [|c0 [|c1 [|c2 rr]]] eqn:Ec; try exact G2.
  assert (E0 : escape_free c0 = true) by (apply (Ds_ef sc); apply (Ds_get_children sc ["column_reference"] c0 (Ds_ef _ _ Dsc)); rewrite Ec; left; reflexivity).
  assert (E1' : escape_free c1 = true) by (apply (Ds_ef sc); apply (Ds_get_children sc ["column_reference"] c1 (Ds_ef _ _ Dsc)); rewrite Ec; right; left; reflexivity).
  apply (okr_bind _ _ _ _ (okr_okv _ _ (extract_column_qualifier_ok c1 E1'))). intros sq _.
  apply (okr_bind (fun o : option column => forall c, o = Some c -> col_ok c)).
  - destruct (st_write g2) as [|w wr] eqn:Ew; [intros c K; discriminate K|].
    apply (okr_bind _ _ _ _ (okr_okv _ _ (extract_column_qualifier_ok c0 E0))). intros tq _. cbn [okg].
    destruct tq as [t|]; [|intros c K; discriminate K]. intros c K. inversion K. apply plain_col_ok.
    intros d Kd. inversion Kd; subst. exact (st_write_head_ok g2 d wr G2 Ew).
  - intros tcol Htc. destruct sq as [sc0|]; [|exact G2]. destruct tcol as [tc|]; [|exact G2].
    apply add_column_lineage_okv; [exact G2|apply plain_col_ok; exact Hdir|exact (Htc tc eq_refl)].
Qed.

Lemma merge_not_matched_ok stmt s g direct : Ds stmt s -> GI g -> (forall d, direct = Some d -> ds_ok d) ->
  okv GI (merge_not_matched s g direct).
Proof.
  intros Dsx HG Hdir. pose proof (Ds_ef _ _ Dsx) as Es. unfold merge_not_matched.
  eapply (okr_fold GI); [|exact HG]. intros gg wn Hwn Gg. pose proof (Ds_get_children s _ wn Es Hwn) as Dwn.
  destruct (get_child wn ["merge_insert_clause"]) as [mi|] eqn:E1; [|exact Gg]. pose proof (Ds_get_child wn _ mi (Ds_ef _ _ Dwn) E1) as D1.
  destruct (get_child mi ["bracketed"]) as [b|] eqn:E2; [|exact Gg]. pose proof (Ds_get_child mi _ b (Ds_ef _ _ D1) E2) as D2.
  apply (okr_bind (Forall col_ok)).
  - apply okr_concat_map. intros cr Hcr. pose proof (Ds_get_children b _ cr (Ds_ef _ _ D2) Hcr) as Dcr.
    destruct (st_write gg) as [|w wr] eqn:Ew; [constructor|].
    apply (okr_bind _ _ _ _ (okr_okv _ _ (extract_column_qualifier_ok cr (Ds_ef _ _ Dcr)))). intros q _.
    destruct q as [c|]; [|constructor]. cbn [okg]. constructor; [|constructor].
    apply plain_col_ok. intros d Kd. inversion Kd; subst. exact (st_write_head_ok gg d wr Gg Ew).
  - intros ins Hins. destruct (get_child mi ["values_clause"]) as [vc|] eqn:E3; [|exact Gg]. pose proof (Ds_get_child mi _ vc (Ds_ef _ _ D1) E3) as D3.
    destruct (get_child vc ["bracketed"]) as [vb|] eqn:E4; [|exact Gg]. pose proof (Ds_get_child vc _ vb (Ds_ef _ _ D3) E4) as D4.
    eapply (okr_fold_idx GI); [|exact Gg]. intros g3 j ex Hex G3. pose proof (Ds_get_children vb _ ex (Ds_ef _ _ D4) Hex) as Dex.
    destruct (get_child ex ["column_reference"]) as [cro|] eqn:E5; [|exact G3]. pose proof (Ds_get_child ex _ cro (Ds_ef _ _ Dex) E5) as D5.
    apply (okr_bind _ _ _ _ (okr_okv _ _ (extract_column_qualifier_ok cro (Ds_ef _ _ D5)))). intros q _.
    destruct q as [c|]; [|exact G3]. destruct (nth_error ins j) as [tc|] eqn:En; [|exact G3].
    rewrite Forall_forall in Hins. apply add_column_lineage_okv; [exact G3|apply plain_col_ok; exact Hdir|exact (Hins tc (nth_error_In _ _ En))].
Qed.

(** * one step of the MERGE state machine *)
Definition MI (l : list seg) (a : mstate) : Prop :=
  let '(g, tf, sf, direct) := a in
  GI g /\ (forall d, direct = Some d -> ds_ok d) /\ merge_guard l sf = true.

Lemma find_table_ref e s : ty_in s ["table_reference"; "object_reference"] = true ->
  find_table e s = (do t <- table_of_seg e s None; Ok (Some t)).
Proof. intros H. unfold find_table. rewrite H. reflexivity. Qed.
Lemma find_table_noref e s : ty_in s ["table_reference"; "object_reference"] = false -> find_table e s = Ok None.
Proof. intros H. unfold find_table. rewrite H. reflexivity. Qed.

Lemma merge_step_ok fuel e stmt pre s r a :
  escape_free stmt = true -> depth stmt <= fuel -> list_child_segments stmt true = pre ++ s :: r ->
  MI (s :: r) a -> okv (MI r) (merge_step fuel e (list_child_segments stmt true) a (List.length pre) s).
Proof.
  intros Hef Hfuel Eseg Ha. destruct a as [[[g tf] sf] direct]. destruct Ha as (G & Hdir & Hg).
  assert (Dsx : Ds stmt s) by (apply (Ds_lcs stmt true s Hef); rewrite Eseg; apply in_or_app; right; left; reflexivity).
  pose proof (Ds_ef _ _ Dsx) as Es.
  assert (Dr : forall x, In x r -> Ds stmt x) by (intros x Hx; apply (Ds_lcs stmt true x Hef); rewrite Eseg; apply in_or_app; right; right; exact Hx).
  unfold merge_step. fold (merge_matched s g direct). cbn [merge_guard] in Hg.
  destruct (tyis s "merge_match") eqn:Emm.
  { apply (okr_bind (fun st : graph * bool * bool * option dataset * bool => exists g2, st = (g2, tf, sf, direct, false) /\ GI g2)).
    - apply (okr_bind GI); [exact (merge_matched_ok stmt s g direct Dsx G Hdir)|]. intros g1 G1.
      apply (okr_bind GI); [exact (merge_not_matched_ok stmt s g1 direct Dsx G1 Hdir)|]. intros g2 G2. exists g2. split; [reflexivity|exact G2].
    - intros st (g2 & -> & G2). cbv beta iota.
      assert (Eref : ty_in s ["table_reference"; "object_reference"] = false) by (apply tyis_eq in Emm; unfold ty_in; rewrite Emm; reflexivity).
      rewrite (find_table_noref e s Eref). rewrite (tyis_other s _ "bracketed" Emm eq_refl).
      destruct tf, sf; cbn; (split; [exact G2|split; [exact Hdir|exact Hg]]). }
  destruct (tyis s "keyword") eqn:Ekw.
  { cbv zeta. destruct (mem_string (raw_upper s) ["MERGE"; "INTO"]) eqn:Emi.
    - assert (Eu : String.eqb (raw_upper s) "USING" = false).
      { cbn [mem_string] in Emi. destruct (String.eqb_spec (raw_upper s) "USING") as [Eq|]; [|reflexivity]. rewrite Eq in Emi. discriminate Emi. }
      rewrite Eu in Hg. cbn. split; [exact G|split; [exact Hdir|exact Hg]].
    - destruct (String.eqb (raw_upper s) "USING"); cbn; (split; [exact G|split; [exact Hdir|exact Hg]]). }
  cbv beta iota. apply andb_true_iff in Hg. destruct Hg as [Hnx Hg].
  destruct (ty_in s ["table_reference"; "object_reference"]) eqn:Eref.
  - rewrite (find_table_ref e s Eref).
    pose proof (okr_okv _ _ (table_of_seg_ok e s None Es (ty_in_2_3 s Eref))) as Kt.
    assert (K2 : okv GI (if tf then do t <- (do t <- table_of_seg e s None; Ok (Some t)); Ok (match t with Some d => add_write g d | None => g end) else Ok g)).
    { destruct tf; [|exact G]. apply (okr_bind (fun o : option dataset => exists d, o = Some d /\ dk d = KTable)).
      - apply (okr_bind _ _ _ _ Kt). intros t Ht. exists t. split; [reflexivity|exact Ht].
      - intros o (d & -> & Hk). cbn [okg]. apply GI_add_write; [exact G|exact (ktable_ok d Hk)]. }
    apply (okr_bind _ _ _ _ K2). intros g2 G2.
    destruct sf.
    + apply (okr_bind (fun o : option dataset => exists d, o = Some d /\ dk d = KTable)).
      * apply (okr_bind _ _ _ _ Kt). intros t Ht. exists t. split; [reflexivity|exact Ht].
      * intros o (d & -> & Hk). cbn. split; [apply GI_add_read; [exact G2|exact (ktable_ok d Hk)]|]. split; [intros d0 K; inversion K; subst; exact (ktable_ok d0 Hk)|exact Hg].
    + cbn. split; [exact G2|]. split; [exact Hdir|exact Hg].
  - rewrite (find_table_noref e s Eref). cbn [negb] in Hnx. rewrite andb_true_r in Hnx.
    assert (E2 : (if tf then do t <- Ok (@None dataset); Ok (match t with Some d => add_write g d | None => g end) else Ok g) = Ok g) by (destruct tf; reflexivity).
    rewrite E2. cbv beta iota.
    destruct sf; [|cbn; split; [exact G|split; [exact Hdir|exact Hg]]].
    cbv beta iota. destruct (tyis s "bracketed") eqn:Ebr; [|cbn; split; [exact G|split; [exact Hdir|exact Hg]]].
    cbn [andb] in Hnx. rewrite Eseg, nth_after. destruct r as [|nx r']; [discriminate Hnx|]. change (nth_res (nx :: r') 0) with (Ok nx). cbv beta iota.
    pose proof (Dr nx (or_introl eq_refl)) as Dnx.
    apply (okr_bind TT).
    { destruct (tyis nx "alias_expression") eqn:Ea; [|exact I]. apply (okr_bind TT); [|intros i _; exact I].
      apply okr_okv. apply extract_identifier_ok; [exact (Ds_ef _ _ Dnx)|rewrite Ea; reflexivity]. }
    intros alias _. cbv zeta.
    set (q := extract_innermost_bracketed s). set (ds := mk_subquery q alias).
    assert (Dq : Ds stmt q) by exact (Ds_D_trans _ s _ Dsx (D_eib s Es)).
    assert (G3 : GI (add_read g ds)) by (apply GI_add_read; [exact G|apply mk_subquery_ds_ok]).
    apply (okr_bind GI).
    { destruct Dq as [Eq Dq]. apply extract_total; [exact Eq|lia|].
      split; [|split]; cbn; intros l Hl; inversion Hl; subst; [exact (sq_cte_ok2 _ G3)|constructor; [apply mk_subquery_ds_ok|constructor]]. }
    intros sub Gsub. cbn [okg MI]. split; [apply GI_compose; assumption|]. split; [intros d K; inversion K; subst; apply mk_subquery_ds_ok|exact Hg].
Qed.

Lemma merge_fold_ok fuel e stmt : escape_free stmt = true -> depth stmt <= fuel ->
  forall l pre ra, list_child_segments stmt true = pre ++ l -> okv (MI l) ra ->
  okv (MI []) (fst (fold_left (fun (accp : res mstate * nat) s => let '(acc, i) := accp in
                  (do a <- acc; merge_step fuel e (list_child_segments stmt true) a i s, S i)) l (ra, List.length pre))).
Proof.
  intros Hef Hfuel. induction l as [|s r IH]; intros pre ra Eseg Hra; cbn [fold_left fst]; [exact Hra|].
  assert (E2 : list_child_segments stmt true = (pre ++ [s]) ++ r) by (rewrite <- app_assoc; exact Eseg).
  replace (S (List.length pre)) with (List.length (pre ++ [s])) by (rewrite app_length; cbn; lia).
  apply (IH (pre ++ [s]) _ E2). apply (okr_bind _ _ _ _ Hra). intros a Ha. exact (merge_step_ok fuel e stmt pre s r a Hef Hfuel Eseg Ha).
Qed.

Theorem extract_merge_total fuel e stmt : escape_free stmt = true -> tyis stmt "merge_statement" = true -> depth stmt <= fuel ->
  okv TT (extract_merge fuel e stmt).
Proof.
  intros H T Hd. rewrite extract_merge_eq. cbv zeta. apply (okr_bind (MI [])); [|intros r _; exact I].
  apply (merge_fold_ok fuel e stmt H Hd (list_child_segments stmt true) [] _ eq_refl). cbn [okg MI].
  split; [exact GI_empty|]. split; [intros d K; discriminate K|exact (L7 stmt H T)].
Qed.
Print Assumptions extract_merge_total.
