(** Lemma B with metadata, part 3: the specification side of clauses (b) and (c) of C13 for statements whose select
    items are plain column references ([lemma_B_md_plain]). *)
From Coq Require Import Permutation.
From SV Require Import Tree.Render Tree.LemmaA Tree.LemmaAProofs Tree.LemmaAMeta Tree.LemmaB Tree.LemmaBProofs
     Ident.Escape Ident.EscapeProofs Holder.PathProofs Holder.SortProofs Ast.SpecMeta Tree.LemmaBMeta Tree.LemmaBMeta2.
From SV Require TriviaProofs.

(* ================================================================== *)
(** * Part L: membership in the de-duplicated lists of the specification *)
Lemma dedup_src_sub x l : forall seen, In x (dedup_src l seen) -> In x l.
Proof.
  induction l as [|a r IH]; intros seen H; [destruct H|]. cbn [dedup_src] in H. destruct (existsb (src_eqb a) seen).
  - right. exact (IH _ H).
  - destruct H as [<-|H]; [left; reflexivity|right; exact (IH _ H)].
Qed.

Lemma src_eqb_SCol t c y : src_eqb (SCol t c) y = true -> y = SCol t c.
Proof.
  destruct y as [t' c'| |]; cbn [src_eqb]; try discriminate. intros H. apply andb_true_iff in H. destruct H as [H1 H2].
  apply String.eqb_eq in H1, H2. subst. reflexivity.
Qed.

Lemma src_eqb_sym_SCol t c y : src_eqb y (SCol t c) = true -> y = SCol t c.
Proof.
  destruct y as [t' c'| |]; cbn [src_eqb]; try discriminate. intros H. apply andb_true_iff in H. destruct H as [H1 H2].
  apply String.eqb_eq in H1, H2. subst. reflexivity.
Qed.

Lemma dedup_src_complete t c l : forall seen, In (SCol t c) l -> In (SCol t c) (dedup_src l seen) \/ In (SCol t c) seen.
Proof.
  induction l as [|a r IH]; intros seen H; [destruct H|]. cbn [dedup_src]. destruct (existsb (src_eqb a) seen) eqn:E.
  - destruct H as [->|H]; [|exact (IH seen H)]. right. apply existsb_exists in E. destruct E as (y & Hy & Ey).
    rewrite (src_eqb_SCol t c y Ey) in Hy. exact Hy.
  - destruct H as [->|H]; [left; left; reflexivity|]. destruct (IH (a :: seen) H) as [K|[K|K]]; [left; right; exact K|left; left; exact K|right; exact K].
Qed.

Lemma In_dedup_src_SCol t c l : In (SCol t c) (dedup_src l []) <-> In (SCol t c) l.
Proof. split; [apply dedup_src_sub|]. intros H. destruct (dedup_src_complete t c l [] H) as [K|[]]. exact K. Qed.

Lemma In_dedup_s0 x l : In x (dedup_s l []) <-> In x l.
Proof. rewrite In_dedup_s. cbn [In]. tauto. Qed.

(* ================================================================== *)
(** * Part V: a table in a named schema is not in the placeholder schema *)
Lemma schema_ok_not_placeholder s : schema_ok s = true -> s <> Escape.placeholder.
Proof. intros H ->. vm_compute in H. discriminate. Qed.

Lemma id_ok_not_placeholder s : id_ok s = true -> s <> Escape.placeholder.
Proof. intros H ->. vm_compute in H. discriminate. Qed.

Lemma named_schema_dschema e r :
  env_ok_md e = true -> rel_ok r = true -> rel_named_schema (e_cfg e) r = true -> dschema (tbl_of e r) <> Escape.placeholder.
Proof.
  intros He Hr Hn. destruct r as [t al| |]; try discriminate. cbn [rel_ok] in Hr. apply andb_true_iff in Hr. destruct Hr as [Ht _].
  unfold tref_ok in Ht. apply andb_true_iff in Ht. destruct Ht as [_ Hs]. cbn [tbl_of tbl dschema]. unfold tbl_schema.
  unfold rel_named_schema in Hn. cbn [rtref] in Hn. destruct (fst t) as [s|].
  - apply schema_ok_not_placeholder. exact Hs.
  - apply negb_true_iff in Hn. rewrite Hn. apply id_ok_not_placeholder.
    unfold env_ok_md in He. apply andb_true_iff in He. destruct He as [He _]. apply andb_true_iff in He. destruct He as [_ He].
    rewrite Hn in He. exact He.
Qed.

(* ================================================================== *)
(** * Part I: one plain select item at one output position: the specified sources and the resolved flows *)
Lemma rel_lister_sbind ds md c r tn :
  In tn (rel_lister md c (sbind ds r)) <-> tn = rel_tname ds r /\ rel_lists ds md c r = true.
Proof.
  unfold rel_lister, rel_lists, rel_known. cbn [sbind b_rel]. fold (rel_tname ds r). destruct (known md (rel_tname ds r)) as [cols|].
  - destruct (mem_string c cols); cbn [In]; split; intros H; [destruct H as [<-|[]]; auto|left; symmetry; exact (proj1 H)|destruct H|destruct H; discriminate].
  - cbn [In]. split; [intros []|intros [_ H]; discriminate].
Qed.

Lemma forallb_base_sbind ds from : forallb base_b (map (sbind ds) from) = true.
Proof. induction from as [|r l IH]; [reflexivity|]. cbn [map forallb]. rewrite IH. reflexivity. Qed.

Section Pos.
Variable e : env.
Hypothesis He : env_ok_md e = true.
Hypothesis Hp : p_truthy (e_provider e) = true.
Variable base : catalog.
Variable t : tref.
Variable from : list rel.
Hypothesis Hrel : forallb rel_ok from = true.
Hypothesis Htc : tables_cond (e_cfg e) t from.
Hypothesis Hmn : md_names_ok (e_cfg e) base from = true.
Let ds := e_cfg e.
Let d := tbl e t None.
Let ts := map (tbl_of e) from.
Let scope := map (sbind ds) from.
Let tstr := tref_str ds t.

Lemma tbl_of_dstr r : In r from -> dstr (tbl_of e r) = rel_tname ds r.
Proof. intros Hr. pose proof Hrel as H. rewrite forallb_forall in H. rewrite (tbl_of_table e r (rel_ok_table _ (H r Hr))). reflexivity. Qed.

Lemma flow_str_resolved v cn nm : dk v = KTable ->
  flow_str (mk_col cn v, Wcol d nm) = ((dstr v ++ "." ++ escape cn) ++ ">" ++ tstr ++ "." ++ nm)%string.
Proof. intros Hk. unfold flow_str. cbn [fst snd src_str mk_col col_parent cparents col_str craw Wcol]. rewrite Hk. reflexivity. Qed.

(** the unqualified column [c] over several tables, at least one of which lists it *)
Lemma pos_listed c nm x :
  id_ok c = true -> 2 <= List.length from ->
  forallb (fun r => negb (rel_lists ds base c r) || rel_named_schema ds r) from = true ->
  existsb (rel_lists ds base c) from = true ->
  (In x (map flow_str (rflows (pB e base) [(Ucol ts c, Wcol d nm)])) <->
   exists r, In r from /\ rel_lists ds base c r = true /\ x = ((rel_tname ds r ++ "." ++ c) ++ ">" ++ tstr ++ "." ++ nm)%string).
Proof.
  intros Hc Hl Hns Hex.
  pose proof (ts_inj_of e t from Hrel Htc) as Hinj. fold ts in Hinj.
  pose proof (group_ok_of e t from Hrel Htc) as Hgo. fold d ts in Hgo.
  destruct (Ucol_props ts c Hinj) as (U1 & _ & U3).
  assert (Hl2 : 2 <= List.length (cparents (Ucol ts c))).
  { destruct (multi_of e t from Hrel Htc Hl) as (a & b & Ha & Hb & Hab). apply (two_members _ a b); [apply U3; exact Ha|apply U3; exact Hb|exact Hab]. }
  assert (Eu : unresolved (NCol (Ucol ts c)) = Some (Ucol ts c)).
  { apply unresolved_of; [apply col_parent_none; exact Hl2|]. intros K. rewrite K in Hl2. cbn in Hl2. lia. }
  (* the candidates of the catalog *)
  assert (HR : forall c', In c' (Rmd (pB e base) (Ucol ts c)) <->
                exists r, In r from /\ rel_lists ds base c r = true /\ c' = mk_col c (tbl_of e r)).
  { intros c'. rewrite (Rmd_lists e base (Ucol ts c) c' Hp). rewrite U1. split.
    - intros (v & cn & Hv & Hk & Hsch & (cols & Hkn & Hcn) & Ee & ->). apply U3 in Hv. unfold ts in Hv. apply in_map_iff in Hv. destruct Hv as (r & <- & Hr).
      rewrite (tbl_of_dstr r Hr) in Hkn.
      assert (Hidc : id_ok cn = true).
      { unfold md_names_ok in Hmn. rewrite forallb_forall in Hmn. specialize (Hmn r Hr). unfold rel_known in Hmn. fold ds in Hmn. rewrite Hkn in Hmn.
        rewrite forallb_forall in Hmn. exact (Hmn cn Hcn). }
      rewrite (id_ok_escape cn Hidc) in Ee. subst cn. exists r. split; [exact Hr|]. split; [|reflexivity].
      unfold rel_lists, rel_known. rewrite Hkn. apply mem_string_In. exact Hcn.
    - intros (r & Hr & Hli & ->). exists (tbl_of e r), c. split; [apply U3; apply in_map; exact Hr|]. split; [apply (go_tables _ _ Hgo); apply in_map; exact Hr|].
      split.
      + pose proof Hrel as H. rewrite forallb_forall in H, Hns. specialize (Hns r Hr). rewrite Hli in Hns. cbn [negb orb] in Hns.
        apply (named_schema_dschema e r He (H r Hr) Hns).
      + unfold rel_lists, rel_known in Hli. rewrite (tbl_of_dstr r Hr). destruct (known base (rel_tname ds r)) as [cols|]; [|discriminate].
        split; [exists cols; split; [reflexivity|apply mem_string_In; exact Hli]|]. split; [apply id_ok_escape; exact Hc|reflexivity]. }
  assert (Hne : Rmd (pB e base) (Ucol ts c) <> []).
  { apply existsb_exists in Hex. destruct Hex as (r & Hr & Hli). intros K.
    assert (Hin : In (mk_col c (tbl_of e r)) (Rmd (pB e base) (Ucol ts c))) by (apply HR; exists r; auto). rewrite K in Hin. destruct Hin. }
  unfold rflows. cbn [flat_map fst snd]. rewrite Eu, app_nil_r.
  destruct (Rmd (pB e base) (Ucol ts c)) as [|c0 cs] eqn:ER; [contradiction|]. rewrite <- ER in *. rewrite map_map, in_map_iff. split.
  - intros (c' & <- & Hc'). apply HR in Hc'. destruct Hc' as (r & Hr & Hli & ->). exists r. split; [exact Hr|]. split; [exact Hli|].
    rewrite flow_str_resolved by (apply (go_tables _ _ Hgo); apply in_map; exact Hr). rewrite (tbl_of_dstr r Hr), (id_ok_escape c Hc). reflexivity.
  - intros (r & Hr & Hli & ->). exists (mk_col c (tbl_of e r)). split; [|apply HR; exists r; auto].
    rewrite flow_str_resolved by (apply (go_tables _ _ Hgo); apply in_map; exact Hr). rewrite (tbl_of_dstr r Hr), (id_ok_escape c Hc). reflexivity.
Qed.

(** the specification for that reference *)
Lemma spec_listed c nm x :
  2 <= List.length from -> existsb (rel_lists ds base c) from = true ->
  (In x (map (fun sr => (show_src sr ++ ">" ++ tstr ++ "." ++ nm)%string) (dedup_src (resolve_md base scope (None, c) ++ []) [])) <->
   exists r, In r from /\ rel_lists ds base c r = true /\ x = ((rel_tname ds r ++ "." ++ c) ++ ">" ++ tstr ++ "." ++ nm)%string).
Proof.
  intros Hl Hex. set (listers := dedup_s (flat_map (rel_lister base c) scope) []).
  assert (HL : forall tn, In tn listers <-> exists r, In r from /\ tn = rel_tname ds r /\ rel_lists ds base c r = true).
  { intros tn. unfold listers. rewrite In_dedup_s0, in_flat_map. unfold scope. split.
    - intros (b & Hb & Hin). apply in_map_iff in Hb. destruct Hb as (r & <- & Hr). apply rel_lister_sbind in Hin. exists r. tauto.
    - intros (r & Hr & E1 & E2). exists (sbind ds r). split; [apply in_map; exact Hr|apply rel_lister_sbind; auto]. }
  assert (Hnn : is_nil listers = false).
  { apply existsb_exists in Hex. destruct Hex as (r & Hr & Hli).
    assert (K : In (rel_tname ds r) listers) by (apply HL; exists r; auto).
    destruct listers as [|a l]; [destruct K|reflexivity]. }
  assert (ER : resolve_md base scope (None, c) = map (fun tn => SCol tn c) listers).
  { unfold resolve_md. cbn [fst snd]. unfold scope. destruct from as [|r1 [|r2 rest]]; cbn [List.length] in Hl; try lia.
    cbn [map]. change (sbind ds r1 :: sbind ds r2 :: map (sbind ds) rest) with (map (sbind ds) (r1 :: r2 :: rest)).
    rewrite forallb_base_sbind. fold scope. fold listers. rewrite Hnn. reflexivity. }
  rewrite ER, app_nil_r, in_map_iff. split.
  - intros (sr & <- & Hsr). apply dedup_src_sub in Hsr. apply in_map_iff in Hsr. destruct Hsr as (tn & <- & Htn). apply HL in Htn.
    destruct Htn as (r & Hr & -> & Hli). exists r. split; [exact Hr|]. split; [exact Hli|]. reflexivity.
  - intros (r & Hr & Hli & ->). exists (SCol (rel_tname ds r) c). split; [reflexivity|]. apply In_dedup_src_SCol. apply in_map_iff.
    exists (rel_tname ds r). split; [reflexivity|]. apply HL. exists r. auto.
Qed.

Lemma Rmd_Ucol_sound c c' : id_ok c = true ->
  In c' (Rmd (pB e base) (Ucol ts c)) -> exists r, In r from /\ rel_lists ds base c r = true.
Proof.
  intros Hc H. pose proof (ts_inj_of e t from Hrel Htc) as Hinj. fold ts in Hinj. destruct (Ucol_props ts c Hinj) as (U1 & _ & U3).
  apply (Rmd_lists e base (Ucol ts c) c' Hp) in H. rewrite U1 in H.
  destruct H as (v & cn & Hv & Hk & Hsch & (cols & Hkn & Hcn) & Ee & ->). apply U3 in Hv. unfold ts in Hv. apply in_map_iff in Hv. destruct Hv as (r & <- & Hr).
  rewrite (tbl_of_dstr r Hr) in Hkn.
  assert (Hidc : id_ok cn = true).
  { unfold md_names_ok in Hmn. rewrite forallb_forall in Hmn. specialize (Hmn r Hr). unfold rel_known in Hmn. fold ds in Hmn. rewrite Hkn in Hmn.
    rewrite forallb_forall in Hmn. exact (Hmn cn Hcn). }
  rewrite (id_ok_escape cn Hidc) in Ee. subst cn. exists r. split; [exact Hr|]. unfold rel_lists, rel_known. rewrite Hkn. apply mem_string_In. exact Hcn.
Qed.

Lemma resolve_md_same qq c :
  (match qq with Some _ => True | None => existsb (rel_lists ds base c) from = false end) ->
  resolve_md base scope (qq, c) = resolve scope (qq, c).
Proof.
  intros H. unfold resolve_md, resolve. cbn [fst snd]. destruct qq as [q|]; [reflexivity|].
  assert (El : flat_map (rel_lister base c) scope = []).
  { apply flat_map_none. intros b Hb. unfold scope in Hb. apply in_map_iff in Hb. destruct Hb as (r & <- & Hr).
    destruct (rel_lister base c (sbind ds r)) as [|tn l] eqn:E; [reflexivity|]. exfalso.
    assert (K : In tn (rel_lister base c (sbind ds r))) by (rewrite E; left; reflexivity). apply rel_lister_sbind in K.
    assert (K2 : existsb (rel_lists ds base c) from = true) by (apply existsb_exists; exists r; tauto). congruence. }
  destruct scope as [|b [|b' rest]]; [reflexivity|reflexivity|]. rewrite El. cbn [dedup_s is_nil negb]. rewrite andb_false_r. reflexivity.
Qed.

(** one plain item at the output position named [nm] *)
Lemma pos_corr i nm :
  item_ok i = true -> (match i with IExpr _ _ => true | IStar _ => false end) = true ->
  (match snd (item_ref i) with
   | Some q => qual1 from q
   | None => (exists r, from = [r]) \/ (2 <= List.length from /\ fst (item_ref i) <> "*")
   end) ->
  (match i with
   | IExpr (EColRef None c) _ => 2 <= List.length from -> forallb (fun r => negb (rel_lists ds base c r) || rel_named_schema ds r) from = true
   | _ => True
   end) ->
  exists srcs, item_cols_md base scope i = [(item_name i, srcs)] /\
    forall x, In x (map (fun sr => (show_src sr ++ ">" ++ tstr ++ "." ++ nm)%string) srcs) <->
              In x (map flow_str (rflows (pB e base) (map (fun s0 => (s0, Wcol d nm)) (S_of ts (xcol_of i))))).
Proof.
  intros Hi Hpl Hcond Hunq. destruct (xcol_of_facts i Hi) as (F1 & F2 & F3 & F4).
  destruct i as [[qq c| | | | | |] al|qq]; cbn [item_ok] in Hi; try discriminate. clear Hpl.
  cbn [item_ref fst snd] in *.
  assert (Hc : id_ok c = true).
  { apply andb_true_iff in Hi. destruct Hi as [Hi _]. apply andb_true_iff in Hi. exact (proj1 Hi). }
  assert (Emd : item_cols_md base scope (IExpr (EColRef qq c) al) =
                [(item_name (IExpr (EColRef qq c) al), dedup_src (resolve_md base scope (qq, c) ++ []) [])]) by reflexivity.
  (* the listed case *)
  destruct (match qq with Some _ => false | None => Nat.leb 2 (List.length from) && existsb (rel_lists ds base c) from end) eqn:EB.
  - destruct qq as [q|]; [discriminate|]. apply andb_true_iff in EB. destruct EB as [Hl Hex]. apply Nat.leb_le in Hl.
    eexists. split; [exact Emd|]. intros x.
    rewrite (spec_listed c nm x Hl Hex).
    assert (ES : S_of ts (xcol_of (IExpr (EColRef None c) al)) = [Ucol ts c]).
    { unfold S_of. rewrite F2. apply (multi_not_single ts _ _ _ (multi_of e t from Hrel Htc Hl)). }
    rewrite ES. cbn [map]. rewrite (pos_listed c nm x Hc Hl (Hunq Hl) Hex). reflexivity.
  - (* nothing is resolved through the catalog *)
    assert (Hsame : match qq with Some _ => True | None => (exists r, from = [r]) \/ existsb (rel_lists ds base c) from = false end).
    { destruct qq as [q|]; [exact I|]. destruct Hcond as [Hs|[Hl _]]; [left; exact Hs|]. right. apply Nat.leb_le in Hl. rewrite Hl in EB. exact EB. }
    destruct (item_corr_n e t from (IExpr (EColRef qq c) al) nm Hrel Hi Htc Hcond) as (srcs & E1 & E2).
    assert (Eres : resolve_md base scope (qq, c) = resolve scope (qq, c)).
    { destruct qq as [q|]; [reflexivity|]. destruct Hsame as [(r & Er)|Hno]; [|apply (resolve_md_same None c Hno)].
      unfold scope. rewrite Er. reflexivity. }
    exists srcs. split.
    + rewrite Emd, Eres. exact E1.
    + intros x. fold ds tstr in E2. fold d ts in E2. rewrite E2.
      assert (Eid : rflows (pB e base) (map (fun s0 => (s0, Wcol d nm)) (S_of ts (xcol_of (IExpr (EColRef qq c) al)))) =
                    map (fun s0 => (s0, Wcol d nm)) (S_of ts (xcol_of (IExpr (EColRef qq c) al)))).
      { unfold S_of. rewrite F2. destruct qq as [q|].
        - apply rflows_single. intros f Hf. apply in_map_iff in Hf. destruct Hf as (s0 & <- & Hs0). cbn [fst].
          destruct (find _ ts) as [v|]; [|destruct Hs0]. destruct Hs0 as [<-|[]]. exists v. reflexivity.
        - destruct Hsame as [(r & Er)|Hno].
          + unfold ts. rewrite Er. cbn [map]. apply rflows_single. intros f [<-|[]]. eexists. reflexivity.
          + destruct ts as [|a [|b r']] eqn:Ets.
            * apply rflows_id. intros f [<-|[]]. cbn [fst]. rewrite <- Ets.
              destruct (Rmd (pB e base) (Ucol ts c)) as [|c0 cs] eqn:ER; [reflexivity|]. exfalso.
              destruct (Rmd_Ucol_sound c c0 Hc) as (r & Hr & Hli); [rewrite ER; left; reflexivity|].
              assert (K : existsb (rel_lists ds base c) from = true) by (apply existsb_exists; exists r; auto). congruence.
            * apply rflows_single. intros f [<-|[]]. eexists. reflexivity.
            * apply rflows_id. intros f [<-|[]]. cbn [fst]. rewrite <- Ets.
              destruct (Rmd (pB e base) (Ucol ts c)) as [|c0 cs] eqn:ER; [reflexivity|]. exfalso.
              destruct (Rmd_Ucol_sound c c0 Hc) as (r & Hr & Hli); [rewrite ER; left; reflexivity|].
              assert (K : existsb (rel_lists ds base c) from = true) by (apply existsb_exists; exists r; auto). congruence. }
      rewrite Eid. reflexivity.
Qed.
End Pos.

(* ================================================================== *)
(** * Part M: assembling the positions *)
Lemma rflows_flat_map {A} p (f : A -> list flow) l : rflows p (flat_map f l) = flat_map (fun a => rflows p (f a)) l.
Proof. unfold rflows. apply flat_map_flat_map. Qed.

Lemma flows_positions (S : xcol -> list column) (W : string -> column) items names :
  flows_of S (combine (map xcol_of items) (map W names)) =
  flat_map (fun p : item * string => map (fun s0 => (s0, W (snd p))) (S (xcol_of (fst p)))) (combine items names).
Proof. unfold flows_of. rewrite combine_map, flat_map_map'. reflexivity. Qed.

Lemma own_pairs_names d items :
  forallb item_ok items = true ->
  own_pairs d (map xcol_of items) = combine (map xcol_of items) (map (Wcol d) (map item_name items)).
Proof.
  induction items as [|i r IH]; intros H; [reflexivity|]. cbn [forallb] in H. apply andb_true_iff in H. destruct H as [Hi Hr].
  unfold own_pairs in *. cbn [map combine]. rewrite (IH Hr). f_equal. f_equal.
  destruct (xcol_of_facts i Hi) as (F1 & _). rewrite own_col_eq by (rewrite F1; reflexivity). rewrite F1. reflexivity.
Qed.

Definition pos_strs (md : catalog) (scope : list binding) (tstr : string) (p : item * string) : list string :=
  flat_map (fun c : colspec => map (fun sr => (show_src sr ++ ">" ++ tstr ++ "." ++ snd p)%string) (snd c)) (item_cols_md md scope (fst p)).

(** the specification, position by position, for the three ways the output names are chosen *)
Lemma spec_md_positions ds md (s : stmt) t cols items from cj names :
  forallb is_rtable from = true ->
  (forall i, In i items -> exists srcs, item_cols_md md (map (sbind ds) from) i = [(item_name i, srcs)]) ->
  List.length names = List.length items ->
  (s = SInsert t cols (QSelect items from cj None) /\
     ((cols = Some names) \/ (cols = None /\ known md (tref_str ds t) = Some names)
      \/ (cols = None /\ known md (tref_str ds t) = None /\ names = map item_name items))
   \/ ((s = SCtas t (QSelect items from cj None) \/ s = SView t (QSelect items from cj None)) /\ names = map item_name items)) ->
  map (fun p => (show_src (fst p) ++ ">" ++ snd p)%string) (spec_flows_md ds md s) =
  flat_map (pos_strs md (map (sbind ds) from) (tref_str ds t)) (combine items names).
Proof.
  intros Hrt Hs1 Hlen Hmode. set (scope := map (sbind ds) from) in *. set (IC := item_cols_md md scope).
  assert (Eq : q_cols_md (S (q_size (QSelect items from cj None))) ds md [] (QSelect items from cj None) = flat_map IC items).
  { cbn [q_cols_md]. rewrite (rels_flat_tables from Hrt).
    match goal with |- flat_map (item_cols_md md ?S1) items = _ => assert (E : S1 = scope) end.
    { apply map_ext_in. intros r Hr. pose proof Hrt as H. rewrite forallb_forall in H. specialize (H r Hr). destruct r as [t0 al| |]; try discriminate.
      cbn [assoc_s]. destruct (fst t0); reflexivity. }
    rewrite E. reflexivity. }
  assert (Hl : List.length (flat_map IC items) = List.length items).
  { apply length_flat_single. intros i Hi. destruct (Hs1 i Hi) as (srcs & E). eexists. exact E. }
  assert (Hn : map fst (flat_map IC items) = map item_name items).
  { clear -Hs1. induction items as [|i r IH]; [reflexivity|]. cbn [flat_map map]. destruct (Hs1 i (or_introl eq_refl)) as (srcs & E). unfold IC at 1. rewrite E.
    cbn [app map fst]. f_equal. apply IH. intros i' Hi'. apply Hs1. right. exact Hi'. }
  (* the general form *)
  assert (G : forall nms, List.length nms = List.length items ->
              map (fun p => (show_src (fst p) ++ ">" ++ snd p)%string)
                  (flat_map (fun p : string * colspec => map (fun sr => (sr, (tref_str ds t ++ "." ++ fst p)%string)) (snd (snd p))) (combine nms (flat_map IC items))) =
              flat_map (pos_strs md scope (tref_str ds t)) (combine items nms)).
  { clear -Hs1. induction items as [|i r IH]; intros [|c cr] Hl0; cbn [List.length] in Hl0; try discriminate; [reflexivity|].
    destruct (Hs1 i (or_introl eq_refl)) as (srcs & E). cbn [flat_map combine fst snd]. unfold IC at 1. rewrite E. cbn [app combine flat_map fst snd].
    rewrite map_app. f_equal.
    - unfold pos_strs. cbn [fst snd]. rewrite E. cbn [flat_map snd]. rewrite app_nil_r, map_map. reflexivity.
    - apply IH; [intros i' Hi'; apply Hs1; right; exact Hi'|lia]. }
  destruct Hmode as [[-> Hm]|[Hm ->]].
  - unfold spec_flows_md. rewrite Eq. destruct Hm as [->|[[-> Hk]|(-> & Hk & ->)]].
    + rewrite Hl, Hlen, Nat.eqb_refl. apply G. exact Hlen.
    + rewrite Hk, Hl, Hlen, Nat.eqb_refl. apply G. exact Hlen.
    + rewrite Hk, Hn. apply G. exact Hlen.
  - assert (E2 : spec_flows_md ds md s =
                 flat_map (fun p : string * colspec => map (fun sr => (sr, (tref_str ds t ++ "." ++ fst p)%string)) (snd (snd p)))
                          (combine (map item_name items) (flat_map IC items))).
    { destruct Hm as [-> | ->]; unfold spec_flows_md; rewrite Eq, <- Hn; symmetry; apply combine_names_flows. }
    rewrite E2. apply G. rewrite map_length. reflexivity.
Qed.

Definition unq_guard (ds : string) (md : catalog) (from : list rel) (i : item) : Prop :=
  match i with
  | IExpr (EColRef None c) _ => 2 <= List.length from -> forallb (fun r => negb (rel_lists ds md c r) || rel_named_schema ds r) from = true
  | _ => True
  end.

Lemma md_unq_guard ds md from items i : md_unq_ok ds md from items = true -> In i items -> unq_guard ds md from i.
Proof.
  intros H Hi. unfold unq_guard. destruct i as [[[q|] c| | | | | |] al|qq]; try exact I. intros Hl.
  unfold md_unq_ok in H. destruct from as [|r1 [|r2 rest]]; cbn [List.length] in Hl; try lia.
  rewrite forallb_forall in H. specialize (H _ Hi). cbn beta iota in H. apply andb_true_iff in H. exact (proj1 H).
Qed.

Lemma plain_core e base (s : stmt) stmt t cols items from cj names :
  env_ok_md e = true -> p_truthy (e_provider e) = true ->
  forallb rel_ok from = true -> tables_cond (e_cfg e) t from -> md_names_ok (e_cfg e) base from = true ->
  forallb item_ok items = true -> items_plain_b items = true -> items_cond from items ->
  (forall i, In i items -> unq_guard (e_cfg e) base from i) ->
  List.length names = List.length items ->
  (s = SInsert t cols (QSelect items from cj None) /\
     ((cols = Some names) \/ (cols = None /\ known base (tref_str (e_cfg e) t) = Some names)
      \/ (cols = None /\ known base (tref_str (e_cfg e) t) = None /\ names = map item_name items))
   \/ ((s = SCtas t (QSelect items from cj None) \/ s = SView t (QSelect items from cj None)) /\ names = map item_name items)) ->
  script_pairs e false base [stmt] =
    uniq_sorted (sort_strings (map flow_str (rflows (pB e base)
      (flows_of (S_of (map (tbl_of e) from)) (combine (map xcol_of items) (map (Wcol (tbl e t None)) names)))))) ->
  script_pairs e false base [stmt] = spec_pairs_md (e_cfg e) base s.
Proof.
  intros He Hp Hrel Htc Hmn Hit Hpl Hic Hunq Hlen Hmode Hmodel. rewrite Hmodel. unfold spec_pairs_md. apply us_ext. intros x.
  assert (Hrt : forallb is_rtable from = true).
  { rewrite forallb_forall in *. intros r Hr. apply rel_ok_table. apply Hrel. exact Hr. }
  assert (Hpos : forall i nm, In i items ->
            exists srcs, item_cols_md base (map (sbind (e_cfg e)) from) i = [(item_name i, srcs)] /\
              forall y, In y (map (fun sr => (show_src sr ++ ">" ++ tref_str (e_cfg e) t ++ "." ++ nm)%string) srcs) <->
                        In y (map flow_str (rflows (pB e base) (map (fun s0 => (s0, Wcol (tbl e t None) nm)) (S_of (map (tbl_of e) from) (xcol_of i)))))).
  { intros i nm Hi. rewrite forallb_forall in Hit. unfold items_plain_b in Hpl. rewrite forallb_forall in Hpl.
    apply (pos_corr e He Hp base t from Hrel Htc Hmn i nm (Hit i Hi) (Hpl i Hi) (Hic i Hi)). exact (Hunq i Hi). }
  rewrite (spec_md_positions (e_cfg e) base s t cols items from cj names Hrt (fun i Hi => match Hpos i "" Hi with ex_intro _ srcs (conj E _) => ex_intro _ srcs E end) Hlen Hmode).
  rewrite flows_positions, rflows_flat_map, map_flat_map', !in_flat_map. split.
  - intros ([i nm] & Hin & Hx). exists (i, nm). split; [exact Hin|]. cbn [fst snd] in *.
    destruct (Hpos i nm (in_combine_l _ _ _ _ Hin)) as (srcs & E & Heq). unfold pos_strs. cbn [fst snd]. rewrite E. cbn [flat_map snd]. rewrite app_nil_r.
    apply Heq. exact Hx.
  - intros ([i nm] & Hin & Hx). exists (i, nm). split; [exact Hin|]. cbn [fst snd] in *.
    destruct (Hpos i nm (in_combine_l _ _ _ _ Hin)) as (srcs & E & Heq). unfold pos_strs in Hx. cbn [fst snd] in Hx. rewrite E in Hx. cbn [flat_map snd] in Hx. rewrite app_nil_r in Hx.
    apply Heq. exact Hx.
Qed.

(* ================================================================== *)
(** * [lemma_B_md_statement] for statements whose select items are plain column references: clauses (b) and (c), and their
      combination, against the specification *)
Theorem lemma_B_md_plain : forall noise e base s,
  noise_ok noise = true -> env_ok_md e = true -> p_truthy (e_provider e) = true -> stmt_ok s = true -> sshape s = true ->
  colshape s = true -> sel_tables_syntactic s = true -> md_ok (e_cfg e) base s = true -> items_plain_s s = true ->
  script_pairs e false base [r_stmt noise s] = spec_pairs_md (e_cfg e) base s.
Proof.
  intros noise e base s Hn He Hp Hok Hss Hc Hsh Hmd Hpls.
  assert (K : exists t items from cj,
            ((exists cols, s = SInsert t cols (QSelect items from cj None) /\ match cols with Some cs => forallb id_ok cs = true | None => True end)
             \/ s = SCtas t (QSelect items from cj None) \/ s = SView t (QSelect items from cj None)) /\
            forallb is_rtable from && trefs_distinct (map rtref from) = true /\
            tref_ok t && frag_query (S (q_size (QSelect items from cj None))) (QSelect items from cj None)
            && names_ok_q (S (q_size (QSelect items from cj None))) [] (QSelect items from cj None) = true).
  { destruct s as [t cols q|t q|t q|q|kind]; cbn [sel_tables_syntactic] in Hsh; try discriminate;
      destruct q as [items from cj [wh|]| |]; try discriminate; exists t, items, from, cj.
    - cbn [stmt_ok] in Hok. apply andb_true_iff in Hok. destruct Hok as [Hok' Hcols]. split; [|split; [exact Hsh|exact Hok']].
      left. exists cols. split; [reflexivity|]. destruct cols; [exact Hcols|exact I].
    - cbn [stmt_ok] in Hok. split; [right; left; reflexivity|]. split; [exact Hsh|exact Hok].
    - cbn [stmt_ok] in Hok. split; [right; right; reflexivity|]. split; [exact Hsh|exact Hok]. }
  destruct K as (t & items & from & cj & Hs & Hsh' & Hok').
  apply andb_true_iff in Hsh'. destruct Hsh' as [Hrt Hd].
  destruct (stmt_ok_select t items from cj Hok' Hrt) as (Ht & Hit & Hne & Hrel).
  assert (Hs' : (exists cols, s = SInsert t cols (QSelect items from cj None)) \/ s = SCtas t (QSelect items from cj None) \/ s = SView t (QSelect items from cj None)).
  { destruct Hs as [(cols & E & _)|[E|E]]; [left; exists cols; exact E|right; left; exact E|right; right; exact E]. }
  destruct (colshape_tables (e_cfg e) s t items from cj Hs' Hc Ht Hne Hrel Hit Hd) as (Htc & Hic & Hnq).
  set (ds := e_cfg e) in *.
  (* the parts of the guard *)
  assert (Hg : md_names_ok ds base from = true /\ md_target_ok ds base s = true /\ md_unq_ok ds base from items = true /\ items_plain_b items = true).
  { destruct Hs as [(cols & E & _)|[E|E]]; rewrite E in Hmd, Hpls |- *; cbn [md_ok items_plain_s stmt_query] in Hmd, Hpls;
      apply andb_true_iff in Hmd; destruct Hmd as [Hmd M4]; apply andb_true_iff in Hmd; destruct Hmd as [Hmd M3];
      apply andb_true_iff in Hmd; destruct Hmd as [M1 _]; auto. }
  destruct Hg as (Hmn & Hmt & Hmu & Hpl).
  assert (Hunq : forall i, In i items -> unq_guard ds base from i) by (intros i Hi; apply (md_unq_guard ds base from items i Hmu Hi)).
  assert (Hown : own_pairs (tbl e t None) (map xcol_of items) = combine (map xcol_of items) (map (Wcol (tbl e t None)) (map item_name items)))
    by (apply own_pairs_names; exact Hit).
  assert (Hlo : List.length (map item_name items) = List.length items) by apply map_length.
  destruct Hs as [(cols & E & Hcols)|Hs].
  - (* INSERT *)
    rewrite E in Hmt. cbn [md_target_ok] in Hmt. apply andb_true_iff in Hmt. destruct Hmt as [Hmt _].
    destruct (known base (tref_str ds t)) as [tc|] eqn:Hk.
    + (* the target is known: no explicit list, positions named by the catalog *)
      apply andb_true_iff in Hmt. destruct Hmt as [Hmt Hnd]. apply andb_true_iff in Hmt. destruct Hmt as [Hmt Hidtc].
      apply andb_true_iff in Hmt. destruct Hmt as [Hmt Hlen]. apply andb_true_iff in Hmt. destruct Hmt as [Hno _].
      destruct cols as [cs|]; [discriminate|]. apply Nat.eqb_eq in Hlen. apply nodup_s_NoDup in Hnd.
      apply (plain_core e base s _ t None items from cj tc He Hp Hrel Htc Hmn Hit Hpl Hic Hunq Hlen).
      { left. split; [exact E|]. right. left. auto. }
      rewrite E in Hok, Hss |- *.
      assert (T1 : target_cols (with_cols e (view_cols [] base)) t = map (Wcol (tbl e t None)) tc).
      { unfold target_cols, provider_columns.
        change (provider_cols _ (tbl (with_cols e (view_cols [] base)) t None)) with (provider_cols (pB e base) (tbl e t None)).
        rewrite provider_cols_known. change (dstr (tbl e t None)) with (tref_str ds t). rewrite Hk. apply map_ext_in. intros c Hc0.
        rewrite forallb_forall in Hidtc. rewrite (id_ok_escape c (Hidtc c Hc0)). reflexivity. }
      apply (model_plain_cols noise e base t None tc items from cj Hn He Hok Hss Ht Hidtc Hnd Hlen Hit Hne Hrel Hpl Htc Hic Hnq
               (or_intror (conj eq_refl (conj Hp T1)))).
    + destruct cols as [cs|].
      * (* explicit column list, target unknown *)
        destruct (colshape_tables "" s t items from cj Hs' Hc Ht Hne Hrel Hit Hd) as (Htc0 & _ & _).
        destruct (colshape_cols s t cs items from cj E Hc Hrel Hit Htc0 Hic) as [Hnd Hlen].
        apply (plain_core e base s _ t (Some cs) items from cj cs He Hp Hrel Htc Hmn Hit Hpl Hic Hunq Hlen).
        { left. split; [exact E|]. left. reflexivity. }
        rewrite E in Hok, Hss |- *.
        assert (T2 : target_cols (with_cols e (view_cols [] base)) t = []).
        { apply (provider_columns_unknown e base (tbl e t None)). unfold is_known. change (dstr (tbl e t None)) with (tref_str ds t). rewrite Hk. reflexivity. }
        apply (model_plain_cols noise e base t (Some cs) cs items from cj Hn He Hok Hss Ht Hcols Hnd Hlen Hit Hne Hrel Hpl Htc Hic Hnq
                 (or_introl (conj eq_refl (fun _ => T2)))).
      * (* own names *)
        apply (plain_core e base s _ t None items from cj (map item_name items) He Hp Hrel Htc Hmn Hit Hpl Hic Hunq Hlo).
        { left. split; [exact E|]. right. right. auto. }
        rewrite <- Hown.
        apply (model_plain_own noise e base s t items from cj Hn He); try assumption.
        left. split; [exact E|]. unfold is_known. fold ds. rewrite Hk. reflexivity.
  - apply (plain_core e base s _ t None items from cj (map item_name items) He Hp Hrel Htc Hmn Hit Hpl Hic Hunq Hlo).
    { right. split; [exact Hs|reflexivity]. }
    rewrite <- Hown.
    apply (model_plain_own noise e base s t items from cj Hn He); try assumption. right. exact Hs.
Qed.
Print Assumptions lemma_B_md_plain.

(** non-vacuity: unqualified columns resolved through the catalog (one lister / two listers / an unknown table dropped /
    nobody lists), and a known target with known sources *)
Example lemma_B_md_plain_nonvacuous :
  let e := MdB.E "main" in
  let base : catalog := [("main.x", ["p"; "q"; "r"]); ("main.t", ["a"; "b"]); ("main.u", ["a"; "c"])] in
  let s1 := SInsert MdB.X None (QSelect [MdB.col "a"; MdB.acol "c" "z"; MdB.col "zz"] [MdB.T "t"; MdB.T "u"; MdB.T "w"] false None) in
  let s2 := SCtas (None, "y") (QSelect [MdB.col "b"; MdB.qcol "w" "k"] [MdB.T "t"; MdB.T "w"] true None) in
  forallb (fun s => noise_ok [MdB.W] && env_ok_md e && p_truthy (e_provider e) && stmt_ok s && sshape s && colshape s
                    && sel_tables_syntactic s && md_ok (e_cfg e) base s && items_plain_s s) [s1; s2] = true /\
  script_pairs e false base [r_stmt [MdB.W] s1] =
    ["main.t.a>main.x.p"; "main.u.a>main.x.p"; "main.u.c>main.x.q"; "zz{main.t,main.u,main.w}>main.x.r"] /\
  script_pairs e false base [r_stmt [MdB.W] s2] = ["main.t.b>main.y.b"; "main.w.k>main.y.k"].
Proof. repeat split; vm_compute; reflexivity. Qed.
