(** C10 on ALL segment trees, part 2: no internal error in sqlfluff/utils.py and sqlfluff/models.py
    (Tree/Utils.v, Tree/Models.v) on escape-free trees. *)
From SV Require Import Tree.Observe Tree.TriviaProofs Tree.TotalDefs.
Require Import Lia.
Open Scope string_scope.
Open Scope list_scope.

(** the seven local conditions, one at a time *)
Lemma local_parts x : local_ok x = true ->
  imp (tyis x FEE) (nonempty (children x)) = true /\
  imp (tyis x ALIAS || is_type x [ALIAS]) (nonempty (list_child_segments x true)) = true /\
  imp (tyis x FEE || is_type x [FEE]) (match fee_target x with Some t => nonempty (children t) | None => false end) = true /\
  imp (is_type x [FEE]) (fee_is_function_source x || nonempty (filter (fun y => negb (tyis y "keyword")) (list_child_segments x true))) = true /\
  imp (tyis x "column_reference") (nonempty (list_child_segments x true)) = true /\
  imp (ty_in x ["table_reference"; "object_reference"; "file_reference"]) (nonempty (children x)) = true /\
  imp (tyis x "merge_statement") (merge_guard (list_child_segments x true) false) = true.
Proof.
  unfold local_ok. rewrite !andb_true_iff. intros [[[[[[H1 H2] H3] H4] H5] H6] H7]. repeat split; assumption.
Qed.

Lemma L1 x : escape_free x = true -> tyis x FEE = true -> children x <> [].
Proof. intros H T. apply nonempty_true. exact (imp_true _ _ (proj1 (local_parts x (ef_local x H))) T). Qed.
Lemma L2 x : escape_free x = true -> tyis x ALIAS || is_type x [ALIAS] = true -> list_child_segments x true <> [].
Proof. intros H T. apply nonempty_true. exact (imp_true _ _ (proj1 (proj2 (local_parts x (ef_local x H)))) T). Qed.
Lemma L3 x : escape_free x = true -> tyis x FEE || is_type x [FEE] = true ->
  exists t, fee_target x = Some t /\ children t <> [].
Proof.
  intros H T. pose proof (imp_true _ _ (proj1 (proj2 (proj2 (local_parts x (ef_local x H))))) T) as K.
  destruct (fee_target x) as [t|]; [|discriminate]. exists t. split; [reflexivity|apply nonempty_true; exact K].
Qed.
Lemma L4 x : escape_free x = true -> is_type x [FEE] = true ->
  fee_is_function_source x || nonempty (filter (fun y => negb (tyis y "keyword")) (list_child_segments x true)) = true.
Proof. intros H T. exact (imp_true _ _ (proj1 (proj2 (proj2 (proj2 (local_parts x (ef_local x H)))))) T). Qed.
Lemma L5 x : escape_free x = true -> tyis x "column_reference" = true -> list_child_segments x true <> [].
Proof. intros H T. apply nonempty_true. exact (imp_true _ _ (proj1 (proj2 (proj2 (proj2 (proj2 (local_parts x (ef_local x H))))))) T). Qed.
Lemma L6 x : escape_free x = true -> ty_in x ["table_reference"; "object_reference"; "file_reference"] = true -> children x <> [].
Proof. intros H T. apply nonempty_true. exact (imp_true _ _ (proj1 (proj2 (proj2 (proj2 (proj2 (proj2 (local_parts x (ef_local x H)))))))) T). Qed.
Lemma L7 x : escape_free x = true -> tyis x "merge_statement" = true -> merge_guard (list_child_segments x true) false = true.
Proof. intros H T. exact (imp_true _ _ (proj2 (proj2 (proj2 (proj2 (proj2 (proj2 (local_parts x (ef_local x H)))))))) T). Qed.

(** partial list operations *)
Lemma nth_res_0 {A} (l : list A) : l <> [] -> exists x, nth_res l 0 = Ok x /\ In x l.
Proof. destruct l as [|x r]; [intros H; destruct (H eq_refl)|]. intros _. exists x. split; [reflexivity|left; reflexivity]. Qed.

Lemma last_res_ok {A} (l : list A) : l <> [] -> exists x, last_res l = Ok x /\ In x l.
Proof.
  intros H. unfold last_res. destruct (rev l) as [|x r] eqn:E.
  - destruct H. rewrite <- (rev_involutive l), E. reflexivity.
  - exists x. split; [reflexivity|]. apply in_rev. rewrite E. left; reflexivity.
Qed.

Lemma nth_res_lt {A} (l : list A) i : i < List.length l -> exists x, nth_res l i = Ok x /\ In x l.
Proof.
  intros H. unfold nth_res. destruct (nth_error l i) as [x|] eqn:E.
  - exists x. split; [reflexivity|exact (nth_error_In l i E)].
  - apply nth_error_None in E. lia.
Qed.

(* ================================================================== *)
(** * utils.py *)
Lemma is_subquery_ok s : escape_free s = true -> okr TT (is_subquery s).
Proof.
  intros H. unfold is_subquery. destruct (tyis s "from_expression_element" || tyis s "bracketed") eqn:E; [|exact I].
  assert (K : okr TT (if tyis s "bracketed" then Ok s else nth_res (children s) 0)).
  { destruct (tyis s "bracketed") eqn:Eb; [exact I|]. rewrite orb_false_r in E.
    destruct (nth_res_0 (children s) (L1 s H E)) as (x & -> & _). exact I. }
  apply (okr_bind TT TT _ _ K). intros start _.
  destruct (get_child _ ["select_statement"; "set_expression"; "with_compound_statement"]); [exact I|].
  destruct (get_child _ ["expression"]) as [ex|]; [|exact I]. destruct (get_child ex _); exact I.
Qed.

Lemma extract_identifier_ok a : escape_free a = true -> tyis a ALIAS || is_type a [ALIAS] = true -> okr TT (extract_identifier a).
Proof.
  intros H T. unfold extract_identifier. destruct (last_res_ok _ (L2 a H T)) as (x & -> & _). exact I.
Qed.

Lemma alias_of_get_child s a : get_child s ["alias_expression"] = Some a -> tyis a ALIAS || is_type a [ALIAS] = true.
Proof. intros E. rewrite (get_child_type s _ a E). apply orb_true_r. Qed.

Lemma opt_alias_ok s (o : option seg) : escape_free s = true -> (forall a, o = Some a -> Ds s a /\ tyis a ALIAS || is_type a [ALIAS] = true) ->
  okr TT (match o with Some a => match extract_identifier a with Ok i => Ok (Some i) | Err e => Err e end | None => Ok None end).
Proof.
  intros H K. destruct o as [a|]; [|exact I]. destruct (K a eq_refl) as [Hd Ha].
  apply (okr_bind TT TT _ _ (extract_identifier_ok a (Ds_ef _ _ Hd) Ha)). intros i _. exact I.
Qed.

Lemma extract_as_and_target_ok s : escape_free s = true -> tyis s FEE || is_type s [FEE] = true ->
  okr (fun p => Ds s (snd p) /\ forall a, fst p = Some a -> Ds s a /\ tyis a ALIAS || is_type a [ALIAS] = true)
      (extract_as_and_target_segment s).
Proof.
  intros H T. unfold extract_as_and_target_segment. destruct (L3 s H T) as (t & Et & Hc). unfold fee_target in Et.
  destruct (list_child_segments s false) as [|t0 r] eqn:El; [discriminate|].
  change (nth_res (t0 :: r) 0) with (Ok t0).
  assert (Etg : (if tyis t0 "keyword" && Nat.ltb 1 (List.length (t0 :: r)) then nth_res (t0 :: r) 1 else Ok t0) = Ok t).
  { inversion Et as [Et']. destruct (tyis t0 "keyword"); [|reflexivity]. destruct r as [|t1 r']; reflexivity. }
  cbv beta iota. rewrite Etg.
  assert (Ht : Ds s t).
  { apply (Ds_lcs s false t H). rewrite El. inversion Et as [Et']. destruct (tyis t0 "keyword"); [|left; reflexivity].
    destruct r as [|t1 r']; [left; reflexivity|right; left; reflexivity]. }
  apply (okr_bind TT _ _ _ (is_subquery_ok t (Ds_ef _ _ Ht))). intros sq _.
  assert (K : okr (Ds s) (if sq then Ok t else nth_res (children t) 0)).
  { destruct sq; [exact Ht|]. destruct (nth_res_0 _ Hc) as (x & -> & Hx). cbn [okg].
    apply (Ds_D_trans _ t x Ht). apply Ds_D. exact (Ds_child t x (Ds_ef _ _ Ht) Hx). }
  apply (okr_bind (Ds s) _ _ _ K). intros te Hte. cbn [okg fst snd]. split; [exact Hte|].
  intros a Ea. split; [exact (Ds_get_child s _ a H Ea)|exact (alias_of_get_child s a Ea)].
Qed.

Lemma list_subqueries_fee_ok s : escape_free s = true -> tyis s FEE || is_type s [FEE] = true ->
  okr (Forall (fun p : sqtuple => Ds s (fst p))) (list_subqueries_fee s).
Proof.
  intros H T. unfold list_subqueries_fee.
  apply (okr_bind _ _ _ _ (extract_as_and_target_ok s H T)). intros [as_segment target] [Ht Ha]. cbn [fst snd] in Ht, Ha.
  apply (okr_bind TT _ _ _ (is_subquery_ok target (Ds_ef _ _ Ht))). intros sq _.
  destruct sq; [|constructor].
  apply (okr_bind TT _ _ _ (opt_alias_ok s as_segment H Ha)). intros alias _. cbn [okg]. constructor; [|constructor]. cbn [fst].
  destruct (negb (is_set_expression target)); [|exact Ht].
  exact (Ds_D_trans _ target _ Ht (D_eib target (Ds_ef _ _ Ht))).
Qed.

Lemma Forall_map_intro {A B} (Q : B -> Prop) (f : A -> B) l : (forall x, In x l -> Q (f x)) -> Forall Q (map f l).
Proof. intros H. apply Forall_forall. intros y Hy. apply in_map_iff in Hy. destruct Hy as (x & <- & Hx). exact (H x Hx). Qed.

Lemma fee_opt_ok s (o : option seg) : escape_free s = true -> (forall fee, o = Some fee -> D s fee /\ is_type fee [FEE] = true) ->
  okr (Forall (fun p : sqtuple => Ds s (fst p))) (match o with Some fee => list_subqueries_fee fee | None => Ok [] end).
Proof.
  intros H K. destruct o as [fee|]; [|constructor]. destruct (K fee eq_refl) as [Hd Hf].
  assert (T : tyis fee FEE || is_type fee [FEE] = true) by (rewrite Hf; apply orb_true_r).
  apply (okr_weaken _ _ _ (fun l (Hl : Forall (fun p : sqtuple => Ds fee (fst p)) l) =>
     Forall_impl _ (fun p (Hp : Ds fee (fst p)) => D_Ds_trans s fee (fst p) Hd Hp) Hl)).
  exact (list_subqueries_fee_ok fee (D_ef _ _ Hd) T).
Qed.

Lemma list_subqueries_ok s : escape_free s = true -> okr (Forall (fun p : sqtuple => Ds s (fst p))) (list_subqueries s).
Proof.
  intros H. unfold list_subqueries.
  destruct (tyis s "select_clause").
  { apply okr_concat_map. intros sce Hsce. pose proof (Ds_get_children s _ sce H Hsce) as Dsce.
    pose proof (Ds_ef _ _ Dsce) as Esce.
    destruct (get_child sce ["expression"]) as [ex|] eqn:Eex.
    - pose proof (Ds_get_child sce _ ex Esce Eex) as Dex.
      destruct (get_child ex ["case_expression"]) as [ce|] eqn:Ece; [|constructor].
      pose proof (Ds_get_child ex _ ce (Ds_ef _ _ Dex) Ece) as Dce.
      assert (Dce' : Ds s ce) by (apply (Ds_D_trans _ sce _ Dsce); apply Ds_D; apply (Ds_D_trans _ ex _ Dex); apply Ds_D; exact Dce).
      apply okr_concat_map. intros wc Hwc. pose proof (Ds_get_children ce _ wc (Ds_ef _ _ Dce) Hwc) as Dwc.
      assert (Dwc' : Ds s wc) by (apply (Ds_D_trans _ ce _ Dce'); apply Ds_D; exact Dwc).
      assert (Hw : forall k b, In b (list_expression_from_when_clause wc k) -> Ds s b).
      { intros k b Hb. apply (Ds_D_trans _ wc _ Dwc'). apply Ds_D. exact (Ds_when wc k b (Ds_ef _ _ Dwc) Hb). }
      destruct (list_expression_from_when_clause wc "THEN") as [|th thr] eqn:Eth.
      + cbn [okg]. apply Forall_map_intro. intros b Hb. exact (Hw "WHEN" b Hb).
      + assert (Ka : okr TT (match get_child sce ["alias_expression"] with
                              | Some a => match extract_identifier a with Ok i => Ok (Some i) | Err e => Err e end
                              | None => Ok None end)).
        { apply (opt_alias_ok sce _ Esce). intros a Ea. split; [exact (Ds_get_child sce _ a Esce Ea)|exact (alias_of_get_child sce a Ea)]. }
        apply (okr_bind TT _ _ _ Ka). intros alias _. cbn [okg]. apply Forall_app. split.
        * apply Forall_map_intro. intros b Hb. exact (Hw "WHEN" b Hb).
        * apply Forall_map_intro. intros b Hb. cbn [fst]. apply (Hw "THEN"). rewrite Eth. exact Hb.
    - destruct (get_child sce ["function"]) as [fn|] eqn:Efn; [|constructor].
      pose proof (Ds_get_child sce _ fn Esce Efn) as Dfn.
      assert (Kf : okr (fun ys => forall y, In y ys -> In y (crawl ["bracketed"] true fn)) (filter_res is_subquery (crawl ["bracketed"] true fn))).
      { apply okr_filter_res. intros b Hb. apply is_subquery_ok. exact (D_ef _ _ (proj1 (D_crawl _ true fn (Ds_ef _ _ Dfn) b Hb))). }
      apply (okr_bind _ _ _ _ Kf). intros bs Hbs. cbn [okg]. apply Forall_map_intro. intros b Hb. cbn [fst].
      apply (Ds_D_trans _ sce _ Dsce). apply Ds_D. apply (Ds_D_trans _ fn _ Dfn).
      exact (proj1 (D_crawl _ true fn (Ds_ef _ _ Dfn) b (Hbs b Hb))). }
  destruct (tyis s "from_expression_element") eqn:Efee.
  { apply list_subqueries_fee_ok; [exact H|]. rewrite Efee. reflexivity. }
  destruct (tyis s "where_clause").
  { set (bracketeds := match get_child s ["expression"] with Some e => get_children e ["bracketed"] | None => _ end).
    assert (Hb : forall b, In b bracketeds -> Ds s b).
    { intros b Hb. unfold bracketeds in Hb. destruct (get_child s ["expression"]) as [ex|] eqn:Eex.
      - pose proof (Ds_get_child s _ ex H Eex) as Dex. apply (Ds_D_trans _ ex _ Dex). apply Ds_D. exact (Ds_get_children ex _ b (Ds_ef _ _ Dex) Hb).
      - destruct (get_child s ["bracketed"]) as [bw|] eqn:Ebw; [|destruct Hb].
        pose proof (Ds_get_child s _ bw H Ebw) as Dbw.
        destruct (get_child bw ["expression"]) as [ex|] eqn:Eex2; [|destruct Hb].
        pose proof (Ds_get_child bw _ ex (Ds_ef _ _ Dbw) Eex2) as Dex.
        apply (Ds_D_trans _ bw _ Dbw). apply Ds_D. apply (Ds_D_trans _ ex _ Dex). apply Ds_D.
        exact (Ds_get_children ex _ b (Ds_ef _ _ Dex) Hb). }
    assert (Kf : okr (fun ys => forall y, In y ys -> In y bracketeds) (filter_res is_subquery bracketeds)).
    { apply okr_filter_res. intros b Hb0. apply is_subquery_ok. exact (Ds_ef _ _ (Hb b Hb0)). }
    apply (okr_bind _ _ _ _ Kf). intros bs Hbs. cbn [okg]. apply Forall_map_intro. intros b Hb0. cbn [fst].
    pose proof (Hb b (Hbs b Hb0)) as Db. exact (Ds_D_trans _ b _ Db (D_eib b (Ds_ef _ _ Db))). }
  destruct (ty_in s ["from_clause"; "from_expression"]).
  { assert (K1 : okr (Forall (fun p : sqtuple => Ds s (fst p)))
                     (match find_from_expression_element s with Some fee => list_subqueries_fee fee | None => Ok [] end)).
    { apply (fee_opt_ok s _ H). intros fee E. exact (D_find_fee s fee H E). }
    apply (okr_bind _ _ _ _ K1). intros first Hfirst.
    assert (K2 : okr (Forall (fun p : sqtuple => Ds s (fst p)))
                     (concat_res (map (fun jc => match find_from_expression_element jc with
                                                 | Some fee => list_subqueries_fee fee | None => Ok [] end) (list_join_clause s)))).
    { apply okr_concat_map. intros jc Hjc. pose proof (D_ljc s jc H Hjc) as Djc.
      apply (okr_weaken _ _ _ (fun l (Hl : Forall (fun p : sqtuple => Ds jc (fst p)) l) =>
         Forall_impl _ (fun p (Hp : Ds jc (fst p)) => D_Ds_trans s jc (fst p) Djc Hp) Hl)).
      apply (fee_opt_ok jc _ (D_ef _ _ Djc)). intros fee E. exact (D_find_fee jc fee (D_ef _ _ Djc) E). }
    apply (okr_bind _ _ _ _ K2). intros rest Hrest. cbn [okg]. apply Forall_app. split; assumption. }
  destruct (is_set_expression s); [|constructor].
  cbn [okg]. apply Forall_map_intro. intros x Hx. cbn [fst]. apply filter_In in Hx. exact (Ds_lcs s true x H (proj1 Hx)).
Qed.

(* ================================================================== *)
(** * models.py *)
Lemma mk_table_ok e name sch alias : okr (fun d => dk d = KTable) (mk_table e name sch alias).
Proof. unfold mk_table. destruct (table_of _ _ _ _ _); [reflexivity|exact allowed_lineage]. Qed.

Lemma find_dot_le : forall l i j, find_dot l i = Some j -> j <= i.
Proof.
  induction l as [|s r IH]; intros i j H; cbn [find_dot] in H; [discriminate|].
  destruct (tyis s "symbol"); [inversion H; lia|]. destruct i as [|k]; [discriminate|]. specialize (IH k j H). lia.
Qed.

Lemma table_of_seg_ok e t alias : escape_free t = true ->
  ty_in t ["table_reference"; "object_reference"; "file_reference"] = true ->
  okr (fun d => dk d = KTable) (table_of_seg e t alias).
Proof.
  intros H T. unfold table_of_seg.
  set (n := List.length (children t)).
  set (dot_idx := if Nat.leb 2 n then find_dot (rev (firstn (n - 1) (children t))) (n - 2) else None).
  assert (Hdef : okr (fun d => dk d = KTable)
     (match (if tyis t "identifier" then Ok (raw t) else match nth_res (children t) 0 with Ok s0 => Ok (raw s0) | Err e0 => Err e0 end) with
      | Ok real_name => mk_table e real_name (Some (schema_of (e_cfg e) None))
                          match alias with Some a => if String.eqb a "" then None else Some a | None => None end
      | Err e0 => Err e0 end)).
  { apply (okr_bind TT).
    - destruct (tyis t "identifier"); [exact I|]. destruct (nth_res_0 _ (L6 t H T)) as (x & -> & _). exact I.
    - intros nm _. apply mk_table_ok. }
  destruct dot_idx as [[|k]|] eqn:Ed; [exact Hdef| |exact Hdef].
  unfold dot_idx in Ed. destruct (Nat.leb 2 n) eqn:En; [|discriminate]. apply Nat.leb_le in En.
  apply find_dot_le in Ed.
  destruct (nth_res_lt (children t) (S (S k))) as (x & -> & _); [fold n; lia|]. apply mk_table_ok.
Qed.

Lemma split_dot_nonempty s : split_dot_aux s <> [].
Proof.
  induction s as [|a r IH]; cbn [split_dot_aux]; [discriminate|].
  destruct (Ascii.eqb a "."%char); [discriminate|]. destruct (split_dot_aux r); discriminate.
Qed.

Lemma extract_column_qualifier_ok s : escape_free s = true -> okr TT (extract_column_qualifier s).
Proof.
  intros H. unfold extract_column_qualifier. destruct (is_wildcard s).
  - destruct (last_res_ok _ (split_dot_nonempty (raw s))) as (x & -> & _). exact I.
  - destruct (tyis s "column_reference") eqn:E.
    + destruct (last_res_ok _ (L5 s H E)) as (x & -> & _). exact I.
    + destruct (tyis s "identifier"); exact I.
Qed.

(** _get_column_and_alias / _get_column_from_parenthesis over any source extractor [F] *)
Definition caa (F : seg -> res (list cq)) (x : seg) (check_bracketed : bool) : res (list cq * option string) :=
  fold_left (fun acc sub =>
               do a <- acc;
               let '(cols, alias) := a in
               if tyis sub "alias_expression" then do i <- extract_identifier sub; Ok (cols, Some i)
               else if ty_in sub SOURCE_TYPES || is_wildcard sub
                    then do r <- F sub; Ok (cols ++ r, alias)
                    else Ok (cols, alias))
            (list_child_segments x check_bracketed) (Ok ([], None)).

Definition from_par (F : seg -> res (list cq)) (x : seg) : res (list cq) :=
  let x' := match get_child x ["window_specification"] with Some w => w | None => x end in
  do ca <- caa F x' false; Ok (fst ca).

Lemma extract_sources_S k e s :
  extract_sources (S k) e s =
  if ty_in s ["identifier"; "column_reference"] || is_wildcard s then
    do q <- extract_column_qualifier s;
    Ok (match q with Some c => [c] | None => [] end)
  else if tyis s "function" then
    concat_res (map (from_par (extract_sources k e)) (crawl ["bracketed"] true s))
  else if ty_in s NON_IDENT then
    concat_res (map (fun sub =>
      if tyis sub "bracketed" then
        do sq <- is_subquery sub;
        if sq then match assoc_list (raw sub) (e_scalar e) with Some l => Ok l | None => Err "ScalarOracleMissing" end
        else from_par (extract_sources k e) sub
      else if ty_in sub SOURCE_TYPES || is_wildcard sub then extract_sources k e sub
      else Ok []) (list_child_segments s true))
  else Ok [].
Proof. reflexivity. Qed.

Lemma gcaa_eq fuel e x cb : get_column_and_alias fuel e x cb = caa (extract_sources fuel e) x cb.
Proof. reflexivity. Qed.

Lemma caa_ok (F : seg -> res (list cq)) x cb : escape_free x = true ->
  (forall sub, Ds x sub -> okr TT (F sub)) -> okr TT (caa F x cb).
Proof.
  intros H HF. unfold caa.
  apply (okr_fold TT (fun (a : list cq * option string) sub =>
               let '(cols, alias) := a in
               if tyis sub "alias_expression" then do i <- extract_identifier sub; Ok (cols, Some i)
               else if ty_in sub SOURCE_TYPES || is_wildcard sub
                    then do r <- F sub; Ok (cols ++ r, alias)
                    else Ok (cols, alias))); [|exact I].
  intros [cols alias] sub Hsub _. pose proof (Ds_lcs x cb sub H Hsub) as Dsub.
  destruct (tyis sub "alias_expression") eqn:Ea.
  - apply (okr_bind TT); [|intros i _; exact I]. apply extract_identifier_ok; [exact (Ds_ef _ _ Dsub)|]. rewrite Ea. reflexivity.
  - destruct (ty_in sub SOURCE_TYPES || is_wildcard sub); [|exact I].
    apply (okr_bind TT); [exact (HF sub Dsub)|intros r _; exact I].
Qed.

Lemma from_par_ok (F : seg -> res (list cq)) x : escape_free x = true ->
  (forall sub, Ds x sub -> okr TT (F sub)) -> okr TT (from_par F x).
Proof.
  intros H HF. unfold from_par. apply (okr_bind TT); [|intros ca _; exact I].
  destruct (get_child x ["window_specification"]) as [w|] eqn:E.
  - pose proof (Ds_get_child x _ w H E) as Dw. apply (caa_ok F w false (Ds_ef _ _ Dw)).
    intros sub Dsub. apply HF. exact (Ds_D_trans _ w _ Dw (Ds_D _ _ Dsub)).
  - exact (caa_ok F x false H HF).
Qed.

Lemma extract_sources_ok e : forall k s, escape_free s = true -> depth s <= k -> okr TT (extract_sources k e s).
Proof.
  induction k as [|k IH]; intros s H Hd; [pose proof (depth_pos s); lia|].
  assert (IH' : forall x, D s x -> forall sub, Ds x sub -> okr TT (extract_sources k e sub)).
  { intros x [_ Dx] sub [Es Dsub]. apply IH; [exact Es|lia]. }
  rewrite extract_sources_S.
  destruct (ty_in s ["identifier"; "column_reference"] || is_wildcard s).
  { apply (okr_bind TT); [exact (extract_column_qualifier_ok s H)|intros q _; exact I]. }
  destruct (tyis s "function").
  { apply (okr_weaken (Forall TT)); [intros a _; exact I|]. apply okr_concat_map. intros b Hb.
    pose proof (proj1 (D_crawl _ true s H b Hb)) as Db.
    apply (okr_weaken TT); [intros a _; apply Forall_forall; intros y _; exact I|].
    apply (from_par_ok _ b (D_ef _ _ Db)). exact (IH' b Db). }
  destruct (ty_in s NON_IDENT); [|exact I].
  apply (okr_weaken (Forall TT)); [intros a _; exact I|]. apply okr_concat_map. intros sub Hsub.
  pose proof (Ds_lcs s true sub H Hsub) as Dsub.
  apply (okr_weaken TT); [intros a _; apply Forall_forall; intros y _; exact I|].
  destruct (tyis sub "bracketed").
  - apply (okr_bind TT); [exact (is_subquery_ok sub (Ds_ef _ _ Dsub))|]. intros sq _. destruct sq.
    + destruct (assoc_list _ _); [exact I|exact allowed_oracle].
    + apply (from_par_ok _ sub (Ds_ef _ _ Dsub)). exact (IH' sub (Ds_D _ _ Dsub)).
  - destruct (ty_in sub SOURCE_TYPES || is_wildcard sub); [|exact I].
    apply IH; [exact (Ds_ef _ _ Dsub)|]. destruct Dsub as [_ Dsub]. lia.
Qed.

Lemma column_of_seg_ok f e c : escape_free c = true -> depth c <= f -> okr TT (column_of_seg f e c).
Proof.
  intros H Hd. unfold column_of_seg.
  assert (Kfb : okr TT (do srcs <- extract_sources f e c; Ok (mk_xcol (raw c) srcs false))).
  { apply (okr_bind TT); [exact (extract_sources_ok e f c H Hd)|intros srcs _; exact I]. }
  destruct (tyis c "select_clause_element"); [|exact Kfb].
  assert (Kca : okr TT (get_column_and_alias f e c true)).
  { rewrite gcaa_eq. apply (caa_ok _ c true H). intros sub [Es Dsub]. apply extract_sources_ok; [exact Es|lia]. }
  apply (okr_bind TT _ _ _ Kca). intros [srcs alias] _.
  destruct (match alias with Some a => if String.eqb a "" then None else Some a | None => None end); [exact I|].
  destruct srcs as [|s0 srcs]; [exact Kfb|].
  apply (okr_bind TT); [|intros nm _; exact I].
  apply (okr_fold TT (fun (nm : option string) sub =>
                         if tyis sub "column_reference" || is_wildcard sub then
                           do q <- extract_column_qualifier sub;
                           Ok (match q with Some cq0 => Some (fst cq0) | None => nm end)
                         else if tyis sub "expression" then
                           match list_child_segments sub true with
                           | [s2] =>
                               if tyis s2 "cast_expression" then
                                 match list_child_segments s2 true with
                                 | [s3; _] =>
                                     if tyis s3 "column_reference" then
                                       do q <- extract_column_qualifier s3;
                                       Ok (match q with Some cq0 => Some (fst cq0) | None => nm end)
                                     else Ok nm
                                 | _ => Ok nm
                                 end
                               else Ok nm
                           | _ => Ok nm
                           end
                         else Ok nm)); [|exact I].
  intros nm sub Hsub _. pose proof (Ds_lcs c true sub H Hsub) as Dsub.
  destruct (tyis sub "column_reference" || is_wildcard sub).
  { apply (okr_bind TT); [exact (extract_column_qualifier_ok sub (Ds_ef _ _ Dsub))|intros q _; exact I]. }
  destruct (tyis sub "expression"); [|exact I].
  destruct (list_child_segments sub true) as [|s2 [|? ?]] eqn:E2; try exact I.
  assert (D2 : Ds sub s2) by (apply (Ds_lcs sub true s2 (Ds_ef _ _ Dsub)); rewrite E2; left; reflexivity).
  destruct (tyis s2 "cast_expression"); [|exact I].
  destruct (list_child_segments s2 true) as [|s3 [|s4 [|? ?]]] eqn:E3; try exact I.
  assert (D3 : Ds s2 s3) by (apply (Ds_lcs s2 true s3 (Ds_ef _ _ D2)); rewrite E3; left; reflexivity).
  destruct (tyis s3 "column_reference"); [|exact I].
  apply (okr_bind TT); [exact (extract_column_qualifier_ok s3 (Ds_ef _ _ D3))|intros q _; exact I].
Qed.
