(** Lemma A (tables): on the rendered core grammar, with arbitrary trivia, the tree walker reports exactly
    the tables the denotational specification prescribes. *)
From SV Require Import Tree.Render Ident.Escape.

(** trivia allowed as noise: leaves flagged whitespace / comment / meta whose types are none of those the extractors look for *)
Definition TRIVIA_TYPES := ["whitespace"; "newline"; "comment"; "inline_comment"; "block_comment"; "indent"; "dedent"; "meta"; "raw"; "end_of_file"].
Definition noise_seg_ok (x : seg) : bool :=
  (is_ws x || is_cm x || is_mt x) &&
  match children x with [] => true | _ => false end &&
  mem_string (ty x) TRIVIA_TYPES && forallb (fun c => mem_string c TRIVIA_TYPES) (cls x).
Definition noise_ok (noise : list seg) : bool := forallb noise_seg_ok noise.

(** identifiers of the fragment: lower-case letters, digits, underscore (so normalisation is the identity) *)
Definition id_char (c : ascii) : bool := is_lower c || is_digit c || Ascii.eqb c "_"%char.
Definition id_ok (s : string) : bool := negb (String.eqb s "") && sforall id_char s.
(** a schema may have one dot: db.schema *)
Definition schema_ok (s : string) : bool :=
  forallb id_ok (split_dot_aux s) && Nat.leb (List.length (split_dot_aux s)) 2.
Definition tref_ok (t : tref) : bool :=
  id_ok (snd t) && match fst t with Some s => schema_ok s | None => true end.

Fixpoint names_ok_q (fuel : nat) (ctes : list string) (q : query) : bool :=
  match fuel with
  | O => false
  | S k =>
      match q with
      | QSelect items from _ wh =>
          forallb (fun i => match i with
                            | IExpr (EColRef qq c) al => id_ok c && match qq with Some x => id_ok x | None => true end
                                                         && match al with Some a => id_ok a | None => true end
                            | IStar qq => match qq with Some x => id_ok x | None => true end
                            | _ => false end) items
          && forallb (fun r => match r with
                               | RTable t al => tref_ok t && match al with Some a => id_ok a | None => true end
                               | RDerived q' a => id_ok a && names_ok_q k ctes q'
                               | RGroup _ _ => false
                               end) from
          && match wh with Some (c, sq) => id_ok c && names_ok_q k ctes sq | None => true end
      | QUnion a b => names_ok_q k ctes a && names_ok_q k ctes b
      | QWith n c b =>
          (* the CTE's own name is not used as a table name inside its body (the implementation would read it as a
             recursive reference, the specification as a base table) *)
          id_ok n && negb (mem_string n ctes) && names_ok_q k ctes c && names_ok_q k (n :: ctes) b
          && negb (mem_string (tref_str "" (None, n)) (q_reads (S (q_size c)) "" [] c))
      end
  end.

Definition stmt_ok (s : stmt) : bool :=
  match s with
  | SInsert t cols q => tref_ok t && frag_query (S (q_size q)) q && names_ok_q (S (q_size q)) [] q
                        && match cols with Some cs => forallb id_ok cs | None => true end
  | SCtas t q | SView t q => tref_ok t && frag_query (S (q_size q)) q && names_ok_q (S (q_size q)) [] q
  | SQuery q => frag_query (S (q_size q)) q && names_ok_q (S (q_size q)) [] q
  | SNoData _ => true
  end.

Definition env_ok (e : env) : bool :=
  negb (p_truthy (e_provider e)) && negb (e_vertica e) && (String.eqb (e_cfg e) "" || id_ok (e_cfg e)) && String.eqb (e_icfg e) (e_cfg e).

Definition lemma_A_tables_statement : Prop :=
  forall noise e s,
    noise_ok noise = true -> env_ok e = true -> stmt_ok s = true ->
    stmt_reads (analyze e false (r_stmt noise s)) = sort_strings (spec_reads (e_cfg e) s) /\
    stmt_writes (analyze e false (r_stmt noise s)) = sort_strings (spec_writes (e_cfg e) s).

(** executable form, for testing the statement before proving it *)
Fixpoint list_eqb (a b : list string) : bool :=
  match a, b with
  | [], [] => true
  | x :: a', y :: b' => String.eqb x y && list_eqb a' b'
  | _, _ => false
  end.
Definition lemma_A_check (noise : list seg) (e : env) (s : stmt) : string :=
  if negb (noise_ok noise && env_ok e && stmt_ok s) then "outside"
  else if list_eqb (stmt_reads (analyze e false (r_stmt noise s))) (sort_strings (spec_reads (e_cfg e) s))
          && list_eqb (stmt_writes (analyze e false (r_stmt noise s))) (sort_strings (spec_writes (e_cfg e) s))
       then "holds" else "FAILS".
