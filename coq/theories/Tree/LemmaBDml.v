(** Lemma B (columns) for UPDATE and MERGE: proofs.  Summary at the end of the file. *)
From Coq Require Import Lia Permutation.
From SV Require Import Ast.SpecDmlCols Tree.RenderDml Tree.LemmaA Tree.LemmaAProofs Tree.LemmaADmlDefs Tree.LemmaADml
     Tree.LemmaB Tree.LemmaBProofs Ident.Escape Ident.EscapeProofs Holder.PathProofs Holder.SortProofs.
From SV Require TriviaProofs.

(* ================================================================== *)
(** * Part R: a holder that extends the written target by alias edges and column-lineage edges realises the flows
    ([holder_realises] of Tree/LemmaBProofs.v without the composition step: UPDATE / MERGE build their holder in place) *)
Theorem holder_realises_ext d ts NM xs (S : xcol -> list column) gb G :
  group_ok d ts -> ts_inj ts -> dk d = KTable ->
  (forall x, In x xs -> (exists nm0, snd x = {| craw := nm0; cparents := [d] |}) /\
     forall s, In s (S (fst x)) -> (exists v, In v ts /\ cparents s = [v]) \/
                             (exists nm, In nm NM /\ s = Ucol ts nm /\ escape nm = nm /\ 2 <= List.length (cparents s))) ->
  (forall nm, In nm NM -> exists x, In x xs /\ In (Ucol ts nm) (S (fst x))) ->
  (forall x' s' nm v, In nm NM -> In x' xs -> In s' (S (fst x')) -> cparents s' = [v] -> craw s' <> nm) ->
  (forall x y, is_column x = true -> has_edge gb x y = false) ->
  (forall p c, In p ts -> has_edge gb (NData p) (NCol c) = false) ->
  ext gb G (map (fun v => (NData v, NStr (dalias v))) ts ++ sel_edges d S xs) ->
  sel_inv (PC4 ts NM) d ts G ->
  clean_holder G /\ lits_in (unres_ok G) G /\ realises G (flows_of S xs) /\ flows_ok (flows_of S xs).
Proof.
  intros Hgo Hinj Hd HX HNM HNQ Hbc Hbd X Hinv.
  assert (HE : forall x y, has_edge G x y = has_edge gb x y || (ematch x y (map (fun v => (NData v, NStr (dalias v))) ts) || ematch x y (sel_edges d S xs))).
  { intros x y. rewrite (ext_edges _ _ _ X), ematch_app. reflexivity. }
  assert (HEc : forall x y, is_column x = true ->
                has_edge G x y = ematch x y (map (fun f : flow => (NCol (fst f), NCol (snd f))) (flows_of S xs))).
  { intros x y Hx. rewrite HE, (Hbc x y Hx), (ematch_alias_col x y ts Hx), (ematch_sel_col d S xs x y Hx). reflexivity. }
  assert (HF : forall f, In f (flows_of S xs) ->
               exists x s, In x xs /\ In s (S (fst x)) /\ f = (s, snd x) /\
                           ((exists v, In v ts /\ cparents s = [v]) \/
                            (exists nm, In nm NM /\ s = Ucol ts nm /\ escape nm = nm /\ 2 <= List.length (cparents s))) /\
                           (exists nm0, snd x = {| craw := nm0; cparents := [d] |})).
  { intros f Hf. unfold flows_of in Hf. apply in_flat_map in Hf. destruct Hf as (x & Hx & Hf). apply in_map_iff in Hf.
    destruct Hf as (s & <- & Hs). destruct (HX x Hx) as [H1 H2].
    exists x, s. repeat split; auto. }
  pose proof (si_lits _ _ _ _ Hinv) as LG.
  assert (Rc : forall f, In f (flows_of S xs) -> has_edge G (NCol (fst f)) (NCol (snd f)) = true).
  { intros f Hf. rewrite HEc by reflexivity. unfold ematch. apply existsb_exists. exists (NCol (fst f), NCol (snd f)).
    split; [apply in_map_iff; exists f; auto|]. cbn [fst snd]. rewrite !node_eqb_refl. reflexivity. }
  split; [|split; [|split]].
  - split.
    + intros n a Hin. destruct (attr_true "drop" a) eqn:E; [|reflexivity]. exfalso. apply attr_true_In in E.
      exact (si_drop _ _ _ _ Hinv n a Hin E).
    + intros e0 He0. pose proof (si_edges _ _ _ _ Hinv e0 He0) as Hi. unfold edge_inv in Hi.
      destruct (snd (fst e0)); [destruct Hi as [-> | ->]; reflexivity|destruct Hi as [-> | ->]; reflexivity|destruct Hi as [-> _]; reflexivity].
  - apply (lits_weaken (QK (d :: ts) (PC4 ts NM))); [|exact LG]. intros n Hn u Hu. destruct n as [|c|]; cbn [unresolved] in Hu; try discriminate.
    cbn [QK] in Hn. destruct Hn as [(p & Ep & _)|(nm & Hnm & -> & Enm & Hlen)]; [rewrite Ep in Hu; cbn in Hu; discriminate|].
    destruct (Nat.ltb 1 (List.length (cparents (Ucol ts nm)))); [|discriminate]. inversion Hu. subst u. clear Hu.
    destruct (Ucol_props ts nm Hinj) as (U1 & _ & U3). split.
    + unfold candidates_in_graph. apply flat_map_none. intros p Hp. rewrite U1.
      destruct (has_edge G (NData p) (NCol (mk_col nm p))) eqn:Ehe; [|reflexivity]. exfalso.
      apply U3 in Hp. rewrite HE, (Hbd p _ Hp), ematch_alias_ycol in Ehe. cbn [orb] in Ehe.
      apply ematch_sel_data in Ehe. destruct Ehe as (x' & s' & Hx' & Hs' & [[K _]|(sp & Esp & K1 & K2)]).
      * rewrite (go_target _ _ Hgo p Hp) in K. discriminate.
      * destruct (proj2 (HX x' Hx') s' Hs') as [(v & Hv & Ev)|(nm' & _ & -> & _ & Hl')].
        -- unfold col_parent in Esp. rewrite Ev in Esp. inversion Esp. subst sp.
           pose proof (proj1 Hinj p v Hp Hv K1) as Epv. subst v.
           cbn [node_eqb] in K2. unfold col_eqb in K2. apply andb_true_iff in K2. destruct K2 as [K2 _]. apply String.eqb_eq in K2.
           unfold col_str, col_parent, mk_col in K2. cbn [cparents craw] in K2. rewrite Ev, (go_tables _ _ Hgo p Hp), Enm in K2.
           apply append_cancel in K2. apply append_cancel in K2. apply (HNQ x' s' nm p Hnm Hx' Hs' Ev). symmetry. exact K2.
        -- rewrite (col_parent_none _ Hl') in Esp. discriminate.
    + destruct (HNM nm Hnm) as (x & Hx & Hs). exists (NCol (snd x)).
      apply (Rc (Ucol ts nm, snd x)). unfold flows_of. apply in_flat_map. exists x. split; [exact Hx|]. apply in_map_iff. exists (Ucol ts nm). auto.
  - constructor.
    + intros x y Hx Hxy. rewrite (HEc x y Hx) in Hxy. unfold ematch in Hxy. apply existsb_exists in Hxy.
      destruct Hxy as (p & Hp & E). apply in_map_iff in Hp. destruct Hp as (f & <- & Hf). cbn [fst snd] in E.
      apply andb_true_iff in E. exists f. tauto.
    + exact Rc.
    + intros f Hf. destruct (HF f Hf) as (x & s & Hx & Hs & -> & _).
      assert (Hin : In (NCol s, NCol (snd x)) (map (fun v => (NData v, NStr (dalias v))) ts ++ sel_edges d S xs)).
      { apply in_app_iff. right. unfold sel_edges. apply in_flat_map. exists x. split; [exact Hx|]. apply in_flat_map. exists s.
        split; [exact Hs|]. left. reflexivity. }
      exact (ext_new _ _ _ X _ Hin).
    + apply (lits_weaken (QK (d :: ts) (PC4 ts NM))); [|exact LG]. intros n Hn f Hf E.
      destruct (HF f Hf) as (x & s & _ & _ & -> & [(v & _ & Ev)|(nm & _ & -> & _ & Hl)] & _); cbn [fst] in *.
      * apply (src_str_eqb_single n s v); [unfold col_parent; rewrite Ev; reflexivity|exact E].
      * destruct n as [|c|]; cbn [node_eqb] in E; try discriminate. cbn [QK] in Hn.
        unfold col_eqb in E. apply andb_true_iff in E. destruct E as [E1 E2]. rewrite (col_parent_none _ Hl) in E2.
        destruct Hn as [(p & Ep & _)|(nm' & _ & -> & _ & Hl')].
        -- unfold col_parent in E2. rewrite Ep in E2. discriminate.
        -- apply String.eqb_eq in E1. unfold col_str in E1. rewrite (col_parent_none _ Hl), (col_parent_none _ Hl') in E1.
           rewrite (proj1 (Ucol_props ts nm Hinj)), (proj1 (Ucol_props ts nm' Hinj)) in E1. subst nm'. reflexivity.
  - split.
    + intros f f' Hf Hf'. destruct (HF f Hf) as (x & s & _ & _ & -> & _ & (nm0 & Eo)).
      destruct (HF f' Hf') as (x' & s' & _ & _ & -> & Hk & _). cbn [fst snd]. rewrite Eo.
      unfold col_eqb. destruct Hk as [(v' & Hv' & Ev')|(nm & _ & -> & _ & Hl)].
      * unfold col_parent. cbn [cparents]. rewrite Ev'. cbn [opt_dataset_eqb].
        rewrite dataset_eqb_sym, (go_target _ _ Hgo v' Hv'). apply andb_false_r.
      * rewrite (col_parent_none _ Hl). unfold col_parent at 1. cbn [cparents opt_dataset_eqb]. apply andb_false_r.
    + intros f Hf. destruct (HF f Hf) as (x & s & _ & _ & -> & _ & (nm0 & Eo)). cbn [snd]. rewrite Eo.
      cbn [parent_is col_parent cparents]. rewrite Hd. reflexivity.
Qed.

(* ================================================================== *)
(** * Part Q: the read list of a holder after the FROM tables were added, exactly *)
Lemma add_reads_exact l : forall g,
  (forall v, In v l -> dk v = KTable) -> NoDup l -> (forall v w, In v l -> In w l -> dataset_eqb v w = true -> v = w) ->
  (forall v, In v l -> has_node g (NData v) = false) ->
  holder_nodes (fold_left add_read l g) "read" = holder_nodes g "read" ++ l.
Proof.
  induction l as [|a r IH]; intros g Hk Hnd Hinj Hfresh; cbn [fold_left]; [rewrite app_nil_r; reflexivity|].
  inversion Hnd as [|a' r' Hna Hndr]. subst.
  rewrite IH.
  - rewrite (add_read_table g a (Hk a (or_introl eq_refl))), tag_add_edge.
    assert (E : holder_nodes (add_node g (NData a) [("read", true)]) "read" = holder_nodes g "read" ++ [a]).
    { rewrite !holder_nodes_hn. unfold add_node. cbn [gnodes]. rewrite upsert_new by (apply (Hfresh a); left; reflexivity).
      rewrite hn_app. reflexivity. }
    rewrite E, <- app_assoc. reflexivity.
  - intros v Hv. apply Hk. right. exact Hv.
  - exact Hndr.
  - intros v w Hv Hw. apply Hinj; right; assumption.
  - intros v Hv. rewrite (add_read_table g a (Hk a (or_introl eq_refl))), has_node_add_edge, has_node_add_node.
    rewrite (Hfresh v (or_intror Hv)). cbn [node_eqb orb].
    destruct (dataset_eqb v a) eqn:E; [|reflexivity]. exfalso. apply Hna.
    rewrite <- (Hinj v a (or_intror Hv) (or_introl eq_refl) E). exact Hv.
Qed.

(* ================================================================== *)
(** * Part C: the column lineage of a SET list, exactly (cf. [eoq_fold] for a SELECT) *)
Definition upd_col1 (e : env) (g' : graph) (x : xcol) : res graph :=
  match sq_write g' with
  | [] => Ok g'
  | w :: _ =>
      let tgt := add_parent (xc x) w in
      do srcs <- to_source_columns e x (get_alias_mapping g' (sq_read g'));
      fold_left (fun acc2 sc => do g'' <- acc2; add_column_lineage g'' sc tgt) srcs (Ok g')
  end.

Lemma upd_collin_err e l err :
  fold_left (fun acc x => do g' <- acc; upd_col1 e g' x) l (Err err) = Err err.
Proof. induction l as [|x r IH]; [reflexivity|]. cbn [fold_left]. exact IH. Qed.

Lemma upd_collin_cons e x l g :
  upd_collin e (x :: l) g = (do g3 <- upd_col1 e g x; upd_collin e l g3).
Proof.
  unfold upd_collin. cbn [fold_left]. fold (upd_col1 e g x). destruct (upd_col1 e g x) as [g3|err]; [reflexivity|].
  apply (upd_collin_err e l err).
Qed.

Lemma upd_collin_exact (PC : column -> Prop) e d ts cols (S : xcol -> list column) :
  group_ok d ts -> dk d = KTable ->
  (forall g2, sel_inv PC d ts g2 -> forall x, In x cols -> to_source_columns e x (get_alias_mapping g2 ts) = Ok (S x)) ->
  (forall x, In x cols -> cparents (xc x) = [] /\ PC (own_col d x) /\
                          forall s, In s (S x) -> PC s /\ forall p, In p (cparents s) -> In p ts) ->
  forall l g2,
    (forall x, In x l -> In x cols) -> sel_inv PC d ts g2 -> sq_write g2 = [d] -> sq_read g2 = ts ->
    exists g', upd_collin e l g2 = Ok g' /\
               ext g2 g' (sel_edges d S (own_pairs d l)) /\ sel_inv PC d ts g' /\ (forall k, holder_nodes g' k = holder_nodes g2 k).
Proof.
  intros Hgo Hd HS HX. induction l as [|x r IH]; intros g2 Hl Hinv Hw Hr.
  - exists g2. split; [reflexivity|]. split; [apply ext_refl|]. split; [exact Hinv|reflexivity].
  - destruct (HX x (Hl x (or_introl eq_refl))) as (Hx1 & Hx0 & Hx3).
    rewrite upd_collin_cons. unfold upd_col1. rewrite Hw, Hr. cbv zeta.
    rewrite (HS g2 Hinv x (Hl x (or_introl eq_refl))).
    assert (Hown : col_parent (own_col d x) = Some d) by (rewrite (own_col_eq d x Hx1); reflexivity).
    destruct (acl_fold_ok PC d ts (own_col d x) (S x) g2 Hgo Hown Hx0 Hx3 (si_lits _ _ _ _ Hinv) (si_edges _ _ _ _ Hinv))
      as (g3 & E3 & X3 & L3 & I3 & T3 & _ & D3).
    fold (own_col d x). rewrite E3.
    assert (Hinv3 : sel_inv PC d ts g3) by (apply (sel_inv_ext PC d ts g2 g3 _ Hinv X3 L3 I3 (D3 (si_drop _ _ _ _ Hinv)))).
    destruct (IH g3 (fun y Hy => Hl y (or_intror Hy)) Hinv3) as (g' & E' & X' & Hinv' & T').
    { unfold sq_write. rewrite T3. exact Hw. }
    { unfold sq_read. rewrite T3. exact Hr. }
    exists g'. split; [exact E'|]. split.
    + unfold sel_edges, own_pairs. cbn [map flat_map fst snd]. apply (ext_trans g2 g3 g'); assumption.
    + split; [exact Hinv'|]. intros k. rewrite T', T3. reflexivity.
Qed.

(* ================================================================== *)
(** * Part U: UPDATE with FROM over base tables *)
Section NavUB.
Variable noise : list seg.
Hypothesis Hnoise : noise_ok noise = true.
Variable e : env.
Hypothesis Henv : env_ok e = true.

Lemma list_subquery_fc_tables k from cj :
  from <> [] -> forallb is_rtable from = true -> list_subquery (r_fc noise k from cj) = Ok [].
Proof.
  intros Hne Hrt. pose proof (sel_subq1_fc_tables noise Hnoise k from cj Hne Hrt) as H. unfold sel_subq1 in H.
  rewrite (ise_fc noise Hnoise) in H. destruct (list_subquery (r_fc noise k from cj)) as [a|err]; [|discriminate H].
  inversion H as [E]. rewrite app_nil_r in E. rewrite E. reflexivity.
Qed.

(** the holder of the statement: the SET list's column lineage on top of target + FROM tables *)
Lemma analyze_update_tables t al sets from cj wh :
  tref_ok t = true -> opt_id_ok al = true -> from <> [] -> forallb rel_ok from = true ->
  analyze e false (r_dml noise (DUpdate t al sets from cj wh)) =
  upd_collin e (map setc_xcol sets) (fold_left add_read (map (tbl_of e) from) (add_write empty_graph (tbl e t None))).
Proof.
  intros Ht Hal Hne Hrel. set (k := q_size (QSelect [] from cj wh)).
  assert (Hrt : forallb is_rtable from = true).
  { rewrite forallb_forall in *. intros r Hr. apply rel_ok_table. apply Hrel. exact Hr. }
  set (L := [kw "update"; r_tref t] ++ al_list noise al ++ [r_scl noise sets] ++ [r_fc noise k from cj] ++ r_wh noise k wh).
  set (stmt := node "update_statement" ["update_statement"] (sep noise L)).
  assert (Es : r_dml noise (DUpdate t al sets from cj wh) = stmt) by (destruct from; [contradiction|reflexivity]).
  rewrite Es.
  assert (Ea : analyze e false stmt = extract (S (3 * depth stmt + 9)) e XUpdate stmt empty_ctx).
  { replace (S (3 * depth stmt + 9)) with (3 * depth stmt + 10) by lia. reflexivity. }
  assert (Elcs : list_child_segments stmt true = L).
  { unfold stmt. rewrite (lcs_node noise Hnoise) by reflexivity. unfold L. destruct al, wh as [[c sq]|]; reflexivity. }
  rewrite Ea, extract_upd_eq, Elcs. clearbody stmt. change (init_holder empty_ctx) with empty_graph.
  unfold L. cbn [app fold_left]. rewrite upd_kw, upd_tref, (table_of_seg_exact e Henv t None Ht I).
  set (g0 := add_write empty_graph (tbl e t None)).
  assert (E1 : fold_left (upd_step e stmt) (al_list noise al ++ r_scl noise sets :: r_fc noise k from cj :: r_wh noise k wh) (Ok (g0, false, [], [])) =
               fold_left (upd_step e stmt) (r_fc noise k from cj :: r_wh noise k wh) (Ok (g0, false, map setc_xcol sets, []))).
  { destruct al as [a|]; cbn [al_list app fold_left]; [rewrite upd_alias|]; rewrite upd_scl, (upd_setcols_scl noise Hnoise); reflexivity. }
  rewrite E1. clear E1. cbn [fold_left]. rewrite upd_fc, (list_subquery_fc_tables k from cj Hne Hrt).
  rewrite (list_tables_exact noise Hnoise e Henv k from cj g0 Hne Hrel eq_refl). cbn [app].
  assert (Ewh : forall g cols, fold_left (upd_step e stmt) (r_wh noise k wh) (Ok (g, false, cols, [])) = Ok (g, false, cols, [])).
  { intros g cols. destruct wh as [[c sq]|]; [|reflexivity]. cbn [r_wh fold_left]. apply upd_where. }
  rewrite Ewh. destruct (upd_collin e (map setc_xcol sets) (fold_left add_read (map (tbl_of e) from) g0)); reflexivity.
Qed.

End NavUB.

Section NavUB2.
Variable noise : list seg.
Hypothesis Hnoise : noise_ok noise = true.
Variable e : env.
Hypothesis Henv : env_ok e = true.

Lemma NoDup_of_map {A B} (f : A -> B) l : NoDup (map f l) -> NoDup l.
Proof.
  induction l as [|a r IH]; intros H; [constructor|]. cbn [map] in H. inversion H. subst. constructor; [|apply IH; assumption].
  intros Hin. apply H2. apply in_map. exact Hin.
Qed.

Lemma tbls_NoDup t from : forallb rel_ok from = true -> tables_cond (e_cfg e) t from -> NoDup (map (tbl_of e) from).
Proof.
  intros Hrel [Hnd _]. apply (NoDup_of_map dstr). rewrite (map_dstr_tbl e from Hrel). exact Hnd.
Qed.

(** the model side: the reported pairs are the flows of the SET list over the FROM tables *)
Theorem model_pairs_update t al sets from cj wh :
  tref_ok t = true -> opt_id_ok al = true -> from <> [] -> forallb rel_ok from = true ->
  let d := tbl e t None in let ts := map (tbl_of e) from in let xs := map setc_xcol sets in
  group_ok d ts -> ts_inj ts -> names_nodot ts -> NoDup ts -> (forall x, In x xs -> xref_ok ts x) -> noqual ts xs ->
  script_pairs e false [] [r_dml noise (DUpdate t al sets from cj wh)] =
  uniq_sorted (sort_strings (map flow_str (flows_of (S_of ts) (own_pairs d xs)))).
Proof.
  intros Ht Hal Hne Hrel d ts xs Hgo Hinj Hnd Hndup Hxs Hnq.
  set (e' := with_cols e (view_cols [] [])).
  assert (He' : env_ok e' = true) by exact Henv.
  assert (Hdo : Forall data_ok ts).
  { apply Forall_forall. intros v Hv. unfold data_ok. rewrite (go_tables _ _ Hgo v Hv).
    apply in_map_iff in Hv. destruct Hv as (r & <- & _). destruct r; reflexivity. }
  pose proof (analyze_update_tables noise Hnoise e' He' t al sets from cj wh Ht Hal Hne Hrel) as Ea0.
  assert (Ea : analyze e' false (r_dml noise (DUpdate t al sets from cj wh)) = upd_collin e' xs (fold_left add_read ts (add_write empty_graph d))).
  { exact Ea0. }
  clear Ea0. set (NM := unres_names ts xs). set (PC := PC4 ts NM).
  set (g_b := add_write empty_graph d).
  assert (Lb : lits_in (QK (d :: ts) PC) g_b) by (split; [intros n [<-|[]]; left; reflexivity|intros e0 []]).
  assert (Eb : edges_inv ts g_b) by (intros e0 []).
  assert (Db : drop_free g_b) by (intros n a [H|[]]; inversion H; intros [K|[]]; discriminate K).
  destruct (add_reads_ok PC d ts ts g_b Hgo Hdo (fun v Hv => Hv) Lb Eb) as (A1 & A2 & A3 & A4 & A5 & A6).
  set (g0 := fold_left add_read ts g_b) in *.
  assert (Hw : sq_write g0 = [d]) by (unfold sq_write; rewrite A4 by discriminate; reflexivity).
  assert (Hr : sq_read g0 = ts).
  { unfold sq_read, g0. rewrite add_reads_exact; [reflexivity|exact (go_tables _ _ Hgo)|exact Hndup|exact (go_distinct _ _ Hgo)|].
    intros v Hv. unfold g_b, add_write. rewrite has_node_add_node. cbn [has_node empty_graph gnodes has_node_l orb node_eqb].
    apply (go_target _ _ Hgo v Hv). }
  assert (Hinv0 : sel_inv PC d ts g0).
  { constructor; [exact A1|exact A2| |exact (A6 Db)]. intros v Hv.
    assert (Hin : In (NData v, NStr (dalias v)) (map (fun v => (NData v, NStr (dalias v))) ts)) by (apply in_map_iff; exists v; auto).
    split.
    - rewrite (ext_edges _ _ _ A3). apply orb_true_iff. right. unfold ematch. apply existsb_exists. eexists. split; [exact Hin|].
      cbn [fst snd]. rewrite !node_eqb_refl. reflexivity.
    - exact (proj1 (ext_new _ _ _ A3 _ Hin)). }
  destruct (upd_collin_exact PC e' d ts xs (S_of ts) Hgo eq_refl) with (l := xs) (g2 := g0) as (G & EG & XG & IG & TG).
  - intros g2 Hinv x Hx. apply (HS_of PC e' d ts g2 x Hgo Hinj Hnd Hinv (Hxs x Hx)).
  - intros x Hx. destruct (S_of_props d ts xs x Hgo Hinj eq_refl Hx (Hxs x Hx)) as (B1 & B2 & _ & B4 & _). auto.
  - auto.
  - exact Hinv0.
  - exact Hw.
  - exact Hr.
  - fold g_b in Ea. fold g0 in Ea. rewrite EG in Ea.
    assert (Hop : forall p0, In p0 (own_pairs d xs) -> In (fst p0) xs /\ snd p0 = own_col d (fst p0)).
    { intros p0 Hp0. unfold own_pairs in Hp0. apply in_map_iff in Hp0. destruct Hp0 as (x & <- & Hx). auto. }
    destruct (holder_realises_ext d ts NM (own_pairs d xs) (S_of ts) g_b G Hgo Hinj eq_refl) as (C1 & C2 & C3 & C4);
      [| | |reflexivity|reflexivity|apply (ext_trans g_b g0 G); assumption|exact IG|].
    + intros p0 Hp0. destruct (Hop p0 Hp0) as [Hx Ep].
      destruct (S_of_props d ts xs (fst p0) Hgo Hinj eq_refl Hx (Hxs _ Hx)) as (B1 & _ & _ & _ & B5). split; [|exact B5].
      rewrite Ep, (own_col_eq d _ B1). eexists. reflexivity.
    + intros nm Hnm. unfold NM, unres_names in Hnm.
      assert (Hns : forall (A : Type) (f : dataset -> A) (g : A), In nm (match ts with [_] => [] | _ => [nm] end) -> match ts with [d1] => f d1 | _ => g end = g).
      { intros A f g. destruct ts as [|a [|b r]]; [reflexivity|intros []|reflexivity]. }
      assert (Hin : In nm (flat_map (fun x => match xsrc x with [(c, None)] => [c] | _ => [] end) xs) /\ In nm (match ts with [_] => [] | _ => [nm] end)).
      { destruct ts as [|a [|b r]]; [split; [exact Hnm|left; reflexivity]|destruct Hnm|split; [exact Hnm|left; reflexivity]]. }
      destruct Hin as [Hin Hsh]. apply in_flat_map in Hin. destruct Hin as (x & Hx & Hin). exists (x, own_col d x).
      split; [unfold own_pairs; apply in_map_iff; exists x; auto|]. cbn [fst].
      unfold S_of. destruct (xsrc x) as [|[c qq] rest]; [destruct Hin|]. destruct qq as [q|]; [destruct Hin|].
      destruct rest as [|p r]; [|destruct Hin]. destruct Hin as [->|[]].
      rewrite (Hns _ _ _ Hsh). left. reflexivity.
    + intros p' s' nm v Hnm Hp' Hs' Ev. destruct (Hop p' Hp') as [Hx' _]. set (x' := fst p') in *. unfold NM, unres_names in Hnm.
      assert (Hm : In nm (flat_map (fun x => match xsrc x with [(c, None)] => [c] | _ => [] end) xs) /\ (forall d1, ts <> [d1])).
      { destruct ts as [|a [|b r]]; [split; [exact Hnm|discriminate]|destruct Hnm|split; [exact Hnm|discriminate]]. }
      destruct Hm as [Hin Hns]. apply in_flat_map in Hin. destruct Hin as (x & Hx & Hin).
      destruct (Hxs x Hx) as (_ & c & qq & Ex & _ & Hq). rewrite Ex in Hin. destruct qq as [q|]; [destruct Hin|]. destruct Hin as [->|[]].
      destruct Hq as [(d1 & Ed)|[Hmul _]]; [exfalso; exact (Hns d1 Ed)|].
      destruct (Hxs x' Hx') as (_ & c' & qq' & Ex' & _ & Hq'). unfold S_of in Hs'. rewrite Ex' in Hs'. destruct qq' as [q'|].
      * destruct Hq' as (v' & Hv' & Eq' & Hu'). rewrite (find_dalias ts q' v' Hv' Eq' (fun w Hw E => Hu' w Hw (or_introl E))) in Hs'.
        destruct Hs' as [<-|[]]. cbn [craw]. apply (Hnq x x' nm c' q' Hx Hx' Ex Ex' Hmul).
      * rewrite (multi_not_single ts _ _ _ Hmul) in Hs'. destruct Hs' as [<-|[]].
        destruct (Ucol_props ts c' Hinj) as (_ & _ & U3). destruct Hmul as (a & b & Ha & Hb & Hab).
        pose proof (two_members _ a b (proj2 (U3 a) Ha) (proj2 (U3 b) Hb) Hab) as Hl. rewrite Ev in Hl. cbn in Hl. lia.
    + apply (script_pairs_of_holder e _ _ _ Ea (proj1 (env_facts e Henv)) C1 C2 C3 C4).
Qed.
End NavUB2.

(* ================================================================== *)
(** * UPDATE: the guard and the theorem *)
Definition is_nil {A} (l : list A) : bool := match l with [] => true | _ => false end.

(** [dml_cols_ok] for an UPDATE: FROM is a non-empty list of distinct base tables, none of them the target; every
    right-hand side [q.]b has a qualifier naming exactly one FROM table (by its alias, else its name), or no qualifier
    (one FROM table: that table's column; several: unresolved, and then no qualified reference uses the same column name) *)
Definition upd_cols_ok (t : tref) (al : option string) (sets : list setc) (from : list rel) : bool :=
  tref_ok t && opt_id_ok al && negb (is_nil sets) && sets_ok sets && negb (is_nil from) && forallb rel_ok from
  && tables_condb t from && items_condb from (map set_item sets) && noqual_itemsb from (map set_item sets).

Lemma set_items_ok sets : sets_ok sets = true -> forallb item_ok (map set_item sets) = true.
Proof.
  unfold sets_ok. intros H. apply forallb_forall. intros i Hi. apply in_map_iff in Hi. destruct Hi as (s & <- & Hs).
  rewrite forallb_forall in H. specialize (H s Hs). unfold setc_ok in H. apply andb_true_iff in H. destruct H as [H H3].
  apply andb_true_iff in H. destruct H as [H1 H2]. unfold set_item, item_ok. rewrite H3, H1. unfold opt_id_ok in H2. rewrite H2. reflexivity.
Qed.

Lemma set_xcol_same s : xc (setc_xcol s) = xc (xcol_of (set_item s)) /\ xsrc (setc_xcol s) = xsrc (xcol_of (set_item s)).
Proof. destruct s as [[a q] b]. split; reflexivity. Qed.

Lemma flows_xcol_ext {A} (f g : A -> xcol) ts d l :
  (forall a, xc (f a) = xc (g a) /\ xsrc (f a) = xsrc (g a)) ->
  flows_of (S_of ts) (own_pairs d (map f l)) = flows_of (S_of ts) (own_pairs d (map g l)).
Proof.
  intros H. unfold flows_of, own_pairs. induction l as [|a r IH]; [reflexivity|]. cbn [map flat_map fst snd]. rewrite IH. f_equal.
  destruct (H a) as [H1 H2]. unfold S_of, own_col. rewrite H1, H2. reflexivity.
Qed.

Lemma xref_ok_ext ts x x' : xc x' = xc x -> xsrc x' = xsrc x -> xref_ok ts x -> xref_ok ts x'.
Proof. intros H1 H2. unfold xref_ok. rewrite H1, H2. auto. Qed.

Lemma noqual_ext {A} (f g : A -> xcol) ts l :
  (forall a, xsrc (f a) = xsrc (g a)) -> noqual ts (map g l) -> noqual ts (map f l).
Proof.
  intros H Hn x x' c c' q Hx Hx' E E' Hm. apply in_map_iff in Hx, Hx'. destruct Hx as (a & <- & Ha). destruct Hx' as (a' & <- & Ha').
  rewrite H in E, E'. apply (Hn (g a) (g a') c c' q); auto; apply in_map; assumption.
Qed.

Theorem lemma_B_update : forall noise e t al sets from cj wh,
  noise_ok noise = true -> env_ok e = true -> upd_cols_ok t al sets from = true ->
  script_pairs e false [] [r_dml noise (DUpdate t al sets from cj wh)] = dml_pairs (e_cfg e) (DUpdate t al sets from cj wh).
Proof.
  intros noise e t al sets from cj wh Hn He Hok. unfold upd_cols_ok in Hok.
  apply andb_true_iff in Hok; destruct Hok as [Hok Hnqb]. apply andb_true_iff in Hok; destruct Hok as [Hok Hicb].
  apply andb_true_iff in Hok; destruct Hok as [Hok Htcb]. apply andb_true_iff in Hok; destruct Hok as [Hok Hrel].
  apply andb_true_iff in Hok; destruct Hok as [Hok Hne]. apply andb_true_iff in Hok; destruct Hok as [Hok Hsets].
  apply andb_true_iff in Hok; destruct Hok as [Hok _]. apply andb_true_iff in Hok; destruct Hok as [Ht Hal].
  assert (Hne' : from <> []) by (destruct from; [discriminate|discriminate]).
  set (items := map set_item sets).
  pose proof (set_items_ok sets Hsets) as Hit. fold items in Hit.
  pose proof (tables_condb_ok (e_cfg e) t from Ht Hrel Htcb) as Htc.
  pose proof (items_condb_ok from items Hicb) as Hic. pose proof (noqual_itemsb_ok from items Hnqb) as Hnq.
  set (s := SCtas t (QSelect items from cj None)).
  transitivity (script_pairs e false [] [r_stmt noise s]).
  - rewrite (model_pairs_update noise Hn e He t al sets from cj wh Ht Hal Hne' Hrel (group_ok_of e t from Hrel Htc)
               (ts_inj_of e t from Hrel Htc) (names_nodot_of e from Hrel) (tbls_NoDup e t from Hrel Htc)).
    + rewrite (model_pairs_select noise e s t items from cj Hn He (or_intror (or_introl eq_refl)) Ht Hit Hne' Hrel (group_ok_of e t from Hrel Htc)
                 (ts_inj_of e t from Hrel Htc) (names_nodot_of e from Hrel)
                 (xref_ok_of e t from items Hrel Hit Htc Hic) (noqual_of e from items Hit Hnq)).
      f_equal. f_equal. f_equal. unfold items. rewrite map_map. apply flows_xcol_ext. exact set_xcol_same.
    + intros x Hx. apply in_map_iff in Hx. destruct Hx as (s0 & <- & Hs0). destruct (set_xcol_same s0) as [E1 E2].
      apply (xref_ok_ext _ (xcol_of (set_item s0)) _ E1 E2). apply (xref_ok_of e t from items Hrel Hit Htc Hic).
      unfold items. rewrite map_map. apply in_map_iff. exists s0. auto.
    + pose proof (noqual_of e from items Hit Hnq) as Hq. unfold items in Hq. rewrite map_map in Hq.
      apply (noqual_ext setc_xcol (fun s0 => xcol_of (set_item s0)) _ sets (fun a => proj2 (set_xcol_same a)) Hq).
  - apply (lemma_B_select_tables noise e s t items from cj Hn He (or_intror (or_introl eq_refl)) Ht Hit Hne' Hrel Htc Hic Hnq).
Qed.
Print Assumptions lemma_B_update.

(* ================================================================== *)
(** * Part M: MERGE with a base table as source *)
Definition ins_pairs (ins : option (list string * list (option string * string))) : list (string * (option string * string)) :=
  match ins with Some (cols, vals) => combine cols vals | None => [] end.
Definition ins_xcol (p : string * (option string * string)) : xcol := mk_xcol (fst p) [(snd (snd p), fst (snd p))] false.
Definition mrg_xs (upd : list setc) (ins : option (list string * list (option string * string))) : list xcol :=
  map setc_xcol upd ++ map ins_xcol (ins_pairs ins).
(** the MERGE extractor ignores the qualifier of a source column: its parent is the USING relation *)
Definition S_m (d1 : dataset) (x : xcol) : list column :=
  match xsrc x with [(c, _)] => [{| craw := c; cparents := [d1] |}] | _ => [] end.

Section NavMB.
Variable noise : list seg.
Hypothesis Hnoise : noise_ok noise = true.
Variable e : env.
Hypothesis Henv : env_ok e = true.
Variables d d1 : dataset.
Hypothesis Hgo : group_ok d [d1].
Hypothesis Hd : dk d = KTable.
Notation PC := (PC4 [d1] []).

Lemma Hd1 : dk d1 = KTable.
Proof. apply (go_tables _ _ Hgo). left. reflexivity. Qed.

Lemma st_write_single g : sq_write g = [d] -> st_write g = [d].
Proof. intros H. unfold st_write. rewrite H. cbn [filter]. rewrite Hd. reflexivity. Qed.

Lemma mrg_acl g a b :
  sel_inv PC d [d1] g -> sq_write g = [d] ->
  exists g', add_column_lineage g (plain_col b (Some d1)) (plain_col a (Some d)) = Ok g' /\
             ext g g' (acl_edges (plain_col b (Some d1)) (plain_col a (Some d)) d) /\ sel_inv PC d [d1] g' /\
             (forall k, holder_nodes g' k = holder_nodes g k).
Proof.
  intros Hinv Hw.
  destruct (acl_ok PC d [d1] g (plain_col b (Some d1)) (plain_col a (Some d)) Hgo eq_refl) as (g' & E & X & L & I' & T & _ & D).
  - left. exists d. split; [reflexivity|exact Hd].
  - left. exists d1. split; [reflexivity|exact Hd1].
  - intros p [<-|[]]. left. reflexivity.
  - exact (si_lits _ _ _ _ Hinv).
  - exact (si_edges _ _ _ _ Hinv).
  - exists g'. split; [exact E|]. split; [exact X|]. split; [|exact T].
    apply (sel_inv_ext PC d [d1] g g' _ Hinv X L I' (D (si_drop _ _ _ _ Hinv))).
Qed.

Lemma sel_edges_cons1 x s l :
  S_m d1 x = [s] -> sel_edges d (S_m d1) (own_pairs d (x :: l)) = acl_edges s (own_col d x) d ++ sel_edges d (S_m d1) (own_pairs d l).
Proof. intros H. unfold sel_edges, own_pairs. cbn [map flat_map fst snd]. rewrite H. cbn [flat_map]. rewrite app_nil_r. reflexivity. Qed.

Lemma mrg_sets_exact sets : forall g,
  sel_inv PC d [d1] g -> sq_write g = [d] ->
  exists g', fold_left (mrg_set (Some d1)) (map (r_setc noise) sets) (Ok g) = Ok g' /\
             ext g g' (sel_edges d (S_m d1) (own_pairs d (map setc_xcol sets))) /\ sel_inv PC d [d1] g' /\
             (forall k, holder_nodes g' k = holder_nodes g k).
Proof.
  induction sets as [|s r IH]; intros g Hinv Hw.
  - exists g. split; [reflexivity|]. split; [apply ext_refl|]. split; [exact Hinv|reflexivity].
  - cbn [map fold_left]. unfold mrg_set at 2. unfold mrg_set_body.
    assert (E : get_children (r_setc noise s) ["column_reference"] = [r_colref None (fst (fst s)); r_colref (snd (fst s)) (snd s)]).
    { unfold r_setc. rewrite (get_children_sep noise Hnoise) by reflexivity. reflexivity. }
    rewrite E, !ecq_colref, (st_write_single g Hw). cbn [fst].
    destruct (mrg_acl g (fst (fst s)) (snd s) Hinv Hw) as (g1 & E1 & X1 & I1 & T1). rewrite E1.
    destruct (IH g1 I1) as (g' & E' & X' & I'' & T'); [unfold sq_write; rewrite T1; exact Hw|].
    exists g'. split; [exact E'|]. split.
    + rewrite (sel_edges_cons1 (setc_xcol s) (plain_col (snd s) (Some d1))) by reflexivity.
      apply (ext_trans g g1 g'); [exact X1|exact X'].
    + split; [exact I''|]. intros k. rewrite T', T1. reflexivity.
Qed.

Lemma mrg_values_exact cols vals : forall j g,
  sel_inv PC d [d1] g -> sq_write g = [d] ->
  exists g', fst (fold_left (mrg_value (Some d1) (map (fun c => plain_col c (Some d)) cols)) (map r_valx vals) (Ok g, j)) = Ok g' /\
             ext g g' (sel_edges d (S_m d1) (own_pairs d (map ins_xcol (combine (skipn j cols) vals)))) /\ sel_inv PC d [d1] g' /\
             (forall k, holder_nodes g' k = holder_nodes g k).
Proof.
  induction vals as [|v r IH]; intros j g Hinv Hw.
  - exists g. split; [reflexivity|]. rewrite combine_nil. split; [apply ext_refl|]. split; [exact Hinv|reflexivity].
  - cbn [map fold_left]. unfold mrg_value at 2. unfold mrg_value_body.
    change (get_child (r_valx v) ["column_reference"]) with (Some (r_colref (fst v) (snd v))). cbn iota. rewrite ecq_colref. cbn [fst].
    rewrite nth_error_map. destruct (nth_error cols j) as [c|] eqn:En; cbn [option_map].
    + rewrite (skipn_nth cols j c En).
      destruct (mrg_acl g c (snd v) Hinv Hw) as (g1 & E1 & X1 & I1 & T1). rewrite E1.
      destruct (IH (S j) g1 I1) as (g' & E' & X' & I'' & T'); [unfold sq_write; rewrite T1; exact Hw|].
      exists g'. split; [exact E'|]. split.
      * cbn [combine map]. rewrite (sel_edges_cons1 (ins_xcol (c, v)) (plain_col (snd v) (Some d1))) by reflexivity.
        apply (ext_trans g g1 g'); [exact X1|exact X'].
      * split; [exact I''|]. intros k. rewrite T', T1. reflexivity.
    + assert (Es : skipn j cols = []).
      { apply nth_error_None in En. apply skipn_all2. exact En. }
      rewrite Es. cbn [combine map]. destruct (IH (S j) g Hinv Hw) as (g' & E' & X' & I'' & T').
      assert (Es' : skipn (S j) cols = []).
      { apply nth_error_None in En. apply skipn_all2. lia. }
      rewrite Es' in X'. cbn [combine map] in X'. exists g'. auto.
Qed.
End NavMB.

Section NavMB2.
Variable noise : list seg.
Hypothesis Hnoise : noise_ok noise = true.
Variable e : env.
Hypothesis Henv : env_ok e = true.

Lemma matched_fold_eq dr g upd :
  fold_left (mrg_matched dr) (r_matched noise upd) (Ok g) = fold_left (mrg_set dr) (map (r_setc noise) upd) (Ok g).
Proof.
  destruct upd as [|s0 r]; [reflexivity|]. cbn [r_matched fold_left]. set (upd := s0 :: r). unfold mrg_matched.
  match goal with |- context [get_child ?wm ["merge_update_clause"]] =>
    assert (E1 : get_child wm ["merge_update_clause"] =
                 Some (node "merge_update_clause" ["merge_update_clause"] (sep noise [kw "update"; r_scl noise upd])))
      by (unfold get_child; rewrite (get_children_sep noise Hnoise) by reflexivity; reflexivity) end.
  rewrite E1.
  match goal with |- context [get_child ?muc ["set_clause_list"]] =>
    assert (E2 : get_child muc ["set_clause_list"] = Some (r_scl noise upd))
      by (unfold get_child; rewrite (get_children_sep noise Hnoise) by reflexivity; reflexivity) end.
  rewrite E2, (gc_scl noise Hnoise). reflexivity.
Qed.

Lemma not_matched_fold_eq dr g w ins :
  nth_res (st_write g) 0 = Ok w ->
  fold_left (mrg_not_matched dr) (r_not_matched noise ins) (Ok g) =
  match ins with
  | None => Ok g
  | Some (cols, vals) => fst (fold_left (mrg_value dr (map (fun c => plain_col c (Some w)) cols)) (map r_valx vals) (Ok g, 0))
  end.
Proof.
  intros Hw. destruct ins as [[cols vals]|]; [|reflexivity].
  cbn [r_not_matched fold_left]. unfold mrg_not_matched.
  set (colsb := node "bracketed" ["bracketed"] (sep noise (lpar :: intersperse comma (map (r_colref None) cols) ++ [rpar]))).
  set (vb := node "bracketed" ["bracketed"] (sep noise (lpar :: intersperse comma (map r_valx vals) ++ [rpar]))).
  set (vc := node "values_clause" ["values_clause"] (sep noise [kw "values"; vb])).
  set (mi := node "merge_insert_clause" ["merge_insert_clause"] (sep noise [kw "insert"; colsb; vc])).
  match goal with |- context [get_child ?wn ["merge_insert_clause"]] =>
    assert (E1 : get_child wn ["merge_insert_clause"] = Some mi)
      by (unfold get_child; rewrite (get_children_sep noise Hnoise) by reflexivity; reflexivity) end.
  rewrite E1.
  assert (E2 : get_child mi ["bracketed"] = Some colsb)
    by (unfold get_child, mi; rewrite (get_children_sep noise Hnoise) by reflexivity; reflexivity).
  assert (E4 : get_child mi ["values_clause"] = Some vc)
    by (unfold get_child, mi; rewrite (get_children_sep noise Hnoise) by reflexivity; reflexivity).
  assert (E5 : get_child vc ["bracketed"] = Some vb)
    by (unfold get_child, vc; rewrite (get_children_sep noise Hnoise) by reflexivity; reflexivity).
  assert (E3 : get_children colsb ["column_reference"] = map (r_colref None) cols).
  { unfold colsb. apply (gc_bracket_list noise Hnoise); try reflexivity.
    intros y Hy. apply in_map_iff in Hy. destruct Hy as (c & <- & _). reflexivity. }
  assert (E6 : get_children vb ["literal"; "expression"] = map r_valx vals).
  { unfold vb. apply (gc_bracket_list noise Hnoise); try reflexivity.
    intros y Hy. apply in_map_iff in Hy. destruct Hy as (v & <- & _). reflexivity. }
  rewrite E2, E3, (mrg_inscols g w cols Hw), E4, E5, E6. reflexivity.
Qed.

(** the holder of MERGE INTO t USING u ...: target, source table with its alias edge, one lineage edge per assignment *)
Lemma analyze_merge_table t al u al2 upd ins :
  tref_ok t = true -> opt_id_ok al = true -> tref_ok u = true -> opt_id_ok al2 = true ->
  let d := tbl e t None in let d1 := tbl e u None in
  group_ok d [d1] ->
  exists G, analyze e false (r_dml noise (DMerge t al (RTable u al2) upd ins)) = Ok G /\
            ext (add_write empty_graph d) G ([(NData d1, NStr (dalias d1))] ++ sel_edges d (S_m d1) (own_pairs d (mrg_xs upd ins))) /\
            sel_inv (PC4 [d1] []) d [d1] G.
Proof.
  intros Ht Hal Hu Hal2 d d1 Hgo. set (k := q_size (QSelect [] [RTable u al2] false None)).
  set (suf := [on_clause noise; r_merge_match noise upd ins]).
  set (tail := d_using noise k (RTable u al2) ++ suf).
  set (L := [kw "merge"; kw "into"; r_tref t] ++ al_list noise al ++ kw "using" :: tail).
  set (stmt := node "merge_statement" ["merge_statement"] (sep noise L)).
  assert (Es : r_dml noise (DMerge t al (RTable u al2) upd ins) = stmt) by reflexivity. rewrite Es.
  assert (Ea : analyze e false stmt = extract_merge (3 * depth stmt + 10) e stmt) by reflexivity.
  assert (Elcs : list_child_segments stmt true = L).
  { unfold stmt. rewrite (lcs_node noise Hnoise) by reflexivity. unfold L, tail, suf. destruct al, al2; reflexivity. }
  rewrite Ea, extract_merge_eq, Elcs. clearbody stmt. generalize (3 * depth stmt + 10). intros F. generalize L at 1. intros segs.
  unfold L. cbn [app fold_left]. rewrite mrg_kw_merge, mrg_kw_into, mrg_tref_tgt, (table_of_seg_exact e Henv t None Ht I).
  fold d. set (g_b := add_write empty_graph d).
  assert (Epre : exists i, fold_left (mrg_step F e segs) (al_list noise al ++ kw "using" :: tail) (Ok (g_b, false, false, None), 3) =
                           fold_left (mrg_step F e segs) tail (Ok (g_b, false, true, None), i)).
  { destruct al as [a0|]; cbn [al_list app fold_left]; [rewrite mrg_alias|]; rewrite mrg_kw_using; eexists; reflexivity. }
  destruct Epre as (i0 & Epre). rewrite Epre. unfold tail. cbn [d_using app fold_left].
  rewrite mrg_tref_src, (table_of_seg_exact e Henv u None Hu I). fold d1.
  (* the holder after the source table was read *)
  assert (Hdo : Forall data_ok [d1]) by (constructor; [reflexivity|constructor]).
  assert (Lb : lits_in (QK (d :: [d1]) (PC4 [d1] [])) g_b) by (split; [intros n [<-|[]]; left; reflexivity|intros e0 []]).
  assert (Eb : edges_inv [d1] g_b) by (intros e0 []).
  assert (Db : drop_free g_b) by (intros n a [H|[]]; inversion H; intros [K|[]]; discriminate K).
  destruct (add_reads_ok (PC4 [d1] []) d [d1] [d1] g_b Hgo Hdo (fun v Hv => Hv) Lb Eb) as (A1 & A2 & A3 & A4 & A5 & A6).
  cbn [fold_left map] in A1, A2, A3, A4, A5, A6. set (g1 := add_read g_b d1) in *.
  assert (Hw1 : sq_write g1 = [d]) by (unfold sq_write; rewrite A4 by discriminate; reflexivity).
  assert (Hinv1 : sel_inv (PC4 [d1] []) d [d1] g1).
  { constructor; [exact A1|exact A2| |exact (A6 Db)]. intros v [<-|[]]. split.
    - rewrite (ext_edges _ _ _ A3). apply orb_true_iff. right. cbn [ematch existsb fst snd]. rewrite !node_eqb_refl. reflexivity.
    - exact (proj1 (ext_new _ _ _ A3 _ (or_introl eq_refl))). }
  assert (Eal : exists i, fold_left (mrg_step F e segs) (d_alias noise al2 ++ suf) (Ok (g1, false, false, Some d1), S i0) =
                          fold_left (mrg_step F e segs) suf (Ok (g1, false, false, Some d1), i)).
  { destruct al2 as [a2|]; cbn [d_alias app fold_left]; [rewrite mrg_alias|]; eexists; reflexivity. }
  destruct Eal as (i1 & Eal). rewrite Eal. unfold suf. cbn [fold_left]. rewrite mrg_on, (mrg_mm noise Hnoise).
  rewrite matched_fold_eq.
  destruct (mrg_sets_exact noise Hnoise d d1 Hgo eq_refl upd g1 Hinv1 Hw1) as (g2 & E2 & X2 & I2 & T2). rewrite E2.
  assert (Hw2 : sq_write g2 = [d]) by (unfold sq_write; rewrite T2; exact Hw1).
  rewrite (not_matched_fold_eq (Some d1) g2 d ins) by (rewrite (st_write_single d eq_refl g2 Hw2); reflexivity).
  assert (Hfin : exists G, match ins with
                           | None => Ok g2
                           | Some (cols, vals) => fst (fold_left (mrg_value (Some d1) (map (fun c => plain_col c (Some d)) cols)) (map r_valx vals) (Ok g2, 0))
                           end = Ok G /\
                           ext g2 G (sel_edges d (S_m d1) (own_pairs d (map ins_xcol (ins_pairs ins)))) /\ sel_inv (PC4 [d1] []) d [d1] G).
  { destruct ins as [[cols vals]|].
    - destruct (mrg_values_exact d d1 Hgo eq_refl cols vals 0 g2 I2 Hw2) as (G & EG & XG & IG & _). exists G. auto.
    - exists g2. split; [reflexivity|]. split; [apply ext_refl|exact I2]. }
  destruct Hfin as (G & EG & XG & IG). rewrite EG. exists G. split; [reflexivity|]. split; [|exact IG].
  refine (ext_trans g_b g1 G [(NData d1, NStr (dalias d1))] _ A3 _).
  unfold mrg_xs, own_pairs, sel_edges. rewrite map_app, flat_map_app.
  apply (ext_trans g1 g2 G); [exact X2|exact XG].
Qed.
End NavMB2.

(* ================================================================== *)
(** * MERGE with a table source: the guard and the theorem *)
Definition mrg_trip (upd : list setc) (ins : option (list string * list (option string * string))) : list setc :=
  upd ++ map (fun p => (fst p, fst (snd p), snd (snd p))) (ins_pairs ins).

(** a source qualifier, if present, is the name the USING table goes by (its alias, else its bare name) *)
Definition mrg_qual_ok (u : tref) (al2 : option string) (s : setc) : bool :=
  match snd (fst s) with None => true | Some qq => String.eqb qq (match al2 with Some a2 => a2 | None => snd u end) end.

Definition mrg_table_cols_ok (t : tref) (al : option string) (u : tref) (al2 : option string)
                             (upd : list setc) (ins : option (list string * list (option string * string))) : bool :=
  tref_ok t && opt_id_ok al && tref_ok u && opt_id_ok al2 && negb (tref_clash t u)
  && negb (match upd, ins with [], None => true | _, _ => false end)
  && sets_ok (mrg_trip upd ins) && forallb (mrg_qual_ok u al2) (mrg_trip upd ins).

Definition trip_str (ustr tstr : string) (s : setc) : string := ((ustr ++ "." ++ snd s) ++ ">" ++ tstr ++ "." ++ fst (fst s))%string.

Lemma mrg_xs_trip upd ins : mrg_xs upd ins = map setc_xcol (mrg_trip upd ins).
Proof. unfold mrg_xs, mrg_trip. rewrite map_app, map_map. reflexivity. Qed.

Lemma mrg_items_trip upd ins : map set_item upd ++ ins_items ins = map set_item (mrg_trip upd ins).
Proof. unfold mrg_trip, ins_items, ins_pairs. rewrite map_app, map_map. destruct ins as [[cols vals]|]; reflexivity. Qed.

Lemma model_strs_trip d d1 T :
  dk d = KTable -> dk d1 = KTable -> sets_ok T = true ->
  map flow_str (flows_of (S_m d1) (own_pairs d (map setc_xcol T))) = map (trip_str (dstr d1) (dstr d)) T.
Proof.
  intros Hd Hd1 Hok. unfold sets_ok in Hok. induction T as [|s r IH]; [reflexivity|].
  cbn [forallb] in Hok. apply andb_true_iff in Hok. destruct Hok as [Hs Hr].
  change (flows_of (S_m d1) (own_pairs d (map setc_xcol (s :: r))))
    with (map (fun s0 => (s0, own_col d (setc_xcol s))) (S_m d1 (setc_xcol s)) ++ flows_of (S_m d1) (own_pairs d (map setc_xcol r))).
  rewrite map_app. change (map (trip_str (dstr d1) (dstr d)) (s :: r))
    with ([trip_str (dstr d1) (dstr d) s] ++ map (trip_str (dstr d1) (dstr d)) r). f_equal; [|exact (IH Hr)].
  unfold setc_ok in Hs. apply andb_true_iff in Hs. destruct Hs as [Hs H3]. apply andb_true_iff in Hs. destruct Hs as [H1 _].
  destruct s as [[a q] b]. cbn [fst snd] in *. unfold S_m, setc_xcol, mk_xcol, own_col, add_parent. cbn [xsrc xc map esc_src fst snd cparents memd existsb insert_parent craw].
  unfold flow_str, trip_str. cbn [fst snd src_str col_str col_parent cparents craw]. rewrite Hd, Hd1, (id_ok_escape a H1), (id_ok_escape b H3). reflexivity.
Qed.

Lemma spec_strs_trip ds t u al2 T :
  forallb (mrg_qual_ok u al2) T = true ->
  map (fun p : src * string => (show_src (fst p) ++ ">" ++ snd p)%string)
      (flat_map (fun c : colspec => map (fun sr => (sr, (tref_str ds t ++ "." ++ fst c)%string)) (snd c))
                (q_cols (S (q_size (QSelect (map set_item T) [RTable u al2] false None))) ds [] (QSelect (map set_item T) [RTable u al2] false None)))
  = map (trip_str (tref_str ds u) (tref_str ds t)) T.
Proof.
  intros Hq. cbn [q_cols flat_map rels_flat app map]. 
  assert (Eb : match fst u, assoc_s (snd u) (@nil (string * list colspec)) with
               | None, Some cols => {| b_alias := al2; b_names := match al2 with Some _ => [] | None => [snd u] end; b_rel := RelCols cols |}
               | _, _ => {| b_alias := al2; b_names := match al2 with Some _ => [] | None => [snd u; tref_str ds u] end; b_rel := RelBase (tref_str ds u) |}
               end = {| b_alias := al2; b_names := match al2 with Some _ => [] | None => [snd u; tref_str ds u] end; b_rel := RelBase (tref_str ds u) |}).
  { destruct (fst u); reflexivity. }
  rewrite Eb. set (bnd := {| b_alias := al2; b_names := _; b_rel := _ |}).
  induction T as [|s r IH]; [reflexivity|]. cbn [forallb] in Hq. apply andb_true_iff in Hq. destruct Hq as [Hs Hr].
  cbn [map flat_map]. rewrite flat_map_app, map_app.
  change (trip_str (tref_str ds u) (tref_str ds t) s :: map (trip_str (tref_str ds u) (tref_str ds t)) r)
    with ([trip_str (tref_str ds u) (tref_str ds t) s] ++ map (trip_str (tref_str ds u) (tref_str ds t)) r).
  f_equal; [|exact (IH Hr)].
  destruct s as [[a q] b]. unfold mrg_qual_ok in Hs. cbn [fst snd] in Hs. unfold set_item, trip_str. cbn [fst snd item_cols col_refs flat_map app].
  assert (Er : resolve [bnd] (q, b) = [SCol (tref_str ds u) b]).
  { unfold resolve. cbn [fst snd]. destruct q as [qq|]; [|reflexivity]. apply String.eqb_eq in Hs. subst qq.
    unfold find_binding, bnd. destruct al2 as [a2|]; cbn [filter b_alias b_names b_rel rel_col mem_string]; rewrite String.eqb_refl; reflexivity. }
  rewrite Er. reflexivity.
Qed.

Theorem lemma_B_merge_table : forall noise e t al u al2 upd ins,
  noise_ok noise = true -> env_ok e = true -> mrg_table_cols_ok t al u al2 upd ins = true ->
  script_pairs e false [] [r_dml noise (DMerge t al (RTable u al2) upd ins)] = dml_pairs (e_cfg e) (DMerge t al (RTable u al2) upd ins).
Proof.
  intros noise e t al u al2 upd ins Hn He Hok. unfold mrg_table_cols_ok in Hok.
  apply andb_true_iff in Hok; destruct Hok as [Hok Hq]. apply andb_true_iff in Hok; destruct Hok as [Hok Hsets].
  apply andb_true_iff in Hok; destruct Hok as [Hok _]. apply andb_true_iff in Hok; destruct Hok as [Hok Hcl].
  apply andb_true_iff in Hok; destruct Hok as [Hok Hal2]. apply andb_true_iff in Hok; destruct Hok as [Hok Hu].
  apply andb_true_iff in Hok; destruct Hok as [Ht Hal].
  set (e' := with_cols e (view_cols [] [])).
  assert (He' : env_ok e' = true) by exact He.
  set (d := tbl e t None). set (d1 := tbl e u None).
  assert (Hrel : forallb rel_ok [RTable u None] = true) by (cbn [forallb rel_ok]; rewrite Hu; reflexivity).
  assert (Htc : tables_cond (e_cfg e) t [RTable u None]).
  { apply (tables_condb_ok (e_cfg e) t [RTable u None] Ht Hrel). unfold tables_condb. cbn [map rtref trefs_distinct forallb]. rewrite Hcl. reflexivity. }
  pose proof (group_ok_of e t [RTable u None] Hrel Htc) as Hgo. pose proof (ts_inj_of e t [RTable u None] Hrel Htc) as Hinj.
  cbn [map tbl_of] in Hgo, Hinj. fold d d1 in Hgo, Hinj.
  destruct (analyze_merge_table noise Hn e' He' t al u al2 upd ins Ht Hal Hu Hal2 Hgo) as (G & Ea & XG & IG).
  set (xs := mrg_xs upd ins) in *.
  destruct (holder_realises_ext d [d1] [] (own_pairs d xs) (S_m d1) (add_write empty_graph d) G Hgo Hinj eq_refl) as (C1 & C2 & C3 & C4);
    [|intros nm []|intros x' s' nm v []|reflexivity|reflexivity|exact XG|exact IG|].
  - intros p0 Hp0. unfold own_pairs in Hp0. apply in_map_iff in Hp0. destruct Hp0 as (x & <- & Hx). cbn [fst snd].
    assert (Hx0 : cparents (xc x) = []).
    { unfold xs in Hx. rewrite mrg_xs_trip in Hx. apply in_map_iff in Hx. destruct Hx as (s & <- & _). reflexivity. }
    split; [rewrite (own_col_eq d x Hx0); eexists; reflexivity|].
    intros s Hs. left. exists d1. split; [left; reflexivity|]. unfold S_m in Hs.
    destruct (xsrc x) as [|[c qq] [|p r]]; [destruct Hs| |destruct Hs]. destruct Hs as [<-|[]]. reflexivity.
  - rewrite (script_pairs_of_holder e _ _ _ Ea (proj1 (env_facts e He)) C1 C2 C3 C4).
    unfold dml_pairs, dml_flows. cbn [dml_flow_query dml_target]. unfold xs. rewrite mrg_xs_trip, mrg_items_trip.
    rewrite (model_strs_trip d d1 (mrg_trip upd ins) eq_refl eq_refl Hsets), (spec_strs_trip (e_cfg e) t u al2 (mrg_trip upd ins) Hq). reflexivity.
Qed.
Print Assumptions lemma_B_merge_table.

(* ================================================================== *)
(** * Lemma B (columns) for UPDATE and MERGE: what is proved

    - [lemma_B_dml]: under [dml_cols_ok] (UPDATE with a FROM list of distinct base tables; MERGE with a base table as
      source) the reported pairs are exactly [dml_pairs] (the printed [dml_flows] of Ast/SpecDmlCols.v), for every trivia
      list and any number of assignments / tables.  Instances: [lemma_B_update], [lemma_B_merge_table].
    - NOT proved: MERGE with a derived-table source ([lemma_B_merge_derived_statement], tested only), UPDATE with derived
      tables in FROM, SELECT ... INTO.
    - [lemma_B_dml_unguarded_refuted]: without the guard the statement is false; the witnesses [cxD_*] are
      implementation / specification disagreements (see each comment). *)
Definition dml_cols_ok (d : dml) : bool :=
  match d with
  | DUpdate t al sets from _ _ => upd_cols_ok t al sets from
  | DMerge t al (RTable u al2) upd ins => mrg_table_cols_ok t al u al2 upd ins
  | _ => false
  end.

Theorem lemma_B_dml : forall noise e d,
  noise_ok noise = true -> env_ok e = true -> dml_cols_ok d = true ->
  script_pairs e false [] [r_dml noise d] = dml_pairs (e_cfg e) d.
Proof.
  intros noise e d Hn He Hok. destruct d as [t al sets from cj wh|t al [u al2|q a|x y] upd ins|t items from cj wh]; try discriminate Hok.
  - apply lemma_B_update; assumption.
  - apply lemma_B_merge_table; assumption.
Qed.
Print Assumptions lemma_B_dml.

(** the next step, stated and tested but not proved: a derived table as MERGE source (its select list is looked through) *)
Definition lemma_B_merge_derived_statement (guard : dml -> bool) : Prop :=
  forall noise e t al q a upd ins,
    noise_ok noise = true -> env_ok e = true -> guard (DMerge t al (RDerived q a) upd ins) = true ->
    script_pairs e false [] [r_dml noise (DMerge t al (RDerived q a) upd ins)] = dml_pairs (e_cfg e) (DMerge t al (RDerived q a) upd ins).

Definition lemma_B_dml_check (noise : list seg) (e : env) (d : dml) : string :=
  if negb (noise_ok noise && env_ok e && dml_ok_base d) then "outside"
  else if list_eqb (script_pairs e false [] [r_dml noise d]) (dml_pairs (e_cfg e) d) then "holds" else "FAILS".

(** ** disagreements (all inside [dml_ok_base], i.e. inside the table-level theorem) *)
Definition tbn (n : string) : rel := RTable (None, n) None.
(** update t as z set a = z.b from u : the target's alias is not resolved, a table "z" is invented.  Implementation defect. *)
Definition cxD_target_alias : dml := DUpdate (None, "t") (Some "z") [("a", Some "z", "b")] [tbn "u"] false None.
(** update t set a = t.b : the implementation reports t.b -> t.a (right); [dml_flows] resolves in the FROM relations only and has
    nothing.  The specification as given is incomplete here (the target is in scope for references qualified by its name). *)
Definition cxD_target_name : dml := DUpdate (None, "t") None [("a", Some "t", "b")] [] false None.
(** update t set a = q.b from u : a dangling qualifier becomes a table "q" (class of cxB_dangling_qualifier) *)
Definition cxD_dangling : dml := DUpdate (None, "t") None [("a", Some "q", "b")] [tbn "u"] false None.
(** merge into t using u on 1 = 1 when matched then update set a = t.b : the qualifier of a source column is ignored, every
    source column is attributed to the USING relation: reported u.b -> t.a, the dataflow is t.b -> t.a.  Implementation defect. *)
Definition cxD_merge_qualifier : dml := DMerge (None, "t") None (tbn "u") [("a", Some "t", "b")] None.
(** merge into t using u as s on 1 = 1 when matched then update set a = u.b : same mechanism (u is not a name in scope once aliased) *)
Definition cxD_merge_bare_name : dml := DMerge (None, "t") None (RTable (None, "u") (Some "s")) [("a", Some "u", "b")] None.
Definition cxD_all : list dml := [cxD_target_alias; cxD_target_name; cxD_dangling; cxD_merge_qualifier; cxD_merge_bare_name].

Lemma cxD_fail : map (lemma_B_dml_check [] e_dml) cxD_all = ["FAILS"; "FAILS"; "FAILS"; "FAILS"; "FAILS"].
Proof. vm_compute. reflexivity. Qed.
Lemma cxD_excluded : forallb (fun d => negb (dml_cols_ok d)) cxD_all = true.
Proof. vm_compute. reflexivity. Qed.
Lemma cxD_reported :
  script_pairs e_dml false [] [r_dml [] cxD_target_alias] = ["<default>.z.b><default>.t.a"] /\ dml_pairs "" cxD_target_alias = [] /\
  script_pairs e_dml false [] [r_dml [] cxD_target_name] = ["<default>.t.b><default>.t.a"] /\ dml_pairs "" cxD_target_name = [] /\
  script_pairs e_dml false [] [r_dml [] cxD_merge_qualifier] = ["<default>.u.b><default>.t.a"] /\ dml_pairs "" cxD_merge_qualifier = [].
Proof. vm_compute. repeat split; reflexivity. Qed.

Definition lemma_B_dml_unguarded : Prop :=
  forall noise e d, noise_ok noise = true -> env_ok e = true -> dml_ok_base d = true ->
                    script_pairs e false [] [r_dml noise d] = dml_pairs (e_cfg e) d.
Theorem lemma_B_dml_unguarded_refuted : ~ lemma_B_dml_unguarded.
Proof.
  intros H. specialize (H [] e_dml cxD_merge_qualifier eq_refl eq_refl eq_refl). vm_compute in H. discriminate H.
Qed.
Print Assumptions lemma_B_dml_unguarded_refuted.

(** non-vacuity *)
Definition updB_ex : dml :=
  DUpdate (Some "s", "t") (Some "x") [("a", Some "p", "b"); ("c", None, "d"); ("a", Some "v", "e")]
          [RTable (None, "u") (Some "p"); RTable (Some "s2", "v") None; RTable (None, "w") None] true (Some ("c", LemmaADml.sel1 "c" "z")).
Definition mrgB_ex : dml :=
  DMerge (None, "t") (Some "x") (RTable (Some "s2", "u") (Some "y")) [("a", Some "y", "b"); ("c", None, "d")]
         (Some (["k"; "a"; "extra"], [(Some "y", "k"); (None, "a2")])).
Example lemma_B_dml_nonvacuous :
  noise_ok noise3 = true /\ env_ok e_dml = true /\ dml_cols_ok updB_ex = true /\ dml_cols_ok mrgB_ex = true /\
  dml_pairs "" updB_ex = ["<default>.u.b>s.t.a"; "d{<default>.u,<default>.w,s2.v}>s.t.c"; "s2.v.e>s.t.a"] /\
  script_pairs e_dml false [] [r_dml noise3 updB_ex] = dml_pairs "" updB_ex /\
  dml_pairs "" mrgB_ex = ["s2.u.a2><default>.t.a"; "s2.u.b><default>.t.a"; "s2.u.d><default>.t.c"; "s2.u.k><default>.t.k"] /\
  script_pairs e_dml false [] [r_dml noise3 mrgB_ex] = dml_pairs "" mrgB_ex.
Proof. vm_compute. repeat split; reflexivity. Qed.
