(** L4: the T-SQL batch splitter (TSQL_NO_SEMICOLON, dialect tsql) on segment trees.

    Code modelled (sqllineage/core/parser/sqlfluff/analyzer.py, sqllineage/runner.py [_eval]):

    - [_list_specific_statement_segment(sql)]: the text is parsed to ONE [file] segment; for every top-level child
      [top]: type [statement] -> [top.segments[0]]; type [batch] -> [stmt.segments[0]] for every
      [stmt in top.get_children("statement")]; anything else (trivia, [statement_terminator], [end_of_file] ...)
      contributes nothing.  -> [list_statements] (the parser itself is not modelled: the input is the [file] tree).
    - [split_tsql(sql)]: [tsql_split_cache[segment.raw] = segment] for every such segment, in order (a Python dict:
      a later segment with the same raw text REPLACES the value, the position of the first insertion is kept), and
      the list of raw texts (with repetitions) is returned.  The analyzer object, hence the cache, is created afresh
      in every [_eval].  -> [split_tsql], [dict_set], [dict_get].
    - [analyze(sql)] with [sql in tsql_split_cache]: the statement segment is the cached one.  -> [analyze_cached].
      (When the text is NOT in the cache the implementation parses it again; the parser is not modelled, the model
      answers [Err ENotCached]; [TsqlSplitProofs.split_tsql_all_cached] shows that this branch is never taken by
      [run_tsql].)
    - [_eval]: [self._stmt = analyzer.split_tsql(sql)], then the statement loop over these texts -> [run_raws],
      [run_tsql]; the loop is the one of Tree/Script.v ([run_statements]) with the look-up in front of [analyze]. *)
From SV Require Export Tree.Script Tree.Render.

(** [segment.segments[0]] *)
Definition first_child (s : seg) : res seg := nth_res (children s) 0.

(** the body of the loop over [tree.segments] *)
Definition top_statements (top : seg) : res (list seg) :=
  if tyis top "statement" then (do x <- first_child top; Ok [x])
  else if tyis top "batch" then map_res first_child (get_children top ["statement"])
  else Ok [].

Fixpoint list_statements_tops (tops : list seg) : res (list seg) :=
  match tops with
  | [] => Ok []
  | t :: r => do here <- top_statements t; do rest <- list_statements_tops r; Ok (here ++ rest)
  end.

(** [_list_specific_statement_segment] on the parsed [file] tree *)
Definition list_statements (file : seg) : res (list seg) := list_statements_tops (children file).

(** for the harness: "type:raw|type:raw|..." of the returned segments *)
Definition show_list_statements (file : seg) : string :=
  match list_statements file with
  | Ok l => join "|" (map (fun s => (ty s ++ ":" ++ raw s)%string) l)
  | Err x => ("ERR:" ++ x)%string
  end.

(** Python dict with string keys, as an association list in insertion order: [d[k] = v] *)
Fixpoint dict_set (k : string) (v : seg) (d : list (string * seg)) : list (string * seg) :=
  match d with
  | [] => [(k, v)]
  | (k', v') :: r => if String.eqb k' k then (k', v) :: r else (k', v') :: dict_set k v r
  end.
(** [d.get(k)] *)
Fixpoint dict_get (k : string) (d : list (string * seg)) : option seg :=
  match d with
  | [] => None
  | (k', v') :: r => if String.eqb k' k then Some v' else dict_get k r
  end.

(** the loop of [split_tsql] on the cache *)
Definition build_cache (segs : list seg) (d0 : list (string * seg)) : list (string * seg) :=
  fold_left (fun d s => dict_set (raw s) s d) segs d0.

(** [split_tsql]: the raw texts in order, and the cache (empty before: a new analyzer per [_eval]) *)
Definition split_tsql (file : seg) : res (list string * list (string * seg)) :=
  do segs <- list_statements file;
  Ok (map raw segs, build_cache segs []).

Definition ENotCached := "NotCached".

(** [analyze(sql, provider)] for a text of the cache *)
Definition analyze_cached (e : env) (silent : bool) (cache : list (string * seg)) (sql : string) : res graph :=
  match dict_get sql cache with
  | Some s => analyze e silent s
  | None => Err ENotCached
  end.

(** the statement loop of [_eval] over the texts returned by [split_tsql] (cf. [run_statements]) *)
Fixpoint run_raws (e : env) (silent : bool) (base : list (string * list string)) (cache : list (string * seg))
         (sqls : list string) (session : list (string * list string)) (acc : list graph)
  : res (list graph * list (string * list string)) :=
  match sqls with
  | [] => Ok (rev acc, session)
  | q :: r =>
      do g <- analyze_cached (with_cols e (view_cols session base)) silent cache q;
      let session' := match registration g with Some kv => kv :: session | None => session end in
      run_raws e silent base cache r session' (g :: acc)
  end.

Definition run_tsql (e : env) (silent : bool) (base : list (string * list string)) (file : seg)
  : res (list graph * list (string * list string)) :=
  do sc <- split_tsql file;
  run_raws e silent base (snd sc) (fst sc) [] [].

(** same printed form as [show_script] *)
Definition show_tsql_script (e : env) (silent : bool) (base : list (string * list string)) (file : seg) : string :=
  match run_tsql e silent base file with
  | Err x => "ERR:" ++ x
  | Ok (gs, session) =>
      join "$" (map show_graph gs) ++ "%" ++
      show_all {| p_truthy := p_truthy (e_provider e); p_cols := view_cols session base |} (map holder_of gs)
  end.

(** * How the tsql / ansi parsers lay out a whole script (checked against sqlfluff 4.3.0)

    tsql, no semicolons:   file[ batch[ statement[S1] trivia statement[S2] ... ] trivia end_of_file ]
    tsql, semicolons:      file[ batch[ statement[S1] trivia ; trivia statement[S2] trivia ; ] trivia end_of_file ]
    tsql, GO:              file[ batch[ statement[..] trivia .. go_statement[GO] ] trivia batch[ .. ] trivia end_of_file ]
    ansi, semicolons:      file[ statement[S1] trivia ; trivia statement[S2] trivia ; trivia end_of_file ]
    (comments in front of the first statement are children of [file]) *)
Definition stmt_wrap (x : seg) : seg := node "statement" ["statement"] [x].
Definition terminator : seg := sym "statement_terminator" ";".
Definition eof : seg := Seg "end_of_file" "end_of_file" ["end_of_file"; "meta"; "raw"] "" false false true [].
Definition go_stmt : seg := node "go_statement" ["go_statement"] [kw "GO"].

Section Files.
  Variable noise : list seg.

  (** statement segments in a batch, without semicolons *)
  Definition r_batch (xs : list seg) : seg := node "batch" ["batch"] (sep noise (map stmt_wrap xs)).
  (** statement segments each followed by a terminator *)
  Definition with_semis (xs : list seg) : list seg :=
    flat_map (fun x => stmt_wrap x :: noise ++ terminator :: noise) xs.
  Definition r_batch_semi (xs : list seg) : seg := node "batch" ["batch"] (with_semis xs).
  (** a batch closed by GO *)
  Definition r_batch_go (xs : list seg) : seg :=
    node "batch" ["batch"] (sep noise (map stmt_wrap xs ++ [go_stmt])).

  Definition r_file_tsql_segs (xs : list seg) : seg := node "file" ["file"] (noise ++ r_batch xs :: noise ++ [eof]).
  Definition r_file_tsql_semi_segs (xs : list seg) : seg := node "file" ["file"] (noise ++ r_batch_semi xs :: noise ++ [eof]).
  Definition r_file_tsql_go_segs (bs : list (list seg)) : seg :=
    node "file" ["file"] (noise ++ flat_map (fun xs => r_batch_go xs :: noise) bs ++ [eof]).
  Definition r_file_ansi_segs (xs : list seg) : seg := node "file" ["file"] (noise ++ with_semis xs ++ [eof]).

  (** the same on the abstract syntax of Ast/Spec.v *)
  Definition r_file_tsql (ss : list stmt) : seg := r_file_tsql_segs (map (r_stmt noise) ss).
  Definition r_file_tsql_semi (ss : list stmt) : seg := r_file_tsql_semi_segs (map (r_stmt noise) ss).
  Definition r_file_tsql_go (bs : list (list stmt)) : seg := r_file_tsql_go_segs (map (map (r_stmt noise)) bs).
  Definition r_file_ansi (ss : list stmt) : seg := r_file_ansi_segs (map (r_stmt noise) ss).
End Files.

(** A general description of a [file] tree: top-level children are statements, batches or anything else;
    batch children are statements or anything that is not of class [statement]. *)
Inductive bitem := BStmt (x : seg) | BOther (o : seg).
Inductive titem := TStmt (x : seg) | TBatch (items : list bitem) | TOther (o : seg).

Definition r_bitem (b : bitem) : seg := match b with BStmt x => stmt_wrap x | BOther o => o end.
Definition r_titem (t : titem) : seg :=
  match t with
  | TStmt x => stmt_wrap x
  | TBatch items => node "batch" ["batch"] (map r_bitem items)
  | TOther o => o
  end.
Definition r_layout (l : list titem) : seg := node "file" ["file"] (map r_titem l).

Definition bitem_stmts (b : bitem) : list seg := match b with BStmt x => [x] | BOther _ => [] end.
Definition titem_stmts (t : titem) : list seg :=
  match t with TStmt x => [x] | TBatch items => flat_map bitem_stmts items | TOther _ => [] end.
Definition layout_stmts (l : list titem) : list seg := flat_map titem_stmts l.

Definition bitem_ok (b : bitem) : bool := match b with BStmt _ => true | BOther o => negb (is_type o ["statement"]) end.
Definition titem_ok (t : titem) : bool :=
  match t with
  | TStmt _ => true
  | TBatch items => forallb bitem_ok items
  | TOther o => negb (tyis o "statement") && negb (tyis o "batch")
  end.
Definition layout_ok (l : list titem) : bool := forallb titem_ok l.
