(** Lemma B (columns) for SELECT items INTO t FROM base tables (postgres layout of Tree/RenderDml.v): the reported pairs
    are those of CREATE TABLE t AS SELECT items FROM ...  The holder is the one of the SELECT itself
    ([handle_select_into] records the target before the FROM clause is read), not composed into a wrapper holder. *)
From Coq Require Import Lia.
From SV Require Import Ast.SpecDmlCols Tree.RenderDml Tree.LemmaA Tree.LemmaAProofs Tree.LemmaADmlDefs Tree.LemmaADml
     Tree.LemmaB Tree.LemmaBProofs Tree.LemmaBDml Ident.Escape Ident.EscapeProofs.

Section NavI.
Variable noise : list seg.
Hypothesis Hnoise : noise_ok noise = true.
Variable e : env.
Hypothesis Henv : env_ok e = true.

Lemma handle_child_into_exact f st t :
  tref_ok t = true ->
  handle_child f e st (r_into noise t) =
  Ok {| s_g := add_write (s_g st) (tbl e t None); s_tables := s_tables st; s_columns := s_columns st; s_barriers := s_barriers st |}.
Proof.
  intros Ht. unfold handle_child. rewrite (swap_partition_off e Henv). unfold handle_select_into.
  change (ty_in (r_into noise t) ["into_table_clause"; "into_clause"]) with true. cbn iota. rewrite (fti_into noise Hnoise).
  unfold find_table. change (ty_in (r_tref t) ["table_reference"; "object_reference"]) with true. cbn iota.
  rewrite (table_of_seg_exact e Henv t None Ht I).
  unfold list_tables. change (ty_in (r_into noise t) ["from_clause"; "join_clause"; "update_statement"]) with false. cbn iota.
  change (tyis (r_into noise t) "select_clause") with false. cbn iota. rewrite !app_nil_r. reflexivity.
Qed.

Lemma analyze_select_into t items from cj :
  tref_ok t = true -> forallb item_ok items = true -> from <> [] -> forallb rel_ok from = true ->
  analyze e false (r_dml noise (DSelectInto t items from cj None)) =
  (do g2 <- end_of_query_cleanup e (add_write empty_graph (tbl e t None)) (map (tbl_of e) from) (map xcol_of items) [];
   expand_wildcard e g2).
Proof.
  intros Ht Hit Hne Hrel. set (k := q_size (QSelect items from cj None)).
  assert (Hrt : forallb is_rtable from = true).
  { rewrite forallb_forall in *. intros r Hr. apply rel_ok_table. apply Hrel. exact Hr. }
  set (L := [r_sc noise items; r_into noise t; r_fc noise k from cj]).
  set (stmt := node "select_statement" ["select_statement"] (sep noise L)).
  assert (Es : r_dml noise (DSelectInto t items from cj None) = stmt) by reflexivity. rewrite Es.
  assert (Ea : analyze e false stmt = extract (S (S (3 * depth stmt + 8))) e XSelect stmt empty_ctx).
  { replace (S (S (3 * depth stmt + 8))) with (3 * depth stmt + 10) by lia. reflexivity. }
  assert (Eseg : sel_segments stmt = L).
  { unfold sel_segments. change (tyis stmt "set_expression") with false. cbn iota. unfold stmt.
    rewrite (lcs_node noise Hnoise) by reflexivity. reflexivity. }
  rewrite Ea, extract_select_eq, Eseg. clearbody stmt. generalize (3 * depth stmt + 8). intros f.
  unfold sel_subqueries, L. cbn [map concat_res].
  rewrite (sel_subq1_sc noise Hnoise items Hit), (sel_subq1_into noise Hnoise), (sel_subq1_fc_tables noise Hnoise k from cj Hne Hrt).
  cbn [app ex_subquery fold_left]. change (init_holder empty_ctx) with empty_graph.
  unfold sel_fold. cbn [fold_left]. unfold sel_step.
  rewrite (handle_child_sc_exact noise Hnoise e Henv f _ items Hit), (ise_sc noise Hnoise).
  rewrite (handle_child_into_exact (S f) _ t Ht), (ise_into noise Hnoise). cbn [s_g s_tables s_columns s_barriers app].
  rewrite (handle_child_fc noise e Henv). cbn [s_g s_tables s_columns s_barriers app].
  rewrite (list_tables_exact noise Hnoise e Henv k from cj (add_write empty_graph (tbl e t None)) Hne Hrel eq_refl), (ise_fc noise Hnoise).
  cbn [s_g s_tables s_columns s_barriers]. reflexivity.
Qed.
End NavI.

(** the model side (cf. [model_pairs_select] for the CTAS) *)
Theorem model_pairs_select_into noise e t items from cj :
  noise_ok noise = true -> env_ok e = true ->
  tref_ok t = true -> forallb item_ok items = true -> from <> [] -> forallb rel_ok from = true ->
  let d := tbl e t None in let ts := map (tbl_of e) from in let xs := map xcol_of items in
  group_ok d ts -> ts_inj ts -> names_nodot ts -> (forall x, In x xs -> xref_ok ts x) -> noqual ts xs ->
  script_pairs e false [] [r_dml noise (DSelectInto t items from cj None)] =
  uniq_sorted (sort_strings (map flow_str (flows_of (S_of ts) (own_pairs d xs)))).
Proof.
  intros Hn He Ht Hit Hne Hrel d ts xs Hgo Hinj Hnd Hxs Hnq.
  set (e' := with_cols e (view_cols [] [])).
  assert (He' : env_ok e' = true) by exact He.
  assert (Hp : p_truthy (e_provider e') = false) by exact (proj1 (env_facts e' He')).
  assert (Hdo : Forall data_ok ts).
  { apply Forall_forall. intros v Hv. unfold data_ok. rewrite (go_tables _ _ Hgo v Hv).
    apply in_map_iff in Hv. destruct Hv as (r & <- & _). destruct r; reflexivity. }
  pose proof (analyze_select_into noise Hn e' He' t items from cj Ht Hit Hne Hrel) as Ea.
  change (tbl e' t None) with d in Ea. change (map (tbl_of e') from) with ts in Ea. fold xs in Ea.
  set (NM := unres_names ts xs).
  destruct (select_core (PC4 ts NM) e' d ts xs (S_of ts) Hp Hgo Hdo eq_refl (fun c Hc => PC4_qk d ts NM c Hgo Hinj Hc)) as (sub & Esub & Xsub & Isub).
  - intros g2 Hinv x Hx. apply (HS_of (PC4 ts NM) e' d ts g2 x Hgo Hinj Hnd Hinv (Hxs x Hx)).
  - intros x Hx. destruct (S_of_props d ts xs x Hgo Hinj eq_refl Hx (Hxs x Hx)) as (A1 & A2 & A3 & A4 & _). auto.
  - rewrite Esub in Ea.
    assert (Hop : forall p0, In p0 (own_pairs d xs) -> In (fst p0) xs /\ snd p0 = own_col d (fst p0)).
    { intros p0 Hp0. unfold own_pairs in Hp0. apply in_map_iff in Hp0. destruct Hp0 as (x & <- & Hx). auto. }
    destruct (holder_realises_ext d ts NM (own_pairs d xs) (S_of ts) (add_write empty_graph d) sub Hgo Hinj eq_refl) as (C1 & C2 & C3 & C4);
      [| | |reflexivity|reflexivity|exact Xsub|exact Isub|].
    + intros p0 Hp0. destruct (Hop p0 Hp0) as [Hx Ep].
      destruct (S_of_props d ts xs (fst p0) Hgo Hinj eq_refl Hx (Hxs _ Hx)) as (A1 & _ & _ & _ & A5). split; [|exact A5].
      rewrite Ep, (own_col_eq d _ A1). eexists. reflexivity.
    + intros nm Hnm. unfold NM, unres_names in Hnm.
      assert (Hns : forall (A : Type) (f : dataset -> A) (g : A), In nm (match ts with [_] => [] | _ => [nm] end) -> match ts with [d1] => f d1 | _ => g end = g).
      { intros A f g. destruct ts as [|a [|b r]]; [reflexivity|intros []|reflexivity]. }
      assert (Hin : In nm (flat_map (fun x => match xsrc x with [(c, None)] => [c] | _ => [] end) xs) /\ In nm (match ts with [_] => [] | _ => [nm] end)).
      { destruct ts as [|a [|b r]]; [split; [exact Hnm|left; reflexivity]|destruct Hnm|split; [exact Hnm|left; reflexivity]]. }
      destruct Hin as [Hin Hsh]. apply in_flat_map in Hin. destruct Hin as (x & Hx & Hin). exists (x, own_col d x).
      split; [unfold own_pairs; apply in_map_iff; exists x; auto|]. cbn [fst].
      unfold S_of. destruct (xsrc x) as [|[c qq] rest]; [destruct Hin|]. destruct qq as [q|]; [destruct Hin|].
      destruct rest as [|p r]; [|destruct Hin]. destruct Hin as [->|[]].
      rewrite (Hns _ _ _ Hsh). left. reflexivity.
    + intros p' s' nm v Hnm Hp' Hs' Ev. destruct (Hop p' Hp') as [Hx' _]. set (x' := fst p') in *. unfold NM, unres_names in Hnm.
      assert (Hm : In nm (flat_map (fun x => match xsrc x with [(c, None)] => [c] | _ => [] end) xs) /\ (forall d1, ts <> [d1])).
      { destruct ts as [|a [|b r]]; [split; [exact Hnm|discriminate]|destruct Hnm|split; [exact Hnm|discriminate]]. }
      destruct Hm as [Hin Hns]. apply in_flat_map in Hin. destruct Hin as (x & Hx & Hin).
      destruct (Hxs x Hx) as (_ & c & qq & Ex & _ & Hq). rewrite Ex in Hin. destruct qq as [q|]; [destruct Hin|]. destruct Hin as [->|[]].
      destruct Hq as [(d1 & Ed)|[Hmul _]]; [exfalso; exact (Hns d1 Ed)|].
      destruct (Hxs x' Hx') as (_ & c' & qq' & Ex' & _ & Hq'). unfold S_of in Hs'. rewrite Ex' in Hs'. destruct qq' as [q'|].
      * destruct Hq' as (v' & Hv' & Eq' & Hu'). rewrite (find_dalias ts q' v' Hv' Eq' (fun w Hw E => Hu' w Hw (or_introl E))) in Hs'.
        destruct Hs' as [<-|[]]. cbn [craw]. apply (Hnq x x' nm c' q' Hx Hx' Ex Ex' Hmul).
      * rewrite (multi_not_single ts _ _ _ Hmul) in Hs'. destruct Hs' as [<-|[]].
        destruct (Ucol_props ts c' Hinj) as (_ & _ & U3). destruct Hmul as (a & b & Ha & Hb & Hab).
        pose proof (two_members _ a b (proj2 (U3 a) Ha) (proj2 (U3 b) Hb) Hab) as Hl. rewrite Ev in Hl. cbn in Hl. lia.
    + apply (script_pairs_of_holder e _ _ _ Ea (proj1 (env_facts e He)) C1 C2 C3 C4).
Qed.

(** SELECT ... INTO reports the pairs of the CTAS with the same select, under the guards of [lemma_B_tables_colshape] for that CTAS *)
Theorem lemma_B_select_into : forall noise e t items from cj,
  noise_ok noise = true -> env_ok e = true ->
  let s := SCtas t (QSelect items from cj None) in
  stmt_ok s = true -> sshape s = true -> colshape s = true -> sel_tables_syntactic s = true ->
  script_pairs e false [] [r_dml noise (DSelectInto t items from cj None)] = spec_pairs (e_cfg e) s.
Proof.
  intros noise e t items from cj Hn He s Hok Hss Hc Hsh.
  rewrite <- (lemma_B_tables_colshape noise e s Hn He Hok Hss Hc Hsh).
  cbn [sel_tables_syntactic s] in Hsh. apply andb_true_iff in Hsh. destruct Hsh as [Hrt Hd].
  cbn [stmt_ok s] in Hok. destruct (stmt_ok_select t items from cj Hok Hrt) as (Ht & Hit & Hne & Hrel).
  destruct (colshape_tables (e_cfg e) s t items from cj (or_intror (or_introl eq_refl)) Hc Ht Hne Hrel Hit Hd) as (Htc & Hic & Hnq).
  rewrite (model_pairs_select_into noise e t items from cj Hn He Ht Hit Hne Hrel (group_ok_of e t from Hrel Htc)
             (ts_inj_of e t from Hrel Htc) (names_nodot_of e from Hrel)
             (xref_ok_of e t from items Hrel Hit Htc Hic) (noqual_of e from items Hit Hnq)).
  symmetry.
  apply (model_pairs_select noise e s t items from cj Hn He (or_intror (or_introl eq_refl)) Ht Hit Hne Hrel (group_ok_of e t from Hrel Htc)
             (ts_inj_of e t from Hrel Htc) (names_nodot_of e from Hrel)
             (xref_ok_of e t from items Hrel Hit Htc Hic) (noqual_of e from items Hit Hnq)).
Qed.
Print Assumptions lemma_B_select_into.

(** the same pairs are the specification of the SELECT ... INTO itself ([dml_pairs] of Ast/SpecDmlCols.v) *)
Lemma dml_pairs_into ds t items from cj : dml_pairs ds (DSelectInto t items from cj None) = spec_pairs ds (SCtas t (QSelect items from cj None)).
Proof. reflexivity. Qed.

Definition into_ex : dml :=
  DSelectInto (Some "s", "t2") [IExpr (EColRef (Some "p") "a") None; IExpr (EColRef (Some "v") "b") (Some "z"); IStar (Some "p"); IExpr (EColRef None "k") None]
              [RTable (None, "u") (Some "p"); RTable (None, "v") None] true None.
Definition into_ctas : stmt :=
  SCtas (Some "s", "t2") (QSelect [IExpr (EColRef (Some "p") "a") None; IExpr (EColRef (Some "v") "b") (Some "z"); IStar (Some "p"); IExpr (EColRef None "k") None]
                                  [RTable (None, "u") (Some "p"); RTable (None, "v") None] true None).
Example lemma_B_select_into_nonvacuous :
  noise_ok noise3 = true /\ env_ok e_dml = true /\
  stmt_ok into_ctas && sshape into_ctas && colshape into_ctas && sel_tables_syntactic into_ctas = true /\
  script_pairs e_dml false [] [r_dml noise3 into_ex] = spec_pairs "" into_ctas /\
  spec_pairs "" into_ctas = ["<default>.u.*>s.t2.*"; "<default>.u.a>s.t2.a"; "<default>.v.b>s.t2.z"; "k{<default>.u,<default>.v}>s.t2.k"].
Proof. vm_compute. repeat split; reflexivity. Qed.
