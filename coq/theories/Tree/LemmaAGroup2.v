(** Parenthesised join groups at table level: the FROM-clause navigation for [r_fc_g] (Tree/RenderGroup.v), JOIN-style FROM
    with two or more elements (the group as a JOIN operand - [from t1 join (t2 join t3 on ..) on ..] - or as the first element
    followed by JOINs), any number of elements, any trivia.

    PROVED: [list_tables_g] - the tables the extractor lists for such a FROM clause are exactly the base tables of the
      flattened relations ([rels_flat]) of the specification (CTE names excepted, [rel_reads]); with the ingredients
      [add_dataset_gfee] (the first member of a group is read WITHOUT its alias - harmless at table level, the reason of
      the column-level defect K-C02-6), [list_subqueries_gfee] / [is_subquery_gbrk] (the bracket of a group is not a
      sub-query), [fc_facts] (one from_expression; its first from_expression_element; ALL join clauses, also those inside
      the groups, are found by the recursive crawl), [Jstep_joinc].
    NOT PROVED: [lemma_A_group_guarded_statement] itself.  Missing: list_subquery of the FROM clause = Ok [] (from
      [list_subqueries_gfee] and [fc_facts] in the same way), then the assembly as in [select_tables_extract_x] /
      [select_tail] and the wrappers [insert_g] / [create_g] of Tree/LemmaAChain.v; and the layout of a group as the only
      FROM element ([fe_of]). *)
From Coq Require Import Lia.
From SV Require Import Tree.Render Tree.RenderExpr Tree.RenderGroup Tree.ExprItem Tree.LemmaA Tree.LemmaAProofs Tree.LemmaB Tree.LemmaBProofs Tree.LemmaBExpr Tree.LemmaAExpr
     Tree.LemmaAChain Tree.LemmaAGroup Ident.Escape.
From SV Require TriviaProofs.

Section NavG.
Variable noise : list seg.
Hypothesis Hnoise : noise_ok noise = true.
Variable e : env.
Hypothesis Henv : env_ok e = true.

Notation JC := ["join_clause"].
Notation FEE := ["from_expression_element"].

Lemma fee_tbl_rel t al : fee_tbl noise t al = r_rel noise 0 (RTable t al).
Proof. destruct al; reflexivity. Qed.

Definition gfee (ta : tref) (aa : option string) (tb : tref) (ab : option string) : seg :=
  node "from_expression_element" ["from_expression_element"]
       [node "bracketed" ["bracketed"] (sep noise (lpar :: r_tbl noise ta aa ++ [joinc noise (fee_tbl noise tb ab); rpar]))].

Lemma fee_of_group ta aa tb ab : fee_of noise (RGroup (RTable ta aa) (RTable tb ab)) = gfee ta aa tb ab.
Proof. reflexivity. Qed.

(** ** join clauses *)
Lemma crawl_jc_fee_tbl t al : crawl JC true (fee_tbl noise t al) = [].
Proof. rewrite fee_tbl_rel. apply clean_crawl. apply (clean_rel_table noise Hnoise); reflexivity. Qed.

Lemma crawl_jc_joinc x : crawl JC true (joinc noise x) = joinc noise x :: crawl JC true x.
Proof.
  unfold joinc at 1. rewrite (crawl_node_hit noise Hnoise) by reflexivity. fold (joinc noise x). f_equal. cbn [flat_map].
  change (crawl JC true (kw "join")) with (@nil seg). rewrite (clean_crawl JC true (on_clause noise)) by (apply (clean_on_clause noise Hnoise); reflexivity).
  cbn [app]. rewrite app_nil_r. reflexivity.
Qed.

Lemma clean_r_tbl ts t al :
  not_trivia ts = true ->
  existsb (fun x => mem_string x ts)
    ["from_expression_element"; "table_expression"; "object_reference"; "table_reference"; "identifier"; "naked_identifier"; "raw";
     "dot"; "symbol"; "alias_expression"; "alias_operator"; "keyword"; "word"] = false ->
  Forall (clean ts) (r_tbl noise t al).
Proof.
  intros Hts H. pose proof (clean_rel_table noise Hnoise ts 0 t al Hts H) as Hc. rewrite <- fee_tbl_rel in Hc.
  apply Forall_forall. intros x Hx. apply (clean_child ts _ x Hc). unfold fee_tbl. cbn [children node]. apply (In_sep noise). exact Hx.
Qed.

Lemma crawl_jc_gfee ta aa tb ab : crawl JC true (gfee ta aa tb ab) = [joinc noise (fee_tbl noise tb ab)].
Proof.
  unfold gfee. rewrite crawl_node0_miss by reflexivity. cbn [flat_map]. rewrite (crawl_node_miss noise Hnoise) by reflexivity.
  cbn [flat_map]. rewrite flat_map_app. cbn [flat_map]. change (crawl JC true lpar) with (@nil seg). change (crawl JC true rpar) with (@nil seg).
  rewrite (flat_map_none (crawl JC true) (r_tbl noise ta aa)).
  - rewrite crawl_jc_joinc, crawl_jc_fee_tbl. reflexivity.
  - intros x Hx. apply clean_crawl. pose proof (clean_r_tbl JC ta aa eq_refl eq_refl) as Hc. rewrite Forall_forall in Hc. apply Hc. exact Hx.
Qed.

Definition inner_jcs (r : rel) : list seg :=
  match r with RGroup (RTable _ _) (RTable tb ab) => [joinc noise (fee_tbl noise tb ab)] | _ => [] end.

Lemma crawl_jc_fee_of r : group_flat r = true -> crawl JC true (fee_of noise r) = inner_jcs r.
Proof.
  destruct r as [t al| |[ta aa| |] [tb ab| |]]; try discriminate; intros _.
  - apply crawl_jc_fee_tbl.
  - apply crawl_jc_gfee.
Qed.

(** ** the first from_expression_element *)
Lemma hd_crawl_fee_node l : exists tl, crawl FEE true (node "from_expression_element" FEE l) = node "from_expression_element" FEE l :: tl.
Proof. rewrite TriviaProofs.crawl_eq. eexists. reflexivity. Qed.

Lemma fee_of_is_node r : exists l, fee_of noise r = node "from_expression_element" FEE l.
Proof. destruct r as [t al| |[ta aa| |] [tb ab| |]]; eexists; reflexivity. Qed.

Lemma ffee_joinc r : find_from_expression_element (joinc noise (fee_of noise r)) = Some (fee_of noise r).
Proof.
  unfold find_from_expression_element, joinc. rewrite (crawl_node_miss noise Hnoise) by reflexivity. cbn [flat_map].
  change (crawl FEE true (kw "join")) with (@nil seg). cbn [app]. destruct (fee_of_is_node r) as (l & ->).
  destruct (hd_crawl_fee_node l) as (tl & ->). reflexivity.
Qed.

Lemma ffee_joinc_tbl t al : find_from_expression_element (joinc noise (fee_tbl noise t al)) = Some (fee_tbl noise t al).
Proof. apply (ffee_joinc (RTable t al)). Qed.

(** ** what the extractor reads off one from_expression_element *)
Lemma add_dataset_tbl t al g ctes :
  tref_ok t = true -> match al with Some a => id_ok a = true | None => True end -> gok g -> cte_rel g ctes ->
  exists ds, add_dataset_from_fee e (fee_tbl noise t al) g = Ok ds /\ Forall data_ok ds /\
             forall x, tnames ds x <-> In x (rel_reads e ctes (RTable t al)).
Proof. intros Ht Ha Hg Hc. rewrite fee_tbl_rel. apply (add_dataset_table_spec noise Hnoise e Henv 0 t al g ctes Ht Ha Hg Hc). Qed.
End NavG.

Section NavG2.
Variable noise : list seg.
Hypothesis Hnoise : noise_ok noise = true.
Variable e : env.
Hypothesis Henv : env_ok e = true.

Notation B := ["bracketed"].

Definition gbrk (ta : tref) (aa : option string) (tb : tref) (ab : option string) : seg :=
  node "bracketed" ["bracketed"] (sep noise (lpar :: r_tbl noise ta aa ++ [joinc noise (fee_tbl noise tb ab); rpar])).

Lemma gbrk_brk ta aa tb ab : gbrk ta aa tb ab = brk noise (r_tbl noise ta aa ++ [joinc noise (fee_tbl noise tb ab)]).
Proof. unfold gbrk, brk. rewrite <- app_assoc. reflexivity. Qed.

Lemma member_te t : member_ok (te_of t).
Proof. repeat split; try reflexivity; try (intros H; discriminate H). Qed.
Lemma member_alias a : member_ok (r_alias noise a).
Proof.
  split; [unfold get_child, r_alias; rewrite (get_children_sep noise Hnoise) by reflexivity; reflexivity|].
  repeat split; try reflexivity; try (intros H; discriminate H).
Qed.
Lemma member_joinc t al : member_ok (joinc noise (fee_tbl noise t al)).
Proof.
  split; [unfold get_child, joinc; rewrite (get_children_sep noise Hnoise) by reflexivity; reflexivity|].
  repeat split; try reflexivity; try (intros H; discriminate H).
Qed.

Lemma is_subquery_gbrk ta aa tb ab : is_subquery (gbrk ta aa tb ab) = Ok false.
Proof.
  rewrite gbrk_brk. apply (is_subquery_brk noise Hnoise). apply Forall_app. split.
  - unfold r_tbl. constructor; [apply member_te|]. destruct aa; constructor; [apply member_alias|constructor].
  - constructor; [apply member_joinc|constructor].
Qed.

Lemma list_subqueries_gfee ta aa tb ab : list_subqueries (gfee noise ta aa tb ab) = Ok [].
Proof.
  change (list_subqueries (gfee noise ta aa tb ab)) with (list_subqueries_fee (gfee noise ta aa tb ab)).
  unfold list_subqueries_fee, extract_as_and_target_segment. unfold gfee at 1 2. rewrite !lcs_node0 by reflexivity.
  fold (gbrk ta aa tb ab). change (filter nn [gbrk ta aa tb ab]) with [gbrk ta aa tb ab]. cbn [nth_res nth_error].
  change (tyis (gbrk ta aa tb ab) "keyword") with false. cbn [andb]. rewrite is_subquery_gbrk.
  unfold gbrk at 1. cbn [children node sep nth_res nth_error]. reflexivity.
Qed.

Lemma fti_noise : forall n, Forall (fun x => noise_seg_ok x = true) n ->
  forall rest, fold_left (fun acc c => match acc with Some _ => acc | None => find_table_identifier c end) (n ++ rest) None =
               fold_left (fun acc c => match acc with Some _ => acc | None => find_table_identifier c end) rest None.
Proof.
  induction n as [|x n IH]; intros Hn rest; [reflexivity|]. inversion Hn as [|x0 n0 Hx Hn']. subst. cbn [app fold_left].
  assert (E : find_table_identifier x = None).
  { destruct x as [t g c r w cm mt ch]. cbn [find_table_identifier].
    rewrite (noise_ty_in _ ["table_reference"; "file_reference"; "object_reference"] Hx eq_refl).
    pose proof (proj1 (proj2 (noise_seg_facts _ Hx))) as Hch. cbn [children] in Hch. rewrite Hch. reflexivity. }
  rewrite E. apply IH. exact Hn'.
Qed.

Lemma fti_gfee ta aa tb ab : find_table_identifier (gfee noise ta aa tb ab) = Some (r_tref ta).
Proof.
  unfold gfee, node. cbn [find_table_identifier]. change (ty_in _ _) with false. cbn iota. cbn [fold_left].
  cbn [find_table_identifier]. change (ty_in _ _) with false. cbn iota. unfold r_tbl. cbn [app sep]. cbn [fold_left].
  change (find_table_identifier lpar) with (@None seg). cbn iota.
  rewrite (fti_noise noise (noise_all noise Hnoise)).
  destruct aa; cbn [app fold_left]; change (find_table_identifier (node "table_expression" ["table_expression"] [r_tref ta])) with (Some (r_tref ta)); apply fti_some.
Qed.

(** the first member of a group: its table, the alias is ignored *)
Lemma add_dataset_gfee ta aa tb ab g :
  tref_ok ta = true ->
  add_dataset_from_fee e (gfee noise ta aa tb ab) g = add_dataset_from_fee e (fee_tbl noise ta None) g.
Proof.
  intros Ht. rewrite (fee_tbl_rel noise ta None), (add_dataset_table noise Hnoise e 0 ta None g Ht I).
  unfold add_dataset_from_fee. unfold gfee at 1 2. rewrite !lcs_node0 by reflexivity. fold (gbrk ta aa tb ab).
  change (filter nn [gbrk ta aa tb ab]) with [gbrk ta aa tb ab]. change (filter _ [gbrk ta aa tb ab]) with [gbrk ta aa tb ab].
  change (get_child (node "from_expression_element" ["from_expression_element"] [gbrk ta aa tb ab]) ["table_expression"]) with (@None seg).
  cbn iota. cbn [nth_res nth_error]. change (tyis (gbrk ta aa tb ab) "bracketed") with true. cbn [andb].
  assert (Ete : get_child (gbrk ta aa tb ab) ["table_expression"] = Some (te_of ta)).
  { unfold get_child, gbrk. rewrite (get_children_sep noise Hnoise) by reflexivity. reflexivity. }
  rewrite Ete. change (get_child (te_of ta) ["values_clause"]) with (@None seg). cbn iota.
  fold (gfee noise ta aa tb ab). rewrite list_subqueries_gfee, fti_gfee.
  change (tyis (r_tref ta) "file_reference") with false. cbn iota.
  destruct ta as [[s|] name]; cbn [fst snd].
  - rewrite raw_tref_dotted. reflexivity.
  - rewrite raw_tref_bare. unfold tref_ok in Ht. cbn [fst snd] in Ht. rewrite andb_true_r in Ht. rewrite (id_ok_nodot name Ht).
    unfold cte_lookup. destruct (fold_left _ (sq_cte g) None) as [c|]; [|reflexivity]. destruct (dquery c); reflexivity.
Qed.

Lemma add_dataset_gfee_spec ta aa tb ab g ctes :
  tref_ok ta = true -> gok g -> cte_rel g ctes ->
  exists ds, add_dataset_from_fee e (gfee noise ta aa tb ab) g = Ok ds /\ Forall data_ok ds /\
             forall x, tnames ds x <-> In x (rel_reads e ctes (RTable ta aa)).
Proof.
  intros Ht Hg Hc. rewrite (add_dataset_gfee ta aa tb ab g Ht).
  destruct (add_dataset_tbl noise Hnoise e Henv ta None g ctes Ht I Hg Hc) as (ds & E & H1 & H2). exists ds. auto.
Qed.
End NavG2.

Section NavG3.
Variable noise : list seg.
Hypothesis Hnoise : noise_ok noise = true.
Variable e : env.
Hypothesis Henv : env_ok e = true.

Notation JC := ["join_clause"].
Notation FEE := ["from_expression_element"].

(** a JOIN-style FROM with two or more elements *)
Definition FEj (r0 r1 : rel) (rest : list rel) : seg :=
  node "from_expression" ["from_expression"] (sep noise (fee_of noise r0 :: map (fun r => joinc noise (fee_of noise r)) (r1 :: rest))).
Lemma r_fc_g_join r0 r1 rest :
  r_fc_g noise (r0 :: r1 :: rest) false = node "from_clause" ["from_clause"] (sep noise [kw "from"; FEj r0 r1 rest]).
Proof. reflexivity. Qed.

(** the from_expression_elements the extractor visits, with the table each stands for *)
Definition atoms_of (r : rel) : list (seg * rel) :=
  match r with
  | RGroup (RTable ta aa) (RTable tb ab) => [(gfee noise ta aa tb ab, RTable ta aa); (fee_tbl noise tb ab, RTable tb ab)]
  | _ => [(fee_of noise r, r)]
  end.
Definition jcs_of (r : rel) : list seg := joinc noise (fee_of noise r) :: inner_jcs noise r.

Definition rel_ok_g (r : rel) : bool := group_flat r && forallb rel_ok (rels_flat r).

Lemma crawl_jc_FEj r0 r1 rest :
  forallb group_flat (r0 :: r1 :: rest) = true ->
  crawl JC true (FEj r0 r1 rest) = inner_jcs noise r0 ++ flat_map jcs_of (r1 :: rest).
Proof.
  intros H. cbn [forallb] in H. apply andb_true_iff in H. destruct H as [H0 H].
  unfold FEj. rewrite (crawl_node_miss noise Hnoise) by reflexivity. cbn [flat_map]. rewrite (crawl_jc_fee_of noise Hnoise r0 H0). f_equal.
  assert (G : forall l, forallb group_flat l = true ->
              flat_map (crawl JC true) (map (fun r => joinc noise (fee_of noise r)) l) = flat_map jcs_of l).
  { induction l as [|r l IH]; intros Hl0; [reflexivity|]. cbn [forallb] in Hl0. apply andb_true_iff in Hl0. destruct Hl0 as [Hr Hl].
    cbn [map flat_map]. rewrite (crawl_jc_joinc noise Hnoise), (crawl_jc_fee_of noise Hnoise r Hr), (IH Hl). reflexivity. }
  apply G. exact H.
Qed.

Lemma fc_facts r0 r1 rest :
  forallb group_flat (r0 :: r1 :: rest) = true ->
  let fc := r_fc_g noise (r0 :: r1 :: rest) false in
  get_children fc ["from_expression"] = [FEj r0 r1 rest] /\
  find_from_expression_element fc = Some (fee_of noise r0) /\
  list_join_clause fc = inner_jcs noise r0 ++ flat_map jcs_of (r1 :: rest).
Proof.
  intros H fc. unfold fc. rewrite r_fc_g_join.
  assert (E1 : get_children (node "from_clause" ["from_clause"] (sep noise [kw "from"; FEj r0 r1 rest])) ["from_expression"] = [FEj r0 r1 rest]).
  { rewrite (get_children_sep noise Hnoise) by reflexivity. reflexivity. }
  split; [exact E1|]. split.
  - unfold find_from_expression_element. rewrite (crawl_node_miss noise Hnoise) by reflexivity. cbn [flat_map].
    change (crawl FEE true (kw "from")) with (@nil seg). cbn [app]. unfold FEj. rewrite (crawl_node_miss noise Hnoise) by reflexivity. cbn [flat_map].
    destruct (fee_of_is_node noise r0) as (l & ->). destruct (hd_crawl_fee_node l) as (tl & ->). reflexivity.
  - unfold list_join_clause. match goal with |- context [ty_in ?n ["from_clause"; "update_statement"]] => change (ty_in n ["from_clause"; "update_statement"]) with true end.
    cbn iota. unfold get_child at 1. rewrite E1.
    assert (E2 : get_child (FEj r0 r1 rest) JC = Some (joinc noise (fee_of noise r1))).
    { unfold get_child, FEj. rewrite (get_children_sep noise Hnoise) by reflexivity. cbn [filter map].
      assert (E0 : is_type (fee_of noise r0) JC = false) by (destruct (fee_of_is_node noise r0) as (l & ->); reflexivity). rewrite E0. reflexivity. }
    rewrite E2. cbn iota. rewrite (crawl_node_miss noise Hnoise) by reflexivity. cbn [flat_map]. change (crawl JC true (kw "from")) with (@nil seg).
    cbn [app]. rewrite app_nil_r. apply crawl_jc_FEj. exact H.
Qed.

Lemma atom_ok g ctes r :
  rel_ok_g r = true -> gok g -> cte_rel g ctes ->
  forall p, In p (atoms_of r) -> exists ds, add_dataset_from_fee e (fst p) g = Ok ds /\ Forall data_ok ds /\
                                  forall x, tnames ds x <-> In x (rel_reads e ctes (snd p)).
Proof.
  intros Hr Hg Hc p Hp. unfold rel_ok_g in Hr. apply andb_true_iff in Hr. destruct Hr as [Hf Hk].
  destruct r as [t al| |[ta aa| |] [tb ab| |]]; try discriminate; cbn [atoms_of rels_flat app forallb rel_ok] in *.
  - destruct Hp as [<-|[]]. rewrite andb_true_r in Hk. apply andb_true_iff in Hk. destruct Hk as [Ht Ha]. cbn [fst snd fee_of].
    apply (add_dataset_tbl noise Hnoise e Henv t al g ctes Ht); [destruct al; auto|exact Hg|exact Hc].
  - rewrite andb_true_r in Hk. apply andb_true_iff in Hk. destruct Hk as [Ka Kb]. apply andb_true_iff in Ka, Kb. destruct Ka as [Hta Haa], Kb as [Htb Hab].
    destruct Hp as [<-|[<-|[]]]; cbn [fst snd].
    + apply (add_dataset_gfee_spec noise Hnoise e Henv ta aa tb ab g ctes Hta Hg Hc).
    + apply (add_dataset_tbl noise Hnoise e Henv tb ab g ctes Htb); [destruct ab; auto|exact Hg|exact Hc].
Qed.
End NavG3.

Section NavG4.
Variable noise : list seg.
Hypothesis Hnoise : noise_ok noise = true.
Variable e : env.
Hypothesis Henv : env_ok e = true.

Definition Jstep (g : graph) (jc : seg) : res (list dataset) :=
  if ty_in jc ["from_clause"; "join_clause"; "update_statement"] then
    match get_children jc ["from_expression"] with
    | fe1 :: fe2 :: rest => concat_res (map (fun fe => list_tables_one e fe g) (fe1 :: fe2 :: rest))
    | _ => list_tables_one e jc g
    end
  else Ok [].

Lemma Jstep_joinc g r : Jstep g (joinc noise (fee_of noise r)) = add_dataset_from_fee e (fee_of noise r) g.
Proof.
  unfold Jstep. change (ty_in (joinc noise (fee_of noise r)) ["from_clause"; "join_clause"; "update_statement"]) with true. cbn iota.
  assert (E : get_children (joinc noise (fee_of noise r)) ["from_expression"] = []).
  { unfold joinc. rewrite (get_children_sep noise Hnoise) by reflexivity. destruct (fee_of_is_node noise r) as (l & ->). reflexivity. }
  rewrite E. unfold list_tables_one. rewrite (ffee_joinc noise Hnoise r). reflexivity.
Qed.

Lemma Jsteps g r :
  group_flat r = true ->
  map (Jstep g) (jcs_of noise r) = map (fun p => add_dataset_from_fee e (fst p) g) (atoms_of noise r) /\
  map (Jstep g) (inner_jcs noise r) = map (fun p => add_dataset_from_fee e (fst p) g) (tl (atoms_of noise r)) /\
  fst (hd (fee_of noise r, r) (atoms_of noise r)) = fee_of noise r.
Proof.
  destruct r as [t al| |[ta aa| |] [tb ab| |]]; try discriminate; intros _; cbn [jcs_of inner_jcs atoms_of map tl hd fst].
  - rewrite (Jstep_joinc g (RTable t al)). repeat split; reflexivity.
  - rewrite (Jstep_joinc g (RGroup (RTable ta aa) (RTable tb ab))). pose proof (Jstep_joinc g (RTable tb ab)) as E. cbn [fee_of] in E. rewrite E.
    repeat split; reflexivity.
Qed.

Theorem list_tables_g r0 r1 rest g ctes :
  forallb (rel_ok_g) (r0 :: r1 :: rest) = true -> gok g -> cte_rel g ctes ->
  exists ts, list_tables e (r_fc_g noise (r0 :: r1 :: rest) false) g = Ok ts /\ Forall data_ok ts /\
             forall x, tnames ts x <-> In x (flat_map (rel_reads e ctes) (flat_map rels_flat (r0 :: r1 :: rest))).
Proof.
  intros Hok Hg Hc.
  assert (Hfl : forallb group_flat (r0 :: r1 :: rest) = true).
  { revert Hok. apply forallb_impl. intros r _ H. unfold rel_ok_g in H. apply andb_true_iff in H. apply H. }
  destruct (fc_facts noise Hnoise r0 r1 rest Hfl) as (F1 & F2 & F3). cbv zeta in *.
  unfold list_tables. match goal with |- context [ty_in ?n ["from_clause"; "join_clause"; "update_statement"]] =>
    change (ty_in n ["from_clause"; "join_clause"; "update_statement"]) with true end. cbn iota.
  rewrite F1. unfold list_tables_one at 1. rewrite F2, F3. fold (Jstep g).
  set (A := fun p : seg * rel => add_dataset_from_fee e (fst p) g).
  assert (Eall : (do first <- add_dataset_from_fee e (fee_of noise r0) g;
                  do joins <- concat_res (map (Jstep g) (inner_jcs noise r0 ++ flat_map (jcs_of noise) (r1 :: rest))); Ok (first ++ joins)) =
                 concat_res (map A (flat_map (atoms_of noise) (r0 :: r1 :: rest)))).
  { assert (G : forall l, forallb group_flat l = true -> map (Jstep g) (flat_map (jcs_of noise) l) = map A (flat_map (atoms_of noise) l)).
    { induction l as [|r l IH]; intros Hl; [reflexivity|]. cbn [forallb] in Hl. apply andb_true_iff in Hl. destruct Hl as [Hr Hl].
      cbn [flat_map]. rewrite !map_app, (IH Hl), (proj1 (Jsteps g r Hr)). reflexivity. }
    cbn [forallb] in Hfl. apply andb_true_iff in Hfl. destruct Hfl as [H0 Hl]. destruct (Jsteps g r0 H0) as (_ & J2 & J3).
    rewrite map_app, J2, (G (r1 :: rest) Hl). cbn [flat_map]. rewrite <- map_app.
    destruct (atoms_of noise r0) as [|p0 tl0] eqn:Ea; [destruct r0 as [| |[| |] [| |]]; discriminate|]. cbn [hd tl fst] in *.
    cbn [app map concat_res]. unfold A. rewrite J3. reflexivity. }
  rewrite Eall.
  destruct (concat_res_tnames A (fun p => rel_reads e ctes (snd p)) (flat_map (atoms_of noise) (r0 :: r1 :: rest))) as (ts & E & Hd & Hx).
  { intros p Hp. apply in_flat_map in Hp. destruct Hp as (r & Hr & Hp). rewrite forallb_forall in Hok.
    apply (atom_ok noise Hnoise e Henv g ctes r (Hok r Hr) Hg Hc p Hp). }
  exists ts. split; [exact E|]. split; [exact Hd|]. intros x. rewrite Hx.
  assert (Er : forall l, forallb group_flat l = true ->
               flat_map (fun p => rel_reads e ctes (snd p)) (flat_map (atoms_of noise) l) = flat_map (rel_reads e ctes) (flat_map rels_flat l)).
  { induction l as [|r l IH]; intros Hl; [reflexivity|]. cbn [forallb] in Hl. apply andb_true_iff in Hl. destruct Hl as [Hr Hl].
    cbn [flat_map]. rewrite !flat_map_app, (IH Hl). f_equal. destruct r as [t al| |[ta aa| |] [tb ab| |]]; try discriminate; reflexivity. }
  rewrite (Er _ Hfl). reflexivity.
Qed.
End NavG4.
Print Assumptions list_tables_g.
