(** Lemma B, step 5a, continued.

    Part A  [lemma_B_wherein1_conds]: the theorem of LemmaB5a.v from conditions on the syntax stated as propositions
    Part B  these conditions follow from [colshape]: [lemma_B_wherein1_colshape], an instance of [lemma_B_statement] *)
From Coq Require Import Permutation.
From SV Require Import Tree.Render Tree.LemmaA Tree.LemmaAProofs Tree.LemmaB Tree.LemmaBProofs Tree.LemmaB5a Ident.Escape Ident.EscapeProofs
     Holder.PathProofs Holder.SortProofs.

(* ================================================================== *)
(** * Part A *)
Theorem lemma_B_wherein1_conds noise e (s : stmt) t items from cj c items' from' cj' :
  noise_ok noise = true -> env_ok e = true ->
  let q := QSelect items from cj (Some (c, QSelect items' from' cj' None)) in
  (s = SInsert t None q \/ s = SCtas t q \/ s = SView t q) ->
  tref_ok t = true -> forallb item_ok items = true -> from <> [] -> forallb rel_ok from = true ->
  forallb item_ok items' = true -> from' <> [] -> forallb rel_ok from' = true ->
  tables_cond (e_cfg e) t from -> items_cond from items -> noqual_items from items ->
  tables_cond (e_cfg e) t from' -> items_cond from' items' -> resolvedb from' items' = true ->
  items_leakb from from' items = true -> crossb from items items' = true ->
  script_pairs e false [] [r_stmt noise s] = spec_pairs (e_cfg e) s.
Proof.
  intros Hn He q Hs Ht Hit Hne Hrel Hit' Hne' Hrel' Ptc Pic Pnq Ptc' Pic' Hres Hlk Hcr.
  assert (Hrt : forallb is_rtable from = true).
  { rewrite forallb_forall in *. intros r Hr. apply rel_ok_table. apply Hrel. exact Hr. }
  rewrite (model_pairs_wherein1 noise e s t items from cj c items' from' cj' Hn He Hs Ht Hit Hne Hrel Hit' Hne' Hrel'
             (group_ok_of e t from Hrel Ptc) (ts_inj_of e t from Hrel Ptc) (names_nodot_of e from Hrel)).
  - unfold spec_pairs. rewrite (spec_strs_select_w (e_cfg e) s t items from cj _ Hs Hrt).
    f_equal. f_equal. unfold flows_of, own_pairs. rewrite !flat_map_map', map_flat_map'. cbn [fst snd]. apply flat_map_ext_in'. intros i Hi.
    symmetry. apply item_corr; [exact Hrel| |exact Ptc|exact (Pic i Hi)]. rewrite forallb_forall in Hit. apply Hit. exact Hi.
  - rewrite (map_dstr_tbl e from Hrel). exact (proj1 Ptc).
  - exact (ts_inj_of e t from' Hrel' Ptc').
  - exact (names_nodot_of e from' Hrel').
  - intros v' Hv'. exact (go_target _ _ (group_ok_of e t from' Hrel' Ptc') v' Hv').
  - exact (xref_ok_f_of e t from from' items Hrel Hrel' Hit Ptc Pic Hlk).
  - exact (noqual_of e from items Hit Pnq).
  - exact (xref_ok_f_resolved e t from' items' Hrel' Hit' Ptc' Pic' Hres).
  - intros nm x' c0 qq Hnm Hx' Exs Ec. subst c0.
    destruct (unres_names_in e from items nm Hne Hit Hnm) as (Hl & i & Hi & Ei).
    apply in_map_iff in Hx'. destruct Hx' as (i' & <- & Hi'). rewrite forallb_forall in Hit'.
    destruct (xcol_of_facts i' (Hit' i' Hi')) as (_ & F2 & _). rewrite F2 in Exs. inversion Exs as [Eref].
    unfold crossb in Hcr. apply orb_true_iff in Hcr. destruct Hcr as [Hcr|Hcr].
    + apply negb_true_iff in Hcr. apply Nat.leb_gt in Hcr. lia.
    + rewrite forallb_forall in Hcr. specialize (Hcr i Hi). rewrite Ei in Hcr. cbn [fst snd] in Hcr.
      rewrite forallb_forall in Hcr. specialize (Hcr i' Hi'). rewrite Eref in Hcr. cbn [fst] in Hcr. rewrite String.eqb_refl in Hcr. discriminate.
Qed.

(* ================================================================== *)
(** * Part B: from [colshape] *)

(** ** one-step equations *)
Definition sce (r : rel) : sc_entry :=
  match r with RTable t al => (al, Some t) | RDerived _ a => (Some a, None) | RGroup _ _ => (None, None) end.

Lemma scopes_select k items from cj wh :
  scopes (S k) (QSelect items from cj wh) =
  let w := match wh with Some (_, sq) => scopes k sq | None => ([], []) end in
  let sc' := map sce (flat_map rels_flat from) ++ map (fun d => (@None string, d)) (snd w) in
  (flat_map (fun r => match r with RDerived q' _ => fst (scopes k q') | _ => [] end) (flat_map rels_flat from) ++ [sc'] ++ fst w, map snd sc').
Proof. reflexivity. Qed.

Lemma scopes_tables k items from cj :
  forallb is_rtable from = true -> scopes (S k) (QSelect items from cj None) = ([map sce from], map snd (map sce from)).
Proof.
  intros Hrt. rewrite scopes_select. cbv zeta. cbn [snd fst map]. rewrite (rels_flat_tables from Hrt), !app_nil_r.
  rewrite (flat_map_none _ from); [reflexivity|]. intros r Hr. rewrite forallb_forall in Hrt. specialize (Hrt r Hr). destruct r; try discriminate. reflexivity.
Qed.

Lemma scopes_wherein1 k items from cj c items' from' cj' :
  forallb is_rtable from = true -> forallb is_rtable from' = true ->
  fst (scopes (S (S k)) (QSelect items from cj (Some (c, QSelect items' from' cj' None)))) =
  [map sce from ++ map (fun d => (@None string, d)) (map snd (map sce from')); map sce from'].
Proof.
  intros Hrt Hrt'. rewrite scopes_select. cbv zeta. rewrite (scopes_tables k items' from' cj' Hrt'). cbn [fst snd].
  rewrite (rels_flat_tables from Hrt). rewrite (flat_map_none _ from); [reflexivity|].
  intros r Hr. rewrite forallb_forall in Hrt. specialize (Hrt r Hr). destruct r; try discriminate. reflexivity.
Qed.

Lemma trefs_tables (F : query -> list tref) from :
  forallb is_rtable from = true ->
  flat_map (fun r => match r with RTable t _ => [t] | RDerived q' _ => F q' | RGroup _ _ => [] end) from = map rtref from.
Proof.
  induction from as [|r l IH]; [reflexivity|]. cbn [forallb]. intros H. apply andb_true_iff in H. destruct H as [H1 H2].
  destruct r; try discriminate. cbn [flat_map map rtref app]. rewrite (IH H2). reflexivity.
Qed.

Lemma q_trefs_wherein1 k items from cj c items' from' cj' :
  forallb is_rtable from = true -> forallb is_rtable from' = true ->
  q_trefs (S (S k)) (QSelect items from cj (Some (c, QSelect items' from' cj' None))) = map rtref from ++ map rtref from'.
Proof.
  intros Hrt Hrt'. cbn [q_trefs]. rewrite (rels_flat_tables from Hrt), (rels_flat_tables from' Hrt'), app_nil_r.
  rewrite (trefs_tables _ from Hrt), (trefs_tables _ from' Hrt'). reflexivity.
Qed.

Lemma derived_none {B} (F : query -> list B) from :
  forallb is_rtable from = true -> flat_map (fun r => match r with RDerived q' _ => F q' | _ => [] end) from = [].
Proof.
  intros Hrt. apply flat_map_none. intros r Hr. rewrite forallb_forall in Hrt. specialize (Hrt r Hr). destruct r; try discriminate. reflexivity.
Qed.

Lemma q_refnames_wherein1 k items from cj c items' from' cj' :
  forallb is_rtable from = true -> forallb is_rtable from' = true ->
  q_refnames (S (S k)) (QSelect items from cj (Some (c, QSelect items' from' cj' None))) =
  map snd (flat_map item_refs items) ++ map snd (flat_map item_refs items').
Proof.
  intros Hrt Hrt'. cbn [q_refnames]. rewrite (rels_flat_tables from Hrt), (rels_flat_tables from' Hrt').
  rewrite (derived_none _ from Hrt), (derived_none _ from' Hrt'). cbn [app]. rewrite !app_nil_r. reflexivity.
Qed.

(** ** the items of one scope over base tables, when the names of other scopes are counted too *)
Lemma count_s_app c a b : count_s c (a ++ b) = count_s c a + count_s c b.
Proof. unfold count_s. rewrite filter_app, app_length. reflexivity. Qed.

Lemma count_s_In c l : In c l -> count_s c l <> 0.
Proof.
  induction l as [|x r IH]; intros H; [destruct H|]. rewrite count_s_cons. destruct H as [->|H]; [rewrite String.eqb_refl; lia|].
  specialize (IH H). lia.
Qed.

Lemma items_of_ok_c AN PRE POST from so items :
  forallb is_rtable from = true -> from <> [] -> forallb item_ok items = true ->
  scope_names_ok from = true -> trefs_distinct (map rtref from) = true ->
  AN = PRE ++ map snd (flat_map item_refs items) ++ POST ->
  forallb (item_ok_c AN (map (sbind "") from) so (unq_of (flat_map item_refs items))) items = true ->
  items_cond from items /\ noqual_items from items /\
  (2 <= List.length from -> forall i c, In i items -> item_ref i = (c, None) -> count_s c PRE = 0 /\ count_s c POST = 0 /\ c <> "*").
Proof.
  intros Hrt Hne Hit Hnames Hd EAN Hitems.
  pose proof (scope_names_sep from Hrt Hnames Hd) as Hpw.
  assert (Hsome : forall q0, id_ok q0 = true -> (exists b, find_binding q0 (map (sbind "") from) = Some b) -> qual1 from q0).
  { intros q0 F4 (b & Hb). destruct (find_binding_some "" from q0 b Hrt F4 Hb) as (r0 & Hr0 & En).
    exists r0. split; [exact Hr0|]. split; [exact En|]. intros r Hr Hor.
    destruct (pw_In sep_rel from r r0 Hpw Hr Hr0) as [Heq|[(S1 & S2 & S3)|(S1 & S2 & S3)]]; [exact Heq| |]; exfalso.
    - destruct Hor as [Hor|Hor]; [apply S1; congruence|apply S3; congruence].
    - destruct Hor as [Hor|Hor]; [apply S1; congruence|apply S2; congruence]. }
  assert (Hcnt : 2 <= List.length from -> forall i c, In i items -> item_ref i = (c, None) ->
                 count_s c AN = count_s c (unq_of (flat_map item_refs items)) /\ c <> "*").
  { intros Hl i c Hi Ei. rewrite forallb_forall in Hitems, Hit. pose proof (Hitems i Hi) as Hci. pose proof (Hit i Hi) as Hoi.
    destruct from as [|r [|r' l]]; cbn [List.length] in Hl; try lia.
    destruct i as [[qq n| | | | | |] al'|qq]; cbn [item_ok] in Hoi; try discriminate; cbn [item_ref] in Ei; inversion Ei; subst.
    - cbn [item_ok_c col_refs forallb ref_ok fst snd map] in Hci. rewrite andb_true_r in Hci.
      apply andb_true_iff in Hci. destruct Hci as [_ Hci]. apply Nat.eqb_eq in Hci. split; [exact Hci|]. intros ->. cbn in Hoi. discriminate.
    - cbn [item_ok_c map] in Hci. destruct so; cbn in Hci; discriminate. }
  split; [|split].
  - intros i Hi. rewrite forallb_forall in Hitems, Hit. specialize (Hitems i Hi). specialize (Hit i Hi).
    destruct (xcol_of_facts i Hit) as (_ & _ & _ & F4).
    destruct i as [[qq c| | | | | |] al'|qq]; cbn [item_ok] in Hit; try discriminate; cbn [item_ref snd fst] in *.
    + destruct qq as [q0|].
      * apply (Hsome q0 F4). cbn [item_ok_c col_refs forallb ref_ok fst snd] in Hitems. rewrite andb_true_r in Hitems.
        destruct (find_binding q0 (map (sbind "") from)) as [b|]; [exists b; reflexivity|discriminate].
      * destruct from as [|r [|r' l]]; [congruence|left; exists r; reflexivity|]. right. split; [cbn [List.length]; lia|].
        intros ->. cbn in Hit. discriminate.
    + destruct qq as [q0|].
      * apply (Hsome q0 F4). cbn [item_ok_c] in Hitems. apply andb_true_iff in Hitems. destruct Hitems as [_ Hitems].
        destruct (find_binding q0 (map (sbind "") from)) as [b|]; [exists b; reflexivity|discriminate].
      * destruct from as [|r [|r' l]]; [congruence|left; exists r; reflexivity|]. cbn [item_ok_c map] in Hitems. destruct so; cbn in Hitems; discriminate.
  - intros Hl i i' c c' q0 Hi Hi' Ei Ei'. destruct (Hcnt Hl i c Hi Ei) as [Hci _].
    rewrite EAN, !count_s_app in Hci. pose proof (count_unq_le c (flat_map item_refs items)) as Hle.
    assert (Hci' : count_s c (map snd (flat_map item_refs items)) = count_s c (unq_of (flat_map item_refs items))) by lia.
    rewrite forallb_forall in Hit. pose proof (Hit i' Hi') as Hoi'.
    destruct i' as [[qq' n'| | | | | |] al''|qq']; cbn [item_ok] in Hoi'; try discriminate; cbn [item_ref] in Ei'; inversion Ei'; subst.
    + apply (count_noqual c (flat_map item_refs items) Hci' q0 c'). apply in_flat_map. exists (IExpr (EColRef (Some q0) c') al''). split; [exact Hi'|left; reflexivity].
    + intros <-. destruct (Hcnt Hl i "*" Hi Ei) as [_ K]. apply K. reflexivity.
  - intros Hl i c Hi Ei. destruct (Hcnt Hl i c Hi Ei) as [Hci Hst].
    rewrite EAN, !count_s_app in Hci. pose proof (count_unq_le c (flat_map item_refs items)) as Hle. split; [lia|split; [lia|exact Hst]].
Qed.

Lemma tref_eqb_eq t t' : tref_eqb t t' = true -> t = t'.
Proof.
  destruct t as [o n], t' as [o' n']. unfold tref_eqb. cbn [fst snd]. intros H. apply andb_true_iff in H. destruct H as [H1 H2].
  apply String.eqb_eq in H2. subst n'. destruct o as [x|], o' as [y|]; cbn [ostr_eqb] in H1; try discriminate; [|reflexivity].
  apply String.eqb_eq in H1. subst. reflexivity.
Qed.

Lemma tref_clash_sym a b : tref_clash a b = tref_clash b a.
Proof.
  unfold tref_clash. rewrite (String.eqb_sym (snd a)). destruct (fst a), (fst b); try reflexivity. rewrite (String.eqb_sym s). reflexivity.
Qed.

Lemma trefs_distinct_In from r r0 :
  trefs_distinct (map rtref from) = true -> In r from -> In r0 from -> tref_clash (rtref r) (rtref r0) = true -> r = r0.
Proof.
  induction from as [|x l IH]; intros Hd Hr Hr0 Hc; [destruct Hr|]. cbn [map trefs_distinct] in Hd. apply andb_true_iff in Hd. destruct Hd as [H1 H2].
  rewrite forallb_forall in H1.
  destruct Hr as [->|Hr], Hr0 as [->|Hr0]; [reflexivity| | |apply IH; assumption].
  - specialize (H1 (rtref r0) (in_map rtref _ _ Hr0)). rewrite Hc in H1. discriminate.
  - specialize (H1 (rtref r) (in_map rtref _ _ Hr)). rewrite tref_clash_sym, Hc in H1. discriminate.
Qed.

Lemma colshape_wherein1 ds (s : stmt) t items from cj c items' from' cj' :
  let q := QSelect items from cj (Some (c, QSelect items' from' cj' None)) in
  ((exists cols, s = SInsert t cols q) \/ s = SCtas t q \/ s = SView t q) ->
  colshape s = true -> tref_ok t = true ->
  from <> [] -> forallb rel_ok from = true -> forallb item_ok items = true ->
  from' <> [] -> forallb rel_ok from' = true -> forallb item_ok items' = true ->
  trefs_distinct (map rtref from) = true -> trefs_distinct (map rtref from') = true ->
  tables_cond ds t from /\ items_cond from items /\ noqual_items from items /\
  tables_cond ds t from' /\ items_cond from' items' /\ noqual_items from' items' /\
  items_leakb from from' items = true /\ crossb from items items' = true.
Proof.
  intros q Hs Hc Ht Hne Hrel Hit Hne' Hrel' Hit' Hd Hd'.
  unfold colshape in Hc. apply andb_true_iff in Hc. destruct Hc as [Hc Hsc].
  apply andb_true_iff in Hc. destruct Hc as [Hc Hal]. apply andb_true_iff in Hc. destruct Hc as [Hns _].
  assert (Hrt : forallb is_rtable from = true) by (rewrite forallb_forall in *; intros r Hr; apply rel_ok_table; apply Hrel; exact Hr).
  assert (Hrt' : forallb is_rtable from' = true) by (rewrite forallb_forall in *; intros r Hr; apply rel_ok_table; apply Hrel'; exact Hr).
  assert (Hq : exists k, q_size q = S k) by (eexists; apply q_size_select). destruct Hq as [k Hk].
  (* the target is read nowhere *)
  assert (Hns' : forallb (fun r => negb (tref_clash t r)) (map rtref from ++ map rtref from') = true).
  { assert (E : cs_noself s = forallb (fun r => negb (tref_clash t r)) (q_trefs (S (q_size q)) q)) by (destruct Hs as [(cols & ->)|[->| ->]]; reflexivity).
    rewrite E, Hk in Hns. unfold q in Hns. rewrite (q_trefs_wherein1 k items from cj c items' from' cj' Hrt Hrt') in Hns. exact Hns. }
  rewrite forallb_app in Hns'. apply andb_true_iff in Hns'. destruct Hns' as [Hn1 Hn2].
  assert (Tc : tables_cond ds t from).
  { apply tables_condb_ok; [exact Ht|exact Hrel|]. unfold tables_condb. rewrite Hd. cbn [andb]. rewrite forallb_forall in *. intros r Hr. apply Hn1. apply in_map. exact Hr. }
  assert (Tc' : tables_cond ds t from').
  { apply tables_condb_ok; [exact Ht|exact Hrel'|]. unfold tables_condb. rewrite Hd'. cbn [andb]. rewrite forallb_forall in *. intros r Hr. apply Hn2. apply in_map. exact Hr. }
  (* the scopes *)
  assert (E : cs_scopes s = cs_q (S (q_size q)) (q_refnames (S (q_size q)) q) true [] q) by (destruct Hs as [(cols & ->)|[->| ->]]; reflexivity).
  rewrite E, Hk in Hsc. unfold q in Hsc. rewrite (q_refnames_wherein1 k items from cj c items' from' cj' Hrt Hrt') in Hsc.
  set (A := map snd (flat_map item_refs items)) in *. set (A' := map snd (flat_map item_refs items')) in *.
  cbn [cs_q] in Hsc. rewrite (scope_of_tables (S k) from Hrt), (scope_of_tables k from' Hrt'), (rels_flat_tables from Hrt), (rels_flat_tables from' Hrt') in Hsc.
  fold (unq_of (flat_map item_refs items)) in Hsc. fold (unq_of (flat_map item_refs items')) in Hsc.
  apply andb_true_iff in Hsc. destruct Hsc as [Hsc Hsc']. apply andb_true_iff in Hsc. destruct Hsc as [Hsc _].
  apply andb_true_iff in Hsc. destruct Hsc as [Hnames Hitems].
  apply andb_true_iff in Hsc'. destruct Hsc' as [Hsc' _]. apply andb_true_iff in Hsc'. destruct Hsc' as [Hsc' _].
  apply andb_true_iff in Hsc'. destruct Hsc' as [Hnames' Hitems'].
  destruct (items_of_ok_c (A ++ A') [] A' from true items Hrt Hne Hit Hnames Hd eq_refl Hitems) as (Ic & Nq & Cn).
  destruct (items_of_ok_c (A ++ A') A [] from' false items' Hrt' Hne' Hit' Hnames' Hd') as (Ic' & Nq' & _); [unfold A'; rewrite app_nil_r; reflexivity|exact Hitems'|].
  split; [exact Tc|]. split; [exact Ic|]. split; [exact Nq|]. split; [exact Tc'|]. split; [exact Ic'|]. split; [exact Nq'|]. split.
  - (* the labels of the sub-query that land on tables of the enclosing scope *)
    assert (Ea : cs_alias s = (let scs := fst (scopes (S (q_size q)) q) in
                               nested_ok (S (q_size q)) q && forallb (fun a => forallb (scope_pair_ok a) scs) scs && names_global (S (q_size q)) q))
      by (destruct Hs as [(cols & ->)|[->| ->]]; reflexivity).
    rewrite Ea, Hk in Hal. cbv zeta in Hal. unfold q in Hal. rewrite (scopes_wherein1 k items from cj c items' from' cj' Hrt Hrt') in Hal.
    apply andb_true_iff in Hal. destruct Hal as [Hal Hng]. apply andb_true_iff in Hal. destruct Hal as [_ Hsp].
    cbn [forallb] in Hsp. apply andb_true_iff in Hsp. destruct Hsp as [Hsp _]. apply andb_true_iff in Hsp. destruct Hsp as [_ Hsp].
    apply andb_true_iff in Hsp. destruct Hsp as [Hsp _].
    unfold names_global in Hng. rewrite (q_trefs_wherein1 k items from cj c items' from' cj' Hrt Hrt'), (scopes_wherein1 k items from cj c items' from' cj' Hrt Hrt') in Hng.
    apply andb_true_iff in Hng. destruct Hng as [_ Hng].
    unfold items_leakb. apply forallb_forall. intros i Hi. destruct (snd (item_ref i)) as [q0|] eqn:Eq0; [|reflexivity].
    pose proof (Ic i Hi) as Hq1. rewrite Eq0 in Hq1. destruct Hq1 as (r0 & Hr0 & En0 & Hu0).
    unfold leakb. apply forallb_forall. intros r' Hr'. destruct (String.eqb (rname r') q0) eqn:En'; [|reflexivity]. cbn [negb orb].
    apply String.eqb_eq in En'. apply forallb_forall. intros r Hr. destruct (tref_clash (rtref r) (rtref r')) eqn:Ecl; [|reflexivity]. cbn [negb orb].
    apply String.eqb_eq.
    assert (Hrr' : is_rtable r' = true) by (rewrite forallb_forall in Hrt'; apply Hrt'; exact Hr').
    assert (Hrr0 : is_rtable r0 = true) by (rewrite forallb_forall in Hrt; apply Hrt; exact Hr0).
    destruct r' as [t' al'| |]; try discriminate. destruct r0 as [t0 al0| |]; try discriminate. unfold rname in En', En0. cbn [ralias rtref] in *.
    assert (Kt : t' = t0 -> rname r = q0).
    { intros ->. rewrite (trefs_distinct_In from r (RTable t0 al0) Hd Hr Hr0 Ecl). unfold rname. cbn [ralias rtref]. exact En0. }
    destruct al' as [a'|].
    + subst a'. destruct al0 as [a0|].
      * subst a0. apply Kt.
        unfold scope_pair_ok in Hsp. rewrite forallb_forall in Hsp. assert (Hin : In (Some q0, Some t0) (map sce from ++ map (fun d => (@None string, d)) (map snd (map sce from')))).
        { apply in_app_iff. left. apply in_map_iff. exists (RTable t0 (Some q0)). auto. }
        specialize (Hsp _ Hin). cbn [fst] in Hsp. rewrite forallb_forall in Hsp.
        assert (Hin' : In (Some q0, Some t') (map sce from')) by (apply in_map_iff; exists (RTable t' (Some q0)); auto).
        specialize (Hsp _ Hin'). cbn [fst snd] in Hsp. rewrite String.eqb_refl in Hsp. cbn [andb] in Hsp.
        apply negb_true_iff in Hsp. apply andb_false_iff in Hsp. destruct Hsp as [Hsp|Hsp].
        -- apply negb_false_iff in Hsp. cbn [otref_is] in Hsp. apply tref_eqb_eq. exact Hsp.
        -- exfalso. assert (K : existsb (fun e' : sc_entry => otref_is t' (snd e')) (map sce from ++ map (fun d => (@None string, d)) (map snd (map sce from'))) = true).
           { apply existsb_exists. exists (None, Some t'). split.
             - apply in_app_iff. right. apply in_map_iff. exists (Some t'). split; [reflexivity|]. apply in_map_iff. exists (Some q0, Some t'). auto.
             - cbn [snd otref_is]. unfold tref_eqb. destruct t' as [o' n']. cbn [fst snd]. rewrite String.eqb_refl. destruct o'; cbn [ostr_eqb]; [rewrite String.eqb_refl|]; reflexivity. }
           assert (Kf : true = false) by (rewrite <- K; exact Hsp). discriminate Kf.
      * apply Kt. rewrite forallb_forall in Hng.
        assert (Hin : In (q0, Some t') (flat_map (fun sc => flat_map (fun en : sc_entry => match fst en with Some a => [(a, snd en)] | None => [] end) sc)
                                                  [map sce from ++ map (fun d => (@None string, d)) (map snd (map sce from')); map sce from'])).
        { apply in_flat_map. exists (map sce from'). split; [right; left; reflexivity|]. apply in_flat_map. exists (Some q0, Some t').
          split; [apply in_map_iff; exists (RTable t' (Some q0)); auto|left; reflexivity]. }
        specialize (Hng _ Hin). cbn [fst snd] in Hng. rewrite forallb_forall in Hng.
        specialize (Hng t0 (proj2 (in_app_iff _ _ _) (or_introl (in_map rtref _ _ Hr0)))). rewrite <- En0, String.eqb_refl in Hng. cbn [negb orb] in Hng.
        cbn [otref_is] in Hng. symmetry. apply tref_eqb_eq. exact Hng.
    + (* the sub-query table under its own name: the clashing table of the enclosing scope has that bare name *)
      assert (Eb : snd (rtref r) = q0).
      { unfold tref_clash in Ecl. apply andb_true_iff in Ecl. destruct Ecl as [Ecl _]. apply String.eqb_eq in Ecl. rewrite Ecl. exact En'. }
      rewrite (Hu0 r Hr (or_intror Eb)). unfold rname. cbn [ralias rtref]. exact En0.
  - (* the names of the unresolved columns of the enclosing scope are not referenced in the sub-query *)
    unfold crossb. destruct (Nat.leb 2 (List.length from)) eqn:El; [|reflexivity]. cbn [negb orb]. apply Nat.leb_le in El.
    apply forallb_forall. intros i Hi. destruct (snd (item_ref i)) as [q0|] eqn:Eq0; [reflexivity|].
    apply forallb_forall. intros i' Hi'. apply negb_true_iff. apply String.eqb_neq. intros Ec.
    destruct (Cn El i (fst (item_ref i)) Hi) as (_ & C2 & C3); [destruct (item_ref i); cbn [fst snd] in *; subst; reflexivity|].
    rewrite forallb_forall in Hit'. pose proof (Hit' i' Hi') as Hoi'.
    destruct i' as [[qq' n'| | | | | |] al''|qq']; cbn [item_ok] in Hoi'; try discriminate; cbn [item_ref fst] in Ec.
    + apply (count_s_In (fst (item_ref i)) A'); [|exact C2]. rewrite <- Ec. unfold A'. apply in_map_iff. exists (qq', n'). split; [reflexivity|].
      apply in_flat_map. exists (IExpr (EColRef qq' n') al''). split; [exact Hi'|left; reflexivity].
    + apply C3. symmetry. exact Ec.
Qed.

(** ** Lemma B on the fragment: an instance of [lemma_B_statement]
    [sel_wherein1_syntactic] (LemmaB5a.v): INSERT without column list / CREATE TABLE AS / CREATE VIEW AS over
    SELECT .. FROM distinct base tables WHERE c IN (SELECT .. FROM distinct base tables), the sub-query without
    unresolved column ([resolvedb]: unqualified references only over one table - a limit of the proof, not of the
    statement: see [wherein_checks], instance 7). *)
Theorem lemma_B_wherein1_colshape : lemma_B_wherein1_colshape_statement.
Proof.
  intros noise e s Hn He Hok _ Hc Hsyn.
  assert (K : exists t items from cj c items' from' cj',
            let q := QSelect items from cj (Some (c, QSelect items' from' cj' None)) in
            (s = SInsert t None q \/ s = SCtas t q \/ s = SView t q) /\
            forallb is_rtable from && trefs_distinct (map rtref from) && forallb is_rtable from' && trefs_distinct (map rtref from')
            && resolvedb from' items' = true /\
            tref_ok t && frag_query (S (q_size q)) q && names_ok_q (S (q_size q)) [] q = true).
  { destruct s as [t [cs|] q|t q|t q|q|kind]; cbn [sel_wherein1_syntactic] in Hsyn; try discriminate;
      destruct q as [items from cj [[c sq]|]| |]; try discriminate; destruct sq as [items' from' cj' [wh'|]| |]; try discriminate;
      exists t, items, from, cj, c, items', from', cj'; cbv zeta; (split; [auto|]); (split; [exact Hsyn|]);
      cbn [stmt_ok] in Hok; try exact Hok. rewrite andb_true_r in Hok. exact Hok. }
  destruct K as (t & items & from & cj & c & items' & from' & cj' & Hs & Hsh & Hok'). cbv zeta in Hs, Hok'.
  apply andb_true_iff in Hsh. destruct Hsh as [Hsh Hres]. apply andb_true_iff in Hsh. destruct Hsh as [Hsh Hd'].
  apply andb_true_iff in Hsh. destruct Hsh as [Hsh Hrt']. apply andb_true_iff in Hsh. destruct Hsh as [Hrt Hd].
  destruct (stmt_ok_select_w t items from cj c items' from' cj' Hok' Hrt Hrt') as (Ht & Hit & Hne & Hrel & Hit' & Hne' & Hrel').
  assert (Hs' : (exists cols, s = SInsert t cols (QSelect items from cj (Some (c, QSelect items' from' cj' None)))) \/
                s = SCtas t (QSelect items from cj (Some (c, QSelect items' from' cj' None))) \/
                s = SView t (QSelect items from cj (Some (c, QSelect items' from' cj' None)))).
  { destruct Hs as [->|[->| ->]]; [left; exists None; reflexivity|right; left; reflexivity|right; right; reflexivity]. }
  destruct (colshape_wherein1 (e_cfg e) s t items from cj c items' from' cj' Hs' Hc Ht Hne Hrel Hit Hne' Hrel' Hit' Hd Hd')
    as (Tc & Ic & Nq & Tc' & Ic' & _ & Hlk & Hcr).
  apply (lemma_B_wherein1_conds noise e s t items from cj c items' from' cj'); assumption.
Qed.
Print Assumptions lemma_B_wherein1_colshape.

(** it is an instance of [lemma_B_statement] *)
Theorem lemma_B_wherein1_instance :
  forall noise e s, noise_ok noise = true -> env_ok e = true -> stmt_ok s = true -> sshape s = true -> colshape s = true ->
    sel_wherein1_syntactic s = true -> script_pairs e false [] [r_stmt noise s] = spec_pairs (e_cfg e) s.
Proof. exact lemma_B_wherein1_colshape. Qed.

Example wherein1_colshape_nonvacuous :
  forallb (fun p => noise_ok (fst (fst p)) && env_ok (snd (fst p)) && stmt_ok (snd p) && sshape (snd p) && colshape (snd p) && sel_wherein1_syntactic (snd p))
          (firstn 8 wherein1_instances) = true.
Proof. vm_compute. reflexivity. Qed.
