(** Stage 2, continued: from the clean-up to the column pairs for items with any number of sources, and the
    end-to-end theorem for INSERT / CTAS / VIEW over one SELECT from base tables with star / column / aliased-expression
    items on the tree rendered by [r_stmt_x].

    PROVED
    - [lemma_Bx_partial]: [lemma_Bx_statement] of LemmaBExpr.v (guards [stmt_ok_x], [colshape]) under the additional executable
      guard [no_cols] (the statement is not an INSERT with a column list): for any trivia, any number of tables and items,
      expressions of any depth, INSERT INTO t SELECT .. / CREATE TABLE t AS SELECT .. / CREATE VIEW t AS SELECT ..
        script_pairs e false [] [r_stmt_x noise s] = spec_pairs (e_cfg e) s.
      [lemma_Bx_select] is the same from the conditions on the syntax.
    - [model_pairs_select_x] (model side): the pairs are those of the flows [S_x ts x] -> the item's own column, where
      [S_x ts x] = dedup_cols of the source columns of the sources of x, each resolved as for a single column reference.
    - the ingredients: Part G (several lineage edges into ONE target column add one has_column edge to the target table:
      [acl_fold_ok_x], which removes the assumption "at most one source per item" from [eoq_fold] / [select_core]:
      [eoq_fold_x], [select_core_x]); Part C ([HS_of_x]: Column.to_source_columns for several sources; [S_x_members]:
      de-duplication loses nothing because equal-comparing columns of a scope are equal, [mcol_eqb_eq]); Part S (the statement
      with one aliased column reference per reference of each expression item - [items2] - satisfies [colshape] when the
      original does, [colshape_expand]; its items carry the same columns, [split_expand]; the specification of an expression
      item is the union of those of its references, [spec_expr_strs], which needs that all unresolved sources of one scope
      carry the same candidate list, [resolve_shape]).
    NOT PROVED: INSERT with a column list and expression items (tested only: four instances in [lemma_Bx_tests]).  It needs
      [eoq_fold_cols] / [select_core_cols] / [model_pairs_insert_cols] / [item_corr_n] of LemmaBProofs.v for several (or no)
      sources per item in the same way (an item without source leaves the write column untouched; [acl_oed] iterated keeps
      the out-edges of the target).  No counterexample is known. *)
From Coq Require Import Lia Permutation.
From SV Require Import Tree.Render Tree.RenderExpr Tree.ExprItem Tree.LemmaA Tree.LemmaAProofs Tree.LemmaB Tree.LemmaBProofs
     Tree.LemmaBExpr Ident.Escape Ident.EscapeProofs Holder.PathProofs Holder.SortProofs.
From SV Require TriviaProofs.

(* ================================================================== *)
(** * Part G: several lineage edges into one target column add one has_column edge *)
Lemma out_edges_upsert_has n u v a l :
  has_edge_l u v l = true ->
  List.length (filter (fun e : Graph.node * Graph.node * eattrs => node_eqb n (fst (fst e))) (upsert_edge u v a l)) =
  List.length (filter (fun e => node_eqb n (fst (fst e))) l).
Proof.
  induction l as [|e r IH]; intros H; [discriminate|]. cbn [upsert_edge has_edge_l] in *.
  destruct (edge_is u v e) eqn:E; cbn [filter fst snd].
  - destruct (node_eqb n (fst (fst e))); reflexivity.
  - cbn [orb] in H. destruct (node_eqb n (fst (fst e))); cbn [List.length]; rewrite (IH H); reflexivity.
Qed.

Lemma out_edges_add_edge_has g u v a n :
  has_edge g u v = true -> List.length (out_edges (add_edge g u v a) n) = List.length (out_edges g n).
Proof.
  intros Hh. unfold out_edges, add_edge. cbn [gedges add_node]. set (ns := gnodes _).
  apply out_edges_upsert_has.
  assert (Ec : forall e, edge_is (canon_l u ns) (canon_l v ns) e = edge_is u v e).
  { intros e. unfold edge_is. rewrite (node_eqb_cong_l _ _ _ (canon_eqb u ns)), (node_eqb_cong_l _ _ _ (canon_eqb v ns)). reflexivity. }
  unfold has_edge in Hh. clear -Hh Ec. induction (gedges g) as [|e r IH]; [discriminate|]. cbn [has_edge_l] in *. rewrite Ec.
  destruct (edge_is u v e); [reflexivity|]. apply IH. exact Hh.
Qed.

Lemma acl_len d g src tgt g' :
  col_parent tgt = Some d -> has_edge g (NData d) (NCol tgt) = true ->
  (forall p, In p (cparents src) -> dataset_eqb p d = false) ->
  add_column_lineage g src tgt = Ok g' ->
  List.length (out_edges g' (NData d)) = List.length (out_edges g (NData d)) /\ has_edge g' (NData d) (NCol tgt) = true.
Proof.
  intros Ht Hh Hp E. unfold add_column_lineage in E. rewrite Ht in E.
  set (g1 := add_edge g (NCol src) (NCol tgt) lineage_edge) in *.
  set (g2 := add_edge g1 (NData d) (NCol tgt) (e_has_column None)) in *.
  assert (H1 : has_edge g1 (NData d) (NCol tgt) = true) by (unfold g1; rewrite has_edge_add_edge, Hh; reflexivity).
  assert (O1 : out_edges g1 (NData d) = out_edges g (NData d)) by (apply out_edges_add_edge_other; reflexivity).
  assert (O2 : List.length (out_edges g2 (NData d)) = List.length (out_edges g (NData d))).
  { rewrite <- O1. apply out_edges_add_edge_has. exact H1. }
  assert (H2 : has_edge g2 (NData d) (NCol tgt) = true) by (unfold g2; rewrite has_edge_add_edge, H1; reflexivity).
  destruct (col_parent src) as [sp|] eqn:Es; inversion E; subst g'; [|split; assumption]. split.
  - rewrite out_edges_add_edge_other; [exact O2|]. cbn [node_eqb]. rewrite dataset_eqb_sym. apply Hp.
    rewrite (col_parent_some _ _ Es). left. reflexivity.
  - rewrite has_edge_add_edge, H2. reflexivity.
Qed.

Lemma fold_err {A B} (F : B -> A -> res B) l m : fold_left (fun acc x => do y <- acc; F y x) l (Err m) = Err m.
Proof. induction l as [|x r IH]; [reflexivity|]. cbn [fold_left]. exact IH. Qed.

Lemma acl_fold_len d tgt srcs : forall g g',
  col_parent tgt = Some d -> has_edge g (NData d) (NCol tgt) = true ->
  (forall s, In s srcs -> forall p, In p (cparents s) -> dataset_eqb p d = false) ->
  fold_left (fun acc s => do g3 <- acc; add_column_lineage g3 s tgt) srcs (Ok g) = Ok g' ->
  List.length (out_edges g' (NData d)) = List.length (out_edges g (NData d)).
Proof.
  induction srcs as [|s r IH]; intros g g' Ht Hh Hp E; cbn [fold_left] in E; [inversion E; reflexivity|].
  destruct (add_column_lineage g s tgt) as [g1|m] eqn:E1; [|rewrite fold_err in E; discriminate].
  destruct (acl_len d g s tgt g1 Ht Hh (Hp s (or_introl eq_refl)) E1) as [L1 H1].
  rewrite (IH g1 g' Ht H1 (fun s' Hs' => Hp s' (or_intror Hs')) E). exact L1.
Qed.

(** [acl_fold_ok] of LemmaBProofs.v with the sharp bound: one more out-edge of the target, however many sources *)
Lemma acl_fold_ok_x (PC : column -> Prop) d ts tgt srcs : forall g,
  group_ok d ts -> col_parent tgt = Some d -> PC tgt ->
  (forall s, In s srcs -> PC s /\ forall p, In p (cparents s) -> In p ts) ->
  lits_in (QK (d :: ts) PC) g -> edges_inv ts g ->
  exists g', fold_left (fun acc s => do g3 <- acc; add_column_lineage g3 s tgt) srcs (Ok g) = Ok g' /\
             ext g g' (flat_map (fun s => acl_edges s tgt d) srcs) /\
             lits_in (QK (d :: ts) PC) g' /\ edges_inv ts g' /\ (forall k, holder_nodes g' k = holder_nodes g k) /\
             List.length (out_edges g' (NData d)) <= 1 + List.length (out_edges g (NData d)) /\
             (drop_free g -> drop_free g').
Proof.
  intros g Hgo Ht Hqt Hs Hl He.
  destruct (acl_fold_ok PC d ts tgt srcs g Hgo Ht Hqt Hs Hl He) as (g' & E' & X' & L' & I' & T' & _ & D').
  exists g'. split; [exact E'|]. split; [exact X'|]. split; [exact L'|]. split; [exact I'|]. split; [exact T'|]. split; [|exact D'].
  destruct srcs as [|s r]; [cbn [fold_left] in E'; inversion E'; lia|].
  cbn [fold_left] in E'. destruct (Hs s (or_introl eq_refl)) as [Hq Hp].
  destruct (acl_ok PC d ts g s tgt Hgo Ht Hqt Hq Hp Hl He) as (g1 & E1 & X1 & _ & _ & _ & O1 & _). rewrite E1 in E'.
  assert (H1 : has_edge g1 (NData d) (NCol tgt) = true).
  { rewrite (ext_edges _ _ _ X1). apply orb_true_iff. right. unfold acl_edges, ematch. cbn [app existsb fst snd].
    rewrite !node_eqb_refl. cbn [andb orb]. rewrite orb_true_r. reflexivity. }
  rewrite (acl_fold_len d tgt r g1 g' Ht H1); [lia| |exact E'].
  intros s' Hs' p Hp'. apply (go_target _ _ Hgo). apply (proj2 (Hs s' (or_intror Hs'))). exact Hp'.
Qed.

(* ================================================================== *)
(** * Part B: the clean-up of one table group, items with any number of sources
    (copies of [eoq_fold] / [select_core] of LemmaBProofs.v without the bound on the number of sources) *)
Lemma eoq_fold_x (PC : column -> Prop) e d ts cols (S : xcol -> list column) :
  group_ok d ts -> dk d = KTable ->
  (forall g2, sel_inv PC d ts g2 -> forall x, In x cols -> to_source_columns e x (get_alias_mapping g2 ts) = Ok (S x)) ->
  (forall x, In x cols -> cparents (xc x) = [] /\ PC (own_col d x) /\
                          forall s, In s (S x) -> PC s /\ forall p, In p (cparents s) -> In p ts) ->
  forall l g2 idx,
    (forall x, In x l -> In x cols) -> sel_inv PC d ts g2 -> sq_write g2 = [d] ->
    List.length (out_edges g2 (NData d)) <= idx -> idx + List.length l = List.length cols ->
    exists g', fst (fold_left (fun acc2 x => let '(rg, idx) := acc2 in
                                  (do g2 <- rg; eoq_step e ts (List.length cols) d g2 idx x, Datatypes.S idx)) l (Ok g2, idx)) = Ok g' /\
               ext g2 g' (sel_edges d S (own_pairs d l)) /\ sel_inv PC d ts g' /\ (forall k, holder_nodes g' k = holder_nodes g2 k).
Proof.
  intros Hgo Hd HS HX. induction l as [|x r IH]; intros g2 idx Hl Hinv Hw Ho Hn; cbn [fold_left].
  - exists g2. split; [reflexivity|]. split; [apply ext_refl|]. split; [exact Hinv|reflexivity].
  - destruct (HX x (Hl x (or_introl eq_refl))) as (Hx1 & Hx0 & Hx3).
    assert (Estep : exists g3, eoq_step e ts (List.length cols) d g2 idx x = Ok g3 /\
                               ext g2 g3 (flat_map (fun s => acl_edges s (own_col d x) d) (S x)) /\
                               lits_in (QK (d :: ts) PC) g3 /\ edges_inv ts g3 /\ (forall k, holder_nodes g3 k = holder_nodes g2 k) /\
                               List.length (out_edges g3 (NData d)) <= Datatypes.S idx /\ drop_free g3).
    { unfold eoq_step. rewrite (HS g2 Hinv x (Hl x (or_introl eq_refl))).
      assert (Et : (match S x with
                    | [] => add_parent (xc x) d
                    | _ :: _ => if Nat.eqb (List.length (write_columns g2)) (List.length cols)
                                then match nth_error (write_columns g2) idx with Some c => c | None => add_parent (xc x) d end
                                else add_parent (xc x) d
                    end) = own_col d x).
      { destruct (S x); [reflexivity|]. pose proof (write_columns_len g2 d Hw) as Hwl. cbn [List.length] in Hn.
        replace (Nat.eqb (List.length (write_columns g2)) (List.length cols)) with false; [reflexivity|].
        symmetry. apply Nat.eqb_neq. lia. }
      cbv zeta. rewrite Et.
      assert (Hown : col_parent (own_col d x) = Some d).
      { rewrite (own_col_eq d x Hx1). reflexivity. }
      destruct (acl_fold_ok_x PC d ts (own_col d x) (S x) g2 Hgo Hown Hx0 Hx3 (si_lits _ _ _ _ Hinv) (si_edges _ _ _ _ Hinv))
        as (g3 & E3 & X3 & L3 & I3 & T3 & O3 & D3).
      exists g3. split; [exact E3|]. split; [exact X3|]. split; [exact L3|]. split; [exact I3|]. split; [exact T3|].
      split; [lia|exact (D3 (si_drop _ _ _ _ Hinv))]. }
    destruct Estep as (g3 & E3 & X3 & L3 & I3 & T3 & O3 & D3). rewrite E3.
    assert (Hinv3 : sel_inv PC d ts g3) by (apply (sel_inv_ext PC d ts g2 g3 _ Hinv X3 L3 I3 D3)).
    assert (Hw3 : sq_write g3 = [d]) by (unfold sq_write; rewrite T3; exact Hw).
    cbn [List.length] in Hn.
    destruct (IH g3 (Datatypes.S idx) (fun y Hy => Hl y (or_intror Hy)) Hinv3 Hw3 O3 ltac:(lia)) as (g' & E' & X' & Hinv' & T').
    exists g'. split; [exact E'|]. split.
    + unfold sel_edges, own_pairs. cbn [map flat_map fst snd]. apply (ext_trans g2 g3 g'); assumption.
    + split; [exact Hinv'|]. intros k. rewrite T', T3. reflexivity.
Qed.

Lemma select_core_x (PC : column -> Prop) e d ts cols (S : xcol -> list column) :
  p_truthy (e_provider e) = false -> group_ok d ts -> Forall data_ok ts -> dk d = KTable -> (forall c, PC c -> col_qk c) ->
  (forall g2, sel_inv PC d ts g2 -> forall x, In x cols -> to_source_columns e x (get_alias_mapping g2 ts) = Ok (S x)) ->
  (forall x, In x cols -> cparents (xc x) = [] /\ PC (own_col d x) /\
                          forall s, In s (S x) -> PC s /\ forall p, In p (cparents s) -> In p ts) ->
  exists sub, (do g2 <- end_of_query_cleanup e (add_write empty_graph d) ts cols []; expand_wildcard e g2) = Ok sub /\
              ext (add_write empty_graph d) sub (map (fun v => (NData v, NStr (dalias v))) ts ++ sel_edges d S (own_pairs d cols)) /\
              sel_inv PC d ts sub.
Proof.
  intros Hp Hgo Hdo Hd HPC HS HX. set (g_b := add_write empty_graph d).
  assert (Lb : lits_in (QK (d :: ts) PC) g_b).
  { split; [intros n [<-|[]]; left; reflexivity|intros e0 []]. }
  assert (Eb : edges_inv ts g_b) by (intros e0 []).
  assert (Db : drop_free g_b).
  { intros n a [H|[]]. inversion H. intros [K|[]]. discriminate K. }
  destruct (add_reads_ok PC d ts ts g_b Hgo Hdo (fun v Hv => Hv) Lb Eb) as (A1 & A2 & A3 & A4 & A5 & A6).
  rewrite eoq_single. cbv zeta. set (g0 := fold_left add_read ts g_b) in *.
  assert (Hw : sq_write g0 = [d]) by (unfold sq_write; rewrite A4 by discriminate; reflexivity).
  rewrite Hw.
  assert (Hinv0 : sel_inv PC d ts g0).
  { constructor; [exact A1|exact A2| |exact (A6 Db)]. intros v Hv.
    assert (Hin : In (NData v, NStr (dalias v)) (map (fun v => (NData v, NStr (dalias v))) ts)) by (apply in_map_iff; exists v; auto).
    split.
    - rewrite (ext_edges _ _ _ A3). apply orb_true_iff. right. unfold ematch. apply existsb_exists. eexists. split; [exact Hin|].
      cbn [fst snd]. rewrite !node_eqb_refl. reflexivity.
    - exact (proj1 (ext_new _ _ _ A3 _ Hin)). }
  destruct (eoq_fold_x PC e d ts cols S Hgo Hd HS HX cols g0 0 (fun x Hx => Hx) Hinv0 Hw) as (g' & E' & X' & Hinv' & T').
  - rewrite A5. cbn. lia.
  - reflexivity.
  - rewrite E'. rewrite (expand_wildcard_id e g' Hp (QK_col_qk _ PC g' HPC (si_lits _ _ _ _ Hinv'))).
    exists g'. split; [reflexivity|]. split; [apply (ext_trans g_b g0 g'); assumption|exact Hinv'].
Qed.

(* ================================================================== *)
(** * Part C: the source columns of an item with several sources *)
Definition split_x (x : xcol) : list xcol :=
  map (fun sq => {| xc := xc x; xsrc := [sq]; xfrom_alias := xfrom_alias x |}) (xsrc x).
Definition S_x (ts : list dataset) (x : xcol) : list column := dedup_cols (flat_map (S_of ts) (split_x x)) [].

Definition src1 (e : env) (am : list (string * dataset)) (sq : string * option string) : res (list column) :=
  let values := dedup_ds (map snd am) [] in
  let '(src_col, qualifier) := sq in
  let name := escape src_col in
  match qualifier with
  | None =>
      if String.eqb src_col "*"
      then Ok (map (fun t => {| craw := name; cparents := [t] |}) values)
      else Ok [fold_left add_parent values {| craw := name; cparents := [] |}]
  | Some q =>
      match assoc_list q am with
      | Some t => Ok [{| craw := name; cparents := [t] |}]
      | None => do t <- mk_table e q None None; Ok [{| craw := name; cparents := [t] |}]
      end
  end.

Lemma tsc_eq e x am : to_source_columns e x am = do cols <- concat_res (map (src1 e am) (xsrc x)); Ok (dedup_cols cols []).
Proof. reflexivity. Qed.

Lemma src1_exact (PC : column -> Prop) e d ts g x sq :
  group_ok d ts -> ts_inj ts -> names_nodot ts -> sel_inv PC d ts g -> xref_ok ts x -> xsrc x = [sq] ->
  src1 e (get_alias_mapping g ts) sq = Ok (S_of ts x).
Proof.
  intros Hgo Hinj Hnd Hinv Hx Es. pose proof (HS_of PC e d ts g x Hgo Hinj Hnd Hinv Hx) as H.
  rewrite tsc_eq, Es in H. cbn [map concat_res] in H. destruct sq as [c [q|]]; unfold src1 in *; cbv zeta in *.
  - destruct (assoc_list q (get_alias_mapping g ts)) as [t|].
    + cbn [app dedup_cols existsb] in H. exact H.
    + destruct (mk_table e q None None) as [t|m]; [cbn [app dedup_cols existsb] in H; exact H|discriminate H].
  - destruct (String.eqb c "*") eqn:Ec.
    + apply String.eqb_eq in Ec. subst c. destruct Hx as (_ & c' & qq & Ex & _ & Hq). rewrite Es in Ex. inversion Ex. subst c' qq.
      destruct Hq as [(d1 & ->)|[_ K]]; [|congruence].
      rewrite (am_values_single PC d d1 g Hgo Hinv) in *. cbn [map app dedup_cols existsb] in H. exact H.
    + cbn [app dedup_cols existsb] in H. exact H.
Qed.

Lemma HS_of_x (PC : column -> Prop) e d ts g x :
  group_ok d ts -> ts_inj ts -> names_nodot ts -> sel_inv PC d ts g -> (forall x', In x' (split_x x) -> xref_ok ts x') ->
  to_source_columns e x (get_alias_mapping g ts) = Ok (S_x ts x).
Proof.
  intros Hgo Hinj Hnd Hinv Hx. rewrite tsc_eq. unfold S_x, split_x in *.
  assert (E : concat_res (map (src1 e (get_alias_mapping g ts)) (xsrc x)) =
              Ok (flat_map (S_of ts) (map (fun sq => {| xc := xc x; xsrc := [sq]; xfrom_alias := xfrom_alias x |}) (xsrc x)))).
  { induction (xsrc x) as [|sq l IH]; [reflexivity|]. cbn [map concat_res flat_map].
    rewrite (src1_exact PC e d ts g {| xc := xc x; xsrc := [sq]; xfrom_alias := xfrom_alias x |} sq Hgo Hinj Hnd Hinv (Hx _ (or_introl eq_refl)) eq_refl).
    rewrite IH; [reflexivity|]. intros x' Hx'. apply Hx. right. exact Hx'. }
  rewrite E. reflexivity.
Qed.

(** the columns that occur: one table of the scope as parent, or the unresolved column of a name over all tables *)
Definition mcol (ts : list dataset) (s : column) : Prop :=
  (exists v, In v ts /\ cparents s = [v]) \/ (exists nm, s = Ucol ts nm /\ 2 <= List.length (cparents s)).

Lemma mcol_eqb_eq d ts a b :
  group_ok d ts -> ts_inj ts -> mcol ts a -> mcol ts b -> col_eqb a b = true -> a = b.
Proof.
  intros Hgo Hinj Ha Hb E. unfold col_eqb in E. apply andb_true_iff in E. destruct E as [E1 E2]. apply String.eqb_eq in E1.
  destruct Ha as [(v & Hv & Ev)|(nm & -> & Hl)]; destruct Hb as [(v' & Hv' & Ev')|(nm' & -> & Hl')].
  - unfold col_str, col_parent in *. rewrite Ev, Ev' in *. cbn [opt_dataset_eqb] in E2.
    pose proof (go_distinct _ _ Hgo v v' Hv Hv' E2) as Evv. subst v'. rewrite (go_tables _ _ Hgo v Hv) in E1.
    apply append_cancel in E1. apply append_cancel in E1. destruct a as [ra pa], b as [rb pb]. cbn [craw cparents] in *. subst. reflexivity.
  - rewrite (col_parent_none _ Hl') in E2. unfold col_parent in E2. rewrite Ev in E2. discriminate.
  - rewrite (col_parent_none _ Hl) in E2. unfold col_parent in E2 at 1. rewrite Ev' in E2. discriminate.
  - unfold col_str in E1. rewrite (col_parent_none _ Hl), (col_parent_none _ Hl') in E1.
    rewrite (proj1 (Ucol_props ts nm Hinj)), (proj1 (Ucol_props ts nm' Hinj)) in E1. subst nm'. reflexivity.
Qed.

Lemma dedup_cols_complete l : forall seen s,
  (forall a b, In a l -> In b (l ++ seen) -> col_eqb a b = true -> a = b) -> In s l -> ~ In s seen -> In s (dedup_cols l seen).
Proof.
  induction l as [|c r IH]; intros seen s H Hs Hn; [destruct Hs|]. cbn [dedup_cols]. destruct (existsb (col_eqb c) seen) eqn:Ex.
  - apply existsb_exists in Ex. destruct Ex as (b & Hb & Eb).
    assert (Ecb : c = b) by (apply H; [left; reflexivity|apply in_app_iff; right; exact Hb|exact Eb]). subst b.
    destruct Hs as [->|Hs]; [contradiction|]. apply IH; [|exact Hs|exact Hn].
    intros a b Ha Hb'. apply H; [right; exact Ha|]. apply in_app_iff in Hb'. apply in_app_iff. destruct Hb'; [left; right; assumption|right; assumption].
  - destruct (col_eqb s c) eqn:Esc.
    + left. symmetry. apply H; [exact Hs|left; reflexivity|exact Esc].
    + right. destruct Hs as [->|Hs]; [rewrite col_eqb_refl in Esc; discriminate|]. apply IH; [|exact Hs|].
      * intros a b Ha Hb'. apply H; [right; exact Ha|]. apply in_app_iff in Hb'. destruct Hb' as [Hb'|[<-|Hb']];
          [right; apply in_app_iff; left; exact Hb'|left; reflexivity|right; apply in_app_iff; right; exact Hb'].
      * intros [->|K]; [rewrite col_eqb_refl in Esc; discriminate|contradiction].
Qed.

Lemma S_x_members d ts XS x :
  group_ok d ts -> ts_inj ts -> dk d = KTable ->
  (forall x', In x' (split_x x) -> In x' XS /\ xref_ok ts x') ->
  forall s, In s (S_x ts x) <-> exists x', In x' (split_x x) /\ In s (S_of ts x').
Proof.
  intros Hgo Hinj Hd Hx s.
  assert (Hm : forall c, In c (flat_map (S_of ts) (split_x x)) -> mcol ts c).
  { intros c Hc. apply in_flat_map in Hc. destruct Hc as (x' & Hx' & Hc). destruct (Hx x' Hx') as [Hin Hok].
    destruct (S_of_props d ts XS x' Hgo Hinj Hd Hin Hok) as (_ & _ & _ & _ & A5).
    destruct (A5 c Hc) as [K|(nm & _ & K1 & _ & K2)]; [left; exact K|right; exists nm; auto]. }
  unfold S_x. split.
  - intros H. apply In_dedup_cols in H. apply in_flat_map in H. exact H.
  - intros H. apply dedup_cols_complete; [|apply in_flat_map; exact H|intros []].
    intros a b Ha Hb. rewrite app_nil_r in Hb. apply (mcol_eqb_eq d ts a b Hgo Hinj (Hm a Ha) (Hm b Hb)).
Qed.

(* ================================================================== *)
(** * Part M: the model side, INSERT (no column list) / CTAS / VIEW *)
Theorem model_pairs_select_x noise e (s : stmt) t items from cj :
  noise_ok noise = true -> env_ok e = true ->
  (s = SInsert t None (QSelect items from cj None) \/ s = SCtas t (QSelect items from cj None) \/ s = SView t (QSelect items from cj None)) ->
  tref_ok t = true -> forallb item_ok_x items = true -> from <> [] -> forallb rel_ok from = true ->
  let d := tbl e t None in let ts := map (tbl_of e) from in let xs := map xcol_x items in let xs' := flat_map split_x xs in
  group_ok d ts -> ts_inj ts -> names_nodot ts -> (forall x, In x xs -> cparents (xc x) = []) ->
  (forall x', In x' xs' -> xref_ok ts x') -> noqual ts xs' ->
  script_pairs e false [] [r_stmt_x noise s] = uniq_sorted (sort_strings (map flow_str (flows_of (S_x ts) (own_pairs d xs)))).
Proof.
  intros Hn He Hs Ht Hit Hne Hrel d ts xs xs' Hgo Hinj Hnd Hc0 Hxs Hnq.
  set (e' := with_cols e (view_cols [] [])).
  assert (He' : env_ok e' = true) by exact He.
  assert (Hp : p_truthy (e_provider e') = false) by exact (proj1 (env_facts e' He')).
  assert (Hdo : Forall data_ok ts).
  { apply Forall_forall. intros v Hv. unfold data_ok. rewrite (go_tables _ _ Hgo v Hv).
    apply in_map_iff in Hv. destruct Hv as (r & <- & _). destruct r; reflexivity. }
  assert (Ea : analyze e' false (r_stmt_x noise s) = sel_holder_x e' (add_write empty_graph d) items from).
  { destruct Hs as [->|[->| ->]].
    - apply (analyze_insert_x noise Hn e' He' t None items from cj Ht I Hit Hne Hrel).
    - apply (analyze_create_x noise Hn e' He' false t items from cj Ht Hit Hne Hrel).
    - apply (analyze_create_x noise Hn e' He' true t items from cj Ht Hit Hne Hrel). }
  unfold sel_holder_x in Ea. change (map (tbl_of e') from) with ts in Ea. fold xs in Ea.
  set (NM := unres_names ts xs').
  assert (Hsp : forall x, In x xs -> forall x', In x' (split_x x) -> In x' xs' /\ xref_ok ts x').
  { intros x Hx x' Hx'. assert (Hin : In x' xs') by (apply in_flat_map; exists x; auto). split; [exact Hin|apply Hxs; exact Hin]. }
  assert (HSm : forall x, In x xs -> forall s0, In s0 (S_x ts x) <-> exists x', In x' (split_x x) /\ In s0 (S_of ts x')).
  { intros x Hx. apply (S_x_members d ts xs' x Hgo Hinj eq_refl (Hsp x Hx)). }
  destruct (select_core_x (PC4 ts NM) e' d ts xs (S_x ts) Hp Hgo Hdo eq_refl (fun c Hc => PC4_qk d ts NM c Hgo Hinj Hc)) as (sub & Esub & Xsub & Isub).
  - intros g2 Hinv x Hx. apply (HS_of_x (PC4 ts NM) e' d ts g2 x Hgo Hinj Hnd Hinv). intros x' Hx'. apply (Hsp x Hx x' Hx').
  - intros x Hx. split; [exact (Hc0 x Hx)|]. split; [rewrite (own_col_eq d x (Hc0 x Hx)); left; exists d; auto|].
    intros s0 Hs0. apply (HSm x Hx) in Hs0. destruct Hs0 as (x' & Hx' & Hs0). destruct (Hsp x Hx x' Hx') as [Hin Hok].
    destruct (S_of_props d ts xs' x' Hgo Hinj eq_refl Hin Hok) as (_ & _ & _ & A4 & _). exact (A4 s0 Hs0).
  - rewrite Esub in Ea.
    assert (Hop : forall p0, In p0 (own_pairs d xs) -> In (fst p0) xs /\ snd p0 = own_col d (fst p0)).
    { intros p0 Hp0. unfold own_pairs in Hp0. apply in_map_iff in Hp0. destruct Hp0 as (x & <- & Hx). auto. }
    destruct (holder_realises d ts NM (own_pairs d xs) (S_x ts) (add_write empty_graph d) sub Hgo Hinj eq_refl) as (C1 & C2 & C3 & C4);
      [| | |split; [intros n [<-|[]]; left; reflexivity|intros e0 []]
       |intros n a [H|[]]; inversion H; intros [K|[]]; discriminate K
       |intros e0 []|reflexivity|reflexivity|exact Xsub|exact Isub|].
    + intros p0 Hp0. destruct (Hop p0 Hp0) as [Hx Ep]. split.
      * rewrite Ep, (own_col_eq d _ (Hc0 _ Hx)). eexists. reflexivity.
      * intros s0 Hs0. apply (HSm _ Hx) in Hs0. destruct Hs0 as (x' & Hx' & Hs0). destruct (Hsp _ Hx x' Hx') as [Hin Hok].
        destruct (S_of_props d ts xs' x' Hgo Hinj eq_refl Hin Hok) as (_ & _ & _ & _ & A5). exact (A5 s0 Hs0).
    + intros nm Hnm. unfold NM, unres_names in Hnm.
      assert (Hns : forall (A : Type) (f : dataset -> A) (g : A), In nm (match ts with [_] => [] | _ => [nm] end) -> match ts with [d1] => f d1 | _ => g end = g).
      { intros A f g. destruct ts as [|a [|b r]]; [reflexivity|intros []|reflexivity]. }
      assert (Hin : In nm (flat_map (fun x => match xsrc x with [(c, None)] => [c] | _ => [] end) xs') /\ In nm (match ts with [_] => [] | _ => [nm] end)).
      { destruct ts as [|a [|b r]]; [split; [exact Hnm|left; reflexivity]|destruct Hnm|split; [exact Hnm|left; reflexivity]]. }
      destruct Hin as [Hin Hsh]. apply in_flat_map in Hin. destruct Hin as (x' & Hx' & Hin).
      assert (HU : In (Ucol ts nm) (S_of ts x')).
      { unfold S_of. destruct (xsrc x') as [|[c qq] rest]; [destruct Hin|]. destruct qq as [q|]; [destruct Hin|].
        destruct rest as [|p r]; [|destruct Hin]. destruct Hin as [->|[]]. rewrite (Hns _ _ _ Hsh). left. reflexivity. }
      unfold xs' in Hx'. apply in_flat_map in Hx'. destruct Hx' as (x & Hx & Hx').
      exists (x, own_col d x). split; [unfold own_pairs; apply in_map_iff; exists x; auto|]. cbn [fst].
      apply (HSm x Hx). exists x'. auto.
    + intros p' s' nm v Hnm Hp' Hs' Ev. destruct (Hop p' Hp') as [Hx0 _].
      apply (HSm _ Hx0) in Hs'. destruct Hs' as (x' & Hx'sp & Hs'). destruct (Hsp _ Hx0 x' Hx'sp) as [Hx' _].
      unfold NM, unres_names in Hnm.
      assert (Hm : In nm (flat_map (fun x => match xsrc x with [(c, None)] => [c] | _ => [] end) xs') /\ (forall d1, ts <> [d1])).
      { destruct ts as [|a [|b r]]; [split; [exact Hnm|discriminate]|destruct Hnm|split; [exact Hnm|discriminate]]. }
      destruct Hm as [Hin Hns]. apply in_flat_map in Hin. destruct Hin as (x & Hx & Hin).
      destruct (Hxs x Hx) as (_ & c & qq & Ex & _ & Hq). rewrite Ex in Hin. destruct qq as [q|]; [destruct Hin|]. destruct Hin as [->|[]].
      destruct Hq as [(d1 & Ed)|[Hmul _]]; [exfalso; exact (Hns d1 Ed)|].
      destruct (Hxs x' Hx') as (_ & c' & qq' & Ex' & _ & Hq'). unfold S_of in Hs'. rewrite Ex' in Hs'. destruct qq' as [q'|].
      * destruct Hq' as (v' & Hv' & Eq' & Hu'). rewrite (find_dalias ts q' v' Hv' Eq' (fun w Hw E => Hu' w Hw (or_introl E))) in Hs'.
        destruct Hs' as [<-|[]]. cbn [craw]. apply (Hnq x x' nm c' q' Hx Hx' Ex Ex' Hmul).
      * rewrite (multi_not_single ts _ _ _ Hmul) in Hs'. destruct Hs' as [<-|[]].
        destruct (Ucol_props ts c' Hinj) as (_ & _ & U3). destruct Hmul as (a & b & Ha & Hb & Hab).
        pose proof (two_members _ a b (proj2 (U3 a) Ha) (proj2 (U3 b) Hb) Hab) as Hl. rewrite Ev in Hl. cbn in Hl. lia.
    + apply (script_pairs_of_holder e (r_stmt_x noise s) _ _ Ea (proj1 (env_facts e He)) C1 C2 C3 C4).
Qed.

(* ================================================================== *)
(** * Part S: one aliased column reference per reference of an expression item *)
Definition expand (i : item) : list item :=
  match i with
  | IExpr ex al =>
      match al with
      | Some a => map (fun r : option string * string => IExpr (EColRef (fst r) (snd r)) (Some a)) (col_refs ex)
      | None => match ex with EColRef _ _ => [i] | _ => [] end
      end
  | IStar _ => [i]
  end.
Definition items2 (items : list item) : list item := flat_map expand items.

Lemma xcol_x_alias ex a : xcol_x (IExpr ex (Some a)) = mk_xcol a (ops_srcs ex) true.
Proof. destruct ex; reflexivity. Qed.

Lemma item_ok_x_alias ex a : item_ok_x (IExpr ex (Some a)) = expr_ok ex && id_ok a.
Proof. destruct ex as [q c| | | | | |]; reflexivity. Qed.

Lemma expr_ok_refs ex : expr_ok ex = true ->
  forall r, In r (col_refs ex) -> id_ok (snd r) = true /\ match fst r with Some x => id_ok x = true | None => True end.
Proof.
  induction ex as [q c| |a IHa b IHb|a IHa b IHb|c IHc t IHt f IHf|a IHa|a IHa p IHp o IHo]; cbn [expr_ok col_refs]; intros H r Hr.
  - destruct Hr as [<-|[]]. apply andb_true_iff in H. destruct H as [H1 H2]. cbn [fst snd]. split; [exact H1|]. destruct q; auto.
  - destruct Hr.
  - apply andb_true_iff in H. destruct H. apply in_app_iff in Hr. destruct Hr; auto.
  - apply andb_true_iff in H. destruct H. apply in_app_iff in Hr. destruct Hr; auto.
  - apply andb_true_iff in H. destruct H as [H H3]. apply andb_true_iff in H. destruct H. apply in_app_iff in Hr. destruct Hr as [|Hr]; auto.
    apply in_app_iff in Hr. destruct Hr; auto.
  - auto.
  - apply andb_true_iff in H. destruct H as [H H3]. apply andb_true_iff in H. destruct H. apply in_app_iff in Hr. destruct Hr as [|Hr]; auto.
    apply in_app_iff in Hr. destruct Hr; auto.
Qed.

Lemma items2_ok items : forallb item_ok_x items = true -> forallb item_ok (items2 items) = true.
Proof.
  intros H. apply forallb_forall. intros i' Hi'. unfold items2 in Hi'. apply in_flat_map in Hi'. destruct Hi' as (i & Hi & Hi').
  rewrite forallb_forall in H. specialize (H i Hi). destruct i as [ex [a|]|qq].
  - rewrite item_ok_x_alias in H. apply andb_true_iff in H. destruct H as [Hex Ha]. cbn [expand] in Hi'. apply in_map_iff in Hi'.
    destruct Hi' as (r & <- & Hr). destruct (expr_ok_refs ex Hex r Hr) as [H1 H2]. cbn [item_ok]. rewrite H1, Ha.
    destruct (fst r); [rewrite H2|]; reflexivity.
  - destruct ex; try discriminate. destruct Hi' as [<-|[]]. exact H.
  - destruct Hi' as [<-|[]]. exact H.
Qed.

Lemma refs_expand i : item_ok_x i = true -> flat_map item_refs (expand i) = item_refs i.
Proof.
  intros H. destruct i as [ex [a|]|qq]; cbn [expand].
  - cbn [item_refs]. induction (col_refs ex) as [|r l IH]; [reflexivity|]. cbn [map flat_map item_refs col_refs app]. rewrite IH. destruct r; reflexivity.
  - destruct ex; try discriminate. cbn [flat_map]. apply app_nil_r.
  - reflexivity.
Qed.

Lemma refs_items2 items : forallb item_ok_x items = true -> flat_map item_refs (items2 items) = flat_map item_refs items.
Proof.
  intros H. unfold items2. rewrite flat_map_flat_map. apply flat_map_ext_in'. intros i Hi. apply refs_expand.
  rewrite forallb_forall in H. apply H. exact Hi.
Qed.

Lemma forallb_items2 A sc so U items :
  forallb item_ok_x items = true ->
  forallb (item_ok_c A sc so U) (items2 items) = forallb (item_ok_c A sc so U) items.
Proof.
  induction items as [|i l IH]; intros H; [reflexivity|]. cbn [forallb] in H. apply andb_true_iff in H. destruct H as [Hi Hl].
  unfold items2 in *. cbn [flat_map forallb]. rewrite forallb_app, (IH Hl). f_equal.
  destruct i as [ex [a|]|qq]; cbn [expand].
  - cbn [item_ok_c]. induction (col_refs ex) as [|r rs IHr]; [reflexivity|]. cbn [map forallb item_ok_c col_refs]. rewrite IHr.
    destruct r as [q c]. cbn [fst snd]. rewrite andb_true_r. reflexivity.
  - destruct ex; try discriminate. cbn [forallb]. apply andb_true_r.
  - cbn [forallb]. apply andb_true_r.
Qed.

(** the guards of the expanded statement *)
Lemma colshape_expand (s : stmt) t items from cj :
  ((exists cols, s = SInsert t cols (QSelect items from cj None)) \/ s = SCtas t (QSelect items from cj None) \/ s = SView t (QSelect items from cj None)) ->
  forallb item_ok_x items = true -> colshape s = true ->
  colshape (SCtas t (QSelect (items2 items) from cj None)) = true.
Proof.
  intros Hs Hit Hc.
  assert (Hc' : cs_noself (SCtas t (QSelect items from cj None)) && cs_alias (SCtas t (QSelect items from cj None))
                && cs_scopes (SCtas t (QSelect items from cj None)) = true).
  { unfold colshape in Hc. apply andb_true_iff in Hc. destruct Hc as [Hc H4]. apply andb_true_iff in Hc. destruct Hc as [Hc H3].
    apply andb_true_iff in Hc. destruct Hc as [H1 _].
    destruct Hs as [(cols & ->)|[->| ->]]; (change (cs_noself (SCtas t (QSelect items from cj None)) = true) in H1 || idtac);
      rewrite H1; cbn [andb]; apply andb_true_iff; split; assumption. }
  apply andb_true_iff in Hc'. destruct Hc' as [Hc' H4]. apply andb_true_iff in Hc'. destruct Hc' as [H1 H3].
  unfold colshape. apply andb_true_iff. split; [apply andb_true_iff; split; [apply andb_true_iff; split|]|].
  - exact H1.
  - reflexivity.
  - exact H3.
  - unfold cs_scopes in *. cbn [stmt_query] in *. cbn [q_size] in *. cbn [cs_q q_refnames] in *.
    rewrite (refs_items2 items Hit). rewrite (forallb_items2 _ _ _ _ items Hit). exact H4.
Qed.

(** ** the specification side: an expression item depends on what its references depend on *)
Lemma dedup_src_sub' x l : forall seen, In x (dedup_src l seen) -> In x l.
Proof.
  induction l as [|a r IH]; intros seen H; [destruct H|]. cbn [dedup_src] in H. destruct (existsb (src_eqb a) seen).
  - right. exact (IH _ H).
  - destruct H as [<-|H]; [left; reflexivity|right; exact (IH _ H)].
Qed.

Lemma src_eqb_refl s : src_eqb s s = true.
Proof. destruct s; cbn [src_eqb]; rewrite ?String.eqb_refl; reflexivity. Qed.

Lemma dedup_src_complete' l : forall seen s,
  (forall a b, In a l -> In b (l ++ seen) -> src_eqb a b = true -> a = b) -> In s l -> ~ In s seen -> In s (dedup_src l seen).
Proof.
  induction l as [|c r IH]; intros seen s H Hs Hn; [destruct Hs|]. cbn [dedup_src]. destruct (existsb (src_eqb c) seen) eqn:Ex.
  - apply existsb_exists in Ex. destruct Ex as (b & Hb & Eb).
    assert (Ecb : c = b) by (apply H; [left; reflexivity|apply in_app_iff; right; exact Hb|exact Eb]). subst b.
    destruct Hs as [->|Hs]; [contradiction|]. apply IH; [|exact Hs|exact Hn].
    intros a b Ha Hb'. apply H; [right; exact Ha|]. apply in_app_iff in Hb'. apply in_app_iff. destruct Hb'; [left; right; assumption|right; assumption].
  - destruct (src_eqb s c) eqn:Esc.
    + left. symmetry. apply H; [exact Hs|left; reflexivity|exact Esc].
    + right. destruct Hs as [->|Hs]; [rewrite src_eqb_refl in Esc; discriminate|]. apply IH; [|exact Hs|].
      * intros a b Ha Hb'. apply H; [right; exact Ha|]. apply in_app_iff in Hb'. destruct Hb' as [Hb'|[<-|Hb']];
          [right; apply in_app_iff; left; exact Hb'|left; reflexivity|right; apply in_app_iff; right; exact Hb'].
      * intros [->|K]; [rewrite src_eqb_refl in Esc; discriminate|contradiction].
Qed.

Definition cands_K (scope : list binding) : list string :=
  dedup_s (flat_map (fun b => match b_rel b with RelBase t => [t] | RelCols _ => [] end) scope) [].
Definition src_shape (K : list string) (x : src) : Prop := (exists t c, x = SCol t c) \/ (exists c, x = SUnres c K).

Lemma shape_eqb_eq K a b : src_shape K a -> src_shape K b -> src_eqb a b = true -> a = b.
Proof.
  intros [(t & c & ->)|(c & ->)] [(t' & c' & ->)|(c' & ->)] E; cbn [src_eqb] in E; try discriminate.
  - apply andb_true_iff in E. destruct E as [E1 E2]. apply String.eqb_eq in E1, E2. subst. reflexivity.
  - apply String.eqb_eq in E. subst. reflexivity.
Qed.

Lemma find_binding_In q sc b : find_binding q sc = Some b -> In b sc.
Proof.
  unfold find_binding. destruct (filter _ sc) as [|b1 l1] eqn:E1.
  - destruct (filter (fun b0 => mem_string q (b_names b0)) sc) as [|b2 l2] eqn:E2; [discriminate|]. intros H. inversion H. subst b2.
    assert (K : In b (filter (fun b0 => mem_string q (b_names b0)) sc)) by (rewrite E2; left; reflexivity). apply filter_In in K. apply K.
  - intros H. inversion H. subst b1.
    assert (K : In b (filter (fun b0 => match b_alias b0 with Some a => String.eqb a q | None => false end) sc)) by (rewrite E1; left; reflexivity).
    apply filter_In in K. apply K.
Qed.

Lemma resolve_shape ds from r x :
  In x (resolve (map (sbind ds) from) r) -> src_shape (cands_K (map (sbind ds) from)) x.
Proof.
  assert (Hb : forall b, In b (map (sbind ds) from) -> forall c, exists t, rel_col (b_rel b) c = [SCol t c]).
  { intros b Hin c. apply in_map_iff in Hin. destruct Hin as (r0 & <- & _). eexists. reflexivity. }
  unfold resolve. destruct r as [[q|] c]; cbn [fst snd].
  - destruct (find_binding q (map (sbind ds) from)) as [b|] eqn:E; [|intros []]. apply find_binding_In in E.
    destruct (Hb b E c) as (t & K); rewrite K; intros [<-|[]]; left; eauto.
  - fold (cands_K (map (sbind ds) from)). set (K := cands_K (map (sbind ds) from)).
    destruct (map (sbind ds) from) as [|b [|b' rest]] eqn:Em.
    + destruct K as [|t [|t' rest']].
      * intros [<-|[]]. right. eauto.
      * destruct (forallb _ _); intros [<-|[]]; [left|right]; eauto.
      * intros [<-|[]]. right. eauto.
    + destruct (Hb b (or_introl eq_refl) c) as (t & K0); rewrite K0; intros [<-|[]]; left; eauto.
    + destruct K as [|t [|t' rest']].
      * intros [<-|[]]. right. eauto.
      * destruct (forallb _ _); intros [<-|[]]; [left|right]; eauto.
      * intros [<-|[]]. right. eauto.
Qed.

Lemma spec_expr_strs ds tstr from ex a str :
  In str (spec_item_strs tstr (map (sbind ds) from) (IExpr ex (Some a))) <->
  exists r, In r (col_refs ex) /\ In str (spec_item_strs tstr (map (sbind ds) from) (IExpr (EColRef (fst r) (snd r)) (Some a))).
Proof.
  set (scope := map (sbind ds) from). set (K := cands_K scope).
  assert (Hiff : forall l, (forall x, In x l -> src_shape K x) -> forall s0, In s0 (dedup_src l []) <-> In s0 l).
  { intros l Hl s0. split; [apply dedup_src_sub'|]. intros H. apply dedup_src_complete'; [|exact H|intros []].
    intros x y Hx Hy. rewrite app_nil_r in Hy. apply (shape_eqb_eq K); [apply Hl; exact Hx|apply Hl; exact Hy]. }
  assert (Hsh : forall refs x, In x (flat_map (resolve scope) refs) -> src_shape K x).
  { intros refs x Hx. apply in_flat_map in Hx. destruct Hx as (r & _ & Hx). exact (resolve_shape ds from r x Hx). }
  unfold spec_item_strs. cbn [item_cols flat_map fst snd col_refs]. rewrite app_nil_r. rewrite in_map_iff. split.
  - intros (sr & <- & Hsr). apply (Hiff _ (Hsh _)) in Hsr. apply in_flat_map in Hsr. destruct Hsr as (r & Hr & Hsr). exists r. split; [exact Hr|].
    rewrite app_nil_r. apply in_map_iff. exists sr. split; [reflexivity|]. apply (Hiff _ (Hsh [(fst r, snd r)])). cbn [flat_map]. rewrite app_nil_r.
    destruct r; exact Hsr.
  - intros (r & Hr & H). rewrite app_nil_r in H. apply in_map_iff in H. destruct H as (sr & <- & Hsr).
    apply (Hiff _ (Hsh [(fst r, snd r)])) in Hsr. cbn [flat_map] in Hsr. rewrite app_nil_r in Hsr.
    exists sr. split; [reflexivity|]. apply (Hiff _ (Hsh _)). apply in_flat_map. exists r. split; [exact Hr|]. destruct r; exact Hsr.
Qed.

(** ** the columns of the items, one per source = the columns of the expanded items *)
Lemma split_expand i x' : item_ok_x i = true -> (In x' (split_x (xcol_x i)) <-> In x' (map xcol_of (expand i))).
Proof.
  intros H. destruct i as [ex [a|]|qq].
  - rewrite xcol_x_alias. cbn [expand]. unfold split_x. cbn [mk_xcol xc xsrc xfrom_alias]. rewrite !map_map, !in_map_iff. split.
    + intros (sq & <- & Hsq). apply ops_srcs_set in Hsq. apply in_map_iff in Hsq. destruct Hsq as (r & <- & Hr). exists r. split; [reflexivity|exact Hr].
    + intros (r & <- & Hr). exists (swap_ref r). split; [reflexivity|]. apply ops_srcs_set. apply in_map. exact Hr.
  - destruct ex; try discriminate. assert (E : split_x (xcol_x (IExpr (EColRef q c) None)) = map xcol_of (expand (IExpr (EColRef q c) None))) by reflexivity.
    rewrite E. tauto.
  - assert (E : split_x (xcol_x (IStar qq)) = map xcol_of (expand (IStar qq))) by reflexivity. rewrite E. tauto.
Qed.

Lemma xc_expand i i' : In i' (expand i) -> xc (xcol_of i') = xc (xcol_x i).
Proof.
  destruct i as [ex [a|]|qq]; cbn [expand].
  - rewrite xcol_x_alias. intros H. apply in_map_iff in H. destruct H as (r & <- & _). reflexivity.
  - destruct ex as [q c| | | | | |]; intros H; [destruct H as [<-|[]]; reflexivity| | | | | |]; destruct H.
  - intros [<-|[]]. reflexivity.
Qed.

Lemma xcol_x_noparents i : cparents (xc (xcol_x i)) = [].
Proof. destruct i as [ex [a|]|qq]; [rewrite xcol_x_alias; reflexivity|destruct ex; reflexivity|reflexivity]. Qed.

(* ================================================================== *)
(** * Part Z: Lemma B for expression items, INSERT without column list / CTAS / VIEW *)
Theorem lemma_Bx_select noise e (s : stmt) t items from cj :
  noise_ok noise = true -> env_ok e = true ->
  (s = SInsert t None (QSelect items from cj None) \/ s = SCtas t (QSelect items from cj None) \/ s = SView t (QSelect items from cj None)) ->
  tref_ok t = true -> forallb item_ok_x items = true -> from <> [] -> forallb rel_ok from = true ->
  trefs_distinct (map rtref from) = true -> colshape s = true ->
  script_pairs e false [] [r_stmt_x noise s] = spec_pairs (e_cfg e) s.
Proof.
  intros Hn He Hs Ht Hit Hne Hrel Hd Hc.
  assert (Hs' : (exists cols, s = SInsert t cols (QSelect items from cj None)) \/ s = SCtas t (QSelect items from cj None) \/ s = SView t (QSelect items from cj None)).
  { destruct Hs as [E|[E|E]]; [left; exists None; exact E|right; left; exact E|right; right; exact E]. }
  pose proof (colshape_expand s t items from cj Hs' Hit Hc) as Hc2.
  pose proof (items2_ok items Hit) as Hit2.
  destruct (colshape_tables (e_cfg e) _ t (items2 items) from cj (or_intror (or_introl eq_refl)) Hc2 Ht Hne Hrel Hit2 Hd) as (Htc & Hic & Hnq).
  assert (Hrt : forallb is_rtable from = true).
  { rewrite forallb_forall in *. intros r Hr. apply rel_ok_table. apply Hrel. exact Hr. }
  set (d := tbl e t None). set (ts := map (tbl_of e) from). set (xs := map xcol_x items). set (xs' := flat_map split_x xs).
  pose proof (group_ok_of e t from Hrel Htc) as Hgo. pose proof (ts_inj_of e t from Hrel Htc) as Hinj. pose proof (names_nodot_of e from Hrel) as Hnd.
  fold d ts in Hgo, Hinj, Hnd.
  pose proof (xref_ok_of e t from (items2 items) Hrel Hit2 Htc Hic) as Hx2. pose proof (noqual_of e from (items2 items) Hit2 Hnq) as Hn2.
  fold ts in Hx2, Hn2.
  assert (Hitem : forall i, In i items -> item_ok_x i = true) by (apply forallb_forall; exact Hit).
  assert (HF4 : forall x', In x' xs' <-> In x' (map xcol_of (items2 items))).
  { intros x'. unfold xs', xs, items2. rewrite flat_map_map', map_flat_map', !in_flat_map.
    split; intros (i & Hi & H); exists i; (split; [exact Hi|]); apply (split_expand i x' (Hitem i Hi)); exact H. }
  assert (Hxs : forall x', In x' xs' -> xref_ok ts x') by (intros x' Hx'; apply Hx2; apply HF4; exact Hx').
  assert (Hnq' : noqual ts xs').
  { intros x x' c c' q Hx Hx'. apply Hn2; apply HF4; assumption. }
  assert (Hc0 : forall x, In x xs -> cparents (xc x) = []).
  { intros x Hx. unfold xs in Hx. apply in_map_iff in Hx. destruct Hx as (i & <- & _). apply xcol_x_noparents. }
  rewrite (model_pairs_select_x noise e s t items from cj Hn He Hs Ht Hit Hne Hrel Hgo Hinj Hnd Hc0 Hxs Hnq').
  unfold spec_pairs. rewrite (spec_strs_select (e_cfg e) s t items from cj Hs Hrt).
  apply us_ext. intros str. fold d ts xs. unfold flows_of, own_pairs, xs. rewrite !flat_map_map', map_flat_map'. cbn [fst snd]. rewrite !in_flat_map.
  set (tstr := tref_str (e_cfg e) t). set (scope := map (sbind (e_cfg e)) from).
  assert (Hper : forall i, In i items ->
            (In str (map flow_str (map (fun s0 => (s0, own_col d (xcol_x i))) (S_x ts (xcol_x i)))) <-> In str (spec_item_strs tstr scope i))).
  { intros i Hi. pose proof (Hitem i Hi) as Hok.
    assert (Hsp : forall x', In x' (split_x (xcol_x i)) -> In x' xs' /\ xref_ok ts x').
    { intros x' Hx'. assert (Hin : In x' xs') by (unfold xs', xs; apply in_flat_map; exists (xcol_x i); split; [apply in_map; exact Hi|exact Hx']).
      split; [exact Hin|apply Hxs; exact Hin]. }
    pose proof (S_x_members d ts xs' (xcol_x i) Hgo Hinj eq_refl Hsp) as HSm.
    assert (HA : In str (map flow_str (map (fun s0 => (s0, own_col d (xcol_x i))) (S_x ts (xcol_x i)))) <->
                 exists i', In i' (expand i) /\ In str (spec_item_strs tstr scope i')).
    { assert (Hcorr : forall i', In i' (expand i) ->
                spec_item_strs tstr scope i' = map flow_str (map (fun s0 => (s0, own_col d (xcol_x i))) (S_of ts (xcol_of i')))).
      { intros i' Hi'. assert (Hin2 : In i' (items2 items)) by (unfold items2; apply in_flat_map; exists i; auto).
        unfold tstr, scope, d, ts. rewrite (item_corr e t from i' Hrel (proj1 (forallb_forall _ _) Hit2 i' Hin2) Htc (Hic i' Hin2)).
        unfold own_col. rewrite (xc_expand i i' Hi'). reflexivity. }
      rewrite map_map, in_map_iff. split.
      - intros (s0 & <- & Hs0). apply HSm in Hs0. destruct Hs0 as (x' & Hx' & Hs0). apply (split_expand i x' Hok) in Hx'.
        apply in_map_iff in Hx'. destruct Hx' as (i' & <- & Hi'). exists i'. split; [exact Hi'|]. rewrite (Hcorr i' Hi'), map_map.
        apply in_map_iff. exists s0. auto.
      - intros (i' & Hi' & H). rewrite (Hcorr i' Hi'), map_map in H. apply in_map_iff in H. destruct H as (s0 & <- & Hs0).
        exists s0. split; [reflexivity|]. apply HSm. exists (xcol_of i'). split; [|exact Hs0].
        apply (split_expand i _ Hok). apply in_map. exact Hi'. }
    rewrite HA. destruct i as [ex [a|]|qq].
    - unfold scope. rewrite spec_expr_strs. cbn [expand]. split.
      + intros (i' & Hi' & H). apply in_map_iff in Hi'. destruct Hi' as (r & <- & Hr). exists r. auto.
      + intros (r & Hr & H). eexists. split; [apply in_map_iff; exists r; split; [reflexivity|exact Hr]|exact H].
    - destruct ex; try discriminate. cbn [expand]. split; [intros (i' & [<-|[]] & H); exact H|intros H; eexists; split; [left; reflexivity|exact H]].
    - cbn [expand]. split; [intros (i' & [<-|[]] & H); exact H|intros H; eexists; split; [left; reflexivity|exact H]]. }
  split; intros (i & Hi & H); exists i; (split; [exact Hi|]); apply (Hper i Hi); exact H.
Qed.
Print Assumptions lemma_Bx_select.

(** ** in terms of the executable guards of LemmaBExpr.v: [lemma_Bx_statement] for every statement of the fragment
    except INSERT with a column list ([no_cols]; no counterexample is known with a column list - [lemma_Bx_tests] of
    LemmaBExpr.v has four such instances that hold - the case is only not proved) *)
Definition no_cols (s : stmt) : bool := match s with SInsert _ (Some _) _ => false | _ => true end.

Theorem lemma_Bx_partial : forall noise e s,
  noise_ok noise = true -> env_ok e = true -> stmt_ok_x s = true -> colshape s = true -> no_cols s = true ->
  script_pairs e false [] [r_stmt_x noise s] = spec_pairs (e_cfg e) s.
Proof.
  intros noise e s Hn He Hok Hc Hnc.
  assert (K : exists t items from cj,
            (s = SInsert t None (QSelect items from cj None) \/ s = SCtas t (QSelect items from cj None) \/ s = SView t (QSelect items from cj None)) /\
            tref_ok t && forallb item_ok_x items && negb (is_nil from) && forallb rel_ok from && trefs_distinct (map rtref from) = true).
  { destruct s as [t cols q|t q|t q|q|kind]; cbn [stmt_ok_x] in Hok; try discriminate;
      destruct q as [items from cj [wh|]| |]; try discriminate; exists t, items, from, cj.
    - destruct cols as [cs|]; [discriminate Hnc|]. rewrite andb_true_r in Hok. split; [left; reflexivity|exact Hok].
    - split; [right; left; reflexivity|exact Hok].
    - split; [right; right; reflexivity|exact Hok]. }
  destruct K as (t & items & from & cj & Hs & H). apply andb_true_iff in H. destruct H as [H Hd]. apply andb_true_iff in H. destruct H as [H Hrel].
  apply andb_true_iff in H. destruct H as [H Hne]. apply andb_true_iff in H. destruct H as [Ht Hit].
  apply (lemma_Bx_select noise e s t items from cj Hn He Hs Ht Hit); [|exact Hrel|exact Hd|exact Hc].
  destruct from; [discriminate Hne|discriminate].
Qed.
Print Assumptions lemma_Bx_partial.

(** non-vacuity: the instances of [tx1] (LemmaBExpr.v) without column list that are inside the guards *)
Example ex_Bx_partial_hyps :
  map (fun s => noise_ok [ws; cmt] && env_ok e_cxB && stmt_ok_x s && colshape s && no_cols s) tx1 =
  [true; true; true; false; false; false; true; true; true; false; true; true; false; false].
Proof. vm_compute. reflexivity. Qed.
Example ex_Bx_partial_instance :
  script_pairs e_cxB false [] [r_stmt_x [ws; cmt] (nth 7 tx1 (SNoData 0))] =
  ["<default>.t2.b><default>.x.k"; "a{<default>.t1,<default>.t2}><default>.x.k";
   "a{<default>.t1,<default>.t2}><default>.x.w"; "c{<default>.t1,<default>.t2}><default>.x.w"].
Proof. vm_compute. reflexivity. Qed.

(** the case left open, type-checked *)
Definition lemma_Bx_cols_statement : Prop :=
  forall noise e s,
    noise_ok noise = true -> env_ok e = true -> stmt_ok_x s = true -> colshape s = true -> no_cols s = false ->
    script_pairs e false [] [r_stmt_x noise s] = spec_pairs (e_cfg e) s.
