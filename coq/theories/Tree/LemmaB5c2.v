(** Lemma B, step 5c, continued: FROM lists with several relations, each a base table or a derived table over base
    tables ("depth 1").  See the summary at the end of the file. *)
From Coq Require Import Permutation.
From SV Require Import Tree.Render Tree.LemmaA Tree.LemmaAProofs Tree.LemmaB Tree.LemmaBProofs Tree.LemmaB5cPaths Tree.LemmaB5c
     Ident.Escape Ident.EscapeProofs Holder.PathProofs Holder.SortProofs.
From SV Require TriviaProofs.
Open Scope string_scope.
Open Scope list_scope.

(* ================================================================== *)
(** * Part B: blocks (one per derived table): the sub-query node, its tables, its select items *)
Definition block := (dataset * list dataset * list xcol)%type.
Definition bsq (b : block) : dataset := fst (fst b).
Definition bts (b : block) : list dataset := snd (fst b).
Definition bxs (b : block) : list xcol := snd b.
Definition bNM (b : block) : list string := unres_names (bts b) (bxs b).
Definition ELb (b : block) : list (Graph.node * Graph.node) := EL_of (bsq b) (bts b) (bxs b).
Definition FIb (b : block) : list flow := flows_of (S_of (bts b)) (own_pairs (bsq b) (bxs b)).

(** the columns of a holder with the blocks [BL] *)
Definition PCn (BL : list block) (c : column) : Prop :=
  String.eqb (craw c) "*" = false /\
  (PC1 c \/
   (exists b nm, In b BL /\ In nm (bNM b) /\ c = Ucol (bts b) nm /\ escape nm = nm /\ 2 <= List.length (cparents c)) \/
   (exists b, In b BL /\ cparents c = [bsq b])).

Lemma PCn_star BL c : PCn BL c -> String.eqb (craw c) "*" = false.
Proof. intros [H _]. exact H. Qed.

Lemma PCn_PC4 BL b c : In b BL -> String.eqb (craw c) "*" = false -> PC4 (bts b) (bNM b) c -> PCn BL c.
Proof.
  intros Hb Hs [H|(nm & H1 & H2 & H3 & H4)]; split; auto. right. left. exists b, nm. auto.
Qed.

(** what a block has to satisfy (with respect to the target [d]) *)
Record block_ok (d : dataset) (b : block) : Prop := {
  bo_subq : dk (bsq b) = KSubq;
  bo_data : data_ok (bsq b);
  bo_group : group_ok d (bts b);
  bo_inj : ts_inj (bts b);
  bo_nodot : names_nodot (bts b);
  bo_tdata : Forall data_ok (bts b);
  bo_xok : Forall xcol_ok (bxs b);
  bo_xref : forall x, In x (bxs b) -> xref_ok (bts b) x /\ nostar_x x
}.

(** the holder of one block: a SELECT over base tables written to the sub-query node *)
Lemma block_holder e d BL b :
  env_ok e = true -> dk d = KTable -> block_ok d b -> In b BL ->
  exists sh,
    (do g2 <- end_of_query_cleanup e (add_write empty_graph (bsq b)) (bts b) (bxs b) []; expand_wildcard e g2) = Ok sh /\
    ext (add_write empty_graph (bsq b)) sh (ELb b) /\
    sel_inv2 (PCn BL) (bsq b :: bts b) (bts b) (bts b) sh /\
    (forall k, k <> "read" -> holder_nodes sh k = holder_nodes (add_write empty_graph (bsq b)) k) /\ gok sh.
Proof.
  intros Henv Hkd [Hks Hds Hgo Hinj Hnd Hdo Hxo Hxs'] Hb. destruct b as [[sq ts'] xs']. cbn [bsq bts bxs fst snd] in *.
  assert (Hsqd : forall v, In v ts' -> dataset_eqb v sq = false).
  { intros v Hv. unfold dataset_eqb. rewrite (go_tables _ _ Hgo v Hv), Hks. reflexivity. }
  assert (Gin : group2 (sq :: ts') ts' ts' sq).
  { constructor; auto.
    - intros v Hv. right. exact Hv.
    - left. reflexivity.
    - rewrite Forall_forall in Hdo. exact Hdo.
    - intros v w [<-|Hv] [<-|Hw] E; [reflexivity| | |exact (go_distinct _ _ Hgo v w Hv Hw E)].
      + rewrite dataset_eqb_sym, (Hsqd w Hw) in E. discriminate.
      + rewrite (Hsqd v Hv) in E. discriminate. }
  destruct (select_core2 (PCn BL) e (sq :: ts') ts' sq ts' xs' (S_of ts') (add_write empty_graph sq) Gin (PCn_star BL)) as (sh & Esh & Xsh & Ish & Tsh).
  { split; [intros n [<-|[]]; left; reflexivity|intros e0 []]. }
  { intros e0 []. }
  { intros n a0 [H|[]]. inversion H. intros [K|[]]. discriminate K. }
  { reflexivity. }
  { reflexivity. }
  { intros g2 Hinv x Hx. apply (HS_of (PCn BL) e sq ts' g2 x); auto.
    - constructor; [exact (go_tables _ _ Hgo)|exact (go_distinct _ _ Hgo)|exact Hsqd].
    - apply sel_inv2_sel_inv. exact Hinv.
    - exact (proj1 (Hxs' x Hx)). }
  { intros x Hx. destruct (Hxs' x Hx) as [Hxr Hxn].
    destruct (S_of_props d ts' xs' x Hgo Hinj Hkd Hx Hxr) as (A1 & _ & A3 & A4 & _). split; [exact A1|]. split; [|split; [exact A3|]].
    - split; [rewrite (own_col_eq sq x A1); exact (proj1 Hxn)|]. right. right. exists (sq, ts', xs'). split; [exact Hb|].
      rewrite (own_col_eq sq x A1). reflexivity.
    - intros s Hs. destruct (A4 s Hs) as [B1 B2]. split; [|exact B2].
      apply (PCn_PC4 BL (sq, ts', xs')); [exact Hb|exact (S_of_nostar ts' x s Hxn Hs)|exact B1]. }
  exists sh. split; [exact Esh|]. split; [exact Xsh|]. split; [exact Ish|]. split; [exact Tsh|].
  destruct (select_tail e Henv (add_write empty_graph sq) ts' xs' []) as (g3 & E3 & G3 & _).
  - apply gok_add_tag; [exact gok_empty|exact Hds].
  - exact Hdo.
  - exact Hxo.
  - cbn. lia.
  - rewrite Esh in E3. inversion E3. exact G3.
Qed.

(** the tags after composing the holder of a sub-query into a holder with the single write node [d] *)
Lemma compose_sub_tags2 g d sq sh :
  gok g -> sq_write g = [d] -> sq_cte g = [] -> dk d = KTable -> dk sq = KSubq -> gok sh ->
  (forall k, k <> "read" -> holder_nodes sh k = holder_nodes (add_write empty_graph sq) k) ->
  let g1 := compose g (set_attr sh [NData sq] "write" false) in
  gok g1 /\ sq_write g1 = [d] /\ sq_cte g1 = [].
Proof.
  intros G0 W0 C0 Hkd Hks Hsh Ht g1. set (h := set_attr sh [NData sq] "write" false).
  assert (Gh : gok h) by (apply gok_set_attr_write; assumption).
  assert (G1 : gok g1) by (apply gok_compose; assumption).
  assert (Hhw : forall x, ~ In x (holder_nodes h "write")).
  { intros x Hx. apply tag_set_attr_write in Hx. destruct Hx as [Hx Hne]. rewrite (Ht "write") in Hx by discriminate.
    cbn in Hx. destruct Hx as [<-|[]]. rewrite dataset_eqb_refl in Hne. discriminate. }
  assert (Hw : forall x, In x (sq_write g1) -> x = d).
  { intros x Hx. destruct (tag_compose_sound g h "write" x Gh Hx) as [H|(d' & Hd' & _)]; [|exfalso; exact (Hhw d' Hd')].
    fold (sq_write g) in H. rewrite W0 in H. destruct H as [<-|[]]. reflexivity. }
  split; [exact G1|]. split.
  - assert (Hin : In d (sq_write g1)).
    { apply tag_compose_mono; [exact Gh|right; rewrite Hkd; discriminate|]. fold (sq_write g). rewrite W0. left. reflexivity. }
    assert (Hlen : List.length (sq_write g1) <= 1).
    { apply one_write_length; [exact G1|]. intros d1 d2 H1 H2. rewrite (Hw d1 H1), (Hw d2 H2). apply dataset_eqb_refl. }
    destruct (sq_write g1) as [|x [|y r]]; [destruct Hin| |cbn in Hlen; lia]. rewrite (Hw x (or_introl eq_refl)). reflexivity.
  - apply list_no_members. intros x Hx. destruct (tag_compose_sound g h "cte" x Gh Hx) as [H|(d' & Hd' & _)].
    + fold (sq_cte g) in H. rewrite C0 in H. destruct H.
    + unfold h in Hd'. rewrite (tag_set_attr_other sh _ "write" false "cte") in Hd' by discriminate.
      rewrite (Ht "cte") in Hd' by discriminate. destruct Hd'.
Qed.

(** the invariant of the holder while the sub-queries are composed in: [EL] are its edges *)
Record hinv (BL : list block) (DS AL : list dataset) (d : dataset) (g : graph) (EL : list (Graph.node * Graph.node)) : Prop := {
  hi_gok : gok g;
  hi_write : sq_write g = [d];
  hi_cte : sq_cte g = [];
  hi_lits : lits_in (QK DS (PCn BL)) g;
  hi_edges : edges_inv AL g;
  hi_drop : drop_free g;
  hi_he : forall x y, has_edge g x y = ematch x y EL;
  hi_nodes : forall p, In p EL -> has_node g (fst p) = true /\ has_node g (snd p) = true
}.

Lemma hinv_step BL DS AL d g EL b sh :
  dk d = KTable -> block_ok d b -> (forall v, In v (bsq b :: bts b) -> In v DS) -> (forall v, In v (bts b) -> In v AL) ->
  hinv BL DS AL d g EL ->
  ext (add_write empty_graph (bsq b)) sh (ELb b) -> sel_inv2 (PCn BL) (bsq b :: bts b) (bts b) (bts b) sh ->
  (forall k, k <> "read" -> holder_nodes sh k = holder_nodes (add_write empty_graph (bsq b)) k) -> gok sh ->
  hinv BL DS AL d (compose g (set_attr sh [NData (bsq b)] "write" false)) (EL ++ ELb b).
Proof.
  intros Hkd Hbo HDS HAL [G0 W0 C0 L0 E0 D0 HE0 N0] Xsh Ish Tsh Gsh.
  destruct (compose_sub_tags2 g d (bsq b) sh G0 W0 C0 Hkd (bo_subq _ _ Hbo) Gsh Tsh) as (G1 & W1 & C1).
  constructor; auto.
  - apply lits_compose; [exact L0|]. apply lits_set_attr. apply (lits_weaken (QK (bsq b :: bts b) (PCn BL))); [|exact (si2_lits _ _ _ _ _ Ish)].
    intros n. destruct n; cbn [QK]; auto.
  - apply edges_inv_compose; [exact E0|]. apply (edges_inv_mono (bts b)); [exact HAL|exact (si2_edges _ _ _ _ _ Ish)].
  - apply drop_free_compose; [exact D0|]. apply drop_free_set_attr; [exact (si2_drop _ _ _ _ _ Ish)|discriminate].
  - intros x y. rewrite has_edge_compose, has_edge_set_attr, (ext_edges _ _ _ Xsh), has_edge_add_write, HE0, ematch_app. reflexivity.
  - intros p Hp. rewrite !has_node_compose, !has_node_set_attr. apply in_app_iff in Hp. destruct Hp as [Hp|Hp].
    + destruct (N0 p Hp) as [A B]. rewrite A, B. auto.
    + destruct (ext_new _ _ _ Xsh p Hp) as [A B]. rewrite A, B, !orb_true_r. auto.
Qed.

(* ================================================================== *)
(** * Part N: the extractor on the sub-queries of a FROM list, one after the other *)
Lemma ex_subquery_one e f sq rest g :
  ex_subquery f e (sq :: rest) g = (do g' <- ex_subquery f e [sq] g; ex_subquery f e rest g').
Proof.
  rewrite !ex_subquery_cons. destruct (match dquery sq with Some _ => _ | None => _ end) as [g'|x]; reflexivity.
Qed.

Section NavN.
Variable noise : list seg.
Hypothesis Hnoise : noise_ok noise = true.
Variable e : env.
Hypothesis Henv : env_ok e = true.

Definition blk (k : nat) (r : rel) : list block :=
  match r with
  | RDerived (QSelect items' from' cj' None) a =>
      [(sqd noise k (QSelect items' from' cj' None) a, map (tbl_of e) from', map xcol_of items')]
  | _ => []
  end.
Definition blocks (k : nat) (from : list rel) : list block := flat_map (blk k) from.

Lemma subs_fold BL DS AL d f k : forall from g EL,
  dk d = KTable -> forallb rel2_ok from = true ->
  (forall b, In b (blocks (S k) from) -> block_ok d b /\ In b BL /\ (forall v, In v (bsq b :: bts b) -> In v DS) /\ (forall v, In v (bts b) -> In v AL)) ->
  hinv BL DS AL d g EL ->
  exists g1, ex_subquery (S (S f)) e (sq_list noise (S k) from) g = Ok g1 /\
             hinv BL DS AL d g1 (EL ++ flat_map ELb (blocks (S k) from)).
Proof.
  induction from as [|r rest IH]; intros g EL Hkd Hok Hbl Hinv.
  - exists g. split; [reflexivity|]. cbn [blocks flat_map]. rewrite app_nil_r. exact Hinv.
  - cbn [forallb] in Hok. apply andb_true_iff in Hok. destruct Hok as [Hr Hok].
    assert (Hbl' : forall b, In b (blocks (S k) rest) -> block_ok d b /\ In b BL /\ (forall v, In v (bsq b :: bts b) -> In v DS) /\ (forall v, In v (bts b) -> In v AL)).
    { intros b Hb. apply Hbl. unfold blocks. cbn [flat_map]. apply in_app_iff. right. exact Hb. }
    destruct r as [t al|q a|x y]; [| |discriminate].
    + cbn [sq_list flat_map app blocks blk]. apply (IH g EL Hkd Hok Hbl' Hinv).
    + cbn [rel2_ok] in Hr. apply andb_true_iff in Hr. destruct Hr as [Ha Hq].
      destruct q as [items' from' cj' [wh|]| |]; try discriminate.
      set (q' := QSelect items' from' cj' None) in *. set (b := (sqd noise (S k) q' a, map (tbl_of e) from', map xcol_of items')).
      assert (Hb : In b (blocks (S k) (RDerived q' a :: rest))) by (unfold blocks; cbn [flat_map blk]; left; reflexivity).
      destruct (Hbl b Hb) as (Bok & BinBL & BDS & BAL).
      change (sq_list noise (S k) (RDerived q' a :: rest)) with (sqd noise (S k) q' a :: sq_list noise (S k) rest).
      rewrite ex_subquery_one. unfold q' at 1.
      rewrite (sub_extract noise Hnoise e Henv f k g items' from' cj' a Hq (hi_cte _ _ _ _ _ _ Hinv)). fold q'.
      destruct (block_holder e d BL b Henv Hkd Bok BinBL) as (sh & Esh & Xsh & Ish & Tsh & Gsh).
      change (bsq b) with (sqd noise (S k) q' a) in Esh. change (bts b) with (map (tbl_of e) from') in Esh. change (bxs b) with (map xcol_of items') in Esh.
      rewrite Esh. cbv beta iota.
      pose proof (hinv_step BL DS AL d g EL b sh Hkd Bok BDS BAL Hinv Xsh Ish Tsh Gsh) as Hinv1.
      destruct (IH _ _ Hkd Hok Hbl' Hinv1) as (g1 & E1 & Hinv2). exists g1. split; [exact E1|].
      unfold blocks in *. cbn [flat_map blk]. fold q'. cbn [app flat_map]. rewrite <- app_assoc in Hinv2. exact Hinv2.
Qed.
End NavN.

(* ================================================================== *)
(** * Part D: the outer SELECT over tables and sub-queries, and the flows of the whole holder *)

(** a select item of the outer query: qualified, or unqualified over ONE relation (never unresolved) *)
Definition xref_q (ts : list dataset) (x : xcol) : Prop :=
  xref_ok ts x /\ forall c, xsrc x = [(c, None)] -> exists d1, ts = [d1].

Lemma S_of_q ts x s : xref_q ts x -> In s (S_of ts x) -> exists v, In v ts /\ s = {| craw := craw s; cparents := [v] |}.
Proof.
  intros [(_ & c & qq & Ex & _ & Hq) Hu] Hs. unfold S_of in Hs. rewrite Ex in Hs. destruct qq as [q|].
  - destruct (find (fun v => String.eqb (dalias v) q) ts) as [v|] eqn:Ef; [|destruct Hs]. destruct Hs as [<-|[]].
    apply find_some in Ef. exists v. split; [exact (proj1 Ef)|reflexivity].
  - destruct (Hu c Ex) as (d1 & ->). destruct Hs as [<-|[]]. exists d1. split; [left; reflexivity|reflexivity].
Qed.

Lemma HS_of_q (PC : column -> Prop) e DS AL d ts g x :
  group2 DS AL ts d -> sel_inv2 PC DS AL ts g -> xref_q ts x ->
  to_source_columns e x (get_alias_mapping g ts) = Ok (S_of ts x).
Proof.
  intros Hgo Hinv [(_ & c & qq & Hx & Hc & Hq) Hu]. unfold S_of. rewrite Hx. destruct qq as [q|].
  - destruct Hq as (w & Hw & Eq & Hu'). rewrite (find_dalias ts q w Hw Eq (fun w' Hw' E => Hu' w' Hw' (or_introl E))).
    apply (tsc_qualified e x _ c q w); [exact Hx|exact Hc|]. apply (am_lookup2 PC DS AL ts d g q w); assumption.
  - destruct (Hu c Hx) as (d1 & ->). apply tsc_unq_single; [exact Hx|exact Hc|]. apply (am_values_single2 PC DS AL d d1 g); assumption.
Qed.

(** edges that leave a dataset node inside a block *)
Lemma ematch_ELb_data d b p y :
  dk d = KTable -> block_ok d b -> ematch (NData p) y (ELb b) = true ->
  (exists v, In v (bts b) /\ dataset_eqb p v = true) \/ dataset_eqb p (bsq b) = true.
Proof.
  intros Hkd Hbo H. unfold ELb, EL_of in H. rewrite ematch_app in H. apply orb_true_iff in H. destruct H as [H|H].
  - unfold ematch in H. apply existsb_exists in H. destruct H as (pr & Hpr & E). apply in_map_iff in Hpr. destruct Hpr as (v & <- & Hv).
    cbn [fst snd] in E. apply andb_true_iff in E. left. exists v. split; [exact Hv|exact (proj1 E)].
  - apply ematch_sel_data in H. destruct H as (x0 & s & Hx0 & Hs & [[K _]|(sp & Esp & K & _)]); [right; exact K|].
    unfold own_pairs in Hx0. apply in_map_iff in Hx0. destruct Hx0 as (x1 & <- & Hx1). cbn [fst] in Hs.
    destruct (S_of_props d (bts b) (bxs b) x1 (bo_group _ _ Hbo) (bo_inj _ _ Hbo) Hkd Hx1 (proj1 (bo_xref _ _ Hbo x1 Hx1))) as (_ & _ & _ & A4 & _).
    destruct (A4 s Hs) as [_ B2]. left. exists sp. split; [apply B2; rewrite (col_parent_some _ _ Esp); left; reflexivity|exact K].
Qed.

Lemma unres_names_src ts xs nm : (forall x, In x xs -> xref_ok ts x) -> In nm (unres_names ts xs) ->
  exists x, In x xs /\ In (Ucol ts nm) (S_of ts x) /\ multi ts /\ xsrc x = [(nm, None)].
Proof.
  intros Hxs Hnm. unfold unres_names in Hnm.
  assert (Hm : In nm (flat_map (fun x => match xsrc x with [(c, None)] => [c] | _ => [] end) xs) /\ (forall d1, ts <> [d1])).
  { destruct ts as [|a0 [|b r]]; [split; [exact Hnm|discriminate]|destruct Hnm|split; [exact Hnm|discriminate]]. }
  destruct Hm as [Hin Hns]. apply in_flat_map in Hin. destruct Hin as (x & Hx & Hin). exists x. split; [exact Hx|].
  destruct (Hxs x Hx) as (_ & c & qq & Ex & _ & Hq). rewrite Ex in Hin. destruct qq as [q0|]; [destruct Hin|]. destruct Hin as [->|[]].
  destruct Hq as [(d1 & Ed)|[Hmul _]]; [exfalso; exact (Hns d1 Ed)|].
  split; [|split; [exact Hmul|exact Ex]]. unfold S_of. rewrite Ex, (multi_not_single ts _ _ _ Hmul). left. reflexivity.
Qed.

Lemma ematch_flat (BL : list block) x y : is_column x = true ->
  ematch x y (flat_map ELb BL) = ematch x y (map (fun f : flow => (NCol (fst f), NCol (snd f))) (flat_map FIb BL)).
Proof.
  intros Hx. induction BL as [|b r IH]; [reflexivity|]. cbn [flat_map]. rewrite map_app, !ematch_app, IH. f_equal.
  unfold ELb, EL_of, FIb. rewrite ematch_app, (ematch_alias_col x y _ Hx), (ematch_sel_col _ _ _ x y Hx). reflexivity.
Qed.

Theorem holder_flat e d BL TO xs DS AL g1 :
  env_ok e = true -> dk d = KTable -> data_ok d ->
  (forall b, In b BL -> block_ok d b) ->
  (forall v, In v TO -> dk v = KTable \/ exists b, In b BL /\ v = bsq b) ->
  (forall b, In b BL -> forall v, In v (bsq b :: bts b) -> In v DS) ->
  group2 DS AL TO d ->
  (forall x, In x xs -> xref_q TO x /\ nostar_x x) ->
  (* the name of an unresolved column is the name of no other source column, and belongs to one block *)
  (forall b nm, In b BL -> In nm (bNM b) ->
     (forall b' x' s' v, In b' BL -> In x' (bxs b') -> In s' (S_of (bts b') x') -> cparents s' = [v] -> craw s' <> nm) /\
     (forall x s, In x xs -> In s (S_of TO x) -> craw s <> nm) /\
     (forall b', In b' BL -> In nm (bNM b') -> b' = b)) ->
  (* the sub-query columns the outer query reads exist *)
  (forall x s b, In x xs -> In s (S_of TO x) -> In b BL -> cparents s = [bsq b] ->
     exists x', In x' (bxs b) /\ craw (xc x') = craw s /\ S_of (bts b) x' <> []) ->
  hinv BL DS AL d g1 (flat_map ELb BL) ->
  let g0 := add_write empty_graph d in
  let FI := flat_map FIb BL in
  let FO := flows_of (S_of TO) (own_pairs d xs) in
  exists sub,
    (do g2 <- end_of_query_cleanup e g1 TO xs []; expand_wildcard e g2) = Ok sub /\
    clean_holder (compose g0 sub) /\ lits_in (unres_ok (compose g0 sub)) (compose g0 sub) /\
    realises (compose g0 sub) (FI ++ FO) /\ two_layer FI FO.
Proof.
  intros Henv Hkd Hdd HBL HTO HinDS Gout Hxs HU Hfed [G1 W1 C1 L1 E1 D1 HE1 N1] g0 FI FO.
  assert (HTOd : forall v, In v TO -> In v DS) by (intros v Hv; apply (g2_al _ _ _ _ Gout); apply (g2_sub _ _ _ _ Gout); exact Hv).
  (* no edge leaves the target in g1 *)
  assert (HdDS : In d DS) by exact (g2_d _ _ _ _ Gout).
  assert (Hsrc : forall x s, In x xs -> In s (S_of TO x) -> exists v, In v TO /\ s = {| craw := craw s; cparents := [v] |}).
  { intros x s Hx Hs. exact (S_of_q TO x s (proj1 (Hxs x Hx)) Hs). }
  assert (HbDS : forall b, In b BL -> lits_in (QK DS (PCn BL)) g1 -> True) by auto.
  assert (Hnd : forall b p, In b BL -> (exists v, In v (bts b) /\ dataset_eqb p v = true) \/ dataset_eqb p (bsq b) = true -> dataset_eqb p d = false).
  { intros b p Hb [(v & Hv & E)|E].
    - destruct (dataset_eqb p d) eqn:E2; [|reflexivity]. rewrite <- (go_target _ _ (bo_group _ _ (HBL b Hb)) v Hv).
      symmetry. apply (dataset_eqb_trans v p d); [apply dataset_eqb_true_sym; exact E|exact E2].
    - unfold dataset_eqb in *. apply andb_true_iff in E. destruct E as [E _]. apply dkind_beq_eq in E. rewrite E, (bo_subq _ _ (HBL b Hb)), Hkd. reflexivity. }
  assert (O1 : out_edges g1 (NData d) = []).
  { apply out_edges_none. intros y. rewrite HE1. unfold ematch. apply existsb_none. intros pr Hpr. apply in_flat_map in Hpr.
    destruct Hpr as (b & Hb & Hpr). destruct (node_eqb (NData d) (fst pr) && node_eqb y (snd pr)) eqn:E; [|reflexivity]. exfalso.
    assert (Em : ematch (NData d) y (ELb b) = true) by (unfold ematch; apply existsb_exists; exists pr; auto).
    pose proof (Hnd b d Hb (ematch_ELb_data d b d y Hkd (HBL b Hb) Em)) as K. rewrite dataset_eqb_refl in K. discriminate. }
  destruct (select_core2 (PCn BL) e DS AL d TO xs (S_of TO) g1 Gout (PCn_star BL) L1 E1 D1 W1 O1) as (sub & Esub & Xsub & Isub & Tsub).
  { intros g2 Hinv x Hx. apply (HS_of_q (PCn BL) e DS AL d TO g2 x Gout Hinv). exact (proj1 (Hxs x Hx)). }
  { intros x Hx. destruct (Hxs x Hx) as [Hxr Hxn]. pose proof (proj1 Hxr) as (A1 & c & qq & Ex & Ec & Hq). split; [exact A1|]. split; [|split].
    - split; [rewrite (own_col_eq d x A1); exact (proj1 Hxn)|]. left. exists d. rewrite (own_col_eq d x A1). auto.
    - unfold S_of. rewrite Ex. destruct qq; [destruct (find _ _)|destruct TO as [|? [|]]]; cbn; lia.
    - intros s Hs. destruct (Hsrc x s Hx Hs) as (v & Hv & Es). split.
      + split; [exact (S_of_nostar TO x s Hxn Hs)|]. destruct (HTO v Hv) as [Hk|(b & Hb & ->)].
        * left. exists v. rewrite Es. auto.
        * right. right. exists b. rewrite Es. auto.
      + intros p Hp. rewrite Es in Hp. destruct Hp as [<-|[]]. exact Hv. }
  exists sub. split; [exact Esub|].
  set (G := compose g0 sub). set (ELin := flat_map ELb BL). set (ELout := EL_of d TO xs).
  assert (HE : forall x y, has_edge G x y = ematch x y ELin || ematch x y ELout).
  { intros x y. unfold G, g0. rewrite has_edge_compose, has_edge_add_write, (ext_edges _ _ _ Xsub), HE1. reflexivity. }
  assert (Hflat : forall x y, is_column x = true -> ematch x y ELin = ematch x y (map (fun f : flow => (NCol (fst f), NCol (snd f))) FI)) by (intros x y Hx; apply ematch_flat; exact Hx).
  assert (HEc : forall x y, is_column x = true -> has_edge G x y = ematch x y (map (fun f : flow => (NCol (fst f), NCol (snd f))) (FI ++ FO))).
  { intros x y Hx. rewrite HE, (Hflat x y Hx). unfold ELout, EL_of. rewrite ematch_app, (ematch_alias_col x y _ Hx), (ematch_sel_col _ _ _ x y Hx).
    rewrite map_app, ematch_app. reflexivity. }
  assert (Rc : forall f, In f (FI ++ FO) -> has_edge G (NCol (fst f)) (NCol (snd f)) = true).
  { intros f Hf. rewrite HEc by reflexivity. unfold ematch. apply existsb_exists. exists (NCol (fst f), NCol (snd f)).
    split; [apply in_map_iff; exists f; auto|]. cbn [fst snd]. rewrite !node_eqb_refl. reflexivity. }
  (* the shape of the flows *)
  assert (HFI : forall f, In f FI -> exists b x s, In b BL /\ In x (bxs b) /\ In s (S_of (bts b) x) /\
                  f = (s, {| craw := craw (xc x); cparents := [bsq b] |}) /\
                  ((exists v, In v (bts b) /\ cparents s = [v]) \/
                   (exists nm, In nm (bNM b) /\ s = Ucol (bts b) nm /\ escape nm = nm /\ 2 <= List.length (cparents s)))).
  { intros f Hf. unfold FI in Hf. apply in_flat_map in Hf. destruct Hf as (b & Hb & Hf). unfold FIb in Hf.
    apply flows_of_In in Hf. destruct Hf as (p & s & Hp & Hs & ->). unfold own_pairs in Hp. apply in_map_iff in Hp.
    destruct Hp as (x & <- & Hx). cbn [fst snd] in *. exists b, x, s. split; [exact Hb|]. split; [exact Hx|]. split; [exact Hs|].
    pose proof (HBL b Hb) as Hbo.
    destruct (S_of_props d (bts b) (bxs b) x (bo_group _ _ Hbo) (bo_inj _ _ Hbo) Hkd Hx (proj1 (bo_xref _ _ Hbo x Hx))) as (A1 & _ & _ & _ & A5).
    split; [|exact (A5 s Hs)]. rewrite (own_col_eq (bsq b) x A1). reflexivity. }
  assert (HFO : forall f, In f FO -> exists x s v, In x xs /\ In s (S_of TO x) /\ In v TO /\ cparents s = [v] /\
                                              f = (s, {| craw := craw (xc x); cparents := [d] |})).
  { intros f Hf. apply flows_of_In in Hf. destruct Hf as (p & s & Hp & Hs & ->). unfold own_pairs in Hp. apply in_map_iff in Hp.
    destruct Hp as (x & <- & Hx). cbn [fst snd] in *. destruct (Hsrc x s Hx Hs) as (v & Hv & Es). exists x, s, v.
    split; [exact Hx|]. split; [exact Hs|]. split; [exact Hv|]. split; [rewrite Es; reflexivity|].
    rewrite (own_col_eq d x (proj1 (proj1 (proj1 (Hxs x Hx))))). reflexivity. }
  assert (LG : lits_in (QK DS (PCn BL)) G).
  { apply lits_compose; [|exact (si2_lits _ _ _ _ _ Isub)]. split; [intros n [<-|[]]; exact HdDS|intros e0 []]. }
  (* parents: kinds *)
  assert (Kin : forall b v, In b BL -> In v (bts b) -> dk v = KTable) by (intros b v Hb Hv; exact (go_tables _ _ (bo_group _ _ (HBL b Hb)) v Hv)).
  assert (Hmid : forall c b, In b BL -> cparents c = [bsq b] -> is_mid c = true).
  { intros c b Hb Ec. unfold is_mid. cbn [parent_is]. unfold col_parent. rewrite Ec, (bo_subq _ _ (HBL b Hb)). reflexivity. }
  assert (Hnomid : forall s, ((exists v, dk v = KTable /\ cparents s = [v]) \/ 2 <= List.length (cparents s)) -> is_mid s = false).
  { intros s [(v & Hv & Ev)|Hl]; unfold is_mid; cbn [parent_is].
    - unfold col_parent. rewrite Ev, Hv. reflexivity.
    - rewrite (col_parent_none _ Hl). reflexivity. }
  (* a produced column (of a sub-query or of the target) differs from a column with table parents other than the target *)
  assert (Hfresh : forall s c, ((exists v, dk v = KTable /\ dataset_eqb v d = false /\ cparents s = [v]) \/ 2 <= List.length (cparents s)) ->
                               ((exists b, In b BL /\ cparents c = [bsq b]) \/ cparents c = [d]) -> col_eqb c s = false).
  { intros s c Hs Hc. unfold col_eqb. apply andb_false_iff. right.
    destruct Hs as [(v & Hv & Hvd & Ev)|Hl].
    - unfold col_parent. rewrite Ev. destruct Hc as [(b & Hb & ->)| ->]; cbn [opt_dataset_eqb].
      + unfold dataset_eqb. rewrite (bo_subq _ _ (HBL b Hb)), Hv. reflexivity.
      + rewrite dataset_eqb_sym. exact Hvd.
    - rewrite (col_parent_none _ Hl). unfold col_parent. destruct Hc as [(b & Hb & ->)| ->]; reflexivity. }
  assert (KI : forall f, In f FI -> ((exists v, dk v = KTable /\ dataset_eqb v d = false /\ cparents (fst f) = [v]) \/ 2 <= List.length (cparents (fst f))) /\
                                  exists b, In b BL /\ cparents (snd f) = [bsq b]).
  { intros f Hf. destruct (HFI f Hf) as (b & x & s & Hb & _ & _ & -> & Hk). cbn [fst snd cparents]. split; [|exists b; auto].
    destruct Hk as [(v & Hv & Ev)|(nm & _ & _ & _ & Hl)]; [left|right; exact Hl].
    exists v. split; [exact (Kin b v Hb Hv)|]. split; [exact (go_target _ _ (bo_group _ _ (HBL b Hb)) v Hv)|exact Ev]. }
  assert (KO : forall f, In f FO -> (exists v, In v TO /\ cparents (fst f) = [v]) /\ cparents (snd f) = [d]).
  { intros f Hf. destruct (HFO f Hf) as (x & s & v & _ & _ & Hv & Ev & ->). cbn [fst snd cparents]. split; [exists v; auto|reflexivity]. }
  assert (KOs : forall f, In f FO -> is_mid (fst f) = true -> exists b, In b BL /\ cparents (fst f) = [bsq b]).
  { intros f Hf Hm. destruct (KO f Hf) as [(v & Hv & Ev) _]. destruct (HTO v Hv) as [Hk|(b & Hb & ->)]; [|exists b; auto].
    rewrite (Hnomid (fst f)) in Hm; [discriminate|]. left. exists v. auto. }
  assert (KOt : forall f, In f FO -> is_mid (fst f) = false -> exists v, dk v = KTable /\ dataset_eqb v d = false /\ cparents (fst f) = [v]).
  { intros f Hf Hm. destruct (KO f Hf) as [(v & Hv & Ev) _]. destruct (HTO v Hv) as [Hk|(b & Hb & ->)].
    - exists v. split; [exact Hk|]. split; [exact (g2_target _ _ _ _ Gout v Hv)|exact Ev].
    - rewrite (Hmid (fst f) b Hb Ev) in Hm. discriminate. }
  split; [|split; [|split]].
  - (* clean_holder *)
    split.
    + intros n a Hin. destruct (attr_true "drop" a) eqn:E; [|reflexivity]. exfalso. apply attr_true_In in E.
      assert (D0 : drop_free g0) by (intros n0 a0 [H|[]]; inversion H; intros [K|[]]; discriminate K).
      exact (drop_free_compose g0 sub D0 (si2_drop _ _ _ _ _ Isub) n a Hin E).
    + apply (etype_compose (fun s => String.eqb s "rename" = false)); [intros e0 []|].
      intros e0 He0. pose proof (si2_edges _ _ _ _ _ Isub e0 He0) as Hi. unfold edge_inv in Hi.
      destruct (snd (fst e0)); [destruct Hi as [-> | ->]; reflexivity|destruct Hi as [-> | ->]; reflexivity|destruct Hi as [-> _]; reflexivity].
  - (* unresolved columns *)
    apply (lits_weaken (QK DS (PCn BL))); [|exact LG]. intros n Hn u Hu. destruct n as [|c|]; cbn [unresolved] in Hu; try discriminate.
    cbn [QK] in Hn. destruct Hn as [_ [(p & Ep & _)|[(b & nm & Hb & Hnm & -> & Enm & Hlen)|(b & _ & Ep)]]]; try (rewrite Ep in Hu; cbn in Hu; discriminate).
    destruct (Nat.ltb 1 (List.length (cparents (Ucol (bts b) nm)))); [|discriminate]. inversion Hu. subst u. clear Hu.
    pose proof (HBL b Hb) as Hbo. pose proof (bo_inj _ _ Hbo) as Hinj. destruct (Ucol_props (bts b) nm Hinj) as (U1 & _ & U3).
    destruct (HU b nm Hb Hnm) as (HU1 & HU2 & _). split.
    + unfold candidates_in_graph. apply flat_map_none. intros p Hp. rewrite U1.
      destruct (has_edge G (NData p) (NCol (mk_col nm p))) eqn:Ehe; [|reflexivity]. exfalso.
      apply U3 in Hp. pose proof (Kin b p Hb Hp) as Hkp.
      assert (HpDS : In p DS) by (apply (HinDS b Hb); right; exact Hp).
      (* an edge from the table [p] to a column named [nm]: that column is a single-parent source named [nm] *)
      assert (Hcol : forall s' sp, col_parent s' = Some sp -> In sp DS -> dataset_eqb p sp = true ->
                                   node_eqb (NCol (mk_col nm p)) (NCol s') = true -> craw s' = nm).
      { intros s' sp Esp HspDS K1 K2. pose proof (g2_distinct _ _ _ _ Gout p sp HpDS HspDS K1) as Eq. subst sp.
        cbn [node_eqb] in K2. unfold col_eqb in K2. apply andb_true_iff in K2. destruct K2 as [K2 _]. apply String.eqb_eq in K2.
        unfold col_str in K2. rewrite Esp in K2. unfold col_parent, mk_col in K2. cbn [cparents craw] in K2.
        rewrite Hkp, Enm in K2. apply append_cancel in K2. apply append_cancel in K2. symmetry. exact K2. }
      rewrite HE in Ehe. apply orb_true_iff in Ehe. destruct Ehe as [Ehe|Ehe].
      * unfold ELin, ematch in Ehe. apply existsb_exists in Ehe. destruct Ehe as (pr & Hpr & E). apply in_flat_map in Hpr. destruct Hpr as (b' & Hb' & Hpr).
        assert (Em : ematch (NData p) (NCol (mk_col nm p)) (ELb b') = true) by (unfold ematch; apply existsb_exists; exists pr; auto).
        unfold ELb, EL_of in Em. rewrite ematch_app, ematch_alias_ycol in Em. cbn [orb] in Em.
        apply ematch_sel_data in Em. destruct Em as (x' & s' & Hx' & Hs' & [[K _]|(sp & Esp & K1 & K2)]).
        -- unfold dataset_eqb in K. rewrite Hkp, (bo_subq _ _ (HBL b' Hb')) in K. discriminate.
        -- unfold own_pairs in Hx'. apply in_map_iff in Hx'. destruct Hx' as (x1 & <- & Hx1). cbn [fst] in Hs'.
           pose proof (HBL b' Hb') as Hbo'.
           destruct (S_of_props d (bts b') (bxs b') x1 (bo_group _ _ Hbo') (bo_inj _ _ Hbo') Hkd Hx1 (proj1 (bo_xref _ _ Hbo' x1 Hx1))) as (_ & _ & _ & A4 & _).
           destruct (A4 s' Hs') as [_ B2]. pose proof (col_parent_some _ _ Esp) as Ecp.
           assert (Hsp : In sp (bts b')) by (apply B2; rewrite Ecp; left; reflexivity).
           apply (HU1 b' x1 s' sp Hb' Hx1 Hs' Ecp). apply (Hcol s' sp Esp); [apply (HinDS b' Hb'); right; exact Hsp|exact K1|exact K2].
      * unfold ELout, EL_of in Ehe. rewrite ematch_app, ematch_alias_ycol in Ehe. cbn [orb] in Ehe.
        apply ematch_sel_data in Ehe. destruct Ehe as (x' & s' & Hx' & Hs' & [[K _]|(sp & Esp & K1 & K2)]).
        -- rewrite (go_target _ _ (bo_group _ _ Hbo) p Hp) in K. discriminate.
        -- unfold own_pairs in Hx'. apply in_map_iff in Hx'. destruct Hx' as (x1 & <- & Hx1). cbn [fst] in Hs'.
           destruct (Hsrc x1 s' Hx1 Hs') as (v & Hv & Es'). pose proof (col_parent_some _ _ Esp) as Ecp. rewrite Es' in Ecp. cbn [cparents] in Ecp.
           inversion Ecp. subst v. apply (HU2 x1 s' Hx1 Hs'). apply (Hcol s' sp Esp); [exact (HTOd sp Hv)|exact K1|exact K2].
    + destruct (unres_names_src (bts b) (bxs b) nm (fun x Hx => proj1 (bo_xref _ _ Hbo x Hx)) Hnm) as (x & Hx & Hs & _).
      exists (NCol (own_col (bsq b) x)). apply (Rc (Ucol (bts b) nm, own_col (bsq b) x)). apply in_app_iff. left.
      unfold FI. apply in_flat_map. exists b. split; [exact Hb|]. apply flows_of_In. exists (x, own_col (bsq b) x), (Ucol (bts b) nm).
      split; [unfold own_pairs; apply in_map_iff; exists x; auto|]. auto.
  - (* realises *)
    constructor.
    + intros x y Hx Hxy. rewrite (HEc x y Hx) in Hxy. unfold ematch in Hxy. apply existsb_exists in Hxy.
      destruct Hxy as (p & Hp & E). apply in_map_iff in Hp. destruct Hp as (f & <- & Hf). cbn [fst snd] in E.
      apply andb_true_iff in E. exists f. tauto.
    + exact Rc.
    + intros f Hf. apply in_app_iff in Hf. destruct Hf as [Hf|Hf].
      * unfold FI in Hf. apply in_flat_map in Hf. destruct Hf as (b & Hb & Hf). apply flows_of_In in Hf. destruct Hf as (p & s & Hp & Hs & ->). cbn [fst snd].
        assert (Hin : In (NCol s, NCol (snd p)) (flat_map ELb BL)).
        { apply in_flat_map. exists b. split; [exact Hb|]. unfold ELb, EL_of. apply in_app_iff. right. unfold sel_edges. apply in_flat_map. exists p.
          split; [exact Hp|]. apply in_flat_map. exists s. split; [exact Hs|]. left. reflexivity. }
        destruct (N1 _ Hin) as [A B]. cbn [fst snd] in *.
        split; unfold G; rewrite has_node_compose; apply orb_true_iff; right; apply (ext_mono _ _ _ Xsub); assumption.
      * apply flows_of_In in Hf. destruct Hf as (p & s & Hp & Hs & ->). cbn [fst snd].
        assert (Hin : In (NCol s, NCol (snd p)) (EL_of d TO xs)).
        { unfold EL_of. apply in_app_iff. right. unfold sel_edges. apply in_flat_map. exists p. split; [exact Hp|]. apply in_flat_map. exists s.
          split; [exact Hs|]. left. reflexivity. }
        destruct (ext_new _ _ _ Xsub _ Hin) as [A B]. cbn [fst snd] in *. unfold G. rewrite !has_node_compose, A, B, !orb_true_r. auto.
    + apply (lits_weaken (QK DS (PCn BL))); [|exact LG]. intros n Hn f Hf E.
      apply in_app_iff in Hf. destruct Hf as [Hf|Hf].
      * destruct (HFI f Hf) as (b & x & s & Hb & _ & _ & -> & [(v & _ & Ev)|(nm & Hnm & -> & _ & Hl)]); cbn [fst] in *.
        -- apply (src_str_eqb_single n s v); [unfold col_parent; rewrite Ev; reflexivity|exact E].
        -- destruct n as [|c|]; cbn [node_eqb] in E; try discriminate. cbn [QK] in Hn.
           unfold col_eqb in E. apply andb_true_iff in E. destruct E as [E1' E2]. rewrite (col_parent_none _ Hl) in E2.
           destruct Hn as [_ [(p & Ep & _)|[(b' & nm' & Hb' & Hnm' & -> & _ & Hl')|(b' & _ & Ep)]]]; try (unfold col_parent in E2; rewrite Ep in E2; discriminate).
           apply String.eqb_eq in E1'. unfold col_str in E1'. rewrite (col_parent_none _ Hl), (col_parent_none _ Hl') in E1'.
           rewrite (proj1 (Ucol_props (bts b) nm (bo_inj _ _ (HBL b Hb)))), (proj1 (Ucol_props (bts b') nm' (bo_inj _ _ (HBL b' Hb')))) in E1'. subst nm'.
           destruct (HU b nm Hb Hnm) as (_ & _ & HU3). rewrite (HU3 b' Hb' Hnm'). reflexivity.
      * destruct (HFO f Hf) as (x & s & v & _ & _ & _ & Ep & ->). cbn [fst] in *.
        apply (src_str_eqb_single n s v); [unfold col_parent; rewrite Ep; reflexivity|exact E].
  - (* two layers *)
    assert (KIs : forall f, In f FI -> (exists v, dk v = KTable /\ cparents (fst f) = [v]) \/ 2 <= List.length (cparents (fst f))).
    { intros f Hf. destruct (proj1 (KI f Hf)) as [(v & A & _ & B)|Hl]; [left; exists v; auto|right; exact Hl]. }
    constructor.
    + intros f Hf. apply Hnomid. exact (KIs f Hf).
    + intros f Hf. destruct (proj2 (KI f Hf)) as (b & Hb & Ep). exact (Hmid _ b Hb Ep).
    + intros f Hf. cbn [parent_is]. unfold col_parent. rewrite (proj2 (KO f Hf)), Hkd. reflexivity.
    + intros f f' Hf Hf'. apply in_app_iff in Hf'. destruct Hf' as [Hf'|Hf'].
      * apply Hfresh; [exact (proj1 (KI f' Hf'))|right; exact (proj2 (KO f Hf))].
      * destruct (proj1 (KO f' Hf')) as (v & Hv & Ev). unfold col_eqb. apply andb_false_iff. right. unfold col_parent. rewrite (proj2 (KO f Hf)), Ev.
        cbn [opt_dataset_eqb]. rewrite dataset_eqb_sym. exact (g2_target _ _ _ _ Gout v Hv).
    + intros f f' Hf Hm Hf'. apply Hfresh; [left; exact (KOt f Hf Hm)|]. apply in_app_iff in Hf'. destruct Hf' as [Hf'|Hf'].
      * left. exact (proj2 (KI f' Hf')).
      * right. exact (proj2 (KO f' Hf')).
    + intros f f' Hf Hf'. apply Hfresh; [exact (proj1 (KI f Hf))|]. apply in_app_iff in Hf'. destruct Hf' as [Hf'|Hf'].
      * left. exact (proj2 (KI f' Hf')).
      * right. exact (proj2 (KO f' Hf')).
    + intros f Hf Hm. destruct (KOs f Hf Hm) as (b & Hb & Ep). destruct (HFO f Hf) as (x & s & v & Hx & Hs & _ & Ev & ->). cbn [fst] in *.
      destruct (Hfed x s b Hx Hs Hb Ep) as (x' & Hx' & Ec & Hne). destruct (S_of (bts b) x') as [|s' r] eqn:ES; [congruence|].
      exists (s', own_col (bsq b) x'). split.
      * unfold FI. apply in_flat_map. exists b. split; [exact Hb|]. apply flows_of_In. exists (x', own_col (bsq b) x'), s'.
        split; [unfold own_pairs; apply in_map_iff; exists x'; auto|]. cbn [fst snd]. rewrite ES. split; [left; reflexivity|reflexivity].
      * cbn [snd]. destruct (proj1 (bo_xref _ _ (HBL b Hb) x' Hx')) as (A1 & _). rewrite (own_col_eq (bsq b) x' A1), Ec.
        destruct s as [cs ps]. cbn [cparents craw] in *. subst ps. apply col_eqb_refl.
Qed.

(* ================================================================== *)
(** * Part M: the model side for INSERT / CTAS / VIEW over SELECT items FROM r1, .., rn (base tables, derived tables over base tables) *)
Lemma blocks_In noise e k from b :
  In b (blocks noise e k from) -> In (bsq b) (map (ds_of noise e k) from).
Proof.
  unfold blocks. intros H. apply in_flat_map in H. destruct H as (r & Hr & Hb). apply in_map_iff. exists r. split; [|exact Hr].
  destruct r as [t al|q a|x y]; [destruct Hb| |destruct Hb].
  destruct q as [items' from' cj' [wh|]| |]; [destruct Hb| |destruct Hb|destruct Hb]. destruct Hb as [<-|[]]. reflexivity.
Qed.

Lemma ds_of_kind noise e k from v :
  forallb rel2_ok from = true -> In v (map (ds_of noise e k) from) ->
  dk v = KTable \/ exists b, In b (blocks noise e k from) /\ v = bsq b.
Proof.
  intros Hok Hv. apply in_map_iff in Hv. destruct Hv as (r & <- & Hr). rewrite forallb_forall in Hok. specialize (Hok r Hr).
  destruct r as [t al|q a|x y]; [left; reflexivity| |discriminate]. cbn [rel2_ok] in Hok. apply andb_true_iff in Hok. destruct Hok as [_ Hq].
  destruct q as [items' from' cj' [wh|]| |]; try discriminate. right.
  exists (sqd noise k (QSelect items' from' cj' None) a, map (tbl_of e) from', map xcol_of items'). split; [|reflexivity].
  unfold blocks. apply in_flat_map. exists (RDerived (QSelect items' from' cj' None) a). split; [exact Hr|left; reflexivity].
Qed.

Theorem model_pairs_flat noise e (s : stmt) t items from cj :
  noise_ok noise = true -> env_ok e = true ->
  let q := QSelect items from cj None in
  (s = SInsert t None q \/ s = SCtas t q \/ s = SView t q) ->
  tref_ok t = true -> forallb item_ok items = true -> from <> [] -> forallb rel2_ok from = true -> noleak from cj = true ->
  let d := tbl e t None in
  let BL := blocks noise e (q_size q) from in
  let TO := map (ds_of noise e (q_size q)) from in
  let xs := map xcol_of items in
  let INNER := flat_map bts BL in
  (forall b, In b BL -> block_ok d b) ->
  group2 (d :: TO ++ INNER) (TO ++ INNER) TO d ->
  (forall x, In x xs -> xref_q TO x /\ nostar_x x) ->
  (forall b nm, In b BL -> In nm (bNM b) ->
     (forall b' x' s' v, In b' BL -> In x' (bxs b') -> In s' (S_of (bts b') x') -> cparents s' = [v] -> craw s' <> nm) /\
     (forall x s0, In x xs -> In s0 (S_of TO x) -> craw s0 <> nm) /\
     (forall b', In b' BL -> In nm (bNM b') -> b' = b)) ->
  (forall x s0 b, In x xs -> In s0 (S_of TO x) -> In b BL -> cparents s0 = [bsq b] ->
     exists x', In x' (bxs b) /\ craw (xc x') = craw s0 /\ S_of (bts b) x' <> []) ->
  script_pairs e false [] [r_stmt noise s] =
  uniq_sorted (sort_strings (map flow_str (compose_flows (flat_map FIb BL) (flows_of (S_of TO) (own_pairs d xs))))).
Proof.
  intros Hn He q Hs Ht Hit Hne Hok Hnl d BL TO xs INNER HBL Gout Hxs HU Hfed.
  set (e' := with_cols e (view_cols [] [])).
  assert (He' : env_ok e' = true) by exact He.
  assert (Ek : exists k0, q_size q = S k0) by (eexists; reflexivity). destruct Ek as (k0 & Ek).
  set (DS := d :: TO ++ INNER) in *. set (AL := TO ++ INNER) in *. set (g0 := add_write empty_graph d).
  assert (Hinv0 : hinv BL DS AL d g0 []).
  { constructor.
    - apply gok_add_tag; [exact gok_empty|reflexivity].
    - reflexivity.
    - reflexivity.
    - split; [intros n [<-|[]]; left; reflexivity|intros e0 []].
    - intros e0 [].
    - intros n a0 [H|[]]. inversion H. intros [K|[]]. discriminate K.
    - reflexivity.
    - intros p []. }
  assert (HinDS : forall b, In b BL -> forall v, In v (bsq b :: bts b) -> In v DS).
  { intros b Hb v [<-|Hv]; right; apply in_app_iff.
    - left. exact (blocks_In noise e' _ from b Hb).
    - right. unfold INNER. apply in_flat_map. exists b. auto. }
  assert (Ea : exists sub, analyze e' false (r_stmt noise s) = Ok (compose g0 sub) /\
                 clean_holder (compose g0 sub) /\ lits_in (unres_ok (compose g0 sub)) (compose g0 sub) /\
                 realises (compose g0 sub) (flat_map FIb BL ++ flows_of (S_of TO) (own_pairs d xs)) /\
                 two_layer (flat_map FIb BL) (flows_of (S_of TO) (own_pairs d xs))).
  { destruct (analyze_wrapper noise Hn e' He' s t items from cj Hs Ht) as (F & stmt & Ew). rewrite Ew.
    rewrite (delegate_any noise e' F stmt (tbl e' t None)). fold q. change (tbl e' t None) with d.
    rewrite (select_derived_extract noise Hn e' He' (S F) _ items from cj k0); [|rewrite <- Ek; apply (sel_segments_top_select noise Hn)|exact Hit|exact Hne|exact Hok|exact Hnl].
    rewrite init_delegate_write. fold g0.
    destruct (subs_fold noise Hn e' He' BL DS AL d F k0 from g0 [] eq_refl Hok) as (g1 & E1 & Hinv1); [|exact Hinv0|].
    { intros b Hb. rewrite <- Ek in Hb. split; [exact (HBL b Hb)|]. split; [exact Hb|]. split; [exact (HinDS b Hb)|].
      intros v Hv. apply in_app_iff. right. unfold INNER. apply in_flat_map. exists b. auto. }
    rewrite E1. cbv beta iota. rewrite (hi_cte _ _ _ _ _ _ Hinv1). cbn [app] in Hinv1. rewrite <- Ek in *. fold BL in Hinv1. fold TO. fold xs.
    destruct (holder_flat e' d BL TO xs DS AL g1 He' eq_refl eq_refl HBL) as (sub & Esub & C1 & C2 & C3 & C4); auto.
    { intros v Hv. exact (ds_of_kind noise e' _ from v Hok Hv). }
    change (map (ds_of noise e' (q_size q)) from) with TO. rewrite Esub. exists sub. auto. }
  destruct Ea as (sub & Ea & C1 & C2 & C3 & C4).
  apply (script_pairs_two_layer e (r_stmt noise s) _ _ _ Ea (proj1 (env_facts e He)) C1 C2 C3 C4).
Qed.
Print Assumptions model_pairs_flat.

(* ================================================================== *)
(** * Part S: the specification side for a FROM list of base tables and derived tables *)
Definition rname2 (r : rel) : string := match r with RDerived _ a => a | _ => rname r end.
Definition bnd (ds : string) (k : nat) (r : rel) : binding :=
  match r with
  | RDerived q' a => {| b_alias := Some a; b_names := []; b_rel := RelCols (q_cols k ds [] q') |}
  | _ => sbind ds r
  end.

Lemma rels_flat_rel2 from : forallb rel2_ok from = true -> flat_map rels_flat from = from.
Proof.
  induction from as [|r l IH]; [reflexivity|]. cbn [forallb]. intros H. apply andb_true_iff in H. destruct H as [H1 H2].
  cbn [flat_map]. rewrite (IH H2). destruct r; try discriminate; reflexivity.
Qed.

Lemma q_cols_flat k ds items from cj :
  forallb rel2_ok from = true ->
  q_cols (S k) ds [] (QSelect items from cj None) = flat_map (item_cols (map (bnd ds k) from)) items.
Proof.
  intros Hok. cbn [q_cols]. rewrite (rels_flat_rel2 from Hok). f_equal. f_equal. apply map_ext_in. intros r Hr.
  rewrite forallb_forall in Hok. specialize (Hok r Hr). destruct r as [t al| |]; try discriminate; [|reflexivity].
  cbn [assoc_s bnd]. destruct (fst t); reflexivity.
Qed.

(** exactly one relation of the scope answers to [q] *)
Definition qual2 (from : list rel) (q : string) : Prop :=
  exists r0, In r0 from /\ rname2 r0 = q /\ forall r, In r from -> (rname2 r = q \/ snd (rtref r) = q) -> r = r0.

Lemma find_binding_q2 ds k from q r0 :
  forallb rel2_ok from = true -> id_ok q = true ->
  In r0 from -> rname2 r0 = q -> (forall r, In r from -> (rname2 r = q \/ snd (rtref r) = q) -> r = r0) ->
  find_binding q (map (bnd ds k) from) = Some (bnd ds k r0).
Proof.
  intros Hok Hq Hr0 En Hu. unfold find_binding. rewrite forallb_forall in Hok.
  set (P1 := fun b => match b_alias b with Some a => String.eqb a q | None => false end).
  set (P2 := fun b => mem_string q (b_names b)).
  assert (H1 : forall b, In b (map (bnd ds k) from) -> P1 b = true -> b = bnd ds k r0).
  { intros b Hb Hp. apply in_map_iff in Hb. destruct Hb as (r & <- & Hr). unfold P1 in Hp.
    destruct r as [t al|q' a|x y]; cbn [bnd sbind b_alias ralias] in Hp.
    - destruct al as [a|]; [|discriminate]. apply String.eqb_eq in Hp. rewrite (Hu _ Hr); [reflexivity|]. left. exact Hp.
    - apply String.eqb_eq in Hp. rewrite (Hu _ Hr); [reflexivity|]. left. exact Hp.
    - specialize (Hok _ Hr). discriminate. }
  assert (H2 : forall b, In b (map (bnd ds k) from) -> P2 b = true -> b = bnd ds k r0).
  { intros b Hb Hp. apply in_map_iff in Hb. destruct Hb as (r & <- & Hr). unfold P2 in Hp.
    destruct r as [t al|q' a|x y]; cbn [bnd sbind b_names ralias rtref] in Hp; [|discriminate|specialize (Hok _ Hr); discriminate].
    destruct al as [a|]; [discriminate|]. cbn [mem_string] in Hp. rewrite orb_false_r in Hp.
    apply orb_true_iff in Hp. destruct Hp as [Hp|Hp]; apply String.eqb_eq in Hp.
    - rewrite (Hu _ Hr); [reflexivity|]. right. symmetry. exact Hp.
    - exfalso. exact (id_ok_not_tref q ds t Hq (eq_sym Hp)). }
  destruct (filter P1 (map (bnd ds k) from)) as [|b l] eqn:E1.
  - destruct (filter P2 (map (bnd ds k) from)) as [|b l] eqn:E2.
    + exfalso. assert (Hin : In (bnd ds k r0) (map (bnd ds k) from)) by (apply in_map; exact Hr0).
      assert (K : In (bnd ds k r0) (filter P1 (map (bnd ds k) from)) \/ In (bnd ds k r0) (filter P2 (map (bnd ds k) from))).
      { destruct r0 as [t al|q' a|x y].
        - destruct al as [a|].
          + left. apply filter_In. split; [exact Hin|]. unfold P1. cbn [bnd sbind b_alias ralias]. cbn in En. rewrite En. apply String.eqb_refl.
          + right. apply filter_In. split; [exact Hin|]. unfold P2. cbn [bnd sbind b_names ralias mem_string rtref]. cbn in En. rewrite En, String.eqb_refl. reflexivity.
        - left. apply filter_In. split; [exact Hin|]. unfold P1. cbn [bnd b_alias]. cbn in En. rewrite En. apply String.eqb_refl.
        - specialize (Hok _ Hr0). discriminate. }
      rewrite E1, E2 in K. destruct K as [[]|[]].
    + assert (K : In b (filter P2 (map (bnd ds k) from))) by (rewrite E2; left; reflexivity).
      apply filter_In in K. rewrite (H2 b (proj1 K) (proj2 K)). reflexivity.
  - assert (K : In b (filter P1 (map (bnd ds k) from))) by (rewrite E1; left; reflexivity).
    apply filter_In in K. rewrite (H1 b (proj1 K) (proj2 K)). reflexivity.
Qed.

(** the dataset of a relation answers to the relation's name only *)
Lemma ds_of_names noise e k r q :
  rel2_ok r = true -> id_ok q = true ->
  (dalias (ds_of noise e k r) = q \/ draw (ds_of noise e k r) = q \/ dstr (ds_of noise e k r) = q) -> rname2 r = q \/ snd (rtref r) = q.
Proof.
  intros Hok Hq Hor. destruct r as [t al|q' a|x y]; [| |discriminate].
  - cbn [ds_of tbl_of tbl dalias draw dstr] in Hor. destruct Hor as [H|[H|H]]; [left; exact H|right; exact H|].
    exfalso. exact (id_ok_not_tref q _ _ Hq H).
  - cbn [rel2_ok] in Hok. apply andb_true_iff in Hok. destruct Hok as [Ha _].
    cbn [ds_of sqd mk_subquery dalias draw dstr] in Hor. rewrite (id_ok_escape a Ha) in Hor. destruct Hor as [H|[H|H]]; [left; exact H| |left; exact H].
    subst q. discriminate Hq.
Qed.

Lemma ds_of_alias noise e k r : rel2_ok r = true -> dalias (ds_of noise e k r) = rname2 r.
Proof.
  destruct r as [t al|q' a|x y]; [reflexivity| |discriminate]. cbn [rel2_ok]. intros H. apply andb_true_iff in H.
  cbn [ds_of sqd mk_subquery dalias rname2]. apply id_ok_escape. exact (proj1 H).
Qed.

(** an outer item, qualified by the name of exactly one relation *)
Lemma xref_q_of noise e k from i qn r0 :
  forallb rel2_ok from = true -> item_ok i = true -> snd (item_ref i) = Some qn ->
  In r0 from -> rname2 r0 = qn -> (forall r, In r from -> (rname2 r = qn \/ snd (rtref r) = qn) -> r = r0) ->
  xref_q (map (ds_of noise e k) from) (xcol_of i) /\
  S_of (map (ds_of noise e k) from) (xcol_of i) = [{| craw := fst (item_ref i); cparents := [ds_of noise e k r0] |}].
Proof.
  intros Hok Hi Eq Hr0 En Hu. destruct (xcol_of_facts i Hi) as (F1 & F2 & F3 & F4). rewrite Eq in F4. rewrite forallb_forall in Hok.
  assert (Ex : xsrc (xcol_of i) = [(fst (item_ref i), Some qn)]) by (rewrite F2; destruct (item_ref i); cbn [fst snd] in *; subst; reflexivity).
  assert (Hv : In (ds_of noise e k r0) (map (ds_of noise e k) from)) by (apply in_map; exact Hr0).
  assert (Ea : dalias (ds_of noise e k r0) = qn) by (rewrite (ds_of_alias noise e k r0 (Hok r0 Hr0)); exact En).
  assert (Huu : forall w, In w (map (ds_of noise e k) from) -> (dalias w = qn \/ draw w = qn \/ dstr w = qn) -> w = ds_of noise e k r0).
  { intros w Hw Hor. apply in_map_iff in Hw. destruct Hw as (r & <- & Hr). rewrite (Hu r Hr); [reflexivity|].
    apply (ds_of_names noise e k r qn (Hok r Hr) F4 Hor). }
  split.
  - split.
    + split; [rewrite F1; reflexivity|]. exists (fst (item_ref i)), (Some qn). split; [exact Ex|]. split; [exact F3|].
      exists (ds_of noise e k r0). auto.
    + intros c Ec. rewrite Ex in Ec. discriminate.
  - unfold S_of. rewrite Ex. rewrite (find_dalias _ qn (ds_of noise e k r0) Hv Ea (fun w Hw E => Huu w Hw (or_introl E))). reflexivity.
Qed.

(* ================================================================== *)
(** * Part T: the conditions in terms of the abstract syntax *)
Definition inner_of (r : rel) : option (list item * list rel) :=
  match r with RDerived (QSelect items' from' _ None) _ => Some (items', from') | _ => None end.
(** all base tables of the statement's query *)
Definition allrels (from : list rel) : list rel :=
  flat_map (fun r => match r with RTable _ _ => [r] | RDerived (QSelect _ from' _ _) _ => from' | _ => [] end) from.

Lemma NoDup_app_l {A} (l1 l2 : list A) : NoDup (l1 ++ l2) -> NoDup l1.
Proof.
  induction l1 as [|a r IH]; intros H; [constructor|]. cbn [app] in H. inversion H as [|? ? Hna Hn']. subst.
  constructor; [|apply IH; exact Hn']. intros K. apply Hna. apply in_app_iff. left. exact K.
Qed.
Lemma NoDup_app_r {A} (l1 l2 : list A) : NoDup (l1 ++ l2) -> NoDup l2.
Proof. induction l1 as [|a r IH]; intros H; [exact H|]. cbn [app] in H. inversion H. subst. apply IH. assumption. Qed.

Lemma NoDup_flat_part {A B C} (f : B -> C) (g : A -> list B) l x :
  NoDup (map f (flat_map g l)) -> In x l -> NoDup (map f (g x)).
Proof.
  induction l as [|a r IH]; intros Hn Hx; [destruct Hx|]. cbn [flat_map] in Hn; rewrite map_app in Hn. destruct Hx as [<-|Hx].
  - exact (NoDup_app_l _ _ Hn).
  - apply IH; [exact (NoDup_app_r _ _ Hn)|exact Hx].
Qed.

Lemma NoDup_app_disj {A} (l1 l2 : list A) y : NoDup (l1 ++ l2) -> In y l1 -> ~ In y l2.
Proof.
  induction l1 as [|a r IH]; intros Hn Hy; [destruct Hy|]. cbn [app] in Hn. inversion Hn as [|? ? Hna Hn']. subst. destruct Hy as [<-|Hy].
  - intros K. apply Hna. apply in_app_iff. right. exact K.
  - apply IH; assumption.
Qed.

Lemma NoDup_flat_inj {A B} (g : A -> list B) l a b x :
  NoDup (flat_map g l) -> In a l -> In b l -> In x (g a) -> In x (g b) -> a = b.
Proof.
  induction l as [|c r IH]; intros Hn Ha Hb Hxa Hxb; [destruct Ha|]. cbn [flat_map] in Hn.
  assert (Hdis : forall y, In y (g c) -> ~ In y (flat_map g r)).
  { intros y Hy. exact (NoDup_app_disj _ _ y Hn Hy). }
  destruct Ha as [<-|Ha], Hb as [<-|Hb].
  - reflexivity.
  - exfalso. apply (Hdis x Hxa). apply in_flat_map. exists b. auto.
  - exfalso. apply (Hdis x Hxb). apply in_flat_map. exists a. auto.
  - apply IH; auto. exact (NoDup_app_r _ _ Hn).
Qed.

Lemma tables_cond_sub ds t from r items' from' :
  tables_cond ds t (allrels from) -> In r from -> inner_of r = Some (items', from') -> tables_cond ds t from'.
Proof.
  intros [Hnd Hnt] Hr Hi. destruct r as [|q a|]; try discriminate. destruct q as [it fr cj [wh|]| |]; try discriminate. inversion Hi. subst it fr.
  split.
  - exact (NoDup_flat_part (fun r => tref_str ds (rtref r)) _ from (RDerived (QSelect items' from' cj None) a) Hnd Hr).
  - intros K. apply Hnt. apply in_map_iff in K. destruct K as (r' & E & Hr'). apply in_map_iff. exists r'. split; [exact E|].
    unfold allrels. apply in_flat_map. exists (RDerived (QSelect items' from' cj None) a). auto.
Qed.

Lemma rel2_inner r items' from' : rel2_ok r = true -> inner_of r = Some (items', from') ->
  exists a cj', r = RDerived (QSelect items' from' cj' None) a /\ id_ok a = true /\
                forallb item_ok items' = true /\ from' <> [] /\ forallb rel_ok from' = true.
Proof.
  destruct r as [|q a|]; try discriminate. destruct q as [it fr cj [wh|]| |]; try discriminate. cbn [rel2_ok inner_of iq_ok].
  intros H Hi. inversion Hi. subst it fr. apply andb_true_iff in H. destruct H as [Ha H]. apply andb_true_iff in H. destruct H as [H H3].
  apply andb_true_iff in H. destruct H as [H1 H2]. exists a, cj. repeat split; auto. destruct from'; discriminate.
Qed.

Lemma blk_In noise e k from b :
  In b (blocks noise e k from) ->
  exists r items' from' a cj', In r from /\ r = RDerived (QSelect items' from' cj' None) a /\
    b = (sqd noise k (QSelect items' from' cj' None) a, map (tbl_of e) from', map xcol_of items').
Proof.
  unfold blocks. intros H. apply in_flat_map in H. destruct H as (r & Hr & Hb).
  destruct r as [t al|q a|x y]; [destruct Hb| |destruct Hb].
  destruct q as [items' from' cj' [wh|]| |]; [destruct Hb| |destruct Hb|destruct Hb]. destruct Hb as [<-|[]].
  exists (RDerived (QSelect items' from' cj' None) a), items', from', a, cj'. auto.
Qed.

(** (A) every block is well formed *)
Lemma blocks_ok noise e k t from :
  forallb rel2_ok from = true -> tables_cond (e_cfg e) t (allrels from) ->
  (forall r items' from', In r from -> inner_of r = Some (items', from') ->
     forallb plain_item items' = true /\ items_cond from' items') ->
  forall b, In b (blocks noise e k from) -> block_ok (tbl e t None) b.
Proof.
  intros Hok Htc HF3 b Hb. destruct (blk_In noise e k from b Hb) as (r & items' & from' & a & cj' & Hr & Er & ->).
  assert (Hi : inner_of r = Some (items', from')) by (rewrite Er; reflexivity).
  rewrite forallb_forall in Hok. destruct (rel2_inner r items' from' (Hok r Hr) Hi) as (a0 & cj0 & _ & _ & Hit' & Hne' & Hrel').
  destruct (HF3 r items' from' Hr Hi) as [Hpl' Hic]. pose proof (tables_cond_sub _ t from r items' from' Htc Hr Hi) as Htc'.
  pose proof (group_ok_of e t from' Hrel' Htc') as Hgo.
  constructor; cbn [bsq bts bxs fst snd].
  - reflexivity.
  - unfold data_ok, sqd, mk_subquery. cbn [dk dquery]. discriminate.
  - exact Hgo.
  - exact (ts_inj_of e t from' Hrel' Htc').
  - exact (names_nodot_of e from' Hrel').
  - apply Forall_forall. intros v Hv. unfold data_ok. rewrite (go_tables _ _ Hgo v Hv).
    apply in_map_iff in Hv. destruct Hv as (r' & <- & _). destruct r'; reflexivity.
  - apply Forall_forall. intros x Hx. apply in_map_iff in Hx. destruct Hx as (i & <- & Hi'). apply xcol_ok_of.
    rewrite forallb_forall in Hit'. apply Hit'. exact Hi'.
  - intros x Hx. split; [apply (xref_ok_of e t from' items' Hrel' Hit' Htc' Hic x Hx)|].
    apply in_map_iff in Hx. destruct Hx as (i & <- & Hi'). rewrite forallb_forall in Hit', Hpl'. apply nostar_of; auto.
Qed.

(** (B) all datasets of the holder are pairwise different *)
Lemma DS_class noise e k from v :
  forallb rel2_ok from = true ->
  In v (map (ds_of noise e k) from ++ flat_map bts (blocks noise e k from)) ->
  (exists r, In r (allrels from) /\ rel_ok r = true /\ v = tbl_of e r) \/
  (exists q a, In (RDerived q a) from /\ v = sqd noise k q a).
Proof.
  intros Hok Hv. rewrite forallb_forall in Hok. apply in_app_iff in Hv. destruct Hv as [Hv|Hv].
  - apply in_map_iff in Hv. destruct Hv as (r & <- & Hr). pose proof (Hok r Hr) as Hr2. destruct r as [t al|q a|x y]; [| |discriminate].
    + left. exists (RTable t al). split; [|split; [exact Hr2|reflexivity]]. unfold allrels. apply in_flat_map. exists (RTable t al). split; [exact Hr|left; reflexivity].
    + right. exists q, a. auto.
  - apply in_flat_map in Hv. destruct Hv as (b & Hb & Hv). destruct (blk_In noise e k from b Hb) as (r & items' & from' & a & cj' & Hr & Er & ->).
    cbn [bts fst snd] in Hv. apply in_map_iff in Hv. destruct Hv as (r' & <- & Hr'). left. exists r'.
    assert (Hi : inner_of r = Some (items', from')) by (rewrite Er; reflexivity).
    destruct (rel2_inner r items' from' (Hok r Hr) Hi) as (_ & _ & _ & _ & _ & _ & Hrel'). rewrite forallb_forall in Hrel'.
    split; [|split; [exact (Hrel' r' Hr')|reflexivity]]. unfold allrels. apply in_flat_map. exists r. split; [exact Hr|]. rewrite Er. exact Hr'.
Qed.

Lemma group2_flat noise e k t from :
  tref_ok t = true -> forallb rel2_ok from = true -> tables_cond (e_cfg e) t (allrels from) -> NoDup (from_sq_texts noise k from) ->
  let d := tbl e t None in let TO := map (ds_of noise e k) from in let INNER := flat_map bts (blocks noise e k from) in
  group2 (d :: TO ++ INNER) (TO ++ INNER) TO d.
Proof.
  intros Ht Hok [Hnd Hnt] Hsq d TO INNER.
  assert (Hcl : forall v, In v (TO ++ INNER) -> (exists r, In r (allrels from) /\ rel_ok r = true /\ v = tbl_of e r) \/
                                              (exists q a, In (RDerived q a) from /\ v = sqd noise k q a)) by (intros v Hv; exact (DS_class noise e k from v Hok Hv)).
  assert (Htd : forall r, In r (allrels from) -> rel_ok r = true -> dataset_eqb (tbl_of e r) d = false).
  { intros r Hr Hro. destruct (dataset_eqb (tbl_of e r) d) eqn:E; [|reflexivity]. exfalso. apply Hnt.
    rewrite (tbl_of_table e r (rel_ok_table _ Hro)) in E. apply tbl_eqb_str in E. apply in_map_iff. exists r. auto. }
  assert (Hdist : forall v w, In v (TO ++ INNER) -> In w (TO ++ INNER) -> dataset_eqb v w = true -> v = w).
  { intros v w Hv Hw E. destruct (Hcl v Hv) as [(r & Hr & Hro & ->)|(q & a & Hq & ->)], (Hcl w Hw) as [(r' & Hr' & Hro' & ->)|(q' & a' & Hq' & ->)].
    - rewrite (tbl_of_table e r (rel_ok_table _ Hro)), (tbl_of_table e r' (rel_ok_table _ Hro')) in E. apply tbl_eqb_str in E.
      rewrite (NoDup_map_inj (fun r => tref_str (e_cfg e) (rtref r)) (allrels from) r r' Hnd Hr Hr' E). reflexivity.
    - rewrite (tbl_of_table e r (rel_ok_table _ Hro)) in E. discriminate E.
    - rewrite (tbl_of_table e r' (rel_ok_table _ Hro')) in E. discriminate E.
    - unfold dataset_eqb in E. cbn [sqd mk_subquery dk deq dkind_beq andb] in E. apply String.eqb_eq in E.
      assert (Er : RDerived q a = RDerived q' a').
      { apply (NoDup_flat_inj (fun r => match r with RDerived q0 _ => [raw (r_brq noise k q0)] | _ => [] end) from _ _ (raw (r_brq noise k q)) Hsq Hq Hq').
        - left. reflexivity.
        - left. symmetry. exact E. }
      inversion Er. reflexivity. }
  constructor.
  - intros v Hv. apply in_app_iff. left. exact Hv.
  - intros v Hv. right. exact Hv.
  - left. reflexivity.
  - intros v Hv. destruct (Hcl v (proj2 (in_app_iff _ _ _) (or_introl Hv))) as [(r & Hr & Hro & ->)|(q & a & Hq & ->)].
    + rewrite (tbl_of_table e r (rel_ok_table _ Hro)). reflexivity.
    + unfold data_ok, sqd, mk_subquery. cbn [dk dquery]. discriminate.
  - intros v w [<-|Hv] [<-|Hw] E; [reflexivity| | |exact (Hdist v w Hv Hw E)].
    + destruct (Hcl w Hw) as [(r & Hr & Hro & ->)|(q & a & Hq & ->)]; [|discriminate E]. rewrite dataset_eqb_sym, (Htd r Hr Hro) in E. discriminate.
    + destruct (Hcl v Hv) as [(r & Hr & Hro & ->)|(q & a & Hq & ->)]; [|discriminate E]. rewrite (Htd r Hr Hro) in E. discriminate.
  - intros v Hv. destruct (Hcl v (proj2 (in_app_iff _ _ _) (or_introl Hv))) as [(r & Hr & Hro & ->)|(q & a & Hq & ->)]; [exact (Htd r Hr Hro)|reflexivity].
Qed.

(** what the outer query may select: columns [q.c] where [q] names exactly one relation of FROM; a column of a derived
    table has to be one of its output columns *)
Definition outer_cond2 (from : list rel) (items : list item) : Prop :=
  forall i, In i items -> plain_item i = true /\
    exists qn, snd (item_ref i) = Some qn /\ qual2 from qn /\
      forall r0 items' from', In r0 from -> rname2 r0 = qn -> inner_of r0 = Some (items', from') ->
                              In (fst (item_ref i)) (map item_name items').
(** the inner queries: plain column items; unqualified references only over ONE inner table (no unresolved columns) *)
Definition inner_cond (from : list rel) : Prop :=
  forall r items' from', In r from -> inner_of r = Some (items', from') ->
    forallb plain_item items' = true /\ items_cond from' items' /\
    (2 <= List.length from' -> forall i', In i' items' -> snd (item_ref i') <> None).

Lemma bNM_nil e items' from' sq :
  forallb item_ok items' = true -> from' <> [] ->
  (2 <= List.length from' -> forall i', In i' items' -> snd (item_ref i') <> None) ->
  bNM (sq, map (tbl_of e) from', map xcol_of items') = [].
Proof.
  intros Hit Hne Hq. unfold bNM, bts, bxs, unres_names. cbn [fst snd]. destruct from' as [|r1 [|r2 rest]]; [congruence|reflexivity|].
  cbn [map]. apply flat_map_none. intros x Hx. apply in_map_iff in Hx. destruct Hx as (i & <- & Hi).
  rewrite forallb_forall in Hit. destruct (xcol_of_facts i (Hit i Hi)) as (_ & F2 & _). rewrite F2.
  destruct (item_ref i) as [c qq] eqn:E. destruct qq as [q0|]; [reflexivity|]. exfalso.
  apply (Hq ltac:(cbn; lia) i Hi). rewrite E. reflexivity.
Qed.

Theorem lemma_B_derived_flat noise e (s : stmt) t items from cj :
  noise_ok noise = true -> env_ok e = true ->
  let q := QSelect items from cj None in
  (s = SInsert t None q \/ s = SCtas t q \/ s = SView t q) ->
  tref_ok t = true -> forallb item_ok items = true -> from <> [] -> forallb rel2_ok from = true -> noleak from cj = true ->
  tables_cond (e_cfg e) t (allrels from) -> NoDup (from_sq_texts noise (q_size q) from) ->
  inner_cond from -> outer_cond2 from items ->
  script_pairs e false [] [r_stmt noise s] = spec_pairs (e_cfg e) s.
Proof.
  intros Hn He q Hs Ht Hit Hne Hok Hnl Htc Hsq Hin Hout.
  set (k := q_size q) in *. set (d := tbl e t None). set (BL := blocks noise e k from). set (TO := map (ds_of noise e k) from).
  set (ds := e_cfg e). set (tstr := tref_str ds t).
  pose proof Hok as Hok0. rewrite forallb_forall in Hok, Hit.
  assert (HBL : forall b, In b BL -> block_ok d b).
  { apply (blocks_ok noise e k t from Hok0 Htc). intros r items' from' Hr Hi. destruct (Hin r items' from' Hr Hi) as (A & B & _). auto. }
  assert (HNM : forall b, In b BL -> bNM b = []).
  { intros b Hb. destruct (blk_In noise e k from b Hb) as (r & items' & from' & a & cj' & Hr & Er & ->).
    assert (Hi : inner_of r = Some (items', from')) by (rewrite Er; reflexivity).
    destruct (rel2_inner r items' from' (Hok r Hr) Hi) as (_ & _ & _ & _ & Hit' & Hne' & _). destruct (Hin r items' from' Hr Hi) as (_ & _ & C).
    apply bNM_nil; assumption. }
  pose proof (group2_flat noise e k t from Ht Hok0 Htc Hsq) as Gout. cbv zeta in Gout. fold d TO BL in Gout.
  (* per outer item: its relation *)
  assert (Hitem : forall i, In i items -> exists qn r0, snd (item_ref i) = Some qn /\ In r0 from /\ rname2 r0 = qn /\
                    xref_q TO (xcol_of i) /\ S_of TO (xcol_of i) = [{| craw := fst (item_ref i); cparents := [ds_of noise e k r0] |}] /\
                    find_binding qn (map (bnd ds k) from) = Some (bnd ds k r0)).
  { intros i Hi. destruct (Hout i Hi) as (_ & qn & Eq & (r0 & Hr0 & En & Hu) & _). exists qn, r0.
    destruct (xref_q_of noise e k from i qn r0 Hok0 (Hit i Hi) Eq Hr0 En Hu) as [A B].
    destruct (xcol_of_facts i (Hit i Hi)) as (_ & _ & _ & F4). rewrite Eq in F4.
    repeat (split; [assumption|]). exact (find_binding_q2 ds k from qn r0 Hok0 F4 Hr0 En Hu). }
  rewrite (model_pairs_flat noise e s t items from cj Hn He Hs Ht (proj2 (forallb_forall _ _) Hit) Hne Hok0 Hnl HBL Gout).
  2:{ intros x Hx. apply in_map_iff in Hx. destruct Hx as (i & <- & Hi). destruct (Hitem i Hi) as (qn & r0 & _ & _ & _ & A & _).
      split; [exact A|]. apply nostar_of; [exact (Hit i Hi)|exact (proj1 (Hout i Hi))]. }
  2:{ intros b nm Hb Hnm. change (In b BL) in Hb. rewrite (HNM b Hb) in Hnm. destruct Hnm. }
  2:{ intros x s0 b Hx Hs0 Hb Ep. change (In b BL) in Hb. change (In s0 (S_of TO x)) in Hs0. apply in_map_iff in Hx. destruct Hx as (i & <- & Hi).
      destruct (Hitem i Hi) as (qn & r0 & Eq & Hr0 & En & _ & ES & _). rewrite ES in Hs0. destruct Hs0 as [<-|[]]. cbn [craw cparents] in *.
      destruct (blk_In noise e k from b Hb) as (r & items' & from' & a & cj' & Hr & Er & ->). cbn [bsq bts bxs fst snd] in *.
      (* the relation of the item is [r] *)
      assert (Err : r0 = r).
      { inversion Ep as [Ep']. destruct r0 as [t0 al0|q0 a0|x0 y0]; [discriminate Ep'| |specialize (Hok _ Hr0); discriminate].
        cbn [ds_of] in Ep'. rewrite Er.
        apply (NoDup_flat_inj (fun r => match r with RDerived q1 _ => [raw (r_brq noise k q1)] | _ => [] end) from _ _ (raw (r_brq noise k q0)) Hsq Hr0); [rewrite <- Er; exact Hr|left; reflexivity|].
        left. apply (f_equal deq) in Ep'. cbn [sqd mk_subquery deq] in Ep'. symmetry. exact Ep'. }
      subst r0. assert (Hi' : inner_of r = Some (items', from')) by (rewrite Er; reflexivity).
      destruct (Hout i Hi) as (_ & qn' & Eq' & _ & Hcol). rewrite Eq in Eq'. inversion Eq'. subst qn'.
      specialize (Hcol r items' from' Hr En Hi'). apply in_map_iff in Hcol. destruct Hcol as (i' & En' & Hi'').
      destruct (rel2_inner r items' from' (Hok r Hr) Hi') as (_ & _ & _ & _ & Hit' & _ & Hrel'). rewrite forallb_forall in Hit'.
      exists (xcol_of i'). split; [apply in_map; exact Hi''|]. destruct (xcol_of_facts i' (Hit' i' Hi'')) as (F1 & _). split; [rewrite F1; exact En'|].
      apply xref_ok_nonempty. exact (proj1 (bo_xref _ _ (HBL _ Hb) (xcol_of i') (in_map _ _ _ Hi''))). }
  change (uniq_sorted (sort_strings (map flow_str (compose_flows (flat_map FIb BL) (flows_of (S_of TO) (own_pairs d (map xcol_of items)))))) = spec_pairs ds s).
  set (FI := flat_map FIb BL). set (scope := map (bnd ds k) from).
  set (G := fun fo : flow => if is_mid (fst fo) then map (fun fi : flow => (fst fi, snd fo)) (filter (fun fi : flow => col_eqb (snd fi) (fst fo)) FI) else [fo]).
  assert (Hown : forall (dd : dataset) i0, item_ok i0 = true -> own_col dd (xcol_of i0) = {| craw := item_name i0; cparents := [dd] |}).
  { intros dd i0 Hi0. destruct (xcol_of_facts i0 Hi0) as (F1 & _). rewrite own_col_eq; rewrite F1; reflexivity. }
  assert (Ek : exists k1, k = S k1) by (eexists; reflexivity). destruct Ek as (k1 & Ek).
  (* the specification, item by item *)
  assert (Esf : map (fun p => (show_src (fst p) ++ ">" ++ snd p)%string) (spec_flows ds s) =
                flat_map (fun i => map (fun sr => (show_src sr ++ ">" ++ tstr ++ "." ++ item_name i)%string)
                                       (dedup_src (resolve scope (snd (item_ref i), fst (item_ref i))) [])) items).
  { assert (E : spec_flows ds s = flat_map (fun c : colspec => map (fun sr => (sr, (tstr ++ "." ++ fst c)%string)) (snd c)) (q_cols (S k) ds [] q)).
    { destruct Hs as [->|[->| ->]]; unfold spec_flows; fold q k; [apply combine_names_flows|reflexivity|reflexivity]. }
    rewrite E. unfold q. rewrite (q_cols_flat k ds items from cj Hok0). fold scope.
    rewrite flat_map_flat_map, map_flat_map'. apply flat_map_ext_in'. intros i Hi. destruct (Hout i Hi) as (Hp & _).
    destruct i as [[qq c| | | | | |] al|qq]; cbn [plain_item] in Hp; try discriminate. cbn [item_ref fst snd item_name item_cols col_refs flat_map app].
    rewrite !app_nil_r, map_map. destruct al; reflexivity. }
  unfold spec_pairs. rewrite Esf. apply us_ext. intros z.
  (* the model, item by item *)
  assert (Emod : In z (map flow_str (compose_flows FI (flows_of (S_of TO) (own_pairs d (map xcol_of items))))) <->
                 exists i, In i items /\ In z (map flow_str (flat_map G (map (fun s0 => (s0, own_col d (xcol_of i))) (S_of TO (xcol_of i)))))).
  { unfold compose_flows. fold G. split.
    - intros H. apply in_map_iff in H. destruct H as (ff & <- & H). apply in_flat_map in H. destruct H as (fo & Hfo & H).
      apply flows_of_In in Hfo. destruct Hfo as (p & s0 & Hp & Hs0 & ->). unfold own_pairs in Hp. apply in_map_iff in Hp.
      destruct Hp as (x & <- & Hx). apply in_map_iff in Hx. destruct Hx as (i & <- & Hi). cbn [fst snd] in *.
      exists i. split; [exact Hi|]. apply in_map. apply in_flat_map. exists (s0, own_col d (xcol_of i)). split; [apply in_map_iff; exists s0; auto|exact H].
    - intros (i & Hi & H). apply in_map_iff in H. destruct H as (ff & <- & H). apply in_flat_map in H. destruct H as (fo & Hfo & H).
      apply in_map_iff in Hfo. destruct Hfo as (s0 & <- & Hs0). apply in_map. apply in_flat_map. exists (s0, own_col d (xcol_of i)). split; [|exact H].
      apply flows_of_In. exists (xcol_of i, own_col d (xcol_of i)), s0. split; [unfold own_pairs; apply in_map_iff; exists (xcol_of i); split; [reflexivity|apply in_map; exact Hi]|auto]. }
  rewrite Emod.
  assert (Hper : forall i, In i items ->
            (In z (map flow_str (flat_map G (map (fun s0 => (s0, own_col d (xcol_of i))) (S_of TO (xcol_of i))))) <->
             In z (map (fun sr => (show_src sr ++ ">" ++ tstr ++ "." ++ item_name i)%string) (dedup_src (resolve scope (snd (item_ref i), fst (item_ref i))) [])))).
  { intros i Hi. destruct (Hitem i Hi) as (qn & r0 & Eq & Hr0 & En & _ & ES & Efb). rewrite ES, Eq. cbn [map flat_map]. rewrite app_nil_r.
    unfold resolve. cbn [fst snd]. fold scope in Efb. rewrite Efb. set (c := fst (item_ref i)).
    pose proof (Hok r0 Hr0) as Hr2. destruct r0 as [t0 al0|q0 a0|x0 y0]; [| |discriminate].
    - (* a base table *)
      unfold G. cbn [fst snd]. change (is_mid {| craw := c; cparents := [ds_of noise e k (RTable t0 al0)] |}) with false. cbv iota.
      cbn [bnd sbind b_rel rel_col dedup_src existsb map]. unfold flow_str. cbn [fst snd]. rewrite (Hown d i (Hit i Hi)). reflexivity.
    - (* a derived table *)
      cbn [rel2_ok] in Hr2. apply andb_true_iff in Hr2. destruct Hr2 as [Ha0 Hq0].
      destruct q0 as [items' from' cj' [wh|]| |]; try discriminate. set (q' := QSelect items' from' cj' None) in *.
      pose proof Hq0 as Hq0'. unfold q' in Hq0'. cbn [iq_ok] in Hq0'. apply andb_true_iff in Hq0'. destruct Hq0' as [Hq0' Hrel']. apply andb_true_iff in Hq0'. destruct Hq0' as [Hit' Hne'].
      assert (Hrt' : forallb is_rtable from' = true) by (rewrite forallb_forall in *; intros r Hr; apply rel_ok_table; apply Hrel'; exact Hr).
      assert (Hi0 : inner_of (RDerived q' a0) = Some (items', from')) by reflexivity.
      destruct (Hin _ items' from' Hr0 Hi0) as (Hpl' & Hic & _). pose proof (tables_cond_sub ds t from _ items' from' Htc Hr0 Hi0) as Htc'.
      rewrite forallb_forall in Hit', Hpl'.
      set (sq := sqd noise k q' a0). set (ts' := map (tbl_of e) from'). set (b0 := (sq, ts', map xcol_of items') : block).
      assert (Hb0 : In b0 BL) by (unfold BL, blocks; apply in_flat_map; exists (RDerived q' a0); split; [exact Hr0|left; reflexivity]).
      unfold G. cbn [fst snd]. change (ds_of noise e k (RDerived q' a0)) with sq.
      change (is_mid {| craw := c; cparents := [sq] |}) with true. cbv iota.
      cbn [bnd b_rel rel_col]. unfold q' at 1. rewrite Ek, (q_cols_select k1 ds items' from' cj' None Hrt').
      set (scope_in := map (sbind ds) from'). set (cols_in := flat_map (item_cols scope_in) items').
      set (CANDS := map (fun r => tref_str ds (rtref r)) from').
      assert (Hinner : forall i', In i' items' -> exists SR, item_cols scope_in i' = [(item_name i', SR)] /\
                         map show_src SR = map (fun s0 => src_str (NCol s0)) (S_of ts' (xcol_of i')) /\ forall sr, In sr SR -> src_cands CANDS sr).
      { intros i' Hi'. apply (item_corr_src e t from' i' Hrel' (Hit' i' Hi') (Hpl' i' Hi') Htc' (Hic i' Hi')). }
      assert (Hcands : forall sr, In sr (lookup_col c cols_in) -> src_cands CANDS sr).
      { intros sr Hsr. unfold lookup_col in Hsr. apply in_flat_map in Hsr. destruct Hsr as (cs & Hcs & Hsr).
        unfold cols_in in Hcs. apply in_flat_map in Hcs. destruct Hcs as (i' & Hi' & Hcs). destruct (Hinner i' Hi') as (SR & E1 & _ & E3).
        rewrite E1 in Hcs. destruct Hcs as [<-|[]]. cbn [fst snd] in Hsr. destruct (String.eqb (item_name i') c); [|destruct Hsr]. apply E3. exact Hsr. }
      (* the flows into the column [c] of this sub-query *)
      assert (Hfil : forall fi, In fi FI /\ col_eqb (snd fi) {| craw := c; cparents := [sq] |} = true <->
                                exists i' s', In i' items' /\ item_name i' = c /\ In s' (S_of ts' (xcol_of i')) /\ fi = (s', own_col sq (xcol_of i'))).
      { intros fi. split.
        - intros [Hfi Ec]. unfold FI in Hfi. apply in_flat_map in Hfi. destruct Hfi as (b & Hb & Hfi).
          destruct (blk_In noise e k from b Hb) as (r & items2 & from2 & a2 & cj2 & Hr & Er & ->).
          apply flows_of_In in Hfi. destruct Hfi as (p' & s' & Hp' & Hs' & ->). cbn [bsq bts bxs fst snd] in *.
          unfold own_pairs in Hp'. apply in_map_iff in Hp'. destruct Hp' as (x' & <- & Hx'). apply in_map_iff in Hx'. destruct Hx' as (i' & <- & Hi'). cbn [fst snd] in *.
          assert (Hi2 : inner_of r = Some (items2, from2)) by (rewrite Er; reflexivity).
          destruct (rel2_inner r items2 from2 (Hok r Hr) Hi2) as (_ & _ & _ & _ & Hit2 & _ & _). rewrite forallb_forall in Hit2.
          rewrite (Hown _ i' (Hit2 i' Hi')) in Ec. unfold col_eqb in Ec. apply andb_true_iff in Ec. destruct Ec as [Ec1 Ec2].
          unfold col_parent in Ec2. cbn [cparents opt_dataset_eqb] in Ec2.
          assert (Err : r = RDerived q' a0).
          { rewrite Er. apply (NoDup_flat_inj (fun r => match r with RDerived q1 _ => [raw (r_brq noise k q1)] | _ => [] end) from _ _ (raw (r_brq noise k (QSelect items2 from2 cj2 None))) Hsq); [rewrite <- Er; exact Hr|exact Hr0|left; reflexivity|].
            left. unfold dataset_eqb in Ec2. cbn [sq sqd mk_subquery dk deq dkind_beq andb] in Ec2. apply String.eqb_eq in Ec2. symmetry. exact Ec2. }
          rewrite Er in Err. inversion Err. subst items2 from2 cj2 a2.
          apply String.eqb_eq in Ec1. unfold col_str, col_parent in Ec1. cbn [cparents craw dk sqd mk_subquery] in Ec1. apply append_cancel in Ec1. apply append_cancel in Ec1.
          exists i', s'. auto.
        - intros (i' & s' & Hi' & En' & Hs' & ->). split.
          + unfold FI. apply in_flat_map. exists b0. split; [exact Hb0|]. apply flows_of_In. exists (xcol_of i', own_col sq (xcol_of i')), s'.
            split; [unfold own_pairs; apply in_map_iff; exists (xcol_of i'); split; [reflexivity|apply in_map; exact Hi']|auto].
          + cbn [snd]. rewrite (Hown sq i' (Hit' i' Hi')), En'. apply col_eqb_refl. }
      split.
      + intros H. apply in_map_iff in H. destruct H as (ff & <- & H). apply in_map_iff in H. destruct H as (fi & <- & H). apply filter_In in H.
        destruct (proj1 (Hfil fi) H) as (i' & s' & Hi' & En' & Hs' & ->). cbn [fst snd].
        destruct (Hinner i' Hi') as (SR & E1 & E2 & E3).
        assert (Hz : In (src_str (NCol s')) (map show_src (lookup_col c cols_in))).
        { assert (Hz0 : In (src_str (NCol s')) (map show_src SR)) by (rewrite E2; apply in_map_iff; exists s'; auto).
          apply in_map_iff in Hz0. destruct Hz0 as (sr & Esr & Hsr). apply in_map_iff. exists sr. split; [exact Esr|].
          unfold lookup_col. apply in_flat_map. exists (item_name i', SR). split.
          - unfold cols_in. apply in_flat_map. exists i'. split; [exact Hi'|]. rewrite E1. left. reflexivity.
          - cbn [fst snd]. rewrite En', String.eqb_refl. exact Hsr. }
        apply (dedup_src_strs CANDS _ _ Hcands) in Hz. apply in_map_iff in Hz. destruct Hz as (sr & Esr & Hsr).
        apply in_map_iff. exists sr. split; [|exact Hsr]. unfold flow_str. cbn [fst snd]. rewrite Esr, (Hown d i (Hit i Hi)). reflexivity.
      + intros H. apply in_map_iff in H. destruct H as (sr & <- & Hsr).
        assert (Hz : In (show_src sr) (map show_src (lookup_col c cols_in))) by (apply (dedup_src_strs CANDS _ _ Hcands); apply in_map; exact Hsr).
        apply in_map_iff in Hz. destruct Hz as (sr0 & Esr0 & Hsr0). unfold lookup_col in Hsr0. apply in_flat_map in Hsr0.
        destruct Hsr0 as (cs & Hcs & Hsr0). unfold cols_in in Hcs. apply in_flat_map in Hcs. destruct Hcs as (i' & Hi' & Hcs).
        destruct (Hinner i' Hi') as (SR & E1 & E2 & E3). rewrite E1 in Hcs. destruct Hcs as [<-|[]]. cbn [fst snd] in Hsr0.
        destruct (String.eqb (item_name i') c) eqn:En'; [|destruct Hsr0]. apply String.eqb_eq in En'.
        assert (Hz0 : In (show_src sr0) (map (fun s0 => src_str (NCol s0)) (S_of ts' (xcol_of i')))) by (rewrite <- E2; apply in_map; exact Hsr0).
        apply in_map_iff in Hz0. destruct Hz0 as (s' & Es' & Hs').
        apply in_map_iff. exists (s', own_col d (xcol_of i)). split.
        * unfold flow_str. cbn [fst snd]. rewrite Es', Esr0, (Hown d i (Hit i Hi)). reflexivity.
        * apply in_map_iff. exists (s', own_col sq (xcol_of i')). split; [reflexivity|]. apply filter_In. apply (Hfil (s', own_col sq (xcol_of i'))).
          exists i', s'. auto. }
  split.
  - intros (i & Hi & H). apply in_flat_map. exists i. split; [exact Hi|]. apply (Hper i Hi). exact H.
  - intros H. apply in_flat_map in H. destruct H as (i & Hi & H). exists i. split; [exact Hi|]. apply (Hper i Hi). exact H.
Qed.
Print Assumptions lemma_B_derived_flat.

(* ================================================================== *)
(** * Part Z: the executable guard, and instances *)
Definition qual2b (from : list rel) (q : string) : bool :=
  match filter (fun r => String.eqb (rname2 r) q || String.eqb (snd (rtref r)) q) from with
  | [r0] => String.eqb (rname2 r0) q
  | _ => false
  end.

Lemma qual2b_ok from q : qual2b from q = true -> qual2 from q.
Proof.
  unfold qual2b. set (P := fun r => String.eqb (rname2 r) q || String.eqb (snd (rtref r)) q).
  destruct (filter P from) as [|r0 [|r1 l]] eqn:E; try discriminate. intros H. apply String.eqb_eq in H.
  assert (K : In r0 (filter P from)) by (rewrite E; left; reflexivity). apply filter_In in K.
  exists r0. split; [exact (proj1 K)|]. split; [exact H|]. intros r Hr Hor.
  assert (K2 : In r (filter P from)).
  { apply filter_In. split; [exact Hr|]. unfold P. destruct Hor as [<-|<-]; rewrite String.eqb_refl; [reflexivity|apply orb_true_r]. }
  rewrite E in K2. destruct K2 as [<-|[]]. reflexivity.
Qed.

Definition inner_condb (from : list rel) : bool :=
  forallb (fun r => match inner_of r with
                    | Some (items', from') =>
                        forallb plain_item items' && items_condb from' items'
                        && (negb (Nat.leb 2 (List.length from')) || forallb (fun i' => is_some (snd (item_ref i'))) items')
                    | None => true end) from.

Lemma inner_condb_ok from : inner_condb from = true -> inner_cond from.
Proof.
  intros H r items' from' Hr Hi. unfold inner_condb in H. rewrite forallb_forall in H. specialize (H r Hr). rewrite Hi in H.
  apply andb_true_iff in H. destruct H as [H H3]. apply andb_true_iff in H. destruct H as [H1 H2].
  split; [exact H1|]. split; [apply items_condb_ok; exact H2|]. intros Hl i' Hi' En.
  apply orb_true_iff in H3. destruct H3 as [H3|H3].
  - apply Nat.leb_le in Hl. rewrite Hl in H3. discriminate.
  - rewrite forallb_forall in H3. specialize (H3 i' Hi'). rewrite En in H3. discriminate.
Qed.

Definition outer_cond2b (from : list rel) (items : list item) : bool :=
  forallb (fun i => plain_item i &&
                    match snd (item_ref i) with
                    | Some qn => qual2b from qn &&
                                 forallb (fun r0 => negb (String.eqb (rname2 r0) qn) ||
                                                    match inner_of r0 with
                                                    | Some (items', _) => mem_string (fst (item_ref i)) (map item_name items')
                                                    | None => true end) from
                    | None => false
                    end) items.

Lemma outer_cond2b_ok from items : outer_cond2b from items = true -> outer_cond2 from items.
Proof.
  intros H i Hi. unfold outer_cond2b in H. rewrite forallb_forall in H. specialize (H i Hi). apply andb_true_iff in H. destruct H as [H1 H2].
  split; [exact H1|]. destruct (snd (item_ref i)) as [qn|]; [|discriminate]. apply andb_true_iff in H2. destruct H2 as [H2 H3].
  exists qn. split; [reflexivity|]. split; [apply qual2b_ok; exact H2|]. intros r0 items' from' Hr0 En Hi0.
  rewrite forallb_forall in H3. specialize (H3 r0 Hr0). rewrite En, String.eqb_refl, Hi0 in H3. cbn [negb orb] in H3. apply mem_string_In. exact H3.
Qed.

Lemma allrels_rel_ok from : forallb rel2_ok from = true -> forallb rel_ok (allrels from) = true.
Proof.
  intros Hok. apply forallb_forall. intros r Hr. unfold allrels in Hr. apply in_flat_map in Hr. destruct Hr as (r1 & Hr1 & Hr).
  rewrite forallb_forall in Hok. specialize (Hok r1 Hr1). destruct r1 as [t al|q a|x y]; [| |destruct Hr].
  - destruct Hr as [<-|[]]. exact Hok.
  - destruct q as [items' from' cj' wh| |]; [|destruct Hr|destruct Hr]. cbn [rel2_ok iq_ok] in Hok. destruct wh; [rewrite andb_false_r in Hok; discriminate|].
    apply andb_true_iff in Hok. destruct Hok as [_ Hok]. apply andb_true_iff in Hok. destruct Hok as [_ Hok]. rewrite forallb_forall in Hok. exact (Hok r Hr).
Qed.

(** INSERT (no column list) / CTAS / VIEW over SELECT q.c, .. FROM r1, .., rn: base tables and derived tables over base tables *)
Definition derived_flat_shape (noise : list seg) (s : stmt) : bool :=
  match s with
  | SInsert t None (QSelect items from cj None) | SCtas t (QSelect items from cj None) | SView t (QSelect items from cj None) =>
      tref_ok t && forallb item_ok items && negb (match from with [] => true | _ => false end) && forallb rel2_ok from && noleak from cj
      && tables_condb t (allrels from) && nodup_s (from_sq_texts noise (q_size (QSelect items from cj None)) from)
      && inner_condb from && outer_cond2b from items
  | _ => false
  end.

Theorem lemma_B_derived_flat_restricted : forall noise e s,
  noise_ok noise = true -> env_ok e = true -> derived_flat_shape noise s = true ->
  script_pairs e false [] [r_stmt noise s] = spec_pairs (e_cfg e) s.
Proof.
  intros noise e s Hn He Hsh.
  assert (K : exists t items from cj,
            (s = SInsert t None (QSelect items from cj None) \/ s = SCtas t (QSelect items from cj None) \/ s = SView t (QSelect items from cj None)) /\
            tref_ok t && forallb item_ok items && negb (match from with [] => true | _ => false end) && forallb rel2_ok from && noleak from cj
            && tables_condb t (allrels from) && nodup_s (from_sq_texts noise (q_size (QSelect items from cj None)) from)
            && inner_condb from && outer_cond2b from items = true).
  { destruct s as [t [cs|] q|t q|t q|q|kind]; cbn [derived_flat_shape] in Hsh; try discriminate;
      destruct q as [items from cj [wh|]| |]; try discriminate; exists t, items, from, cj; (split; [auto|exact Hsh]). }
  destruct K as (t & items & from & cj & Hs & H).
  do 8 (apply andb_true_iff in H; let H' := fresh "G" in destruct H as [H H']).
  apply (lemma_B_derived_flat noise e s t items from cj Hn He Hs); auto.
  - destruct from; [discriminate|discriminate].
  - apply tables_condb_ok; [exact H|apply allrels_rel_ok; exact G4|exact G2].
  - apply nodup_s_NoDup. exact G1.
  - apply inner_condb_ok. exact G0.
  - apply outer_cond2b_ok. exact G.
Qed.
Print Assumptions lemma_B_derived_flat_restricted.

(** ** non-vacuity *)
(** insert into tgt select d.x, w.y as yy, f.k from (select t.a as x, b from t join u on ..) as d join w on .. join (select k from s.v) as f on ..
    -- an outer explicit JOIN; the inner JOIN of d would leak, so d's inner query uses a comma join here *)
Definition ex5c2_1 : stmt :=
  SInsert (None, "tgt") None
    (QSelect [ci (Some "d") "x"; cia (Some "w") "y" "yy"; ci (Some "f") "k"]
             [RDerived (QSelect [cia (Some "t") "a" "x"; ci (Some "u") "b"] [tb "t"; tb "u"] true None) "d"; tb "w";
              RDerived (sel1 [ci None "k"] [tbs "s" "v" None]) "f"] false None).
(** create view tgt as select d.a, f.a as a2, z.c from (select a from t) d, (select a, b from u) f, s.w as z   (comma joins) *)
Definition ex5c2_2 : stmt :=
  SView (None, "tgt")
    (QSelect [ci (Some "d") "a"; cia (Some "f") "a" "a2"; ci (Some "z") "c"]
             [RDerived (sel1 [ci None "a"] [tb "t"]) "d"; RDerived (sel1 [ci None "a"; ci None "b"] [tb "u"]) "f"; tbs "s" "w" (Some "z")] true None).
(** create table tgt as select d.x, w.y from (select a as x from t join u on ..) d, w    (inner JOIN, outer comma join: no leak) *)
Definition ex5c2_3 : stmt :=
  SCtas (None, "tgt")
    (QSelect [ci (Some "d") "x"; ci (Some "w") "y"]
             [RDerived (QSelect [cia (Some "t") "a" "x"] [tb "t"; tb "u"] false None) "d"; tb "w"] true None).

Example ex5c2_guard : forallb (derived_flat_shape [ws5c; cm5c]) [ex5c2_1; ex5c2_2; ex5c2_3] = true.
Proof. vm_compute. reflexivity. Qed.
Example ex5c2_inside_lemma_B : map (lemma_B_check [ws5c; cm5c] e5c) [ex5c2_1; ex5c2_2; ex5c2_3] = ["holds"; "holds"; "holds"].
Proof. vm_compute. reflexivity. Qed.
Example ex5c2_pairs :
  script_pairs e5c false [] [r_stmt [ws5c] ex5c2_1] = ["main.t.a>main.tgt.x"; "main.w.y>main.tgt.yy"; "s.v.k>main.tgt.k"] /\
  script_pairs e5c false [] [r_stmt [ws5c] ex5c2_2] = ["main.t.a>main.tgt.a"; "main.u.a>main.tgt.a2"; "s.w.c>main.tgt.c"].
Proof. vm_compute. split; reflexivity. Qed.
Example ex5c2_instance : script_pairs e5c false [] [r_stmt [ws5c; cm5c] ex5c2_1] = spec_pairs (e_cfg e5c) ex5c2_1.
Proof. apply lemma_B_derived_flat_restricted; vm_compute; reflexivity. Qed.
(** the counterexample of LemmaB5c.v (raw-text clash under empty trivia) is outside the guard *)
Example ex5c2_rawclash : derived_flat_shape [] cxB5c_rawclash = false.
Proof. vm_compute. reflexivity. Qed.

(** SUMMARY
    - [model_pairs_flat]: the model side for INSERT (no column list) / CTAS / VIEW over ONE SELECT whose FROM has any number of
      relations, each a base table or a derived table over base tables (no inner JOIN clause leaking: [noleak]), in terms of
      [compose_flows]; semantic hypotheses (blocks well formed, all datasets pairwise different, outer references
      qualified-or-single, unresolved inner names used nowhere else, referenced sub-query columns exist).
      Built from [block_holder], [hinv] / [hinv_step] / [subs_fold] (the induction over the sub-query list with the
      global-distinctness invariant) and [holder_flat] (outer cleanup + realises + two_layer for n blocks).
    - [lemma_B_derived_flat] (conditions on the abstract syntax) and [lemma_B_derived_flat_restricted] (executable guard
      [derived_flat_shape noise s], which contains [sq_raw_distinct]):  script_pairs = spec_pairs.
      Restrictions of the guard beyond [colshape]: every base table of the statement occurs once ([tables_condb] on
      [allrels]); outer items are qualified ([q.c], q naming exactly one relation); unqualified inner references only over
      a single inner table (no unresolved inner columns - [model_pairs_flat] itself covers them, the syntactic derivation of
      its hypothesis on unresolved names is not done); [noleak]; no INSERT column list. *)

(* ================================================================== *)
(** * [colshape] against the guard of the one-derived fragment: a systematic test (no proof)
    5292 statements  insert into tgt select <1 item> from (select <1-2 items> from <tables>) as d  over 9 inner FROM lists
    (aliases, two tables, schema-qualified duplicates, self join, the target, an alias equal to d, an alias equal to
    another table's name), inner items over 5 qualifiers x 2 names x 3 aliases.  344 satisfy
    [stmt_ok && sshape && colshape], 686 satisfy [one_derived_shape]; NONE satisfies the former without the latter
    ([gap5c_none]), i.e. no counterexample to  colshape -> one_derived_shape  on the pure shape was found.  The converse
    fails (342 statements, e.g. an unresolved inner column [a] consumed as [d.a]: [colshape] excludes it through its
    name count, [lemma_B_one_derived] covers it). *)
Definition gap5c_items : list item :=
  flat_map (fun q => flat_map (fun n => map (fun al => IExpr (EColRef q n) al) [None; Some "a"; Some "x"]) ["a"; "b"])
           [None; Some "d"; Some "t"; Some "u"; Some "p"].
Definition gap5c_inner : list (list item) :=
  map (fun i => [i]) gap5c_items ++ firstn 12 (flat_map (fun i => map (fun j => [i; j]) (firstn 12 gap5c_items)) (firstn 12 gap5c_items)).
Definition gap5c_outer : list (list item) :=
  firstn 12 (map (fun i => [i]) gap5c_items) ++ [[IExpr (EColRef (Some "d") "x") None]; [IExpr (EColRef None "x") None]].
Definition gap5c_froms : list (list rel) :=
  [[tb "t"]; [tba "t" "p"]; [tb "t"; tb "u"]; [tba "t" "p"; tb "u"]; [tbs "s" "t" None; tb "t"]; [tb "t"; tb "t"]; [tb "tgt"];
   [tba "u" "d"]; [tbs "s" "u" (Some "t"); tb "t"]].
Definition gap5c_stmts : list stmt :=
  flat_map (fun fr => flat_map (fun inner => map (fun outer =>
     SInsert (None, "tgt") None (QSelect outer [RDerived (QSelect inner fr true None) "d"] false None)) gap5c_outer) gap5c_inner) gap5c_froms.
Example gap5c_none :
  List.length gap5c_stmts = 5292 /\
  List.length (filter (fun s => stmt_ok s && sshape s && colshape s) gap5c_stmts) = 344 /\
  filter (fun s => stmt_ok s && sshape s && colshape s && negb (one_derived_shape s)) gap5c_stmts = [].
Proof. vm_compute. repeat split. Qed.

(** the instance of the (repaired) [lemma_B_statement] on the one-derived fragment, as a statement: OPEN (it follows from
    [lemma_B_one_derived_restricted] once  stmt_ok /\ sshape /\ colshape -> one_derived_shape  is proved on this shape) *)
Definition one_derived_syntactic (s : stmt) : bool :=
  match s with
  | SInsert _ None (QSelect _ [RDerived (QSelect _ from' _ None) _] _ None)
  | SCtas _ (QSelect _ [RDerived (QSelect _ from' _ None) _] _ None)
  | SView _ (QSelect _ [RDerived (QSelect _ from' _ None) _] _ None) => forallb is_rtable from'
  | _ => false
  end.
Definition lemma_B_one_derived_colshape_statement : Prop :=
  forall noise e s, noise_ok noise = true -> env_ok e = true -> stmt_ok s = true -> sshape s = true -> colshape s = true ->
    one_derived_syntactic s = true -> script_pairs e false [] [r_stmt noise s] = spec_pairs (e_cfg e) s.
Theorem lemma_B_one_derived_colshape_reduction :
  (forall s, stmt_ok s = true -> sshape s = true -> colshape s = true -> one_derived_syntactic s = true -> one_derived_shape s = true) ->
  lemma_B_one_derived_colshape_statement.
Proof. intros H noise e s Hn He H1 H2 H3 H4. apply lemma_B_one_derived_restricted; auto. Qed.
