From Coq Require Import Permutation Lia.
From SV Require Import Tree.Render Tree.LemmaA Tree.LemmaAProofs Tree.LemmaB Tree.LemmaBProofs Tree.LemmaB5cPaths Tree.LemmaB5c
     Ident.Escape Ident.EscapeProofs Holder.PathProofs Holder.SortProofs.
Open Scope string_scope.
Open Scope list_scope.

(** alias edges given as an arbitrary list of (dataset, alias) pairs never touch a column *)
Lemma ematch_aliasp_col x y (AO : list (dataset * string)) :
  is_column x = true -> ematch x y (map (fun p : dataset * string => (NData (fst p), NStr (snd p))) AO) = false.
Proof.
  intros Hx. unfold ematch. apply existsb_none. intros p Hp. apply in_map_iff in Hp. destruct Hp as (v & <- & _).
  cbn [fst snd]. destruct x; try discriminate. reflexivity.
Qed.

Lemma ematch_aliasp_ycol x c (AO : list (dataset * string)) :
  ematch x (NCol c) (map (fun p : dataset * string => (NData (fst p), NStr (snd p))) AO) = false.
Proof.
  unfold ematch. apply existsb_none. intros p Hp. apply in_map_iff in Hp. destruct Hp as (v & <- & _).
  cbn [fst snd node_eqb]. apply andb_false_r.
Qed.

(** [realises_one_derived] of LemmaB5c with ABSTRACT hypotheses on the statement holder [G] (only its edge relation,
    the presence of the end points of the listed edges, the node literals and [clean_holder] are used), an arbitrary
    source function [So] of the outer SELECT (all its columns belong to the sub-query) and arbitrary outer alias edges [AO]. *)
Theorem realises_two_layer_abs2 d sq ts' xs' xs (So : xcol -> list column) (AO : list (dataset * string)) G :
  dk d = KTable -> dk sq = KSubq -> group_ok d ts' -> ts_inj ts' ->
  (forall x, In x xs' -> xref_ok ts' x) -> (forall x, In x xs -> cparents (xc x) = []) ->
  (forall x s, In x xs -> In s (So x) -> cparents s = [sq]) ->
  let NM := unres_names ts' xs' in
  (forall nm, In nm NM -> exists x, In x xs' /\ In (Ucol ts' nm) (S_of ts' x)) ->
  (forall x' s' nm v, In nm NM -> In x' xs' -> In s' (S_of ts' x') -> cparents s' = [v] -> craw s' <> nm) ->
  (forall x s, In x xs -> In s (So x) -> exists x', In x' xs' /\ craw (xc x') = craw s /\ S_of ts' x' <> []) ->
  let ELO := map (fun p : dataset * string => (NData (fst p), NStr (snd p))) AO ++ sel_edges d So (own_pairs d xs) in
  (forall x y, has_edge G x y = ematch x y (EL_of sq ts' xs') || ematch x y ELO) ->
  (forall p, In p (EL_of sq ts' xs' ++ ELO) -> has_node G (fst p) = true /\ has_node G (snd p) = true) ->
  lits_in (QK (d :: sq :: ts') (PCg ts' NM sq d)) G -> clean_holder G ->
  let FI := flows_of (S_of ts') (own_pairs sq xs') in
  let FO := flows_of So (own_pairs d xs) in
  lits_in (unres_ok G) G /\ realises G (FI ++ FO) /\ two_layer FI FO.
Proof.
  intros Hkd Hks Hgo Hinj Hxs' Hxs0 HSo NM HNM HNQ Hfed ELO HE HN LG HC FI FO.
  assert (Hsqd : forall v, In v ts' -> dataset_eqb v sq = false).
  { intros v Hv. unfold dataset_eqb. rewrite (go_tables _ _ Hgo v Hv), Hks. reflexivity. }
  assert (HEc : forall x y, is_column x = true ->
                has_edge G x y = ematch x y (map (fun f : flow => (NCol (fst f), NCol (snd f))) (FI ++ FO))).
  { intros x y Hx. rewrite HE. unfold EL_of, ELO. rewrite !ematch_app, (ematch_alias_col x y _ Hx), (ematch_aliasp_col x y AO Hx), !(ematch_sel_col _ _ _ x y Hx).
    rewrite map_app, ematch_app. reflexivity. }
  (* the shape of the flows *)
  assert (HFI : forall f, In f FI -> exists x s, In x xs' /\ In s (S_of ts' x) /\ f = (s, {| craw := craw (xc x); cparents := [sq] |}) /\
                  ((exists v, In v ts' /\ cparents s = [v]) \/
                   (exists nm, In nm NM /\ s = Ucol ts' nm /\ escape nm = nm /\ 2 <= List.length (cparents s)))).
  { intros f Hf. apply flows_of_In in Hf. destruct Hf as (p & s & Hp & Hs & ->). unfold own_pairs in Hp. apply in_map_iff in Hp.
    destruct Hp as (x & <- & Hx). cbn [fst snd] in *. exists x, s. split; [exact Hx|]. split; [exact Hs|].
    destruct (S_of_props d ts' xs' x Hgo Hinj Hkd Hx (Hxs' x Hx)) as (A1 & _ & _ & _ & A5). split; [|exact (A5 s Hs)].
    rewrite (own_col_eq sq x A1). reflexivity. }
  assert (HFO : forall f, In f FO -> exists x s, In x xs /\ In s (So x) /\ cparents s = [sq] /\
                                              f = (s, {| craw := craw (xc x); cparents := [d] |})).
  { intros f Hf. apply flows_of_In in Hf. destruct Hf as (p & s & Hp & Hs & ->). unfold own_pairs in Hp. apply in_map_iff in Hp.
    destruct Hp as (x & <- & Hx). cbn [fst snd] in *. exists x, s. split; [exact Hx|]. split; [exact Hs|]. split; [exact (HSo x s Hx Hs)|].
    rewrite (own_col_eq d x (Hxs0 x Hx)). reflexivity. }
  assert (Rc : forall f, In f (FI ++ FO) -> has_edge G (NCol (fst f)) (NCol (snd f)) = true).
  { intros f Hf. rewrite HEc by reflexivity. unfold ematch. apply existsb_exists. exists (NCol (fst f), NCol (snd f)).
    split; [apply in_map_iff; exists f; auto|]. cbn [fst snd]. rewrite !node_eqb_refl. reflexivity. }
  assert (Hmid : forall c, cparents c = [sq] -> is_mid c = true).
  { intros c Ec. unfold is_mid. cbn [parent_is]. unfold col_parent. rewrite Ec, Hks. reflexivity. }
  assert (Hnomid : forall s, ((exists v, In v ts' /\ cparents s = [v]) \/ 2 <= List.length (cparents s)) -> is_mid s = false).
  { intros s [(v & Hv & Ev)|Hl]; unfold is_mid; cbn [parent_is].
    - unfold col_parent. rewrite Ev, (go_tables _ _ Hgo v Hv). reflexivity.
    - rewrite (col_parent_none _ Hl). reflexivity. }
  (* a column of the target or of the sub-query is no source column of the inner SELECT *)
  assert (Hfresh : forall s c, ((exists v, In v ts' /\ cparents s = [v]) \/ 2 <= List.length (cparents s)) ->
                               (cparents c = [sq] \/ cparents c = [d]) -> col_eqb c s = false).
  { intros s c Hs Hc. unfold col_eqb. apply andb_false_iff. right.
    destruct Hs as [(v & Hv & Ev)|Hl].
    - unfold col_parent. rewrite Ev. destruct Hc as [-> | ->]; cbn [opt_dataset_eqb]; rewrite dataset_eqb_sym; [apply Hsqd|apply (go_target _ _ Hgo)]; exact Hv.
    - rewrite (col_parent_none _ Hl). unfold col_parent. destruct Hc as [-> | ->]; reflexivity. }
  split; [|split].
  - (* unresolved columns *)
    apply (lits_weaken (QK (d :: sq :: ts') (PCg ts' NM sq d))); [|exact LG]. intros n Hn u Hu. destruct n as [|c|]; cbn [unresolved] in Hu; try discriminate.
    cbn [QK] in Hn. destruct Hn as [_ [[(p & Ep & _)|(nm & Hnm & -> & Enm & Hlen)]|[Ep|Ep]]]; try (rewrite Ep in Hu; cbn in Hu; discriminate).
    destruct (Nat.ltb 1 (List.length (cparents (Ucol ts' nm)))); [|discriminate]. inversion Hu. subst u. clear Hu.
    destruct (Ucol_props ts' nm Hinj) as (U1 & _ & U3). split.
    + unfold candidates_in_graph. apply flat_map_none. intros p Hp. rewrite U1.
      destruct (has_edge G (NData p) (NCol (mk_col nm p))) eqn:Ehe; [|reflexivity]. exfalso.
      apply U3 in Hp. rewrite HE in Ehe. unfold EL_of, ELO in Ehe. rewrite !ematch_app, ematch_alias_ycol, ematch_aliasp_ycol in Ehe. cbn [orb] in Ehe.
      apply orb_true_iff in Ehe. destruct Ehe as [Ehe|Ehe]; apply ematch_sel_data in Ehe;
        destruct Ehe as (x' & s' & Hx' & Hs' & [[K _]|(sp & Esp & K1 & K2)]).
      * rewrite (Hsqd p Hp) in K. discriminate.
      * unfold own_pairs in Hx'. apply in_map_iff in Hx'. destruct Hx' as (x1 & <- & Hx1). cbn [fst] in Hs'.
        destruct (S_of_props d ts' xs' x1 Hgo Hinj Hkd Hx1 (Hxs' x1 Hx1)) as (_ & _ & _ & _ & A5).
        destruct (A5 s' Hs') as [(v & Hv & Ev)|(nm' & _ & -> & _ & Hl')].
        -- unfold col_parent in Esp. rewrite Ev in Esp. inversion Esp. subst sp.
           pose proof (proj1 Hinj p v Hp Hv K1) as Epv. subst v.
           cbn [node_eqb] in K2. unfold col_eqb in K2. apply andb_true_iff in K2. destruct K2 as [K2 _]. apply String.eqb_eq in K2.
           unfold col_str, col_parent, mk_col in K2. cbn [cparents craw] in K2. rewrite Ev, (go_tables _ _ Hgo p Hp), Enm in K2.
           apply append_cancel in K2. apply append_cancel in K2. apply (HNQ x1 s' nm p Hnm Hx1 Hs' Ev). symmetry. exact K2.
        -- rewrite (col_parent_none _ Hl') in Esp. discriminate.
      * rewrite (go_target _ _ Hgo p Hp) in K. discriminate.
      * unfold own_pairs in Hx'. apply in_map_iff in Hx'. destruct Hx' as (x1 & <- & Hx1). cbn [fst] in Hs'.
        pose proof (HSo x1 s' Hx1 Hs') as Ep'. unfold col_parent in Esp. rewrite Ep' in Esp. inversion Esp. subst sp.
        rewrite (Hsqd p Hp) in K1. discriminate.
    + destruct (HNM nm Hnm) as (x & Hx & Hs). exists (NCol (own_col sq x)).
      apply (Rc (Ucol ts' nm, own_col sq x)). apply in_app_iff. left. apply flows_of_In. exists (x, own_col sq x), (Ucol ts' nm).
      split; [unfold own_pairs; apply in_map_iff; exists x; auto|]. auto.
  - (* realises *)
    constructor.
    + intros x y Hx Hxy. rewrite (HEc x y Hx) in Hxy. unfold ematch in Hxy. apply existsb_exists in Hxy.
      destruct Hxy as (p & Hp & E). apply in_map_iff in Hp. destruct Hp as (f & <- & Hf). cbn [fst snd] in E.
      apply andb_true_iff in E. exists f. tauto.
    + exact Rc.
    + intros f Hf. apply in_app_iff in Hf. destruct Hf as [Hf|Hf].
      * apply flows_of_In in Hf. destruct Hf as (p & s & Hp & Hs & ->). cbn [fst snd].
        assert (Hin : In (NCol s, NCol (snd p)) (EL_of sq ts' xs')).
        { unfold EL_of. apply in_app_iff. right. unfold sel_edges. apply in_flat_map. exists p. split; [exact Hp|]. apply in_flat_map. exists s.
          split; [exact Hs|]. left. reflexivity. }
        exact (HN _ (in_or_app _ _ _ (or_introl Hin))).
      * apply flows_of_In in Hf. destruct Hf as (p & s & Hp & Hs & ->). cbn [fst snd].
        assert (Hin : In (NCol s, NCol (snd p)) ELO).
        { unfold ELO. apply in_app_iff. right. unfold sel_edges. apply in_flat_map. exists p. split; [exact Hp|]. apply in_flat_map. exists s.
          split; [exact Hs|]. left. reflexivity. }
        exact (HN _ (in_or_app _ _ _ (or_intror Hin))).
    + apply (lits_weaken (QK (d :: sq :: ts') (PCg ts' NM sq d))); [|exact LG]. intros n Hn f Hf E.
      apply in_app_iff in Hf. destruct Hf as [Hf|Hf].
      * destruct (HFI f Hf) as (x & s & _ & _ & -> & [(v & _ & Ev)|(nm & _ & -> & _ & Hl)]); cbn [fst] in *.
        -- apply (src_str_eqb_single n s v); [unfold col_parent; rewrite Ev; reflexivity|exact E].
        -- destruct n as [|c|]; cbn [node_eqb] in E; try discriminate. cbn [QK] in Hn.
           unfold col_eqb in E. apply andb_true_iff in E. destruct E as [E1 E2]. rewrite (col_parent_none _ Hl) in E2.
           destruct Hn as [_ [[(p & Ep & _)|(nm' & _ & -> & _ & Hl')]|[Ep|Ep]]]; try (unfold col_parent in E2; rewrite Ep in E2; discriminate).
           apply String.eqb_eq in E1. unfold col_str in E1. rewrite (col_parent_none _ Hl), (col_parent_none _ Hl') in E1.
           rewrite (proj1 (Ucol_props ts' nm Hinj)), (proj1 (Ucol_props ts' nm' Hinj)) in E1. subst nm'. reflexivity.
      * destruct (HFO f Hf) as (x & s & _ & _ & Ep & ->). cbn [fst] in *.
        apply (src_str_eqb_single n s sq); [unfold col_parent; rewrite Ep; reflexivity|exact E].
  - (* two layers *)
    assert (KI : forall f, In f FI -> ((exists v, In v ts' /\ cparents (fst f) = [v]) \/ 2 <= List.length (cparents (fst f))) /\ cparents (snd f) = [sq]).
    { intros f Hf. destruct (HFI f Hf) as (x & s & _ & _ & -> & [H|(nm & _ & _ & _ & Hl)]); cbn [fst snd cparents]; auto. }
    assert (KO : forall f, In f FO -> cparents (fst f) = [sq] /\ cparents (snd f) = [d]).
    { intros f Hf. destruct (HFO f Hf) as (x & s & _ & _ & Ep & ->). cbn [fst snd cparents]. auto. }
    constructor.
    + intros f Hf. apply Hnomid. exact (proj1 (KI f Hf)).
    + intros f Hf. apply Hmid. exact (proj2 (KI f Hf)).
    + intros f Hf. cbn [parent_is]. unfold col_parent. rewrite (proj2 (KO f Hf)), Hkd. reflexivity.
    + intros f f' Hf Hf'. apply in_app_iff in Hf'. destruct Hf' as [Hf'|Hf'].
      * apply Hfresh; [exact (proj1 (KI f' Hf'))|right; exact (proj2 (KO f Hf))].
      * unfold col_eqb. apply andb_false_iff. right. unfold col_parent. rewrite (proj2 (KO f Hf)), (proj1 (KO f' Hf')).
        cbn [opt_dataset_eqb]. unfold dataset_eqb. rewrite Hkd, Hks. reflexivity.
    + intros f f' Hf Hm. rewrite (Hmid _ (proj1 (KO f Hf))) in Hm. discriminate.
    + intros f f' Hf Hf'. apply Hfresh; [exact (proj1 (KI f Hf))|]. apply in_app_iff in Hf'. destruct Hf' as [Hf'|Hf'].
      * left. exact (proj2 (KI f' Hf')).
      * right. exact (proj2 (KO f' Hf')).
    + intros f Hf _. destruct (HFO f Hf) as (x & s & Hx & Hs & Ep & ->). cbn [fst].
      destruct (Hfed x s Hx Hs) as (x' & Hx' & Ec & Hne). destruct (S_of ts' x') as [|s' r] eqn:ES; [congruence|].
      exists (s', own_col sq x'). split.
      * apply flows_of_In. exists (x', own_col sq x'), s'. split; [unfold own_pairs; apply in_map_iff; exists x'; auto|].
        cbn [fst snd]. rewrite ES. split; [left; reflexivity|reflexivity].
      * cbn [snd]. destruct (Hxs' x' Hx') as (A1 & _). rewrite (own_col_eq sq x' A1), Ec.
        destruct s as [cs ps]. cbn [cparents craw] in *. subst ps. apply col_eqb_refl.
Qed.

Print Assumptions realises_two_layer_abs2.

(** the instance [So := S_of [sq]], [AO := [(sq, dalias sq)]]: the outer SELECT reads the one derived table *)
Theorem realises_two_layer_abs d sq ts' xs' xs G :
  dk d = KTable -> dk sq = KSubq -> group_ok d ts' -> ts_inj ts' ->
  (forall x, In x xs' -> xref_ok ts' x) -> (forall x, In x xs -> cparents (xc x) = []) ->
  let NM := unres_names ts' xs' in
  (forall nm, In nm NM -> exists x, In x xs' /\ In (Ucol ts' nm) (S_of ts' x)) ->
  (forall x' s' nm v, In nm NM -> In x' xs' -> In s' (S_of ts' x') -> cparents s' = [v] -> craw s' <> nm) ->
  (forall x s, In x xs -> In s (S_of [sq] x) -> exists x', In x' xs' /\ craw (xc x') = craw s /\ S_of ts' x' <> []) ->
  (forall x y, has_edge G x y = ematch x y (EL_of sq ts' xs') || ematch x y (EL_of d [sq] xs)) ->
  (forall p, In p (EL_of sq ts' xs' ++ EL_of d [sq] xs) -> has_node G (fst p) = true /\ has_node G (snd p) = true) ->
  lits_in (QK (d :: sq :: ts') (PCg ts' NM sq d)) G -> clean_holder G ->
  let FI := flows_of (S_of ts') (own_pairs sq xs') in
  let FO := flows_of (S_of [sq]) (own_pairs d xs) in
  lits_in (unres_ok G) G /\ realises G (FI ++ FO) /\ two_layer FI FO.
Proof.
  intros Hkd Hks Hgo Hinj Hxs' Hxs0 NM HNM HNQ Hfed HE HN LG HC FI FO.
  exact (realises_two_layer_abs2 d sq ts' xs' xs (S_of [sq]) [(sq, dalias sq)] G Hkd Hks Hgo Hinj Hxs' Hxs0
           (fun x s _ Hs => S_of_single_parent sq x s Hs) HNM HNQ Hfed HE HN LG HC).
Qed.

Print Assumptions realises_two_layer_abs.

(** The original [realises_one_derived] is an instance (re-derived here without using it). *)
Corollary realises_one_derived_from_abs d sq ts' xs' xs sh sub :
  dk d = KTable -> dk sq = KSubq -> group_ok d ts' -> ts_inj ts' ->
  (forall x, In x xs' -> xref_ok ts' x) -> (forall x, In x xs -> cparents (xc x) = []) ->
  let NM := unres_names ts' xs' in
  (forall nm, In nm NM -> exists x, In x xs' /\ In (Ucol ts' nm) (S_of ts' x)) ->
  (forall x' s' nm v, In nm NM -> In x' xs' -> In s' (S_of ts' x') -> cparents s' = [v] -> craw s' <> nm) ->
  (forall x s, In x xs -> In s (S_of [sq] x) -> exists x', In x' xs' /\ craw (xc x') = craw s /\ S_of ts' x' <> []) ->
  let g0 := add_write empty_graph d in
  let g1 := compose g0 (set_attr sh [NData sq] "write" false) in
  ext (add_write empty_graph sq) sh (EL_of sq ts' xs') -> ext g1 sub (EL_of d [sq] xs) ->
  lits_in (QK (d :: sq :: ts') (PCg ts' NM sq d)) sub -> edges_inv (sq :: ts') sub -> drop_free sub ->
  let G := compose g0 sub in
  let FI := flows_of (S_of ts') (own_pairs sq xs') in
  let FO := flows_of (S_of [sq]) (own_pairs d xs) in
  clean_holder G /\ lits_in (unres_ok G) G /\ realises G (FI ++ FO) /\ two_layer FI FO.
Proof.
  intros Hkd Hks Hgo Hinj Hxs' Hxs0 NM HNM HNQ Hfed g0 g1 Xsh Xsub Lsub Esub Dsub G FI FO.
  assert (HC : clean_holder G).
  { split.
    + intros n a Hin. destruct (attr_true "drop" a) eqn:E; [|reflexivity]. exfalso. apply attr_true_In in E.
      assert (D0 : drop_free g0) by (intros n0 a0 [H|[]]; inversion H; intros [K|[]]; discriminate K).
      exact (drop_free_compose g0 sub D0 Dsub n a Hin E).
    + apply (etype_compose (fun s => String.eqb s "rename" = false)); [intros e0 []|].
      intros e0 He0. pose proof (Esub e0 He0) as Hi. unfold edge_inv in Hi.
      destruct (snd (fst e0)); [destruct Hi as [-> | ->]; reflexivity|destruct Hi as [-> | ->]; reflexivity|destruct Hi as [-> _]; reflexivity]. }
  split; [exact HC|].
  apply (realises_two_layer_abs d sq ts' xs' xs G Hkd Hks Hgo Hinj Hxs' Hxs0 HNM HNQ Hfed); [| | |exact HC].
  - intros x y. unfold G, g0. rewrite has_edge_compose, has_edge_add_write, (ext_edges _ _ _ Xsub). cbn [orb]. f_equal.
    unfold g1, g0. rewrite has_edge_compose, has_edge_add_write, has_edge_set_attr, (ext_edges _ _ _ Xsh). reflexivity.
  - intros p Hp. apply in_app_iff in Hp. destruct Hp as [Hin|Hin].
    + destruct (ext_new _ _ _ Xsh _ Hin) as [N1 N2].
      assert (Hup : forall n, has_node sh n = true -> has_node G n = true).
      { intros n Hn. unfold G. rewrite has_node_compose. apply orb_true_iff. right. apply (ext_mono _ _ _ Xsub).
        unfold g1. rewrite has_node_compose, has_node_set_attr, Hn. apply orb_true_r. }
      split; apply Hup; assumption.
    + destruct (ext_new _ _ _ Xsub _ Hin) as [N1 N2]. unfold G. rewrite !has_node_compose, N1, N2, !orb_true_r. auto.
  - apply lits_compose; [|exact Lsub]. split; [intros n [<-|[]]; left; reflexivity|intros e0 []].
Qed.

Print Assumptions realises_one_derived_from_abs.

(* ================================================================== *)
(** * Non-vacuity: a concrete holder, NOT built by [compose], satisfying every hypothesis of [realises_two_layer_abs] *)
Definition G_of (L : list (Graph.node * Graph.node)) : graph :=
  {| gnodes := map (fun n => (n, [])) (flat_map (fun p => [fst p; snd p]) L);
     gedges := map (fun p => (p, {| etype := "lineage"; eindex := None |})) L |}.

Lemma G_of_edge L x y : has_edge (G_of L) x y = ematch x y L.
Proof.
  unfold has_edge, ematch, G_of. cbn [gedges]. induction L as [|p r IH]; [reflexivity|].
  cbn [map has_edge_l existsb]. rewrite IH. reflexivity.
Qed.

Lemma G_of_node L p : In p L -> has_node (G_of L) (fst p) = true /\ has_node (G_of L) (snd p) = true.
Proof.
  unfold has_node, G_of. cbn [gnodes]. induction L as [|q r IH]; [intros []|]. intros [->|H].
  - cbn [flat_map app map has_node_l]. rewrite !node_eqb_refl, ?orb_true_r. cbn [orb]. split; reflexivity.
  - destruct (IH H) as [A B]. cbn [flat_map app map has_node_l]. rewrite A, B, !orb_true_r. split; reflexivity.
Qed.

Lemma G_of_lits Q L : (forall p, In p L -> Q (fst p) /\ Q (snd p)) -> lits_in Q (G_of L).
Proof.
  intros H. split.
  - intros n Hn. unfold G_of in Hn. cbn [gnodes] in Hn. rewrite map_map in Hn. cbn [fst] in Hn. rewrite map_id in Hn.
    apply in_flat_map in Hn. destruct Hn as (p & Hp & [<-|[<-|[]]]); apply (H p Hp).
  - intros e He. unfold G_of in He. cbn [gedges] in He. apply in_map_iff in He. destruct He as (p & <- & Hp). cbn [fst]. exact (H p Hp).
Qed.

Lemma G_of_clean L : clean_holder (G_of L).
Proof.
  split.
  - intros n a Hin. unfold G_of in Hin. cbn [gnodes] in Hin. apply in_map_iff in Hin. destruct Hin as (m & E & _). inversion E. reflexivity.
  - intros e He. unfold G_of in He. cbn [gedges] in He. apply in_map_iff in He. destruct He as (p & <- & _). reflexivity.
Qed.

Definition nv_tab (nm : string) : dataset :=
  {| dk := KTable; deq := "<default>." ++ nm; dstr := "<default>." ++ nm; dschema := "<default>"; draw := nm; dalias := nm; dquery := None |}.
Definition nv_d := nv_tab "t".
Definition nv_a := nv_tab "a".
Definition nv_b := nv_tab "b".
Definition nv_sq : dataset :=
  {| dk := KSubq; deq := "(select a.c, e from a, b)"; dstr := "s"; dschema := ""; draw := ""; dalias := "s"; dquery := None |}.
Definition nv_x (c : string) (qq : option string) : xcol :=
  {| xc := {| craw := c; cparents := [] |}; xsrc := [(c, qq)]; xfrom_alias := false |}.
Definition nv_ts := [nv_a; nv_b].
Definition nv_xs' := [nv_x "c" (Some "a"); nv_x "e" None].
Definition nv_xs := [nv_x "c" (Some "s"); nv_x "e" None].
Definition nv_G := G_of (EL_of nv_sq nv_ts nv_xs' ++ EL_of nv_d [nv_sq] nv_xs).

Ltac nv_in H := vm_compute in H; repeat (destruct H as [<-|H]); try (destruct H).

Example realises_two_layer_abs_nonvacuous :
  let FI := flows_of (S_of nv_ts) (own_pairs nv_sq nv_xs') in
  let FO := flows_of (S_of [nv_sq]) (own_pairs nv_d nv_xs) in
  List.length FI = 2 /\ List.length FO = 2 /\ unres_names nv_ts nv_xs' = ["e"] /\
  lits_in (unres_ok nv_G) nv_G /\ realises nv_G (FI ++ FO) /\ two_layer FI FO.
Proof.
  intros FI FO. split; [reflexivity|]. split; [reflexivity|]. split; [reflexivity|].
  apply (realises_two_layer_abs nv_d nv_sq nv_ts nv_xs' nv_xs nv_G).
  - reflexivity.
  - reflexivity.
  - constructor.
    + intros v Hv. nv_in Hv; reflexivity.
    + intros v w Hv Hw E. nv_in Hv; nv_in Hw; first [reflexivity|vm_compute in E; discriminate E].
    + intros v Hv. nv_in Hv; reflexivity.
  - split; intros v w Hv Hw E; nv_in Hv; nv_in Hw; first [reflexivity|vm_compute in E; discriminate E].
  - intros x Hx. nv_in Hx.
    + split; [reflexivity|]. exists "c", (Some "a"). split; [reflexivity|]. split; [reflexivity|].
      exists nv_a. split; [left; reflexivity|]. split; [reflexivity|]. intros w Hw Hq. nv_in Hw; [reflexivity|].
      exfalso. destruct Hq as [Hq|[Hq|Hq]]; vm_compute in Hq; discriminate Hq.
    + split; [reflexivity|]. exists "e", None. split; [reflexivity|]. split; [reflexivity|]. right. split; [|discriminate].
      exists nv_a, nv_b. split; [left; reflexivity|]. split; [right; left; reflexivity|discriminate].
  - intros x Hx. nv_in Hx; reflexivity.
  - intros nm Hnm. nv_in Hnm. exists (nv_x "e" None). split; [right; left; reflexivity|left; reflexivity].
  - intros x' s' nm v Hnm Hx' Hs' Ev. nv_in Hnm. nv_in Hx'; nv_in Hs'; [discriminate|vm_compute in Ev; discriminate Ev].
  - intros x s Hx Hs. nv_in Hx; nv_in Hs.
    + exists (nv_x "c" (Some "a")). split; [left; reflexivity|]. split; [reflexivity|discriminate].
    + exists (nv_x "e" None). split; [right; left; reflexivity|]. split; [reflexivity|discriminate].
  - intros x y. unfold nv_G. rewrite G_of_edge, ematch_app. reflexivity.
  - intros p Hp. exact (G_of_node _ p Hp).
  - apply G_of_lits. intros p Hp. nv_in Hp; split; cbn [fst snd QK]; try exact I;
      try (vm_compute; tauto);
      (split; [reflexivity|]);
      first [ left; left; eexists; split; reflexivity
            | left; right; exists "e"; split; [left; reflexivity|]; split; [reflexivity|]; split; [reflexivity|]; vm_compute; lia
            | right; left; reflexivity
            | right; right; reflexivity ].
  - apply G_of_clean.
Qed.
