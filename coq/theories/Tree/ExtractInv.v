(** The extractor keeps the holder invariant [HI] of Tree/HolderInv.v, for every tree, every extractor kind and every
    context: [extract_HI].  Hence the roles theorem of Tree/ScriptRoles.v holds unconditionally on the whole fragment of
    Lemma A: [script_roles_exact_on_core]. *)
From SV Require Import Tree.Render Tree.LemmaA Tree.LemmaAProofs Tree.LemmaB Tree.LemmaBProofs
     Holder.PathProofs Tree.ScriptExact Tree.ScriptWellFormed Tree.ScriptExactExt Tree.HolderInv Tree.ScriptRoles.
From SV Require Holder.RefineDefs Holder.RefineGraph Holder.CompDefs Holder.Composition.

(** * the invariant, executable *)
Definition HIb (g : graph) : bool :=
  forallb (fun p : Graph.node * nattrs => forallb (fun kv : string * bool => mem_string (fst kv) okeys) (snd p)) (gnodes g) &&
  forallb (fun e : Graph.node * Graph.node * eattrs => mem_string (etype (snd e)) otypes) (gedges g) &&
  negb (existsb RefineDefs.dd (gedges g)) && RefineDefs.closed_tgt g.

Lemma HIb_spec g : HIb g = true <-> HI g.
Proof.
  unfold HIb, HI, Kinv, Tinv, Dinv, kattrs. rewrite !andb_true_iff, negb_true_iff, !forallb_forall. split.
  - intros [[[K T] D] C]. split; [|split; [|split; assumption]].
    + intros n a Hin kv Hkv. specialize (K (n, a) Hin). cbn [snd] in K. rewrite forallb_forall in K. apply mem_string_In. exact (K kv Hkv).
    + intros e He. apply mem_string_In. exact (T e He).
  - intros (K & T & D & C). split; [split; [split|]|]; try assumption.
    + intros [n a] Hin. cbn [snd]. apply forallb_forall. intros kv Hkv. apply mem_string_In. exact (K n a Hin kv Hkv).
    + intros e He. apply mem_string_In. exact (T e He).
Qed.

(** * generic folds *)
Lemma fold_acc_hk {A S} (pi : S -> graph) (step : res S -> A -> res S) :
  (forall err x, step (Err err) x = Err err) ->
  (forall st x st', step (Ok st) x = Ok st' -> hk (pi st) (pi st')) ->
  forall l st st2, fold_left step l (Ok st) = Ok st2 -> hk (pi st) (pi st2).
Proof.
  intros He HF. induction l as [|x r IH]; intros st st2 H; cbn [fold_left] in H; [inversion H; apply hk_refl|].
  destruct (step (Ok st) x) as [s1|err] eqn:E.
  - apply (hk_trans _ (pi s1)); [exact (HF st x s1 E)|exact (IH s1 st2 H)].
  - exfalso. clear -H He. induction r as [|y r IHr]; cbn [fold_left] in H; [discriminate|]. rewrite He in H. exact (IHr H).
Qed.

Section Step.
Variables (f : nat) (e : env).
Hypothesis IH : forall k s c g, extract f e k s c = Ok g -> HI g.

Lemma hk_ex_subquery subs g g' : ex_subquery f e subs g = Ok g' -> hk g g'.
Proof.
  unfold ex_subquery.
  apply (fold_res_hk (fun g => g) (fun g' sq =>
    match dquery sq with
    | None => Err "AttributeError"
    | Some q =>
        let cls := match get_child q ["with_compound_statement"] with Some _ => XCte | None => XSelect end in
        do sh <- extract f e cls q {| c_cte := Some (sq_cte g'); c_write := Some [sq]; c_write_columns := None |};
        Ok (compose g' (set_attr sh [NData sq] "write" false))
    end)).
  intros g0 sq g1 H. destruct (dquery sq) as [q|]; [|discriminate]. cbv zeta in H.
  destruct (extract f e _ q _) as [sh|] eqn:E; [|discriminate]. inversion H. intros H0.
  apply HI_compose; [exact H0|]. apply HI_set_attr; [exact (IH _ _ _ _ E)|right; left; reflexivity].
Qed.

Lemma hk_ex_delegate k' s g ww g' : ex_delegate f e k' s g ww = Ok g' -> hk g g'.
Proof.
  unfold ex_delegate. intros H. destruct (extract f e k' s _) as [sub|] eqn:E; [|discriminate]. inversion H.
  intros H0. apply HI_compose; [exact H0|exact (IH _ _ _ _ E)].
Qed.

(** ** XSelect *)
Lemma hk_sel_children st3 sub st' : sel_children f e st3 sub = Ok st' -> hk (s_g st3) (s_g st').
Proof.
  unfold sel_children. apply (fold_res_hk s_g (fun st4 sg => handle_child f e st4 sg)). intros st x st1. apply hk_handle_child.
Qed.

Lemma hk_sel_step st0 s st' : sel_step f e st0 s = Ok st' -> hk (s_g st0) (s_g st').
Proof.
  unfold sel_step. intros H. destruct (handle_child f e st0 s) as [st1|] eqn:E1; [|discriminate].
  apply (hk_trans _ (s_g st1)); [exact (hk_handle_child f e st0 s st1 E1)|].
  destruct (is_set_expression s); [|inversion H; apply hk_refl].
  destruct (fold_idx_hk s_g (fun st2 idx sub => sel_children f e (match idx with O => st2 | S _ => add_barrier st2 end) sub)
              (fun st i x st'0 E => match i as i0 return (sel_children f e (match i0 with O => st | S _ => add_barrier st end) x = Ok st'0 -> hk (s_g st) (s_g st'0))
                                    with O => hk_sel_children st x st'0 | S _ => hk_sel_children (add_barrier st) x st'0 end E)
              _ (Ok st1) 0 st' H) as (st & E & K).
  inversion E. subst st. exact K.
Qed.

Lemma hk_sel_fold segs g1 st : sel_fold f e segs g1 = Ok st -> hk g1 (s_g st).
Proof.
  unfold sel_fold. intros H.
  exact (fold_res_hk s_g (fun st0 s => sel_step f e st0 s) hk_sel_step segs {| s_g := g1; s_tables := []; s_columns := []; s_barriers := [] |} st H).
Qed.

(** ** XCte *)
Lemma hk_cte_inner a0 : forall l ra alias st2,
  fst (fold_left (cte_inner a0) l (ra, alias)) = Ok st2 -> exists st, ra = Ok st /\ hk (fst st) (fst st2).
Proof.
  induction l as [|sub r IHl]; intros ra alias st2 H; cbn [fold_left fst] in H.
  - exists st2. split; [exact H|apply hk_refl].
  - unfold cte_inner at 2 in H. destruct (tyis sub "identifier"); [exact (IHl _ _ _ H)|].
    destruct (tyis sub "bracketed"); [|exact (IHl _ _ _ H)].
    destruct (IHl _ _ _ H) as (st1 & E1 & K1). destruct ra as [[g2 subs2]|]; [|discriminate E1].
    destruct (list_subquery sub); [|discriminate E1]. inversion E1. subst st1. exists (g2, subs2). split; [reflexivity|].
    cbn [fst] in *. eapply hk_trans; [apply hk_add_cte|exact K1].
Qed.

Lemma hk_cte_step a s st' : cte_step f e (Ok a) s = Ok st' -> hk (fst a) (fst st').
Proof.
  unfold cte_step. destruct a as [g subs]. cbn [fst]. intros H.
  destruct (ty_in s ["select_statement"; "set_expression"]).
  { destruct (ex_delegate f e XSelect s g true) eqn:E; [|discriminate]. inversion H. exact (hk_ex_delegate _ _ _ _ _ E). }
  destruct (tyis s "insert_statement").
  { destruct (ex_delegate f e XCreateInsert s g false) eqn:E; [|discriminate]. inversion H. exact (hk_ex_delegate _ _ _ _ _ E). }
  destruct (tyis s "update_statement").
  { destruct (ex_delegate f e XUpdate s g false) eqn:E; [|discriminate]. inversion H. exact (hk_ex_delegate _ _ _ _ _ E). }
  destruct (tyis s "common_table_expression"); [|inversion H; apply hk_refl].
  destruct (hk_cte_inner None _ _ _ _ H) as (st & E & K). inversion E. subst st. exact K.
Qed.
End Step.

Ltac crunch_all :=
  repeat match goal with
         | H : (if ?x then _ else _) = Ok _ |- _ => destruct x eqn:?
         | H : (match ?x with _ => _ end) = Ok _ |- _ => destruct x eqn:?; try discriminate H
         | H : Ok _ = Ok _ |- _ => inversion H; subst; clear H
         | H : Err _ = Ok _ |- _ => discriminate H
         end.

Section Step2.
Variables (f : nat) (e : env).
Hypothesis IH : forall k s c g, extract f e k s c = Ok g -> HI g.

(** ** XCreateInsert: the inner folds of one step *)
Lemma hk_ci_a s children g g' :
  fold_left (fun accg c => do gg <- accg; if tyis c "with_compound_statement" then ex_delegate f e XCte s gg true else Ok gg)
            children (Ok g) = Ok g' -> hk g g'.
Proof.
  apply (fold_res_hk (fun g => g) (fun gg (c : seg) => if tyis c "with_compound_statement" then ex_delegate f e XCte s gg true else Ok gg)).
  intros g0 c g1 H. destruct (tyis c "with_compound_statement"); [exact (hk_ex_delegate f e IH _ _ _ _ _ H)|inversion H; apply hk_refl].
Qed.

Definition values_inner (gg : graph) (ex : seg) : res graph :=
  match get_child ex ["bracketed"] with
  | Some sb =>
    match get_child sb ["expression"] with
    | Some se =>
      match get_child se ["select_statement"] with
      | Some ss => ex_delegate f e XSelect ss gg true
      | None => Ok gg
      end
    | None => Ok gg
    end
  | None => Ok gg
  end.

Lemma hk_ci_b bs g g' :
  fold_left (fun accg b => fold_left (fun accg2 ex => do gg <- accg2; values_inner gg ex) (get_children b ["expression"]) accg)
            bs (Ok g) = Ok g' -> hk g g'.
Proof.
  apply (fold_acc_hk (fun g => g) (fun accg (b : seg) => fold_left (fun accg2 ex => do gg <- accg2; values_inner gg ex) (get_children b ["expression"]) accg)).
  - intros err b. apply (fold_err values_inner).
  - intros g0 b g1. apply (fold_res_hk (fun g => g) values_inner). intros g2 ex g3 H. unfold values_inner in H.
    crunch H; try (inversion H; apply hk_refl). exact (hk_ex_delegate f e IH _ _ _ _ _ H).
Qed.

Lemma hk_ci_c sqs g g' :
  fold_left (fun accg q => do gg <- accg; ex_delegate f e XSelect q gg true) sqs (Ok g) = Ok g' -> hk g g'.
Proof.
  apply (fold_res_hk (fun g => g) (fun gg q => ex_delegate f e XSelect q gg true)). intros g0 q g1 H. exact (hk_ex_delegate f e IH _ _ _ _ _ H).
Qed.

Ltac fin :=
  intros HI0;
  repeat first
    [ assumption
    | match goal with
      | E : ex_delegate _ _ _ _ ?g _ = Ok ?g' |- HI ?g' => apply (hk_ex_delegate f e IH _ _ _ _ _ E)
      | E : fold_left _ _ (Ok ?g) = Ok ?g' |- HI ?g' =>
          first [apply (hk_ci_a _ _ _ _ E) | apply (hk_ci_b _ _ _ E) | apply (hk_ci_c _ _ _ E)]
      | |- HI (add_write _ _) => apply hk_add_write
      | |- HI (add_read _ _) => apply hk_add_read
      | |- HI (add_write_column _ _) => apply hk_add_write_column
      | |- HI (fold_left add_read _ _) => apply (hk_fold add_read hk_add_read)
      | |- HI (match ?x with _ => _ end) => destruct x
      end ].

Lemma hk_ci_step stmt a s st' : ci_step f e stmt (Ok a) s = Ok st' -> hk (fst (fst a)) (fst (fst st')).
Proof.
  unfold ci_step. destruct a as [[g tf] sf]. cbn [fst]. fold values_inner. intros H.
  crunch_all; cbn [fst]; try apply hk_refl; fin.
Qed.
End Step2.

(** ** XUpdate, one kind at a time as in LemmaAProofs Part E0 *)
Definition upd_state := (graph * bool * list xcol * list dataset)%type.
Definition upd_step (e : env) (stmt : seg) (a : upd_state) (s : seg) : res upd_state :=
            let '(g, tgt_flag, cols, subs) := a in
            do g1 <- (if tyis s "from_expression" then
                        do ts <- list_tables e stmt g;
                        match ts with
                        | [] => Ok g
                        | w :: rs => Ok (fold_left add_read rs (add_write g w))
                        end
                      else Ok g);
            if tyis s "keyword" && String.eqb (raw_upper s) "UPDATE" then Ok (g1, true, cols, subs)
            else
              do g2 <- (if tgt_flag then do t <- find_table e s; Ok (match t with Some d => add_write g1 d | None => g1 end)
                        else Ok g1);
              do cols' <- (if tyis s "set_clause_list" then
                             do cs <- concat_res (map (fun sc =>
                                         match get_children sc ["column_reference"] with
                                         | [c0; c1] =>
                                             do t <- extract_column_qualifier c0;
                                             do sr <- extract_column_qualifier c1;
                                             Ok (match t, sr with
                                                 | Some tq, Some sq => [mk_xcol (fst tq) [sq] false]
                                                 | _, _ => []
                                                 end)
                                         | _ => Ok []
                                         end) (get_children s ["set_clause"]));
                             Ok (cols ++ cs)
                           else Ok cols);
              do r3 <- (if tyis s "from_clause" then
                          do sqs <- list_subquery s;
                          do ts <- list_tables e s g2;
                          Ok (fold_left add_read ts g2, subs ++ sqs)
                        else Ok (g2, subs));
              Ok (fst r3, false, cols', snd r3).

Definition upd_col (e : env) (g' : graph) (x : xcol) : res graph :=
                     match sq_write g' with
                     | [] => Ok g'
                     | w :: _ =>
                         let tgt := add_parent (xc x) w in
                         do srcs <- to_source_columns e x (get_alias_mapping g' (sq_read g'));
                         fold_left (fun acc2 sc => do g'' <- acc2; add_column_lineage g'' sc tgt) srcs (Ok g')
                     end.

Lemma extract_update_eq f e stmt ctx :
  extract (S f) e XUpdate stmt ctx =
  (do r <- fold_left (fun acc s => do a <- acc; upd_step e stmt a s) (list_child_segments stmt true) (Ok (init_holder ctx, false, [], []));
   let '(g, _, cols, subs) := r in
   do g1 <- fold_left (fun acc x => do g' <- acc; upd_col e g' x) cols (Ok g);
   ex_subquery f e subs g1).
Proof. reflexivity. Qed.

Lemma hk_upd_step e stmt a s st' : upd_step e stmt a s = Ok st' -> hk (fst (fst (fst a))) (fst (fst (fst st'))).
Proof.
  unfold upd_step. destruct a as [[[g tf] cols] subs]. cbn [fst]. intros H.
  crunch_all; cbn [fst]; try apply hk_refl; intros HI0;
    repeat first [ assumption
                 | match goal with
                   | |- HI (add_write _ _) => apply hk_add_write
                   | |- HI (fold_left add_read _ _) => apply (hk_fold add_read hk_add_read)
                   | |- HI (match ?x with _ => _ end) => destruct x
                   end ].
Qed.

Lemma hk_upd_col e g x g' : upd_col e g x = Ok g' -> hk g g'.
Proof.
  unfold upd_col. destruct (sq_write g) as [|w r]; [intros H; inversion H; apply hk_refl|]. cbv zeta.
  destruct (to_source_columns e x _) as [srcs|]; [|discriminate].
  apply (fold_res_hk (fun g => g) (fun g3 s => add_column_lineage g3 s _)). intros g0 s g1. apply hk_add_column_lineage.
Qed.

(* ================================================================== *)
(** * the extractor keeps the invariant *)
Theorem extract_HI : extract_HI_statement.
Proof.
  unfold extract_HI_statement. induction fuel as [|f IHf]; intros e k stmt ctx g H; [discriminate H|].
  pose proof (fun k s c g => IHf e k s c g) as IH. destruct k.
  - rewrite extract_select_eq in H.
    destruct (sel_subqueries (sel_segments stmt)) as [sqs|]; [|discriminate].
    destruct (ex_subquery f e sqs (init_holder ctx)) as [g1|] eqn:E1; [|discriminate].
    destruct (sel_fold f e (sel_segments stmt) g1) as [st|] eqn:E2; [|discriminate].
    destruct (end_of_query_cleanup e (s_g st) (s_tables st) (s_columns st) (s_barriers st)) as [g2|] eqn:E3; [|discriminate].
    apply (hk_expand_wildcard e g2 g H). apply (hk_eoq _ _ _ _ _ _ E3). apply (hk_sel_fold f e _ _ _ E2).
    apply (hk_ex_subquery f e IH _ _ _ E1). apply HI_init_holder.
  - rewrite extract_cte_eq in H.
    destruct (fold_left (cte_step f e) (list_child_segments stmt true) (Ok (init_holder ctx, []))) as [r|] eqn:E1; [|discriminate].
    apply (hk_ex_subquery f e IH _ _ _ H).
    apply (fold_acc_hk fst (cte_step f e) (fun err x => eq_refl) (hk_cte_step f e IH) _ _ _ E1). apply HI_init_holder.
  - rewrite extract_ci_eq in H.
    destruct (fold_left (ci_step f e stmt) (list_child_segments stmt true) (Ok (init_holder ctx, false, false))) as [r|] eqn:E1; [|discriminate].
    inversion H.
    apply (fold_acc_hk (fun a : graph * bool * bool => fst (fst a)) (ci_step f e stmt) (fun err x => eq_refl) (hk_ci_step f e IH stmt) _ _ _ E1).
    apply HI_init_holder.
  - rewrite extract_update_eq in H.
    destruct (fold_left (fun acc s => do a <- acc; upd_step e stmt a s) (list_child_segments stmt true) (Ok (init_holder ctx, false, [], []))) as [r|] eqn:E1; [|discriminate].
    destruct r as [[[g0 tf] cols] subs].
    destruct (fold_left (fun acc x => do g' <- acc; upd_col e g' x) cols (Ok g0)) as [g1|] eqn:E2; [|discriminate].
    apply (hk_ex_subquery f e IH _ _ _ H).
    apply (fold_res_hk (fun g => g) (upd_col e) (hk_upd_col e) _ _ _ E2).
    apply (fold_res_hk (fun a : upd_state => fst (fst (fst a))) (upd_step e stmt) (hk_upd_step e stmt) _ _ _ E1).
    apply HI_init_holder.
Qed.
Print Assumptions extract_HI.

(** every statement holder is well-formed in the sense of Holder/RefineDefs.v and free of DROP / RENAME: for the
    extractors XSelect / XCte / XCreateInsert / XUpdate, whatever the tree *)
Corollary extract_wf : forall fuel e k stmt ctx g, extract fuel e k stmt ctx = Ok g ->
  HIb g = true /\ RefineDefs.wf_holder (holder_of g) = true /\ CompDefs.plain_holder (holder_of g) = true.
Proof.
  intros fuel e k stmt ctx g H. pose proof (extract_HI fuel e k stmt ctx g H) as Hg.
  split; [apply HIb_spec; exact Hg|exact (HI_holder g Hg)].
Qed.

Corollary analyze_HI : forall noise e (s : Spec.stmt) G, analyze e false (r_stmt noise s) = Ok G -> HI G.
Proof. exact (analyze_HI_of_extract extract_HI). Qed.

(* ================================================================== *)
(** * C03 end to end on the whole fragment of Lemma A *)
Theorem script_roles_exact_on_core : forall noise e ss,
  noise_ok noise = true -> env_ok e = true ->
  Forall (fun s => stmt_ok s = true /\ sshape s = true) ss ->
  script_sources e false [] (map (r_stmt noise) ss) = spec_sources (e_cfg e) ss /\
  script_targets e false [] (map (r_stmt noise) ss) = spec_targets (e_cfg e) ss /\
  script_intermediates e false [] (map (r_stmt noise) ss) = spec_intermediates (e_cfg e) ss.
Proof. exact (script_roles_exact_on_core_partial extract_HI). Qed.
Print Assumptions script_roles_exact_on_core.

Corollary roles_check_never_fails noise e ss : roles_check noise e ss <> "FAILS".
Proof.
  unfold roles_check. destruct (noise_ok noise && env_ok e && forallb lemA_ok ss) eqn:G; cbn [negb]; [|discriminate].
  apply andb_true_iff in G. destruct G as [G Hss]. apply andb_true_iff in G. destruct G as [Hn He].
  assert (HF : Forall (fun s => stmt_ok s = true /\ sshape s = true) ss).
  { apply Forall_forall. intros s Hs. rewrite forallb_forall in Hss. specialize (Hss s Hs). unfold lemA_ok in Hss.
    apply andb_true_iff in Hss. exact Hss. }
  destruct (script_roles_exact_on_core noise e ss Hn He HF) as (A & B & C). rewrite A, B, C, !ScriptExact.list_eqb_refl. discriminate.
Qed.
Print Assumptions roles_check_never_fails.

(** non-vacuity: a script outside [core_stmt_ext] - derived table, UNION, CTE, WHERE IN, a self-reading statement, a plain
    SELECT over a CTE - with noise and a default schema *)
Module XExamples.
  Import Tests RTests.
  Definition ssx : list Spec.stmt :=
    [ins "c" (sel [c_ "x"] [D (QUnion (sel [c_ "x"] [T "a"]) (sel [c_ "x"] [T "b"])) "d"]);
     ins "e" (QWith "w" (sel [c_ "x"] [T "c"]) (sel [c_ "x"] [T "w"]));
     ins "t" (selw [c_ "x"] [T "e"] "x" (sel [c_ "x"] [T "t"]));
     SQuery (QWith "w" (sel [c_ "x"] [T "t"]) (sel [c_ "x"] [T "w"]))].
  Lemma ssx_ok : Forall (fun s => stmt_ok s = true /\ sshape s = true) ssx.
  Proof. repeat (constructor; [split; reflexivity|]). constructor. Qed.
  Example script_roles_exact_nonvacuous :
    script_sources e1 false [] (map (r_stmt [ws; cm]) ssx) = ["main.a"; "main.b"; "main.t"] /\
    script_targets e1 false [] (map (r_stmt [ws; cm]) ssx) = ["main.t"] /\
    script_intermediates e1 false [] (map (r_stmt [ws; cm]) ssx) = ["main.c"; "main.e"].
  Proof.
    destruct (script_roles_exact_on_core [ws; cm] e1 ssx eq_refl eq_refl ssx_ok) as (A & B & C).
    rewrite A, B, C. vm_compute. repeat split.
  Qed.
  Example extract_wf_nonvacuous :
    exists g, analyze e1 false (r_stmt [ws; cm] (ins "t" (selw [c_ "x"] [T "e"] "x" (sel [c_ "x"] [T "t"])))) = Ok g /\
              HIb g = true /\ RefineDefs.wf_holder (holder_of g) = true.
  Proof.
    destruct (analyze e1 false (r_stmt [ws; cm] (ins "t" (selw [c_ "x"] [T "e"] "x" (sel [c_ "x"] [T "t"]))))) as [g|] eqn:E; [|vm_compute in E; discriminate E].
    exists g. split; [reflexivity|]. pose proof (analyze_HI _ _ _ _ E) as Hg. split; [apply HIb_spec; exact Hg|exact (proj1 (HI_holder g Hg))].
  Qed.
  (** [HIb] is not trivially true: a holder with a dataset -> dataset edge (a RENAME holder) fails it *)
  Example HIb_rejects : HIb (add_edge empty_graph (NData (mkT "a")) (NData (mkT "b")) {| etype := "rename"; eindex := None |}) = false.
  Proof. vm_compute. reflexivity. Qed.
End XExamples.
