(** L3 -> L4 (continued): how the parser lays out UPDATE, MERGE (ANSI dialect) and SELECT ... INTO (the ANSI
    grammar has no SELECT ... INTO; the layout is the one of the postgres dialect: an [into_clause] between the
    select clause and the FROM clause), with arbitrary trivia between tokens.  Embedded queries are laid out by
    [r_query] of Tree/Render.v.  Validated against the real parser by /tmp/pf_dml/check_render_dml.py. *)
From SV Require Export Ast.SpecDml Tree.Render.

Section RenderDml.
  Variable noise : list seg.

  (** ** the pieces of a SELECT that UPDATE / SELECT INTO share with [r_query] (same layout, see [r_query_select_d]) *)
  Definition d_brq (k : nat) (q : query) : seg :=
    node "bracketed" ["bracketed"] (sep noise [lpar; r_query noise k q; rpar]).

  Definition d_rel (k : nat) (r : rel) : seg :=
    node "from_expression_element" ["from_expression_element"]
         (match r with
          | RTable t al =>
              sep noise (node "table_expression" ["table_expression"] [r_tref t]
                         :: match al with Some a => [r_alias noise a] | None => [] end)
          | RDerived q' a =>
              sep noise [node "table_expression" ["table_expression"] [d_brq k q']; r_alias noise a]
          | RGroup _ _ => []
          end).

  Definition d_sc (items : list item) : seg :=
    node "select_clause" ["select_clause"] (sep noise (kw "select" :: intersperse comma (map (r_item noise) items))).

  Definition d_join (k : nat) (r : rel) : seg :=
    node "join_clause" ["join_clause"] (sep noise [kw "join"; d_rel k r; on_clause noise]).

  Definition d_fc (k : nat) (from : list rel) (cj : bool) : seg :=
    node "from_clause" ["from_clause"]
         (sep noise (kw "from" ::
                     (if cj then intersperse comma (map (fun r => node "from_expression" ["from_expression"] [d_rel k r]) from)
                      else match from with
                           | [] => []
                           | r0 :: rest => [node "from_expression" ["from_expression"] (sep noise (d_rel k r0 :: map (d_join k) rest))]
                           end))).

  Definition d_wh (k : nat) (wh : option (string * query)) : list seg :=
    match wh with
    | Some (c, sq) =>
        [node "where_clause" ["where_clause"]
              (sep noise [kw "where"; node "expression" ["expression"] (sep noise [r_colref None c; kw "in"; d_brq k sq])])]
    | None => []
    end.

  Lemma r_query_select_d k items from cj wh :
    r_query noise (S k) (QSelect items from cj wh) =
    node "select_statement" ["select_statement"] (sep noise ([d_sc items; d_fc k from cj] ++ d_wh k wh)).
  Proof. destruct wh as [[c sq]|]; reflexivity. Qed.

  (** ** SET lists *)
  Definition eq_op : seg := node "comparison_operator" ["comparison_operator"] [sym "raw_comparison_operator" "="].

  Definition r_setc (s : setc) : seg :=
    node "set_clause" ["set_clause"] (sep noise [r_colref None (fst (fst s)); eq_op; r_colref (snd (fst s)) (snd s)]).

  Definition r_scl (sets : list setc) : seg :=
    node "set_clause_list" ["set_clause_list"] (sep noise (kw "set" :: intersperse comma (map r_setc sets))).

  Definition d_alias (al : option string) : list seg := match al with Some a => [r_alias noise a] | None => [] end.

  (** ** MERGE: the USING relation sits directly under the statement, followed by its alias *)
  Definition d_using (k : nat) (src : rel) : list seg :=
    match src with
    | RTable t al => r_tref t :: d_alias al
    | RDerived q a => [d_brq k q; r_alias noise a]
    | RGroup _ _ => []
    end.

  Definition r_matched (upd : list setc) : list seg :=
    match upd with
    | [] => []
    | _ => [node "merge_when_matched_clause" ["merge_when_matched_clause"]
                 (sep noise [kw "when"; kw "matched"; kw "then";
                             node "merge_update_clause" ["merge_update_clause"] (sep noise [kw "update"; r_scl upd])])]
    end.

  Definition r_not_matched (ins : option (list string * list (option string * string))) : list seg :=
    match ins with
    | None => []
    | Some (cols, vals) =>
        [node "merge_when_not_matched_clause" ["merge_when_not_matched_clause"]
              (sep noise [kw "when"; kw "not"; kw "matched"; kw "then";
                          node "merge_insert_clause" ["merge_insert_clause"]
                               (sep noise [kw "insert";
                                           node "bracketed" ["bracketed"]
                                                (sep noise (lpar :: intersperse comma (map (r_colref None) cols) ++ [rpar]));
                                           node "values_clause" ["values_clause"]
                                                (sep noise [kw "values";
                                                            node "bracketed" ["bracketed"]
                                                                 (sep noise (lpar :: intersperse comma
                                                                               (map (fun v => node "expression" ["expression"] [r_colref (fst v) (snd v)]) vals)
                                                                             ++ [rpar]))])])])]
    end.

  Definition r_merge_match (upd : list setc) (ins : option (list string * list (option string * string))) : seg :=
    node "merge_match" ["merge_match"] (sep noise (r_matched upd ++ r_not_matched ins)).

  Definition r_into (t : tref) : seg := node "into_clause" ["into_clause"] (sep noise [kw "into"; r_tref t]).

  Definition r_dml (d : dml) : seg :=
    let k := q_size (dml_query d) in
    match d with
    | DUpdate t al sets from cj wh =>
        node "update_statement" ["update_statement"]
             (sep noise ([kw "update"; r_tref t] ++ d_alias al ++ [r_scl sets]
                         ++ match from with [] => [] | _ => [d_fc k from cj] end
                         ++ d_wh k wh))
    | DMerge t al src upd ins =>
        node "merge_statement" ["merge_statement"]
             (sep noise ([kw "merge"; kw "into"; r_tref t] ++ d_alias al ++ [kw "using"] ++ d_using k src
                         ++ [on_clause noise; r_merge_match upd ins]))
    | DSelectInto t items from cj wh =>
        node "select_statement" ["select_statement"]
             (sep noise ([d_sc items; r_into t; d_fc k from cj] ++ d_wh k wh))
    end.
End RenderDml.

Definition show_seg : nat -> seg -> string :=
  fix show (fuel : nat) (x : seg) : string :=
     match fuel with
     | O => ""
     | S k => (ty x ++ "/" ++ gty x ++ "/" ++ join "," (sort_strings (cls x)) ++
               (match children x with [] => "=" ++ raw x | ch => "(" ++ join " " (map (show k) ch) ++ ")" end))%string
     end.

(** same printed format as [show_render] of Tree/Render.v *)
Definition show_render_dml (d : dml) : string := show_seg 200 (r_dml [] d).
