(** C10 without the EValue disjunct, part 2.  Holder invariant [Q W g]: [GI g], every has_column edge NData d -> NCol c
    ends in a column whose only parent equals d ([EP]), and every dataset tagged "write" equals one of [W] ([NP]);
    the written datasets [W] of a holder chain are pairwise equal ([AW]).  PARTIAL: proved for statements without
    nested write sites ([nw]). *)
From SV Require Import Holder.PathProofs Holder.RefineGraph.
From SV Require Import Tree.Observe Tree.TriviaProofs Tree.LemmaAProofs Tree.HolderInv Tree.ExtractInv
     Tree.TotalDefs Tree.TotalHolder Tree.TotalMain Tree.TotalValue Tree.TotalV2Base.
Require Import Lia.
Open Scope string_scope.
Open Scope list_scope.

(** * dataset equality *)
Lemma deqb_refl d : dataset_eqb d d = true. Proof. exact (node_eqb_refl (NData d)). Qed.
Lemma deqb_sym a b : dataset_eqb a b = true -> dataset_eqb b a = true.
Proof. exact (eqb_sym_true (NData a) (NData b)). Qed.
Lemma deqb_trans a b c : dataset_eqb a b = true -> dataset_eqb b c = true -> dataset_eqb a c = true.
Proof. exact (node_eqb_trans (NData a) (NData b) (NData c)). Qed.

Definition AW (W : list dataset) : Prop := forall a b, In a W -> In b W -> dataset_eqb a b = true.
Definition near (W : list dataset) (d : dataset) : Prop := exists w, In w W /\ dataset_eqb d w = true.

(** * attribute dictionaries have unique keys *)
Definition ukeys (a : nattrs) : Prop := NoDup (map fst a).

Lemma In_keys_set x k v a : In x (map fst (attr_set k v a)) -> x = k \/ In x (map fst a).
Proof.
  induction a as [|[k1 v1] r IH]; cbn [attr_set map fst In]; [intros [<-|[]]; left; reflexivity|].
  destruct (String.eqb k k1); cbn [map fst In]; [intros [<-|H]; [left; reflexivity|right; right; exact H]|].
  intros [<-|H]; [right; left; reflexivity|]. destruct (IH H) as [K|K]; [left; exact K|right; right; exact K].
Qed.

Lemma ukeys_set k v a : ukeys a -> ukeys (attr_set k v a).
Proof.
  unfold ukeys. induction a as [|[k1 v1] r IH]; cbn [attr_set map fst]; intros H; [constructor; [intros []|constructor]|].
  inversion H as [|x l Hn Hr]; subst. destruct (String.eqb_spec k k1) as [->|N]; cbn [map fst]; [constructor; assumption|].
  constructor; [|exact (IH Hr)]. intros K. destruct (In_keys_set _ _ _ _ K) as [E|E]; [exact (N (eq_sym E))|exact (Hn E)].
Qed.

Lemma ukeys_update a : forall b, ukeys b -> ukeys (attr_update b a).
Proof. induction a as [|[k v] r IH]; intros b H; cbn [attr_update]; [exact H|]. apply IH. apply ukeys_set. exact H. Qed.

Lemma ukeys_set_val k v v' a : ukeys a -> In (k, v') (attr_set k v a) -> v' = v.
Proof.
  unfold ukeys. induction a as [|[k1 v1] r IH]; cbn [attr_set map fst]; intros H K.
  - destruct K as [K|[]]. inversion K. reflexivity.
  - inversion H as [|x l Hn Hr]; subst. destruct (String.eqb_spec k k1) as [->|N].
    + destruct K as [K|K]; [inversion K; reflexivity|]. exfalso. apply Hn. apply in_map_iff. exists (k1, v'). split; [reflexivity|exact K].
    + destruct K as [K|K]; [inversion K; subst; destruct (N eq_refl)|exact (IH Hr K)].
Qed.

(** * node part: write tags only on datasets near W *)
Definition RW (W : list dataset) (n : node) (a : nattrs) : Prop :=
  ukeys a /\ match n with NData d => In ("write", true) a -> near W d | _ => True end.
Definition NP (W : list dataset) (g : graph) : Prop := forall n a, In (n, a) (gnodes g) -> RW W n a.

Lemma RW_nil W n : RW W n [].
Proof. split; [constructor|]. destruct n; auto. intros []. Qed.
Lemma RW_tag W n k : k <> "write" -> RW W n [(k, true)].
Proof. intros Hk. split; [constructor; [intros []|constructor]|]. destruct n; auto. intros [H|[]]. inversion H. congruence. Qed.
Lemma RW_write W d : near W d -> RW W (NData d) [("write", true)].
Proof. intros H. split; [constructor; [intros []|constructor]|]. intros _. exact H. Qed.

Lemma near_eqb W d d' : dataset_eqb d d' = true -> near W d -> near W d'.
Proof. intros E (w & Hw & K). exists w. split; [exact Hw|exact (deqb_trans _ _ _ (deqb_sym _ _ E) K)]. Qed.

Lemma RW_update W n m a b : node_eqb n m = true -> RW W n a -> RW W m b -> RW W m (attr_update b a).
Proof.
  intros E [Ua Ha] [Ub Hb]. split; [apply ukeys_update; exact Ub|].
  destruct m as [d'| |]; auto. destruct n as [d| |]; cbn [node_eqb] in E; try discriminate.
  intros H. destruct (In_attr_update _ _ _ H) as [K|K]; [exact (Hb K)|exact (near_eqb W d d' E (Ha K))].
Qed.

Lemma upsert_RW W n a l : (forall m b, In (m, b) l -> RW W m b) -> RW W n a -> forall m b, In (m, b) (upsert_node n a l) -> RW W m b.
Proof.
  induction l as [|[m0 b0] r IH]; intros Hl Hn m b H; cbn [upsert_node] in H.
  - destruct H as [H|[]]. inversion H; subst. exact Hn.
  - destruct (node_eqb n m0) eqn:E.
    + destruct H as [H|H]; [|apply Hl; right; exact H]. inversion H; subst. exact (RW_update W n m a b0 E Hn (Hl m b0 (or_introl eq_refl))).
    + destruct H as [H|H]; [inversion H; subst; apply Hl; left; reflexivity|]. exact (IH (fun m' b' Hin => Hl m' b' (or_intror Hin)) Hn m b H).
Qed.

Lemma NP_add_node W g n a : NP W g -> RW W n a -> NP W (add_node g n a).
Proof. intros H Hn. exact (upsert_RW W n a _ H Hn). Qed.
Lemma NP_add_edge W g u v a : NP W g -> NP W (add_edge g u v a).
Proof. intros H. exact (NP_add_node W _ v [] (NP_add_node W g u [] H (RW_nil W u)) (RW_nil W v)). Qed.
Lemma NP_remove_node W g n : NP W g -> NP W (remove_node g n).
Proof. intros H m a K. apply filter_In in K. exact (H m a (proj1 K)). Qed.
Lemma NP_mono W W' g : (forall w, In w W -> near W' w) -> NP W g -> NP W' g.
Proof.
  intros HW H n a K. destruct (H n a K) as [U R]. split; [exact U|]. destruct n as [d| |]; auto.
  intros Hw. destruct (R Hw) as (w & Hin & E). destruct (HW w Hin) as (w' & Hin' & E'). exists w'. split; [exact Hin'|exact (deqb_trans _ _ _ E E')].
Qed.
Lemma NP_fold W hl : (forall n a, In (n, a) hl -> RW W n a) -> forall l, (forall n a, In (n, a) l -> RW W n a) ->
  forall n a, In (n, a) (fold_left (fun l p => upsert_node (fst p) (snd p) l) hl l) -> RW W n a.
Proof.
  induction hl as [|[n0 a0] r IH]; intros Hh l Hl; cbn [fold_left]; [exact Hl|].
  apply IH; [intros n' a' Hin; apply Hh; right; exact Hin|]. cbn [fst snd]. exact (upsert_RW W n0 a0 l Hl (Hh n0 a0 (or_introl eq_refl))).
Qed.
Lemma NP_compose W g h : NP W g -> NP W h -> NP W (compose g h).
Proof. intros G H. unfold compose, NP. cbn [gnodes]. exact (NP_fold W (gnodes h) H (gnodes g) G). Qed.
(** set_node_attributes(sub-holder, {sq: False}, WRITE): nothing is tagged "write" any more *)
Lemma NP_set_false sq g : NP [sq] g -> NP [] (set_attr g [NData sq] "write" false).
Proof.
  intros H n a K. cbn [set_attr gnodes] in K. apply in_map_iff in K. destruct K as ([n0 a0] & E & Hin). destruct (H n0 a0 Hin) as [U R].
  cbn [fst snd existsb] in E. rewrite orb_false_r in E. destruct (node_eqb n0 (NData sq)) eqn:En; inversion E; subst.
  - split; [apply ukeys_set; exact U|]. destruct n as [d| |]; auto. intros Hw. pose proof (ukeys_set_val _ _ _ _ U Hw). discriminate.
  - split; [exact U|]. destruct n as [d| |]; auto. intros Hw. destruct (R Hw) as (w & [<-|[]] & Ew). cbn [node_eqb] in En. rewrite Ew in En. discriminate.
Qed.
Lemma NP_empty W : NP W empty_graph. Proof. intros n a []. Qed.

Lemma NP_sq_write W g d : NP W g -> In d (sq_write g) -> near W d.
Proof. intros H K. destruct (holder_nodes_in g "write" d K) as (a & Hin & Ha). exact (proj2 (H _ _ Hin) (attr_true_In _ _ Ha)). Qed.

(** * edge part *)
Definition EP (g : graph) : Prop := forall ed, In ed (gedges g) -> one_parent_edge ed.

Lemma ope_resp u v a u' v' a' : one_parent_edge (u, v, a) -> node_eqb u u' = true -> node_eqb v v' = true -> one_parent_edge (u', v', a').
Proof.
  unfold one_parent_edge. cbn [fst snd]. intros H Eu Ev.
  destruct u as [d| |], u' as [d'| |]; cbn [node_eqb] in Eu; try discriminate; auto.
  destruct v as [|c|], v' as [|c'|]; cbn [node_eqb] in Ev; try discriminate; auto.
  destruct H as (p & Hp & Ep). unfold col_eqb in Ev. apply andb_true_iff in Ev. destruct Ev as [_ Ev].
  unfold col_parent in Ev. rewrite Hp in Ev. cbn [opt_dataset_eqb] in Ev.
  destruct (cparents c') as [|p' [|x r]]; cbn [opt_dataset_eqb] in Ev; try discriminate.
  exists p'. split; [reflexivity|]. exact (deqb_trans _ _ _ (deqb_sym _ _ Ev) (deqb_trans _ _ _ Ep Eu)).
Qed.

Lemma EP_upsert_edge u v a l : one_parent_edge (u, v, a) -> (forall e, In e l -> one_parent_edge e) ->
  forall e, In e (upsert_edge u v a l) -> one_parent_edge e.
Proof.
  intros Huv. induction l as [|e0 r IH]; intros Hl e H; cbn [upsert_edge] in H.
  - destruct H as [<-|[]]. exact Huv.
  - destruct (edge_is u v e0).
    + destruct H as [<-|H]; [|exact (Hl e (or_intror H))]. pose proof (Hl e0 (or_introl eq_refl)) as K. destruct e0 as [[x y] z]. exact K.
    + destruct H as [<-|H]; [exact (Hl e0 (or_introl eq_refl))|]. exact (IH (fun e' He' => Hl e' (or_intror He')) e H).
Qed.

Lemma EP_add_edge g u v a : EP g -> one_parent_edge (u, v, a) -> EP (add_edge g u v a).
Proof.
  intros H Huv. unfold add_edge, EP. cbn [gedges add_node]. apply EP_upsert_edge; [|exact H].
  apply (ope_resp u v a); [exact Huv|first [apply canon_eqb | apply eqb_sym_true; apply canon_eqb]|first [apply canon_eqb | apply eqb_sym_true; apply canon_eqb]].
Qed.
Lemma EP_remove_node g n : EP g -> EP (remove_node g n).
Proof. intros H e K. apply filter_In in K. exact (H e (proj1 K)). Qed.
Lemma EP_fold ns hl : (forall e, In e hl -> one_parent_edge e) -> forall l, (forall e, In e l -> one_parent_edge e) ->
  forall e, In e (fold_left (fun l e => upsert_edge (canon_l (fst (fst e)) ns) (canon_l (snd (fst e)) ns) (snd e) l) hl l) -> one_parent_edge e.
Proof.
  induction hl as [|e0 r IH]; intros Hh l Hl; cbn [fold_left]; [exact Hl|].
  apply IH; [intros e He; apply Hh; right; exact He|]. apply EP_upsert_edge; [|exact Hl].
  pose proof (Hh e0 (or_introl eq_refl)) as K. destruct e0 as [[x y] z]. cbn [fst snd].
  apply (ope_resp x y z); [exact K|first [apply canon_eqb | apply eqb_sym_true; apply canon_eqb]|first [apply canon_eqb | apply eqb_sym_true; apply canon_eqb]].
Qed.
Lemma EP_compose g h : EP g -> EP h -> EP (compose g h).
Proof. intros G H. unfold compose, EP. cbn [gedges]. exact (EP_fold _ (gedges h) H (gedges g) G). Qed.

(** * the combined invariant *)
Definition Q (W : list dataset) (g : graph) : Prop := GI g /\ EP g /\ NP W g.

Lemma Q_empty W : Q W empty_graph.
Proof. split; [exact GI_empty|split; [intros e []|apply NP_empty]]. Qed.
Lemma Q_add_node W g n a : Q W g -> nd_ok n -> at_ok n a -> RW W n a -> Q W (add_node g n a).
Proof. intros (G & E & N) H1 H2 H3. split; [apply GI_add_node; assumption|split; [exact E|apply NP_add_node; assumption]]. Qed.
Lemma Q_add_edge W g u v a : Q W g -> nd_ok u -> nd_ok v -> one_parent_edge (u, v, a) -> Q W (add_edge g u v a).
Proof. intros (G & E & N) H1 H2 H3. split; [apply GI_add_edge; assumption|split; [apply EP_add_edge; assumption|apply NP_add_edge; exact N]]. Qed.
Lemma Q_remove_node W g n : Q W g -> Q W (remove_node g n).
Proof. intros (G & E & N). split; [apply GI_remove_node; exact G|split; [apply EP_remove_node; exact E|apply NP_remove_node; exact N]]. Qed.
Lemma Q_compose W g h : Q W g -> Q W h -> Q W (compose g h).
Proof. intros (G & E & N) (G' & E' & N'). split; [apply GI_compose; assumption|split; [apply EP_compose; assumption|apply NP_compose; assumption]]. Qed.
Lemma Q_mono W W' g : (forall w, In w W -> near W' w) -> Q W g -> Q W' g.
Proof. intros H (G & E & N). split; [exact G|split; [exact E|exact (NP_mono W W' g H N)]]. Qed.

Lemma ope_nstr u s a : one_parent_edge (u, NStr s, a). Proof. unfold one_parent_edge. cbn. destruct u; exact I. Qed.
Lemma ope_col c v a : one_parent_edge (NCol c, v, a). Proof. exact I. Qed.
Lemma ope_one d c p a : cparents c = [p] -> dataset_eqb p d = true -> one_parent_edge (NData d, NCol c, a).
Proof. intros H E. exists p. split; assumption. Qed.

Lemma Q_add_read W g v : Q W g -> ds_ok v -> Q W (add_read g v).
Proof.
  intros H Hv. unfold add_read.
  assert (H1 : Q W (add_node g (NData v) [("read", true)])) by (apply Q_add_node; [exact H|exact Hv|apply at_ok_tag; discriminate|apply RW_tag; discriminate]).
  destruct (has_alias_attr v); [|exact H1]. apply Q_add_edge; [exact H1|exact Hv|exact I|apply ope_nstr].
Qed.
Lemma Q_add_write W g v : Q W g -> ds_ok v -> near W v -> Q W (add_write g v).
Proof. intros H Hv Hn. apply Q_add_node; [exact H|exact Hv|apply at_ok_tag; discriminate|apply RW_write; exact Hn]. Qed.
Lemma Q_add_cte W g v : Q W g -> ds_ok v -> dk v = KSubq -> Q W (add_cte g v).
Proof.
  intros H Hv Hk. apply Q_add_node; [exact H|exact Hv| |apply RW_tag; discriminate].
  split; [intros _; exact Hk|intros Hd; destruct (Hd Hk)].
Qed.
Lemma Q_fold W (f : graph -> dataset -> graph) (P : dataset -> Prop) :
  (forall g v, Q W g -> P v -> Q W (f g v)) -> forall l g, Q W g -> Forall P l -> Q W (fold_left f l g).
Proof.
  intros Hf. induction l as [|v r IH]; intros g G Hl; cbn [fold_left]; [exact G|]. inversion Hl; subst. apply IH; [apply Hf; assumption|assumption].
Qed.

Definition colgood (W : list dataset) (c : column) : Prop :=
  col_ok c /\ (cparents c = [] \/ exists p, cparents c = [p] /\ near W p).

Lemma Q_add_write_column W g cols : AW W -> Q W g -> Forall (colgood W) cols -> Q W (add_write_column g cols).
Proof.
  intros HA H Hc. unfold add_write_column. destruct (sq_write g) as [|tgt r] eqn:E; [exact H|].
  assert (Hin : In tgt (sq_write g)) by (rewrite E; left; reflexivity).
  assert (Ht : ds_ok tgt) by exact (holder_nodes_ok g "write" tgt (proj1 H) Hin).
  destruct (NP_sq_write W g tgt (proj2 (proj2 H)) Hin) as (w0 & Hw0 & Ew0).
  assert (K : forall c, colgood W c -> col_ok (add_parent c tgt) /\ exists p, cparents (add_parent c tgt) = [p] /\ dataset_eqb p tgt = true).
  { intros c [Hok [Hc0|(p & Hp & (w & Hw & Ew))]]; (split; [apply add_parent_ok; assumption|]); unfold add_parent; rewrite ?Hc0, ?Hp; cbn [memd existsb].
    - exists tgt. split; [reflexivity|apply deqb_refl].
    - assert (Ept : dataset_eqb p tgt = true) by exact (deqb_trans _ _ _ Ew (deqb_trans _ _ _ (HA w w0 Hw Hw0) (deqb_sym _ _ Ew0))).
      rewrite (deqb_sym _ _ Ept). cbn [orb]. exists p. split; assumption. }
  clear E Hin. generalize 0 as i. revert g H. induction cols as [|c cs IH]; intros g H i; cbn [fold_left fst]; [exact H|].
  inversion Hc; subst. apply IH; [assumption|]. destruct (K c H2) as [K1 (p & K2 & K3)].
  apply Q_add_edge; [exact H|exact Ht|exact K1|exact (ope_one tgt _ p _ K2 K3)].
Qed.

Lemma col_parent_one c p : cparents c = [p] -> col_parent c = Some p.
Proof. intros H. unfold col_parent. rewrite H. reflexivity. Qed.
Lemma col_parent_inv c p : col_parent c = Some p -> cparents c = [p].
Proof. unfold col_parent. destruct (cparents c) as [|x [|y r]]; intros H; inversion H. reflexivity. Qed.

(** add_column_lineage with a one-parent target never fails *)
Lemma acl_strict W g s t p : Q W g -> col_ok s -> col_ok t -> cparents t = [p] -> okr (Q W) (add_column_lineage g s t).
Proof.
  intros H Hs Ht Hp. unfold add_column_lineage. rewrite (col_parent_one t p Hp). cbn [okg].
  assert (Hpo : ds_ok p) by (apply Ht; rewrite Hp; left; reflexivity).
  assert (H1 : Q W (add_edge (add_edge g (NCol s) (NCol t) lineage_edge) (NData p) (NCol t) (e_has_column None))).
  { apply Q_add_edge; [apply Q_add_edge; [exact H|exact Hs|exact Ht|apply ope_col]|exact Hpo|exact Ht|exact (ope_one p t p _ Hp (deqb_refl p))]. }
  destruct (col_parent s) as [sp|] eqn:Es; [|exact H1].
  apply Q_add_edge; [exact H1|exact (col_parent_ok s sp Hs Es)|exact Hs|exact (ope_one sp s sp _ (col_parent_inv s sp Es) (deqb_refl sp))].
Qed.

(** * columns at the end of has_column edges have one parent *)
Lemma out_edge_one g t ed c : EP g -> In ed (out_edges g (NData t)) -> snd (fst ed) = NCol c -> exists p, cparents c = [p].
Proof.
  intros E Hin Hc. apply filter_In in Hin. destruct Hin as [Hin Hs]. pose proof (E ed Hin) as K. unfold one_parent_edge in K. rewrite Hc in K.
  destruct (fst (fst ed)) as [d| |]; cbn [node_eqb] in Hs; try discriminate. destruct K as (p & Hp & _). exists p. exact Hp.
Qed.

Lemma wc_one g c : EP g -> In c (write_columns g) -> exists p, cparents c = [p].
Proof.
  intros E Hc. unfold write_columns in Hc. destruct (get_target_table g) as [t|]; [|destruct Hc].
  apply in_map_iff in Hc. destruct Hc as ([c' i] & <- & Hin). cbn [fst]. apply In_sort_by_idx in Hin. apply in_flat_map in Hin. destruct Hin as (ed & He & Hin).
  destruct (String.eqb _ _); [|destruct Hin]. destruct (snd (fst ed)) as [d0|c0|s0] eqn:Ee; [destruct Hin| |destruct Hin].
  destruct Hin as [Hin|[]]. inversion Hin; subst. exact (out_edge_one g t ed c' E He Ee).
Qed.

Lemma gtc_one g t c : EP g -> In c (get_table_columns g t) -> exists p, cparents c = [p].
Proof.
  intros E Hin. unfold get_table_columns in Hin. apply in_flat_map in Hin. destruct Hin as (ed & He & Hin).
  destruct (String.eqb _ _); [|destruct Hin]. destruct (snd (fst ed)) as [d0|c0|s0] eqn:Ee; [destruct Hin| |destruct Hin].
  destruct (String.eqb (craw c0) "*"); [destruct Hin|]. destruct Hin as [<-|[]]. exact (out_edge_one g t ed c0 E He Ee).
Qed.

Definition xnil (l : list xcol) : Prop := forall x, In x l -> cparents (xc x) = [].
Lemma xnil_ok l : xnil l -> xcols_ok l.
Proof. intros H x Hx d Hd. rewrite (H x Hx) in Hd. destruct Hd. Qed.

Lemma eoq_strict W e g tables columns barriers : Q W g -> Forall ds_ok tables -> xnil columns ->
  okr (Q W) (end_of_query_cleanup e g tables columns barriers).
Proof.
  intros G Ht Hc. unfold end_of_query_cleanup. cbv zeta.
  match goal with |- okg _ _ (fold_left _ (?GR (0, 0) ?BS) _) => set (groups := GR); set (bs := BS) end.
  assert (Hg : forall l prev grp, In grp (groups prev l) -> xnil (fst grp) /\ Forall ds_ok (snd grp)).
  { induction l as [|b r IH]; intros prev grp H; [destruct H|].
    change (groups prev (b :: r)) with ((slice columns (fst prev) (fst b), slice tables (snd prev) (snd b)) :: groups b r) in H.
    destruct H as [<-|H]; [|exact (IH b grp H)]. cbn [fst snd]. split.
    - intros x Hx. exact (Hc x (In_slice _ _ _ _ Hx)).
    - apply Forall_forall. intros d Hd. rewrite Forall_forall in Ht. exact (Ht d (In_slice _ _ _ _ Hd)). }
  assert (G0 : Q W (fold_left add_read tables g)) by (apply (Q_fold W add_read ds_ok (Q_add_read W)); assumption).
  eapply (okr_fold (Q W)); [|exact G0].
  intros g1 [cg tg] Hgrp G1. destruct (Hg _ _ _ Hgrp) as [Hcg Htg]. cbn [fst snd] in Hcg, Htg.
  destruct (sq_write g1) as [|tgt_tbl [|d2 l2]] eqn:Ew; [exact G1| |reflexivity].
  assert (Htt : ds_ok tgt_tbl) by (apply (holder_nodes_ok g1 "write" tgt_tbl (proj1 G1)); unfold sq_write in Ew; rewrite Ew; left; reflexivity).
  eapply (okr_fold_idx (Q W)); [|exact G1].
  intros g2 idx x Hx G2. cbv zeta.
  apply (okr_bind (Forall col_ok)); [apply to_source_columns_ok; apply get_alias_mapping_ok; [exact (proj1 G2)|exact Htg]|].
  intros srcs Hsrcs.
  assert (Hown : col_ok (add_parent (xc x) tgt_tbl) /\ exists p, cparents (add_parent (xc x) tgt_tbl) = [p]).
  { split; [apply add_parent_ok; [exact (xnil_ok cg Hcg x Hx)|exact Htt]|]. unfold add_parent. rewrite (Hcg x Hx). cbn. exists tgt_tbl. reflexivity. }
  match goal with |- okg _ _ (fold_left (fun acc3 s => do g3 <- acc3; add_column_lineage g3 s ?T) _ _) => assert (HT : col_ok T /\ exists p, cparents T = [p]) end.
  { destruct srcs as [|s0 sr]; [exact Hown|]. destruct (Nat.eqb _ _); [|exact Hown].
    destruct (nth_error (write_columns g2) idx) as [c|] eqn:En; [|exact Hown].
    pose proof (write_columns_ok g2 (proj1 G2)) as Hw. rewrite Forall_forall in Hw. split; [exact (Hw c (nth_error_In _ _ En))|].
    exact (wc_one g2 c (proj1 (proj2 G2)) (nth_error_In _ _ En)). }
  destruct HT as [HT1 (p & HT2)].
  eapply (okr_fold (Q W)); [|exact G2].
  intros g3 s Hs G3. rewrite Forall_forall in Hsrcs. exact (acl_strict W g3 s _ p G3 (Hsrcs s Hs) HT1 HT2).
Qed.

Lemma replace_wildcard_strict W g tgt src_cols tw sw : Q W g -> ds_ok tgt ->
  Forall (fun c => col_ok c /\ exists p, cparents c = [p]) src_cols -> okr (Q W) (replace_wildcard g tgt src_cols tw sw).
Proof.
  intros G Ht Hs. unfold replace_wildcard.
  match goal with |- okg _ _ (match ?FOLD with Ok _ => _ | Err _ => _ end) => assert (K : okr (Q W) FOLD) end.
  { eapply (okr_fold (Q W)); [|exact G].
    intros g' sc Hsc G'. cbv zeta. destruct (_ || _); [exact G'|]. rewrite Forall_forall in Hs. destruct (Hs sc Hsc) as [Hok (p & Hp)].
    rewrite (col_parent_one sc p Hp). cbn [okg].
    assert (Hpo : ds_ok p) by (apply Hok; rewrite Hp; left; reflexivity).
    pose proof (col_ok_one (escape (craw sc)) tgt Ht) as Hn.
    apply Q_add_edge; [|exact Hok|exact Hn|apply ope_col].
    apply Q_add_edge; [|exact Hpo|exact Hok|exact (ope_one p sc p _ Hp (deqb_refl p))].
    apply Q_add_edge; [exact G'|exact Ht|exact Hn|]. apply (ope_one tgt _ tgt); [reflexivity|apply deqb_refl]. }
  apply (okr_bind (Q W) _ _ _ K). intros g1 G1. cbn [okg].
  assert (G2 : Q W (if has_node g1 (NCol tw) then remove_node g1 (NCol tw) else g1)) by (destruct (has_node g1 (NCol tw)); [apply Q_remove_node|]; exact G1).
  destruct (has_node _ (NCol sw)); [apply Q_remove_node|]; exact G2.
Qed.

Lemma expand_wildcard_strict W e g : Q W g -> okr (Q W) (expand_wildcard e g).
Proof.
  intros G. unfold expand_wildcard. destruct (get_target_table g) as [tgt|] eqn:Et; [|exact G].
  pose proof (get_target_table_ok g tgt (proj1 G) Et) as Ht.
  eapply (okr_fold (Q W)); [|exact G].
  intros g' c _ G'. destruct (String.eqb (craw c) "*"); [|exact G'].
  pose proof (get_source_columns_ok g' c (proj1 G')) as Hsw. rewrite Forall_forall in Hsw.
  eapply (okr_fold (Q W)); [|exact G'].
  intros g2 sw Hin G2. destruct (col_parent sw) as [st|] eqn:Es; [|exact G2].
  pose proof (col_parent_ok sw st (Hsw sw Hin) Es) as Hst.
  assert (Hc : Forall (fun c => col_ok c /\ exists p, cparents c = [p]) (match dk st with
                              | KSubq => get_table_columns g2 st
                              | KTable => if p_truthy (e_provider e) then provider_columns e st else []
                              | KPath => [] end)).
  { destruct (dk st); [|constructor|].
    - destruct (p_truthy _); [|constructor]. unfold provider_columns. apply N.Forall_map_intro. intros cn _. split; [apply col_ok_one; exact Hst|exists st; reflexivity].
    - apply Forall_forall. intros c0 Hc0. pose proof (get_table_columns_ok g2 st (proj1 G2)) as K. rewrite Forall_forall in K.
      split; [exact (K c0 Hc0)|exact (gtc_one g2 st c0 (proj1 (proj2 G2)) Hc0)]. }
  destruct (match dk st with KSubq => _ | KTable => _ | KPath => _ end) as [|c0 cs]; [exact G2|].
  apply replace_wildcard_strict; assumption.
Qed.

(* ================================================================== *)
(** * the extractor on statements without nested write sites *)
Import N.

Definition wof (c : context) : list dataset := match c_write c with Some l => l | None => [] end.
Definition CTXE (c : context) : Prop :=
  AW (wof c) /\ forall cols, c_write_columns c = Some cols -> Forall (colgood (wof c)) cols.

Lemma near_self W d : In d W -> near W d.
Proof. intros H. exists d. split; [exact H|apply deqb_refl]. Qed.

Lemma Q_init_holder c : ctx_ok c -> CTXE c -> Q (wof c) (init_holder c).
Proof.
  intros (C1 & C2 & C3) [HA HC]. unfold init_holder.
  assert (G1 : Q (wof c) (match c_cte c with Some l => fold_left add_cte l empty_graph | None => empty_graph end)).
  { destruct (c_cte c) as [l|]; [|apply Q_empty].
    apply (Q_fold (wof c) add_cte (fun d => ds_ok d /\ dk d = KSubq)); [intros g v G [A B]; apply Q_add_cte; assumption|apply Q_empty|exact (C1 l eq_refl)]. }
  set (g1 := match c_cte c with Some l => fold_left add_cte l empty_graph | None => empty_graph end) in *.
  assert (G2 : Q (wof c) (match c_write c with Some l => fold_left add_write l g1 | None => g1 end)).
  { unfold wof in *. destruct (c_write c) as [l|]; [|exact G1].
    apply (Q_fold l add_write (fun d => ds_ok d /\ In d l)); [intros g v G [A B]; apply Q_add_write; [exact G|exact A|exact (near_self l v B)]|exact G1|].
    apply Forall_forall. intros d Hd. split; [|exact Hd]. pose proof (C2 l eq_refl) as K. rewrite Forall_forall in K. exact (K d Hd). }
  destruct (c_write_columns c) as [[|x r]|] eqn:Ec; [exact G2| |exact G2]. apply Q_add_write_column; [exact HA|exact G2|exact (HC _ eq_refl)].
Qed.

Lemma nw_not_ty s t : efn s = true -> In t ["into_table_clause"; "into_clause"; "insert_statement"; "update_statement"] -> tyis s t = false.
Proof.
  intros H Ht. pose proof (efn_nw_local s H) as K. unfold nw_local in K. apply andb_true_iff in K. destruct K as [K _]. rewrite negb_true_iff in K.
  unfold ty_in in K. cbn [mem_string] in K. unfold tyis. cbn [In] in Ht.
  repeat (apply orb_false_iff in K; destruct K as [?E K]). destruct Ht as [<-|[<-|[<-|[<-|[]]]]]; assumption.
Qed.

Lemma hsi_nw e s g : efn s = true -> handle_select_into e s g = Ok g.
Proof.
  intros H. unfold handle_select_into, ty_in. cbn [mem_string].
  pose proof (nw_not_ty s "into_table_clause" H (or_introl eq_refl)) as E1. pose proof (nw_not_ty s "into_clause" H (or_intror (or_introl eq_refl))) as E2.
  unfold tyis in E1, E2. rewrite E1, E2. reflexivity.
Qed.

Lemma hsp_nw e s g : efn s = true -> handle_swap_partition e s g = Ok g.
Proof.
  intros H. unfold handle_swap_partition. destruct (e_vertica e && tyis s "select_clause"); [|reflexivity].
  destruct (get_child s ["select_clause_element"]) as [sce|] eqn:E1; [|reflexivity]. pose proof (Ds_get_child s _ sce H E1) as D1.
  destruct (get_child sce ["function"]) as [fn|] eqn:E2; [|reflexivity]. pose proof (Ds_get_child sce _ fn (Ds_ef _ _ D1) E2) as D2.
  destruct (get_child fn ["function_name"]) as [fname|] eqn:E3; [|reflexivity]. pose proof (Ds_get_child fn _ fname (Ds_ef _ _ D2) E3) as D3.
  pose proof (efn_nw_local fname (Ds_ef _ _ D3)) as K. unfold nw_local in K. apply andb_true_iff in K. destruct K as [_ K].
  rewrite (get_child_type fn _ fname E3) in K. cbn [andb] in K. rewrite negb_true_iff in K. rewrite K. reflexivity.
Qed.

Definition selQ (W : list dataset) (st : sel) : Prop := Q W (s_g st) /\ Forall ds_ok (s_tables st) /\ xnil (s_columns st).

Lemma handle_child_ok2 W f e st s : efn s = true -> depth s <= S f -> selQ W st -> okr (selQ W) (handle_child f e st s).
Proof.
  intros H Hd (G & Ht & Hc). unfold handle_child. rewrite (hsp_nw e s _ H), (hsi_nw e s _ H). cbv beta iota.
  apply (okr_bind _ _ _ _ (list_tables_ok e s _ H (proj1 G))). intros ts Hts.
  apply (okr_bind (Forall (fun x => cparents (xc x) = []))).
  - destruct (tyis s "select_clause"); [|constructor]. apply okr_map_res. intros c Hin.
    destruct (Ds_get_children s _ c H Hin) as [Ec Dc].
    pose proof (column_of_seg_ok f e c Ec ltac:(lia)) as K. destruct (column_of_seg f e c) as [x|k] eqn:E; [|exact K].
    exact (column_of_seg_shape f e c x E).
  - intros cols Hcols. cbn [okg]. split; [exact G|]. cbn [s_tables s_columns]. split; [apply Forall_app; split; assumption|].
    intros x Hx. apply in_app_or in Hx. rewrite Forall_forall in Hcols. destruct Hx as [Hx|Hx]; [exact (Hc x Hx)|exact (Hcols x Hx)].
Qed.

Definition qk (k : xkind) : bool := match k with XSelect | XCte => true | _ => false end.

Lemma out_edge_one2 g t ed c : EP g -> In ed (out_edges g (NData t)) -> snd (fst ed) = NCol c -> exists p, cparents c = [p] /\ dataset_eqb p t = true.
Proof.
  intros E Hin Hc. apply filter_In in Hin. destruct Hin as [Hin Hs]. pose proof (E ed Hin) as K. unfold one_parent_edge in K. rewrite Hc in K.
  destruct (fst (fst ed)) as [d| |]; cbn [node_eqb] in Hs; try discriminate. destruct K as (p & Hp & Ep). exists p. split; [exact Hp|].
  exact (deqb_trans _ _ _ Ep (deqb_sym _ _ Hs)).
Qed.

Lemma wc_good g : GI g -> EP g -> Forall (colgood (sq_write g)) (write_columns g).
Proof.
  intros G E. apply Forall_forall. intros c Hc. split; [pose proof (write_columns_ok g G) as K; rewrite Forall_forall in K; exact (K c Hc)|]. right.
  unfold write_columns in Hc. destruct (get_target_table g) as [t|] eqn:Et; [|destruct Hc].
  assert (Ht : In t (sq_write g)).
  { unfold get_target_table in Et. destruct (filter _ (sq_write g)) as [|d r] eqn:Ef; [discriminate|]. inversion Et; subst.
    assert (Hin : In t (filter (fun d => negb (memd d (sq_read g))) (sq_write g))) by (rewrite Ef; left; reflexivity). apply filter_In in Hin. exact (proj1 Hin). }
  apply in_map_iff in Hc. destruct Hc as ([c' i] & <- & Hin). cbn [fst]. apply In_sort_by_idx in Hin. apply in_flat_map in Hin. destruct Hin as (ed & He & Hin).
  destruct (String.eqb _ _); [|destruct Hin]. destruct (snd (fst ed)) as [d0|c0|s0] eqn:Ee; [destruct Hin| |destruct Hin].
  destruct Hin as [Hin|[]]. inversion Hin; subst. destruct (out_edge_one2 g t ed c' E He Ee) as (p & Hp & Ep).
  exists p. split; [exact Hp|]. exists t. split; assumption.
Qed.

Section Step.
Variables (f : nat) (e : env).
Hypothesis IH : forall k s c, qk k = true -> efn s = true -> depth s <= f -> ctx_ok c -> CTXE c -> okr (Q (wof c)) (extract f e k s c).

Lemma ex_subquery_ok2 W stmt subs g : Forall (subDs stmt) subs -> depth stmt <= S f -> Q W g -> okr (Q W) (ex_subquery f e subs g).
Proof.
  intros Hs Hd G. unfold ex_subquery. eapply (okr_fold (Q W)); [|exact G].
  intros g' sq Hsq G'. rewrite Forall_forall in Hs. destruct (Hs sq Hsq) as [Hk (q & Eq & [Eq2 Dq])]. rewrite Eq. cbv zeta.
  set (cls := match get_child q ["with_compound_statement"] with Some _ => XCte | None => XSelect end).
  set (cx := {| c_cte := Some (sq_cte g'); c_write := Some [sq]; c_write_columns := None |}).
  assert (K : okr (Q [sq]) (extract f e cls q cx)).
  { apply (IH cls q cx); [unfold cls; destruct (get_child q _); reflexivity|exact Eq2|lia| |].
    - split; [|split]; cbn; intros l Hl; inversion Hl; subst; [exact (sq_cte_ok2 g' (proj1 G'))|constructor; [intros _; rewrite Eq; discriminate|constructor]].
    - split; [intros a b [<-|[]] [<-|[]]; apply deqb_refl|intros cols Hc; discriminate Hc]. }
  apply (okr_bind _ _ _ _ K). intros sh (Gs & Es & Ns). cbn [okg]. apply Q_compose; [exact G'|].
  apply (Q_mono [] W); [intros w []|]. split; [apply GI_set_attr_write; assumption|split; [exact Es|exact (NP_set_false sq sh Ns)]].
Qed.

Lemma ex_delegate_ok2 W s g : AW W -> efn s = true -> depth s <= f -> Q W g -> okr (Q W) (ex_delegate f e XSelect s g true).
Proof.
  intros HA H Hd (G & E & N). unfold ex_delegate.
  set (cx := {| c_cte := Some (sq_cte g); c_write := Some (sq_write g); c_write_columns := Some (write_columns g) |}).
  assert (K : okr (Q (sq_write g)) (extract f e XSelect s cx)).
  { apply (IH XSelect s cx eq_refl H Hd).
    - split; [|split]; cbn; intros l Hl; inversion Hl; subst; [exact (sq_cte_ok2 g G)|exact (sq_write_ok g G)|exact (write_columns_ok g G)].
    - split; cbn.
      + intros a b Ha Hb. destruct (NP_sq_write W g a N Ha) as (wa & Hwa & Ea). destruct (NP_sq_write W g b N Hb) as (wb & Hwb & Eb).
        exact (deqb_trans _ _ _ Ea (deqb_trans _ _ _ (HA wa wb Hwa Hwb) (deqb_sym _ _ Eb))).
      + intros cols Hc. inversion Hc; subst. exact (wc_good g G E). }
  apply (okr_bind _ _ _ _ K). intros sub Hsub. cbn [okg]. apply Q_compose; [split; [exact G|split; assumption]|].
  apply (Q_mono (sq_write g) W); [|exact Hsub]. intros w Hw. exact (NP_sq_write W g w N Hw).
Qed.

(** ** XSelect *)
Lemma sel_subq1_ok2 stmt s : efn stmt = true ->
  (Ds stmt s \/ (s = stmt /\ tyis stmt "set_expression" = true)) -> okr (Forall (subDs stmt)) (sel_subq1 s).
Proof.
  intros H Hs. unfold sel_subq1.
  assert (Es : efn s = true) by (destruct Hs as [Hs|[-> _]]; [exact (Ds_ef _ _ Hs)|exact H]).
  assert (Dss : D stmt s) by (destruct Hs as [Hs|[-> _]]; [exact (Ds_D _ _ Hs)|exact (D_refl _ H)]).
  apply (okr_bind (Forall (subDs stmt))).
  - destruct Hs as [Hs|[-> T]]; [|exact (list_subquery_set stmt H T)].
    refine (okr_weaken _ _ _ _ (list_subquery_D s Es)). intros l Hl. exact (Forall_impl _ (fun d Hd => subD_Ds stmt s d Hs Hd) Hl).
  - intros a Ha. apply (okr_bind (Forall (subDs stmt))).
    + destruct (is_set_expression s); [|constructor]. apply okr_concat_map. intros sub Hsub.
      pose proof (Ds_get_children s _ sub Es Hsub) as Dsub. apply okr_concat_map. intros x Hx.
      pose proof (Ds_lcs sub true x (Ds_ef _ _ Dsub) Hx) as Dx.
      refine (okr_weaken _ _ _ _ (list_subquery_D x (Ds_ef _ _ Dx))). intros l Hl.
      refine (Forall_impl _ (fun d Hd => subD_Ds stmt x d _ Hd) Hl).
      apply (D_Ds_trans _ s _ Dss). exact (Ds_D_trans _ sub _ Dsub (Ds_D _ _ Dx)).
    + intros b Hb. cbn [okg]. apply Forall_app. split; assumption.
Qed.

Lemma sel_segments_in2 stmt s : efn stmt = true -> In s (sel_segments stmt) ->
  Ds stmt s \/ (s = stmt /\ tyis stmt "set_expression" = true).
Proof.
  intros H Hs. unfold sel_segments in Hs. destruct (tyis stmt "set_expression") eqn:E.
  - destruct Hs as [<-|[]]. right. split; reflexivity.
  - left. exact (Ds_lcs stmt true s H Hs).
Qed.

Lemma sel_children_ok2 W st sub : efn sub = true -> depth sub <= S f -> selQ W st -> okr (selQ W) (sel_children f e st sub).
Proof.
  intros H Hd Hst. unfold sel_children. eapply (okr_fold (selQ W)); [|exact Hst].
  intros st4 sg Hsg Hst4. destruct (Ds_lcs sub true sg H Hsg) as [Eg Dg]. apply handle_child_ok2; [exact Eg|lia|exact Hst4].
Qed.

Lemma sel_step_ok2 W st0 s : efn s = true -> depth s <= S f -> selQ W st0 -> okr (selQ W) (sel_step f e st0 s).
Proof.
  intros H Hd Hst. unfold sel_step. apply (okr_bind (selQ W)); [apply handle_child_ok2; assumption|].
  intros st1 Hst1. destruct (is_set_expression s); [|exact Hst1].
  eapply (okr_fold_idx (selQ W)); [|exact Hst1].
  intros st2 i sub Hsub Hst2. destruct (Ds_get_children s _ sub H Hsub) as [Eb Db].
  apply sel_children_ok2; [exact Eb|lia|]. destruct i; exact Hst2.
Qed.

Lemma extract_select_ok2 stmt ctx : efn stmt = true -> depth stmt <= S f -> ctx_ok ctx -> CTXE ctx ->
  okr (Q (wof ctx)) (extract (S f) e XSelect stmt ctx).
Proof.
  intros H Hd Hc He. rewrite extract_select_eq.
  apply (okr_bind (Forall (subDs stmt))).
  - unfold sel_subqueries. apply okr_concat_map. intros s Hs. exact (sel_subq1_ok2 stmt s H (sel_segments_in2 stmt s H Hs)).
  - intros sqs Hsqs. apply (okr_bind (Q (wof ctx))); [exact (ex_subquery_ok2 (wof ctx) stmt sqs _ Hsqs Hd (Q_init_holder ctx Hc He))|]. intros g1 G1.
    apply (okr_bind (selQ (wof ctx))).
    + unfold sel_fold. eapply (okr_fold (selQ (wof ctx))).
      * intros st0 s Hs Hst0. destruct (sel_segments_in2 stmt s H Hs) as [[Es Dsx]|[-> _]]; apply sel_step_ok2; try assumption. lia.
      * split; [exact G1|]. split; [constructor|intros x []].
    + intros st (G & Ht & Hx). apply (okr_bind (Q (wof ctx))); [exact (eoq_strict _ e _ _ _ _ G Ht Hx)|]. intros g2 G2. exact (expand_wildcard_strict _ e g2 G2).
Qed.

(** ** XCte *)
Definition cteQ (W : list dataset) (stmt : seg) (a : graph * list dataset) : Prop := Q W (fst a) /\ Forall (subDs stmt) (snd a).

Lemma cte_inner_ok2 W stmt : forall l ra alias, (forall sub, In sub l -> Ds stmt sub) -> okr (cteQ W stmt) ra ->
  okr (cteQ W stmt) (fst (fold_left (cte_inner None) l (ra, alias))).
Proof.
  induction l as [|sub r IHl]; intros ra alias Hl Hra; cbn [fold_left fst]; [exact Hra|].
  assert (Hr : forall sub0, In sub0 r -> Ds stmt sub0) by (intros s0 H0; apply Hl; right; exact H0).
  unfold cte_inner at 2. destruct (tyis sub "identifier"); [exact (IHl _ _ Hr Hra)|].
  destruct (tyis sub "bracketed"); [|exact (IHl _ _ Hr Hra)]. apply (IHl _ _ Hr).
  apply (okr_bind _ _ _ _ Hra). intros [g2 subs2] [G2 S2]. cbn [fst snd] in G2, S2.
  pose proof (Hl sub (or_introl eq_refl)) as Dsub.
  apply (okr_bind _ _ _ _ (list_subquery_D sub (Ds_ef _ _ Dsub))). intros sqs Hsqs. cbn [okg]. split; cbn [fst snd].
  - apply Q_add_cte; [exact G2|apply mk_subquery_ds_ok|reflexivity].
  - apply Forall_app. split; [exact S2|]. apply Forall_map_intro. intros sq Hsq. rewrite Forall_forall in Hsqs.
    destruct (subD_Ds stmt sub sq Dsub (Hsqs sq Hsq)) as [K (q & Eq & Dq)].
    destruct alias as [al|]; [|split; [exact K|exists q; split; assumption]].
    split; [exact K|]. exists q. split; [exact Eq|exact Dq].
Qed.

Lemma cte_step_ok2 W stmt ra s : AW W -> Ds stmt s -> depth stmt <= S f -> okr (cteQ W stmt) ra -> okr (cteQ W stmt) (cte_step f e ra s).
Proof.
  intros HA [Es Dsx] Hd Hra. unfold cte_step. apply (okr_bind _ _ _ _ Hra). intros [g subs] [G S0]. cbn [fst snd] in G, S0.
  destruct (ty_in s ["select_statement"; "set_expression"]).
  { apply (okr_bind (Q W)); [apply ex_delegate_ok2; [exact HA|exact Es|lia|exact G]|]. intros g' G'. split; assumption. }
  rewrite (nw_not_ty s "insert_statement" Es ltac:(cbn; tauto)), (nw_not_ty s "update_statement" Es ltac:(cbn; tauto)).
  destruct (tyis s "common_table_expression"); [|split; assumption].
  apply cte_inner_ok2; [|split; assumption]. intros sub Hsub. apply (D_Ds_trans _ s); [split; [exact Es|lia]|exact (Ds_lcs s true sub Es Hsub)].
Qed.

Lemma extract_cte_ok2 stmt ctx : efn stmt = true -> depth stmt <= S f -> ctx_ok ctx -> CTXE ctx ->
  okr (Q (wof ctx)) (extract (S f) e XCte stmt ctx).
Proof.
  intros H Hd Hc He. rewrite extract_cte_eq. apply (okr_bind (cteQ (wof ctx) stmt)).
  - apply okr_fold_acc; [|split; [exact (Q_init_holder ctx Hc He)|constructor]].
    intros ra s Hs Hra. exact (cte_step_ok2 (wof ctx) stmt ra s (proj1 He) (Ds_lcs stmt true s H Hs) Hd Hra).
  - intros [g subs] [G S0]. exact (ex_subquery_ok2 (wof ctx) stmt subs g S0 Hd G).
Qed.
End Step.

Theorem extract_strict : forall f e k stmt ctx,
  qk k = true -> efn stmt = true -> depth stmt <= f -> ctx_ok ctx -> CTXE ctx -> okr (Q (wof ctx)) (extract f e k stmt ctx).
Proof.
  induction f as [|f IHf]; intros e k stmt ctx Hk H Hd Hc He; [pose proof (depth_pos stmt); lia|].
  pose proof (fun k s c => IHf e k s c) as IH. destruct k; try discriminate Hk.
  - exact (extract_select_ok2 f e IH stmt ctx H Hd Hc He).
  - exact (extract_cte_ok2 f e IH stmt ctx H Hd Hc He).
Qed.
Print Assumptions extract_strict.

(* ================================================================== *)
(** * statement level *)
Lemma CTXE_empty : CTXE empty_ctx.
Proof. split; [intros a b []|intros cols H; discriminate H]. Qed.

Definition QUERY_TYPES : list string := ["select_statement"; "set_expression"; "bracketed"; "with_compound_statement"].

Ltac eval_tests :=
  repeat match goal with
         | |- context [if ?b then _ else _] =>
             let v := eval vm_compute in b in (first [constr_eq v true | constr_eq v false]; change b with v; cbv iota)
         end.

(** PARTIAL (extra hypotheses: the statement is a query - SELECT / set expression / bracketed / WITH - and contains no
    nested write site, [nw t]): no internal error at all, in particular no ValueError *)
Theorem c10_total_queries_partial : forall e silent t,
  escape_free t = true -> nw t = true -> mem_string (ty t) QUERY_TYPES = true ->
  match analyze e silent t with Ok _ => True | Err k => allowed_err k = true end.
Proof.
  intros e silent t H Hn Hm.
  assert (Hefn : efn t = true) by (rewrite efn_spec, H, Hn; reflexivity).
  assert (Hd : depth t <= 3 * depth t + 10) by lia.
  assert (HX : forall k, qk k = true -> match extract (3 * depth t + 10) e k t empty_ctx with Ok _ => True | Err k0 => allowed_err k0 = true end).
  { intros k Hk. pose proof (extract_strict _ e k t empty_ctx Hk Hefn Hd ctx_ok_empty CTXE_empty) as K. destruct (extract _ e k t empty_ctx); [exact I|exact K]. }
  unfold QUERY_TYPES in Hm. cbn [mem_string] in Hm.
  unfold analyze. cbv zeta.
  repeat (apply orb_true_iff in Hm; destruct Hm as [Hm|Hm]); try discriminate Hm; apply String.eqb_eq in Hm; rewrite Hm; eval_tests;
    first [exact (HX XSelect eq_refl) | exact (HX XCte eq_refl)].
Qed.
Print Assumptions c10_total_queries_partial.

(** non-vacuity: the SELECT inside three parser-produced INSERT statements (join, scalar sub-query, CTE) *)
Definition query_of (t : seg) : seg :=
  match filter (fun c => mem_string (ty c) QUERY_TYPES) (children t) with q :: _ => q | [] => t end.
Example queries_partial_applies :
  forallb (fun t => escape_free (query_of t) && nw (query_of t) && mem_string (ty (query_of t)) QUERY_TYPES)
          [Props.Witness.w_mixed_join; Props.Witness.w_scalar_subquery; Props.Witness.w_union_alias_reuse; Props.Witness.w_cte_mixed_case] = true.
Proof. vm_compute. reflexivity. Qed.
