(** C10 - total error contract - on ALL segment trees: the statement dispatch [analyze], the escape conditions'
    counterexamples, non-vacuity. *)
From SV Require Import Tree.Observe Tree.TriviaProofs Tree.LemmaAProofs Tree.HolderInv Tree.ExtractInv
     Tree.TotalDefs Tree.TotalLeaves Tree.TotalHolder Tree.TotalExtract Tree.TotalMain Tree.TotalMerge Props.Witness.
Require Import Lia.
Open Scope string_scope.
Open Scope list_scope.

(** * COPY / DROP / RENAME extractors *)
Lemma extract_copy_ok e stmt : escape_free stmt = true -> okr TT (extract_copy e stmt).
Proof.
  intros H. unfold extract_copy. apply (okr_bind (fun a : graph * bool * bool => GI (fst (fst a)))); [|intros r _; exact I].
  apply (okr_fold (fun a : graph * bool * bool => GI (fst (fst a))) (fun (a : graph * bool * bool) s =>
    let '(g, tf, sf) := a in
    if tyis s "from_clause" then
      let g1 := match find_from_expression_element s with
                | Some fee =>
                    fold_left (fun gg te => match get_child te ["storage_location"] with
                                            | Some sl => add_read gg (mk_path (raw sl))
                                            | None => gg end) (get_children fee ["table_expression"]) g
                | None => g
                end in
      do g2 <- (if tf then do t <- find_table e s; Ok (match t with Some d => add_write g1 d | None => g1 end) else Ok g1);
      Ok (g2, false, false)
    else if tyis s "keyword" then
      let u := raw_upper s in
      if mem_string u ["COPY"; "INTO"] then Ok (g, true, sf)
      else if String.eqb u "FROM" then Ok (g, tf, true)
      else Ok (g, tf, sf)
    else
      do g1 <- (if tf then do t <- find_table e s; Ok (match t with Some d => add_write g d | None => g end) else Ok g);
      let g2 := if sf && ty_in s ["literal"; "storage_location"] then add_read g1 (mk_path (escape (raw s))) else g1 in
      Ok (g2, false, false))); [|exact GI_empty].
  intros [[g tf] sf] s Hs G. cbn [fst] in G. pose proof (Ds_ef _ _ (Ds_lcs stmt true s H Hs)) as Es.
  assert (Kft : forall g0, GI g0 -> okr GI (if tf then do t <- find_table e s; Ok (match t with Some d => add_write g0 d | None => g0 end) else Ok g0)).
  { intros g0 G0. destruct tf; [|exact G0]. apply (okr_bind _ _ _ _ (find_table_ok e s Es)). intros t Ht. exact (GI_opt_write g0 t G0 Ht). }
  assert (Kp : forall g0 u, GI g0 -> GI (add_read g0 (mk_path u))) by (intros g0 u G0; apply GI_add_read; [exact G0|apply ds_ok_notsubq; discriminate]).
  destruct (tyis s "from_clause").
  - cbv zeta. apply (okr_bind GI); [|intros g2 G2; exact G2]. apply Kft.
    destruct (find_from_expression_element s) as [fee|]; [|exact G].
    generalize (get_children fee ["table_expression"]). intros l. revert g G. induction l as [|te r IHl]; intros g G; cbn [fold_left]; [exact G|].
    apply IHl. destruct (get_child te ["storage_location"]); [apply Kp|]; exact G.
  - destruct (tyis s "keyword"); [cbv zeta; destruct (mem_string _ _); [exact G|destruct (String.eqb _ _); exact G]|].
    apply (okr_bind GI _ _ _ (Kft g G)). intros g1 G1. cbn [okg fst]. destruct (_ && _); [apply Kp|]; exact G1.
Qed.

Lemma extract_drop_ok e stmt : escape_free stmt = true -> okr TT (extract_drop e stmt).
Proof.
  intros H. unfold extract_drop. apply (okr_bind TT); [|intros r _; exact I].
  apply (okr_fold TT (fun (a : graph * bool) s =>
    let '(g, flag) := a in
    if (tyis s "keyword" && mem_string (raw_upper s) ["TABLE"; "VIEW"]) || (flag && mem_string (raw_upper s) ["IF"; "EXISTS"])
    then Ok (g, true)
    else if flag then
      do t <- find_table e s;
      Ok (match t with Some d => add_node g (NData d) [("drop", true)] | None => g end, false)
    else Ok (g, flag))); [|exact I].
  intros [g flag] s Hs _. pose proof (Ds_ef _ _ (Ds_lcs stmt true s H Hs)) as Es.
  destruct (_ || _); [exact I|]. destruct flag; [|exact I].
  apply (okr_bind _ _ _ _ (find_table_ok e s Es)). intros t _. exact I.
Qed.

Lemma extract_rename_ok e stmt : escape_free stmt = true -> okr TT (extract_rename e stmt).
Proof.
  intros H. unfold extract_rename. apply (okr_bind (Forall (@TT dataset))).
  - apply okr_concat_map. intros t Ht. pose proof (Ds_ef _ _ (Ds_child stmt t H Ht)) as Et.
    apply (okr_bind _ _ _ _ (find_table_ok e t Et)). intros x _. cbn [okg]. apply Forall_forall. intros d _. exact I.
  - intros tables _. destruct (_ && _); [exact I|]. destruct (_ && _); [|exact I]. destruct tables as [|a [|b [|c r]]]; exact I.
Qed.

(* ================================================================== *)
(** * the statement dispatch, every statement type *)
Definition c10_outcome (r : res graph) : Prop :=
  match r with Ok _ => True | Err k => allowed_err k = true \/ k = EValue end.

Lemma okv_outcome Q (r : res graph) : okv Q r -> c10_outcome r.
Proof. destruct r as [g|k]; cbn; [intros _; exact I|intros H; exact H]. Qed.
Lemma okr_outcome Q (r : res graph) : okr Q r -> c10_outcome r.
Proof. intros H. exact (okv_outcome Q r (okr_okv Q r H)). Qed.

(** PARTIAL in one respect: the outcome [Err EValue] (networkx's ValueError for add_edge(None, ..) in
    SubQueryLineageHolder.add_column_lineage / the wildcard expansion, reached only if the target column of a lineage
    edge has two candidate parents) is not excluded.  Every other internal error (IndexError, AttributeError, KeyError, ...)
    is, for every statement type, every environment and both modes.  [EFuel] is excluded as well: the fuel
    [3 * depth t + 10] that [analyze] picks always suffices.  "ScalarOracleMissing" (an artefact of the scalar
    sub-query oracle [e_scalar]) counts as allowed. *)
Theorem c10_total_on_all_trees_partial : forall e silent t,
  escape_free t = true ->
  match analyze e silent t with Ok _ => True | Err k => allowed_err k = true \/ k = EValue end.
Proof.
  intros e silent t H. change (c10_outcome (analyze e silent t)). unfold analyze.
  assert (Hd : depth t <= 3 * depth t + 10) by lia.
  assert (HX : forall k, c10_outcome (extract (3 * depth t + 10) e k t empty_ctx)).
  { intros k. exact (okv_outcome _ _ (extract_total _ e k t empty_ctx H Hd ctx_ok_empty)). }
  destruct (mem_string (ty t) ["select_statement"; "set_expression"; "bracketed"]); [apply HX|].
  destruct (mem_string (ty t) _); [apply HX|].
  destruct (String.eqb (ty t) "with_compound_statement"); [apply HX|].
  destruct (String.eqb (ty t) "update_statement"); [apply HX|].
  destruct (String.eqb (ty t) "merge_statement") eqn:Em; [exact (okv_outcome _ _ (extract_merge_total _ e t H Em Hd))|].
  destruct (mem_string (ty t) ["copy_statement"; "copy_into_table_statement"]); [exact (okr_outcome _ _ (extract_copy_ok e t H))|].
  destruct (mem_string (ty t) ["drop_table_statement"; "drop_view_statement"]); [exact (okr_outcome _ _ (extract_drop_ok e t H))|].
  destruct (mem_string (ty t) ["alter_table_statement"; "rename_statement"; "rename_table_statement"]); [exact (okr_outcome _ _ (extract_rename_ok e t H))|].
  destruct (mem_string (ty t) NOOP_TYPES); [exact I|]. destruct silent; [exact I|]. left; reflexivity.
Qed.
Print Assumptions c10_total_on_all_trees_partial.

(** [EFuel] on its own: with fuel at least the depth of the tree the extractor never runs out of fuel *)
Corollary extract_never_out_of_fuel : forall f e k stmt,
  escape_free stmt = true -> depth stmt <= f -> extract f e k stmt empty_ctx <> Err EFuel.
Proof.
  intros f e k stmt H Hd E. pose proof (extract_total f e k stmt empty_ctx H Hd ctx_ok_empty) as K. rewrite E in K.
  destruct K as [K|K]; discriminate K.
Qed.
Print Assumptions extract_never_out_of_fuel.

(* ================================================================== *)
(** * the escape conditions are needed: one counterexample tree per condition *)
Definition leaf (t raw : string) : seg := Seg t t [t] raw false false false [].
Definition nd (t : string) (ch : list seg) : seg := Seg t t [t] "" false false false ch.
Definition env0 : env := mk_env "ansi" "" "" {| p_truthy := false; p_cols := [] |} [].
Definition kw (s : string) := leaf "keyword" s.

(** L1 (utils.is_subquery, segment.segments[0]): a childless from_expression_element directly under a SELECT *)
Definition cx_L1 : seg := nd "select_statement" [leaf "from_expression_element" "t"].
Lemma cx_L1_escapes : analyze env0 false cx_L1 = Err EIndex /\ escape_free cx_L1 = false.
Proof. split; vm_compute; reflexivity. Qed.

(** L2 (utils.extract_identifier, list_child_segments(alias)[-1]): an alias_expression without a non-trivia child *)
Definition tref (n : string) : seg := nd "table_reference" [leaf "naked_identifier" n].
Definition cx_L2 : seg :=
  nd "select_statement" [nd "from_clause" [nd "from_expression" [nd "from_expression_element"
     [nd "table_expression" [tref "t"]; nd "alias_expression" []]]]].
Lemma cx_L2_escapes : analyze env0 false cx_L2 = Err EIndex /\ escape_free cx_L2 = false.
Proof. split; vm_compute; reflexivity. Qed.

(** L3 (utils.extract_as_and_target_segment, sublist[0] / target.segments[0]) *)
Definition cx_L3a : seg := nd "select_statement" [nd "from_clause" [nd "from_expression" [nd "from_expression_element" [leaf "whitespace" " "]]]].
Definition cx_L3b : seg := nd "select_statement" [nd "from_clause" [nd "from_expression" [nd "from_expression_element" [leaf "naked_identifier" "t"]]]].
Lemma cx_L3_escapes : analyze env0 false cx_L3a = Err EIndex /\ escape_free cx_L3a = false /\
                      analyze env0 false cx_L3b = Err EIndex /\ escape_free cx_L3b = false.
Proof. repeat split; vm_compute; reflexivity. Qed.

(** L4 (base._add_dataset_from_expression_element, all_segments[0]): only keywords in a from_expression_element *)
Definition cx_L4 : seg := nd "select_statement" [nd "from_clause" [nd "from_expression" [nd "from_expression_element" [nd "keyword" [leaf "word" "x"]]]]].
Lemma cx_L4_escapes : analyze env0 false cx_L4 = Err EIndex /\ escape_free cx_L4 = false.
Proof. split; vm_compute; reflexivity. Qed.

(** L5 (utils.extract_column_qualifier, list_child_segments(column_reference)[-1]): a childless column_reference *)
Definition cx_L5 : seg :=
  nd "select_statement" [nd "select_clause" [nd "select_clause_element" [leaf "column_reference" "a"]]].
Lemma cx_L5_escapes : analyze env0 false cx_L5 = Err EIndex /\ escape_free cx_L5 = false.
Proof. split; vm_compute; reflexivity. Qed.

(** L6 (models.SqlFluffTable.of, table.segments[0]): a childless table_reference *)
Definition cx_L6 : seg := nd "drop_table_statement" [kw "DROP"; kw "TABLE"; leaf "table_reference" "t"].
Lemma cx_L6_escapes : analyze env0 false cx_L6 = Err EIndex /\ escape_free cx_L6 = false.
Proof. split; vm_compute; reflexivity. Qed.

(** L7 (merge.py, segments[i + 1]): a bracketed USING source as the last child *)
Definition cref (n : string) : seg := nd "column_reference" [leaf "naked_identifier" n].
Definition cx_L7b : seg := nd "merge_statement" [kw "MERGE"; kw "INTO"; tref "t"; kw "USING"; nd "bracketed" []].
Lemma cx_L7_escapes : analyze env0 false cx_L7b = Err EIndex /\ escape_free cx_L7b = false.
Proof. split; vm_compute; reflexivity. Qed.

(** the former condition L7a (every merge_match needs a recorded target; list(holder.write)[0] in merge.py) is gone
    with fix F11: the tree that used to end in IndexError is escape-free and analyses to a holder *)
Definition cx_L7a : seg :=
  nd "merge_statement" [kw "MERGE"; nd "merge_match" [nd "merge_when_matched_clause" [nd "merge_update_clause"
     [nd "set_clause_list" [nd "set_clause" [cref "a"; cref "b"]]]]]].
Lemma cx_L7a_repaired : (exists g, analyze env0 false cx_L7a = Ok g) /\ escape_free cx_L7a = true.
Proof. split; [eexists|]; vm_compute; reflexivity. Qed.

(* ================================================================== *)
(** * non-vacuity *)
Example escape_free_witnesses :
  escape_free w_merge_values = true /\ escape_free w_vertica_swap = true /\ escape_free w_mixed_join = true /\
  escape_free w_scalar_subquery = true /\ escape_free w_union_alias_reuse = true /\ escape_free w_cte_mixed_case = true /\
  escape_free w_drop = true /\ escape_free w_insert_values = true.
Proof. repeat split; vm_compute; reflexivity. Qed.

(** the theorem applied to a parser-produced MERGE (and what it yields there) *)
Example c10_total_on_merge : exists g, analyze env0 false w_merge_values = Ok g.
Proof. eexists. vm_compute. reflexivity. Qed.

(** NOT PROVED (and not assumed): the same without the [EValue] disjunct.
    [EValue] has exactly two sources, both "col_parent c = None" for a column c taken from a has_column edge of the
    holder: (A) end_of_query_cleanup, target column = nth element of write_columns g (edges out of the single written
    dataset); (B) replace_wildcard, source columns = get_table_columns g st for a SubQuery st.  All other callers of
    add_column_lineage build the target with exactly one parent (proved inside [upd_col_ok], [merge_matched_ok], ...).
    A has_column edge NData d -> NCol c with two parents is created only by [add_write_column] (init_holder with
    inherited write columns; provider columns in XCreateInsert) when the first written dataset of the holder differs
    from the parent the column already has, hence only in a holder with two or more written datasets.  Needed invariant:
    the source d of such an edge never becomes (A) the single written dataset of a holder that passes the
    "exactly one written dataset" check of end_of_query_cleanup, nor (B) a SubQuery read through a wildcard.  Written
    Table / Path nodes never lose their write tag ([GI], third clause), so only a written SubQuery can drop out; for
    that it must also be read in its own CTE holder, which needs raw q = raw b for a bracket b strictly inside q although q
    contains a non-empty INSERT / UPDATE keyword outside b (SELECT .. INTO only yields SQLLineageException there).  So
    the invariant depends on raw texts, not only on shapes; it is believed to hold, no counterexample was found. *)
Definition c10_total_on_all_trees_statement : Prop := forall e silent t,
  escape_free t = true ->
  match analyze e silent t with Ok _ => True | Err k => allowed_err k = true end.
