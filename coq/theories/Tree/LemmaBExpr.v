(** Stage 2: Lemma B (columns) for INSERT / CTAS / VIEW over one SELECT from base tables whose items are stars,
    column references or ALIASED expressions, on the tree rendered by [r_stmt_x].

    STATUS
    - PROVED (Part A, [analyze_stmt_x], [select_clause_x]): for any trivia, any number of items / tables, INSERT with or without
      column list, CTAS, VIEW: the analysis of the rendered statement IS the SELECT clean-up ([end_of_query_cleanup] +
      [expand_wildcard]) on the base tables of FROM and the columns [xcol_x] of the items - for an aliased expression the
      column named by the alias with the sources [ops_srcs] of Tree/ExprItem.v.  This covers: the layout of [r_stmt_x]
      ([r_query_x_select]), no sub-query is found below a function call / a CASE operand ([list_subquery_sc_x], via
      [crawl_not_subq], [is_subquery_brk], [les_when]), the items are read exactly ([handle_child_sc_x]), and the fuel that
      [analyze] provides (3 * depth + 10) suffices for expressions of any depth ([expr_fuel_depth], [fuel_items]).
    - TESTED, NOT PROVED: the end-to-end statement [lemma_Bx_statement] (= the task's statement with the guards
      [stmt_ok_x], [colshape]); 12 varied instances hold with trivia ([lemma_Bx_tests]); without [colshape] it is false
      ([lemma_Bx_unguarded_refuted]).
      What is missing is the step from the clean-up to the pairs for items with SEVERAL sources.  LemmaBProofs.v does it with
      [eoq_fold] / [select_core] / [holder_realises]; the last is already stated for any number of sources per item, the
      first two assume [List.length (S x) <= 1] and use it: the invariant "the target table has at most idx has_column edges
      after idx items" (which decides that the target column is the item's own column, not a write column) is derived from
      the bound |S x| of [acl_fold_ok]; for several sources one needs the sharper fact that the edges of one item all go to
      the same target column (one has_column edge, [gedges_add_edge_same]).  With that, the plan is: (M) model side as in
      [model_pairs_select] with S x := dedup_cols (flat_map (S_of ts) (one xcol per source)); (E) the flows are, as a set,
      those of the statement whose items are one aliased column reference per source, to which [lemma_B_tables_colshape]
      applies; (S) [spec_pairs] of the two statements agree ([colshape] only looks at [col_refs]). *)
From Coq Require Import Lia Permutation.
From SV Require Import Tree.Render Tree.RenderExpr Tree.ExprItem Tree.LemmaA Tree.LemmaAProofs Tree.LemmaB Tree.LemmaBProofs
     Ident.Escape Ident.EscapeProofs.
From SV Require TriviaProofs.

(** items of the fragment: what [item_ok] allows, and aliased expressions over plain identifiers
    (an expression WITHOUT alias is named by its raw text, which contains the trivia) *)
Definition item_ok_x (i : item) : bool :=
  match i with
  | IExpr (EColRef qq c) al => item_ok i
  | IExpr ex (Some a) => expr_ok ex && id_ok a
  | IExpr _ None => false
  | IStar _ => item_ok i
  end.

Definition is_nil {A} (l : list A) : bool := match l with [] => true | _ => false end.

Definition stmt_ok_x (s : stmt) : bool :=
  match s with
  | SInsert t cols (QSelect items from _ None) =>
      tref_ok t && forallb item_ok_x items && negb (is_nil from) && forallb rel_ok from && trefs_distinct (map rtref from)
      && match cols with Some cs => forallb id_ok cs | None => true end
  | SCtas t (QSelect items from _ None) | SView t (QSelect items from _ None) =>
      tref_ok t && forallb item_ok_x items && negb (is_nil from) && forallb rel_ok from && trefs_distinct (map rtref from)
  | _ => false
  end.

Definition lemma_Bx_check (noise : list seg) (e : env) (s : stmt) : string :=
  if negb (noise_ok noise && env_ok e && stmt_ok_x s && colshape s) then "outside"
  else if list_eqb (script_pairs e false [] [r_stmt_x noise s]) (spec_pairs (e_cfg e) s) then "holds" else "FAILS".
Definition lemma_Bx_check0 (noise : list seg) (e : env) (s : stmt) : string :=
  if negb (noise_ok noise && env_ok e && stmt_ok_x s) then "outside"
  else if list_eqb (script_pairs e false [] [r_stmt_x noise s]) (spec_pairs (e_cfg e) s) then "holds" else "FAILS".


(** what the extractor makes of an item *)
Definition xcol_x (i : item) : xcol :=
  match i with
  | IExpr (EColRef _ _) _ | IStar _ => xcol_of i
  | IExpr ex (Some a) => mk_xcol a (ops_srcs ex) true
  | IExpr _ None => mk_xcol "" [] false
  end.

(* ================================================================== *)
(** * Part A: navigation on [r_stmt_x] *)
Section NavXA.
Variable noise : list seg.
Hypothesis Hnoise : noise_ok noise = true.
Variable e : env.
Hypothesis Henv : env_ok e = true.

Notation B := ["bracketed"].

Definition r_sc_x (items : list item) : seg :=
  node "select_clause" ["select_clause"] (sep noise (kw "select" :: intersperse comma (map (r_item_x noise) items))).

Lemma r_query_x_select k items from cj :
  forallb is_rtable from = true ->
  r_query_x noise (S k) (QSelect items from cj None) =
  node "select_statement" ["select_statement"] (sep noise [r_sc_x items; r_fc noise k from cj]).
Proof.
  intros Hrt. cbn [r_query_x app]. unfold r_sc_x, r_fc. f_equal. f_equal. f_equal. f_equal. f_equal. f_equal.
  assert (Hr : forall r, In r from -> is_rtable r = true) by (apply forallb_forall; exact Hrt).
  f_equal. destruct cj.
  - f_equal. apply map_ext_in. intros r Hin. specialize (Hr r Hin). destruct r; try discriminate. reflexivity.
  - destruct from as [|r0 rest]; [reflexivity|]. f_equal. unfold r_fej. f_equal. f_equal. f_equal.
    + specialize (Hr r0 (or_introl eq_refl)). destruct r0; try discriminate. reflexivity.
    + apply map_ext_in. intros r Hin. specialize (Hr r (or_intror Hin)). destruct r; try discriminate. reflexivity.
Qed.

Lemma item_x_types i :
  is_type (r_item_x noise i) ["select_clause_element"] = true /\ tyis (r_item_x noise i) "set_expression" = false /\
  is_type (r_item_x noise i) ["from_expression"] = false.
Proof. destruct i as [ex al|qq]; repeat split; reflexivity. Qed.

Lemma gc_sc_items_x items : get_children (r_sc_x items) ["select_clause_element"] = map (r_item_x noise) items.
Proof.
  unfold r_sc_x. rewrite (get_children_sep noise Hnoise) by reflexivity. cbn [filter]. change (is_type (kw "select") ["select_clause_element"]) with false.
  cbn iota. apply filter_intersperse; [reflexivity|]. intros y Hy. apply in_map_iff in Hy. destruct Hy as (i & <- & _). apply item_x_types.
Qed.

Lemma ise_sc_x items : is_set_expression (r_sc_x items) = false.
Proof.
  unfold is_set_expression. change (tyis (r_sc_x items) "set_expression") with false. cbn [orb]. unfold r_sc_x. cbn [children node].
  rewrite (existsb_sep noise Hnoise) by (intros x Hx; apply noise_tyis; [exact Hx|reflexivity]). cbn [existsb]. change (tyis (kw "select") "set_expression") with false. cbn [orb].
  apply existsb_none. intros y Hy.
  assert (H : Forall (fun y => tyis y "set_expression" = false) (intersperse comma (map (r_item_x noise) items))).
  { apply Forall_intersperse; [reflexivity|]. apply Forall_forall. intros z Hz. apply in_map_iff in Hz. destruct Hz as (i & <- & _). apply item_x_types. }
  rewrite Forall_forall in H. apply H. exact Hy.
Qed.

Lemma column_of_seg_x f i :
  item_ok_x i = true -> item_fuel i <= f -> column_of_seg (S f) e (r_item_x noise i) = Ok (xcol_x i).
Proof.
  intros Hok Hf.
  assert (Hold : item_ok i = true -> match i with IExpr (EColRef _ _) _ | IStar _ => True | _ => False end ->
                 column_of_seg (S f) e (r_item_x noise i) = Ok (xcol_of i)).
  { intros H1 H2. rewrite (r_item_x_old noise i H2). apply (column_of_seg_exact noise Hnoise e f i H1). }
  destruct i as [ex al|qq]; [|exact (Hold Hok I)].
  destruct ex as [q c| |a b|a b|c t g|a|a p o]; [exact (Hold Hok I)| | | | | |];
    (destruct al as [al|]; [|discriminate Hok]); cbn [item_ok_x] in Hok; apply andb_true_iff in Hok; destruct Hok as [Hex Hal];
    apply (column_of_seg_expr_exact noise e f _ al Hnoise Henv Hex Hal Hf).
Qed.

Lemma handle_child_sc_x f st items :
  forallb item_ok_x items = true -> (forall i, In i items -> item_fuel i <= f) ->
  handle_child (S f) e st (r_sc_x items) =
  Ok {| s_g := s_g st; s_tables := s_tables st; s_columns := s_columns st ++ map xcol_x items; s_barriers := s_barriers st |}.
Proof.
  intros H Hf. unfold handle_child. rewrite (swap_partition_off e Henv). unfold handle_select_into.
  change (ty_in (r_sc_x items) ["into_table_clause"; "into_clause"]) with false. cbn iota.
  unfold list_tables. change (ty_in (r_sc_x items) ["from_clause"; "join_clause"; "update_statement"]) with false. cbn iota.
  change (tyis (r_sc_x items) "select_clause") with true. cbn iota. rewrite gc_sc_items_x.
  assert (E : map_res (column_of_seg (S f) e) (map (r_item_x noise) items) = Ok (map xcol_x items)).
  { clear st. induction items as [|i r IH]; [reflexivity|]. cbn [forallb] in H. apply andb_true_iff in H. destruct H as [H1 H2].
    cbn [map map_res]. rewrite (column_of_seg_x f i H1 (Hf i (or_introl eq_refl))), (IH H2 (fun j Hj => Hf j (or_intror Hj))). reflexivity. }
  rewrite E. rewrite app_nil_r. reflexivity.
Qed.

(** ** fuel: the depth of the rendered expression bounds the fuel it needs *)
Lemma depth_in_sep t c l x : In x l -> S (depth x) <= depth (node t c (sep noise l)).
Proof. intros H. apply depth_child. cbn [children node]. apply (In_sep noise). exact H. Qed.
Lemma depth_in_node t c l x : In x l -> S (depth x) <= depth (node t c l).
Proof. intros H. apply depth_child. exact H. Qed.

Lemma depth_func_inner n inner extra x : In x inner -> 3 + depth x <= depth (func noise n inner extra).
Proof.
  intros H.
  assert (H1 : S (depth x) <= depth (brk noise inner)).
  { apply depth_in_sep. right. apply in_app_iff. left. exact H. }
  assert (H2 : S (depth (brk noise inner)) <= depth (fcontents noise inner)) by (apply depth_in_node; left; reflexivity).
  assert (H3 : S (depth (fcontents noise inner)) <= depth (func noise n inner extra)) by (apply depth_in_sep; right; left; reflexivity).
  lia.
Qed.

Lemma expr_fuel_depth ex : forall n, (forall x, In x (r_ops noise ex) -> depth x <= n) -> expr_fuel ex <= n.
Proof.
  induction ex as [q c| |a IHa b IHb|a IHa b IHb|c IHc t IHt f IHf|a IHa|a IHa p IHp o IHo]; intros n Hn; cbn [expr_fuel]; cbn [r_ops] in Hn.
  - specialize (Hn _ (or_introl eq_refl)). destruct (depth_pos (r_colref q c)) as [d Ed]. lia.
  - lia.
  - pose proof (Hn _ (or_introl eq_refl)) as H0.
    assert (Ha : expr_fuel a <= n - 4).
    { apply IHa. intros x Hx. pose proof (depth_in_sep "expression" ["expression"] _ x Hx) as H1. fold (xnode noise (r_ops noise a)) in H1.
      pose proof (depth_func_inner "coalesce" [xnode noise (r_ops noise a); comma; xnode noise (r_ops noise b)] [] _ (or_introl eq_refl)). lia. }
    assert (Hb : expr_fuel b <= n - 4).
    { apply IHb. intros x Hx. pose proof (depth_in_sep "expression" ["expression"] _ x Hx) as H1. fold (xnode noise (r_ops noise b)) in H1.
      pose proof (depth_func_inner "coalesce" [xnode noise (r_ops noise a); comma; xnode noise (r_ops noise b)] [] _ (or_intror (or_intror (or_introl eq_refl)))). lia. }
    pose proof (depth_func_inner "coalesce" [xnode noise (r_ops noise a); comma; xnode noise (r_ops noise b)] [] _ (or_introl eq_refl)).
    destruct (depth_pos (xnode noise (r_ops noise a))) as [d Ed]. lia.
  - assert (Ha : expr_fuel a <= n) by (apply IHa; intros x Hx; apply Hn; apply in_app_iff; left; exact Hx).
    assert (Hb : expr_fuel b <= n) by (apply IHb; intros x Hx; apply Hn; apply in_app_iff; right; right; exact Hx). lia.
  - pose proof (Hn _ (or_introl eq_refl)) as H0.
    set (W := when_node noise (r_ops noise c) (xnode noise (r_ops noise t))) in *. set (E := else_node noise (xnode noise (r_ops noise f))) in *.
    assert (HW : S (depth W) <= n) by (pose proof (depth_in_sep "case_expression" ["case_expression"] [kw "case"; W; E; kw "end"] W (or_intror (or_introl eq_refl))) as H1; fold (case_node noise W E) in H1; lia).
    assert (HE : S (depth E) <= n) by (pose proof (depth_in_sep "case_expression" ["case_expression"] [kw "case"; W; E; kw "end"] E (or_intror (or_intror (or_introl eq_refl)))) as H1; fold (case_node noise W E) in H1; lia).
    assert (Hc : expr_fuel c <= n - 3).
    { apply IHc. intros x Hx.
      pose proof (depth_in_sep "expression" ["expression"] (r_ops noise c ++ [cmp_gt; num "0"]) x ltac:(apply in_app_iff; left; exact Hx)) as H1.
      fold (xnode noise (r_ops noise c ++ [cmp_gt; num "0"])) in H1.
      pose proof (depth_in_sep "when_clause" ["when_clause"] [kw "when"; xnode noise (r_ops noise c ++ [cmp_gt; num "0"]); kw "then"; xnode noise (r_ops noise t)] _ (or_intror (or_introl eq_refl))) as H2.
      fold (when_node noise (r_ops noise c) (xnode noise (r_ops noise t))) in H2. fold W in H2. lia. }
    assert (Ht : expr_fuel t <= n - 3).
    { apply IHt. intros x Hx.
      pose proof (depth_in_sep "expression" ["expression"] (r_ops noise t) x Hx) as H1. fold (xnode noise (r_ops noise t)) in H1.
      pose proof (depth_in_sep "when_clause" ["when_clause"] [kw "when"; xnode noise (r_ops noise c ++ [cmp_gt; num "0"]); kw "then"; xnode noise (r_ops noise t)] _ (or_intror (or_intror (or_intror (or_introl eq_refl))))) as H2.
      fold (when_node noise (r_ops noise c) (xnode noise (r_ops noise t))) in H2. fold W in H2. lia. }
    assert (Hf : expr_fuel f <= n - 3).
    { apply IHf. intros x Hx.
      pose proof (depth_in_sep "expression" ["expression"] (r_ops noise f) x Hx) as H1. fold (xnode noise (r_ops noise f)) in H1.
      pose proof (depth_in_sep "else_clause" ["else_clause"] [kw "else"; xnode noise (r_ops noise f)] _ (or_intror (or_introl eq_refl))) as H2.
      fold (else_node noise (xnode noise (r_ops noise f))) in H2. fold E in H2. lia. }
    destruct (depth_pos (xnode noise (r_ops noise f))) as [d Ed].
    pose proof (depth_in_sep "else_clause" ["else_clause"] [kw "else"; xnode noise (r_ops noise f)] _ (or_intror (or_introl eq_refl))) as H2.
    fold (else_node noise (xnode noise (r_ops noise f))) in H2. fold E in H2. lia.
  - pose proof (Hn _ (or_introl eq_refl)) as H0.
    pose proof (depth_func_inner "cast" [xnode noise (r_ops noise a); kw "as"; dt_int] [] _ (or_introl eq_refl)) as H3.
    assert (Ha : expr_fuel a <= n - 4).
    { apply IHa. intros x Hx. pose proof (depth_in_sep "expression" ["expression"] _ x Hx) as H1. fold (xnode noise (r_ops noise a)) in H1. lia. }
    destruct (depth_pos (xnode noise (r_ops noise a))) as [d Ed]. lia.
  - pose proof (Hn _ (or_introl eq_refl)) as H0.
    assert (Eo : (if is_atom o then hd1 (r_ops noise o) else xnode noise (r_ops noise o)) = r_ord noise o) by reflexivity.
    rewrite Eo in H0. set (XP := xnode noise (r_ops noise p)) in *.
    set (FN := func noise "sum" [xnode noise (r_ops noise a)] [over_node noise XP (r_ord noise o)]) in *.
    pose proof (depth_func_inner "sum" [xnode noise (r_ops noise a)] [over_node noise XP (r_ord noise o)] _ (or_introl eq_refl)) as H3. fold FN in H3.
    assert (Ha : expr_fuel a <= n - 4).
    { apply IHa. intros x Hx. pose proof (depth_in_sep "expression" ["expression"] _ x Hx) as H1. fold (xnode noise (r_ops noise a)) in H1. lia. }
    assert (HO : S (depth (over_node noise XP (r_ord noise o))) <= depth FN).
    { unfold FN, func. apply depth_in_sep. right. right. left. reflexivity. }
    assert (HB : S (depth (brk noise [winspec noise XP (r_ord noise o)])) <= depth (over_node noise XP (r_ord noise o))).
    { unfold over_node. apply depth_in_sep. right. left. reflexivity. }
    assert (HWS : S (depth (winspec noise XP (r_ord noise o))) <= depth (brk noise [winspec noise XP (r_ord noise o)])).
    { unfold brk. apply depth_in_sep. right. left. reflexivity. }
    assert (HP : S (S (depth XP)) <= depth (winspec noise XP (r_ord noise o))).
    { pose proof (depth_in_sep "window_specification" ["window_specification"] [part_node noise XP; ord_node noise (r_ord noise o)] _ (or_introl eq_refl)) as K1.
      pose proof (depth_in_sep "partitionby_clause" ["partitionby_clause"] [kw "partition"; kw "by"; XP] XP (or_intror (or_intror (or_introl eq_refl)))) as K2.
      fold (part_node noise XP) in K2. fold (winspec noise XP (r_ord noise o)) in K1. lia. }
    assert (HOr : S (S (depth (r_ord noise o))) <= depth (winspec noise XP (r_ord noise o))).
    { pose proof (depth_in_sep "window_specification" ["window_specification"] [part_node noise XP; ord_node noise (r_ord noise o)] _ (or_intror (or_introl eq_refl))) as K1.
      pose proof (depth_in_sep "orderby_clause" ["orderby_clause"] [kw "order"; kw "by"; r_ord noise o] _ (or_intror (or_intror (or_introl eq_refl)))) as K2.
      fold (ord_node noise (r_ord noise o)) in K2. fold (winspec noise XP (r_ord noise o)) in K1. lia. }
    assert (Hp : expr_fuel p <= n - 6).
    { apply IHp. intros x Hx. pose proof (depth_in_sep "expression" ["expression"] _ x Hx) as H1. fold (xnode noise (r_ops noise p)) in H1. fold XP in H1. lia. }
    assert (Ho : expr_fuel o <= n - 5).
    { apply IHo. intros x Hx. assert (K : depth x <= depth (r_ord noise o)).
      { unfold r_ord. destruct (is_atom o) eqn:Ea.
        - destruct o; try discriminate; cbn [r_ops] in Hx; destruct Hx as [<-|[]]; apply Nat.le_refl.
        - pose proof (depth_in_sep "expression" ["expression"] _ x Hx) as H1. fold (xnode noise (r_ops noise o)) in H1. lia. }
      lia. }
    destruct (depth_pos XP) as [d Ed]. lia.
Qed.

Lemma item_fuel_depth i : item_fuel i <= depth (r_item_x noise i).
Proof.
  destruct i as [ex al|qq]; [|cbn [item_fuel]; lia]. cbn [item_fuel].
  assert (H : expr_fuel ex <= depth (r_top noise ex)).
  { apply expr_fuel_depth. intros x Hx. unfold r_top. destruct (wraps_top ex) eqn:Ew.
    - pose proof (depth_in_sep "expression" ["expression"] _ x Hx) as H1. fold (xnode noise (r_ops noise ex)) in H1. lia.
    - destruct ex; try discriminate; cbn [r_ops] in Hx; destruct Hx as [<-|[]]; apply Nat.le_refl. }
  pose proof (depth_in_sep "select_clause_element" ["select_clause_element"] (r_top noise ex :: match al with Some a => [r_alias noise a] | None => [] end) _ (or_introl eq_refl)) as H1.
  unfold r_item_x. lia.
Qed.

Lemma In_intersperse (x y : seg) l : In y l -> In y (intersperse x l).
Proof.
  induction l as [|a [|b r] IH]; [auto|auto|]. change (intersperse x (a :: b :: r)) with (a :: x :: intersperse x (b :: r)).
  intros [H|H]; [left; exact H|]. right. right. apply IH. exact H.
Qed.

Lemma item_fuel_sc items i : In i items -> S (item_fuel i) <= depth (r_sc_x items).
Proof.
  intros Hi. pose proof (item_fuel_depth i).
  pose proof (depth_in_sep "select_clause" ["select_clause"] (kw "select" :: intersperse comma (map (r_item_x noise) items)) (r_item_x noise i)
                ltac:(right; apply In_intersperse; apply in_map; exact Hi)) as H1.
  fold (r_sc_x items) in H1. lia.
Qed.


(** ** no sub-queries below the select clause *)
Definition op_ok (x : seg) : Prop :=
  is_type x B = false /\ is_type x ["select_statement"] = false /\
  (is_type x ["case_expression"] = true ->
   exists c t f, x = case_node noise (when_node noise (r_ops noise c) (xnode noise (r_ops noise t))) (else_node noise (xnode noise (r_ops noise f)))).

Lemma ops_types ex : Forall op_ok (r_ops noise ex).
Proof.
  assert (K : forall x, is_type x B = false -> is_type x ["select_statement"] = false -> is_type x ["case_expression"] = false -> op_ok x).
  { intros x H1 H2 H3. split; [exact H1|]. split; [exact H2|]. rewrite H3. discriminate. }
  induction ex as [q c| |a IHa b IHb|a IHa b IHb|c IHc t IHt f IHf|a IHa|a IHa p IHp o IHo]; cbn [r_ops].
  - constructor; [|constructor]. apply K; reflexivity.
  - constructor; [|constructor]. apply K; reflexivity.
  - constructor; [|constructor]. apply K; reflexivity.
  - apply Forall_app. split; [exact IHa|]. constructor; [apply K; reflexivity|exact IHb].
  - constructor; [|constructor]. split; [reflexivity|]. split; [reflexivity|]. intros _. exists c, t, f. reflexivity.
  - constructor; [|constructor]. apply K; reflexivity.
  - constructor; [|constructor]. apply K; reflexivity.
Qed.

Lemma filter_ops_none ex ts :
  (forall x, op_ok x -> is_type x ts = false) -> filter (fun x => is_type x ts) (r_ops noise ex) = [].
Proof.
  intros H. apply filter_none. intros x Hx. apply H. pose proof (ops_types ex) as Ho. rewrite Forall_forall in Ho. apply Ho. exact Hx.
Qed.

Lemma gc_xnode_brk ex : get_children (xnode noise (r_ops noise ex)) B = [].
Proof.
  unfold xnode. rewrite (get_children_sep noise Hnoise) by reflexivity. apply filter_ops_none. intros x Hx. apply Hx.
Qed.

Lemma when_scan_noise fk ek : forall n r st acc,
  Forall (fun x => noise_seg_ok x = true) n -> when_scan fk ek (n ++ r) st acc = when_scan fk ek r st acc.
Proof.
  induction n as [|x n IH]; intros r st acc Hn; [reflexivity|]. inversion Hn as [|x0 n0 Hx Hn']. subst. cbn [app when_scan].
  rewrite (noise_tyis x "keyword" Hx eq_refl), (noise_tyis x "expression" Hx eq_refl). cbn [andb]. rewrite andb_false_r.
  destruct ek; apply IH; exact Hn'.
Qed.

Lemma noise_all : Forall (fun x => noise_seg_ok x = true) noise.
Proof. apply Forall_forall. intros x Hx. apply (noise_in noise Hnoise). exact Hx. Qed.

Lemma les_when cops tops :
  list_expression_from_when_clause (when_node noise cops (xnode noise tops)) "WHEN" = get_children (xnode noise (cops ++ [cmp_gt; num "0"])) B /\
  list_expression_from_when_clause (when_node noise cops (xnode noise tops)) "THEN" = get_children (xnode noise tops) B.
Proof.
  unfold list_expression_from_when_clause, when_node. cbn [children node]. cbn [sep]. split.
  - change (String.eqb "WHEN" "WHEN") with true. cbn iota. cbn [when_scan]. change (tyis (kw "when") "keyword" && String.eqb (raw_upper (kw "when")) "WHEN") with true. cbn iota.
    rewrite (when_scan_noise _ _ noise _ _ _ noise_all). cbn [when_scan].
    change (tyis (xnode noise (cops ++ [cmp_gt; num "0"])) "keyword") with false. cbn [andb]. cbn iota.
    change (tyis (xnode noise (cops ++ [cmp_gt; num "0"])) "expression") with true. cbn iota.
    rewrite (when_scan_noise _ _ noise _ _ _ noise_all). cbn [when_scan].
    change (tyis (kw "then") "keyword" && String.eqb (raw_upper (kw "then")) "WHEN") with false. cbn iota.
    change (tyis (kw "then") "keyword" && String.eqb (raw_upper (kw "then")) "THEN") with true. cbn iota. reflexivity.
  - change (String.eqb "THEN" "WHEN") with false. cbn iota. cbn [when_scan]. change (tyis (kw "when") "keyword" && String.eqb (raw_upper (kw "when")) "THEN") with false. cbn iota.
    change (tyis (kw "when") "expression") with false. rewrite andb_false_r.
    rewrite (when_scan_noise _ _ noise _ _ _ noise_all). cbn [when_scan].
    change (tyis (xnode noise (cops ++ [cmp_gt; num "0"])) "keyword") with false. cbn [andb]. cbn iota.
    rewrite (when_scan_noise _ _ noise _ _ _ noise_all). cbn [when_scan].
    change (tyis (kw "then") "keyword" && String.eqb (raw_upper (kw "then")) "THEN") with true. cbn iota.
    rewrite (when_scan_noise _ _ noise _ _ _ noise_all). cbn [when_scan].
    change (tyis (xnode noise tops) "keyword") with false. cbn [andb]. cbn iota. change (tyis (xnode noise tops) "expression") with true. cbn iota.
    reflexivity.
Qed.

(** a bracketed segment of the rendering is not a sub-query *)
Definition member_ok (m : seg) : Prop :=
  get_child m B = None /\ is_type m B = false /\
  is_type m ["select_statement"; "set_expression"; "with_compound_statement"] = false /\
  (is_type m ["expression"] = true -> get_child m ["select_statement"] = None).

Lemma is_subquery_brk inner : Forall member_ok inner -> is_subquery (brk noise inner) = Ok false.
Proof.
  intros Hm. rewrite Forall_forall in Hm. unfold is_subquery. change (tyis (brk noise inner) "from_expression_element" || tyis (brk noise inner) "bracketed") with true. cbn iota.
  change (tyis (brk noise inner) "bracketed") with true. cbn iota.
  assert (Ein : extract_innermost_bracketed (brk noise inner) = brk noise inner).
  { unfold extract_innermost_bracketed. destruct (depth_pos (brk noise inner)) as [d ->]. cbn [innermost_fuel].
    assert (E1 : get_child (brk noise inner) B = None).
    { unfold get_child, brk. rewrite (get_children_sep noise Hnoise) by reflexivity. cbn [filter]. rewrite filter_app. cbn [filter].
      change (is_type lpar B) with false. change (is_type rpar B) with false. cbn iota. rewrite filter_none; [reflexivity|].
      intros x Hx. apply (Hm x Hx). }
    rewrite E1.
    assert (E2 : flat_map (fun bs => match get_child bs B with Some x => [x] | None => [] end) (children (brk noise inner)) = []).
    { unfold brk. cbn [children node]. rewrite (flat_map_sep noise Hnoise).
      - cbn [flat_map]. rewrite flat_map_app. cbn [flat_map]. change (get_child lpar B) with (@None seg). change (get_child rpar B) with (@None seg).
        cbn [app]. rewrite app_nil_r. apply flat_map_none. intros x Hx. rewrite (proj1 (Hm x Hx)). reflexivity.
      - intros x Hx. unfold get_child, get_children. rewrite (proj1 (proj2 (noise_seg_facts x Hx))). reflexivity. }
    rewrite E2. reflexivity. }
  rewrite Ein.
  assert (E3 : get_child (brk noise inner) ["select_statement"; "set_expression"; "with_compound_statement"] = None).
  { unfold get_child, brk. rewrite (get_children_sep noise Hnoise) by reflexivity. cbn [filter]. rewrite filter_app. cbn [filter].
    change (is_type lpar ["select_statement"; "set_expression"; "with_compound_statement"]) with false.
    change (is_type rpar ["select_statement"; "set_expression"; "with_compound_statement"]) with false. cbn iota. rewrite filter_none; [reflexivity|].
    intros x Hx. apply (Hm x Hx). }
  rewrite E3.
  destruct (get_child (brk noise inner) ["expression"]) as [ex0|] eqn:E4; [|reflexivity].
  assert (Hin : In ex0 inner /\ is_type ex0 ["expression"] = true).
  { unfold get_child, brk in E4. rewrite (get_children_sep noise Hnoise) in E4 by reflexivity. cbn [filter] in E4. rewrite filter_app in E4. cbn [filter] in E4.
    change (is_type lpar ["expression"]) with false in E4. change (is_type rpar ["expression"]) with false in E4. cbn iota in E4. rewrite app_nil_r in E4.
    destruct (filter (fun x => is_type x ["expression"]) inner) as [|y r] eqn:Ef; [discriminate|]. inversion E4. subst y.
    assert (Hy : In ex0 (filter (fun x => is_type x ["expression"]) inner)) by (rewrite Ef; left; reflexivity).
    apply filter_In in Hy. exact Hy. }
  destruct Hin as [Hin Hty]. rewrite (proj2 (proj2 (proj2 (Hm ex0 Hin))) Hty). reflexivity.
Qed.

Lemma member_xnode ex : member_ok (xnode noise (r_ops noise ex)).
Proof.
  split; [|split; [reflexivity|split; [reflexivity|]]].
  - unfold get_child. rewrite gc_xnode_brk. reflexivity.
  - intros _. unfold get_child, xnode. rewrite (get_children_sep noise Hnoise) by reflexivity.
    rewrite filter_ops_none; [reflexivity|]. intros x Hx. apply Hx.
Qed.

Lemma member_leaf t g c r :
  existsb (fun x => mem_string x ["bracketed"; "select_statement"; "set_expression"; "with_compound_statement"; "expression"]) c = false ->
  member_ok (leaf t g c r).
Proof.
  intros H. cbn [existsb] in H.
  assert (K : forall ts, (forall x, In x ts -> In x ["bracketed"; "select_statement"; "set_expression"; "with_compound_statement"; "expression"]) -> is_type (leaf t g c r) ts = false).
  { intros ts Hts. unfold is_type. cbn [cls leaf]. apply existsb_none. intros x Hx. apply mem_string_false. intros Hin.
    assert (E : existsb (fun x => mem_string x ["bracketed"; "select_statement"; "set_expression"; "with_compound_statement"; "expression"]) c = true).
    { apply existsb_exists. exists x. split; [exact Hx|]. apply mem_string_In. apply Hts. exact Hin. }
    cbn [existsb] in E. congruence. }
  split; [reflexivity|]. split; [apply K; intros x [<-|[]]; cbn; auto|]. split; [apply K; intros x Hx; cbn in *; tauto|].
  intros Hx. rewrite K in Hx; [discriminate|]. intros x [<-|[]]. cbn. tauto.
Qed.

Lemma crawl_not_subq ex : Forall (fun b => is_subquery b = Ok false) (flat_map (crawl B true) (r_ops noise ex)).
Proof.
  induction ex as [q c| |a IHa b IHb|a IHa b IHb|c IHc t IHt f IHf|a IHa|a IHa p IHp o IHo]; cbn [r_ops flat_map].
  - rewrite (crawl_colref q c). constructor.
  - constructor.
  - rewrite (crawl_func noise Hnoise), app_nil_r. cbn [flat_map]. rewrite !(crawl_xnode noise Hnoise). change (crawl B true comma) with (@nil seg).
    cbn [app]. rewrite !app_nil_r. constructor; [|apply Forall_app; split; assumption].
    apply is_subquery_brk. constructor; [apply member_xnode|]. constructor; [apply member_leaf; reflexivity|]. constructor; [apply member_xnode|constructor].
  - rewrite flat_map_app. cbn [flat_map]. change (crawl B true binop) with (@nil seg). cbn [app]. apply Forall_app. split; assumption.
  - rewrite app_nil_r. unfold case_node. rewrite (crawl_node_miss noise Hnoise) by reflexivity. cbn [flat_map]. rewrite !ExprItem.crawl_kw. cbn [app]. rewrite app_nil_r.
    unfold when_node, else_node. rewrite !(crawl_node_miss noise Hnoise) by reflexivity. cbn [flat_map]. rewrite !ExprItem.crawl_kw, !(crawl_xnode noise Hnoise).
    cbn [app]. rewrite !app_nil_r. rewrite flat_map_app. cbn [flat_map]. change (crawl B true cmp_gt) with (@nil seg). change (crawl B true (num "0")) with (@nil seg).
    cbn [app]. rewrite app_nil_r. apply Forall_app. split; [apply Forall_app; split; assumption|assumption].
  - rewrite (crawl_func noise Hnoise), app_nil_r. cbn [flat_map]. rewrite !(crawl_xnode noise Hnoise). change (crawl B true dt_int) with (@nil seg). rewrite ExprItem.crawl_kw.
    cbn [app]. rewrite !app_nil_r. constructor; [|assumption].
    apply is_subquery_brk. constructor; [apply member_xnode|]. constructor; [apply member_leaf; reflexivity|]. constructor; [|constructor].
    split; [reflexivity|]. split; [reflexivity|]. split; [reflexivity|]. discriminate.
  - assert (Eo : (if is_atom o then hd1 (r_ops noise o) else xnode noise (r_ops noise o)) = r_ord noise o) by reflexivity. rewrite Eo.
    set (XP := xnode noise (r_ops noise p)). rewrite (crawl_func noise Hnoise), app_nil_r. cbn [flat_map]. rewrite !(crawl_xnode noise Hnoise). rewrite !app_nil_r.
    unfold over_node. rewrite (crawl_node_miss noise Hnoise) by reflexivity. cbn [flat_map]. rewrite ExprItem.crawl_kw, (crawl_brk noise Hnoise). cbn [app flat_map]. rewrite !app_nil_r.
    unfold winspec at 2. rewrite (crawl_node_miss noise Hnoise) by reflexivity. cbn [flat_map]. rewrite app_nil_r.
    unfold part_node, ord_node. rewrite !(crawl_node_miss noise Hnoise) by reflexivity. cbn [flat_map]. rewrite !ExprItem.crawl_kw. cbn [app]. rewrite !app_nil_r.
    unfold XP at 2. rewrite (crawl_xnode noise Hnoise), (crawl_ord noise Hnoise).
    constructor; [apply is_subquery_brk; constructor; [apply member_xnode|constructor]|].
    apply Forall_app. split; [assumption|]. constructor; [|apply Forall_app; split; assumption].
    apply is_subquery_brk. constructor; [|constructor].
    split; [|split; [reflexivity|split; [reflexivity|discriminate]]].
    unfold get_child, winspec. rewrite (get_children_sep noise Hnoise) by reflexivity. reflexivity.
Qed.

Lemma filter_res_false {A} (f : A -> res bool) l : Forall (fun x => f x = Ok false) l -> filter_res f l = Ok [].
Proof. induction 1 as [|x r Hx Hr IH]; [reflexivity|]. cbn [filter_res]. rewrite Hx, IH. reflexivity. Qed.

Definition sce_subq (sce : seg) : res (list sqtuple) :=
  match get_child sce ["expression"] with
  | Some e0 =>
      match get_child e0 ["case_expression"] with
      | Some ce =>
          concat_res (map (fun wc =>
            let whens := map (fun b => (b, @None string)) (list_expression_from_when_clause wc "WHEN") in
            match list_expression_from_when_clause wc "THEN" with
            | [] => Ok whens
            | thens =>
                do alias <- (match get_child sce ["alias_expression"] with
                             | Some a => do i <- extract_identifier a; Ok (Some i)
                             | None => Ok None end);
                Ok (whens ++ map (fun b => (b, alias)) thens)
            end) (get_children ce ["when_clause"]))
      | None => Ok []
      end
  | None =>
      match get_child sce ["function"] with
      | Some f =>
          do bs <- filter_res is_subquery (crawl B true f);
          Ok (map (fun b => (b, @None string)) bs)
      | None => Ok []
      end
  end.

Lemma sce_subq_item i : item_ok_x i = true -> sce_subq (r_item_x noise i) = Ok [].
Proof.
  intros Hok. destruct i as [ex al|qq]; [|reflexivity]. unfold sce_subq, r_item_x.
  set (AL := match al with Some a => [r_alias noise a] | None => [] end).
  assert (EA : forall ts, existsb (fun x => mem_string x ts) ["alias_expression"] = false -> filter (fun x => is_type x ts) AL = []).
  { intros ts H. unfold AL. destruct al as [a|]; [|reflexivity]. cbn [filter]. unfold is_type. cbn [cls r_alias node]. rewrite H. reflexivity. }
  unfold get_child at 1. rewrite (get_children_sep noise Hnoise) by reflexivity. cbn [filter]. rewrite (EA ["expression"] eq_refl).
  destruct (wraps_top ex) eqn:Ew.
  - unfold r_top. rewrite Ew. change (is_type (xnode noise (r_ops noise ex)) ["expression"]) with true. cbn iota.
    destruct (get_child (xnode noise (r_ops noise ex)) ["case_expression"]) as [ce|] eqn:Ece; [|reflexivity].
    assert (Hce : In ce (r_ops noise ex) /\ is_type ce ["case_expression"] = true).
    { unfold get_child, xnode in Ece. rewrite (get_children_sep noise Hnoise) in Ece by reflexivity.
      destruct (filter (fun x => is_type x ["case_expression"]) (r_ops noise ex)) as [|y r] eqn:Ef; [discriminate|]. inversion Ece. subst y.
      assert (Hy : In ce (filter (fun x => is_type x ["case_expression"]) (r_ops noise ex))) by (rewrite Ef; left; reflexivity).
      apply filter_In in Hy. exact Hy. }
    destruct Hce as [Hin Hty]. pose proof (ops_types ex) as Ho. rewrite Forall_forall in Ho.
    destruct (proj2 (proj2 (Ho ce Hin)) Hty) as (c & t & f & ->).
    unfold case_node at 1. rewrite (get_children_sep noise Hnoise) by reflexivity.
    change (filter _ [kw "case"; when_node noise (r_ops noise c) (xnode noise (r_ops noise t)); else_node noise (xnode noise (r_ops noise f)); kw "end"])
      with [when_node noise (r_ops noise c) (xnode noise (r_ops noise t))].
    cbn [map concat_res]. destruct (les_when (r_ops noise c) (r_ops noise t)) as [E1 E2]. rewrite E1, E2, gc_xnode_brk.
    assert (E3 : get_children (xnode noise (r_ops noise c ++ [cmp_gt; num "0"])) B = []).
    { unfold xnode. rewrite (get_children_sep noise Hnoise) by reflexivity. rewrite filter_app. rewrite filter_ops_none by (intros x Hx; apply Hx). reflexivity. }
    rewrite E3. reflexivity.
  - assert (Et : is_type (r_top noise ex) ["expression"] = false) by (destruct ex; try discriminate; reflexivity).
    rewrite Et. unfold get_child. rewrite (get_children_sep noise Hnoise) by reflexivity. cbn [filter]. rewrite (EA ["function"] eq_refl).
    destruct (is_type (r_top noise ex) ["function"]) eqn:Ef; [|reflexivity].
    rewrite (filter_res_false is_subquery); [reflexivity|].
    pose proof (crawl_not_subq ex) as Hc.
    destruct ex as [q c| |a b|a b|c t g|a|a p o]; try discriminate; cbn [r_ops flat_map] in Hc; rewrite app_nil_r in Hc; exact Hc.
Qed.

Lemma list_subquery_sc_x items : forallb item_ok_x items = true -> list_subquery (r_sc_x items) = Ok [].
Proof.
  intros H. unfold list_subquery.
  assert (E : get_children (r_sc_x items) ["from_expression"] = []).
  { unfold r_sc_x. rewrite (get_children_sep noise Hnoise) by reflexivity. cbn [filter]. change (is_type (kw "select") ["from_expression"]) with false. cbn iota.
    apply filter_intersperse_none; [reflexivity|]. intros y Hy. apply in_map_iff in Hy. destruct Hy as (i & <- & _). apply item_x_types. }
  rewrite E. change (ty_in (r_sc_x items) ["select_clause"; "from_clause"; "where_clause"]) with true. cbn iota.
  unfold list_subqueries. change (tyis (r_sc_x items) "select_clause") with true. cbn iota. rewrite gc_sc_items_x.
  fold sce_subq. rewrite concat_res_nil; [reflexivity|]. intros x Hx. apply in_map_iff in Hx. destruct Hx as (i & <- & Hi).
  rewrite forallb_forall in H. apply sce_subq_item. apply H. exact Hi.
Qed.

Lemma sel_subq1_sc_x items : forallb item_ok_x items = true -> sel_subq1 (r_sc_x items) = Ok [].
Proof. intros H. unfold sel_subq1. rewrite (list_subquery_sc_x items H), ise_sc_x. reflexivity. Qed.


(** ** the SELECT, the statement *)
Definition Qx (k : nat) (items : list item) (from : list rel) (cj : bool) : seg :=
  node "select_statement" ["select_statement"] (sep noise [r_sc_x items; r_fc noise k from cj]).

Lemma sel_segments_x items k from cj : sel_segments (Qx k items from cj) = [r_sc_x items; r_fc noise k from cj].
Proof.
  unfold sel_segments, Qx. match goal with |- context [tyis ?n "set_expression"] => change (tyis n "set_expression") with false end. cbn iota.
  rewrite (lcs_node noise Hnoise) by reflexivity. reflexivity.
Qed.

Lemma select_tables_extract_x f stmt items from cj k ctx :
  sel_segments stmt = [r_sc_x items; r_fc noise k from cj] ->
  forallb item_ok_x items = true -> (forall i, In i items -> item_fuel i <= f) -> from <> [] -> forallb rel_ok from = true ->
  sq_cte (init_holder ctx) = [] ->
  extract (S (S f)) e XSelect stmt ctx =
  (do g2 <- end_of_query_cleanup e (init_holder ctx) (map (tbl_of e) from) (map xcol_x items) []; expand_wildcard e g2).
Proof.
  intros Hseg Hit Hfu Hne Hrel Hc. rewrite extract_select_eq, Hseg.
  assert (Hrt : forallb is_rtable from = true).
  { rewrite forallb_forall in *. intros r Hr. specialize (Hrel r Hr). destruct r; try discriminate. reflexivity. }
  unfold sel_subqueries. cbn [map concat_res]. rewrite (sel_subq1_sc_x items Hit), (sel_subq1_fc_tables noise Hnoise k from cj Hne Hrt).
  cbn [app ex_subquery fold_left]. unfold sel_fold. cbn [fold_left]. unfold sel_step.
  rewrite (handle_child_sc_x f _ items Hit Hfu), ise_sc_x. rewrite (handle_child_fc noise e Henv).
  cbn [s_g s_tables s_columns s_barriers app].
  rewrite (list_tables_exact noise Hnoise e Henv k from cj (init_holder ctx) Hne Hrel Hc), (ise_fc noise Hnoise). cbn [s_g s_tables s_columns s_barriers]. reflexivity.
Qed.

Lemma ci_select_x f stmt g Q :
  tyis Q "with_compound_statement" = false -> tyis Q "bracketed" = false -> ty_in Q ["select_statement"; "set_expression"] = true ->
  ci_step f e stmt (Ok (g, false, false)) Q = (do g' <- ex_delegate f e XSelect Q g true; Ok (g', false, false)).
Proof.
  intros E1 E2 E3. unfold ci_step. rewrite E1, E2, E3. cbn [andb]. cbn iota. destruct (ex_delegate f e XSelect Q g true); reflexivity.
Qed.

Lemma delegate_select_x F stmt g items from cj k :
  forallb item_ok_x items = true -> (forall i, In i items -> item_fuel i <= S F) -> from <> [] -> forallb rel_ok from = true ->
  init_holder (dctx g) = g -> sq_cte g = [] ->
  (do r <- ci_step (S (S (S F))) e stmt (Ok (g, false, false)) (Qx k items from cj); Ok (fst (fst r))) =
  (do sub <- (do g2 <- end_of_query_cleanup e g (map (tbl_of e) from) (map xcol_x items) []; expand_wildcard e g2);
   Ok (compose g sub)).
Proof.
  intros Hit Hfu Hne Hrel Hi Hc. rewrite ci_select_x by reflexivity. unfold ex_delegate. fold (dctx g).
  rewrite (select_tables_extract_x (S F) _ items from cj k (dctx g)); try assumption.
  - rewrite Hi. destruct (end_of_query_cleanup e _ _ _ []) as [g2|err]; [|reflexivity]. destruct (expand_wildcard e g2); reflexivity.
  - apply sel_segments_x.
  - rewrite Hi. exact Hc.
Qed.

Definition sel_holder_x (g : graph) (items : list item) (from : list rel) : res graph :=
  do sub <- (do g2 <- end_of_query_cleanup e g (map (tbl_of e) from) (map xcol_x items) []; expand_wildcard e g2);
  Ok (compose g sub).

Lemma fuel_items (stmt : seg) k items from cj :
  In (Qx k items from cj) (children stmt) -> forall i, In i items -> item_fuel i <= S (3 * depth stmt + 6).
Proof.
  intros Hin i Hi. pose proof (item_fuel_sc items i Hi) as H1. pose proof (depth_child _ _ Hin) as H2.
  pose proof (depth_in_sep "select_statement" ["select_statement"] [r_sc_x items; r_fc noise k from cj] _ (or_introl eq_refl)) as H3.
  fold (Qx k items from cj) in H3. lia.
Qed.

Lemma nn_Qx k items from cj : nn (Qx k items from cj) = true.
Proof. reflexivity. Qed.

Lemma analyze_insert_x t cols items from cj :
  tref_ok t = true -> match cols with Some cs => forallb id_ok cs = true /\ NoDup cs | None => True end ->
  forallb item_ok_x items = true -> from <> [] -> forallb rel_ok from = true ->
  analyze e false (r_stmt_x noise (SInsert t cols (QSelect items from cj None))) =
  sel_holder_x (match cols with Some cs => gb_of (tbl e t None) cs | None => add_write empty_graph (tbl e t None) end) items from.
Proof.
  intros Ht Hcols Hit Hne Hrel.
  assert (Hrt : forallb is_rtable from = true).
  { rewrite forallb_forall in *. intros r Hr. specialize (Hrel r Hr). destruct r; try discriminate. reflexivity. }
  set (q := QSelect items from cj None). set (k := q_size q). set (Q := Qx k items from cj).
  set (stmt := node "insert_statement" ["insert_statement"] (sep noise ([kw "insert"; kw "into"; r_tref t] ++ cols_part noise cols ++ [Q]))).
  assert (Es : r_stmt_x noise (SInsert t cols q) = stmt).
  { unfold r_stmt_x, stmt, q. rewrite (r_query_x_select _ items from cj Hrt). destruct cols; reflexivity. }
  rewrite Es.
  assert (Ea : analyze e false stmt = extract (S (S (S (S (3 * depth stmt + 6))))) e XCreateInsert stmt empty_ctx).
  { replace (S (S (S (S (3 * depth stmt + 6))))) with (3 * depth stmt + 10) by lia. reflexivity. }
  assert (HQ : In Q (children stmt)).
  { unfold stmt. cbn [children node]. apply (In_sep noise). apply in_app_iff. right. apply in_app_iff. right. left. reflexivity. }
  pose proof (fuel_items stmt k items from cj HQ) as Hfu.
  set (F := 3 * depth stmt + 6) in *.
  rewrite Ea, extract_ci_eq. unfold stmt at 2. rewrite (lcs_node noise Hnoise) by reflexivity.
  rewrite !filter_app, (filter_nn_cols noise). cbn [filter app]. change (nn (kw "insert")) with true. change (nn (kw "into")) with true.
  change (nn (r_tref t)) with true. unfold Q at 1. rewrite nn_Qx. cbn iota. fold Q.
  change (init_holder empty_ctx) with empty_graph. cbn [app fold_left].
  rewrite (ci_kw_target e (S (S (S F))) stmt empty_graph false false "insert" eq_refl), (ci_kw_target e (S (S (S F))) stmt empty_graph true false "into" eq_refl).
  rewrite (ci_tref e Henv), (table_of_seg_exact e Henv t None Ht I).
  destruct cols as [cs|]; cbn [cols_part app fold_left].
  - destruct Hcols as [Hcs Hnd]. rewrite (ci_cols_exact noise Hnoise e (S (S F)) stmt _ cs Hcs).
    change (add_write_column (add_write empty_graph (tbl e t None)) (cl_of cs)) with (gb_of (tbl e t None) cs).
    assert (Hd : dk (tbl e t None) = KTable) by reflexivity.
    destruct (gb_facts (tbl e t None) cs Hd Hnd) as (_ & _ & C & _).
    apply (delegate_select_x F stmt (gb_of (tbl e t None) cs) items from cj k Hit Hfu Hne Hrel (init_delegate_cols _ cs Hd Hnd)).
    unfold sq_cte. rewrite C. reflexivity.
  - apply (delegate_select_x F stmt _ items from cj k Hit Hfu Hne Hrel); reflexivity.
Qed.

Lemma analyze_create_x (view : bool) t items from cj :
  tref_ok t = true -> forallb item_ok_x items = true -> from <> [] -> forallb rel_ok from = true ->
  analyze e false (r_stmt_x noise (if view then SView t (QSelect items from cj None) else SCtas t (QSelect items from cj None)))
  = sel_holder_x (add_write empty_graph (tbl e t None)) items from.
Proof.
  intros Ht Hit Hne Hrel.
  assert (Hrt : forallb is_rtable from = true).
  { rewrite forallb_forall in *. intros r Hr. specialize (Hrel r Hr). destruct r; try discriminate. reflexivity. }
  set (q := QSelect items from cj None). set (k := q_size q). set (Q := Qx k items from cj).
  set (ty0 := if view then "create_view_statement" else "create_table_statement").
  set (w0 := if view then "view" else "table").
  set (stmt := node ty0 [ty0] (sep noise [kw "create"; kw w0; r_tref t; kw "as"; Q])).
  assert (Es : r_stmt_x noise (if view then SView t q else SCtas t q) = stmt).
  { unfold stmt, ty0, w0, q. destruct view; unfold r_stmt_x; rewrite (r_query_x_select _ items from cj Hrt); reflexivity. }
  rewrite Es.
  assert (Ea : analyze e false stmt = extract (S (S (S (S (3 * depth stmt + 6))))) e XCreateInsert stmt empty_ctx).
  { replace (S (S (S (S (3 * depth stmt + 6))))) with (3 * depth stmt + 10) by lia. destruct view; reflexivity. }
  assert (HQ : In Q (children stmt)).
  { unfold stmt. cbn [children node]. apply (In_sep noise). right. right. right. right. left. reflexivity. }
  pose proof (fuel_items stmt k items from cj HQ) as Hfu.
  set (F := 3 * depth stmt + 6) in *.
  rewrite Ea, extract_ci_eq. unfold stmt at 2. rewrite (lcs_node noise Hnoise) by (destruct view; reflexivity).
  cbn [filter]. change (nn (kw "create")) with true. change (nn (kw w0)) with true. change (nn (kw "as")) with true.
  change (nn (r_tref t)) with true. unfold Q at 1. rewrite nn_Qx. cbn iota. fold Q.
  change (init_holder empty_ctx) with empty_graph. cbn [fold_left].
  rewrite (ci_kw_other e (S (S (S F))) stmt empty_graph false "create" eq_refl eq_refl).
  rewrite (ci_kw_target e (S (S (S F))) stmt empty_graph false false w0) by (destruct view; reflexivity).
  rewrite (ci_tref e Henv), (table_of_seg_exact e Henv t None Ht I).
  rewrite (ci_kw_other e (S (S (S F))) stmt _ false "as" eq_refl eq_refl).
  apply (delegate_select_x F stmt _ items from cj k Hit Hfu Hne Hrel); reflexivity.
Qed.

End NavXA.


Definition cr (q : option string) (c : string) := EColRef q c.
Definition ea (ex : expr) (a : string) := IExpr ex (Some a).
Definition tx1 : list stmt := [
  SInsert tx None (sel1 [ea ex1 "k"] [tb "t"]);
  SCtas tx (sel1 [ea ex2 "k"; ci None "a"; ea ELit "one"] [tb "t"]);
  SView (Some "s", "v") (sel1 [ea ex3 "k"; IStar None] [tba "t" "t"]);
  SInsert tx (Some ["p"; "q"]) (sel1 [ea (EBin (cr None "a") (cr None "b")) "k"; ea (ECast (cr (Some "t") "a")) "l"] [tb "t"]);
  SInsert tx (Some ["p"; "q"]) (sel1 [ea (EBin ELit ELit) "k"; ea (ECast (cr (Some "t") "a")) "l"] [tb "t"]);
  SInsert tx (Some ["p"; "q"]) (sel1 [ea (ECast (cr (Some "t") "a")) "l"; ea (EBin ELit ELit) "k"] [tb "t"]);
  SInsert tx None (QSelect [ea (EFun (cr (Some "u") "a") (cr (Some "v") "b")) "k"] [tba "t1" "u"; tba "t2" "v"] false None);
  SInsert tx None (QSelect [ea (EFun (cr None "a") (cr (Some "v") "b")) "k"; ea (EWin (cr None "a") (cr None "c") ELit) "w"] [tba "t1" "u"; tba "t2" "v"] true None);
  SCtas tx (QSelect [ea (ECase (cr None "a") (cr (Some "t1") "b") (cr (Some "t2") "b")) "k"; ea (cr None "a") "k"] [tb "t1"; tbs "s" "t2" None] false None);
  SCtas tx (QSelect [ea (EBin (cr None "a") (cr (Some "t1") "a")) "k"] [tb "t1"; tb "t2"] false None);
  SCtas tx (sel1 [ea (EBin (cr None "a") (cr (Some "t") "a")) "k"; ea (EFun (cr None "a") (cr None "a")) "k"] [tb "t"]);
  SInsert tx None (sel1 [ea (EFun (EFun (cr None "a") ELit) (cr None "a")) "a"; ea (cr None "k") "b"] [tb "t"]);
  SInsert tx None (sel1 [IExpr (EBin (cr None "a") ELit) None] [tb "t"]);
  SInsert tx (Some ["p"]) (sel1 [ea (EBin ELit ELit) "k"] [tb "t"])
].

(* ================================================================== *)
(** * Part Z: results of Stage 2 *)

(** ** PROVED (Part A): on the rendered statement the extractor runs the SELECT clean-up on exactly the base tables of
    FROM and the columns [xcol_x] of the items (for an aliased expression: the alias, with the sources [ops_srcs]),
    starting from the holder that carries the target (and the INSERT column list) *)
Theorem analyze_stmt_x noise e t cols items from cj :
  noise_ok noise = true -> env_ok e = true ->
  tref_ok t = true -> match cols with Some cs => forallb id_ok cs = true /\ NoDup cs | None => True end ->
  forallb item_ok_x items = true -> from <> [] -> forallb rel_ok from = true ->
  let g0 := match cols with Some cs => gb_of (tbl e t None) cs | None => add_write empty_graph (tbl e t None) end in
  analyze e false (r_stmt_x noise (SInsert t cols (QSelect items from cj None))) = sel_holder_x e g0 items from /\
  (cols = None ->
   analyze e false (r_stmt_x noise (SCtas t (QSelect items from cj None))) = sel_holder_x e g0 items from /\
   analyze e false (r_stmt_x noise (SView t (QSelect items from cj None))) = sel_holder_x e g0 items from).
Proof.
  intros Hn He Ht Hc Hit Hne Hrel g0. split.
  - apply (analyze_insert_x noise Hn e He t cols items from cj Ht Hc Hit Hne Hrel).
  - intros ->. split.
    + apply (analyze_create_x noise Hn e He false t items from cj Ht Hit Hne Hrel).
    + apply (analyze_create_x noise Hn e He true t items from cj Ht Hit Hne Hrel).
Qed.
Print Assumptions analyze_stmt_x.

(** the select clause of expression items lists no sub-query (the extractor crawls every bracketed segment of every
    function call and every WHEN / THEN operand for one), and its items are read exactly *)
Theorem select_clause_x noise e f st items :
  noise_ok noise = true -> env_ok e = true -> forallb item_ok_x items = true -> (forall i, In i items -> item_fuel i <= f) ->
  list_subquery (r_sc_x noise items) = Ok [] /\
  handle_child (S f) e st (r_sc_x noise items) =
  Ok {| s_g := s_g st; s_tables := s_tables st; s_columns := s_columns st ++ map xcol_x items; s_barriers := s_barriers st |}.
Proof.
  intros Hn He Hit Hf. split; [apply (list_subquery_sc_x noise Hn items Hit)|apply (handle_child_sc_x noise Hn e He f st items Hit Hf)].
Qed.
Print Assumptions select_clause_x.

(** ** NOT PROVED: the end-to-end statement.  It is type-checked here and tested below; see the header for what is missing. *)
Definition lemma_Bx_statement : Prop :=
  forall noise e s,
    noise_ok noise = true -> env_ok e = true -> stmt_ok_x s = true -> colshape s = true ->
    script_pairs e false [] [r_stmt_x noise s] = spec_pairs (e_cfg e) s.

(** without [colshape] it is false, as for the column-reference fragment (here: [a + t1.a] over two tables) *)
Definition lemma_Bx_unguarded : Prop :=
  forall noise e s,
    noise_ok noise = true -> env_ok e = true -> stmt_ok_x s = true ->
    script_pairs e false [] [r_stmt_x noise s] = spec_pairs (e_cfg e) s.
Definition cxBx_qual_unres : stmt :=
  SCtas tx (QSelect [ea (EBin (cr None "a") (cr (Some "t1") "a")) "k"] [tb "t1"; tb "t2"] false None).
Theorem lemma_Bx_unguarded_refuted : ~ lemma_Bx_unguarded.
Proof.
  intros H. specialize (H [] e_cxB cxBx_qual_unres eq_refl eq_refl eq_refl). vm_compute in H. discriminate H.
Qed.
Lemma cxBx_excluded : colshape cxBx_qual_unres = false.
Proof. vm_compute. reflexivity. Qed.

(** ** tests of the statement (12 instances inside the guards, with trivia; one excluded by [colshape], one by [stmt_ok_x]) *)
Example lemma_Bx_tests :
  map (fun s => lemma_Bx_check [ws; cmt] e_cxB s) tx1 =
  ["holds"; "holds"; "holds"; "holds"; "holds"; "holds"; "holds"; "holds"; "holds"; "outside"; "holds"; "holds"; "outside"; "holds"].
Proof. vm_compute. reflexivity. Qed.

(** ** non-vacuity of [analyze_stmt_x] / [select_clause_x] *)
Example ex_analyze_x_hyps :
  noise_ok [ws; cmt] = true /\ env_ok e_cxB = true /\ tref_ok tx = true /\ forallb id_ok ["p"; "q"] = true /\
  forallb item_ok_x [ea (EBin (cr None "a") (cr None "b")) "k"; ea ex2 "l"] = true /\ forallb rel_ok [tb "t"] = true.
Proof. vm_compute. repeat split. Qed.
Example ex_analyze_x_instance :
  exists g, analyze e_cxB false (r_stmt_x [ws; cmt] (SInsert tx (Some ["p"; "q"]) (sel1 [ea (EBin (cr None "a") (cr None "b")) "k"; ea ex2 "l"] [tb "t"]))) = Ok g.
Proof. vm_compute. eexists. reflexivity. Qed.
