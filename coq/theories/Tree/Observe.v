(** Observables of the tree model, in the vocabulary of the properties. *)
From SV Require Export Tree.Script.

Definition st_read (g : graph) : list dataset :=
  filter (fun d => match dk d with KSubq => false | _ => true end) (sq_read g).

(** source / target datasets of one statement (StatementLineageHolder.read / .write), sorted *)
Definition stmt_reads (r : res graph) : list string :=
  match r with Ok g => sort_strings (map dstr (st_read g)) | Err _ => [] end.
Definition stmt_writes (r : res graph) : list string :=
  match r with Ok g => sort_strings (map dstr (st_write g)) | Err _ => [] end.

Definition script_graph (e : env) (silent : bool) (base : list (string * list string)) (stmts : list seg) : res graph :=
  do r <- run_statements e silent base stmts [] [];
  match build {| p_truthy := p_truthy (e_provider e); p_cols := view_cols (snd r) base |} (map holder_of (fst r)) with
  | BOk g => Ok g
  | ErrNetworkX => Err "NetworkXError"
  | ErrKey => Err "KeyError"
  end.

(** end-to-end column pairs "source>target" of a script (get_column_lineage, default flags), sorted *)
Definition pair_str (p : list node) : string :=
  match p with
  | [] => ""
  | s :: _ => (match s with
               | NCol c => match col_parent c with
                           | Some _ => col_str c
                           | None => craw c ++ "{" ++ join "," (sort_strings (map dstr (cparents c))) ++ "}"
                           end
               | _ => node_str s
               end) ++ ">" ++ node_str (last p s)
  end.
Definition script_pairs (e : env) (silent : bool) (base : list (string * list string)) (stmts : list seg) : list string :=
  match script_graph e silent base stmts with
  | Ok g => uniq_sorted (sort_strings (map pair_str (column_lineage g true false)))
  | Err _ => []
  end.
Definition script_sources e silent base stmts : list string :=
  match script_graph e silent base stmts with Ok g => sort_strings (map node_str (source_tables g)) | Err _ => [] end.
Definition script_targets e silent base stmts : list string :=
  match script_graph e silent base stmts with Ok g => sort_strings (map node_str (target_tables g)) | Err _ => [] end.
