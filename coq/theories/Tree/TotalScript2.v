(** C10 at script level without the EValue disjunct: the statement loop and the assembly, for scripts whose statements
    are escape-free and satisfy [nw_inner] (Tree/TotalValue3.v). *)
From SV Require Import Holder.RefineDefs Holder.PathProofs Holder.RefineGraph.
From SV Require Import Tree.Observe Tree.TotalDefs Tree.TotalTop Tree.TotalScript Tree.TotalV2Base Tree.TotalValue3.
Open Scope string_scope.
Open Scope list_scope.

Definition c10_strict {A} (r : res A) : Prop :=
  match r with Ok _ => True | Err k => allowed_err k = true end.

Theorem run_statements_strict : forall stmts e silent base session acc,
  Forall (fun t => escape_free t = true /\ nw_inner t = true) stmts -> c10_strict (run_statements e silent base stmts session acc).
Proof.
  induction stmts as [|s r IH]; intros e silent base session acc H; cbn [run_statements]; [exact I|].
  inversion H as [|s' r' [Hs Hn] Hr]; subst.
  pose proof (c10_total_on_all_trees_strict (with_cols e (view_cols session base)) silent s Hs Hn) as K.
  destruct (analyze (with_cols e (view_cols session base)) silent s) as [g|k]; [|exact K]. apply IH. exact Hr.
Qed.
Print Assumptions run_statements_strict.

Theorem script_total_strict : forall e silent base stmts,
  Forall (fun t => escape_free t = true /\ nw_inner t = true) stmts -> script_rn_ok e silent base stmts = true ->
  match script_graph e silent base stmts with Ok _ => True | Err k => allowed_err k = true end.
Proof.
  intros e silent base stmts H Hg. unfold script_graph, script_rn_ok in *.
  pose proof (run_statements_strict stmts e silent base [] [] H) as K.
  destruct (run_statements e silent base stmts [] []) as [[gs session]|k]; [|exact K]. cbn [fst snd].
  destruct (build_total {| p_truthy := p_truthy (e_provider e); p_cols := view_cols session base |} gs Hg) as (g & ->). exact I.
Qed.
Print Assumptions script_total_strict.

Theorem script_total_strict_unguarded : forall e silent base stmts,
  Forall (fun t => escape_free t = true /\ nw_inner t = true) stmts ->
  match script_graph e silent base stmts with
  | Ok _ => True
  | Err k => allowed_err k = true \/ k = "NetworkXError"
  end.
Proof.
  intros e silent base stmts H. unfold script_graph.
  pose proof (run_statements_strict stmts e silent base [] [] H) as K.
  destruct (run_statements e silent base stmts [] []) as [[gs session]|k]; [|left; exact K].
  cbn [fst snd]. destruct (build _ _) eqn:E; [exact I|right; reflexivity|destruct (build_no_key _ _ E)].
Qed.
Print Assumptions script_total_strict_unguarded.

(** non-vacuity: parser-produced INSERT / MERGE / DROP statements followed by a two-pair RENAME; and the RENAME chain of
    K-C10-5, on which only NetworkXError remains *)
Example script_total_strict_applies :
  let stmts := [Props.Witness.w_mixed_join; Props.Witness.w_merge_values; Props.Witness.w_drop; rename_stmt [("a", "b"); ("c", "d")]] in
  Forall (fun t => escape_free t = true /\ nw_inner t = true) stmts /\ script_rn_ok env0 false [] stmts = true /\
  (exists g, script_graph env0 false [] stmts = Ok g) /\
  Forall (fun t => escape_free t = true /\ nw_inner t = true) cx_rename /\ script_graph env0 false [] cx_rename = Err "NetworkXError".
Proof.
  cbv zeta. split; [repeat constructor; vm_compute; reflexivity|]. split; [vm_compute; reflexivity|].
  split; [eexists; vm_compute; reflexivity|]. split; [repeat constructor; vm_compute; reflexivity|vm_compute; reflexivity].
Qed.
