(** Lemma B, step 5b: the specification side of a UNION of two plain SELECTs over base tables, at the level of list
    membership: the printed pairs of [spec_flows] are exactly the printed pairs of the two branches, both named by the
    target column names (the names of the first branch, or the explicit column list). *)
From SV Require Import Tree.Render Tree.LemmaA Tree.LemmaAProofs Tree.LemmaB Tree.LemmaBProofs Tree.LemmaB5bDefs Ident.Escape.
From Coq Require Import Lia.
Open Scope string_scope.
Open Scope list_scope.

(** * [dedup_src] up to printing *)
Lemma dedup_src_in l : forall seen x, In x (dedup_src l seen) -> In x l.
Proof.
  induction l as [|a r IH]; intros seen x H; [exact H|]. cbn [dedup_src] in H.
  destruct (existsb (src_eqb a) seen).
  - right. exact (IH _ _ H).
  - destruct H as [->|H]; [left; reflexivity|right; exact (IH _ _ H)].
Qed.

Lemma dedup_src_cover l : forall seen x, In x l ->
  exists y, (In y (dedup_src l seen) \/ In y seen) /\ (x = y \/ src_eqb x y = true).
Proof.
  induction l as [|a r IH]; intros seen x H; [destruct H|]. cbn [dedup_src].
  destruct (existsb (src_eqb a) seen) eqn:E.
  - destruct H as [<-|H].
    + apply existsb_exists in E. destruct E as (y & Hy & Ey). exists y. split; [right; exact Hy|right; exact Ey].
    + exact (IH seen x H).
  - destruct H as [<-|H].
    + exists a. split; [left; left; reflexivity|left; reflexivity].
    + destruct (IH (a :: seen) x H) as (y & [Hy|[<-|Hy]] & Ey).
      * exists y. split; [left; right; exact Hy|exact Ey].
      * exists a. split; [left; left; reflexivity|exact Ey].
      * exists y. split; [right; exact Hy|exact Ey].
Qed.

Lemma dedup_src_show l :
  (forall a b, In a l -> In b l -> src_eqb a b = true -> show_src a = show_src b) ->
  forall s, In s (map show_src (dedup_src l [])) <-> In s (map show_src l).
Proof.
  intros Hp s. rewrite !in_map_iff. split.
  - intros (x & E & Hx). exists x. split; [exact E|exact (dedup_src_in _ _ _ Hx)].
  - intros (x & E & Hx). destruct (dedup_src_cover l [] x Hx) as (y & [Hy|[]] & Ey). exists y. split; [|exact Hy].
    rewrite <- E. destruct Ey as [->|Ey]; [reflexivity|]. symmetry. apply Hp; [exact Hx|exact (dedup_src_in _ _ _ Hy)|exact Ey].
Qed.

(** * the printed pairs of one target column *)
Definition col_strs (T n : string) (srcs : list src) : list string :=
  map (fun sr => (show_src sr ++ ">" ++ T ++ "." ++ n)%string) srcs.

Lemma col_strs_in T n srcs x :
  In x (col_strs T n srcs) <-> exists s, In s (map show_src srcs) /\ x = (s ++ ">" ++ T ++ "." ++ n)%string.
Proof.
  unfold col_strs. rewrite in_map_iff. split.
  - intros (sr & E & H). exists (show_src sr). split; [apply in_map; exact H|symmetry; exact E].
  - intros (s & H & ->). apply in_map_iff in H. destruct H as (sr & <- & H). exists sr. split; [reflexivity|exact H].
Qed.

Lemma col_strs_union T n s1 s2 x :
  (forall a b, In a (s1 ++ s2) -> In b (s1 ++ s2) -> src_eqb a b = true -> show_src a = show_src b) ->
  In x (col_strs T n (dedup_src (s1 ++ s2) [])) <-> In x (col_strs T n s1) \/ In x (col_strs T n s2).
Proof.
  intros Hp. rewrite !col_strs_in. split.
  - intros (s & H & ->). apply (dedup_src_show _ Hp) in H. rewrite map_app in H. apply in_app_iff in H.
    destruct H as [H|H]; [left|right]; exists s; (split; [exact H|reflexivity]).
  - intros [(s & H & ->)|(s & H & ->)]; exists s; (split; [|reflexivity]); apply (dedup_src_show _ Hp); rewrite map_app; apply in_app_iff;
      [left|right]; exact H.
Qed.

(** * [zip_union] keeps the length and the names of its first argument *)
Lemma zip_union_length a : forall b, List.length (zip_union a b) = List.length a.
Proof.
  induction a as [|[n s] ra IH]; intros b; [reflexivity|]. destruct b as [|[n' s'] rb]; [reflexivity|].
  cbn [zip_union List.length]. rewrite IH. reflexivity.
Qed.

Lemma zip_union_names a : forall b, map fst (zip_union a b) = map fst a.
Proof.
  induction a as [|[n s] ra IH]; intros b; [reflexivity|]. destruct b as [|[n' s'] rb]; [reflexivity|].
  cbn [zip_union map fst]. rewrite IH. reflexivity.
Qed.

(** * the core: position by position *)
Definition names_strs (T : string) (l : list (string * colspec)) : list string :=
  flat_map (fun p : string * colspec => col_strs T (fst p) (snd (snd p))) l.

Definition branch_strs (T : string) (sc : list binding) (l : list (item * string)) : list string :=
  flat_map (fun ic : item * string => col_strs T (snd ic) (flat_map snd (item_cols sc (fst ic)))) l.

Lemma union_core T sc1 sc2 (L : list src) x :
  (forall a b, In a L -> In b L -> src_eqb a b = true -> show_src a = show_src b) ->
  forall i1 i2 names,
  List.length i1 = List.length i2 -> List.length names = List.length i1 ->
  (forall i, In i i1 -> exists srcs, item_cols sc1 i = [(item_name i, srcs)]) ->
  (forall i, In i i2 -> exists srcs, item_cols sc2 i = [(item_name i, srcs)]) ->
  incl (flat_map (fun i => flat_map snd (item_cols sc1 i)) i1) L ->
  incl (flat_map (fun i => flat_map snd (item_cols sc2 i)) i2) L ->
  In x (names_strs T (combine names (zip_union (flat_map (item_cols sc1) i1) (flat_map (item_cols sc2) i2)))) <->
  In x (branch_strs T sc1 (combine i1 names)) \/ In x (branch_strs T sc2 (combine i2 names)).
Proof.
  intros Hp. induction i1 as [|a ra IH]; intros [|b rb] [|n rn] Hl Hn H1 H2 L1 L2; cbn [List.length] in Hl, Hn; try discriminate.
  - cbn. tauto.
  - destruct (H1 a (or_introl eq_refl)) as (s1 & E1). destruct (H2 b (or_introl eq_refl)) as (s2 & E2).
    unfold names_strs, branch_strs in *.
    cbn [flat_map combine fst snd] in *. rewrite E1, E2 in *. cbn [app zip_union combine flat_map fst snd] in *.
    rewrite ?app_nil_r in *. rewrite !in_app_iff.
    assert (K1 : incl s1 L) by (intros y Hy; apply L1; apply in_app_iff; left; exact Hy).
    assert (K2 : incl s2 L) by (intros y Hy; apply L2; apply in_app_iff; left; exact Hy).
    rewrite (col_strs_union T n s1 s2 x).
    + rewrite (IH rb rn); [tauto|lia|lia| | | |].
      * intros i Hi. apply H1. right. exact Hi.
      * intros i Hi. apply H2. right. exact Hi.
      * intros y Hy. apply L1. apply in_app_iff. right. exact Hy.
      * intros y Hy. apply L2. apply in_app_iff. right. exact Hy.
    + intros u v Hu Hv. apply Hp.
      * apply in_app_iff in Hu. destruct Hu as [Hu|Hu]; [apply K1|apply K2]; exact Hu.
      * apply in_app_iff in Hv. destruct Hv as [Hv|Hv]; [apply K1|apply K2]; exact Hv.
Qed.

(** * the statement kinds *)
Lemma q_cols_uq ds i1 f1 c1 i2 f2 c2 :
  forallb is_rtable f1 = true -> forallb is_rtable f2 = true ->
  q_cols (S (q_size (uq i1 f1 c1 i2 f2 c2))) ds [] (uq i1 f1 c1 i2 f2 c2) =
  zip_union (flat_map (item_cols (map (sbind ds) f1)) i1) (flat_map (item_cols (map (sbind ds) f2)) i2).
Proof.
  intros R1 R2.
  assert (E : exists k, q_size (uq i1 f1 c1 i2 f2 c2) = S k) by (eexists; reflexivity).
  destruct E as (k & ->). unfold uq.
  change (q_cols (S (S k)) ds [] (QUnion (QSelect i1 f1 c1 None) (QSelect i2 f2 c2 None)))
    with (zip_union (q_cols (S k) ds [] (QSelect i1 f1 c1 None)) (q_cols (S k) ds [] (QSelect i2 f2 c2 None))).
  rewrite (q_cols_select k ds i1 f1 c1 None R1), (q_cols_select k ds i2 f2 c2 None R2). reflexivity.
Qed.

Lemma flows_names_strs T (names : list string) (qc : list colspec) :
  map (fun p : src * string => (show_src (fst p) ++ ">" ++ snd p)%string)
      (flat_map (fun p : string * colspec => map (fun sr => (sr, (T ++ "." ++ fst p)%string)) (snd (snd p))) (combine names qc)) =
  names_strs T (combine names qc).
Proof.
  rewrite map_flat_map'. unfold names_strs. apply flat_map_ext. intros p. unfold col_strs. rewrite map_map. reflexivity.
Qed.

Lemma spec_branch_strs_eq ds t from l : spec_branch_strs ds t from l = branch_strs (tref_str ds t) (map (sbind ds) from) l.
Proof. reflexivity. Qed.

Lemma spec_union_members ds (s : stmt) t (names : list string) i1 f1 c1 i2 f2 c2 :
  ((names = map item_name i1 /\
    (s = SInsert t None (uq i1 f1 c1 i2 f2 c2) \/ s = SCtas t (uq i1 f1 c1 i2 f2 c2) \/ s = SView t (uq i1 f1 c1 i2 f2 c2)))
   \/ s = SInsert t (Some names) (uq i1 f1 c1 i2 f2 c2)) ->
  forallb is_rtable f1 = true -> forallb is_rtable f2 = true ->
  List.length i1 = List.length i2 -> List.length names = List.length i1 ->
  (forall i, In i i1 -> exists srcs, item_cols (map (sbind ds) f1) i = [(item_name i, srcs)]) ->
  (forall i, In i i2 -> exists srcs, item_cols (map (sbind ds) f2) i = [(item_name i, srcs)]) ->
  (* sources identified by [dedup_src] print the same *)
  (forall a b, In a (branch_srcs ds f1 i1 ++ branch_srcs ds f2 i2) -> In b (branch_srcs ds f1 i1 ++ branch_srcs ds f2 i2) ->
               src_eqb a b = true -> show_src a = show_src b) ->
  forall x, In x (map (fun p => (show_src (fst p) ++ ">" ++ snd p)%string) (spec_flows ds s)) <->
            In x (spec_branch_strs ds t f1 (combine i1 names)) \/ In x (spec_branch_strs ds t f2 (combine i2 names)).
Proof.
  intros Hs R1 R2 Hl Hn H1 H2 Hp x.
  set (A := flat_map (item_cols (map (sbind ds) f1)) i1).
  set (B := flat_map (item_cols (map (sbind ds) f2)) i2).
  assert (LA : List.length A = List.length i1).
  { apply length_flat_single. intros i Hi. destruct (H1 i Hi) as (srcs & E). eexists. exact E. }
  assert (NA : map fst A = map item_name i1).
  { unfold A. clear -H1. induction i1 as [|a r IH]; [reflexivity|]. cbn [flat_map map]. destruct (H1 a (or_introl eq_refl)) as (srcs & ->).
    cbn [app map fst]. rewrite IH; [reflexivity|]. intros i Hi. apply H1. right. exact Hi. }
  assert (E : map (fun p : src * string => (show_src (fst p) ++ ">" ++ snd p)%string) (spec_flows ds s) =
              names_strs (tref_str ds t) (combine names (zip_union A B))).
  { rewrite <- flows_names_strs. f_equal.
    destruct Hs as [[En [->|[->| ->]]]| ->]; unfold spec_flows; rewrite (q_cols_uq ds i1 f1 c1 i2 f2 c2 R1 R2); fold A B.
    - rewrite zip_union_names, NA, En. reflexivity.
    - rewrite <- combine_names_flows, zip_union_names, NA, En. reflexivity.
    - rewrite <- combine_names_flows, zip_union_names, NA, En. reflexivity.
    - rewrite zip_union_length, LA, Hn, Nat.eqb_refl. reflexivity. }
  rewrite E, !spec_branch_strs_eq. unfold A, B.
  apply (union_core (tref_str ds t) (map (sbind ds) f1) (map (sbind ds) f2) (branch_srcs ds f1 i1 ++ branch_srcs ds f2 i2) x Hp
           i1 i2 names Hl Hn H1 H2).
  - apply incl_appl. apply incl_refl.
  - apply incl_appr. apply incl_refl.
Qed.
Print Assumptions spec_union_members.

(** * non-vacuity: all hypotheses of [spec_union_members] hold on concrete instances (a qualified alias, an aliased item,
      an unresolved column of a two-table branch; the three statement kinds and the INSERT with a column list) *)
Definition nv_i1 : list item := [ci None "a"; cia (Some "x") "b" "bb"; ci None "c"].
Definition nv_i2 : list item := [ci None "a"; ci None "d"; ci None "c"].
Definition nv_f1 : list rel := [tba "t1" "x"].
Definition nv_f2 : list rel := [tb "t1"; tb "t2"].
Definition nv_t : tref := (None, "tgt").

Definition spec_union_hyps ds (s : stmt) t (names : list string) i1 f1 c1 i2 f2 c2 : Prop :=
  ((names = map item_name i1 /\
    (s = SInsert t None (uq i1 f1 c1 i2 f2 c2) \/ s = SCtas t (uq i1 f1 c1 i2 f2 c2) \/ s = SView t (uq i1 f1 c1 i2 f2 c2)))
   \/ s = SInsert t (Some names) (uq i1 f1 c1 i2 f2 c2)) /\
  forallb is_rtable f1 = true /\ forallb is_rtable f2 = true /\
  List.length i1 = List.length i2 /\ List.length names = List.length i1 /\
  (forall i, In i i1 -> exists srcs, item_cols (map (sbind ds) f1) i = [(item_name i, srcs)]) /\
  (forall i, In i i2 -> exists srcs, item_cols (map (sbind ds) f2) i = [(item_name i, srcs)]) /\
  (forall a b, In a (branch_srcs ds f1 i1 ++ branch_srcs ds f2 i2) -> In b (branch_srcs ds f1 i1 ++ branch_srcs ds f2 i2) ->
               src_eqb a b = true -> show_src a = show_src b).

Lemma spec_union_members_of_hyps ds s t names i1 f1 c1 i2 f2 c2 :
  spec_union_hyps ds s t names i1 f1 c1 i2 f2 c2 ->
  forall x, In x (map (fun p => (show_src (fst p) ++ ">" ++ snd p)%string) (spec_flows ds s)) <->
            In x (spec_branch_strs ds t f1 (combine i1 names)) \/ In x (spec_branch_strs ds t f2 (combine i2 names)).
Proof.
  intros (Hs & R1 & R2 & Hl & Hn & H1 & H2 & Hp). exact (spec_union_members ds s t names i1 f1 c1 i2 f2 c2 Hs R1 R2 Hl Hn H1 H2 Hp).
Qed.

Lemma nv_common ds :
  (forall i, In i nv_i1 -> exists srcs, item_cols (map (sbind ds) nv_f1) i = [(item_name i, srcs)]) /\
  (forall i, In i nv_i2 -> exists srcs, item_cols (map (sbind ds) nv_f2) i = [(item_name i, srcs)]) /\
  (ds = "" ->
   forall a b, In a (branch_srcs ds nv_f1 nv_i1 ++ branch_srcs ds nv_f2 nv_i2) -> In b (branch_srcs ds nv_f1 nv_i1 ++ branch_srcs ds nv_f2 nv_i2) ->
               src_eqb a b = true -> show_src a = show_src b).
Proof.
  split; [|split].
  - intros i [<-|[<-|[<-|[]]]]; eexists; reflexivity.
  - intros i [<-|[<-|[<-|[]]]]; eexists; reflexivity.
  - intros -> a b Ha Hb. vm_compute in Ha, Hb.
    repeat (destruct Ha as [<-|Ha]; [repeat (destruct Hb as [<-|Hb]; [vm_compute; intros E; first [discriminate E|reflexivity]|]); destruct Hb|]).
    destruct Ha.
Qed.

Example spec_union_members_nonvacuous_ctas :
  spec_union_hyps "" (SCtas nv_t (uq nv_i1 nv_f1 false nv_i2 nv_f2 false)) nv_t ["a"; "bb"; "c"] nv_i1 nv_f1 false nv_i2 nv_f2 false.
Proof.
  destruct (nv_common "") as (H1 & H2 & Hp).
  split; [left; split; [reflexivity|right; left; reflexivity]|]. repeat (split; [reflexivity|]).
  split; [exact H1|]. split; [exact H2|exact (Hp eq_refl)].
Qed.

Example spec_union_members_nonvacuous_insert :
  spec_union_hyps "" (SInsert nv_t None (uq nv_i1 nv_f1 false nv_i2 nv_f2 false)) nv_t ["a"; "bb"; "c"] nv_i1 nv_f1 false nv_i2 nv_f2 false.
Proof.
  destruct (nv_common "") as (H1 & H2 & Hp).
  split; [left; split; [reflexivity|left; reflexivity]|]. repeat (split; [reflexivity|]).
  split; [exact H1|]. split; [exact H2|exact (Hp eq_refl)].
Qed.

Example spec_union_members_nonvacuous_insert_cols :
  spec_union_hyps "" (SInsert nv_t (Some ["p"; "q"; "r"]) (uq nv_i1 nv_f1 false nv_i2 nv_f2 false)) nv_t ["p"; "q"; "r"] nv_i1 nv_f1 false nv_i2 nv_f2 false.
Proof.
  destruct (nv_common "") as (H1 & H2 & Hp).
  split; [right; reflexivity|]. repeat (split; [reflexivity|]).
  split; [exact H1|]. split; [exact H2|exact (Hp eq_refl)].
Qed.

(** the conclusion on the instance, computed: both sides have the same members, and the union really merges
    (position 2 receives [t1.b] from the first branch and the unresolved [d] from the second) *)
Example spec_union_members_instance :
  sort_strings (map (fun p => (show_src (fst p) ++ ">" ++ snd p)%string)
                    (spec_flows "" (SInsert nv_t (Some ["p"; "q"; "r"]) (uq nv_i1 nv_f1 false nv_i2 nv_f2 false)))) =
  sort_strings (spec_branch_strs "" nv_t nv_f1 (combine nv_i1 ["p"; "q"; "r"]) ++ spec_branch_strs "" nv_t nv_f2 (combine nv_i2 ["p"; "q"; "r"])) /\
  In "d{<default>.t1,<default>.t2}><default>.tgt.q"
     (map (fun p => (show_src (fst p) ++ ">" ++ snd p)%string)
          (spec_flows "" (SInsert nv_t (Some ["p"; "q"; "r"]) (uq nv_i1 nv_f1 false nv_i2 nv_f2 false)))).
Proof. split; [vm_compute; reflexivity|]. apply (spec_union_members_of_hyps _ _ _ _ _ _ _ _ _ _ spec_union_members_nonvacuous_insert_cols). right. vm_compute. tauto. Qed.
Print Assumptions spec_union_members_instance.
