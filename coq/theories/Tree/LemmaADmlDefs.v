(** Lemma A (tables) for UPDATE, MERGE and SELECT ... INTO: statement and executable guards.
    The proofs are in Tree/LemmaADml.v. *)
From SV Require Import Tree.RenderDml Tree.LemmaA Tree.LemmaAProofs Ident.Escape.

Definition opt_id_ok (a : option string) : bool := match a with Some x => id_ok x | None => true end.
Definition setc_ok (s : setc) : bool := id_ok (fst (fst s)) && opt_id_ok (snd (fst s)) && id_ok (snd s).
Definition sets_ok (sets : list setc) : bool := forallb setc_ok sets.

(** an embedded query in the fragment of [lemma_A_tables_restricted] (WITH-free part): plain column / star items,
    tables and derived tables, WHERE-IN sub-queries, set operations between plain SELECTs *)
Definition qfrag_ok (k : nat) (q : query) : bool := frag_query k q && names_ok_q k [] q && qshape k q.

(** the FROM list of an UPDATE may be absent *)
Definition from_ok (k : nat) (from : list rel) (cj : bool) : bool :=
  match from with [] => true | _ => qfrag_ok k (QSelect [] from cj None) end.

Definition ins_ok (ins : option (list string * list (option string * string))) : bool :=
  match ins with
  | None => true
  | Some (cols, vals) => negb (match cols with [] => true | _ => false end) && negb (match vals with [] => true | _ => false end)
                         && forallb id_ok cols && forallb (fun v => opt_id_ok (fst v) && id_ok (snd v)) vals
  end.

(** everything but the WHERE clause of an UPDATE (which the extractor never looks at) *)
Definition dml_ok_base (d : dml) : bool :=
  let k := S (q_size (dml_query d)) in
  tref_ok (dml_target d) &&
  match d with
  | DUpdate _ al sets from cj _ =>
      opt_id_ok al && negb (match sets with [] => true | _ => false end) && sets_ok sets && from_ok k from cj
  | DMerge _ al src upd ins =>
      opt_id_ok al && sets_ok upd && ins_ok ins
      && negb (match upd, ins with [], None => true | _, _ => false end)
      && qfrag_ok k (QSelect [] [src] false None)
  | DSelectInto _ items from cj wh => qfrag_ok k (QSelect items from cj wh)
  end.

(** the guard of the theorem: an UPDATE has no WHERE-IN sub-query (see [lemma_A_dml_where_refuted]) *)
Definition dml_ok (d : dml) : bool :=
  dml_ok_base d && match d with DUpdate _ _ _ _ _ (Some _) => false | _ => true end.

Definition lemma_A_dml_statement (guard : dml -> bool) : Prop :=
  forall noise e d,
    noise_ok noise = true -> env_ok e = true -> guard d = true ->
    stmt_reads (analyze e false (r_dml noise d)) = sort_strings (dml_reads (e_cfg e) d) /\
    stmt_writes (analyze e false (r_dml noise d)) = sort_strings (dml_writes (e_cfg e) d).

(** what the UPDATE extractor reports as read: the FROM relations only *)
Definition upd_impl_reads (ds : string) (d : dml) : list string :=
  match d with
  | DUpdate _ _ _ from cj _ => dedup_s (q_reads (S (q_size (dml_query d))) ds [] (QSelect [] from cj None)) []
  | _ => dml_reads ds d
  end.

(** executable form, for testing before proving *)
Definition lemma_A_dml_check (guard : dml -> bool) (noise : list seg) (e : env) (d : dml) : string :=
  if negb (noise_ok noise && env_ok e && guard d) then "outside"
  else if list_eqb (stmt_reads (analyze e false (r_dml noise d))) (sort_strings (dml_reads (e_cfg e) d))
          && list_eqb (stmt_writes (analyze e false (r_dml noise d))) (sort_strings (dml_writes (e_cfg e) d))
       then "holds" else "FAILS".

Definition ws : seg := Seg "whitespace" "whitespace" ["whitespace"; "raw"] " " true false false [].
Definition cmt : seg := Seg "comment" "inline_comment" ["comment"; "inline_comment"; "raw"] "-- x" false true false [].
Definition ind : seg := Seg "indent" "indent" ["indent"; "meta"; "raw"] "" false false true [].
Definition noise3 : list seg := [ws; cmt; ind].
