(** L4: SubQueryLineageHolder (core/holders.py), Column.to_source_columns
    (core/models.py) and SourceHandlerMixin.end_of_query_cleanup
    (core/parser/__init__.py, LATERAL_COLUMN_ALIAS_REFERENCE = False) on the graph model. *)
From SV Require Export Tree.Models.

Definition EValue := "ValueError".

Definition holder_nodes (g : graph) (k : string) : list dataset :=
  flat_map (fun p => match fst p with NData d => if attr_true k (snd p) then [d] else [] | _ => [] end) (gnodes g).
Definition sq_read (g : graph) := holder_nodes g "read".
Definition sq_write (g : graph) := holder_nodes g "write".
Definition sq_cte (g : graph) := holder_nodes g "cte".

Definition has_alias_attr (d : dataset) : bool := match dk d with KPath => false | _ => true end.
Definition e_has_alias : eattrs := {| etype := "has_alias"; eindex := None |}.
Definition e_has_column (i : option nat) : eattrs := {| etype := "has_column"; eindex := i |}.

Definition add_read (g : graph) (v : dataset) : graph :=
  let g1 := add_node g (NData v) [("read", true)] in
  if has_alias_attr v then add_edge g1 (NData v) (NStr (dalias v)) e_has_alias else g1.
Definition add_write (g : graph) (v : dataset) : graph := add_node g (NData v) [("write", true)].
Definition add_cte (g : graph) (v : dataset) : graph := add_node g (NData v) [("cte", true)].

Definition memd (d : dataset) (l : list dataset) : bool := existsb (dataset_eqb d) l.

Definition get_target_table (g : graph) : option dataset :=
  match filter (fun d => negb (memd d (sq_read g))) (sq_write g) with d :: _ => Some d | [] => None end.

(** stable insertion sort by index *)
Fixpoint insert_by_idx (x : column * nat) (l : list (column * nat)) : list (column * nat) :=
  match l with
  | [] => [x]
  | y :: r => if Nat.ltb (snd x) (snd y) then x :: l else y :: insert_by_idx x r
  end.
Definition sort_by_idx (l : list (column * nat)) : list (column * nat) :=
  fold_left (fun acc x => insert_by_idx x acc) l [].

Definition write_columns (g : graph) : list column :=
  match get_target_table g with
  | None => []
  | Some t =>
      map fst (sort_by_idx
        (flat_map (fun e => if String.eqb (etype (snd e)) "has_column"
                            then match snd (fst e) with
                                 | NCol c => [(c, match eindex (snd e) with Some i => i | None => 0 end)]
                                 | _ => []   (* a non-column has_column target cannot occur *)
                                 end
                            else []) (out_edges g (NData t))))
  end.

(** column.parent = d : add to the set of parents (kept sorted by printed name) *)
Fixpoint insert_parent (d : dataset) (l : list dataset) : list dataset :=
  match l with
  | [] => [d]
  | x :: r => if String.leb (dstr d) (dstr x) && negb (String.eqb (dstr d) (dstr x)) then d :: l else x :: insert_parent d r
  end.
Definition add_parent (c : column) (d : dataset) : column :=
  if memd d (cparents c) then c else {| craw := craw c; cparents := insert_parent d (cparents c) |}.

Definition add_write_column (g : graph) (cols : list column) : graph :=
  match sq_write g with
  | [] => g
  | tgt :: _ =>
      fst (fold_left (fun acc c =>
                        let '(g', idx) := acc in
                        (add_edge g' (NData tgt) (NCol (add_parent c tgt)) (e_has_column (Some idx)), S idx))
                     cols (g, 0))
  end.

Definition add_column_lineage (g : graph) (src tgt : column) : res graph :=
  let g1 := add_edge g (NCol src) (NCol tgt) lineage_edge in
  match col_parent tgt with
  | None => Err EValue
  | Some tp =>
      let g2 := add_edge g1 (NData tp) (NCol tgt) (e_has_column None) in
      Ok (match col_parent src with
          | Some sp => add_edge g2 (NData sp) (NCol src) (e_has_column None)
          | None => g2
          end)
  end.

Definition get_table_columns (g : graph) (t : dataset) : list column :=
  flat_map (fun e => if String.eqb (etype (snd e)) "has_column"
                     then match snd (fst e) with
                          | NCol c => if String.eqb (craw c) "*" then [] else [c]
                          | _ => []
                          end
                     else []) (out_edges g (NData t)).

Definition get_source_columns (g : graph) (n : column) : list column :=
  flat_map (fun e => if String.eqb (etype (snd e)) "lineage"
                     then match fst (fst e) with NCol c => [c] | _ => [] end
                     else []) (in_edges g (NCol n)).

(** graph.edges in networkx order: by source node, then insertion *)
Definition edges_nx (g : graph) : list (node * node * eattrs) :=
  flat_map (fun p => out_edges g (fst p)) (gnodes g).

(** dict with str keys: update keeps the position of an existing key *)
Fixpoint dict_set (k : string) (v : dataset) (l : list (string * dataset)) : list (string * dataset) :=
  match l with
  | [] => [(k, v)]
  | (k', v') :: r => if String.eqb k k' then (k, v) :: r else (k', v') :: dict_set k v r
  end.

Definition get_alias_mapping (g : graph) (group : list dataset) : list (string * dataset) :=
  let alias_map :=
    fold_left (fun m e =>
                 if String.eqb (etype (snd e)) "has_alias"
                 then match fst (fst e), snd (fst e) with
                      | NData src, NStr a => if memd src group then dict_set a src m else m
                      | _, _ => m
                      end
                 else m) (edges_nx g) [] in
  let tables := filter (fun d => match dk d with KTable => true | _ => false end) group in
  let m1 := fold_left (fun m t => dict_set (draw t) t m) tables alias_map in
  fold_left (fun m t => dict_set (dstr t) t m) tables m1.

Fixpoint dedup_ds (l seen : list dataset) : list dataset :=
  match l with
  | [] => []
  | d :: r => if memd d seen then dedup_ds r seen else d :: dedup_ds r (d :: seen)
  end.
Fixpoint dedup_cols (l seen : list column) : list column :=
  match l with
  | [] => []
  | c :: r => if existsb (col_eqb c) seen then dedup_cols r seen else c :: dedup_cols r (c :: seen)
  end.

(** Column.to_source_columns(alias_mapping) *)
Definition to_source_columns (e : env) (x : xcol) (am : list (string * dataset)) : res (list column) :=
  let values := dedup_ds (map snd am) [] in
  do cols <- concat_res (map (fun sq =>
    let '(src_col, qualifier) := sq in
    let name := escape src_col in      (* _to_src_col builds Column(name): normalised once more *)
    match qualifier with
    | None =>
        if String.eqb src_col "*"
        then Ok (map (fun t => {| craw := name; cparents := [t] |}) values)
        else Ok [fold_left add_parent values {| craw := name; cparents := [] |}]
    | Some q =>
        match assoc_list q am with
        | Some t => Ok [{| craw := name; cparents := [t] |}]
        | None => do t <- mk_table e q None None; Ok [{| craw := name; cparents := [t] |}]
        end
    end) (xsrc x));
  Ok (dedup_cols cols []).

(** metadata_provider.get_table_columns(table) as Column objects *)
Definition provider_columns (e : env) (t : dataset) : list column :=
  map (fun cn => {| craw := escape cn; cparents := [t] |}) (provider_cols (e_provider e) t).

Definition replace_wildcard (g : graph) (tgt : dataset) (src_cols : list column) (tgt_wild src_wild : column) : res graph :=
  let target_columns := get_table_columns g tgt in
  do g1 <- fold_left (fun acc sc =>
                        do g' <- acc;
                        let newc := {| craw := escape (craw sc); cparents := [tgt] |} in
                        if existsb (col_eqb newc) target_columns || String.eqb (craw sc) "*" then Ok g'
                        else
                          match col_parent sc with
                          | None => Err EValue
                          | Some sp =>
                              Ok (add_edge (add_edge (add_edge g' (NData tgt) (NCol newc) (e_has_column None))
                                                     (NData sp) (NCol sc) (e_has_column None))
                                           (NCol sc) (NCol newc) lineage_edge)
                          end) src_cols (Ok g);
  let g2 := if has_node g1 (NCol tgt_wild) then remove_node g1 (NCol tgt_wild) else g1 in
  Ok (if has_node g2 (NCol src_wild) then remove_node g2 (NCol src_wild) else g2).

Definition expand_wildcard (e : env) (g : graph) : res graph :=
  match get_target_table g with
  | None => Ok g
  | Some tgt =>
      fold_left (fun acc c =>
        do g' <- acc;
        if String.eqb (craw c) "*" then
          fold_left (fun acc2 sw =>
            do g'' <- acc2;
            match col_parent sw with
            | None => Ok g''
            | Some st =>
                let cols := match dk st with
                            | KSubq => get_table_columns g'' st
                            | KTable => if p_truthy (e_provider e) then provider_columns e st else []
                            | KPath => []
                            end in
                match cols with [] => Ok g'' | _ => replace_wildcard g'' tgt cols c sw end
            end) (get_source_columns g' c) (Ok g')
        else Ok g') (write_columns g) (Ok g)
  end.

(** list slicing xs[a:b] *)
Definition slice {A} (l : list A) (a b : nat) : list A := firstn (b - a) (skipn a l).

(** end_of_query_cleanup *)
Definition end_of_query_cleanup (e : env) (g : graph) (tables : list dataset) (columns : list xcol)
           (barriers : list (nat * nat)) : res graph :=
  let g0 := fold_left add_read tables g in
  let bs := barriers ++ [(List.length columns, List.length tables)] in
  let fix groups (prev : nat * nat) (l : list (nat * nat)) : list (list xcol * list dataset) :=
      match l with
      | [] => []
      | b :: r => (slice columns (fst prev) (fst b), slice tables (snd prev) (snd b)) :: groups b r
      end in
  fold_left (fun acc grp =>
    do g1 <- acc;
    let '(col_grp, tbl_grp) := grp in
    match sq_write g1 with
    | [] => Ok g1
    | _ :: _ :: _ => Err ELineage
    | [tgt_tbl] =>
        fst (fold_left (fun acc2 x =>
          let '(rg, idx) := acc2 in
          (do g2 <- rg;
           let own := add_parent (xc x) tgt_tbl in
           do srcs <- to_source_columns e x (get_alias_mapping g2 tbl_grp);
           (* the target is looked up once per source column, on the holder as it is at that moment;
              lineage edges are added only after all sources of this column are known *)
           let tgt := match srcs with
                      | [] => own
                      | _ => let wc := write_columns g2 in
                             if Nat.eqb (List.length wc) (List.length col_grp)
                             then match nth_error wc idx with Some c => c | None => own end
                             else own
                      end in
           fold_left (fun acc3 s => do g3 <- acc3; add_column_lineage g3 s tgt) srcs (Ok g2),
           S idx)) col_grp (Ok g1, 0))
    end) (groups (0, 0) bs) (Ok g0).
