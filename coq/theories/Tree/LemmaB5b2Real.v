(** Lemma B, step 5b, second round: the composed holder of a UNION statement realises the flows of both branches when
    the same table may be read by both branches under different aliases (stored objects known up to Python equality). *)
From Coq Require Import Permutation Lia.
From SV Require Import Tree.Render Tree.LemmaA Tree.LemmaAProofs Tree.LemmaB Tree.LemmaBProofs Tree.LemmaB5a Tree.LemmaB5bDefs Tree.LemmaB5bCore Tree.LemmaB5b2Defs
     Ident.Escape Ident.EscapeProofs Holder.PathProofs Holder.SortProofs.
From Coq Require Import String List Bool Arith.
Import ListNotations.
Open Scope string_scope.
Open Scope list_scope.

Theorem holder_realises_e d ts (UN : list (list dataset * string)) (l : list (list column * column)) gb sub :
  tabs_ok d ts -> dk d = KTable -> UN_ok ts UN ->
  (* the NOMINAL sources: a column of one table of the holder, or the canonical unresolved column [Ucol grp nm] *)
  (forall p, In p l -> (exists nm0, snd p = Wcol d nm0) /\
     forall s, In s (fst p) -> (exists v, In v ts /\ cparents s = [v]) \/
                             (exists grp nm, In (grp, nm) UN /\ s = Ucol grp nm /\ escape nm = nm /\ 2 <= List.length (cparents s))) ->
  (forall grp nm, In (grp, nm) UN -> exists p, In p l /\ In (Ucol grp nm) (fst p)) ->
  (forall p' s' grp nm v, In (grp, nm) UN -> In p' l -> In s' (fst p') -> cparents s' = [v] -> craw s' <> nm) ->
  lits_in (QK (d :: ts) (PCe d ts UN)) gb -> drop_free gb ->
  (forall e0, In e0 (gedges gb) -> String.eqb (etype (snd e0)) "rename" = false) ->
  (forall x y, is_column x = true -> has_edge gb x y = false) ->
  (forall p c, In p ts -> has_edge gb (NData p) (NCol c) = false) ->
  ext gb sub (map (fun v => (NData v, NStr (dalias v))) ts ++ SE d l) ->
  sel_inv (PCe d ts UN) d ts sub ->
  let G := compose gb sub in
  clean_holder G /\ lits_in (unres_ok G) G /\ realises G (FLW l) /\ flows_ok (FLW l).
Proof.
  intros Hto Hd [HU HUf] HX HNM HNQ Lb Db Hbe Hbc Hbd X Hinv G.
  assert (Htab : forall v, In v ts -> tab_ok v).
  { intros v Hv. split; [apply (to_tables _ _ Hto)|apply (to_dok _ _ Hto)]; exact Hv. }
  assert (HL2 : forall grp nm, In (grp, nm) UN -> 2 <= List.length (cparents (Ucol grp nm))).
  { intros grp nm Hnm. destruct (HNM grp nm Hnm) as (x & Hx & Hs).
    destruct (proj2 (HX x Hx) _ Hs) as [(v & Hv & Ev)|(grp' & nm' & _ & _ & _ & Hl')]; [|exact Hl'].
    exfalso. apply (HNQ x _ grp nm v Hnm Hx Hs Ev). exact (proj1 (Ucol_props grp nm (proj1 (HU grp nm Hnm)))). }
  assert (HE : forall x y, has_edge G x y = has_edge gb x y || (ematch x y (map (fun v => (NData v, NStr (dalias v))) ts) || ematch x y (SE d l))).
  { intros x y. unfold G. rewrite has_edge_compose, (ext_edges _ _ _ X), ematch_app. destruct (has_edge gb x y); reflexivity. }
  assert (HEc : forall x y, is_column x = true ->
                has_edge G x y = ematch x y (map (fun f : flow => (NCol (fst f), NCol (snd f))) (FLW l))).
  { intros x y Hx. rewrite HE, (Hbc x y Hx), (ematch_alias_col x y ts Hx), (ematch_SE_col d l x y Hx). reflexivity. }
  assert (HF : forall f, In f (FLW l) ->
               exists x s, In x l /\ In s (fst x) /\ f = (s, snd x) /\
                           ((exists v, In v ts /\ cparents s = [v]) \/
                            (exists grp nm, In (grp, nm) UN /\ s = Ucol grp nm /\ escape nm = nm /\ 2 <= List.length (cparents s))) /\
                           (exists nm0, snd x = Wcol d nm0)).
  { intros f Hf. unfold FLW in Hf. apply in_flat_map in Hf. destruct Hf as (x & Hx & Hf). apply in_map_iff in Hf.
    destruct Hf as (s & <- & Hs). destruct (HX x Hx) as [H1 H2].
    exists x, s. repeat split; auto. }
  assert (LG : lits_in (QK (d :: ts) (PCe d ts UN)) G) by (apply lits_compose; [exact Lb|exact (si_lits _ _ _ _ Hinv)]).
  assert (Rc : forall f, In f (FLW l) -> has_edge G (NCol (fst f)) (NCol (snd f)) = true).
  { intros f Hf. rewrite HEc by reflexivity. unfold ematch. apply existsb_exists. exists (NCol (fst f), NCol (snd f)).
    split; [apply in_map_iff; exists f; auto|]. cbn [fst snd]. rewrite !node_eqb_refl. reflexivity. }
  split; [|split; [|split]].
  - split.
    + intros n a Hin. destruct (attr_true "drop" a) eqn:E; [|reflexivity]. exfalso. apply attr_true_In in E.
      exact (drop_free_compose gb sub Db (si_drop _ _ _ _ Hinv) n a Hin E).
    + apply (etype_compose (fun s => String.eqb s "rename" = false)); [exact Hbe|].
      intros e0 He0. pose proof (si_edges _ _ _ _ Hinv e0 He0) as Hi. unfold edge_inv in Hi.
      destruct (snd (fst e0)); [destruct Hi as [-> | ->]; reflexivity|destruct Hi as [-> | ->]; reflexivity|destruct Hi as [-> _]; reflexivity].
  - apply (lits_weaken (QK (d :: ts) (PCe d ts UN))); [|exact LG]. intros n Hn u Hu. destruct n as [|c|]; cbn [unresolved] in Hu; try discriminate.
    cbn [QK] in Hn. destruct Hn as [(p & Ep & _)|(grp & nm & Hnm & Hc & Enm & Hlen & Hpar & Hcov & Hnd)]; [rewrite Ep in Hu; cbn in Hu; discriminate|].
    destruct (Nat.ltb 1 (List.length (cparents c))); [|discriminate]. inversion Hu. subst u. clear Hu.
    destruct (HU grp nm Hnm) as [Hinj Hsub].
    destruct (Ucol_props grp nm Hinj) as (U1 & _ & U3). split.
    + unfold candidates_in_graph. apply flat_map_none. intros p Hp. rewrite Hc.
      destruct (has_edge G (NData p) (NCol (mk_col nm p))) eqn:Ehe; [|reflexivity]. exfalso.
      destruct (Hpar p Hp) as (Hpts & w & Hw & Epw).
      rewrite HE, (Hbd p _ Hpts), ematch_alias_ycol in Ehe. cbn [orb] in Ehe.
      apply ematch_SE_data in Ehe. destruct Ehe as (x' & s' & Hx' & Hs' & [[K _]|(sp & Esp & K1 & K2)]).
      * rewrite (to_target _ _ Hto p Hpts) in K. discriminate.
      * destruct (proj2 (HX x' Hx') s' Hs') as [(v & Hv & Ev)|(grp' & nm' & _ & -> & _ & Hl')].
        -- unfold col_parent in Esp. rewrite Ev in Esp. inversion Esp. subst sp.
           pose proof (tab_ok_eqb_dstr p v (Htab p Hpts) (Htab v Hv) K1) as Epv.
           cbn [node_eqb] in K2. unfold col_eqb in K2. apply andb_true_iff in K2. destruct K2 as [K2 _]. apply String.eqb_eq in K2.
           unfold col_str, col_parent, mk_col in K2. cbn [cparents craw] in K2.
           rewrite Ev, (to_tables _ _ Hto p Hpts), (to_tables _ _ Hto v Hv), Enm, Epv in K2.
           apply append_cancel in K2. apply append_cancel in K2. apply (HNQ x' s' grp nm v Hnm Hx' Hs' Ev). symmetry. exact K2.
        -- rewrite (col_parent_none _ Hl') in Esp. discriminate.
    + destruct (HNM grp nm Hnm) as (x & Hx & Hs). exists (NCol (snd x)).
      assert (Eq : node_eqb (NCol c) (NCol (Ucol grp nm)) = true).
      { cbn [node_eqb]. unfold col_eqb, col_str. rewrite (col_parent_none _ Hlen), (col_parent_none _ (HL2 grp nm Hnm)), Hc, U1.
        rewrite String.eqb_refl. reflexivity. }
      rewrite (has_edge_cong_l G _ _ (NCol (snd x)) Eq).
      apply (Rc (Ucol grp nm, snd x)). unfold FLW. apply in_flat_map. exists x. split; [exact Hx|]. apply in_map_iff. exists (Ucol grp nm). auto.
  - constructor.
    + intros x y Hx Hxy. rewrite (HEc x y Hx) in Hxy. unfold ematch in Hxy. apply existsb_exists in Hxy.
      destruct Hxy as (p & Hp & E). apply in_map_iff in Hp. destruct Hp as (f & <- & Hf). cbn [fst snd] in E.
      apply andb_true_iff in E. exists f. tauto.
    + exact Rc.
    + intros f Hf. destruct (HF f Hf) as (x & s & Hx & Hs & -> & _).
      assert (Hin : In (NCol s, NCol (snd x)) (map (fun v => (NData v, NStr (dalias v))) ts ++ SE d l)).
      { apply in_app_iff. right. unfold SE. apply in_flat_map. exists x. split; [exact Hx|]. apply in_flat_map. exists s.
        split; [exact Hs|]. left. reflexivity. }
      destruct (ext_new _ _ _ X _ Hin) as [N1 N2]. cbn [fst snd] in *. unfold G. rewrite !has_node_compose, N1, N2, !orb_true_r. auto.
    + apply (lits_weaken (QK (d :: ts) (PCe d ts UN))); [|exact LG]. intros n Hn f Hf E.
      destruct (HF f Hf) as (x & s & _ & _ & -> & [(v & _ & Ev)|(grp & nm & Hgn & -> & _ & Hl)] & _); cbn [fst] in *.
      * apply (src_str_eqb_single n s v); [unfold col_parent; rewrite Ev; reflexivity|exact E].
      * destruct n as [|c|]; cbn [node_eqb] in E; try discriminate. cbn [QK] in Hn.
        unfold col_eqb in E. apply andb_true_iff in E. destruct E as [E1 E2]. rewrite (col_parent_none _ Hl) in E2.
        destruct Hn as [(p & Ep & _)|(grp' & nm' & Hgn' & Hc & Enm' & Hl' & Hpar & Hcov & Hnd)].
        -- unfold col_parent in E2. rewrite Ep in E2. discriminate.
        -- apply String.eqb_eq in E1. unfold col_str in E1. rewrite (col_parent_none _ Hl), (col_parent_none _ Hl') in E1.
           destruct (HU grp nm Hgn) as [Hinj Hsub]. destruct (Ucol_props grp nm Hinj) as (U1 & U2 & U3).
           rewrite U1, Hc in E1. rewrite E1 in Hgn', Hc, Enm'. clear E1. pose proof (HUf grp' grp nm Hgn' Hgn) as Eg. subst grp'.
           cbn [src_str]. rewrite (col_parent_none _ Hl), (col_parent_none _ Hl'), Hc, U1.
           rewrite (sort_strings_set_eq (map dstr (cparents c)) (map dstr (cparents (Ucol grp nm)))); [reflexivity|exact Hnd| |].
           ++ apply ssorted_NoDup. apply dsorted_ssorted. exact U2.
           ++ intros z. rewrite !in_map_iff. split.
              ** intros (p & Ez & Hp). destruct (Hpar p Hp) as (Hpts & w & Hw & Epw). exists w. split; [|apply U3; exact Hw].
                 rewrite <- Ez. symmetry. apply tab_ok_eqb_dstr; [exact (Htab p Hpts)|exact (Htab w (Hsub w Hw))|exact Epw].
              ** intros (w & Ez & Hw). apply U3 in Hw. destruct (Hcov w Hw) as (p & Hp & Epw). exists p. split; [|exact Hp].
                 rewrite <- Ez. apply tab_ok_eqb_dstr; [exact (Htab p (proj1 (Hpar p Hp)))|exact (Htab w (Hsub w Hw))|exact Epw].
  - split.
    + intros f f' Hf Hf'. destruct (HF f Hf) as (x & s & _ & _ & -> & _ & (nm0 & Eo)).
      destruct (HF f' Hf') as (x' & s' & _ & _ & -> & Hk & _). cbn [fst snd]. rewrite Eo.
      unfold col_eqb. destruct Hk as [(v' & Hv' & Ev')|(grp & nm & _ & -> & _ & Hl)].
      * unfold col_parent. cbn [Wcol cparents]. rewrite Ev'. cbn [opt_dataset_eqb].
        rewrite dataset_eqb_sym, (to_target _ _ Hto v' Hv'). apply andb_false_r.
      * rewrite (col_parent_none _ Hl). unfold col_parent at 1. cbn [Wcol cparents opt_dataset_eqb]. apply andb_false_r.
    + intros f Hf. destruct (HF f Hf) as (x & s & _ & _ & -> & _ & (nm0 & Eo)). cbn [snd]. rewrite Eo.
      cbn [parent_is col_parent Wcol cparents]. rewrite Hd. reflexivity.
Qed.

Print Assumptions holder_realises_e.

(* ================================================================== *)
(** * Non-vacuity: INSERT INTO s.tgt SELECT x, ... FROM s.t a, s.u u UNION SELECT y FROM s.t b, s.w w.
      The table s.t is read by both branches under different aliases; the unresolved column y of the second branch is stored
      with the first stored object of s.t (alias a) as parent, its nominal source carries the object with alias b. *)

Definition eat (v : Graph.node) : eattrs :=
  match v with NStr _ => {| etype := "has_alias"; eindex := None |} | _ => {| etype := "lineage"; eindex := None |} end.
Definition build_sub (EL : list (Graph.node * Graph.node)) (g : graph) : graph :=
  fold_left (fun g p => add_edge g (fst p) (snd p) (eat (snd p))) EL g.

Lemma build_sub_ok (Q : Graph.node -> Prop) ts EL : forall g,
  lits_in Q g -> edges_inv ts g -> drop_free g ->
  (forall p, In p EL -> Q (fst p) /\ Q (snd p) /\ new_edge_ok ts (fst p) (snd p) (eat (snd p))) ->
  ext g (build_sub EL g) EL /\ lits_in Q (build_sub EL g) /\ edges_inv ts (build_sub EL g) /\ drop_free (build_sub EL g).
Proof.
  induction EL as [|p r IH]; intros g Hl He Hd H; cbn [build_sub fold_left].
  - split; [apply ext_refl|auto].
  - destruct (H p (or_introl eq_refl)) as (Q1 & Q2 & N).
    destruct (IH (add_edge g (fst p) (snd p) (eat (snd p)))) as (A & B & C & D).
    + apply lits_add_edge; assumption.
    + apply edges_inv_add_edge; assumption.
    + apply drop_free_add_edge; assumption.
    + intros q Hq. apply H. right. exact Hq.
    + split; [|auto]. change (p :: r) with ([p] ++ r). apply (ext_trans _ _ _ _ _ (ext_add_edge g (fst p) (snd p) (eat (snd p)))) in A.
      destruct p. exact A.
Qed.

Lemma SE_nodes (PC : column -> Prop) d ts l :
  (forall p, In p l -> PC (snd p) /\ forall s, In s (fst p) -> PC s /\ forall sp, col_parent s = Some sp -> In sp ts) ->
  forall e, In e (SE d l) ->
    QK (d :: ts) PC (fst e) /\ QK (d :: ts) PC (snd e) /\ new_edge_ok ts (fst e) (snd e) (eat (snd e)).
Proof.
  intros H e He. unfold SE in He. apply in_flat_map in He. destruct He as (p & Hp & He). apply in_flat_map in He.
  destruct He as (s & Hs & He). destruct (H p Hp) as [T S]. destruct (S s Hs) as [S1 S2].
  unfold acl_edges in He. cbn [app In] in He. destruct He as [<-|[<-|He]]; cbn [fst snd QK new_edge_ok eat etype].
  - auto.
  - split; [left; reflexivity|auto].
  - destruct (col_parent s) as [sp|]; [|destruct He]. destruct He as [<-|[]]. cbn [fst snd QK new_edge_ok eat etype].
    split; [right; apply S2; reflexivity|auto].
Qed.

Definition mkt (nm al : string) : dataset :=
  {| dk := KTable; deq := "s." ++ nm; dstr := "s." ++ nm; dschema := "s"; draw := nm; dalias := al; dquery := None |}.
Definition ex_d := mkt "tgt" "tgt".
Definition ex_ta := mkt "t" "a".
Definition ex_tb := mkt "t" "b".
Definition ex_u := mkt "u" "u".
Definition ex_w := mkt "w" "w".
Definition ex_ts := [ex_ta; ex_u; ex_tb; ex_w].
Definition ex_g1 := [ex_ta; ex_u].
Definition ex_g2 := [ex_tb; ex_w].
Definition ex_UN := [(ex_g1, "x"); (ex_g2, "y")].
Definition ex_k : column := {| craw := "k"; cparents := [ex_ta] |}.
Definition ex_l : list (list column * column) :=
  [([Ucol ex_g1 "x"; ex_k], Wcol ex_d "x"); ([Ucol ex_g2 "y"], Wcol ex_d "x")].
(** the stored object of the unresolved column y: its first parent is the object of s.t stored by the first branch *)
Definition ex_cy : column := {| craw := "y"; cparents := [ex_ta; ex_w] |}.
Definition ex_gb : graph := add_node (add_node empty_graph (NData ex_d) []) (NCol ex_cy) [].
Definition ex_EL := map (fun v => (NData v, NStr (dalias v))) ex_ts ++ SE ex_d ex_l.
Definition ex_sub : graph := build_sub ex_EL ex_gb.

(** the stored object differs from the nominal source, and is the one kept by the composed holder *)
Example ex_stored_differs :
  ex_cy <> Ucol ex_g2 "y" /\ In (NCol ex_cy) (map fst (gnodes (compose ex_gb ex_sub))) /\
  ~ In (NCol (Ucol ex_g2 "y")) (map fst (gnodes (compose ex_gb ex_sub))).
Proof.
  split; [vm_compute; intros K; discriminate K|]. split; [vm_compute; tauto|].
  vm_compute. intros K. repeat (destruct K as [K|K]; [discriminate K|]). exact K.
Qed.

Lemma ex_tabs : tabs_ok ex_d ex_ts.
Proof.
  constructor; intros v Hv; cbn [ex_ts In] in Hv; repeat (destruct Hv as [<-|Hv]; [try reflexivity|]); try destruct Hv.
Qed.

Lemma ex_UN_ok : UN_ok ex_ts ex_UN.
Proof.
  split.
  - intros grp nm H. cbn [ex_UN In] in H. destruct H as [H|[H|[]]]; inversion H; subst grp nm; (split; [split|]).
    all: try (intros v w Hv Hw; cbn [ex_g1 ex_g2 In] in Hv, Hw;
              destruct Hv as [<-|[<-|[]]]; destruct Hw as [<-|[<-|[]]]; intros K; first [reflexivity|discriminate K]).
    all: intros v Hv; cbn [ex_g1 ex_g2 In] in Hv; destruct Hv as [<-|[<-|[]]]; cbn; tauto.
  - intros g1 g2 nm H1 H2. cbn [ex_UN In] in H1, H2.
    destruct H1 as [H1|[H1|[]]]; destruct H2 as [H2|[H2|[]]]; inversion H1; inversion H2; subst; try reflexivity; discriminate.
Qed.

Lemma ex_PCe_single c p : cparents c = [p] -> In p (ex_d :: ex_ts) -> PCe ex_d ex_ts ex_UN c.
Proof. intros E H. left. exists p. auto. Qed.

Lemma ex_UPg_x : UPg ex_ts ex_g1 "x" (Ucol ex_g1 "x").
Proof.
  split; [reflexivity|]. split; [reflexivity|]. split; [vm_compute; repeat constructor|]. split; [|split].
  - intros p Hp. vm_compute in Hp. destruct Hp as [<-|[<-|[]]]; (split; [cbn; tauto|]); [exists ex_ta|exists ex_u]; split; try reflexivity; cbn; tauto.
  - intros w Hw. cbn [ex_g1 In] in Hw. destruct Hw as [<-|[<-|[]]]; [exists ex_ta|exists ex_u]; split; try reflexivity; vm_compute; tauto.
  - vm_compute. repeat constructor; cbn; intuition discriminate.
Qed.
Lemma ex_UPg_y : UPg ex_ts ex_g2 "y" (Ucol ex_g2 "y").
Proof.
  split; [reflexivity|]. split; [reflexivity|]. split; [vm_compute; repeat constructor|]. split; [|split].
  - intros p Hp. vm_compute in Hp. destruct Hp as [<-|[<-|[]]]; (split; [cbn; tauto|]); [exists ex_tb|exists ex_w]; split; try reflexivity; cbn; tauto.
  - intros w Hw. cbn [ex_g2 In] in Hw. destruct Hw as [<-|[<-|[]]]; [exists ex_tb|exists ex_w]; split; try reflexivity; vm_compute; tauto.
  - vm_compute. repeat constructor; cbn; intuition discriminate.
Qed.
Lemma ex_UPg_cy : UPg ex_ts ex_g2 "y" ex_cy.
Proof.
  split; [reflexivity|]. split; [reflexivity|]. split; [vm_compute; repeat constructor|]. split; [|split].
  - intros p Hp. cbn [ex_cy cparents In] in Hp. destruct Hp as [<-|[<-|[]]]; (split; [cbn; tauto|]); [exists ex_tb|exists ex_w]; split; try reflexivity; cbn; tauto.
  - intros w Hw. cbn [ex_g2 In] in Hw. destruct Hw as [<-|[<-|[]]]; [exists ex_ta|exists ex_w]; split; try reflexivity; cbn; tauto.
  - vm_compute. repeat constructor; cbn; intuition discriminate.
Qed.

Example holder_realises_e_nonvacuous :
  tabs_ok ex_d ex_ts /\ dk ex_d = KTable /\ UN_ok ex_ts ex_UN /\
  (forall p, In p ex_l -> (exists nm0, snd p = Wcol ex_d nm0) /\
     forall s, In s (fst p) -> (exists v, In v ex_ts /\ cparents s = [v]) \/
                             (exists grp nm, In (grp, nm) ex_UN /\ s = Ucol grp nm /\ escape nm = nm /\ 2 <= List.length (cparents s))) /\
  (forall grp nm, In (grp, nm) ex_UN -> exists p, In p ex_l /\ In (Ucol grp nm) (fst p)) /\
  (forall p' s' grp nm v, In (grp, nm) ex_UN -> In p' ex_l -> In s' (fst p') -> cparents s' = [v] -> craw s' <> nm) /\
  lits_in (QK (ex_d :: ex_ts) (PCe ex_d ex_ts ex_UN)) ex_gb /\ drop_free ex_gb /\
  (forall e0, In e0 (gedges ex_gb) -> String.eqb (etype (snd e0)) "rename" = false) /\
  (forall x y, is_column x = true -> has_edge ex_gb x y = false) /\
  (forall p c, In p ex_ts -> has_edge ex_gb (NData p) (NCol c) = false) /\
  ext ex_gb ex_sub (map (fun v => (NData v, NStr (dalias v))) ex_ts ++ SE ex_d ex_l) /\
  sel_inv (PCe ex_d ex_ts ex_UN) ex_d ex_ts ex_sub.
Proof.
  assert (HX : forall p, In p ex_l -> (exists nm0, snd p = Wcol ex_d nm0) /\
     forall s, In s (fst p) -> (exists v, In v ex_ts /\ cparents s = [v]) \/
                             (exists grp nm, In (grp, nm) ex_UN /\ s = Ucol grp nm /\ escape nm = nm /\ 2 <= List.length (cparents s))).
  { intros p Hp. cbn [ex_l In] in Hp. destruct Hp as [<-|[<-|[]]]; (split; [exists "x"; reflexivity|]); intros s Hs; cbn [fst In] in Hs.
    - destruct Hs as [<-|[<-|[]]].
      + right. exists ex_g1, "x". split; [left; reflexivity|]. split; [reflexivity|]. split; [reflexivity|vm_compute; repeat constructor].
      + left. exists ex_ta. split; [left; reflexivity|reflexivity].
    - destruct Hs as [<-|[]]. right. exists ex_g2, "y". split; [right; left; reflexivity|]. split; [reflexivity|]. split; [reflexivity|vm_compute; repeat constructor]. }
  assert (Lb : lits_in (QK (ex_d :: ex_ts) (PCe ex_d ex_ts ex_UN)) ex_gb).
  { unfold ex_gb. apply lits_add_node; [apply lits_add_node; [apply lits_in_empty|left; reflexivity]|].
    right. exists ex_g2, "y". split; [right; left; reflexivity|exact ex_UPg_cy]. }
  assert (Db : drop_free ex_gb).
  { unfold ex_gb. apply drop_free_add_node; [apply drop_free_add_node; [intros n a []|intros []]|intros []]. }
  assert (Eb : edges_inv ex_ts ex_gb) by (intros e []).
  assert (HEL : forall p, In p ex_EL -> QK (ex_d :: ex_ts) (PCe ex_d ex_ts ex_UN) (fst p) /\ QK (ex_d :: ex_ts) (PCe ex_d ex_ts ex_UN) (snd p) /\
                                       new_edge_ok ex_ts (fst p) (snd p) (eat (snd p))).
  { intros p Hp. unfold ex_EL in Hp. apply in_app_iff in Hp. destruct Hp as [Hp|Hp].
    - apply in_map_iff in Hp. destruct Hp as (v & <- & Hv). cbn [fst snd QK new_edge_ok eat etype].
      split; [right; exact Hv|]. split; [exact I|]. split; [reflexivity|]. exists v. auto.
    - revert p Hp. apply SE_nodes. intros p Hp. cbn [ex_l In] in Hp. destruct Hp as [<-|[<-|[]]]; cbn [fst snd].
      + split; [apply (ex_PCe_single _ ex_d); [reflexivity|left; reflexivity]|]. intros s [<-|[<-|[]]].
        * split; [right; exists ex_g1, "x"; split; [left; reflexivity|exact ex_UPg_x]|]. intros sp K. vm_compute in K. discriminate K.
        * split; [apply (ex_PCe_single _ ex_ta); [reflexivity|right; left; reflexivity]|]. intros sp K. inversion K. left. reflexivity.
      + split; [apply (ex_PCe_single _ ex_d); [reflexivity|left; reflexivity]|]. intros s [<-|[]].
        split; [right; exists ex_g2, "y"; split; [right; left; reflexivity|exact ex_UPg_y]|]. intros sp K. vm_compute in K. discriminate K. }
  destruct (build_sub_ok _ ex_ts ex_EL ex_gb Lb Eb Db HEL) as (A & B & C & D). fold ex_sub in A, B, C, D.
  split; [exact ex_tabs|]. split; [reflexivity|]. split; [exact ex_UN_ok|]. split; [exact HX|]. split; [|split].
  - intros grp nm H. cbn [ex_UN In] in H. destruct H as [H|[H|[]]]; inversion H; subst grp nm.
    + eexists. split; [left; reflexivity|left; reflexivity].
    + eexists. split; [right; left; reflexivity|left; reflexivity].
  - intros p' s' grp nm v Hn Hp Hs Ev. cbn [ex_l In] in Hp. destruct Hp as [<-|[<-|[]]]; cbn [fst In] in Hs.
    + destruct Hs as [<-|[<-|[]]]; [vm_compute in Ev; discriminate Ev|].
      cbn [ex_UN In] in Hn. destruct Hn as [H|[H|[]]]; inversion H; subst grp nm; cbn; discriminate.
    + destruct Hs as [<-|[]]. vm_compute in Ev. discriminate Ev.
  - split; [exact Lb|]. split; [exact Db|]. split; [intros e0 []|]. split; [intros x y _; reflexivity|]. split; [intros p c _; reflexivity|].
    split; [exact A|]. constructor; [exact B|exact C| |exact D].
    intros v Hv.
    assert (Hin : In (NData v, NStr (dalias v)) ex_EL) by (unfold ex_EL; apply in_app_iff; left; apply in_map_iff; exists v; auto).
    split; [|exact (proj1 (ext_new _ _ _ A _ Hin))].
    rewrite (ext_edges _ _ _ A). apply orb_true_iff. right. unfold ematch. apply existsb_exists. exists (NData v, NStr (dalias v)).
    split; [exact Hin|]. cbn [fst snd]. rewrite !node_eqb_refl. reflexivity.
Qed.

(** the theorem applied to the instance *)
Example holder_realises_e_instance :
  let G := compose ex_gb ex_sub in
  clean_holder G /\ lits_in (unres_ok G) G /\ realises G (FLW ex_l) /\ flows_ok (FLW ex_l).
Proof.
  destruct holder_realises_e_nonvacuous as (H1 & H2 & H3 & H4 & H5 & H6 & H7 & H8 & H9 & H10 & H11 & H12 & H13).
  exact (holder_realises_e ex_d ex_ts ex_UN ex_l ex_gb ex_sub H1 H2 H3 H4 H5 H6 H7 H8 H9 H10 H11 H12 H13).
Qed.

Print Assumptions holder_realises_e_instance.

