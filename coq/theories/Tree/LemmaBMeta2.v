(** Lemma B with metadata, continued (property C13, column level).

    PROVED here (no axioms; arbitrary trivia, any number of tables):
    - [star1_core]: the holder after [end_of_query_cleanup] + [expand_wildcard] for ONE star item over a table the catalog
      knows - the out-edges of the target, the in-edges of its star column, [replace_wildcard] (three edges per catalog
      column) and the removal of the two star columns - exactly, up to Python equality of nodes.
    - [lemma_B_md_star1] = [c13_star_expands] (clause (a)): INSERT without column list (target unknown to the catalog) /
      CREATE TABLE AS / CREATE VIEW AS over SELECT * FROM t or SELECT q.* FROM .. t q .. with the starred table known
      (identifier column names): [script_pairs e false base [r_stmt noise s] = spec_pairs_md (e_cfg e) base s].
    - [c13_insert_positions_spec] (clause (c) against the specification): INSERT without column list into a known target,
      plain items, source tables unknown to the catalog: the pairs are [spec_pairs_md] (positions named by the catalog).
    NOT proved: stars next to other items / several star items (the cleanup then has several steps whose edge lists
    would have to be tracked literally, as [star1_core] does for one), and the specification side of clause (b)
    ([resolve_md] against [rflows] of Tree/LemmaBMeta.v, [c13_unqualified_attribution]) for statements with listers. *)
From Coq Require Import Permutation.
From SV Require Import Tree.Render Tree.LemmaA Tree.LemmaAProofs Tree.LemmaAMeta Tree.LemmaB Tree.LemmaBProofs
     Ident.Escape Ident.EscapeProofs Holder.PathProofs Holder.SortProofs Ast.SpecMeta Tree.LemmaBMeta.
From SV Require TriviaProofs.

(* ================================================================== *)
(** * Part R: graph algebra: a fresh edge is appended; removing a node *)
Lemma gedges_add_edge_fresh g u v a :
  has_edge g u v = false ->
  exists u' v', node_eqb u u' = true /\ node_eqb v v' = true /\ gedges (add_edge g u v a) = gedges g ++ [(u', v', a)].
Proof.
  intros H. unfold add_edge. cbn [gedges add_node]. set (ns := gnodes _).
  exists (canon_l u ns), (canon_l v ns). split; [apply canon_eqb|]. split; [apply canon_eqb|].
  apply upsert_edge_fresh. fold (has_edge g (canon_l u ns) (canon_l v ns)).
  rewrite (has_edge_cong g _ _ u v); [exact H|apply node_eqb_true_sym; apply canon_eqb|apply node_eqb_true_sym; apply canon_eqb].
Qed.

Lemma bool_eq_iff (a b : bool) : (a = true <-> b = true) -> a = b.
Proof. destruct a, b; intros [H1 H2]; try reflexivity; [symmetry; apply H1; reflexivity|apply H2; reflexivity]. Qed.

Lemma has_edge_remove_node g n x y :
  has_edge (remove_node g n) x y = has_edge g x y && negb (node_eqb n x) && negb (node_eqb n y).
Proof.
  apply bool_eq_iff. rewrite !andb_true_iff, !negb_true_iff, !has_edge_In. unfold remove_node. cbn [gedges]. split.
  - intros (e0 & He0 & E1 & E2). apply filter_In in He0. destruct He0 as [He0 K]. apply andb_true_iff in K. destruct K as [K1 K2].
    apply negb_true_iff in K1, K2. split; [split; [exists e0; auto|]|].
    + rewrite (node_eqb_cong_r _ _ n E1). exact K1.
    + rewrite (node_eqb_cong_r _ _ n E2). exact K2.
  - intros [[(e0 & He0 & E1 & E2) K1] K2]. exists e0. split; [|auto]. apply filter_In. split; [exact He0|].
    rewrite <- (node_eqb_cong_r _ _ n E1), <- (node_eqb_cong_r _ _ n E2), K1, K2. reflexivity.
Qed.

Lemma lits_remove_node Q g n : lits_in Q g -> lits_in Q (remove_node g n).
Proof.
  intros [H1 H2]. unfold remove_node. split; cbn [gnodes gedges].
  - intros m Hm. apply in_map_iff in Hm. destruct Hm as (pa & <- & Hpa). apply filter_In in Hpa. apply H1. apply in_map. exact (proj1 Hpa).
  - intros e0 He0. apply filter_In in He0. apply H2. exact (proj1 He0).
Qed.

Lemma edges_inv_remove_node ts g n : edges_inv ts g -> edges_inv ts (remove_node g n).
Proof. intros H e0 He0. unfold remove_node in He0. cbn [gedges] in He0. apply filter_In in He0. apply H. exact (proj1 He0). Qed.

Lemma drop_free_remove_node g n : drop_free g -> drop_free (remove_node g n).
Proof. intros H m a Hin. unfold remove_node in Hin. cbn [gnodes] in Hin. apply filter_In in Hin. apply (H m a). exact (proj1 Hin). Qed.

Lemma flat_map_filter_irrelevant {A B} (f : A -> list B) (P : A -> bool) l :
  (forall x, P x = false -> f x = []) -> flat_map f (filter P l) = flat_map f l.
Proof.
  intros H. induction l as [|a r IH]; [reflexivity|]. cbn [filter flat_map]. destruct (P a) eqn:E; cbn [flat_map]; rewrite IH; [reflexivity|].
  rewrite (H a E). reflexivity.
Qed.

Lemma tag_remove_col g c k : holder_nodes (remove_node g (NCol c)) k = holder_nodes g k.
Proof.
  unfold holder_nodes, remove_node. cbn [gnodes]. apply flat_map_filter_irrelevant. intros [m a] H. cbn [fst] in *.
  destruct m as [d0|c0|s0]; [discriminate H|reflexivity|reflexivity].
Qed.

Lemma has_node_remove_true g n : has_node g n = true -> has_node (remove_node g n) n = false.
Proof.
  intros _. unfold has_node, remove_node. cbn [gnodes]. induction (gnodes g) as [|[m a] r IH]; [reflexivity|]. cbn [filter fst].
  destruct (node_eqb n m) eqn:E; cbn [negb]; [exact IH|]. cbn [has_node_l]. rewrite E, IH. reflexivity.
Qed.

Lemma gedges_no_edge g (P : Graph.node * Graph.node * eattrs -> bool) :
  (forall e0, In e0 (gedges g) -> P e0 = false) -> filter P (gedges g) = [].
Proof. intros H. apply filter_none. exact H. Qed.

(* ================================================================== *)
(** * Part W: one star item over a known table: the holder after the expansion, exactly (up to Python equality) *)
Definition Scol (v : dataset) (c : string) : column := {| craw := c; cparents := [v] |}.

Section Star1.
Variable d : dataset.
Variable ts : list dataset.
Hypothesis Hgo : group_ok d ts.
Hypothesis Hd : dk d = KTable.

(** columns of the holder: one parent, a table of [d :: ts] *)
Definition PCs (c : column) : Prop := PC1 c /\ forall p, In p (cparents c) -> In p (d :: ts).

Lemma dts_distinct a b : In a (d :: ts) -> In b (d :: ts) -> dataset_eqb a b = true -> a = b.
Proof.
  intros [<-|Ha] [<-|Hb] E; [reflexivity| | |apply (go_distinct _ _ Hgo); assumption].
  - rewrite dataset_eqb_sym, (go_target _ _ Hgo b Hb) in E. discriminate.
  - rewrite (go_target _ _ Hgo a Ha) in E. discriminate.
Qed.

Lemma dts_table a : In a (d :: ts) -> dk a = KTable.
Proof. intros [<-|Ha]; [exact Hd|exact (go_tables _ _ Hgo a Ha)]. Qed.

Lemma pin_col nm q c : PCs c -> In q (d :: ts) -> col_eqb (Scol q nm) c = true -> c = Scol q nm.
Proof.
  intros [(p & Ep & _) Hp] Hq E. unfold col_eqb in E. apply andb_true_iff in E. destruct E as [E1 E2].
  unfold col_parent in E2. cbn [Scol cparents] in E2. rewrite Ep in E2. cbn [opt_dataset_eqb] in E2.
  assert (Hpq : q = p) by (apply dts_distinct; [exact Hq|apply Hp; rewrite Ep; left; reflexivity|exact E2]). subst p.
  apply String.eqb_eq in E1. unfold col_str, col_parent in E1. cbn [Scol cparents craw] in E1. rewrite Ep, (dts_table q Hq) in E1.
  apply append_cancel in E1. apply append_cancel in E1. destruct c as [cr cp]. cbn [craw cparents] in *. subst. reflexivity.
Qed.

Lemma pin_data q n : QK (d :: ts) PCs n -> In q (d :: ts) -> node_eqb (NData q) n = true -> n = NData q.
Proof.
  intros Hn Hq E. destruct n as [q'| |]; cbn [node_eqb] in E; try discriminate. cbn [QK] in Hn.
  rewrite (dts_distinct q q' Hq Hn E). reflexivity.
Qed.

Lemma pin_ncol nm q n : QK (d :: ts) PCs n -> In q (d :: ts) -> node_eqb (NCol (Scol q nm)) n = true -> n = NCol (Scol q nm).
Proof.
  intros Hn Hq E. destruct n as [|c|]; cbn [node_eqb] in E; try discriminate. cbn [QK] in Hn. rewrite (pin_col nm q c Hn Hq E). reflexivity.
Qed.

Lemma Scol_eqb q q' c c' : In q (d :: ts) -> In q' (d :: ts) -> col_eqb (Scol q c) (Scol q' c') = true -> q = q' /\ c = c'.
Proof.
  intros Hq Hq' E.
  assert (P' : PCs (Scol q' c')).
  { split; [exists q'; split; [reflexivity|apply dts_table; exact Hq']|intros p [<-|[]]; exact Hq']. }
  pose proof (pin_col c q (Scol q' c') P' Hq E) as K. inversion K. auto.
Qed.

Lemma PCs_Scol q c : In q (d :: ts) -> PCs (Scol q c).
Proof. intros Hq. split; [exists q; split; [reflexivity|apply dts_table; exact Hq]|intros p [<-|[]]; exact Hq]. Qed.

(** the three edges the expansion adds per catalog column *)
Definition rw_edges (v : dataset) (cn : string) : list (Graph.node * Graph.node) :=
  [(NData d, NCol (Scol d cn)); (NData v, NCol (Scol v cn)); (NCol (Scol v cn), NCol (Scol d cn))].

Definition rw_step (tgt : dataset) (target_columns : list column) (acc : res graph) (sc : column) : res graph :=
  do g' <- acc;
  let newc := {| craw := escape (craw sc); cparents := [tgt] |} in
  if existsb (col_eqb newc) target_columns || String.eqb (craw sc) "*" then Ok g'
  else match col_parent sc with
       | None => Err EValue
       | Some sp => Ok (add_edge (add_edge (add_edge g' (NData tgt) (NCol newc) (e_has_column None))
                                           (NData sp) (NCol sc) (e_has_column None))
                                 (NCol sc) (NCol newc) lineage_edge)
       end.

Lemma rw_fold v cols : In v ts -> forallb id_ok cols = true -> forall g,
  lits_in (QK (d :: ts) PCs) g -> edges_inv ts g -> drop_free g ->
  exists g', fold_left (rw_step d []) (map (Scol v) cols) (Ok g) = Ok g' /\
             ext g g' (flat_map (rw_edges v) cols) /\ lits_in (QK (d :: ts) PCs) g' /\ edges_inv ts g' /\
             (forall k, holder_nodes g' k = holder_nodes g k) /\ drop_free g'.
Proof.
  intros Hv. induction cols as [|cn r IH]; intros Hid g Hl He Hdf; cbn [map fold_left flat_map].
  - exists g. split; [reflexivity|]. split; [apply ext_refl|auto].
  - cbn [forallb] in Hid. apply andb_true_iff in Hid. destruct Hid as [Hc Hr].
    assert (Hns : String.eqb cn "*" = false) by (destruct (String.eqb cn "*") eqn:E; [apply String.eqb_eq in E; subst; discriminate Hc|reflexivity]).
    unfold rw_step at 2. cbn [Scol craw existsb orb col_parent cparents]. rewrite (id_ok_escape cn Hc), Hns.
    fold (Scol d cn). fold (Scol v cn).
    set (g1 := add_edge g (NData d) (NCol (Scol d cn)) (e_has_column None)).
    set (g2 := add_edge g1 (NData v) (NCol (Scol v cn)) (e_has_column None)).
    set (g3 := add_edge g2 (NCol (Scol v cn)) (NCol (Scol d cn)) lineage_edge).
    assert (Qd : PCs (Scol d cn)) by (apply PCs_Scol; left; reflexivity).
    assert (Qv : PCs (Scol v cn)) by (apply PCs_Scol; right; exact Hv).
    assert (L3 : lits_in (QK (d :: ts) PCs) g3).
    { apply lits_add_edge; [apply lits_add_edge; [apply lits_add_edge; [exact Hl|left; reflexivity|exact Qd]|right; exact Hv|exact Qv]|exact Qv|exact Qd]. }
    assert (E3 : edges_inv ts g3).
    { apply edges_inv_add_edge; [apply edges_inv_add_edge; [apply edges_inv_add_edge; [exact He|right; reflexivity]|right; reflexivity]|left; reflexivity]. }
    assert (X3 : ext g g3 (rw_edges v cn)).
    { unfold rw_edges. change [(NData d, NCol (Scol d cn)); (NData v, NCol (Scol v cn)); (NCol (Scol v cn), NCol (Scol d cn))]
        with (([(NData d, NCol (Scol d cn))] ++ [(NData v, NCol (Scol v cn))]) ++ [(NCol (Scol v cn), NCol (Scol d cn))]).
      apply (ext_trans g g2 g3); [apply (ext_trans g g1 g2); apply ext_add_edge|apply ext_add_edge]. }
    assert (T3 : forall k, holder_nodes g3 k = holder_nodes g k) by (intros k; unfold g3, g2, g1; rewrite !tag_add_edge; reflexivity).
    assert (D3 : drop_free g3) by (unfold g3, g2, g1; repeat apply drop_free_add_edge; exact Hdf).
    destruct (IH Hr g3 L3 E3 D3) as (g' & E' & X' & L' & I' & T' & D').
    exists g'. split; [exact E'|]. split; [apply (ext_trans g g3 g'); assumption|]. split; [exact L'|]. split; [exact I'|].
    split; [intros k; rewrite T', T3; reflexivity|exact D'].
Qed.
End Star1.

Lemma replace_wildcard_eq g tgt src_cols tw sw :
  replace_wildcard g tgt src_cols tw sw =
  (do g1 <- fold_left (rw_step tgt (get_table_columns g tgt)) src_cols (Ok g);
   let g2 := if has_node g1 (NCol tw) then remove_node g1 (NCol tw) else g1 in
   Ok (if has_node g2 (NCol sw) then remove_node g2 (NCol sw) else g2)).
Proof. reflexivity. Qed.

Lemma filter_app' {A} (P : A -> bool) l1 l2 : filter P (l1 ++ l2) = filter P l1 ++ filter P l2.
Proof. apply filter_app. Qed.

Lemma ematch_flat_map {A} a b (f : A -> list (Graph.node * Graph.node)) l :
  ematch a b (flat_map f l) = true <-> exists x, In x l /\ ematch a b (f x) = true.
Proof.
  unfold ematch. rewrite existsb_exists. split.
  - intros (p & Hp & E). apply in_flat_map in Hp. destruct Hp as (x & Hx & Hp). exists x. split; [exact Hx|]. apply existsb_exists. exists p. auto.
  - intros (x & Hx & E). apply existsb_exists in E. destruct E as (p & Hp & E). exists p. split; [apply in_flat_map; exists x; auto|exact E].
Qed.

Lemma rw_acl_ematch d v cn a b :
  ematch a b (rw_edges d v cn) = ematch a b (acl_edges (Scol v cn) (Scol d cn) d).
Proof.
  unfold rw_edges, acl_edges, ematch. cbn [col_parent Scol cparents app existsb fst snd].
  destruct (node_eqb a (NData d) && node_eqb b (NCol (Scol d cn))), (node_eqb a (NData v) && node_eqb b (NCol (Scol v cn))),
    (node_eqb a (NCol (Scol v cn)) && node_eqb b (NCol (Scol d cn))); reflexivity.
Qed.

Theorem star1_core e d ts v cols x :
  group_ok d ts -> Forall data_ok ts -> dk d = KTable -> In v ts ->
  cparents (xc x) = [] -> craw (xc x) = "*" ->
  (forall g2, sel_inv (PCs d ts) d ts g2 -> to_source_columns e x (get_alias_mapping g2 ts) = Ok [Scol v "*"]) ->
  p_truthy (e_provider e) = true -> provider_columns e v = map (Scol v) cols -> cols <> [] -> forallb id_ok cols = true ->
  exists sub, (do g2 <- end_of_query_cleanup e (add_write empty_graph d) ts [x] []; expand_wildcard e g2) = Ok sub /\
              ext (add_write empty_graph d) sub
                  (map (fun v0 => (NData v0, NStr (dalias v0))) ts ++ flat_map (fun cn => acl_edges (Scol v cn) (Scol d cn) d) cols) /\
              sel_inv (PCs d ts) d ts sub.
Proof.
  intros Hgo Hdo Hd Hv Hx0 Hxs HS Hp Hpc Hne Hid.
  set (PC := PCs d ts). set (g_b := add_write empty_graph d).
  set (S := NCol (Scol v "*")). set (T := NCol (Scol d "*")).
  assert (Hvd : In v (d :: ts)) by (right; exact Hv). assert (Hdd : In d (d :: ts)) by (left; reflexivity).
  assert (Lb : lits_in (QK (d :: ts) PC) g_b) by (split; [intros n [<-|[]]; left; reflexivity|intros e0 []]).
  assert (Eb : edges_inv ts g_b) by (intros e0 []).
  assert (Db : drop_free g_b) by (intros n a [H|[]]; inversion H; intros [K|[]]; discriminate K).
  destruct (add_reads_ok PC d ts ts g_b Hgo Hdo (fun v0 Hv0 => Hv0) Lb Eb) as (A1 & A2 & A3 & A4 & A5 & A6).
  rewrite eoq_single. cbv zeta. set (g0 := fold_left add_read ts g_b) in *.
  assert (Hw : sq_write g0 = [d]) by (unfold sq_write; rewrite A4 by discriminate; reflexivity).
  rewrite Hw.
  assert (Hinv0 : sel_inv PC d ts g0).
  { constructor; [exact A1|exact A2| |exact (A6 Db)]. intros v0 Hv0.
    assert (Hin : In (NData v0, NStr (dalias v0)) (map (fun v0 => (NData v0, NStr (dalias v0))) ts)) by (apply in_map_iff; exists v0; auto).
    split.
    - rewrite (ext_edges _ _ _ A3). apply orb_true_iff. right. unfold ematch. apply existsb_exists. eexists. split; [exact Hin|].
      cbn [fst snd]. rewrite !node_eqb_refl. reflexivity.
    - exact (proj1 (ext_new _ _ _ A3 _ Hin)). }
  assert (HE0 : forall a b, has_edge g0 a b = ematch a b (map (fun v0 => (NData v0, NStr (dalias v0))) ts)).
  { intros a b. rewrite (ext_edges _ _ _ A3). reflexivity. }
  (* the single step of the cleanup *)
  cbn [fold_left fst List.length]. unfold eoq_step. rewrite (HS g0 Hinv0).
  assert (Ewc : Nat.eqb (List.length (write_columns g0)) 1 = false).
  { pose proof (write_columns_len g0 d Hw) as Hl. rewrite A5 in Hl. cbn in Hl. apply Nat.eqb_neq. lia. }
  rewrite Ewc. cbn [fold_left].
  assert (Eown : add_parent (xc x) d = Scol d "*").
  { unfold add_parent. rewrite Hx0. cbn [memd existsb insert_parent]. rewrite Hxs. reflexivity. }
  rewrite Eown.
  destruct (acl_ok PC d ts g0 (Scol v "*") (Scol d "*") Hgo eq_refl (PCs_Scol d ts Hgo Hd d "*" Hdd) (PCs_Scol d ts Hgo Hd v "*" Hvd)
              (fun p Hp0 => match Hp0 with or_introl E => eq_ind v (fun q => In q ts) Hv p E | or_intror F => match F with end end) A1 A2)
    as (g3 & E3 & X3 & L3 & I3 & T3 & _ & D3).
  rewrite E3.
  pose proof E3 as E3'. unfold add_column_lineage in E3'. cbn [col_parent Scol cparents] in E3'. inversion E3' as [E3'']. clear E3'.
  fold S T in E3''.
  set (g1 := add_edge g0 S T lineage_edge) in *. set (g2 := add_edge g1 (NData d) T (e_has_column None)) in *.
  (* the three new edges, literally *)
  assert (F1 : has_edge g0 S T = false) by (rewrite HE0; apply ematch_alias_col; reflexivity).
  assert (F2 : has_edge g1 (NData d) T = false).
  { unfold g1. rewrite has_edge_add_edge, HE0. unfold T. rewrite ematch_alias_ycol. reflexivity. }
  assert (F3 : has_edge g2 (NData v) S = false).
  { unfold g2, g1. rewrite !has_edge_add_edge, HE0. unfold S. rewrite ematch_alias_ycol. cbn [node_eqb orb andb].
    rewrite (go_target _ _ Hgo v Hv). reflexivity. }
  destruct (gedges_add_edge_fresh g0 S T lineage_edge F1) as (s1 & t1 & Es1 & Et1 & G1). fold g1 in G1.
  destruct (gedges_add_edge_fresh g1 (NData d) T (e_has_column None) F2) as (d2 & t2 & Ed2 & Et2 & G2). fold g2 in G2.
  destruct (gedges_add_edge_fresh g2 (NData v) S (e_has_column None) F3) as (v3 & s3 & Ev3 & Es3 & G3). rewrite E3'' in G3.
  rewrite G2, G1 in G3.
  assert (Hin : forall e0, In e0 [(s1, t1, lineage_edge); (d2, t2, e_has_column None); (v3, s3, e_has_column None)] -> In e0 (gedges g3)).
  { intros e0 H0. rewrite G3. rewrite <- !app_assoc. apply in_app_iff. right. exact H0. }
  assert (P1 : s1 = S /\ t1 = T).
  { destruct (proj2 L3 _ (Hin _ (or_introl eq_refl))) as [Q1 Q2]. cbn [fst snd] in Q1, Q2. split.
    - apply (pin_ncol d ts Hgo Hd "*" v s1 Q1 Hvd Es1).
    - apply (pin_ncol d ts Hgo Hd "*" d t1 Q2 Hdd Et1). }
  assert (P2 : d2 = NData d /\ t2 = T).
  { destruct (proj2 L3 _ (Hin _ (or_intror (or_introl eq_refl)))) as [Q1 Q2]. cbn [fst snd] in Q1, Q2. split.
    - apply (pin_data d ts Hgo d d2 Q1 Hdd Ed2).
    - apply (pin_ncol d ts Hgo Hd "*" d t2 Q2 Hdd Et2). }
  assert (P3 : v3 = NData v /\ s3 = S).
  { destruct (proj2 L3 _ (Hin _ (or_intror (or_intror (or_introl eq_refl))))) as [Q1 Q2]. cbn [fst snd] in Q1, Q2. split.
    - apply (pin_data d ts Hgo v v3 Q1 Hvd Ev3).
    - apply (pin_ncol d ts Hgo Hd "*" v s3 Q2 Hvd Es3). }
  destruct P1 as [-> ->]. destruct P2 as [-> ->]. destruct P3 as [-> ->].
  assert (G3' : gedges g3 = gedges g0 ++ [(S, T, lineage_edge); (NData d, T, e_has_column None); (NData v, S, e_has_column None)]).
  { rewrite G3, <- !app_assoc. reflexivity. }
  (* out-edges of the target, in-edges of its star column *)
  assert (Edv : dataset_eqb d v = false) by (rewrite dataset_eqb_sym; apply (go_target _ _ Hgo v Hv)).
  assert (O3 : out_edges g3 (NData d) = [(NData d, T, e_has_column None)]).
  { unfold out_edges. rewrite G3', filter_app. fold (out_edges g0 (NData d)). rewrite A5. cbn [out_edges gedges g_b add_write add_node filter app fst S T node_eqb].
    rewrite dataset_eqb_refl, Edv. reflexivity. }
  assert (I3' : in_edges g3 T = [(S, T, lineage_edge); (NData d, T, e_has_column None)]).
  { unfold in_edges. rewrite G3', filter_app.
    rewrite (filter_none _ (gedges g0)).
    - assert (TT : node_eqb T T = true) by apply node_eqb_refl.
      assert (TS : node_eqb T S = false) by (unfold T, S; cbn [node_eqb]; unfold col_eqb, col_parent; cbn [Scol cparents opt_dataset_eqb]; rewrite Edv; apply andb_false_r).
      cbn [app filter fst snd]. rewrite TT, TS. reflexivity.
    - intros e0 He0. destruct (node_eqb T (snd (fst e0))) eqn:E; [|reflexivity]. exfalso.
      assert (K : has_edge g0 (fst (fst e0)) T = true).
      { apply has_edge_In. exists e0. split; [exact He0|]. split; [apply node_eqb_refl|exact E]. }
      rewrite HE0 in K. unfold T in K. rewrite ematch_alias_ycol in K. discriminate. }
  fold S T. fold g1. fold g2. rewrite E3''.
  assert (Hw3 : sq_write g3 = [d]) by (unfold sq_write; rewrite T3; exact Hw).
  assert (Hr3 : memd d (sq_read g3) = false).
  { unfold sq_read. rewrite T3. destruct (memd d (holder_nodes g0 "read")) eqn:E; [|reflexivity]. exfalso. apply memd_In_eqb in E. destruct E as (w & Hw0 & Ew).
    unfold g0 in Hw0. apply reads_after_add_reads in Hw0; [|exact (go_tables _ _ Hgo)].
    destruct Hw0 as [Hw0|(w' & Hw' & Ew')]; [cbn in Hw0; destruct Hw0|].
    assert (K : dataset_eqb w' d = true) by (apply (dataset_eqb_trans w' w d Ew'); apply dataset_eqb_true_sym; exact Ew).
    rewrite (go_target _ _ Hgo w' Hw') in K. discriminate. }
  assert (Egt : get_target_table g3 = Some d) by (unfold get_target_table; rewrite Hw3; cbn [filter]; rewrite Hr3; reflexivity).
  assert (EW : write_columns g3 = [Scol d "*"]) by (unfold write_columns; rewrite Egt, O3; reflexivity).
  assert (ES : get_source_columns g3 (Scol d "*") = [Scol v "*"]) by (unfold get_source_columns; fold T; rewrite I3'; reflexivity).
  assert (ETC : get_table_columns g3 d = []) by (unfold get_table_columns; rewrite O3; reflexivity).
  unfold expand_wildcard. rewrite Egt, EW. cbn [fold_left].
  change (String.eqb (craw (Scol d "*")) "*") with true. cbv iota. rewrite ES. cbn [fold_left].
  change (col_parent (Scol v "*")) with (Some v). cbv iota. rewrite (go_tables _ _ Hgo v Hv), Hp, Hpc.
  destruct cols as [|c0 cr] eqn:Ecols; [contradiction|]. rewrite <- Ecols in *. clear Hne.
  assert (Enn : forall (A : Type) (a b : A), match map (Scol v) cols with [] => a | _ :: _ => b end = b) by (intros A a b; rewrite Ecols; reflexivity).
  rewrite Enn. rewrite replace_wildcard_eq, ETC.
  destruct (rw_fold d ts Hgo Hd v cols Hv Hid g3 L3 I3 (D3 (A6 Db))) as (g4 & E4 & X4 & L4 & I4 & T4 & D4).
  rewrite E4. cbv beta iota zeta.
  (* the two star columns are there, and go *)
  assert (N3T : has_node g3 T = true /\ has_node g3 S = true).
  { destruct (ext_new _ _ _ X3 (S, T)) as [K1 K2]; [left; reflexivity|]. auto. }
  assert (N4T : has_node g4 T = true) by (apply (ext_mono _ _ _ X4); exact (proj1 N3T)).
  assert (N4S : has_node g4 S = true) by (apply (ext_mono _ _ _ X4); exact (proj2 N3T)).
  assert (TS : node_eqb T S = false) by (unfold T, S; cbn [node_eqb]; unfold col_eqb, col_parent; cbn [Scol cparents opt_dataset_eqb]; rewrite Edv; apply andb_false_r).
  fold T S. rewrite N4T. rewrite (has_node_remove_node g4 T S TS), N4S.
  set (Fin := remove_node (remove_node g4 T) S).
  exists Fin. split; [reflexivity|].
  set (AL := map (fun v0 : dataset => (NData v0, NStr (dalias v0))) ts).
  set (SE := flat_map (fun cn : string => acl_edges (Scol v cn) (Scol d cn) d) cols).
  set (NE := flat_map (rw_edges d v) cols) in *.
  assert (Hcn : forall cn, In cn cols -> cn <> "*").
  { intros cn Hcn' ->. rewrite forallb_forall in Hid. discriminate (Hid "*" Hcn'). }
  assert (ENS : forall a b, ematch a b NE = ematch a b SE).
  { intros a b. apply bool_eq_iff. unfold NE, SE. rewrite !ematch_flat_map. split; intros (cn & H1 & H2); exists cn; (split; [exact H1|]).
    - rewrite <- rw_acl_ematch. exact H2.
    - rewrite rw_acl_ematch. exact H2. }
  (* nodes that are not one of the two star columns *)
  set (clean := fun n : Graph.node => node_eqb T n = false /\ node_eqb S n = false).
  assert (CD : forall n q, node_eqb n (NData q) = true -> clean n).
  { intros n q E. split; rewrite (node_eqb_cong_r _ _ _ E); reflexivity. }
  assert (CS : forall n q, node_eqb n (NStr q) = true -> clean n).
  { intros n q E. split; rewrite (node_eqb_cong_r _ _ _ E); reflexivity. }
  assert (CC : forall n q cn, In q (d :: ts) -> cn <> "*" -> node_eqb n (NCol (Scol q cn)) = true -> clean n).
  { intros n q cn Hq Hc E. split; rewrite (node_eqb_cong_r _ _ _ E); unfold T, S; cbn [node_eqb].
    - destruct (col_eqb (Scol d "*") (Scol q cn)) eqn:K; [|reflexivity]. exfalso. apply (Scol_eqb d ts Hgo Hd) in K; [|exact Hdd|exact Hq]. apply Hc. symmetry. exact (proj2 K).
    - destruct (col_eqb (Scol v "*") (Scol q cn)) eqn:K; [|reflexivity]. exfalso. apply (Scol_eqb d ts Hgo Hd) in K; [|exact Hvd|exact Hq]. apply Hc. symmetry. exact (proj2 K). }
  assert (HNF : forall n, clean n -> has_node Fin n = has_node g4 n).
  { intros n [C1 C2]. unfold Fin. rewrite (has_node_remove_node _ S n C2), (has_node_remove_node _ T n C1). reflexivity. }
  assert (HEF : forall a b, has_edge Fin a b = true <-> (has_edge g4 a b = true /\ clean a /\ clean b)).
  { intros a b. unfold Fin. rewrite !has_edge_remove_node, !andb_true_iff, !negb_true_iff. unfold clean. tauto. }
  assert (HE4 : forall a b, has_edge g4 a b = ematch a b AL || ematch a b (acl_edges (Scol v "*") (Scol d "*") d) || ematch a b NE).
  { intros a b. rewrite (ext_edges _ _ _ X4), (ext_edges _ _ _ X3), HE0. reflexivity. }
  assert (SEclean : forall a b, ematch a b SE = true -> clean a /\ clean b).
  { intros a b H. unfold SE in H. apply ematch_flat_map in H. destruct H as (cn & Hcn' & H). pose proof (Hcn cn Hcn') as Hc.
    unfold ematch, acl_edges in H. cbn [col_parent Scol cparents app existsb fst snd] in H. rewrite orb_false_r in H.
    apply orb_true_iff in H. destruct H as [H|H]; [|apply orb_true_iff in H; destruct H as [H|H]]; apply andb_true_iff in H; destruct H as [H1 H2].
    - split; [apply (CC a v cn Hvd Hc H1)|apply (CC b d cn Hdd Hc H2)].
    - split; [apply (CD a d H1)|apply (CC b d cn Hdd Hc H2)].
    - split; [apply (CD a v H1)|apply (CC b v cn Hvd Hc H2)]. }
  assert (ALclean : forall a b, ematch a b AL = true -> clean a /\ clean b).
  { intros a b H. unfold ematch, AL in H. apply existsb_exists in H. destruct H as (pr & Hpr & H). apply in_map_iff in Hpr. destruct Hpr as (v0 & <- & _).
    cbn [fst snd] in H. apply andb_true_iff in H. destruct H as [H1 H2]. split; [apply (CD a v0 H1)|apply (CS b _ H2)]. }
  assert (XF : ext g_b Fin (AL ++ SE)).
  { constructor.
    - intros a b. change (has_edge g_b a b) with false. cbn [orb]. apply bool_eq_iff. rewrite HEF, HE4, ematch_app, !orb_true_iff. split.
      + intros [[[H|H]|H] [Ca Cb]].
        * left. exact H.
        * exfalso. destruct Ca as [Ca1 Ca2], Cb as [Cb1 Cb2]. unfold ematch, acl_edges in H. cbn [col_parent Scol cparents app existsb fst snd] in H.
          fold S T in H. rewrite orb_false_r in H.
          apply orb_true_iff in H. destruct H as [H|H]; [|apply orb_true_iff in H; destruct H as [H|H]]; apply andb_true_iff in H; destruct H as [H1 H2].
          -- rewrite (node_eqb_true_sym _ _ H1) in Ca2. discriminate.
          -- rewrite (node_eqb_true_sym _ _ H2) in Cb1. discriminate.
          -- rewrite (node_eqb_true_sym _ _ H2) in Cb2. discriminate.
        * right. rewrite <- ENS. exact H.
      + intros [H|H].
        * split; [left; left; exact H|exact (ALclean a b H)].
        * split; [right; rewrite ENS; exact H|exact (SEclean a b H)].
    - intros n Hn. assert (En : node_eqb n (NData d) = true).
      { unfold has_node, g_b in Hn. cbn in Hn. rewrite orb_false_r in Hn. exact Hn. }
      rewrite (HNF n (CD n d En)). apply (ext_mono _ _ _ X4). apply (ext_mono _ _ _ X3). apply (ext_mono _ _ _ A3). exact Hn.
    - intros pr Hpr. apply in_app_iff in Hpr. destruct Hpr as [Hpr|Hpr].
      + destruct (ext_new _ _ _ A3 pr Hpr) as [K1 K2]. unfold AL in Hpr. apply in_map_iff in Hpr. destruct Hpr as (v0 & <- & _). cbn [fst snd] in *.
        rewrite (HNF _ (CD _ v0 (node_eqb_refl _))), (HNF _ (CS _ _ (node_eqb_refl _))).
        split; apply (ext_mono _ _ _ X4); apply (ext_mono _ _ _ X3); assumption.
      + assert (Hm : ematch (fst pr) (snd pr) SE = true).
        { unfold ematch. apply existsb_exists. exists pr. split; [exact Hpr|]. rewrite !node_eqb_refl. reflexivity. }
        destruct (SEclean _ _ Hm) as [C1 C2]. rewrite (HNF _ C1), (HNF _ C2).
        rewrite <- ENS in Hm. unfold ematch in Hm. apply existsb_exists in Hm. destruct Hm as (pr' & Hpr' & Em). apply andb_true_iff in Em. destruct Em as [Em1 Em2].
        destruct (ext_new _ _ _ X4 pr' Hpr') as [K1 K2]. unfold has_node in *.
        rewrite (has_node_l_cong _ _ _ Em1), (has_node_l_cong _ _ _ Em2). auto. }
  split; [exact XF|].
  constructor.
  - unfold Fin. apply lits_remove_node. apply lits_remove_node. exact L4.
  - unfold Fin. apply edges_inv_remove_node. apply edges_inv_remove_node. exact I4.
  - intros v0 Hv0.
    assert (Hin' : In (NData v0, NStr (dalias v0)) (AL ++ SE)) by (apply in_app_iff; left; unfold AL; apply in_map_iff; exists v0; auto).
    split.
    + rewrite (ext_edges _ _ _ XF). apply orb_true_iff. right. unfold ematch. apply existsb_exists. eexists. split; [exact Hin'|].
      cbn [fst snd]. rewrite !node_eqb_refl. reflexivity.
    + exact (proj1 (ext_new _ _ _ XF _ Hin')).
  - unfold Fin. apply drop_free_remove_node. apply drop_free_remove_node. exact D4.
Qed.
Print Assumptions star1_core.

(* ================================================================== *)
(** * Clause (a): INSERT (target unknown) / CREATE TABLE AS / CREATE VIEW AS over SELECT * FROM t, SELECT q.* FROM .. t q ..
      with the starred table known to the catalog *)
Lemma rflows_single p FL : (forall f, In f FL -> exists q, cparents (fst f) = [q]) -> rflows p FL = FL.
Proof.
  intros H. unfold rflows. induction FL as [|f r IH]; [reflexivity|]. cbn [flat_map].
  rewrite IH by (intros f' Hf'; apply H; right; exact Hf'). destruct (H f (or_introl eq_refl)) as (q & Eq).
  cbn [unresolved]. rewrite Eq. reflexivity.
Qed.

Definition xq (cn : string) : xcol := {| xc := {| craw := cn; cparents := [] |}; xsrc := []; xfrom_alias := false |}.

Lemma sel_edges_star d v cols :
  sel_edges d (fun x' : xcol => [Scol v (craw (xc x'))]) (map (fun cn => (xq cn, Scol d cn)) cols) =
  flat_map (fun cn => acl_edges (Scol v cn) (Scol d cn) d) cols.
Proof. unfold sel_edges. rewrite flat_map_map'. apply flat_map_ext. intros cn. cbn [fst snd xq xc craw flat_map]. apply app_nil_r. Qed.

Lemma flows_of_star d v cols :
  flows_of (fun x' : xcol => [Scol v (craw (xc x'))]) (map (fun cn => (xq cn, Scol d cn)) cols) =
  map (fun cn => (Scol v cn, Scol d cn)) cols.
Proof.
  unfold flows_of. rewrite flat_map_map'.
  transitivity (flat_map (fun cn => [(Scol v cn, Scol d cn)]) cols); [apply flat_map_ext; intros cn; reflexivity|].
  induction cols as [|cn r IH]; [reflexivity|]. cbn [flat_map map app]. rewrite IH. reflexivity.
Qed.

Theorem lemma_B_md_star1 noise e base (s : stmt) t qq from cj :
  noise_ok noise = true -> env_ok_md e = true -> p_truthy (e_provider e) = true ->
  (s = SInsert t None (QSelect [IStar qq] from cj None) /\ is_known base (tref_str (e_cfg e) t) = false
   \/ s = SCtas t (QSelect [IStar qq] from cj None) \/ s = SView t (QSelect [IStar qq] from cj None)) ->
  stmt_ok s = true -> sshape s = true -> colshape s = true -> sel_tables_syntactic s = true ->
  (forall r, In r from -> match qq with Some q => rname r = q | None => True end ->
             exists cols, rel_known (e_cfg e) base r = Some cols /\ forallb id_ok cols = true) ->
  script_pairs e false base [r_stmt noise s] = spec_pairs_md (e_cfg e) base s.
Proof.
  intros Hn He Hp Hs Hok Hss Hc Hsh HK. set (items := [IStar qq]) in *.
  assert (K : forallb is_rtable from && trefs_distinct (map rtref from) = true /\
              tref_ok t && frag_query (S (q_size (QSelect items from cj None))) (QSelect items from cj None)
              && names_ok_q (S (q_size (QSelect items from cj None))) [] (QSelect items from cj None) = true).
  { destruct Hs as [[-> _]|[->| ->]]; cbn [sel_tables_syntactic stmt_ok] in *.
    - apply andb_true_iff in Hok. destruct Hok as [Hok' _]. auto.
    - auto.
    - auto. }
  destruct K as [Hsh' Hok']. apply andb_true_iff in Hsh'. destruct Hsh' as [Hrt Hd].
  destruct (stmt_ok_select t items from cj Hok' Hrt) as (Ht & Hit & Hne & Hrel).
  assert (Hs' : (exists cols, s = SInsert t cols (QSelect items from cj None)) \/ s = SCtas t (QSelect items from cj None) \/ s = SView t (QSelect items from cj None)).
  { destruct Hs as [[E _]|[E|E]]; [left; exists None; exact E|right; left; exact E|right; right; exact E]. }
  destruct (colshape_tables (e_cfg e) s t items from cj Hs' Hc Ht Hne Hrel Hit Hd) as (Htc & Hic & Hnq).
  set (ds := e_cfg e) in *. set (e' := with_cols e (view_cols [] base)).
  set (d := tbl e t None). set (ts := map (tbl_of e) from).
  pose proof (group_ok_of e t from Hrel Htc) as Hgo. pose proof (ts_inj_of e t from Hrel Htc) as Hinj.
  pose proof (names_nodot_of e from Hrel) as Hndot. fold d ts in Hgo. fold ts in Hinj, Hndot.
  set (x := xcol_of (IStar qq)).
  assert (Hi0 : item_ok (IStar qq) = true) by (cbn [forallb items] in Hit; apply andb_true_iff in Hit; exact (proj1 Hit)).
  destruct (xcol_of_facts (IStar qq) Hi0) as (F1 & F2 & _ & F4). fold x in F1, F2. cbn [item_name item_ref fst snd] in F1, F2, F4.
  pose proof (xref_ok_of e t from items Hrel Hit Htc Hic x (or_introl eq_refl)) as Hx. fold ts in Hx.
  (* the starred relation *)
  assert (R0 : exists r0, In r0 from /\ match qq with Some q => rname r0 = q | None => True end /\
               S_of ts x = [Scol (tbl_of e r0) "*"] /\
               match qq with
               | Some q => find_binding q (map (sbind ds) from) = Some (sbind ds r0)
               | None => from = [r0]
               end).
  { pose proof (Hic (IStar qq) (or_introl eq_refl)) as Hq. cbn [item_ref snd fst] in Hq. unfold S_of. rewrite F2. destruct qq as [q|].
    - destruct Hq as (r0 & Hr0 & En & Hu). exists r0. split; [exact Hr0|]. split; [exact En|]. split.
      + rewrite (find_dalias ts q (tbl_of e r0)); [reflexivity|apply in_map; exact Hr0| |].
        * rewrite forallb_forall in Hrel. rewrite (tbl_of_table e r0 (rel_ok_table _ (Hrel r0 Hr0))). exact En.
        * intros w Hw Ew. unfold ts in Hw. apply in_map_iff in Hw. destruct Hw as (r & <- & Hr). rewrite forallb_forall in Hrel.
          rewrite (Hu r Hr); [reflexivity|]. left. rewrite (tbl_of_table e r (rel_ok_table _ (Hrel r Hr))) in Ew. exact Ew.
      + apply (find_binding_q ds from q r0 Hrt F4 Hr0 En Hu).
    - destruct Hq as [(r & Er)|[_ Hq]]; [|exfalso; apply Hq; reflexivity]. exists r. split; [rewrite Er; left; reflexivity|]. split; [exact I|].
      split; [unfold ts; rewrite Er; reflexivity|exact Er]. }
  destruct R0 as (r0 & Hr0 & Hrq & ES & Hfb).
  destruct (HK r0 Hr0 Hrq) as (cols & Hkn & Hid).
  set (v := tbl_of e r0) in *. assert (Hv : In v ts) by (apply in_map; exact Hr0).
  assert (Edv : dstr v = rel_tname ds r0).
  { unfold v. pose proof Hrel as Hrel2. rewrite forallb_forall in Hrel2. rewrite (tbl_of_table e r0 (rel_ok_table _ (Hrel2 r0 Hr0))). reflexivity. }
  assert (Hcne : cols <> []) by (intros ->; unfold rel_known, known in Hkn; destruct (assoc_s _ base) as [[|c0 l]|]; discriminate).
  assert (Hpc : provider_columns e' v = map (Scol v) cols).
  { unfold provider_columns. change (provider_cols (e_provider e') v) with (provider_cols (pB e base) v). rewrite provider_cols_known, Edv.
    unfold rel_known in Hkn. rewrite Hkn. apply map_ext_in. intros c Hc0. rewrite forallb_forall in Hid. rewrite (id_ok_escape c (Hid c Hc0)). reflexivity. }
  assert (Hdo : Forall data_ok ts).
  { apply Forall_forall. intros w Hw. unfold data_ok. rewrite (go_tables _ _ Hgo w Hw).
    apply in_map_iff in Hw. destruct Hw as (r & <- & _). destruct r; reflexivity. }
  destruct (star1_core e' d ts v cols x Hgo Hdo eq_refl Hv) as (sub & Esub & Xsub & Isub); try assumption.
  { rewrite F1. reflexivity. }
  { rewrite F1. reflexivity. }
  { intros g2 Hinv. rewrite <- ES. apply (HS_of (PCs d ts) e' d ts g2 x Hgo Hinj Hndot Hinv Hx). }
  (* the analysis *)
  assert (He' : env_ok_md e' = true) by exact He.
  assert (Ea : analyze e' false (r_stmt noise s) = holder_on e' (add_write empty_graph (tbl e' t None)) items from).
  { destruct Hs as [[-> Hu]|[->| ->]].
    - apply (analyze_insert_md noise Hn e' He' t None items from cj); try assumption; try exact I; try reflexivity.
      assert (Htg : target_cols e' t = []) by (apply (provider_columns_unknown e base (tbl e t None)); exact Hu).
      cbv zeta. destruct (p_truthy (e_provider e')); [|reflexivity]. rewrite Htg. reflexivity.
    - apply (analyze_create_md noise Hn e' He' false); assumption.
    - apply (analyze_create_md noise Hn e' He' true); assumption. }
  unfold holder_on in Ea. change (tbl e' t None) with d in Ea. change (map (tbl_of e') from) with ts in Ea.
  change (map xcol_of items) with [x] in Ea. rewrite Esub in Ea.
  set (S' := fun x' : xcol => [Scol v (craw (xc x'))]). set (XS := map (fun cn => (xq cn, Scol d cn)) cols).
  assert (ESE : sel_edges d S' XS = flat_map (fun cn => acl_edges (Scol v cn) (Scol d cn) d) cols) by (apply sel_edges_star).
  assert (EFL : flows_of S' XS = map (fun cn => (Scol v cn, Scol d cn)) cols) by (apply flows_of_star).
  rewrite <- ESE in Xsub.
  assert (Isub' : sel_inv (PC4 ts []) d ts sub) by (apply (sel_inv_weaken (PCs d ts)); [intros c Hc0; left; exact (proj1 Hc0)|exact Isub]).
  rewrite (model_tail e base (r_stmt noise s) d ts [] XS S' (add_write empty_graph d) sub Ea Hgo Hinj eq_refl);
    [| | | |split; [intros n [<-|[]]; left; reflexivity|intros e0 []]
     |intros n a [H|[]]; inversion H; intros [K|[]]; discriminate K
     |intros e0 []|reflexivity|reflexivity|exact Xsub|exact Isub'| |].
  2:{ intros p0 Hp0. unfold XS in Hp0. apply in_map_iff in Hp0. destruct Hp0 as (cn & <- & _). cbn [fst snd]. split; [eexists; reflexivity|].
      intros s0 [<-|[]]. left. exists v. split; [exact Hv|reflexivity]. }
  2:{ intros nm []. }
  2:{ intros x' s' nm v0 []. }
  2:{ apply (registration_key noise e' s t _ Hn He' Hok Hss); [|exact Ea].
      destruct Hs as [[-> _]|[->| ->]]; [left; eexists; eexists; reflexivity|right; left; eexists; reflexivity|right; right; eexists; reflexivity]. }
  2:{ intros w Hw K. pose proof (go_target _ _ Hgo w Hw) as Hgt.
      unfold ts in Hw. apply in_map_iff in Hw. destruct Hw as (r & <- & Hr). rewrite forallb_forall in Hrel.
      rewrite (tbl_of_table e r (rel_ok_table _ (Hrel r Hr))) in *. unfold dataset_eqb in Hgt. cbn [tbl dk deq dstr dkind_beq andb d] in *.
      rewrite K, String.eqb_refl in Hgt. discriminate. }
  rewrite rflows_single by (intros f Hf; rewrite EFL in Hf; apply in_map_iff in Hf; destruct Hf as (cn & <- & _); exists v; reflexivity).
  rewrite EFL, map_map.
  (* the specification *)
  unfold spec_pairs_md. f_equal. f_equal.
  assert (Eq : q_cols_md (S (q_size (QSelect items from cj None))) ds base [] (QSelect items from cj None) =
               map (fun c => (c, [SCol (rel_tname ds r0) c])) cols).
  { cbn [q_cols_md]. rewrite (rels_flat_tables from Hrt).
    match goal with |- flat_map (item_cols_md base ?S1) items = _ => assert (E : S1 = map (sbind ds) from) end.
    { apply map_ext_in. intros r Hr. pose proof Hrt as Hrt2. rewrite forallb_forall in Hrt2. specialize (Hrt2 r Hr). destruct r as [t0 al| |]; try discriminate.
      cbn [assoc_s]. destruct (fst t0); reflexivity. }
    rewrite E. unfold items. cbn [flat_map item_cols_md]. rewrite app_nil_r. destruct qq as [q|].
    - rewrite Hfb. cbn [flat_map sbind b_rel]. fold (rel_tname ds r0). unfold rel_known in Hkn. rewrite Hkn. apply app_nil_r.
    - rewrite Hfb. cbn [map flat_map sbind b_rel]. fold (rel_tname ds r0). unfold rel_known in Hkn. rewrite Hkn. apply app_nil_r. }
  assert (Efl : spec_flows_md ds base s = map (fun c => (SCol (rel_tname ds r0) c, (tref_str ds t ++ "." ++ c)%string)) cols).
  { assert (G : flat_map (fun c : colspec => map (fun sr => (sr, (tref_str ds t ++ "." ++ fst c)%string)) (snd c))
                         (map (fun c => (c, [SCol (rel_tname ds r0) c])) cols) =
                map (fun c => (SCol (rel_tname ds r0) c, (tref_str ds t ++ "." ++ c)%string)) cols).
    { clear. induction cols as [|c r IH]; [reflexivity|]. cbn [map flat_map fst snd app]. rewrite IH. reflexivity. }
    destruct Hs as [[-> Hu]|[->| ->]]; unfold spec_flows_md; fold items; rewrite Eq.
    - unfold is_known in Hu. destruct (known base (tref_str ds t)); [discriminate|]. rewrite combine_names_flows. exact G.
    - exact G.
    - exact G. }
  rewrite Efl, map_map. apply map_ext. intros c. cbn [fst snd show_src]. unfold flow_str. cbn [fst snd src_str col_parent Scol cparents col_str craw].
  rewrite (go_tables _ _ Hgo v Hv), Edv. reflexivity.
Qed.
Print Assumptions lemma_B_md_star1.

(** the clause as stated in the property: SELECT * over a known table contributes exactly the catalog columns *)
Corollary c13_star_expands noise e base (s : stmt) t qq from cj :
  noise_ok noise = true -> env_ok_md e = true -> p_truthy (e_provider e) = true ->
  (s = SInsert t None (QSelect [IStar qq] from cj None) /\ is_known base (tref_str (e_cfg e) t) = false
   \/ s = SCtas t (QSelect [IStar qq] from cj None) \/ s = SView t (QSelect [IStar qq] from cj None)) ->
  stmt_ok s = true -> sshape s = true -> colshape s = true -> sel_tables_syntactic s = true ->
  (forall r, In r from -> match qq with Some q => rname r = q | None => True end ->
             exists cols, rel_known (e_cfg e) base r = Some cols /\ forallb id_ok cols = true) ->
  script_pairs e false base [r_stmt noise s] = spec_pairs_md (e_cfg e) base s.
Proof. exact (lemma_B_md_star1 noise e base s t qq from cj). Qed.

Example c13_star_expands_nonvacuous :
  let e := MdB.E "main" in
  let base := MdB.md_tu in
  let from := [MdB.TA "t" "k"; MdB.T "u"] in
  let s := SView MdB.X (QSelect [IStar (Some "k")] from false None) in
  noise_ok [MdB.W; MdB.Cm] && env_ok_md e && p_truthy (e_provider e) && stmt_ok s && sshape s && colshape s && sel_tables_syntactic s = true /\
  forallb (fun r => negb (String.eqb (rname r) "k") ||
                    match rel_known (e_cfg e) base r with Some cols => forallb id_ok cols | None => false end) from = true /\
  script_pairs e false base [r_stmt [MdB.W; MdB.Cm] s] = ["main.t.a>main.x.a"; "main.t.b>main.x.b"] /\
  spec_pairs_md (e_cfg e) base s = ["main.t.a>main.x.a"; "main.t.b>main.x.b"].
Proof. repeat split; vm_compute; reflexivity. Qed.

(* ================================================================== *)
(** * Clause (c) against the specification: INSERT without column list into a known target, plain items, the catalog
      knows none of the source tables: the pairs are the specified ones (output positions named by the catalog) *)
Lemma q_cols_md_unknown ds md items from cj :
  forallb is_rtable from = true -> forallb (fun r => negb (rel_is_known ds md r)) from = true ->
  q_cols_md (S (q_size (QSelect items from cj None))) ds md [] (QSelect items from cj None) =
  q_cols (S (q_size (QSelect items from cj None))) ds [] (QSelect items from cj None).
Proof.
  intros Hrt Hun. rewrite (q_cols_select _ ds items from cj None Hrt). cbn [q_cols_md]. rewrite (rels_flat_tables from Hrt).
  match goal with |- flat_map (item_cols_md md ?S1) items = _ => assert (E : S1 = map (sbind ds) from) end.
  { apply map_ext_in. intros r Hr. rewrite forallb_forall in Hrt. specialize (Hrt r Hr). destruct r as [t al| |]; try discriminate.
    cbn [assoc_s]. destruct (fst t); reflexivity. }
  rewrite E. apply flat_map_ext. intros i. apply item_cols_md_unknown. intros b t Hb Eb. apply in_map_iff in Hb. destruct Hb as (r & <- & Hr).
  cbn [sbind b_rel] in Eb. inversion Eb. subst t. rewrite forallb_forall in Hun. specialize (Hun r Hr). apply negb_true_iff in Hun.
  unfold rel_is_known, is_known, rel_tname in Hun. destruct (known md (tref_str ds (rtref r))); [discriminate|reflexivity].
Qed.

Lemma known_remove_none k md k' : known md k' = None -> known (remove_key k md) k' = None.
Proof.
  unfold known. destruct (String.eqb k' k) eqn:E.
  - apply String.eqb_eq in E. subst k'. rewrite assoc_remove_same. reflexivity.
  - apply String.eqb_neq in E. rewrite (assoc_remove_other k k' md E). auto.
Qed.

Theorem c13_insert_positions_spec : forall noise e base t tc items from cj,
  let s1 := SInsert t None (QSelect items from cj None) in
  let s2 := SInsert t (Some tc) (QSelect items from cj None) in
  noise_ok noise = true -> env_ok_md e = true -> p_truthy (e_provider e) = true ->
  stmt_ok s2 = true -> sshape s2 = true -> colshape s2 = true -> sel_tables_syntactic s2 = true ->
  items_plain_b items = true ->
  known base (tref_str (e_cfg e) t) = Some tc ->
  forallb (fun r => negb (rel_is_known (e_cfg e) base r)) from = true ->
  script_pairs e false base [r_stmt noise s1] = spec_pairs_md (e_cfg e) base s1.
Proof.
  intros noise e base t tc items from cj s1 s2 Hn He Hp Hok Hss Hc Hsh Hpl Hk Hun.
  pose proof (c13_insert_positions noise e base t tc items from cj Hn He Hp Hok Hss Hc Hsh Hpl Hk) as E0. cbv zeta in E0.
  unfold s1 at 1. rewrite E0. clear E0. fold s2.
  set (ds := e_cfg e) in *. set (base' := remove_key (tref_str ds t) base).
  pose proof Hsh as Hsh0. cbn [sel_tables_syntactic] in Hsh0. apply andb_true_iff in Hsh0. destruct Hsh0 as [Hrt Hd].
  assert (Hun' : md_unknown ds base' s2 = true).
  { unfold s2. cbn [md_unknown]. apply andb_true_iff. split.
    - unfold is_known, known, base'. rewrite assoc_remove_same. reflexivity.
    - apply forallb_forall. intros r Hr. rewrite forallb_forall in Hun. specialize (Hun r Hr). apply negb_true_iff in Hun. apply negb_true_iff.
      unfold rel_is_known, is_known in *. unfold base'. destruct (known base (rel_tname ds r)) eqn:E; [discriminate|].
      rewrite (known_remove_none _ _ _ E). reflexivity. }
  rewrite (lemma_B_md_unknown noise e base' s2 Hn He Hok Hss Hc Hsh Hun').
  unfold spec_pairs_md. f_equal. f_equal. f_equal.
  change (e_cfg e) with ds. rewrite (spec_md_unknown ds base' s2 Hsh Hun').
  (* the two specifications *)
  pose proof Hok as Hok2. unfold s2 in Hok2. cbn [stmt_ok] in Hok2. apply andb_true_iff in Hok2. destruct Hok2 as [Hok' Hcs].
  destruct (stmt_ok_select t items from cj Hok' Hrt) as (Ht & Hit & Hne & Hrel).
  assert (Hs' : (exists cols, s2 = SInsert t cols (QSelect items from cj None)) \/ s2 = SCtas t (QSelect items from cj None) \/ s2 = SView t (QSelect items from cj None))
    by (left; exists (Some tc); reflexivity).
  destruct (colshape_tables ds s2 t items from cj Hs' Hc Ht Hne Hrel Hit Hd) as (Htc & Hic & Hnq).
  destruct (colshape_tables "" s2 t items from cj Hs' Hc Ht Hne Hrel Hit Hd) as (Htc0 & _ & _).
  destruct (colshape_cols s2 t tc items from cj eq_refl Hc Hrel Hit Htc0 Hic) as [Hnd Hlen].
  assert (Hlq : List.length (q_cols (S (q_size (QSelect items from cj None))) ds [] (QSelect items from cj None)) = List.length items).
  { rewrite (q_cols_select _ ds items from cj None Hrt). apply length_flat_single. intros i Hi.
    destruct (item_cols_single e t from items Hrel Hit Htc Hic i Hi) as (srcs & E). eexists. exact E. }
  unfold s1, s2, spec_flows_md, spec_flows. rewrite (q_cols_md_unknown ds base items from cj Hrt Hun), Hk, Hlq, Hlen, Nat.eqb_refl. reflexivity.
Qed.
Print Assumptions c13_insert_positions_spec.

Example c13_insert_positions_spec_nonvacuous :
  let e := MdB.E "main" in let base := MdB.md_x in
  let items := [MdB.col "a"; MdB.qcol "u" "b"] in let from := [MdB.T "t"; MdB.T "u"] in
  let s2 := SInsert MdB.X (Some ["p"; "q"]) (QSelect items from false None) in
  noise_ok [MdB.W] && env_ok_md e && p_truthy (e_provider e) && stmt_ok s2 && sshape s2 && colshape s2 && sel_tables_syntactic s2
  && items_plain_b items && forallb (fun r => negb (rel_is_known (e_cfg e) base r)) from = true /\
  known base (tref_str (e_cfg e) MdB.X) = Some ["p"; "q"] /\
  spec_pairs_md (e_cfg e) base (SInsert MdB.X None (QSelect items from false None)) = ["a{main.t,main.u}>main.x.p"; "main.u.b>main.x.q"].
Proof. repeat split; vm_compute; reflexivity. Qed.
