(** Lemma B, step 5d: navigation for INSERT / CREATE over [WITH n AS (SELECT .. FROM base tables) SELECT .. FROM n]. *)
From Coq Require Import Lia.
From SV Require Import Tree.Render Tree.LemmaA Tree.LemmaAProofs Tree.LemmaB Tree.LemmaBProofs Tree.LemmaB5cPaths Tree.LemmaB5c Tree.LemmaB5dDefs Ident.Escape Ident.EscapeProofs.
From SV Require TriviaProofs.
Open Scope string_scope.
Open Scope list_scope.

(* ================================================================== *)
(** * Part H: the holders handed down by the delegations, on abstract datasets *)
Lemma deqb_refl d : dataset_eqb d d = true.
Proof. unfold dataset_eqb. rewrite String.eqb_refl. destruct (dk d); reflexivity. Qed.

Lemma deqb_kinds a b : dk a = KSubq -> dk b = KTable -> dataset_eqb a b = false /\ dataset_eqb b a = false.
Proof. intros Ha Hb. unfold dataset_eqb. rewrite Ha, Hb. split; reflexivity. Qed.

(** the holder after the CTE was registered: target [d] (a table), CTE [D] (a sub-query) *)
Lemma g1_facts d D :
  dk d = KTable -> dk D = KSubq ->
  let g1 := add_cte (add_write empty_graph d) D in
  sq_cte g1 = [D] /\ sq_write g1 = [d] /\ write_columns g1 = [].
Proof.
  intros Hd HD. destruct (deqb_kinds D d HD Hd) as [E1 E2]. cbv zeta.
  unfold add_cte, add_write, add_node, empty_graph. cbn [gnodes gedges upsert_node node_eqb]. rewrite E1.
  unfold sq_cte, sq_write, write_columns, get_target_table, sq_read, sq_write, holder_nodes. cbn [gnodes flat_map fst snd app].
  split; [reflexivity|]. split; reflexivity.
Qed.

Lemma init_dctx_cte d D :
  dk d = KTable -> dk D = KSubq ->
  init_holder (dctx (add_cte (add_write empty_graph d) D)) = add_write (add_cte empty_graph D) d.
Proof.
  intros Hd HD. destruct (g1_facts d D Hd HD) as (E1 & E2 & E3). unfold dctx, init_holder. cbn [c_cte c_write c_write_columns].
  rewrite E1, E2, E3. reflexivity.
Qed.

Lemma body_holder_cte d D : dk d = KTable -> dk D = KSubq -> sq_cte (add_write (add_cte empty_graph D) d) = [D].
Proof.
  intros Hd HD. destruct (deqb_kinds D d HD Hd) as [E1 E2].
  unfold add_cte, add_write, add_node, empty_graph. cbn [gnodes gedges upsert_node node_eqb]. rewrite E2. reflexivity.
Qed.

Lemma def_holder_cte D : sq_cte (add_write (add_cte empty_graph D) D) = [D].
Proof.
  unfold add_cte, add_write, add_node, empty_graph. cbn [gnodes gedges upsert_node node_eqb]. rewrite deqb_refl. reflexivity.
Qed.

(* ================================================================== *)
(** * Part N5d: FROM clauses read against a holder with exactly one CTE *)
Section Nav5d.
Variable noise : list seg.
Hypothesis Hnoise : noise_ok noise = true.
Variable e : env.
Hypothesis Henv : env_ok e = true.

Lemma cte_lookup_one g D name : sq_cte g = [D] -> cte_lookup g name = if String.eqb (dalias D) (escape name) then Some D else None.
Proof. intros H. unfold cte_lookup. rewrite H. reflexivity. Qed.

(** the per-relation step shared by both join styles *)
Lemma list_tables_per k from cj g (h : rel -> dataset) :
  from <> [] -> forallb is_rtable from = true ->
  (forall r, In r from -> add_dataset_from_fee e (r_rel noise k r) g = Ok [h r]) ->
  list_tables e (r_fc noise k from cj) g = Ok (map h from).
Proof.
  intros Hne Hrt Hper.
  assert (Hjoin : forall r0 rest, from = r0 :: rest -> list_tables e (r_fc noise k (r0 :: rest) false) g = Ok (map h from)).
  { intros r0 rest ->. rewrite (list_tables_fc_join noise Hnoise e k r0 rest g _ (ljc_tables noise Hnoise k r0 rest Hrt)).
    rewrite (Hper r0 (or_introl eq_refl)).
    rewrite (concat_res_singletons (fun p => add_dataset_from_fee e (jfee noise p) g) (fun p => h (snd p))).
    - cbn [app map]. rewrite map_map. reflexivity.
    - intros [k' r] Hin. apply in_map_iff in Hin. destruct Hin as (r' & Heq & Hr'). inversion Heq. subst k' r'.
      unfold jfee. cbn [fst snd]. apply Hper. right. exact Hr'. }
  destruct cj.
  - destruct from as [|r1 [|r2 rest]]; [contradiction| |].
    + rewrite r_fc_single_comma. apply (Hjoin r1 []). reflexivity.
    + rewrite (list_tables_fc_comma noise Hnoise). apply concat_res_singletons. exact Hper.
  - destruct from as [|r0 rest]; [contradiction|]. apply (Hjoin r0 rest). reflexivity.
Qed.

(** (a) the body reads the CTE: a hit *)
Lemma list_tables_cte_hit k n al cj g D B :
  id_ok n = true -> alias_okp al -> sq_cte g = [D] -> dalias D = n -> dquery D = Some B ->
  list_tables e (r_fc noise k [RTable (None, n) al] cj) g =
  Ok [mk_subquery B (Some (match al with Some a => a | None => n end))].
Proof.
  intros Hn Ha Hc Hal Hq.
  apply (list_tables_per k [RTable (None, n) al] cj g (fun _ => mk_subquery B (Some (match al with Some a => a | None => n end))));
    [discriminate|reflexivity|].
  intros r [<-|[]]. rewrite (add_dataset_table noise Hnoise e k (None, n) al g); [|unfold tref_ok; cbn [fst snd]; rewrite Hn; reflexivity|exact Ha].
  cbn [fst snd]. rewrite (cte_lookup_one g D n Hc), Hal, (id_ok_escape n Hn), String.eqb_refl, Hq, (raw_tref_bare n). reflexivity.
Qed.

(** (b) the definition reads base tables, none of them the bare name of the CTE: misses *)
Lemma list_tables_cte_miss k from cj g D n :
  from <> [] -> forallb rel_ok from = true -> sq_cte g = [D] -> dalias D = n ->
  (forall r, In r from -> fst (rtref r) = None -> snd (rtref r) <> n) ->
  list_tables e (r_fc noise k from cj) g = Ok (map (tbl_of e) from).
Proof.
  intros Hne Hok Hc Hal Hfree.
  assert (Hrt : forallb is_rtable from = true).
  { rewrite forallb_forall in *. intros r Hr. specialize (Hok r Hr). destruct r; try discriminate. reflexivity. }
  apply list_tables_per; [exact Hne|exact Hrt|].
  intros r Hr. rewrite forallb_forall in Hok. pose proof (Hok r Hr) as Hr'. specialize (Hfree r Hr). destruct r as [t al| |]; try discriminate.
  cbn [rel_ok] in Hr'. apply andb_true_iff in Hr'. destruct Hr' as [H1 H2]. cbn [rtref] in Hfree.
  assert (Ha : alias_okp al) by (destruct al; cbn; auto).
  rewrite (add_dataset_table noise Hnoise e k t al g H1 Ha).
  assert (El : match fst t with Some _ => None | None => cte_lookup g (snd t) end = None).
  { destruct t as [[s|] name]; cbn [fst snd] in *; [reflexivity|]. rewrite (cte_lookup_one g D name Hc), Hal.
    unfold tref_ok in H1. cbn [fst snd] in H1. rewrite andb_true_r in H1. rewrite (id_ok_escape name H1).
    destruct (String.eqb n name) eqn:E; [|reflexivity]. apply String.eqb_eq in E. exfalso. apply (Hfree eq_refl). symmetry. exact E. }
  rewrite El, (table_of_seg_exact e Henv t al H1 Ha). reflexivity.
Qed.

(** a SELECT over tables and CTE references, without WHERE: the cleanup runs on what [list_tables] returns *)
Lemma select_tables_extract_gen f stmt items from cj k ctx TS :
  sel_segments stmt = [r_sc noise items; r_fc noise k from cj] ->
  forallb item_ok items = true -> from <> [] -> forallb is_rtable from = true ->
  list_tables e (r_fc noise k from cj) (init_holder ctx) = Ok TS ->
  extract (S (S f)) e XSelect stmt ctx =
  (do g2 <- end_of_query_cleanup e (init_holder ctx) TS (map xcol_of items) []; expand_wildcard e g2).
Proof.
  intros Hseg Hit Hne Hrt Hlt. rewrite extract_select_eq, Hseg.
  unfold sel_subqueries. cbn [map concat_res]. rewrite (sel_subq1_sc noise Hnoise items Hit), (sel_subq1_fc_tables noise Hnoise k from cj Hne Hrt).
  cbn [app ex_subquery fold_left]. unfold sel_fold. cbn [fold_left]. unfold sel_step.
  rewrite (handle_child_sc_exact noise Hnoise e Henv f _ items Hit), (ise_sc noise Hnoise). rewrite (handle_child_fc noise e Henv).
  cbn [s_g s_tables s_columns s_barriers app].
  rewrite Hlt, (ise_fc noise Hnoise). cbn [s_g s_tables s_columns s_barriers]. reflexivity.
Qed.

(** the body of the WITH, extracted in the holder that knows the target and the CTE *)
Lemma body_extract f K n al items cj d D B :
  id_ok n = true -> alias_okp al -> forallb item_ok items = true ->
  dk d = KTable -> dk D = KSubq -> dalias D = n -> dquery D = Some B ->
  extract (S (S f)) e XSelect (r_query noise (S K) (cte_q2 n al items cj)) (dctx (add_cte (add_write empty_graph d) D)) =
  cte_body_holder e d D (mk_subquery B (Some (match al with Some a => a | None => n end))) (map xcol_of items).
Proof.
  intros Hn Ha Hit Hd HD Hal Hq.
  rewrite (select_tables_extract_gen f _ items [RTable (None, n) al] cj K _
             [mk_subquery B (Some (match al with Some a => a | None => n end))]).
  - rewrite (init_dctx_cte d D Hd HD). reflexivity.
  - unfold cte_q2. rewrite (sel_segments_top_select noise Hnoise). reflexivity.
  - exact Hit.
  - discriminate.
  - reflexivity.
  - rewrite (init_dctx_cte d D Hd HD). apply (list_tables_cte_hit K n al cj _ D B Hn Ha (body_holder_cte d D Hd HD) Hal Hq).
Qed.

(** the definition of the CTE, extracted as the sub-query [D] of a holder whose only CTE is [D] *)
Lemma def_extract f K g items' from' cj' n D :
  forallb item_ok items' = true -> from' <> [] -> forallb rel_ok from' = true ->
  (forall r, In r from' -> fst (rtref r) = None -> snd (rtref r) <> n) ->
  dalias D = n -> dquery D = Some (r_brq noise (S K) (cte_q1 items' from' cj')) -> sq_cte g = [D] ->
  ex_subquery (S (S f)) e [D] g =
  (do sh <- cte_def_holder e D (map (tbl_of e) from') (map xcol_of items');
   Ok (compose g (set_attr sh [NData D] "write" false))).
Proof.
  intros Hit Hne Hok Hfree Hal Hq Hc. rewrite ex_subquery_cons. cbn [ex_subquery fold_left]. rewrite Hq. cbv iota beta.
  assert (Hb : body_ok (S K) (cte_q1 items' from' cj') = true).
  { apply iq_ok_body. unfold cte_q1. cbn [iq_ok]. rewrite Hit, Hok. destruct from'; [contradiction|reflexivity]. }
  rewrite (gc_brq_with noise Hnoise (S K) _ Hb). cbv zeta. rewrite Hc.
  assert (Ei : init_holder {| c_cte := Some [D]; c_write := Some [D]; c_write_columns := None |} = add_write (add_cte empty_graph D) D) by reflexivity.
  assert (Hrt : forallb is_rtable from' = true).
  { rewrite forallb_forall in *. intros r Hr. specialize (Hok r Hr). destruct r; try discriminate. reflexivity. }
  rewrite (select_tables_extract_gen f _ items' from' cj' K _ (map (tbl_of e) from')).
  - rewrite Ei. unfold cte_def_holder.
    destruct (end_of_query_cleanup e _ _ _ []) as [g2|err]; [|reflexivity]. destruct (expand_wildcard e g2); reflexivity.
  - unfold cte_q1. rewrite (sel_segments_brq_select noise Hnoise). reflexivity.
  - exact Hit.
  - exact Hne.
  - exact Hrt.
  - rewrite Ei. apply (list_tables_cte_miss K from' cj' _ D n Hne Hok (def_holder_cte D) Hal Hfree).
Qed.

(** the INSERT / CREATE wrapper over an arbitrary query *)
Lemma analyze_wrapper_q (s : stmt) t q :
  (s = SInsert t None q \/ s = SCtas t q \/ s = SView t q) ->
  tref_ok t = true ->
  exists F stmt,
    analyze e false (r_stmt noise s) =
    (do r <- ci_step (S (S (S F))) e stmt (Ok (add_write empty_graph (tbl e t None), false, false))
                     (r_query noise (S (q_size q)) q);
     Ok (fst (fst r))).
Proof.
  intros Hs Ht. set (k := q_size q). set (Q := r_query noise (S k) q).
  destruct Hs as [->|Hs].
  - set (stmt := node "insert_statement" ["insert_statement"] (sep noise ([kw "insert"; kw "into"; r_tref t] ++ cols_part noise None ++ [Q]))).
    assert (Es : r_stmt noise (SInsert t None q) = stmt) by reflexivity. rewrite Es.
    assert (Ea : analyze e false stmt = extract (S (S (S (S (3 * depth stmt + 6))))) e XCreateInsert stmt empty_ctx).
    { replace (S (S (S (S (3 * depth stmt + 6))))) with (3 * depth stmt + 10) by lia. reflexivity. }
    exists (3 * depth stmt + 6), stmt. set (F := 3 * depth stmt + 6) in *.
    rewrite Ea, extract_ci_eq. unfold stmt at 2. rewrite (lcs_node noise Hnoise) by reflexivity.
    rewrite !filter_app. cbn [cols_part filter app]. change (nn (kw "insert")) with true. change (nn (kw "into")) with true.
    change (nn (r_tref t)) with true. unfold Q at 1. rewrite (nn_rq noise). cbn iota. fold Q.
    change (init_holder empty_ctx) with empty_graph. cbn [app fold_left].
    rewrite (ci_kw_target e (S (S (S F))) stmt empty_graph false false "insert" eq_refl), (ci_kw_target e (S (S (S F))) stmt empty_graph true false "into" eq_refl).
    rewrite (ci_tref e Henv), (table_of_seg_exact e Henv t None Ht I). reflexivity.
  - assert (Es' : exists view : bool, s = if view then SView t q else SCtas t q).
    { destruct Hs as [->| ->]; [exists false|exists true]; reflexivity. }
    destruct Es' as (view & ->). clear Hs.
    set (ty0 := if view then "create_view_statement" else "create_table_statement").
    set (w0 := if view then "view" else "table").
    set (stmt := node ty0 [ty0] (sep noise [kw "create"; kw w0; r_tref t; kw "as"; Q])).
    assert (Es : r_stmt noise (if view then SView t q else SCtas t q) = stmt) by (destruct view; reflexivity). rewrite Es.
    assert (Ea : analyze e false stmt = extract (S (S (S (S (3 * depth stmt + 6))))) e XCreateInsert stmt empty_ctx).
    { replace (S (S (S (S (3 * depth stmt + 6))))) with (3 * depth stmt + 10) by lia. destruct view; reflexivity. }
    exists (3 * depth stmt + 6), stmt. set (F := 3 * depth stmt + 6) in *.
    rewrite Ea, extract_ci_eq. unfold stmt at 2. rewrite (lcs_node noise Hnoise) by (destruct view; reflexivity).
    cbn [filter]. change (nn (kw "create")) with true. change (nn (kw w0)) with true. change (nn (kw "as")) with true.
    change (nn (r_tref t)) with true. unfold Q at 1. rewrite (nn_rq noise). cbn iota. fold Q.
    change (init_holder empty_ctx) with empty_graph. cbn [fold_left].
    rewrite (ci_kw_other e (S (S (S F))) stmt empty_graph false "create" eq_refl eq_refl).
    rewrite (ci_kw_target e (S (S (S F))) stmt empty_graph false false w0) by (destruct view; reflexivity).
    rewrite (ci_tref e Henv), (table_of_seg_exact e Henv t None Ht I).
    rewrite (ci_kw_other e (S (S (S F))) stmt _ false "as" eq_refl eq_refl). reflexivity.
Qed.

Lemma analyze_cte (s : stmt) t n al items' from' cj' items cj bsub :
  let q := cte_q n al items' from' cj' items cj in
  (s = SInsert t None q \/ s = SCtas t q \/ s = SView t q) ->
  tref_ok t = true -> id_ok n = true -> match al with Some a => id_ok a = true | None => True end ->
  forallb item_ok items' = true -> from' <> [] -> forallb rel_ok from' = true ->
  (forall r, In r from' -> fst (rtref r) = None -> snd (rtref r) <> n) ->
  forallb item_ok items = true ->
  let d := tbl e t None in
  let D := cte_obj noise n al items' from' cj' items cj in
  let rd := mk_subquery (r_brq noise (q_size q) (cte_q1 items' from' cj')) (Some (match al with Some a => a | None => n end)) in
  cte_body_holder e d D rd (map xcol_of items) = Ok bsub ->
  sq_cte (compose (add_cte (add_write empty_graph d) D) bsub) = [D] ->
  analyze e false (r_stmt noise s) = cte_holder e d D bsub (map (tbl_of e) from') (map xcol_of items').
Proof.
  intros q Hs Ht Hn Hal Hit' Hne' Hok' Hfree Hit d D rd Hbs Hcte.
  set (q1 := cte_q1 items' from' cj') in *. set (q2 := cte_q2 n al items cj) in *.
  set (K := q_size q1 + q_size q2).
  assert (EK : q_size q = S K) by reflexivity.
  set (B := r_brq noise (S K) q1).
  assert (ED : D = mk_subquery B (Some n)) by reflexivity.
  assert (Erd : rd = mk_subquery B (Some (match al with Some a => a | None => n end))) by reflexivity.
  assert (HDk : dk D = KSubq) by reflexivity.
  assert (HDa : dalias D = n) by (rewrite ED; cbn [mk_subquery dalias]; apply (id_ok_escape n Hn)).
  assert (HDq : dquery D = Some B) by reflexivity.
  assert (Hdk : dk d = KTable) by reflexivity.
  clearbody D rd.
  destruct (analyze_wrapper_q s t q Hs Ht) as (F & stmt & Ew). rewrite Ew. clear Ew. rewrite EK.
  assert (Eq : q = QWith n q1 q2) by reflexivity. rewrite Eq.
  fold d. set (gI := add_write empty_graph d).
  rewrite ci_with. unfold ex_delegate at 1. fold (dctx gI).
  rewrite extract_cte_eq, (lcs_with noise Hnoise). unfold gI at 1. rewrite init_delegate_write. fold gI.
  cbn [fold_left]. rewrite cte_step_kw.
  assert (Hb1 : body_ok (S K) q1 = true).
  { apply iq_ok_body. unfold q1, cte_q1. cbn [iq_ok]. rewrite Hit', Hok'. destruct from'; [contradiction|reflexivity]. }
  assert (Hb2 : body_ok (S K) q2 = true).
  { unfold q2, cte_q2. cbn [body_ok forallb negb]. rewrite Hit. unfold tref_ok. cbn [fst snd]. rewrite Hn. destruct al as [a|]; [rewrite Hal|]; reflexivity. }
  rewrite (cte_step_cte noise Hnoise e (S (S F)) gI [] (S K) n q1 Hb1 Hn). fold B. rewrite <- ED. cbn [app].
  rewrite (cte_step_body noise e (S (S F)) (add_cte gI D) [D] (S K) q2 Hb2).
  unfold ex_delegate. fold (dctx (add_cte gI D)).
  unfold gI at 1. unfold q2 at 1.
  rewrite (body_extract F K n al items cj d D B Hn Hal Hit Hdk HDk HDa HDq), <- Erd, Hbs.
  cbn [fst snd]. change (add_cte (add_write empty_graph d) D) with (add_cte gI D) in Hcte.
  rewrite (def_extract F K _ items' from' cj' n D Hit' Hne' Hok' Hfree HDa HDq Hcte).
  unfold cte_holder. fold gI.
  destruct (cte_def_holder e D (map (tbl_of e) from') (map xcol_of items')) as [sh|err]; reflexivity.
Qed.
End Nav5d.

Print Assumptions analyze_cte.

(** non-vacuity: [insert into s.tgt with c as (select a, u.b as bb from t join u as u on 1 = 1) select c.a, bb from c] and
    [create view s.tgt as with c as (select a, u.b as bb from t, u as u) select z.a, bb from c as z], with non-empty noise:
    all hypotheses hold, and both sides of the conclusion compute to the same holder *)
Definition nvd_noise : list seg :=
  [Seg "whitespace" "whitespace" ["whitespace"] " " true false false []; Seg "inline_comment" "comment" ["comment"] "-- c" false true false []].
Definition nvd_e : env := mk_env "ansi" "" "" {| p_truthy := false; p_cols := [] |} [].
Definition nvd_t : tref := (Some "s", "tgt").
Definition nvd_i' : list item := [ci None "a"; cia (Some "u") "b" "bb"].
Definition nvd_f' : list rel := [tb "t"; tba "u" "u"].
Definition nvd_i (qn : string) : list item := [ci (Some qn) "a"; ci None "bb"].

Definition nvd_instance (mk : tref -> query -> stmt) (al : option string) (cj' cj : bool) : Prop :=
  let qn := match al with Some a => a | None => "c" end in
  let q := cte_q "c" al nvd_i' nvd_f' cj' (nvd_i qn) cj in
  let d := tbl nvd_e nvd_t None in
  let D := cte_obj nvd_noise "c" al nvd_i' nvd_f' cj' (nvd_i qn) cj in
  let rd := mk_subquery (r_brq nvd_noise (q_size q) (cte_q1 nvd_i' nvd_f' cj')) (Some qn) in
  match al with Some a => id_ok a = true | None => True end /\ forallb item_ok (nvd_i qn) = true /\
  exists bsub, cte_body_holder nvd_e d D rd (map xcol_of (nvd_i qn)) = Ok bsub /\
               sq_cte (compose (add_cte (add_write empty_graph d) D) bsub) = [D] /\
               exists g, analyze nvd_e false (r_stmt nvd_noise (mk nvd_t q)) = Ok g /\
                         cte_holder nvd_e d D bsub (map (tbl_of nvd_e) nvd_f') (map xcol_of nvd_i') = Ok g.

Example analyze_cte_nonvacuous :
  noise_ok nvd_noise = true /\ env_ok nvd_e = true /\ tref_ok nvd_t = true /\ id_ok "c" = true /\
  forallb item_ok nvd_i' = true /\ nvd_f' <> [] /\ forallb rel_ok nvd_f' = true /\
  (forall r, In r nvd_f' -> fst (rtref r) = None -> snd (rtref r) <> "c") /\
  nvd_instance (fun t q => SInsert t None q) None false false /\
  nvd_instance (fun t q => SView t q) (Some "z") true false /\
  nvd_instance (fun t q => SCtas t q) None false true.
Proof.
  repeat (split; [vm_compute; first [reflexivity|discriminate]|]).
  split; [intros r [<-|[<-|[]]] _; cbn; discriminate|].
  assert (H : forall mk al cj' cj,
            (match al with Some a => id_ok a = true | None => True end) ->
            (let qn := match al with Some a => a | None => "c" end in
             let q := cte_q "c" al nvd_i' nvd_f' cj' (nvd_i qn) cj in
             let d := tbl nvd_e nvd_t None in
             let D := cte_obj nvd_noise "c" al nvd_i' nvd_f' cj' (nvd_i qn) cj in
             let rd := mk_subquery (r_brq nvd_noise (q_size q) (cte_q1 nvd_i' nvd_f' cj')) (Some qn) in
             match cte_body_holder nvd_e d D rd (map xcol_of (nvd_i qn)) with
             | Ok bsub => forallb item_ok (nvd_i qn) = true /\ sq_cte (compose (add_cte (add_write empty_graph d) D) bsub) = [D] /\
                          analyze nvd_e false (r_stmt nvd_noise (mk nvd_t q)) = cte_holder nvd_e d D bsub (map (tbl_of nvd_e) nvd_f') (map xcol_of nvd_i') /\
                          (exists g, cte_holder nvd_e d D bsub (map (tbl_of nvd_e) nvd_f') (map xcol_of nvd_i') = Ok g)
             | Err _ => False
             end) -> nvd_instance mk al cj' cj).
  { intros mk al cj' cj Ha. cbv zeta. unfold nvd_instance. cbv zeta.
    destruct (cte_body_holder _ _ _ _ _) as [bsub|]; [|intros []]. intros (H1 & H2 & H3 & g & H4).
    split; [exact Ha|]. split; [exact H1|]. exists bsub. split; [reflexivity|]. split; [exact H2|]. exists g. rewrite H3. auto. }
  split; [|split]; (apply H; [first [exact I|reflexivity]|]); vm_compute; (split; [reflexivity|]); (split; [reflexivity|]); (split; [reflexivity|]); eexists; reflexivity.
Qed.
