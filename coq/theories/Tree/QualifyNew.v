(** C14 ("a default schema equals explicit qualification") for the fragments added in this session: UPDATE / MERGE /
    SELECT ... INTO ([qualify_dml], specification level and tree model) and the expression fragment ([r_stmt_x]).
    As in [c14_default_is_qualification_on_core] (Props/C14.v) the guards of the qualified statement are hypotheses;
    their preservation by qualification is NOT proved here (see the executable examples). *)
From SV Require Import Ast.Qualify Ast.SpecDml Tree.Observe Ident.Escape Tree.Render Tree.RenderExpr Tree.RenderDml Tree.LemmaA Tree.LemmaAProofs
     Tree.LemmaADmlDefs Tree.LemmaAMeta Tree.LemmaADmlMeta Tree.LemmaAExpr Tree.LemmaAExprMeta.
Open Scope string_scope.
Open Scope list_scope.

(* ================================================================== *)
(** * UPDATE / MERGE / SELECT ... INTO *)
Definition qual_tgt (ds : string) (t : tref) : tref := match fst t with Some _ => t | None => (Some ds, snd t) end.

(** the target and every unqualified base table in FROM / USING / the embedded queries (at any depth, CTE references
    excepted) are written ds.name - the functions of Ast/Qualify.v on the relations and sub-queries *)
Definition qualify_dml (ds : string) (d : dml) : dml :=
  let k := q_size (dml_query d) in
  let fq := qual_q k ds [] in
  let qr := qual_rel fq ds [] in
  let qw (wh : option (string * query)) := match wh with Some (c, sq) => Some (c, fq sq) | None => None end in
  match d with
  | DUpdate t al sets from cj wh => DUpdate (qual_tgt ds t) al sets (map qr from) cj (qw wh)
  | DMerge t al src upd ins => DMerge (qual_tgt ds t) al (qr src) upd ins
  | DSelectInto t items from cj wh => DSelectInto (qual_tgt ds t) items (map qr from) cj (qw wh)
  end.

Lemma dml_query_qualify ds d : dml_query (qualify_dml ds d) = qual_q (S (q_size (dml_query d))) ds [] (dml_query d).
Proof. destruct d; reflexivity. Qed.

Lemma dml_target_qualify ds d : dml_target (qualify_dml ds d) = qual_tgt ds (dml_target d).
Proof. destruct d; reflexivity. Qed.

Theorem dml_default_is_qualification : forall ds d, ds <> "" ->
  dml_reads "" (qualify_dml ds d) = dml_reads ds d /\ dml_writes "" (qualify_dml ds d) = dml_writes ds d.
Proof.
  intros ds d Hds. unfold dml_reads, dml_writes. rewrite dml_query_qualify, dml_target_qualify, q_size_qual, (q_reads_qual _ ds [] _ Hds).
  split; [reflexivity|]. f_equal. destruct (dml_target d) as [[sc|] n]; cbn [qual_tgt fst snd]; [reflexivity|symmetry; apply tref_str_default; exact Hds].
Qed.
Print Assumptions dml_default_is_qualification.

(** on the tree model, with any metadata provider on either side ([lemma_A_dml_any_provider]) *)
Theorem dml_default_is_qualification_on_model : forall n1 n2 e e0 d,
  noise_ok n1 = true -> noise_ok n2 = true -> env_ok_md e = true -> env_ok_md e0 = true ->
  e_cfg e <> "" -> e_cfg e0 = "" ->
  dml_ok d = true -> dml_ok (qualify_dml (e_cfg e) d) = true ->
  stmt_reads (analyze e false (r_dml n1 d)) = stmt_reads (analyze e0 false (r_dml n2 (qualify_dml (e_cfg e) d))) /\
  stmt_writes (analyze e false (r_dml n1 d)) = stmt_writes (analyze e0 false (r_dml n2 (qualify_dml (e_cfg e) d))).
Proof.
  intros n1 n2 e e0 d H1 H2 He He0 Hds H0 Hd Hd'.
  destruct (lemma_A_dml_any_provider n1 e d H1 He Hd) as [R1 W1].
  destruct (lemma_A_dml_any_provider n2 e0 _ H2 He0 Hd') as [R2 W2].
  destruct (dml_default_is_qualification (e_cfg e) d Hds) as [SR SW].
  rewrite R1, R2, W1, W2, H0, SR, SW. split; reflexivity.
Qed.
Print Assumptions dml_default_is_qualification_on_model.

(* ================================================================== *)
(** * the expression fragment *)
Theorem default_is_qualification_x : forall n1 n2 e e0 s,
  noise_ok n1 = true -> noise_ok n2 = true -> env_ok e = true -> env_ok e0 = true ->
  e_cfg e <> "" -> e_cfg e0 = "" ->
  stmt_ok_a s = true -> LemmaAProofs.sshape s = true ->
  stmt_ok_a (qual_stmt (e_cfg e) s) = true -> LemmaAProofs.sshape (qual_stmt (e_cfg e) s) = true ->
  stmt_reads (analyze e false (r_stmt_x n1 s)) = stmt_reads (analyze e0 false (r_stmt_x n2 (qual_stmt (e_cfg e) s))) /\
  stmt_writes (analyze e false (r_stmt_x n1 s)) = stmt_writes (analyze e0 false (r_stmt_x n2 (qual_stmt (e_cfg e) s))).
Proof.
  intros n1 n2 e e0 s H1 H2 He He0 Hds H0 Hs Hq Hs' Hq'.
  destruct (lemma_A_tables_x n1 e s H1 He Hs Hq) as [R1 W1].
  destruct (lemma_A_tables_x n2 e0 _ H2 He0 Hs' Hq') as [R2 W2].
  destruct (spec_default_is_qualification (e_cfg e) s Hds) as [SR SW].
  rewrite R1, R2, W1, W2, H0, SR, SW. split; reflexivity.
Qed.
Print Assumptions default_is_qualification_x.

(** the same with any metadata provider on either side *)
Theorem default_is_qualification_x_any_provider : forall n1 n2 e e0 s,
  noise_ok n1 = true -> noise_ok n2 = true -> env_ok_md e = true -> env_ok_md e0 = true ->
  e_cfg e <> "" -> e_cfg e0 = "" ->
  XMd.stmt_ok_a s = true -> LemmaAProofs.sshape s = true ->
  XMd.stmt_ok_a (qual_stmt (e_cfg e) s) = true -> LemmaAProofs.sshape (qual_stmt (e_cfg e) s) = true ->
  stmt_reads (analyze e false (r_stmt_x n1 s)) = stmt_reads (analyze e0 false (r_stmt_x n2 (qual_stmt (e_cfg e) s))) /\
  stmt_writes (analyze e false (r_stmt_x n1 s)) = stmt_writes (analyze e0 false (r_stmt_x n2 (qual_stmt (e_cfg e) s))).
Proof.
  intros n1 n2 e e0 s H1 H2 He He0 Hds H0 Hs Hq Hs' Hq'.
  destruct (lemma_A_tables_x_any_provider n1 e s H1 He Hs Hq) as [R1 W1].
  destruct (lemma_A_tables_x_any_provider n2 e0 _ H2 He0 Hs' Hq') as [R2 W2].
  destruct (spec_default_is_qualification (e_cfg e) s Hds) as [SR SW].
  rewrite R1, R2, W1, W2, H0, SR, SW. split; reflexivity.
Qed.
Print Assumptions default_is_qualification_x_any_provider.

(* ================================================================== *)
(** * non-vacuity: all hypotheses (incl. the guards of the qualified statements) hold on the example statements of
      LemmaADml / LemmaAExpr under the default schema "dw" *)
Definition e_dw : env := mk_env "ansi" "dw" "dw" {| p_truthy := false; p_cols := [] |} [].
Definition e_none : env := mk_env "ansi" "" "" {| p_truthy := false; p_cols := [] |} [].

Example qualify_new_nonvacuous :
  env_ok e_dw && env_ok e_none && env_ok_md e_dw && env_ok_md e_none = true /\
  forallb (fun d => dml_ok d && dml_ok (qualify_dml "dw" d)) [DmlMd.upd_ex1; DmlMd.mrg_ex1; DmlMd.mrg_ex2; DmlMd.into_ex1] = true /\
  stmt_ok_a exA_s && LemmaAProofs.sshape exA_s && stmt_ok_a (qual_stmt "dw" exA_s) && LemmaAProofs.sshape (qual_stmt "dw" exA_s) = true /\
  XMd.stmt_ok_a XMd.exA_s && XMd.stmt_ok_a (qual_stmt "dw" XMd.exA_s) = true /\
  stmt_reads (analyze e_dw false (r_dml [] DmlMd.mrg_ex2)) = ["dw.u"] /\
  stmt_reads (analyze e_dw false (r_stmt_x [] exA_s)) = ["dw.t0"; "dw.t1"; "dw.t3"; "s.t2"].
Proof. repeat split; vm_compute; reflexivity. Qed.
