(** Lemma B, step 5a, continued: the INSERT column list on a holder that contains the sub-query holder. *)
From Coq Require Import Permutation.
From SV Require Import Tree.Render Tree.LemmaA Tree.LemmaAProofs Tree.LemmaB Tree.LemmaBProofs Tree.LemmaB5a Tree.LemmaB5a2 Ident.Escape Ident.EscapeProofs
     Holder.PathProofs Holder.SortProofs.

(* ================================================================== *)
(** * Part 1: [holder_realises_f] for any base holder [gb] contained in the frame and any list of (item, target column) pairs *)
Theorem holder_realises_g d ts L xs gb pairs g1 sub :
  let NM := unres_names ts xs in
  let FL := flows_of (S_of ts) pairs in
  group_ok d ts -> ts_inj ts -> Forall data_ok ts -> NoDup (map dstr ts) -> dk d = KTable ->
  (forall x, In x xs -> xref_ok_f ts L NM x) ->
  (forall nm, In nm NM -> exists x, In x xs /\ In (Ucol ts nm) (S_of ts x)) ->
  (forall x' s' nm v, In nm NM -> In x' xs -> In s' (S_of ts x') -> cparents s' = [v] -> craw s' <> nm) ->
  (forall p, In p pairs -> In (fst p) xs /\ snd p = {| craw := craw (snd p); cparents := [d] |}) ->
  (forall x, In x xs -> exists w, In (x, w) pairs) ->
  lits_in (QC ts NM) gb -> drop_free gb -> (forall e0, In e0 (gedges gb) -> String.eqb (etype (snd e0)) "rename" = false) ->
  (forall x y, has_edge gb x y = true -> has_edge g1 x y = true) ->
  ext g1 sub (map (fun v => (NData v, NStr (dalias v))) ts ++ sel_edges d (S_of ts) pairs) ->
  sinv ts L NM sub ->
  (forall x y, is_column x = true -> has_edge g1 x y = true -> parent_is KSubq y = true) ->
  (forall x y, parent_is KSubq x = true -> has_edge g1 x y = false) ->
  (forall nm y, has_edge g1 (NCol {| craw := nm; cparents := [d] |}) y = false) ->
  (forall nm p w, In nm NM -> tab_ok p -> In w ts -> dataset_eqb p w = true -> has_edge g1 (NData p) (NCol (mk_col nm p)) = false) ->
  let G := compose gb sub in
  clean_holder G /\ lits_in (unres_ok G) G /\ realises_in G FL /\ flows_ok_in FL.
Proof.
  intros NM FL Hgo Hinj Hdo Hnds Hd HX HNM HNQ Hpairs Hcover Lgb Dgb Egb Hsubg X Hs FR3 FR4 FR5 FR6 G.
  assert (Tok : forall w, In w ts -> tab_ok w) by (intros w Hw; apply (ts_tab_ok d ts Hgo Hdo w Hw)).
  assert (HE : forall x y, has_edge G x y = has_edge g1 x y || (ematch x y (map (fun v => (NData v, NStr (dalias v))) ts) || ematch x y (sel_edges d (S_of ts) pairs))).
  { intros x y. unfold G. rewrite has_edge_compose, (ext_edges _ _ _ X), ematch_app. destruct (has_edge gb x y) eqn:Eg; [rewrite (Hsubg x y Eg); reflexivity|reflexivity]. }
  assert (HF : forall f, In f FL ->
               exists x s, In x pairs /\ In s (S_of ts (fst x)) /\ f = (s, snd x) /\
                           ((exists v, In v ts /\ cparents s = [v]) \/
                            (exists nm, In nm NM /\ s = Ucol ts nm /\ escape nm = nm /\ 2 <= List.length (cparents s))) /\
                           snd x = {| craw := craw (snd x); cparents := [d] |}).
  { intros f Hf. unfold FL, flows_of in Hf. apply in_flat_map in Hf. destruct Hf as (p0 & Hp0 & Hf). apply in_map_iff in Hf.
    destruct Hf as (s & <- & Hs0). destruct (Hpairs p0 Hp0) as [Hx Eo].
    destruct (S_of_props d ts xs (fst p0) Hgo Hinj Hd Hx (xref_ok_f_old ts L NM _ (HX _ Hx))) as (A1 & _ & _ & _ & A5).
    exists p0, s. split; [exact Hp0|]. split; [exact Hs0|]. split; [reflexivity|]. split; [exact (A5 s Hs0)|exact Eo]. }
  assert (HEc : forall x y, is_column x = true ->
                has_edge G x y = has_edge g1 x y || ematch x y (map (fun f : flow => (NCol (fst f), NCol (snd f))) FL)).
  { intros x y Hx. rewrite HE, (ematch_alias_col x y ts Hx), (ematch_sel_col d (S_of ts) pairs x y Hx). reflexivity. }
  assert (Rc : forall f, In f FL -> has_edge G (NCol (fst f)) (NCol (snd f)) = true).
  { intros f Hf. rewrite HEc by reflexivity. apply orb_true_iff. right. unfold ematch. apply existsb_exists. exists (NCol (fst f), NCol (snd f)).
    split; [apply in_map_iff; exists f; auto|]. cbn [fst snd]. rewrite !node_eqb_refl. reflexivity. }
  assert (F3 : forall f, In f FL -> parent_is KSubq (NCol (fst f)) = false).
  { intros f Hf. destruct (HF f Hf) as (x & s & _ & _ & -> & [(v & Hv & Ev)|(nm & _ & -> & _ & Hl)] & _); cbn [fst parent_is].
    - unfold col_parent. rewrite Ev, (go_tables _ _ Hgo v Hv). reflexivity.
    - rewrite (col_parent_none _ Hl). reflexivity. }
  assert (LG : lits_in (QC ts NM) G).
  { apply lits_compose; [exact Lgb|exact (sv_lits _ _ _ _ Hs)]. }
  assert (Ueq : forall c, UP ts NM c -> col_eqb c (Ucol ts (craw c)) = true /\
                          sort_strings (map dstr (cparents c)) = sort_strings (map dstr (cparents (Ucol ts (craw c))))).
  { intros c (Hl & Hnm & HP & Hcov & Hnd'). destruct (Ucol_props ts (craw c) Hinj) as (U1 & _ & U3).
    assert (Hl' : 2 <= List.length (cparents (Ucol ts (craw c)))).
    { destruct (cparents c) as [|p1 [|p2 r]] eqn:Ec; cbn [List.length] in Hl; try lia.
      destruct (HP p1 (or_introl eq_refl)) as [T1 (w1 & Hw1 & E1)]. destruct (HP p2 (or_intror (or_introl eq_refl))) as [T2 (w2 & Hw2 & E2)].
      apply (two_members _ w1 w2); [apply U3; exact Hw1|apply U3; exact Hw2|]. intros ->.
      cbn [map] in Hnd'. inversion Hnd'. apply H1. left.
      rewrite (tab_ok_eqb_dstr p2 w2 T2 (Tok w2 Hw2) E2), (tab_ok_eqb_dstr p1 w2 T1 (Tok w2 Hw2) E1). reflexivity. }
    split.
    - unfold col_eqb, col_str. rewrite (col_parent_none c Hl), (col_parent_none _ Hl'), U1. cbn [opt_dataset_eqb]. rewrite String.eqb_refl. reflexivity.
    - rewrite (unres_strs ts (craw c) Hinj Hnds). apply sort_strings_set_eq; [exact Hnd'|exact Hnds|].
      intros sx. rewrite !in_map_iff. split.
      + intros (p0 & <- & Hp0). destruct (HP p0 Hp0) as [T0 (w & Hw & E0)]. exists w. split; [symmetry; exact (tab_ok_eqb_dstr p0 w T0 (Tok w Hw) E0)|exact Hw].
      + intros (w & <- & Hw). destruct (Hcov w Hw) as (p0 & Hp0 & E0). exists p0. split; [exact (tab_ok_eqb_dstr p0 w (proj1 (HP p0 Hp0)) (Tok w Hw) E0)|exact Hp0]. }
  split; [|split; [|split]].
  - (* clean_holder *)
    split.
    + intros n a Hin. destruct (attr_true "drop" a) eqn:E; [|reflexivity]. exfalso. apply attr_true_In in E.
      exact (drop_free_compose gb sub Dgb (fi_drop _ _ _ (sv_finv _ _ _ _ Hs)) n a Hin E).
    + apply (etype_compose (fun s => String.eqb s "rename" = false)); [exact Egb|].
      intros e0 He0. destruct (fi_types _ _ _ (sv_finv _ _ _ _ Hs) e0 He0) as [-> |[-> | ->]]; reflexivity.
  - (* unresolved columns *)
    apply (lits_weaken (QC ts NM)); [|exact LG]. intros n Hn u Hu. destruct n as [|c|]; cbn [unresolved] in Hu; try discriminate.
    cbn [QC] in Hn. destruct Hn as [Hn|Hn]; [rewrite Hn in Hu; cbn in Hu; discriminate|].
    destruct (Nat.ltb 1 (List.length (cparents c))); [|discriminate]. inversion Hu. subst u. clear Hu.
    pose proof Hn as (Hl & [Hnm Eesc] & HP & Hcov & Hnd'). split.
    + unfold candidates_in_graph. apply flat_map_none. intros p Hp.
      destruct (has_edge G (NData p) (NCol (mk_col (craw c) p))) eqn:Ehe; [|reflexivity]. exfalso.
      destruct (HP p Hp) as [Tp (w & Hw & Ew)].
      rewrite HE, (FR6 (craw c) p w Hnm Tp Hw Ew), ematch_alias_ycol in Ehe. cbn [orb] in Ehe.
      apply ematch_sel_data in Ehe. destruct Ehe as (p' & s' & Hp' & Hs' & [[K _]|(sp & Esp & K1 & K2)]).
      * assert (Kw : dataset_eqb w d = true) by (apply (dataset_eqb_trans w p d); [apply dataset_eqb_true_sym; exact Ew|exact K]).
        rewrite (go_target _ _ Hgo w Hw) in Kw. discriminate.
      * destruct (Hpairs p' Hp') as [Hx' _]. set (x' := fst p') in *.
        destruct (S_of_props d ts xs x' Hgo Hinj Hd Hx' (xref_ok_f_old ts L NM x' (HX x' Hx'))) as (_ & _ & _ & _ & A5).
        destruct (A5 s' Hs') as [(v & Hv & Ev)|(nm' & _ & -> & _ & Hl')]; [|rewrite (col_parent_none _ Hl') in Esp; discriminate].
        unfold col_parent in Esp. rewrite Ev in Esp. inversion Esp. subst sp.
        cbn [node_eqb] in K2. unfold col_eqb in K2. apply andb_true_iff in K2. destruct K2 as [K2 _]. apply String.eqb_eq in K2.
        unfold col_str, col_parent, mk_col in K2. cbn [cparents craw] in K2. rewrite Ev, (proj1 Tp), (go_tables _ _ Hgo v Hv) in K2.
        rewrite (tab_ok_eqb_dstr p v Tp (Tok v Hv) K1) in K2. apply append_cancel in K2. apply append_cancel in K2.
        rewrite Eesc in K2. apply (HNQ x' s' (craw c) v Hnm Hx' Hs' Ev). symmetry. exact K2.
    + destruct (HNM (craw c) Hnm) as (x & Hx & Hsx). destruct (Hcover x Hx) as (w0 & Hw0). exists (NCol w0).
      rewrite (has_edge_cong_l G (NCol c) (NCol (Ucol ts (craw c)))) by (cbn [node_eqb]; exact (proj1 (Ueq c Hn))).
      apply (Rc (Ucol ts (craw c), w0)). unfold FL, flows_of. apply in_flat_map. exists (x, w0).
      split; [exact Hw0|]. apply in_map_iff. exists (Ucol ts (craw c)). auto.
  - (* realises_in *)
    constructor.
    + intros x y Hx Hxy. rewrite (HEc x y Hx) in Hxy. apply orb_true_iff in Hxy. destruct Hxy as [Hxy|Hxy].
      * right. split; [exact (FR3 x y Hx Hxy)|]. intros f Hf. destruct (HF f Hf) as (x0 & s & _ & _ & -> & _ & Eo). cbn [snd]. rewrite Eo.
        destruct (node_eqb x _) eqn:E; [|reflexivity]. rewrite (has_edge_cong_l g1 _ _ y E), FR5 in Hxy. discriminate.
      * left. unfold ematch in Hxy. apply existsb_exists in Hxy.
        destruct Hxy as (p & Hp & E). apply in_map_iff in Hp. destruct Hp as (f & <- & Hf). cbn [fst snd] in E.
        apply andb_true_iff in E. exists f. tauto.
    + intros x y Hx. assert (Hxc : is_column x = true) by (destruct x; cbn in Hx; try discriminate; reflexivity).
      rewrite (HEc x y Hxc), (FR4 x y Hx). cbn [orb]. destruct (ematch x y _) eqn:E; [|reflexivity]. exfalso.
      unfold ematch in E. apply existsb_exists in E. destruct E as (p & Hp0 & E). apply in_map_iff in Hp0. destruct Hp0 as (f & <- & Hf).
      cbn [fst snd] in E. apply andb_true_iff in E. destruct E as [E _]. rewrite (parent_is_eqb KSubq _ _ E), (F3 f Hf) in Hx. discriminate.
    + exact Rc.
    + intros f Hf. destruct (HF f Hf) as (x & s & Hx & Hs0 & -> & _).
      assert (Hin : In (NCol s, NCol (snd x)) (map (fun v => (NData v, NStr (dalias v))) ts ++ sel_edges d (S_of ts) pairs)).
      { apply in_app_iff. right. unfold sel_edges. apply in_flat_map. exists x. split; [exact Hx|].
        apply in_flat_map. exists s. split; [exact Hs0|]. left. reflexivity. }
      destruct (ext_new _ _ _ X _ Hin) as [N1 N2]. cbn [fst snd] in *. unfold G. rewrite !has_node_compose, N1, N2, !orb_true_r. auto.
    + apply (lits_weaken (QC ts NM)); [|exact LG]. intros n Hn f Hf E.
      destruct (HF f Hf) as (x & s & _ & _ & -> & [(v & _ & Ev)|(nm & _ & -> & _ & Hl)] & _); cbn [fst] in *.
      * apply (src_str_eqb_single n s v); [unfold col_parent; rewrite Ev; reflexivity|exact E].
      * destruct n as [|c|]; cbn [node_eqb] in E; try discriminate. cbn [QC] in Hn.
        unfold col_eqb in E. apply andb_true_iff in E. destruct E as [E1 E2]. rewrite (col_parent_none _ Hl) in E2.
        destruct Hn as [Hn|Hn].
        -- unfold col_parent in E2. destruct (cparents c) as [|p1 [|p2 r]]; cbn [List.length] in Hn; discriminate.
        -- destruct (Ueq c Hn) as [_ Estr]. pose proof Hn as (Hlc & _).
           apply String.eqb_eq in E1. unfold col_str in E1. rewrite (col_parent_none _ Hl), (col_parent_none _ Hlc) in E1.
           rewrite (proj1 (Ucol_props ts nm Hinj)) in E1. cbn [src_str]. rewrite (col_parent_none _ Hlc), (col_parent_none _ Hl), Estr, E1.
           rewrite (proj1 (Ucol_props ts nm Hinj)). reflexivity.
  - (* flows_ok_in *)
    split; [split|exact F3].
    + intros f f' Hf Hf'. destruct (HF f Hf) as (x & s & _ & _ & -> & _ & Eo).
      destruct (HF f' Hf') as (x' & s' & _ & _ & -> & Hk & _). cbn [fst snd]. rewrite Eo.
      unfold col_eqb. destruct Hk as [(v' & Hv' & Ev')|(nm & _ & -> & _ & Hl)].
      * unfold col_parent. cbn [cparents]. rewrite Ev'. cbn [opt_dataset_eqb].
        rewrite dataset_eqb_sym, (go_target _ _ Hgo v' Hv'). apply andb_false_r.
      * rewrite (col_parent_none _ Hl). unfold col_parent at 1. cbn [cparents opt_dataset_eqb]. apply andb_false_r.
    + intros f Hf. destruct (HF f Hf) as (x & s & _ & _ & -> & _ & Eo). cbn [snd]. rewrite Eo.
      cbn [parent_is col_parent cparents]. rewrite Hd. reflexivity.
Qed.

(* ================================================================== *)
(** * Part 2: the cleanup when the target columns are given (INSERT column list), on a frame *)
Section CoreK.
Variable e : env.
Hypothesis Hprov : p_truthy (e_provider e) = false.
Variable d : dataset.
Variable ts : list dataset.
Hypothesis Hgo : group_ok d ts.
Hypothesis Hinj : ts_inj ts.
Hypothesis Hnd : names_nodot ts.
Hypothesis Hdo : Forall data_ok ts.
Hypothesis Hd_ok : data_ok d.
Variable L : string -> dataset -> Prop.
Hypothesis HLdot : forall a w v, L a w -> In v ts -> a <> dstr v.
Variable NM : list string.
Variable cs : list string.

Lemma srcp_parents_not_target s : srcp ts NM s -> forall p, In p (cparents s) -> dataset_eqb p d = false.
Proof.
  intros Hs p Hp0.
  assert (K : exists w, In w ts /\ dataset_eqb p w = true).
  { destruct Hs as [(u & Eu & _ & w & Hw & Ew)|(_ & _ & HP & _)]; [rewrite Eu in Hp0; destruct Hp0 as [<-|[]]; exists w; auto|exact (proj2 (HP p Hp0))]. }
  destruct K as (w & Hw & Ew). destruct (dataset_eqb p d) eqn:E; [|reflexivity].
  rewrite <- (go_target _ _ Hgo w Hw). symmetry. apply (dataset_eqb_trans w p d); [apply dataset_eqb_true_sym; exact Ew|exact E].
Qed.

Lemma eoq_fold_cols_f cols :
  List.length cols = List.length cs -> (forall x, In x cols -> xref_ok_f ts L NM x) ->
  forall l g2 idx,
    (forall x, In x l -> In x cols) -> sinv ts L NM g2 -> sq_write g2 = [d] -> memd d (sq_read g2) = false ->
    out_edges g2 (NData d) = OE d cs -> idx + List.length l = List.length cols ->
    exists g', fst (fold_left (fun acc2 x => let '(rg, idx) := acc2 in
                                  (do g2 <- rg; eoq_step e ts (List.length cols) d g2 idx x, Datatypes.S idx)) l (Ok g2, idx)) = Ok g' /\
               ext g2 g' (sel_edges d (S_of ts) (combine l (skipn idx (map (Wcol d) cs)))) /\ sinv ts L NM g' /\
               (forall k, holder_nodes g' k = holder_nodes g2 k) /\ out_edges g' (NData d) = OE d cs.
Proof.
  intros Hlen HX. induction l as [|x r IH]; intros g2 idx Hl Hs Hw Hr Ho Hn; cbn [fold_left].
  - exists g2. split; [reflexivity|]. split; [apply ext_refl|]. split; [exact Hs|]. split; [reflexivity|exact Ho].
  - cbn [List.length] in Hn. assert (Hidx : idx < List.length cs) by lia.
    destruct (nth_error cs idx) as [c|] eqn:Ec; [|apply nth_error_None in Ec; lia].
    pose proof (nth_error_In _ _ Ec) as Hc.
    assert (Ewc : write_columns g2 = map (Wcol d) cs) by (apply write_columns_exact; assumption).
    destruct (HS_f e d ts Hgo Hinj Hnd Hdo L HLdot NM g2 x Hs (HX x (Hl x (or_introl eq_refl)))) as (s & s0 & Et & ES & Ecol & Hsrc).
    destruct (acl_ok_f d ts Hgo Hd_ok L NM g2 s (Wcol d c) Hs eq_refl Hsrc) as (g3 & E3 & X3 & S3 & T3 & _).
    assert (Estep : eoq_step e ts (List.length cols) d g2 idx x = Ok g3).
    { unfold eoq_step. rewrite Et. cbv zeta. rewrite Ewc, map_length, Hlen, Nat.eqb_refl.
      rewrite (map_nth_error (Wcol d) idx cs Ec). cbn [fold_left]. exact E3. }
    rewrite Estep.
    assert (O3 : out_edges g3 (NData d) = OE d cs).
    { apply (acl_oed d cs g2 s c g3 E3 Ho Hc). exact (srcp_parents_not_target s Hsrc). }
    assert (Hw3 : sq_write g3 = [d]) by (unfold sq_write; rewrite T3; exact Hw).
    assert (Hr3 : memd d (sq_read g3) = false) by (unfold sq_read; rewrite T3; exact Hr).
    destruct (IH g3 (Datatypes.S idx) (fun y Hy => Hl y (or_intror Hy)) S3 Hw3 Hr3 O3 ltac:(lia)) as (g' & E' & X' & S' & T' & O').
    exists g'. split; [exact E'|]. split.
    + rewrite (skipn_nth (map (Wcol d) cs) idx (Wcol d c) (map_nth_error (Wcol d) idx cs Ec)).
      unfold sel_edges. cbn [combine flat_map fst snd]. apply (ext_trans g2 g3 g'); [|exact X'].
      rewrite ES. cbn [flat_map]. rewrite app_nil_r. apply (ext_eqb _ _ _ _ X3). apply acl_edges_eqb. exact Ecol.
    + split; [exact S'|]. split; [intros k; rewrite T', T3; reflexivity|exact O'].
Qed.

Lemma select_core_cols_f g1 cols :
  gok g1 -> finv ts L g1 -> lits_in (QC ts NM) g1 -> sq_write g1 = [d] -> memd d (sq_read g1) = false ->
  out_edges g1 (NData d) = OE d cs -> List.length cols = List.length cs ->
  (forall x, In x cols -> xref_ok_f ts L NM x) ->
  exists sub, (do g2 <- end_of_query_cleanup e g1 ts cols []; expand_wildcard e g2) = Ok sub /\
              ext g1 sub (map (fun v => (NData v, NStr (dalias v))) ts ++ sel_edges d (S_of ts) (combine cols (map (Wcol d) cs))) /\
              sinv ts L NM sub /\ (forall k, k <> "read" -> holder_nodes sub k = holder_nodes g1 k).
Proof.
  intros Hg Hf Hq Hw Hr Ho Hlen HX.
  destruct (add_reads_f d ts Hgo L NM ts g1 (fun v Hv => Hv) Hf Hq) as (A1 & A2 & A3 & A4).
  destruct (fold_add_read ts g1 Hg Hdo) as (G1 & G2 & _).
  rewrite eoq_single. cbv zeta. set (g0 := fold_left add_read ts g1) in *.
  assert (Hw0 : sq_write g0 = [d]) by (unfold sq_write; rewrite G2 by discriminate; exact Hw).
  rewrite Hw0.
  assert (Hr0 : memd d (sq_read g0) = false).
  { destruct (memd d (sq_read g0)) eqn:E; [|reflexivity]. exfalso. apply memd_In_eqb in E. destruct E as (v & Hv & Ev).
    unfold sq_read, g0 in Hv. apply reads_after_add_reads in Hv; [|exact (go_tables _ _ Hgo)].
    destruct Hv as [Hv|(w & Hw' & Ew)].
    - assert (K : memd d (sq_read g1) = true) by (unfold memd; apply existsb_exists; exists v; auto). congruence.
    - assert (K : dataset_eqb w d = true) by (apply (dataset_eqb_trans w v d Ew); apply dataset_eqb_true_sym; exact Ev).
      rewrite (go_target _ _ Hgo w Hw') in K. discriminate. }
  assert (Hs0 : sinv ts L NM g0).
  { constructor; [exact G1|exact A1| |exact A2]. intros v Hv.
    assert (Hin : In (NData v, NStr (dalias v)) (map (fun v => (NData v, NStr (dalias v))) ts)) by (apply in_map_iff; exists v; auto).
    split.
    - rewrite (ext_edges _ _ _ A3). apply orb_true_iff. right. unfold ematch. apply existsb_exists. eexists. split; [exact Hin|].
      cbn [fst snd]. rewrite !node_eqb_refl. reflexivity.
    - exact (proj1 (ext_new _ _ _ A3 _ Hin)). }
  destruct (eoq_fold_cols_f cols Hlen HX cols g0 0 (fun x Hx => Hx) Hs0 Hw0 Hr0) as (g' & E' & X' & S' & T' & _).
  - rewrite A4. exact Ho.
  - reflexivity.
  - rewrite E'. rewrite (expand_wildcard_id_f e Hprov ts L g' (sv_finv _ _ _ _ S')).
    exists g'. split; [reflexivity|]. split; [cbn [skipn] in X'; apply (ext_trans g1 g0 g'); assumption|]. split; [exact S'|].
    intros k Hk. rewrite T'. apply G2. exact Hk.
Qed.
End CoreK.

(* ================================================================== *)
(** * Part 3: the frame when the base holder carries the write columns of the INSERT column list *)
Lemma out_edges_compose_other g h n :
  (forall e0, In e0 (gedges h) -> node_eqb n (fst (fst e0)) = false) -> out_edges (compose g h) n = out_edges g n.
Proof.
  intros H. unfold out_edges, compose. cbn [gedges]. set (ns := fold_left _ (gnodes h) (gnodes g)). clearbody ns.
  revert H. generalize (gedges g). induction (gedges h) as [|e1 r IH]; intros l H; cbn [fold_left]; [reflexivity|].
  rewrite IH by (intros e0 He0; apply H; right; exact He0). apply out_edges_upsert_other.
  rewrite <- (node_eqb_cong_r _ _ n (canon_eqb (fst (fst e1)) ns)). apply H. left. reflexivity.
Qed.

Lemma xcol_ok_of items : forallb item_ok items = true -> Forall xcol_ok (map xcol_of items).
Proof.
  intros Hit. apply Forall_forall. intros x Hx. apply in_map_iff in Hx. destruct Hx as (i & <- & Hi). rewrite forallb_forall in Hit.
  destruct (xcol_of_facts i (Hit i Hi)) as (F1 & F2 & _ & F4). split; [rewrite F1; reflexivity|].
  intros c q Hin. rewrite F2 in Hin. destruct Hin as [Hin|[]]. destruct (item_ref i) as [c0 o]. inversion Hin. subst. cbn [snd] in F4. apply id_ok_count. exact F4.
Qed.

Section FrameK.
Variable e : env.
Hypothesis Henv : env_ok e = true.
Variable sqd : dataset.
Hypothesis Hsqk : dk sqd = KSubq.
Hypothesis Hsqok : data_ok sqd.
Variable ts' : list dataset.
Variable xs' : list xcol.
Hypothesis Hgo' : group_ok sqd ts'.
Hypothesis Hdo' : Forall data_ok ts'.
Hypothesis HX' : forall x, In x xs' -> xref_ok_f ts' LF [] x.
Hypothesis Hxok' : Forall xcol_ok xs'.
Variable d : dataset.
Variable ts : list dataset.
Variable NM : list string.
Hypothesis Hd : dk d = KTable.
Hypothesis Hd_ok : data_ok d.
Hypothesis Hgo : group_ok d ts.
Hypothesis Hdo : Forall data_ok ts.
Hypothesis Hnoself : forall v', In v' ts' -> dataset_eqb v' d = false.
Hypothesis Hcross : forall nm x' c qq, In nm NM -> In x' xs' -> xsrc x' = [(c, qq)] -> c <> escape nm.
Variable cs : list string.
Hypothesis Hndc : NoDup cs.

Variable sh : graph.
Hypothesis Esh : (do g2 <- end_of_query_cleanup e (add_write empty_graph sqd) ts' xs' []; expand_wildcard e g2) = Ok sh.
Hypothesis HE : forall x y, has_edge sh x y = ematch x y (EL' sqd ts' xs').
Hypothesis Hs : sinv ts' LF [] sh.
Hypothesis Tw : holder_nodes sh "write" = [sqd].
Hypothesis Tc : holder_nodes sh "cte" = [].

Lemma sh_reads v : In v (holder_nodes sh "read") -> dataset_eqb v d = false.
Proof.
  intros Hv. destruct (dataset_eqb v d) eqn:E; [|reflexivity]. exfalso.
  set (gbi := add_write empty_graph sqd).
  assert (G : gok gbi) by (apply gok_add_tag; [apply gok_empty|exact Hsqok]).
  destruct (select_tail e Henv gbi ts' xs' [] G Hdo' Hxok') as (g3 & E3 & _ & _ & Hr); [cbn; lia|].
  unfold gbi in E3. rewrite Esh in E3. inversion E3. subst g3.
  pose proof (gok_data sh v "read" (sv_gok _ _ _ _ Hs) Hv) as Dv.
  assert (Kv : dk v = KTable) by (rewrite (dataset_eqb_dk _ _ E); exact Hd).
  destruct (eqb_table_dstr v d E Dv Hd_ok Kv) as [_ Ed].
  assert (T1 : tset sh "read" (dstr d)) by (exists v; split; [exact Hv|split; [exact Kv|symmetry; exact Ed]]).
  apply Hr in T1. destruct T1 as [(x & [] & _)|(v' & Hv' & Kv' & Ev')].
  assert (Tv' : tab_ok v') by (apply (ts_tab_ok sqd ts' Hgo' Hdo' v' Hv')).
  pose proof (tab_ok_dstr_eqb v' d Tv' (conj Hd Hd_ok) Ev') as K. rewrite (Hnoself v' Hv') in K. discriminate K.
Qed.

Lemma frame_facts_cols :
  let gb := gb_of d cs in
  let g1 := frame_of gb sh sqd in
  gok g1 /\ finv ts (leak ts') g1 /\ lits_in (QC ts NM) g1 /\ sq_write g1 = [d] /\ sq_cte g1 = [] /\
  memd d (sq_read g1) = false /\ out_edges g1 (NData d) = OE d cs /\
  (forall x y, has_edge gb x y = true -> has_edge g1 x y = true) /\
  (forall x y, is_column x = true -> has_edge g1 x y = true -> parent_is KSubq y = true) /\
  (forall x y, parent_is KSubq x = true -> has_edge g1 x y = false) /\
  (forall nm y, has_edge g1 (NCol {| craw := nm; cparents := [d] |}) y = false) /\
  (forall nm p w, In nm NM -> tab_ok p -> In w ts -> dataset_eqb p w = true -> has_edge g1 (NData p) (NCol (mk_col nm p)) = false).
Proof.
  intros gb g1.
  destruct (frame_facts sqd Hsqk ts' xs' Hgo' Hdo' HX' d ts NM Hd Hd_ok Hgo Hdo Hnoself Hcross sh HE Hs Tw Tc)
    as (_ & F0 & L0 & _ & _ & N0 & FR3 & FR4 & FR5 & FR6).
  set (g0 := frame_of (add_write empty_graph d) sh sqd) in *.
  destruct (gb_facts d cs Hd Hndc) as (GA & GB & GC & GD & GO). fold gb in GA, GB, GC, GD, GO.
  assert (Ggb : gok gb).
  { apply (cstep_add_write_column (add_write empty_graph d) (cl_of cs)); [apply gok_add_tag; [apply gok_empty|exact Hd_ok]|].
    intros t0 _. apply Forall_forall. intros c Hc. unfold cl_of in Hc. apply in_map_iff in Hc. destruct Hc as (c0 & <- & _). left. reflexivity. }
  assert (Wgb : sq_write gb = [d]) by (unfold sq_write; rewrite GC; reflexivity).
  assert (Cgb : sq_cte gb = []) by (unfold sq_cte; rewrite GC; reflexivity).
  destruct (frame_tags gb sh sqd d Ggb (sv_gok _ _ _ _ Hs) Hsqk Hd Wgb Cgb Tw Tc) as (G1 & W1 & C1).
  assert (Hsh0 : forall x y, has_edge g0 x y = has_edge sh x y) by (intros x y; unfold g0; apply frame_edges; reflexivity).
  assert (HE1 : forall x y, has_edge g1 x y = has_edge gb x y || has_edge g0 x y).
  { intros x y. unfold g1, frame_of. rewrite has_edge_compose, has_edge_set_attr, Hsh0. reflexivity. }
  assert (Hgbe : forall x y, has_edge gb x y = true -> node_eqb x (NData d) = true).
  { intros x y H. apply has_edge_In in H. destruct H as (e0 & He0 & E1 & _). rewrite GA in He0. destruct (OE_edge d cs e0 He0) as (j & c & _ & ->). exact E1. }
  assert (Hgbn : forall x y, (forall v, x <> NData v) -> has_edge gb x y = false).
  { intros x y Hx. destruct (has_edge gb x y) eqn:E; [|reflexivity]. apply Hgbe in E. destruct x as [v| |]; cbn in E; try discriminate. exfalso. exact (Hx v eq_refl). }
  assert (Esh' : forall e0, In e0 (gedges (set_attr sh [NData sqd] "write" false)) -> In e0 (gedges sh)) by (intros e0 H; exact H).
  assert (Hshd : forall e0, In e0 (gedges sh) -> node_eqb (NData d) (fst (fst e0)) = false).
  { intros e0 He0. destruct (node_eqb (NData d) (fst (fst e0))) eqn:E; [|reflexivity].
    assert (K : has_edge sh (NData d) (snd (fst e0)) = true) by (apply has_edge_In; exists e0; split; [exact He0|split; [exact E|apply node_eqb_refl]]).
    rewrite <- Hsh0, N0 in K. discriminate. }
  split; [exact G1|]. split; [|split; [|split; [exact W1|split; [exact C1|split; [|split]]]]].
  - (* finv: the edges of the frame are those of the write columns and, up to equality, those of the frame without them *)
    constructor.
    + intros e0 src a He Hf.
      refine (compose_edge_pred (fun u v at0 => forall src al, u = NData src -> v = NStr al ->
                etype at0 = "has_alias" /\ forall w, In w ts -> dataset_eqb src w = true -> al = dalias w \/ leak ts' al w)
              gb _ _ _ _ _ e0 He src a _ _).
      * intros u v at0 u' v' HP E1 E2 src' al -> ->. rewrite node_eqb_sym in E2. apply eqb_shape_str in E2. subst v.
        destruct u as [src0| |]; cbn [node_eqb] in E1; try discriminate. destruct (HP src0 al eq_refl eq_refl) as [Q1 Q2]. split; [exact Q1|].
        intros w Hw Ew. apply (Q2 w Hw). apply (dataset_eqb_trans src0 src' w E1 Ew).
      * intros u v at0 a' HP E src' al Eu Ev. rewrite E. exact (HP src' al Eu Ev).
      * intros e1 He1 src' al _ Ev. rewrite GA in He1. destruct (OE_edge d cs e1 He1) as (j & c & _ & ->). discriminate Ev.
      * intros e1 He1 src' al Eu Ev. apply Esh' in He1. destruct e1 as [[u v] at1]. cbn [fst snd] in *. subst u v.
        split; [exact (proj1 (fi_alias _ _ _ (sv_finv _ _ _ _ Hs) _ src' al He1 eq_refl))|].
        assert (K : has_edge sh (NData src') (NStr al) = true).
        { apply has_edge_In. eexists. split; [exact He1|]. cbn [fst snd]. rewrite !node_eqb_refl. auto. }
        rewrite HE in K. unfold EL' in K. rewrite ematch_app, ematch_sel_ystr, orb_false_r in K.
        apply ematch_alias_in in K. destruct K as (v' & Hv' & E1 & E2). inversion E2. subst al. cbn [node_eqb] in E1.
        intros w Hw Ew. right. exists v'. split; [exact Hv'|]. split; [reflexivity|].
        apply (dataset_eqb_trans v' src' w); [apply dataset_eqb_true_sym; exact E1|exact Ew].
      * rewrite Hf. reflexivity.
      * rewrite Hf. reflexivity.
    + intros e0 He.
      refine (compose_edge_pred (fun _ _ at0 => etype at0 = "lineage" \/ etype at0 = "has_column" \/ etype at0 = "has_alias") gb _ _ _ _ _ e0 He).
      * auto.
      * intros u v at0 a' HP E. rewrite E. exact HP.
      * intros e1 He1. rewrite GA in He1. destruct (OE_edge d cs e1 He1) as (j & c & _ & ->). right. left. reflexivity.
      * intros e1 He1. exact (fi_types _ _ _ (sv_finv _ _ _ _ Hs) e1 (Esh' e1 He1)).
    + intros e0 c p He Hf Hc.
      refine (compose_edge_pred (fun u _ _ => forall c p, u = NCol c -> cparents c = [p] -> dk p = KTable) gb _ _ _ _ _ e0 He c p Hf Hc).
      * intros u v at0 u' v' HP E1 _ c' p' -> Hc'. destruct u as [|cu|]; cbn [node_eqb] in E1; try discriminate.
        unfold col_eqb in E1. apply andb_true_iff in E1. destruct E1 as [_ E1]. unfold col_parent at 2 in E1. rewrite Hc' in E1.
        destruct (col_parent cu) as [pu|] eqn:Ecu; cbn [opt_dataset_eqb] in E1; [|discriminate].
        rewrite <- (dataset_eqb_dk _ _ E1). exact (HP cu pu eq_refl (col_parent_some _ _ Ecu)).
      * intros u v at0 a' HP _. exact HP.
      * intros e1 He1 c' p' Eu _. rewrite GA in He1. destruct (OE_edge d cs e1 He1) as (j & c0 & _ & ->). discriminate Eu.
      * intros e1 He1 c' p' Eu Hc'. exact (fi_srcq _ _ _ (sv_finv _ _ _ _ Hs) e1 c' p' (Esh' e1 He1) Eu Hc').
    + unfold g1, frame_of. apply drop_free_compose; [exact GD|]. apply drop_free_set_attr_write. exact (fi_drop _ _ _ (sv_finv _ _ _ _ Hs)).
  - (* stored column objects *)
    unfold g1, frame_of. apply lits_compose.
    + assert (Qn : forall n, In n (map fst (gnodes gb)) -> QC ts NM n).
      { intros n Hn. rewrite GB in Hn. destruct Hn as [<-|Hn]; [exact I|]. apply in_map_iff in Hn. destruct Hn as (c & <- & _). left. reflexivity. }
      split; [exact Qn|]. intros e0 He0. rewrite GA in He0. destruct (OE_edge d cs e0 He0) as (j & c & _ & ->). cbn [fst snd]. split; [exact I|left; reflexivity].
    + apply lits_set_attr. apply (lits_weaken (QC ts' [])); [|exact (sv_lits _ _ _ _ Hs)]. intros n Hn. destruct n as [|c|]; try exact I.
      cbn [QC] in *. destruct Hn as [Hn|(_ & [[] _] & _)]. left. exact Hn.
  - (* the target is not read *)
    destruct (memd d (sq_read g1)) eqn:E; [|reflexivity]. exfalso. apply memd_In_eqb in E. destruct E as (v & Hv & Ev).
    unfold sq_read, g1, frame_of in Hv.
    destruct (tag_compose_sound gb _ "read" v (gok_set_attr_write sh sqd (sv_gok _ _ _ _ Hs) Hsqk) Hv) as [K|(d' & K & Ed')].
    + rewrite GC in K. destruct K.
    + rewrite (tag_set_attr_other sh _ "write" false "read") in K by discriminate.
      assert (K2 : dataset_eqb d' d = true) by (apply (dataset_eqb_trans d' v d Ed'); apply dataset_eqb_true_sym; exact Ev).
      rewrite (sh_reads d' K) in K2. discriminate.
  - unfold g1, frame_of. rewrite out_edges_compose_other; [exact GO|]. intros e0 He0. apply Hshd. apply Esh'. exact He0.
  - split; [intros x y H; rewrite HE1, H; reflexivity|]. split; [|split; [|split]].
    + intros x y Hx Hxy. rewrite HE1, Hgbn in Hxy by (intros v ->; discriminate Hx). exact (FR3 x y Hx Hxy).
    + intros x y Hx. rewrite HE1, Hgbn by (intros v ->; discriminate Hx). exact (FR4 x y Hx).
    + intros nm y. rewrite HE1, Hgbn by (intros v; discriminate). exact (FR5 nm y).
    + intros nm p w Hnm Tp Hw Ew. rewrite HE1, (FR6 nm p w Hnm Tp Hw Ew), orb_false_r.
      destruct (has_edge gb (NData p) _) eqn:E; [|reflexivity]. apply Hgbe in E. cbn [node_eqb] in E.
      assert (K : dataset_eqb w d = true) by (apply (dataset_eqb_trans w p d); [apply dataset_eqb_true_sym; exact Ew|exact E]).
      rewrite (go_target _ _ Hgo w Hw) in K. discriminate.
Qed.
End FrameK.

(* ================================================================== *)
(** * Part 4: navigation and the model side for INSERT INTO t (c1, .., cn) SELECT .. WHERE c IN (SELECT ..) *)
Section NavKW.
Variable noise : list seg.
Hypothesis Hnoise : noise_ok noise = true.
Variable e : env.
Hypothesis Henv : env_ok e = true.

Lemma analyze_insert_cols_q t cs items from cj wh :
  tref_ok t = true -> forallb id_ok cs = true ->
  let q := QSelect items from cj wh in
  let stmt := r_stmt noise (SInsert t (Some cs) q) in
  analyze e false stmt =
  (do sub <- extract (S (S (S (3 * depth stmt + 6)))) e XSelect (r_query noise (S (q_size q)) q) (dctx (gb_of (tbl e t None) cs));
   Ok (compose (gb_of (tbl e t None) cs) sub)).
Proof.
  intros Ht Hcs q stmt0. set (k := q_size q). set (Q := r_query noise (S k) q).
  set (stmt := node "insert_statement" ["insert_statement"] (sep noise ([kw "insert"; kw "into"; r_tref t] ++ cols_part noise (Some cs) ++ [Q]))).
  assert (Es : stmt0 = stmt) by reflexivity. rewrite Es.
  assert (Ea : analyze e false stmt = extract (S (S (S (S (3 * depth stmt + 6))))) e XCreateInsert stmt empty_ctx).
  { replace (S (S (S (S (3 * depth stmt + 6))))) with (3 * depth stmt + 10) by lia. reflexivity. }
  set (F := 3 * depth stmt + 6) in *.
  rewrite Ea, extract_ci_eq. unfold stmt at 2. rewrite (lcs_node noise Hnoise) by reflexivity.
  rewrite !filter_app, (filter_nn_cols noise). cbn [cols_part filter app]. change (nn (kw "insert")) with true. change (nn (kw "into")) with true.
  change (nn (r_tref t)) with true. unfold Q at 1. rewrite (nn_rq noise). cbn iota. fold Q.
  change (init_holder empty_ctx) with empty_graph. cbn [app fold_left].
  rewrite (ci_kw_target e (S (S (S F))) stmt empty_graph false false "insert" eq_refl), (ci_kw_target e (S (S (S F))) stmt empty_graph true false "into" eq_refl).
  rewrite (ci_tref e Henv), (table_of_seg_exact e Henv t None Ht I).
  rewrite (ci_cols_exact noise Hnoise e (S (S F)) stmt _ cs Hcs).
  change (add_write_column (add_write empty_graph (tbl e t None)) (cl_of cs)) with (gb_of (tbl e t None) cs).
  unfold Q, q. rewrite ci_select. unfold ex_delegate. fold (dctx (gb_of (tbl e t None) cs)).
  destruct (extract (S (S (S F))) e XSelect _ _); reflexivity.
Qed.
End NavKW.

Theorem model_pairs_wherein1_cols noise e t cs items from cj c items' from' cj' :
  noise_ok noise = true -> env_ok e = true ->
  let q := QSelect items from cj (Some (c, QSelect items' from' cj' None)) in
  tref_ok t = true -> forallb id_ok cs = true -> NoDup cs -> List.length cs = List.length items ->
  forallb item_ok items = true -> from <> [] -> forallb rel_ok from = true ->
  forallb item_ok items' = true -> from' <> [] -> forallb rel_ok from' = true ->
  let d := tbl e t None in let ts := map (tbl_of e) from in let xs := map xcol_of items in
  let ts' := map (tbl_of e) from' in let xs' := map xcol_of items' in
  let NM := unres_names ts xs in
  group_ok d ts -> ts_inj ts -> names_nodot ts -> NoDup (map dstr ts) ->
  ts_inj ts' -> names_nodot ts' -> (forall v', In v' ts' -> dataset_eqb v' d = false) ->
  (forall x, In x xs -> xref_ok_f ts (leak ts') NM x) -> noqual ts xs ->
  (forall x', In x' xs' -> xref_ok_f ts' LF [] x') ->
  (forall nm x' c0 qq, In nm NM -> In x' xs' -> xsrc x' = [(c0, qq)] -> c0 <> nm) ->
  script_pairs e false [] [r_stmt noise (SInsert t (Some cs) q)] =
  uniq_sorted (sort_strings (map flow_str (flows_of (S_of ts) (combine xs (map (Wcol d) cs))))).
Proof.
  intros Hn He q Ht Hcs Hndc Hlen Hit Hne Hrel Hit' Hne' Hrel' d ts xs ts' xs' NM Hgo Hinj Hnd Hnds Hinj' Hnd' Hnoself HX Hnq HX' Hcross.
  set (s := SInsert t (Some cs) q).
  set (e' := with_cols e (view_cols [] [])).
  assert (He' : env_ok e' = true) by exact He.
  assert (Hp : p_truthy (e_provider e') = false) by exact (proj1 (env_facts e' He')).
  assert (Htab : forall (fr : list rel), forallb rel_ok fr = true -> forall v, In v (map (tbl_of e') fr) -> tab_ok v).
  { intros fr Hfr v Hv. apply in_map_iff in Hv. destruct Hv as (r & <- & Hr). rewrite forallb_forall in Hfr. specialize (Hfr r Hr).
    destruct r; try discriminate. split; reflexivity. }
  assert (Hdo : Forall data_ok ts) by (apply Forall_forall; intros v Hv; exact (proj2 (Htab from Hrel v Hv))).
  assert (Hdo' : Forall data_ok ts') by (apply Forall_forall; intros v Hv; exact (proj2 (Htab from' Hrel' v Hv))).
  set (sq := QSelect items' from' cj' None) in *.
  assert (Hk : exists k, q_size q = S k) by (eexists; apply q_size_select). destruct Hk as [k Hk].
  set (sqd := mk_subquery (r_brq noise (S k) sq) None).
  assert (Hsqk : dk sqd = KSubq) by reflexivity.
  assert (Hsqok : data_ok sqd) by (unfold data_ok; cbn; discriminate).
  assert (Hgo' : group_ok sqd ts').
  { constructor; [intros v Hv; exact (proj1 (Htab from' Hrel' v Hv))|exact (proj1 Hinj')|].
    intros v Hv. unfold dataset_eqb. rewrite (proj1 (Htab from' Hrel' v Hv)), Hsqk. reflexivity. }
  set (gb := gb_of d cs).
  destruct (gb_facts d cs eq_refl Hndc) as (GA & GB & GC & GD & GO). fold gb in GA, GB, GC, GD, GO.
  assert (Cgb : sq_cte gb = []) by (unfold sq_cte; rewrite GC; reflexivity).
  destruct (inner_holder e' Hp sqd Hsqok ts' xs' Hgo' Hinj' Hnd' Hdo' HX') as (sh & Esh & HEsh & Ssh & Twsh & Tcsh).
  assert (Hcross' : forall nm x' c0 qq, In nm NM -> In x' xs' -> xsrc x' = [(c0, qq)] -> c0 <> escape nm).
  { intros nm x' c0 qq Hnm Hx' Exs. replace (escape nm) with nm; [exact (Hcross nm x' c0 qq Hnm Hx' Exs)|].
    unfold NM, unres_names in Hnm.
    assert (Hin : In nm (flat_map (fun x => match xsrc x with [(c1, None)] => [c1] | _ => [] end) xs)) by (destruct ts as [|a [|b r]]; [exact Hnm|destruct Hnm|exact Hnm]).
    apply in_flat_map in Hin. destruct Hin as (x & Hx & Hin). destruct (HX x Hx) as (_ & c1 & qq1 & Ex & Hc1 & _). rewrite Ex in Hin.
    destruct qq1; [destruct Hin|]. destruct Hin as [<-|[]]. symmetry. exact Hc1. }
  destruct (frame_facts_cols e' He' sqd Hsqk Hsqok ts' xs' Hgo' Hdo' HX' (xcol_ok_of items' Hit') d ts NM eq_refl eq_refl Hgo Hdo Hnoself Hcross' cs Hndc sh Esh HEsh Ssh Twsh Tcsh)
    as (G1 & F1 & L1 & W1 & C1 & R1 & O1 & Sub1 & FR3 & FR4 & FR5 & FR6).
  fold gb in G1, F1, L1, W1, C1, R1, O1, Sub1, FR3, FR4, FR5, FR6. set (g1 := frame_of gb sh sqd) in *.
  assert (Hlx : List.length xs = List.length cs) by (unfold xs; rewrite map_length; lia).
  destruct (select_core_cols_f e' Hp d ts Hgo Hinj Hnd Hdo eq_refl (leak ts')) with (NM := NM) (cs := cs) (g1 := g1) (cols := xs) as (sub & Esub & Xsub & Ssub & Tsub); try assumption.
  { intros a w v (v' & Hv' & -> & _) Hv K.
    apply in_map_iff in Hv'. destruct Hv' as (r' & <- & Hr'). apply in_map_iff in Hv. destruct Hv as (r & <- & Hr).
    rewrite forallb_forall in Hrel, Hrel'. pose proof (Hrel r Hr) as Ok1. pose proof (Hrel' r' Hr') as Ok2.
    destruct r as [t1 al1| |]; try discriminate. destruct r' as [t2 al2| |]; try discriminate. cbn [tbl_of tbl dalias dstr] in K.
    cbn [rel_ok] in Ok2. apply andb_true_iff in Ok2. destruct Ok2 as [Ht2 Ha2]. unfold tref_ok in Ht2. apply andb_true_iff in Ht2.
    destruct al2 as [a2|]; [exact (id_ok_not_tref a2 _ _ Ha2 (eq_sym K))|exact (id_ok_not_tref (snd t2) _ _ (proj1 Ht2) (eq_sym K))]. }
  assert (Hinit : init_holder (dctx gb) = gb) by (apply init_delegate_cols; [reflexivity|exact Hndc]).
  assert (Ea : analyze e' false (r_stmt noise s) = Ok (compose gb sub)).
  { unfold s, q. rewrite (analyze_insert_cols_q noise Hn e' He' t cs items from cj _ Ht Hcs).
    set (F := 3 * depth _ + 6). change (q_size (QSelect items from cj (Some (c, sq)))) with (q_size q). rewrite Hk. change (tbl e' t None) with d. fold gb.
    assert (Ein : extract (S (S F)) e' XSelect (r_brq noise (S k) sq)
                    {| c_cte := Some (sq_cte (init_holder (dctx gb))); c_write := Some [sqd]; c_write_columns := None |} = Ok sh).
    { rewrite Hinit, Cgb.
      rewrite (select_tables_extract noise Hn e' He' F _ items' from' cj' k); [exact Esh| |exact Hit'|exact Hne'|exact Hrel'|reflexivity].
      unfold sq. rewrite (sel_segments_brq_select noise Hn). reflexivity. }
    rewrite (extract_select_where noise Hn e' He' (S F) _ items from cj k c sq (dctx gb) sh); [| |exact Hit|exact Hne|exact Hrel| |exact Ein|].
    - rewrite Hinit. fold sqd. fold g1. change (map (tbl_of e') from) with ts. change (map xcol_of items) with xs. rewrite Esub. reflexivity.
    - rewrite (sel_segments_top_select noise Hn). unfold clauses. rewrite r_wh_some. reflexivity.
    - apply body_ok_tables; assumption.
    - rewrite Hinit. exact C1. }
  assert (Hxs : forall x, In x xs -> xref_ok ts x) by (intros x Hx; apply (xref_ok_f_old ts (leak ts') NM x (HX x Hx))).
  destruct (holder_realises_g d ts (leak ts') xs gb (combine xs (map (Wcol d) cs)) g1 sub Hgo Hinj Hdo Hnds eq_refl HX) as (K1 & K2 & K3 & K4); try assumption.
  - intros nm Hnm. unfold unres_names in Hnm.
    assert (Hns : forall (A : Type) (f : dataset -> A) (g : A), In nm (match ts with [_] => [] | _ => [nm] end) -> match ts with [d1] => f d1 | _ => g end = g).
    { intros A f g. destruct ts as [|a [|b r]]; [reflexivity|intros []|reflexivity]. }
    assert (Hin : In nm (flat_map (fun x => match xsrc x with [(c1, None)] => [c1] | _ => [] end) xs) /\ In nm (match ts with [_] => [] | _ => [nm] end)).
    { destruct ts as [|a [|b r]]; [split; [exact Hnm|left; reflexivity]|destruct Hnm|split; [exact Hnm|left; reflexivity]]. }
    destruct Hin as [Hin Hsh]. apply in_flat_map in Hin. destruct Hin as (x & Hx & Hin). exists x. split; [exact Hx|].
    unfold S_of. destruct (xsrc x) as [|[c1 qq] rest]; [destruct Hin|]. destruct qq as [q1|]; [destruct Hin|].
    destruct rest as [|p r]; [|destruct Hin]. destruct Hin as [->|[]].
    rewrite (Hns _ _ _ Hsh). left. reflexivity.
  - intros x' s' nm v Hnm Hx' Hs' Ev. unfold unres_names in Hnm.
    assert (Hm : In nm (flat_map (fun x => match xsrc x with [(c1, None)] => [c1] | _ => [] end) xs) /\ (forall d1, ts <> [d1])).
    { destruct ts as [|a [|b r]]; [split; [exact Hnm|discriminate]|destruct Hnm|split; [exact Hnm|discriminate]]. }
    destruct Hm as [Hin Hns]. apply in_flat_map in Hin. destruct Hin as (x & Hx & Hin).
    destruct (Hxs x Hx) as (_ & c1 & qq & Ex & _ & Hq). rewrite Ex in Hin. destruct qq as [q1|]; [destruct Hin|]. destruct Hin as [->|[]].
    destruct Hq as [(d1 & Ed)|[Hmul _]]; [exfalso; exact (Hns d1 Ed)|].
    destruct (Hxs x' Hx') as (_ & c' & qq' & Ex' & _ & Hq'). unfold S_of in Hs'. rewrite Ex' in Hs'. destruct qq' as [q'|].
    + destruct Hq' as (v' & Hv' & Eq' & Hu'). rewrite (find_dalias ts q' v' Hv' Eq' (fun w Hw E => Hu' w Hw (or_introl E))) in Hs'.
      destruct Hs' as [<-|[]]. cbn [craw]. apply (Hnq x x' nm c' q' Hx Hx' Ex Ex' Hmul).
    + rewrite (multi_not_single ts _ _ _ Hmul) in Hs'. destruct Hs' as [<-|[]].
      destruct (Ucol_props ts c' Hinj) as (_ & _ & U3). destruct Hmul as (a & b & Ha & Hb & Hab).
      pose proof (two_members _ a b (proj2 (U3 a) Ha) (proj2 (U3 b) Hb) Hab) as Hl. rewrite Ev in Hl. cbn in Hl. lia.
  - intros [x w] Hp0. split; [exact (in_combine_l _ _ _ _ Hp0)|]. apply in_combine_r in Hp0. apply in_map_iff in Hp0.
    destruct Hp0 as (c0 & <- & _). reflexivity.
  - intros x Hx. apply (In_combine_l_ex xs (map (Wcol d) cs) x); [rewrite map_length; exact Hlx|exact Hx].
  - assert (Qn : forall n, In n (map fst (gnodes gb)) -> QC ts NM n).
    { intros n Hn0. rewrite GB in Hn0. destruct Hn0 as [<-|Hn0]; [exact I|]. apply in_map_iff in Hn0. destruct Hn0 as (c0 & <- & _). left. reflexivity. }
    split; [exact Qn|]. intros e0 He0. rewrite GA in He0. destruct (OE_edge d cs e0 He0) as (j & c0 & _ & ->). cbn [fst snd]. split; [exact I|left; reflexivity].
  - intros e0 He0. rewrite GA in He0. destruct (OE_edge d cs e0 He0) as (j & c0 & _ & ->). reflexivity.
  - apply (script_pairs_of_holder_in e (r_stmt noise s) _ _ Ea (proj1 (env_facts e He)) K1 K2 K3 K4).
Qed.
Print Assumptions model_pairs_wherein1_cols.

(* ================================================================== *)
(** * Part 5: the specification with a column list, and Lemma B on the fragment with or without column list *)
Lemma spec_strs_insert_cols_w ds t cs items from cj wh :
  forallb is_rtable from = true -> List.length cs = List.length items ->
  (forall i, In i items -> exists srcs, item_cols (map (sbind ds) from) i = [(item_name i, srcs)]) ->
  map (fun p => (show_src (fst p) ++ ">" ++ snd p)%string) (spec_flows ds (SInsert t (Some cs) (QSelect items from cj wh))) =
  flat_map (fun ic : item * string =>
              map (fun sr => (show_src sr ++ ">" ++ tref_str ds t ++ "." ++ snd ic)%string)
                  (flat_map snd (item_cols (map (sbind ds) from) (fst ic)))) (combine items cs).
Proof.
  intros Hrt Hlen Hs. unfold spec_flows. rewrite (q_cols_select _ ds items from cj wh Hrt).
  set (IC := item_cols (map (sbind ds) from)) in *.
  assert (Hl : List.length (flat_map IC items) = List.length items).
  { apply length_flat_single. intros i Hi. destruct (Hs i Hi) as (srcs & E). eexists. exact E. }
  rewrite Hl, Hlen, Nat.eqb_refl. clear Hl.
  revert cs Hlen. induction items as [|i r IH]; intros [|c0 cr] Hlen; cbn [List.length] in Hlen; try discriminate; [reflexivity|].
  destruct (Hs i (or_introl eq_refl)) as (srcs & E). cbn [flat_map combine fst snd]. rewrite E. cbn [app combine flat_map fst snd map].
  rewrite map_app, app_nil_r. f_equal; [rewrite map_map; reflexivity|].
  apply IH; [intros i' Hi'; apply Hs; right; exact Hi'|lia].
Qed.

Lemma colshape_cols_w (s : stmt) t cs items from cj wh :
  s = SInsert t (Some cs) (QSelect items from cj wh) -> colshape s = true ->
  forallb rel_ok from = true -> forallb item_ok items = true -> tables_cond "" t from -> items_cond from items ->
  NoDup cs /\ List.length cs = List.length items.
Proof.
  intros -> Hc Hrel Hit Htc Hic. unfold colshape in Hc. apply andb_true_iff in Hc. destruct Hc as [Hc _].
  apply andb_true_iff in Hc. destruct Hc as [Hc _]. apply andb_true_iff in Hc. destruct Hc as [_ Hcc].
  cbn [cs_cols] in Hcc. apply andb_true_iff in Hcc. destruct Hcc as [H1 H2]. split; [apply nodup_s_NoDup; exact H1|].
  assert (Hrt : forallb is_rtable from = true).
  { rewrite forallb_forall in *. intros r Hr. apply rel_ok_table. apply Hrel. exact Hr. }
  apply Nat.eqb_eq in H2. rewrite H2. rewrite (q_cols_select _ "" items from cj wh Hrt).
  apply length_flat_single. intros i Hi.
  destruct (item_cols_single (mk_env "ansi" "" "" {| p_truthy := false; p_cols := [] |} []) t from items Hrel Hit Htc Hic i Hi) as (srcs & E).
  eexists. exact E.
Qed.

Theorem lemma_B_wherein1_insert_cols noise e t cs items from cj c items' from' cj' :
  noise_ok noise = true -> env_ok e = true ->
  tref_ok t = true -> forallb id_ok cs = true -> NoDup cs -> List.length cs = List.length items ->
  forallb item_ok items = true -> from <> [] -> forallb rel_ok from = true ->
  forallb item_ok items' = true -> from' <> [] -> forallb rel_ok from' = true ->
  tables_cond (e_cfg e) t from -> items_cond from items -> noqual_items from items ->
  tables_cond (e_cfg e) t from' -> items_cond from' items' -> resolvedb from' items' = true ->
  items_leakb from from' items = true -> crossb from items items' = true ->
  let s := SInsert t (Some cs) (QSelect items from cj (Some (c, QSelect items' from' cj' None))) in
  script_pairs e false [] [r_stmt noise s] = spec_pairs (e_cfg e) s.
Proof.
  intros Hn He Ht Hcs Hndc Hlen Hit Hne Hrel Hit' Hne' Hrel' Ptc Pic Pnq Ptc' Pic' Hres Hlk Hcr s.
  assert (Hrt : forallb is_rtable from = true).
  { rewrite forallb_forall in *. intros r Hr. apply rel_ok_table. apply Hrel. exact Hr. }
  unfold s. rewrite (model_pairs_wherein1_cols noise e t cs items from cj c items' from' cj' Hn He Ht Hcs Hndc Hlen Hit Hne Hrel Hit' Hne' Hrel'
             (group_ok_of e t from Hrel Ptc) (ts_inj_of e t from Hrel Ptc) (names_nodot_of e from Hrel)).
  - unfold spec_pairs. rewrite (spec_strs_insert_cols_w (e_cfg e) t cs items from cj _ Hrt Hlen (item_cols_single e t from items Hrel Hit Ptc Pic)).
    f_equal. f_equal. unfold flows_of. rewrite combine_map, flat_map_map', map_flat_map'. cbn [fst snd].
    apply flat_map_ext_in'. intros [i c0] Hic'. cbn [fst snd]. pose proof (in_combine_l _ _ _ _ Hic') as Hi.
    rewrite forallb_forall in Hit.
    destruct (item_corr_n e t from i c0 Hrel (Hit i Hi) Ptc (Pic i Hi)) as (srcs & E1 & E2).
    rewrite E1. cbn [flat_map snd app]. rewrite app_nil_r. symmetry. exact E2.
  - rewrite (map_dstr_tbl e from Hrel). exact (proj1 Ptc).
  - exact (ts_inj_of e t from' Hrel' Ptc').
  - exact (names_nodot_of e from' Hrel').
  - intros v' Hv'. exact (go_target _ _ (group_ok_of e t from' Hrel' Ptc') v' Hv').
  - exact (xref_ok_f_of e t from from' items Hrel Hrel' Hit Ptc Pic Hlk).
  - exact (noqual_of e from items Hit Pnq).
  - exact (xref_ok_f_resolved e t from' items' Hrel' Hit' Ptc' Pic' Hres).
  - intros nm x' c0 qq Hnm Hx' Exs Ec. subst c0.
    destruct (unres_names_in e from items nm Hne Hit Hnm) as (Hl & i & Hi & Ei).
    apply in_map_iff in Hx'. destruct Hx' as (i' & <- & Hi'). rewrite forallb_forall in Hit'.
    destruct (xcol_of_facts i' (Hit' i' Hi')) as (_ & F2 & _). rewrite F2 in Exs. inversion Exs as [Eref].
    unfold crossb in Hcr. apply orb_true_iff in Hcr. destruct Hcr as [Hcr|Hcr].
    + apply negb_true_iff in Hcr. apply Nat.leb_gt in Hcr. lia.
    + rewrite forallb_forall in Hcr. specialize (Hcr i Hi). rewrite Ei in Hcr. cbn [fst snd] in Hcr.
      rewrite forallb_forall in Hcr. specialize (Hcr i' Hi'). rewrite Eref in Hcr. cbn [fst] in Hcr. rewrite String.eqb_refl in Hcr. discriminate.
Qed.

(** the fragment, with or without INSERT column list *)
Definition sel_wherein1c_syntactic (s : stmt) : bool :=
  match s with
  | SInsert t _ (QSelect items from _ (Some (_, QSelect items' from' _ None)))
  | SCtas t (QSelect items from _ (Some (_, QSelect items' from' _ None)))
  | SView t (QSelect items from _ (Some (_, QSelect items' from' _ None))) =>
      forallb is_rtable from && trefs_distinct (map rtref from) && forallb is_rtable from' && trefs_distinct (map rtref from')
      && resolvedb from' items'
  | _ => false
  end.

Theorem lemma_B_wherein1c_colshape : forall noise e s,
  noise_ok noise = true -> env_ok e = true -> stmt_ok s = true -> sshape s = true -> colshape s = true ->
  sel_wherein1c_syntactic s = true -> script_pairs e false [] [r_stmt noise s] = spec_pairs (e_cfg e) s.
Proof.
  intros noise e s Hn He Hok Hss Hc Hsyn.
  destruct s as [t [cs|] q|t q|t q|q|kind]; try discriminate Hsyn;
    try (apply lemma_B_wherein1_colshape; try assumption;
         destruct q as [items from cj [[c sq]|]| |]; try discriminate Hsyn; destruct sq as [items' from' cj' [wh'|]| |]; try discriminate Hsyn; exact Hsyn).
  destruct q as [items from cj [[c sq]|]| |]; try discriminate Hsyn. destruct sq as [items' from' cj' [wh'|]| |]; try discriminate Hsyn.
  cbn [sel_wherein1c_syntactic] in Hsyn.
  apply andb_true_iff in Hsyn. destruct Hsyn as [Hsh Hres]. apply andb_true_iff in Hsh. destruct Hsh as [Hsh Hd'].
  apply andb_true_iff in Hsh. destruct Hsh as [Hsh Hrt']. apply andb_true_iff in Hsh. destruct Hsh as [Hrt Hd].
  cbn [stmt_ok] in Hok. apply andb_true_iff in Hok. destruct Hok as [Hok Hcs].
  destruct (stmt_ok_select_w t items from cj c items' from' cj' Hok Hrt Hrt') as (Ht & Hit & Hne & Hrel & Hit' & Hne' & Hrel').
  set (s := SInsert t (Some cs) (QSelect items from cj (Some (c, QSelect items' from' cj' None)))) in *.
  assert (Hs' : (exists cols, s = SInsert t cols (QSelect items from cj (Some (c, QSelect items' from' cj' None)))) \/
                s = SCtas t (QSelect items from cj (Some (c, QSelect items' from' cj' None))) \/
                s = SView t (QSelect items from cj (Some (c, QSelect items' from' cj' None)))) by (left; exists (Some cs); reflexivity).
  destruct (colshape_wherein1 (e_cfg e) s t items from cj c items' from' cj' Hs' Hc Ht Hne Hrel Hit Hne' Hrel' Hit' Hd Hd')
    as (Tc & Ic & Nq & Tc' & Ic' & _ & Hlk & Hcr).
  destruct (colshape_wherein1 "" s t items from cj c items' from' cj' Hs' Hc Ht Hne Hrel Hit Hne' Hrel' Hit' Hd Hd') as (Tc0 & _).
  destruct (colshape_cols_w s t cs items from cj _ eq_refl Hc Hrel Hit Tc0 Ic) as [Hndc Hlen].
  apply (lemma_B_wherein1_insert_cols noise e t cs items from cj c items' from' cj'); assumption.
Qed.
Print Assumptions lemma_B_wherein1c_colshape.

Example wherein1c_nonvacuous :
  let s := SInsert tx (Some ["m"; "n"]) (selw [ci None "a"; ci (Some "t") "b"] [tb "t"] false "a" (sel1 [ci None "a"] [tba "t" "u"])) in
  noise_ok [ws5; cm5] && env_ok e_s5 && stmt_ok s && sshape s && colshape s && sel_wherein1c_syntactic s = true.
Proof. vm_compute. reflexivity. Qed.
Example wherein1c_nonvacuous2 :
  let s := SInsert tx (Some ["m"; "n"]) (selw [ci None "a"; ci (Some "v") "b"] [tb "t"; tb "v"] true "a" (sel1 [ci (Some "v") "c"] [tb "v"; tb "w"])) in
  noise_ok [ws5] && env_ok e_cxB && stmt_ok s && sshape s && colshape s && sel_wherein1c_syntactic s = true.
Proof. vm_compute. reflexivity. Qed.
