(** Lemma B, step 5d: the statement tested on instances before proving; non-vacuity of [lemma_B_one_cte]. *)
From SV Require Import Tree.Render Tree.LemmaA Tree.LemmaAProofs Tree.LemmaB Tree.LemmaBProofs Tree.LemmaB5c Tree.LemmaB5b Tree.LemmaB5dDefs Tree.LemmaB5d Ident.Escape.
Open Scope string_scope. Open Scope list_scope.

Definition b5d_tests : list (list seg * env * stmt) := [
 (* 1 the plain case *)
 ([], b5_e1, SInsert tx None (QWith "c" (sel1 [ci None "a"; ci None "b"] [tb "t"]) (sel1 [ci None "a"; ci None "b"] [tb "c"])));
 (* 2 item aliases in the CTE, the body qualifies by the CTE name and renames *)
 ([b5_ws], b5_e2, SCtas tx (QWith "c" (sel1 [cia None "a" "x1"; cia (Some "t") "b" "x2"] [tb "t"]) (sel1 [ci (Some "c") "x1"; cia (Some "c") "x2" "y"] [tb "c"])));
 (* 3, 4 a star over the CTE (K-C02-9): outside [colshape] *)
 ([], b5_e1, SInsert tx None (QWith "c" (sel1 [ci None "a"] [tb "t"]) (sel1 [IStar None] [tb "c"])));
 ([], b5_e1, SInsert tx None (QWith "c" (sel1 [ci None "a"] [tb "t"]) (sel1 [IStar (Some "c")] [tb "c"])));
 (* 5 the CTE's name is a table read inside its definition: outside [stmt_ok] *)
 ([], b5_e1, SInsert tx None (QWith "t" (sel1 [ci None "a"] [tb "t"]) (sel1 [ci None "a"] [tb "t"])));
 (* 6 the CTE referenced under an alias *)
 ([b5_ws; b5_cm], b5_e1, SView tx (QWith "c" (sel1 [ci None "a"; ci None "b"] [tb "t"]) (sel1 [ci (Some "z") "a"; ci None "b"] [tba "c" "z"])));
 (* 7 dead-end columns *)
 ([], b5_e1, SInsert tx None (QWith "c" (sel1 [ci None "a"; ci None "b"; ci None "d"] [tb "t"]) (sel1 [ci None "b"] [tb "c"])));
 (* 8 an unresolved column in the CTE whose name the body uses: outside [colshape] *)
 ([b5_ws], b5_e1, SInsert tx None (QWith "c" (QSelect [ci None "a"; ci (Some "u") "b"] [tb "t"; tb "u"] true None) (sel1 [ci None "a"; ci None "b"] [tb "c"])));
 (* 9 a star inside the CTE; 10 a column the CTE does not have: outside [colshape] *)
 ([], b5_e1, SInsert tx None (QWith "c" (sel1 [IStar None] [tb "t"]) (sel1 [ci None "a"] [tb "c"])));
 ([], b5_e1, SInsert tx None (QWith "c" (sel1 [ci None "a"] [tb "t"]) (sel1 [ci None "zz"] [tb "c"])));
 (* 11 one source column under two names; 12 names swapped *)
 ([], b5_e2, SCtas tx (QWith "c" (sel1 [cia None "a" "p"; cia None "a" "q"] [tb "t"]) (sel1 [ci None "q"; ci None "p"] [tb "c"])));
 ([], b5_e1, SInsert tx None (QWith "c" (sel1 [cia None "a" "b"; cia None "b" "a"] [tb "t"]) (sel1 [ci None "a"; ci None "b"] [tb "c"])));
 (* 13 INSERT column list *)
 ([], b5_e1, SInsert tx (Some ["m"; "n"]) (QWith "c" (sel1 [ci None "a"; ci None "b"] [tb "t"]) (sel1 [ci None "b"; ci None "a"] [tb "c"])));
 (* 14 the CTE joined with a base table *)
 ([], b5_e1, SInsert tx None (QWith "c" (sel1 [ci None "a"] [tb "t"]) (sel1 [ci (Some "c") "a"; ci (Some "u") "b"] [tb "c"; tb "u"])));
 (* 15 two CTEs: outside [sshape] *)
 ([], b5_e1, SInsert tx None (QWith "c" (sel1 [ci None "a"] [tb "t"]) (QWith "d" (sel1 [ci None "b"] [tb "u"]) (sel1 [ci (Some "c") "a"; ci (Some "d") "b"] [tb "c"; tb "d"]))));
 (* 16 the CTE referenced twice *)
 ([], b5_e1, SInsert tx None (QWith "c" (sel1 [ci None "a"] [tb "t"]) (sel1 [ci (Some "p") "a"; cia (Some "q") "a" "a2"] [tba "c" "p"; tba "c" "q"])));
 (* 17 the CTE named like the target *)
 ([], b5_e1, SInsert tx None (QWith "x" (sel1 [ci None "a"] [tb "t"]) (sel1 [ci None "a"] [tb "x"])));
 (* 18 a schema-qualified table of the CTE's name is a real table *)
 ([], b5_e2, SInsert tx None (QWith "c" (sel1 [ci None "a"] [tb "t"]) (sel1 [ci None "a"] [tbs "s" "c" None])));
 (* 19 the CTE over a join, noise *)
 ([b5_ws], b5_e2, SView tx (QWith "c" (sel1 [ci (Some "t") "a"; cia (Some "u") "b" "bb"] [tb "t"; tb "u"]) (sel1 [ci None "bb"; ci None "a"] [tb "c"])));
 (* 20 the alias of the CTE is the name of a table of its definition: outside [colshape] *)
 ([], b5_e1, SInsert tx None (QWith "c" (sel1 [ci None "a"] [tb "t"]) (sel1 [ci (Some "t") "a"] [tba "c" "t"])));
 (* 21 a body column named like a source column of the CTE *)
 ([], b5_e1, SInsert tx None (QWith "c" (sel1 [cia None "a" "k"] [tb "t"]) (sel1 [cia None "k" "a"] [tb "c"])));
 (* 22 duplicate output names of the CTE *)
 ([], b5_e1, SInsert tx None (QWith "c" (sel1 [ci None "a"; ci None "a"] [tb "t"]) (sel1 [ci None "a"] [tb "c"])));
 (* 23 unresolved column of the CTE under an item alias, alias reference, noise *)
 ([b5_ws; b5_cm], b5_e2, SCtas tx (QWith "c" (QSelect [cia None "zz" "k"; ci (Some "u") "b"] [tb "t"; tb "u"] true None) (sel1 [ci (Some "w") "k"; cia None "b" "b2"; ci None "k"] [tba "c" "w"])))
].
(** [lemma_B_check] (all guards of [lemma_B_statement]): no "FAILS" *)
Lemma b5d_checks :
  map (fun p => lemma_B_check (fst (fst p)) (snd (fst p)) (snd p)) b5d_tests =
  ["holds"; "holds"; "outside"; "outside"; "outside"; "holds"; "holds"; "outside"; "outside"; "outside"; "holds"; "holds"; "holds"; "holds";
   "outside"; "holds"; "outside"; "holds"; "holds"; "outside"; "holds"; "holds"; "holds"].
Proof. vm_compute. reflexivity. Qed.

(** without [colshape]: the star over a CTE (K-C02-9, instances 3, 4), the star inside the CTE read by name (9) and the
    column the CTE does not have (10) fail; [colshape] excludes them *)
Lemma b5d_checks0 :
  map (fun p => lemma_B_check0 (fst (fst p)) (snd (fst p)) (snd p)) b5d_tests =
  ["holds"; "holds"; "FAILS"; "FAILS"; "outside"; "holds"; "holds"; "holds"; "FAILS"; "FAILS"; "holds"; "holds"; "holds"; "holds";
   "outside"; "holds"; "holds"; "holds"; "holds"; "holds"; "holds"; "holds"; "holds"].
Proof. vm_compute. reflexivity. Qed.

(** non-vacuity: the instances inside the guard of [lemma_B_one_cte] (12 of the 23; among them 8, 17 and 20, which are
    outside [colshape]: the guard is on the syntax and does not mention [colshape]) *)
Example b5d_nonvacuous :
  map (fun p => noise_ok (fst (fst p)) && env_ok (snd (fst p)) && one_cte_shape (snd p)) b5d_tests =
  [true; true; false; false; false; true; true; true; false; false; true; true; false; false; false; false; true; false; true; true;
   true; true; true].
Proof. vm_compute. reflexivity. Qed.

(** the theorem on two of them: alias reference; unresolved column of the CTE under an item alias *)
Example b5d_instance_alias :
  script_pairs b5_e1 false [] [r_stmt [b5_ws; b5_cm]
    (SView tx (QWith "c" (sel1 [ci None "a"; ci None "b"] [tb "t"]) (sel1 [ci (Some "z") "a"; ci None "b"] [tba "c" "z"])))] =
  ["<default>.t.a><default>.x.a"; "<default>.t.b><default>.x.b"].
Proof. rewrite lemma_B_one_cte by (vm_compute; reflexivity). vm_compute. reflexivity. Qed.

Example b5d_instance_unres :
  script_pairs b5_e2 false [] [r_stmt [b5_ws; b5_cm]
    (SCtas tx (QWith "c" (QSelect [cia None "zz" "k"; ci (Some "u") "b"] [tb "t"; tb "u"] true None)
                         (sel1 [ci (Some "w") "k"; cia None "b" "b2"; ci None "k"] [tba "c" "w"])))] =
  ["dflt.u.b>dflt.x.b2"; "zz{dflt.t,dflt.u}>dflt.x.k"].
Proof. rewrite lemma_B_one_cte by (vm_compute; reflexivity). vm_compute. reflexivity. Qed.

(** K-C02-9 is the recorded counterexample [cxB_star_cte] of LemmaBProofs.v (16); two CTEs are outside [sshape] *)
Example b5d_two_ctes_outside_sshape :
  sshape (SInsert tx None (QWith "c" (sel1 [ci None "a"] [tb "t"]) (QWith "d" (sel1 [ci None "b"] [tb "u"]) (sel1 [ci (Some "c") "a"; ci (Some "d") "b"] [tb "c"; tb "d"])))) = false.
Proof. vm_compute. reflexivity. Qed.
