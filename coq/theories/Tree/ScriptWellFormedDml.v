(** C06 for scripts with UPDATE / MERGE statements (the script statement type [sstmt] of Tree/ScriptExactDml.v):
    [tag_free] and [owners_dir] for holders built in place, then [script_paths_well_formed_on_core_xd] through
    [script_paths_well_formed_general] (Tree/ScriptExactExpr.v).

    PARTIAL in one respect: besides [dml_cols_ok], [dml_resolved] the statement theorem asks for [dml_ok] (the table-level
    fragment of Lemma A-dml: it gives the read / written tables of the holder; for an UPDATE it excludes a WHERE
    sub-query) and for the executable, specification-only side condition [edges_in_rw]: the source table of every
    specified flow is one of the specified read tables, the target table is the written table. *)
From Coq Require Import Lia.
From SV Require Import Ast.SpecDml Ast.SpecDmlCols Tree.Render Tree.RenderExpr Tree.RenderDml Tree.LemmaA Tree.LemmaAProofs Tree.LemmaADmlDefs Tree.LemmaADml
     Tree.LemmaB Tree.LemmaBProofs Tree.LemmaBExpr Tree.LemmaBDml Holder.PathProofs Tree.ScriptExact Tree.ScriptExactExt Tree.ScriptWellFormed
     Tree.HolderInv Tree.ExtractInv Tree.ScriptExactExpr Tree.ScriptExactDml Tree.ScriptRoles Tree.ScriptRolesDml.
From SV Require Holder.RefineDefs Holder.RefineGraph Holder.CompDefs Holder.Composition.

(** * tags *)
Theorem dml_tag_free : forall noise e d G, analyze e false (r_dml noise d) = Ok G -> RefineDefs.tag_free G = true.
Proof.
  intros noise e d G H. destruct (HI_holder G (analyze_dml_HI noise e d G H)) as [W _].
  unfold RefineDefs.wf_holder in W. apply andb_true_iff in W. destruct W as [W _]. apply andb_true_iff in W. destruct W as [_ W]. exact W.
Qed.
Print Assumptions dml_tag_free.

(** * owners of the column edges *)
Lemma tset_memn G k x : gok G -> tset G k x -> memn (NData (mkT x)) (tagged G k is_dataset) = true.
Proof.
  intros Hg (d & Hd & Hk & Hx). pose proof (gok_data G d k Hg Hd) as Hok.
  assert (Hds : is_dataset (NData d) = true) by (cbn [is_dataset]; rewrite Hk; reflexivity).
  destruct (data_ok_table d Hok Hds) as [_ Hq].
  rewrite holder_nodes_hn in Hd. apply In_hn in Hd. destruct Hd as (a & Hin & Ha).
  unfold memn. apply existsb_exists. exists (NData d). split.
  - unfold tagged. apply in_map_iff. exists (NData d, a). split; [reflexivity|]. apply filter_In. split; [exact Hin|].
    cbn [fst snd]. rewrite Ha, Hds. reflexivity.
  - cbn [node_eqb]. unfold dataset_eqb. cbn [mkT dk deq]. rewrite Hk, Hq, Hx, String.eqb_refl. reflexivity.
Qed.

Lemma owners_dir_edges G Es :
  gok G -> edges_match G Es ->
  (forall u v, In (u, v) Es -> tset G "read" (fst u) /\ tset G "write" (fst v)) ->
  CompDefs.owners_dir (holder_of G) = true.
Proof.
  intros Hg HM HE. unfold CompDefs.owners_dir. apply forallb_forall. intros e He. cbn [hg holder_of] in He.
  destruct (CompDefs.is_cc e) eqn:Ecc; [|reflexivity]. cbn [negb orb]. unfold CompDefs.is_cc in Ecc. apply andb_true_iff in Ecc. destruct Ecc as [C1 C2].
  assert (Hc : CompDefs.col_edge G (RefineDefs.esrc e) (RefineDefs.etgt e) = true).
  { unfold CompDefs.col_edge. rewrite C1, C2. exact (edge_has_edge G e He). }
  apply HM in Hc. destruct Hc as (u & v & Huv & K1 & K2). destruct (HE u v Huv) as [Hr Hw].
  rewrite (Composition.owner_in_cong _ _ _ K1), (Composition.owner_in_cong _ _ _ K2).
  unfold CompDefs.owner_in, CompDefs.ds_owner, nu. cbn [CompDefs.owner col_parent cparents mkT is_dataset dk].
  unfold h_read, h_write. cbn [hg holder_of]. rewrite (tset_memn G "read" (fst u) Hg Hr), (tset_memn G "write" (fst v) Hg Hw). reflexivity.
Qed.

(** the specification-only side condition *)
Definition edges_in_rw (ds : string) (d : dml) : bool :=
  forallb (fun p : vtx * vtx => mem_string (fst (fst p)) (dml_reads ds d) && mem_string (fst (snd p)) (dml_writes ds d)) (dml_edges ds d).

Theorem dml_statement_c06_partial : forall noise e d,
  noise_ok noise = true -> env_ok e = true -> dml_cols_ok d = true -> dml_resolved d = true ->
  dml_ok d = true -> edges_in_rw (e_cfg e) d = true ->
  stmt_facts6 e (r_dml noise d).
Proof.
  intros noise e d Hn He H1 H2 H3 H4.
  destruct (dml_statement noise e d Hn He H1 H2) as (G & Ea & Q1 & Q2 & Q3 & Q4).
  destruct (dml_nodes noise e d Hn He H3) as (G' & Ea' & Hg & Hr & Hw). rewrite Ea in Ea'. inversion Ea'. subst G'.
  exists G. split; [exact Ea|]. split; [exact Q1|]. split; [exact Q2|]. split; [exact Q3|].
  split; [exact (dml_tag_free noise e d G Ea)|].
  apply (owners_dir_edges G _ Hg Q4). intros u v Huv. unfold edges_in_rw in H4. rewrite forallb_forall in H4.
  specialize (H4 (u, v) Huv). cbn [fst snd] in H4. apply andb_true_iff in H4. destruct H4 as [A B].
  split; [apply Hr|apply Hw]; apply mem_string_In; assumption.
Qed.
Print Assumptions dml_statement_c06_partial.

(** * scripts *)
Definition core_sstmt6 (ds : string) (x : sstmt) : Prop :=
  match x with
  | SS s => core_stmt_x s
  | SD d => dml_cols_ok d = true /\ dml_resolved d = true /\ dml_ok d = true /\ edges_in_rw ds d = true
  end.
Definition core_ok6 (ds : string) (x : sstmt) : bool :=
  match x with
  | SS s => core_ok_x2 s
  | SD d => dml_cols_ok d && dml_resolved d && dml_ok d && edges_in_rw ds d
  end.
Lemma core_ok6_sstmt ds x : core_ok6 ds x = true -> core_sstmt6 ds x.
Proof.
  destruct x as [s|d]; cbn [core_ok6 core_sstmt6]; intros H; [exact (core_ok_x2_stmt s H)|].
  apply andb_true_iff in H. destruct H as [H H4]. apply andb_true_iff in H. destruct H as [H H3]. apply andb_true_iff in H. destruct H as [H1 H2]. auto.
Qed.

(** C06 on scripts with expression items, UPDATE and MERGE: every reported path has at least two nodes, every column
    but the first belongs to a target or intermediate table of the script, every column but the last to a source or
    intermediate table *)
Theorem script_paths_well_formed_on_core_xd : forall noise e xs,
  noise_ok noise = true -> env_ok e = true -> Forall (core_sstmt6 (e_cfg e)) xs ->
  exists g, script_graph e false [] (map (r_sstmt noise) xs) = Ok g /\
    forall b path, In path (column_lineage g b false) ->
      2 <= List.length path /\
      (forall n, In n (tl path) -> CompDefs.owner_in n (target_tables g ++ intermediate_tables g) = true) /\
      (forall n, In n (removelast path) -> CompDefs.owner_in n (source_tables g ++ intermediate_tables g) = true).
Proof.
  intros noise e xs Hn He H. apply (script_paths_well_formed_general e _ He).
  induction H as [|x xs Hx _ IH]; cbn [map]; constructor; [|exact IH].
  destruct x as [s|d]; cbn [r_sstmt core_sstmt6] in *.
  - exact (stmt_facts6_x noise e s Hn He Hx).
  - destruct Hx as (H1 & H2 & H3 & H4). exact (dml_statement_c06_partial noise e d Hn He H1 H2 H3 H4).
Qed.
Print Assumptions script_paths_well_formed_on_core_xd.

Definition wf_check_xd (noise : list seg) (e : env) (xs : list sstmt) : string :=
  if negb (noise_ok noise && env_ok e && forallb (core_ok6 (e_cfg e)) xs) then "outside"
  else match script_graph e false [] (map (r_sstmt noise) xs) with
       | Ok g => if forallb (fun b => forallb (path_wf g) (column_lineage g b false)) [true; false] then "holds" else "FAILS"
       | Err _ => "FAILS"
       end.

(** the DML test scripts of Tree/ScriptExactDml.v are inside the guards (the side condition [edges_in_rw] holds of each) *)
Example wf_tests_xd :
  map (wf_check_xd [Tests.ws; Tests.cm] Tests.e1) (firstn 7 TestsD.tests_d) = map (fun _ => "holds") (firstn 7 TestsD.tests_d).
Proof. vm_compute. reflexivity. Qed.

Example script_paths_well_formed_xd_nonvacuous :
  exists g, script_graph Tests.e1 false [] (map (r_sstmt [Tests.ws; Tests.cm]) ExamplesD.chain_upd) = Ok g /\
    map (map node_str) (column_lineage g true false) = [["main.s.a"; "main.m.c"; "main.f.d"]; ["main.s.b"; "main.m.c"; "main.f.d"]] /\
    map node_str (source_tables g) = ["main.s"] /\ map node_str (intermediate_tables g) = ["main.m"] /\ map node_str (target_tables g) = ["main.f"] /\
    forall b path, In path (column_lineage g b false) ->
      2 <= List.length path /\
      (forall n, In n (tl path) -> CompDefs.owner_in n (target_tables g ++ intermediate_tables g) = true) /\
      (forall n, In n (removelast path) -> CompDefs.owner_in n (source_tables g ++ intermediate_tables g) = true).
Proof.
  assert (HF : Forall (core_sstmt6 "main") ExamplesD.chain_upd) by (repeat (constructor; [apply core_ok6_sstmt; reflexivity|]); constructor).
  destruct (script_paths_well_formed_on_core_xd [Tests.ws; Tests.cm] Tests.e1 ExamplesD.chain_upd eq_refl eq_refl HF) as (g & Eg & Hg).
  exists g. split; [exact Eg|].
  assert (E : script_graph Tests.e1 false [] (map (r_sstmt [Tests.ws; Tests.cm]) ExamplesD.chain_upd) = Ok g) by exact Eg.
  vm_compute in E. inversion E. subst g. clear E Eg.
  split; [vm_compute; reflexivity|]. split; [vm_compute; reflexivity|]. split; [vm_compute; reflexivity|]. split; [vm_compute; reflexivity|]. exact Hg.
Qed.

Example dml_statement_c06_nonvacuous :
  stmt_facts6 Tests.e1 (r_dml [Tests.ws; Tests.cm] (DMerge (None, "m") (Some "mm") (RTable (Some "s2", "u") (Some "y")) [("c", Some "y", "b")] (Some (["k"], [(None, "k2")])))).
Proof. apply dml_statement_c06_partial; reflexivity. Qed.
