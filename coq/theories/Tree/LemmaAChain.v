(** Lemma A (tables) for CTE CHAINS of any length:  WITH n1 AS (c1), .., nm AS (cm) <body>  as the query of a plain statement
    or the source of INSERT (with / without column list) / CTAS / VIEW, on the tree rendered by [r_stmt_c] (one
    with_compound_statement, as the parser produces it).  The definitions c_i and the body are WITH-free queries of the
    step-5 fragment (derived tables, WHERE-IN, unions of plain SELECTs, any depth, expression items). *)
From Coq Require Import Permutation Lia.
From SV Require Import Tree.Render Tree.RenderExpr Tree.RenderChain Tree.ExprItem Tree.LemmaA Tree.LemmaAProofs Tree.LemmaB Tree.LemmaBProofs Tree.LemmaAExpr
     Ident.Escape Ident.EscapeProofs Holder.PathProofs Holder.SortProofs.
From SV Require TriviaProofs.

(** * guards *)
Definition q_ok (ctes : list string) (c : query) : bool :=
  frag_query_x (kq c) c && names_ok_q_x (kq c) ctes c && qshape (kq c) c.

(** (1) every definition and the body are in the fragment; CTE names are identifiers *)
Definition chain_frag (ch : list (string * query)) (b : query) : bool :=
  forallb (fun nc => id_ok (fst nc) && q_ok [] (snd nc)) ch && q_ok [] b.

(** (2) K-chain-1: a definition does not read a table that carries its own name or the name of a LATER CTE of the chain
    ([ctes]: the names defined before it).  The implementation resolves a name against ALL CTEs of the WITH clause, SQL
    only against the earlier ones: [with a as (select x from b), b as (select x from t) select x from a] reads the base
    table b, the implementation reports only t. *)
Fixpoint chain_guard (ctes : list string) (ch : list (string * query)) : bool :=
  match ch with
  | [] => true
  | nc :: r =>
      forallb (fun m => negb (mem_string (tref_str "" (None, m)) (q_reads (kq (snd nc)) "" ctes (snd nc)))) (fst nc :: map fst r)
      && chain_guard (fst nc :: ctes) r
  end.

(** (3) K-chain-2: the definitions have pairwise different texts.  The implementation identifies sub-queries by their text:
    of two CTEs with the same text only the first is registered, and a reference to the second is reported as a table:
    [with a as (select x from t), b as (select x from t) select x from b] is reported to read <default>.b. *)
Definition chain_texts (noise : list seg) (ch : list (string * query)) : bool :=
  nodup_s (map (fun nc => raw (r_brq_c noise (snd nc))) ch).

Definition chain_ok (noise : list seg) (q : query) : bool :=
  let '(ch, b) := chain_of q in
  negb (match ch with [] => true | _ => false end) && chain_frag ch b && chain_guard [] ch && chain_texts noise ch.

Definition stmt_ok_c (noise : list seg) (s : stmt) : bool :=
  match s with
  | SInsert t cols q => tref_ok t && match cols with Some cs => forallb id_ok cs | None => true end && chain_ok noise q
  | SCtas t q | SView t q => tref_ok t && chain_ok noise q
  | SQuery q => chain_ok noise q
  | SNoData _ => false
  end.

Definition lemma_Ac_check (guarded : bool) (noise : list seg) (e : env) (s : stmt) : string :=
  if negb (noise_ok noise && env_ok e) || (guarded && negb (stmt_ok_c noise s)) then "outside"
  else if list_eqb (stmt_reads (analyze e false (r_stmt_c noise s))) (sort_strings (spec_reads (e_cfg e) s))
          && list_eqb (stmt_writes (analyze e false (r_stmt_c noise s))) (sort_strings (spec_writes (e_cfg e) s))
       then "holds" else "FAILS".

(** * tests *)
Definition cI (c : string) : item := IExpr (EColRef None c) None.
Definition selT (n : string) : query := QSelect [cI "x"] [RTable (None, n) None] false None.
Definition selS (s n : string) : query := QSelect [cI "x"; IExpr (EFun (EColRef None "y") ELit) (Some "k")] [RTable (Some s, n) None] false None.
Definition sel2 (a b : string) : query := QSelect [IStar None] [RTable (None, a) (Some "u"); RTable (None, b) None] false None.
Definition chainT : list stmt := [
  (* 1 *) SQuery (QWith "a" (selT "t") (QWith "b" (selT "a") (selT "b")));
  (* 2 *) SInsert (None, "o") None (QWith "a" (selT "t") (QWith "b" (selT "a") (selT "b")));
  (* 3 *) SInsert (Some "s", "o") (Some ["p"]) (QWith "a" (selT "t") (QWith "b" (selT "u") (QWith "c" (sel2 "a" "b") (selT "c"))));
  (* 4: a CTE unused *) SCtas (None, "o") (QWith "a" (selT "t") (QWith "b" (selT "u") (selT "a")));
  (* 5: the name of a CTE also names a schema-qualified base table *) SView (None, "o") (QWith "a" (selT "t") (QWith "b" (selS "s" "a") (sel2 "b" "a")));
  (* 6: the body reads a base table and CTEs *) SQuery (QWith "a" (selT "t") (QWith "b" (selT "a") (sel2 "b" "w")));
  (* 7: derived table / where-in / union inside the definitions *)
        SQuery (QWith "a" (QSelect [cI "x"] [RDerived (selT "t") "d"] false (Some ("x", selT "t2")))
                (QWith "b" (QUnion (selT "a") (selT "t3")) (QUnion (selT "b") (selT "a"))));
  (* 8: one CTE *) SInsert (None, "o") None (QWith "a" (selT "t") (selT "a"));
  (* 9: four CTEs, each reading the one before *) SQuery (QWith "a" (selT "t") (QWith "b" (selT "a") (QWith "c" (selT "b") (QWith "d" (selT "c") (selT "d")))));
  (* 10: the target has the name of a CTE *) SInsert (None, "a") None (QWith "a" (selT "t") (selT "a"));
  (* 11: a CTE named like a base table read by an EARLIER definition is fine only if ... it is not: later name *)
        SQuery (QWith "a" (selT "b") (QWith "b" (selT "t") (selT "a")));
  (* 12: a definition reading a table of its own name *) SQuery (QWith "a" (selT "a") (selT "a"));
  (* 13: two definitions with the same text *) SQuery (QWith "a" (selT "t") (QWith "b" (selT "t") (selT "b")));
  (* 14: the same name twice *) SQuery (QWith "a" (selT "t") (QWith "a" (selT "u") (selT "a")));
  (* 15: same text, both unused by name clash: second referenced only *) SInsert (None, "o") None (QWith "a" (selT "t") (QWith "b" (selT "t") (selT "a")));
  (* 16: later CTE shadows a base table used in the body of an earlier definition via a derived table *)
        SQuery (QWith "a" (QSelect [cI "x"] [RDerived (selT "c") "d"] false None) (QWith "c" (selT "t") (sel2 "a" "c")));
  (* 17: a WITH inside the body (not a chain member) *) SQuery (QWith "a" (selT "t") (QSelect [cI "x"] [RDerived (QWith "z" (selT "u") (selT "z")) "d"] false None))
].

Example chain_tests :
  map (fun s => (lemma_Ac_check true [ws; cmt] e0 s, lemma_Ac_check false [ws] e0 s)) chainT =
  [("holds", "holds"); ("holds", "holds"); ("holds", "holds"); ("holds", "holds"); ("holds", "holds"); ("holds", "holds");
   ("holds", "holds"); ("holds", "holds"); ("holds", "holds"); ("holds", "holds"); ("outside", "FAILS"); ("outside", "FAILS");
   ("outside", "FAILS"); ("holds", "holds"); ("outside", "holds"); ("outside", "FAILS"); ("outside", "holds")].
Proof. vm_compute. reflexivity. Qed.

(** * the statement without the guards (2), (3) is false *)
Definition lemma_Ac_unguarded : Prop :=
  forall noise e s, noise_ok noise = true -> env_ok e = true ->
    (match s with SQuery q => let '(ch, b) := chain_of q in chain_frag ch b | _ => false end) = true ->
    stmt_reads (analyze e false (r_stmt_c noise s)) = sort_strings (spec_reads (e_cfg e) s).
Definition cxC_later_name : stmt := SQuery (QWith "a" (selT "b") (QWith "b" (selT "t") (selT "a"))).
Definition cxC_same_text : stmt := SQuery (QWith "a" (selT "t") (QWith "b" (selT "t") (selT "b"))).
Theorem lemma_Ac_unguarded_refuted : ~ lemma_Ac_unguarded.
Proof. intros H. specialize (H [] e0 cxC_later_name eq_refl eq_refl eq_refl). vm_compute in H. discriminate H. Qed.
Lemma cxC_facts :
  stmt_reads (analyze e0 false (r_stmt_c [] cxC_later_name)) = ["<default>.t"] /\ spec_reads "" cxC_later_name = ["<default>.b"; "<default>.t"] /\
  stmt_reads (analyze e0 false (r_stmt_c [] cxC_same_text)) = ["<default>.b"; "<default>.t"] /\ spec_reads "" cxC_same_text = ["<default>.t"] /\
  chain_guard [] (fst (chain_of (QWith "a" (selT "b") (QWith "b" (selT "t") (selT "a"))))) = false /\
  chain_texts [] (fst (chain_of (QWith "a" (selT "t") (QWith "b" (selT "t") (selT "b"))))) = false.
Proof. vm_compute. repeat split. Qed.

(* ================================================================== *)
(** * proofs *)
Lemma chain_unchain q : unchain (fst (chain_of q)) (snd (chain_of q)) = q.
Proof.
  induction q as [items from cj wh|a IHa b IHb|n c IHc b IHb]; try reflexivity.
  cbn [chain_of]. destruct (chain_of b) as [l body]. cbn [fst snd unchain fold_right] in *. rewrite IHb. reflexivity.
Qed.

Lemma q_reads_ctes_irrelevant k q L ctes :
  body_ok k q = true -> (forall n, In n L -> ~ In (tref_str "" (None, n)) (q_reads k "" ctes q)) ->
  forall ds, q_reads k ds (L ++ ctes) q = q_reads k ds ctes q.
Proof.
  intros Hq. induction L as [|n L IH]; intros H ds; [reflexivity|]. cbn [app].
  assert (IH' := IH (fun m Hm => H m (or_intror Hm))).
  rewrite (q_reads_cte_irrelevant k q ds n (L ++ ctes) Hq); [apply IH'|]. rewrite IH'. apply H. left. reflexivity.
Qed.

(** the specification of a chain, definition by definition *)
Fixpoint chain_spec (ds : string) (ctes : list string) (ch : list (string * query)) (b : query) : list string :=
  match ch with
  | [] => q_reads (kq b) ds ctes b
  | nc :: r => q_reads (kq (snd nc)) ds ctes (snd nc) ++ chain_spec ds (fst nc :: ctes) r b
  end.

Definition chain_bodies (ch : list (string * query)) (b : query) : Prop :=
  (forall nc, In nc ch -> body_ok (kq (snd nc)) (snd nc) = true /\ id_ok (fst nc) = true) /\ body_ok (kq b) b = true.

Lemma chain_frag_bodies ch b : chain_frag ch b = true -> chain_bodies ch b.
Proof.
  unfold chain_frag, q_ok. intros H. apply andb_true_iff in H. destruct H as [H Hb]. split.
  - intros nc Hnc. rewrite forallb_forall in H. specialize (H nc Hnc). apply andb_true_iff in H. destruct H as [Hid H].
    apply andb_true_iff in H. destruct H as [H H3]. apply andb_true_iff in H. destruct H as [H1 H2].
    split; [apply (body_ok_of _ [] _ H1 H2 H3)|exact Hid].
  - apply andb_true_iff in Hb. destruct Hb as [Hb H3]. apply andb_true_iff in Hb. destruct Hb as [H1 H2]. apply (body_ok_of _ [] _ H1 H2 H3).
Qed.

Lemma chain_spec_eq ds ch b : chain_bodies ch b -> forall ctes K, q_size (unchain ch b) < K ->
  q_reads K ds ctes (unchain ch b) = chain_spec ds ctes ch b.
Proof.
  intros [Hc Hb]. induction ch as [|nc r IH]; intros ctes K HK; cbn [unchain fold_right chain_spec] in *.
  - apply q_reads_fuel; [exact Hb|exact HK].
  - destruct K as [|K]; [lia|].
    assert (Eq : forall n c b0, q_size (QWith n c b0) = S (q_size c + q_size b0)) by reflexivity. rewrite Eq in HK. cbn [q_reads]. f_equal.
    + apply q_reads_fuel; [apply (Hc nc); left; reflexivity|lia].
    + apply IH; [intros x Hx; apply Hc; right; exact Hx|unfold unchain; lia].
Qed.

(** as sets: every definition and the body read under ALL names of the chain *)
Lemma chain_spec_all ds ch b : chain_bodies ch b -> forall ctes, chain_guard ctes ch = true ->
  forall x, In x (chain_spec ds ctes ch b) <->
            In x (flat_map (fun nc => q_reads (kq (snd nc)) ds (rev (map fst ch) ++ ctes) (snd nc)) ch) \/
            In x (q_reads (kq b) ds (rev (map fst ch) ++ ctes) b).
Proof.
  intros [Hc Hb]. induction ch as [|nc r IH]; intros ctes Hg x; cbn [chain_spec flat_map map rev app].
  - cbn [In]. tauto.
  - cbn [chain_guard] in Hg. apply andb_true_iff in Hg. destruct Hg as [Hg1 Hg2].
    assert (Eall : rev (map fst r) ++ [fst nc] = rev (map fst r) ++ [fst nc]) by reflexivity.
    rewrite <- !app_assoc. cbn [app].
    assert (E1 : q_reads (kq (snd nc)) ds (rev (map fst r) ++ fst nc :: ctes) (snd nc) = q_reads (kq (snd nc)) ds ctes (snd nc)).
    { replace (rev (map fst r) ++ fst nc :: ctes) with ((rev (map fst r) ++ [fst nc]) ++ ctes) by (rewrite <- app_assoc; reflexivity).
      apply q_reads_ctes_irrelevant; [apply (Hc nc); left; reflexivity|].
      intros n Hn. rewrite forallb_forall in Hg1. assert (Hin : In n (fst nc :: map fst r)).
      { apply in_app_iff in Hn. destruct Hn as [Hn|[<-|[]]]; [right; apply in_rev; exact Hn|left; reflexivity]. }
      specialize (Hg1 n Hin). apply negb_true_iff in Hg1. apply mem_string_false in Hg1. exact Hg1. }
    rewrite E1, !in_app_iff. rewrite (IH (fun y Hy => Hc y (or_intror Hy)) (fst nc :: ctes) Hg2 x). tauto.
Qed.

Section NavChain.
Variable noise : list seg.
Hypothesis Hnoise : noise_ok noise = true.
Variable e : env.
Hypothesis Henv : env_ok e = true.

Definition Dsq (nc : string * query) : dataset := mk_subquery (r_brq noise (kq (snd nc)) (snd nc)) (Some (fst nc)).
Definition Tsq (nc : string * query) : sqT := (kq (snd nc), snd nc, Some (fst nc)).

Lemma r_cte_c_eq nc : r_cte_c noise nc = r_cte noise (kq (snd nc)) (fst nc) (snd nc).
Proof. reflexivity. Qed.

Lemma lcs_with_c ch b bb :
  list_child_segments (r_with_c noise ch b) bb = kw "with" :: map (r_cte_c noise) ch ++ [r_query_x noise (kq b) b].
Proof.
  unfold r_with_c. rewrite (lcs_node noise Hnoise) by reflexivity. cbn [filter]. change (nn (kw "with")) with true. cbn iota.
  rewrite filter_app. cbn [filter]. rewrite (nn_rq noise). f_equal. f_equal.
  apply filter_intersperse; [reflexivity|]. intros y Hy. apply in_map_iff in Hy. destruct Hy as (nc & <- & _). reflexivity.
Qed.

Lemma cte_fold f ch : forall g subs,
  (forall nc, In nc ch -> body_ok (kq (snd nc)) (snd nc) = true /\ id_ok (fst nc) = true) ->
  fold_left (cte_step f e) (map (r_cte_c noise) ch) (Ok (g, subs)) = Ok (fold_left add_cte (map Dsq ch) g, subs ++ map Dsq ch).
Proof.
  induction ch as [|nc r IH]; intros g subs H; cbn [map fold_left]; [rewrite app_nil_r; reflexivity|].
  destruct (H nc (or_introl eq_refl)) as [Hb Hid]. rewrite r_cte_c_eq, (cte_step_cte noise Hnoise e f g subs _ _ _ Hb Hid).
  fold (Dsq nc). rewrite (IH _ _ (fun y Hy => H y (or_intror Hy))). rewrite <- app_assoc. reflexivity.
Qed.

(** registering sub-queries with pairwise different texts in a holder without sub-queries *)
Lemma add_ctes_nodes Ds : forall g,
  (forall D, In D Ds -> dk D = KSubq /\ has_node g (NData D) = false) ->
  NoDup (map deq Ds) ->
  gnodes (fold_left add_cte Ds g) = gnodes g ++ map (fun D => (NData D, [("cte", true)])) Ds.
Proof.
  induction Ds as [|D r IH]; intros g H Hnd; cbn [fold_left map]; [rewrite app_nil_r; reflexivity|].
  cbn [map] in Hnd. inversion Hnd as [|x l Hx Hl]. subst.
  assert (E1 : gnodes (add_cte g D) = gnodes g ++ [(NData D, [("cte", true)])]).
  { unfold add_cte, add_node. cbn [gnodes]. apply upsert_new. apply (H D). left. reflexivity. }
  rewrite IH; [rewrite E1, <- app_assoc; reflexivity| |exact Hl].
  intros D' HD'. destruct (H D' (or_intror HD')) as [Hk Hn]. split; [exact Hk|].
  unfold has_node in *. rewrite E1, has_node_l_app, Hn. cbn [has_node_l orb fst]. rewrite orb_false_r. cbn [node_eqb].
  unfold dataset_eqb. destruct (String.eqb (deq D') (deq D)) eqn:E; [|apply andb_false_r].
  apply String.eqb_eq in E. exfalso. apply Hx. rewrite <- E. apply in_map. exact HD'.
Qed.

Lemma gok_add_ctes Ds : forall g, gok g -> (forall D, In D Ds -> data_ok D) -> gok (fold_left add_cte Ds g).
Proof.
  induction Ds as [|D r IH]; intros g Hg H; [exact Hg|]. cbn [fold_left]. apply IH; [|intros D' HD'; apply H; right; exact HD'].
  apply gok_add_tag; [exact Hg|apply H; left; reflexivity].
Qed.

Lemma xcte_chain_ok f ctx ch b :
  Pre (init_holder ctx) [] -> no_subq (init_holder ctx) ->
  ch <> [] -> chain_bodies ch b -> chain_guard [] ch = true -> chain_texts noise ch = true ->
  (forall nc, In nc ch -> qd (kq (snd nc)) (snd nc) < f) -> qd (kq b) b < f ->
  exists g, extract (S f) e XCte (r_with_c noise ch b) ctx = Ok g /\ gok g /\
            (forall x, tset g "read" x <-> tset (init_holder ctx) "read" x \/ In x (chain_spec (e_cfg e) [] ch b)) /\
            (forall d, In d (holder_nodes g "write") <-> In d (holder_nodes (init_holder ctx) "write")).
Proof.
  intros Hpre Hns Hne Hbod Hguard Htxt Hfc Hfb. set (g0 := init_holder ctx) in *. destruct Hbod as [Hc Hb].
  set (ALL := rev (map fst ch)). set (Ds := map Dsq ch).
  destruct Hpre as (P1 & [P2 P2'] & P3).
  assert (Ecte0 : sq_cte g0 = []).
  { destruct (sq_cte g0) as [|c0 r] eqn:E; [reflexivity|]. destruct (P2 c0) as [[] _]. left. reflexivity. }
  assert (HDk : forall D, In D Ds -> dk D = KSubq /\ data_ok D).
  { intros D HD. unfold Ds in HD. apply in_map_iff in HD. destruct HD as (nc & <- & _). split; [reflexivity|unfold data_ok; cbn; discriminate]. }
  assert (Hnd : NoDup (map deq Ds)).
  { unfold Ds. rewrite map_map. unfold chain_texts in Htxt. apply nodup_s_NoDup in Htxt. exact Htxt. }
  set (gm := fold_left add_cte Ds g0).
  assert (Egm : gnodes gm = gnodes g0 ++ map (fun D => (NData D, [("cte", true)])) Ds).
  { apply add_ctes_nodes; [|exact Hnd]. intros D HD. split; [exact (proj1 (HDk D HD))|].
    apply no_subq_has_node; [exact Hns|exact (proj1 (HDk D HD))]. }
  assert (Hhn : forall k0, holder_nodes gm k0 = holder_nodes g0 k0 ++ (if String.eqb k0 "cte" then Ds else [])).
  { intros k0. rewrite !holder_nodes_hn, Egm, hn_app. f_equal. unfold hn. clear. induction Ds as [|D r IH]; [destruct (String.eqb k0 "cte"); reflexivity|].
    cbn [map flat_map fst snd]. rewrite IH. unfold attr_true. cbn [attr_get]. destruct (String.eqb k0 "cte"); reflexivity. }
  assert (Ggm : gok gm).
  { apply gok_add_ctes; [exact P1|intros D HD; apply (HDk D HD)]. }
  assert (Hal : forall nc, In nc ch -> dalias (Dsq nc) = fst nc).
  { intros nc Hnc. unfold Dsq. cbn [mk_subquery dalias]. apply id_ok_escape. apply (Hc nc Hnc). }
  assert (Hprem : Pre gm ALL).
  { split; [exact Ggm|]. split.
    - unfold cte_rel, sq_cte. rewrite Hhn. fold (sq_cte g0). rewrite Ecte0. cbn [String.eqb Ascii.eqb Bool.eqb app]. split.
      + intros c0 Hc0. unfold Ds in Hc0. apply in_map_iff in Hc0. destruct Hc0 as (nc & <- & Hnc). split; [|reflexivity].
        rewrite (Hal nc Hnc). unfold ALL. apply in_rev. rewrite rev_involutive. apply in_map. exact Hnc.
      + intros m Hm. unfold ALL in Hm. apply in_rev in Hm. apply in_map_iff in Hm. destruct Hm as (nc & <- & Hnc).
        exists (Dsq nc). split; [unfold Ds; apply in_map; exact Hnc|apply Hal; exact Hnc].
    - intros d1 d2 H1 H2. unfold sq_write in *. rewrite Hhn in H1, H2. cbn [String.eqb Ascii.eqb Bool.eqb] in H1, H2. rewrite app_nil_r in H1, H2.
      apply P3; assumption. }
  assert (Hnsm : forall d, In d (holder_nodes gm "write") -> dk d <> KSubq).
  { intros d Hd. rewrite Hhn in Hd. cbn [String.eqb Ascii.eqb Bool.eqb] in Hd. rewrite app_nil_r in Hd. apply (no_subq_writes g0 d Hns Hd). }
  rewrite extract_cte_eq, lcs_with_c. cbn [fold_left]. fold g0. rewrite cte_step_kw. rewrite fold_left_app.
  rewrite (cte_fold f ch g0 [] Hc). fold Ds. fold gm. cbn [app fold_left].
  rewrite (cte_step_body noise e f gm Ds _ b Hb).
  destruct (delegate_body noise Hnoise e Henv gm ALL f _ b Hprem Hnsm Hb Hfb) as (g2 & E2 & HP2). rewrite E2. cbn [fst snd].
  assert (ET : Ds = map (mk_sq noise) (map Tsq ch)) by (unfold Ds; rewrite map_map; reflexivity). rewrite ET.
  set (K := S (fold_right Nat.max 0 (map (fun nc => kq (snd nc)) ch))).
  destruct (ex_subquery_ok noise Hnoise e ALL K
              (fun k' q' f' ctx' _ Hq' Hf' Hp' => body_main noise Hnoise e Henv ALL k' q' f' ctx' _ Hq' Hf' Hp' (or_intror eq_refl))
              f (map Tsq ch) g2) as (g3 & E3 & HP3).
  { apply Forall_forall. intros t Ht. apply in_map_iff in Ht. destruct Ht as (nc & <- & Hnc). cbn [Tsq fst snd]. split; [|split].
    - unfold K. clear -Hnc. induction ch as [|a r IH]; [destruct Hnc|]. cbn [map fold_right]. destruct Hnc as [->|Hnc]; [lia|]. specialize (IH Hnc). lia.
    - apply (Hc nc Hnc).
    - apply Hfc. exact Hnc. }
  { apply (Pre_Post _ _ _ _ Hprem HP2). }
  rewrite E3. exists g3. pose proof (Post_trans _ _ _ _ _ HP2 HP3) as (A1 & A2 & A3 & A4 & _).
  split; [reflexivity|]. split; [exact A1|]. split.
  - intros x. rewrite A2. rewrite (tset_ext g0 gm "read" x) by (rewrite Hhn; cbn [String.eqb Ascii.eqb Bool.eqb]; apply app_nil_r).
    rewrite (chain_spec_all (e_cfg e) ch b (conj Hc Hb) [] Hguard x). rewrite app_nil_r. fold ALL.
    rewrite in_app_iff, flat_map_map'. cbn [Tsq fst snd]. tauto.
  - intros d. split.
    + intros Hd. apply A3 in Hd. rewrite Hhn in Hd. cbn [String.eqb Ascii.eqb Bool.eqb] in Hd. rewrite app_nil_r in Hd. exact Hd.
    + intros Hd. apply A4; [rewrite Hhn; cbn [String.eqb Ascii.eqb Bool.eqb]; rewrite app_nil_r; exact Hd|apply (no_subq_writes g0 d Hns Hd)].
Qed.
End NavChain.

(* ================================================================== *)
(** * the statement wrappers, for any source segment that the CREATE / INSERT extractor delegates *)
Section Wrap.
Variable noise : list seg.
Hypothesis Hnoise : noise_ok noise = true.
Variable e : env.
Hypothesis Henv : env_ok e = true.
Variable Q : seg.
Variable reads : list string.
Variable FQ : nat.
Hypothesis HQnn : nn Q = true.
Hypothesis HQ : forall f stmt g, FQ <= f -> Pre g [] -> sq_cte g = [] -> (forall d, In d (holder_nodes g "write") -> dk d <> KSubq) ->
  exists g', ci_step f e stmt (Ok (g, false, false)) Q = Ok (g', false, false) /\ RW g g' reads.

Lemma ci_tail_g f stmt g d cols :
  WF g d -> dk d = KTable -> FQ <= S f ->
  exists g', fold_left (ci_step (S f) e stmt) (cols_part noise cols ++ [Q]) (Ok (g, false, false)) = Ok (g', false, false) /\
             gok g' /\ (forall x, tset g' "read" x <-> In x reads) /\ (forall x, tset g' "write" x <-> x = dstr d).
Proof.
  intros HW Hk Hf.
  assert (Hstep : exists g1, fold_left (ci_step (S f) e stmt) (cols_part noise cols) (Ok (g, false, false)) = Ok (g1, false, false) /\ WF g1 d).
  { destruct cols as [cs|]; [|exists g; split; [reflexivity|exact HW]]. cbn [cols_part fold_left].
    destruct (ci_cols noise Hnoise e f stmt g cs) as (cl & E & Hcl). rewrite E. exists (add_write_column g cl). split; [reflexivity|].
    apply (WF_cstep g _ d HW). apply cstep_add_write_column; [exact (proj1 HW)|]. intros t _. apply Forall_forall. intros c Hc.
    rewrite Forall_forall in Hcl. left. apply Hcl. exact Hc. }
  destruct Hstep as (g1 & E1 & HW1). rewrite fold_left_app, E1. cbn [fold_left].
  destruct (WF_facts g1 d HW1 Hk) as (F1 & F2 & F3 & F4 & F5).
  destruct (HQ (S f) stmt g1 Hf F1 F2 F3) as (g' & E2 & (R1 & R2 & R3)). rewrite E2.
  exists g'. split; [reflexivity|]. split; [exact R1|]. split.
  - intros x. rewrite R2. split; [intros [H|H]; [destruct (F4 x H)|exact H]|auto].
  - intros x. rewrite R3. apply F5.
Qed.

Lemma ci_finish_g F stmt t cols d rest :
  table_of_seg e (r_tref t) None = Ok d -> dk d = KTable -> data_ok d -> dstr d = tref_str (e_cfg e) t -> FQ <= S F ->
  (forall g, fold_left (ci_step (S F) e stmt) rest (Ok (g, false, false)) =
             fold_left (ci_step (S F) e stmt) (cols_part noise cols ++ [Q]) (Ok (g, false, false))) ->
  exists g, (do r <- fold_left (ci_step (S F) e stmt) (r_tref t :: rest) (Ok (empty_graph, true, false)); Ok (fst (fst r))) = Ok g /\
            gok g /\ (forall x, tset g "read" x <-> In x reads) /\ (forall x, tset g "write" x <-> x = tref_str (e_cfg e) t).
Proof.
  intros Et Hk Hd Hs Hf Hrest. cbn [fold_left]. rewrite (ci_tref e Henv), Et, Hrest.
  destruct (ci_tail_g F stmt (add_write empty_graph d) d cols (WF_init d Hd) Hk Hf) as (g' & E & G1 & G2 & G3).
  rewrite E. exists g'. split; [reflexivity|]. split; [exact G1|]. split; [exact G2|]. intros x. rewrite G3, Hs. reflexivity.
Qed.

Lemma insert_g t cols :
  tref_ok t = true ->
  let stmt := node "insert_statement" ["insert_statement"] (sep noise ([kw "insert"; kw "into"; r_tref t] ++ cols_part noise cols ++ [Q])) in
  FQ <= 3 * depth stmt + 9 ->
  exists g, analyze e false stmt = Ok g /\ gok g /\ (forall x, tset g "read" x <-> In x reads) /\
            (forall x, tset g "write" x <-> x = tref_str (e_cfg e) t).
Proof.
  intros Ht stmt HF.
  assert (Ea : analyze e false stmt = extract (S (S (3 * depth stmt + 8))) e XCreateInsert stmt empty_ctx).
  { replace (S (S (3 * depth stmt + 8))) with (3 * depth stmt + 10) by lia. reflexivity. }
  set (F := 3 * depth stmt + 8) in *.
  rewrite Ea, extract_ci_eq. unfold stmt at 2. rewrite (lcs_node noise Hnoise) by reflexivity.
  rewrite !filter_app, (filter_nn_cols noise). cbn [filter]. change (nn (kw "insert")) with true. change (nn (kw "into")) with true.
  change (nn (r_tref t)) with true. rewrite HQnn. cbn iota.
  change (init_holder empty_ctx) with empty_graph. cbn [app fold_left].
  rewrite (ci_kw_target e (S F) stmt empty_graph false false "insert" eq_refl), (ci_kw_target e (S F) stmt empty_graph true false "into" eq_refl).
  destruct (table_of_seg_tref e Henv t None Ht) as (d & Et & Hk & Hd & Hs).
  apply (ci_finish_g F stmt t cols d (cols_part noise cols ++ [Q]) Et Hk Hd Hs); [lia|reflexivity].
Qed.

Lemma create_g (view : bool) t :
  tref_ok t = true ->
  let ty0 := if view then "create_view_statement" else "create_table_statement" in
  let stmt := node ty0 [ty0] (sep noise [kw "create"; kw (if view then "view" else "table"); r_tref t; kw "as"; Q]) in
  FQ <= 3 * depth stmt + 9 ->
  exists g, analyze e false stmt = Ok g /\ gok g /\ (forall x, tset g "read" x <-> In x reads) /\
            (forall x, tset g "write" x <-> x = tref_str (e_cfg e) t).
Proof.
  intros Ht ty0 stmt HF. set (w0 := if view then "view" else "table") in *.
  assert (Ea : analyze e false stmt = extract (S (S (3 * depth stmt + 8))) e XCreateInsert stmt empty_ctx).
  { replace (S (S (3 * depth stmt + 8))) with (3 * depth stmt + 10) by lia. destruct view; reflexivity. }
  set (F := 3 * depth stmt + 8) in *.
  rewrite Ea, extract_ci_eq. unfold stmt at 2. rewrite (lcs_node noise Hnoise) by (destruct view; reflexivity).
  cbn [filter]. change (nn (kw "create")) with true. change (nn (kw w0)) with true. change (nn (kw "as")) with true.
  change (nn (r_tref t)) with true. rewrite HQnn. cbn iota.
  change (init_holder empty_ctx) with empty_graph. cbn [fold_left].
  rewrite (ci_kw_other e (S F) stmt empty_graph false "create" eq_refl eq_refl).
  rewrite (ci_kw_target e (S F) stmt empty_graph false false w0) by (destruct view; reflexivity).
  destruct (table_of_seg_tref e Henv t None Ht) as (d & Et & Hk & Hd & Hs).
  apply (ci_finish_g F stmt t None d [kw "as"; Q] Et Hk Hd Hs); [lia|].
  intros g. cbn [fold_left cols_part app]. rewrite (ci_kw_other e (S F) stmt g false "as" eq_refl eq_refl). reflexivity.
Qed.
End Wrap.

(* ================================================================== *)
(** * Lemma A for chains *)
Section ChainMain.
Variable noise : list seg.
Hypothesis Hnoise : noise_ok noise = true.
Variable e : env.
Hypothesis Henv : env_ok e = true.

Lemma depth_sep_in t c l x : In x l -> S (depth x) <= depth (node t c (sep noise l)).
Proof. intros H. apply depth_child. cbn [children node]. apply (In_sep noise). exact H. Qed.

Lemma chain_fuel ch b :
  (forall nc, In nc ch -> qd (kq (snd nc)) (snd nc) < depth (r_with_c noise ch b)) /\ qd (kq b) b < depth (r_with_c noise ch b).
Proof.
  split.
  - intros nc Hnc. pose proof (depth_qd noise (kq (snd nc)) (snd nc)) as H0.
    assert (H1 : S (depth (r_query_x noise (kq (snd nc)) (snd nc))) <= depth (r_brq_c noise (snd nc))) by (apply depth_sep_in; right; left; reflexivity).
    assert (H2 : S (depth (r_brq_c noise (snd nc))) <= depth (r_cte_c noise nc)) by (apply depth_sep_in; right; right; left; reflexivity).
    assert (H3 : S (depth (r_cte_c noise nc)) <= depth (r_with_c noise ch b)).
    { apply depth_sep_in. right. apply in_app_iff. left. apply In_intersperse. apply in_map. exact Hnc. }
    lia.
  - pose proof (depth_qd noise (kq b) b) as H0.
    assert (H1 : S (depth (r_query_x noise (kq b) b)) <= depth (r_with_c noise ch b)).
    { apply depth_sep_in. right. apply in_app_iff. right. left. reflexivity. }
    lia.
Qed.

Lemma ci_source_c ch b f stmt g :
  ch <> [] -> chain_bodies ch b -> chain_guard [] ch = true -> chain_texts noise ch = true ->
  S (depth (r_with_c noise ch b)) <= f -> Pre g [] -> sq_cte g = [] -> (forall d, In d (holder_nodes g "write") -> dk d <> KSubq) ->
  exists g', ci_step f e stmt (Ok (g, false, false)) (r_with_c noise ch b) = Ok (g', false, false) /\ RW g g' (chain_spec (e_cfg e) [] ch b).
Proof.
  intros Hne Hbod Hg Ht Hf Hpre Hcte Hns. destruct f as [|f]; [lia|].
  assert (Estep : ci_step (S f) e stmt (Ok (g, false, false)) (r_with_c noise ch b) =
                  (do g' <- ex_delegate (S f) e XCte (r_with_c noise ch b) g true; Ok (g', false, false))).
  { unfold ci_step. change (tyis (r_with_c noise ch b) "with_compound_statement") with true. cbn iota.
    destruct (ex_delegate (S f) e XCte (r_with_c noise ch b) g true); reflexivity. }
  rewrite Estep. unfold ex_delegate. fold (dctx g). destruct (init_delegate g [] Hpre) as (I0 & I1 & I2 & I3).
  destruct (chain_fuel ch b) as [Hf1 Hf2].
  destruct (xcte_chain_ok noise Hnoise e Henv f (dctx g) ch b I0 (no_subq_init_delegate g Hcte Hns) Hne Hbod Hg Ht
              (fun nc Hnc => ltac:(pose proof (Hf1 nc Hnc); lia)) ltac:(lia)) as (sub & E & S1 & S2 & S3).
  rewrite E. exists (compose g sub). split; [reflexivity|]. apply compose_rw; [exact Hpre|exact Hns|exact S1| |].
  - intros x. rewrite S2. unfold tset at 1. rewrite I2. split; [intros [(d & [] & _)|H]; exact H|auto].
  - intros d Hd. apply I3. apply S3. exact Hd.
Qed.

Lemma nn_with_c ch b : nn (r_with_c noise ch b) = true.
Proof. reflexivity. Qed.

Lemma chain_ok_facts q :
  chain_ok noise q = true ->
  exists ch b, chain_of q = (ch, b) /\ q = unchain ch b /\ ch <> [] /\ chain_bodies ch b /\ chain_guard [] ch = true /\ chain_texts noise ch = true /\
               r_topq_c noise q = r_with_c noise ch b.
Proof.
  unfold chain_ok. pose proof (chain_unchain q) as Hu. destruct (chain_of q) as [ch b] eqn:E. cbn [fst snd] in Hu. intros H.
  apply andb_true_iff in H. destruct H as [H H4]. apply andb_true_iff in H. destruct H as [H H3]. apply andb_true_iff in H. destruct H as [H1 H2].
  exists ch, b. split; [reflexivity|]. split; [symmetry; exact Hu|]. split; [destruct ch; [discriminate|discriminate]|].
  split; [apply chain_frag_bodies; exact H2|]. split; [exact H3|]. split; [exact H4|].
  unfold r_topq_c. rewrite E. destruct ch; [discriminate|reflexivity].
Qed.

Theorem lemma_A_chain s :
  stmt_ok_c noise s = true ->
  stmt_reads (analyze e false (r_stmt_c noise s)) = sort_strings (spec_reads (e_cfg e) s) /\
  stmt_writes (analyze e false (r_stmt_c noise s)) = sort_strings (spec_writes (e_cfg e) s).
Proof.
  intros Hok. destruct s as [t cols q|t q|t q|q|kind]; cbn [stmt_ok_c] in Hok; [| | | |discriminate].
  - apply andb_true_iff in Hok. destruct Hok as [Hok Hq]. apply andb_true_iff in Hok. destruct Hok as [Ht _].
    destruct (chain_ok_facts q Hq) as (ch & b & _ & Eq & Hne & Hbod & Hg & Htx & Er).
    pose proof (insert_g noise Hnoise e Henv (r_with_c noise ch b) (chain_spec (e_cfg e) [] ch b) (S (depth (r_with_c noise ch b)))
                  (nn_with_c ch b)
                  (fun f stmt g Hf Hp Hc Hn => ci_source_c ch b f stmt g Hne Hbod Hg Htx Hf Hp Hc Hn) t cols Ht) as H.
    cbv zeta in H.
    assert (Es : r_stmt_c noise (SInsert t cols q) =
                 node "insert_statement" ["insert_statement"] (sep noise ([kw "insert"; kw "into"; r_tref t] ++ cols_part noise cols ++ [r_with_c noise ch b]))).
    { cbn [r_stmt_c]. rewrite Er. destruct cols; reflexivity. }
    rewrite Es. destruct H as (g & E & G1 & G2 & G3).
    { match goal with |- _ <= 3 * depth ?st + 9 => assert (Hd : S (depth (r_with_c noise ch b)) <= depth st) end.
      { apply depth_sep_in. rewrite !in_app_iff. right. right. left. reflexivity. }
      lia. }
    apply (wrapper_conclusion e _ g t q (SInsert t cols q) E G1); [|exact G3|reflexivity|reflexivity].
    intros x. rewrite G2, Eq. rewrite (chain_spec_eq (e_cfg e) ch b Hbod [] (S (q_size (unchain ch b)))) by lia. reflexivity.
  - apply andb_true_iff in Hok. destruct Hok as [Ht Hq].
    destruct (chain_ok_facts q Hq) as (ch & b & _ & Eq & Hne & Hbod & Hg & Htx & Er).
    pose proof (create_g noise Hnoise e Henv (r_with_c noise ch b) (chain_spec (e_cfg e) [] ch b) (S (depth (r_with_c noise ch b)))
                  (nn_with_c ch b)
                  (fun f stmt g Hf Hp Hc Hn => ci_source_c ch b f stmt g Hne Hbod Hg Htx Hf Hp Hc Hn) false t Ht) as H.
    cbv zeta in H. cbn [r_stmt_c]. rewrite Er. destruct H as (g & E & G1 & G2 & G3).
    { match goal with |- _ <= 3 * depth ?st + 9 => assert (Hd : S (depth (r_with_c noise ch b)) <= depth st) end.
      { apply depth_sep_in. right. right. right. right. left. reflexivity. }
      lia. }
    apply (wrapper_conclusion e _ g t q (SCtas t q) E G1); [|exact G3|reflexivity|reflexivity].
    intros x. rewrite G2, Eq. rewrite (chain_spec_eq (e_cfg e) ch b Hbod [] (S (q_size (unchain ch b)))) by lia. reflexivity.
  - apply andb_true_iff in Hok. destruct Hok as [Ht Hq].
    destruct (chain_ok_facts q Hq) as (ch & b & _ & Eq & Hne & Hbod & Hg & Htx & Er).
    pose proof (create_g noise Hnoise e Henv (r_with_c noise ch b) (chain_spec (e_cfg e) [] ch b) (S (depth (r_with_c noise ch b)))
                  (nn_with_c ch b)
                  (fun f stmt g Hf Hp Hc Hn => ci_source_c ch b f stmt g Hne Hbod Hg Htx Hf Hp Hc Hn) true t Ht) as H.
    cbv zeta in H. cbn [r_stmt_c]. rewrite Er. destruct H as (g & E & G1 & G2 & G3).
    { match goal with |- _ <= 3 * depth ?st + 9 => assert (Hd : S (depth (r_with_c noise ch b)) <= depth st) end.
      { apply depth_sep_in. right. right. right. right. left. reflexivity. }
      lia. }
    apply (wrapper_conclusion e _ g t q (SView t q) E G1); [|exact G3|reflexivity|reflexivity].
    intros x. rewrite G2, Eq. rewrite (chain_spec_eq (e_cfg e) ch b Hbod [] (S (q_size (unchain ch b)))) by lia. reflexivity.
  - destruct (chain_ok_facts q Hok) as (ch & b & _ & Eq & Hne & Hbod & Hg & Htx & Er).
    cbn [r_stmt_c]. rewrite Er. set (stmt := r_with_c noise ch b).
    assert (Ea : analyze e false stmt = extract (S (3 * depth stmt + 9)) e XCte stmt empty_ctx).
    { replace (S (3 * depth stmt + 9)) with (3 * depth stmt + 10) by lia. reflexivity. }
    destruct (chain_fuel ch b) as [Hf1 Hf2]. fold stmt in Hf1, Hf2.
    destruct (xcte_chain_ok noise Hnoise e Henv (3 * depth stmt + 9) empty_ctx ch b Pre_empty no_subq_empty Hne Hbod Hg Htx
                (fun nc Hnc => ltac:(pose proof (Hf1 nc Hnc); lia)) ltac:(lia)) as (g & E & G1 & G2 & G3).
    rewrite Ea. fold stmt in E. rewrite E. change (init_holder empty_ctx) with empty_graph in *. split.
    + unfold spec_reads. apply (stmt_reads_spec _ g); [reflexivity|exact G1|]. intros x. rewrite G2, tset_empty, Eq.
      rewrite (chain_spec_eq (e_cfg e) ch b Hbod [] (S (q_size (unchain ch b)))) by lia. tauto.
    + unfold spec_writes. apply (stmt_writes_spec _ g); [reflexivity|exact G1|constructor|]. intros x. cbn [In]. split; [|tauto].
      intros (d & Hd & _). apply G3 in Hd. destruct Hd.
Qed.
End ChainMain.

(** LEMMA A FOR CTE CHAINS of any length *)
Theorem lemma_A_tables_chain : forall noise e s,
  noise_ok noise = true -> env_ok e = true -> stmt_ok_c noise s = true ->
  stmt_reads (analyze e false (r_stmt_c noise s)) = sort_strings (spec_reads (e_cfg e) s) /\
  stmt_writes (analyze e false (r_stmt_c noise s)) = sort_strings (spec_writes (e_cfg e) s).
Proof. intros noise e s Hn He Hok. apply (lemma_A_chain noise Hn e He s Hok). Qed.
Print Assumptions lemma_A_tables_chain.

Example ex_chain_hyps : noise_ok [ws; cmt] = true /\ env_ok e0 = true /\
  map (stmt_ok_c [ws; cmt]) chainT = [true; true; true; true; true; true; true; true; true; true; false; false; false; true; false; false; false].
Proof. vm_compute. repeat split. Qed.
