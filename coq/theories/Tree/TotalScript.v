(** C10 on ALL segment trees, part 7: the statement loop (Tree/Script.v) and the assembly of the statement holders
    (Holder/Build.v, [script_graph] of Tree/Observe.v).  The only internal error of the assembly is networkx's
    NetworkXError in the RENAME handling (K-C10-5); [rn_guard] on the rename pairs of each statement holder excludes it. *)
From SV Require Import Holder.RefineDefs Holder.PathProofs Holder.RefineGraph.
From SV Require Import Tree.Observe Tree.TotalDefs Tree.TotalTop.
Require Import Lia.
Open Scope string_scope.
Open Scope list_scope.

(* ================================================================== *)
(** * the statement loop *)
Definition c10_ok {A} (r : res A) : Prop :=
  match r with Ok _ => True | Err k => allowed_err k = true \/ k = EValue end.

Theorem run_statements_total : forall stmts e silent base session acc,
  Forall (fun t => escape_free t = true) stmts -> c10_ok (run_statements e silent base stmts session acc).
Proof.
  induction stmts as [|s r IH]; intros e silent base session acc H; cbn [run_statements]; [exact I|].
  inversion H as [|s' r' Hs Hr]; subst.
  pose proof (c10_total_on_all_trees_partial (with_cols e (view_cols session base)) silent s Hs) as K.
  destruct (analyze (with_cols e (view_cols session base)) silent s) as [g|k]; [|exact K]. apply IH. exact Hr.
Qed.
Print Assumptions run_statements_total.

(* ================================================================== *)
(** * the assembly never raises KeyError *)
Lemma do_renames_no_key : forall rs g, do_renames rs g <> ErrKey.
Proof.
  induction rs as [|[old new] r IH]; intros g; cbn [do_renames]; [discriminate|].
  destruct (remove_edge _ new new); [apply IH|discriminate].
Qed.

Lemma step_no_key g h : step g h <> ErrKey.
Proof.
  unfold step. destruct (h_drop h); [|discriminate]. destruct (h_renames h) as [|p r] eqn:E.
  - destruct (h_read h), (h_write h); discriminate.
  - rewrite <- E. apply do_renames_no_key.
Qed.

Lemma fold_steps_no_key : forall hs g, fold_steps g hs <> ErrKey.
Proof.
  induction hs as [|h r IH]; intros g; cbn [fold_steps]; [discriminate|].
  destruct (step g h) eqn:E; [apply IH|discriminate|destruct (step_no_key g h E)].
Qed.

Theorem build_no_key p hs : build p hs <> ErrKey.
Proof. unfold build. destruct (fold_steps empty_graph hs) eqn:E; [discriminate|discriminate|destruct (fold_steps_no_key hs _ E)]. Qed.

(* ================================================================== *)
(** * RENAME: the guard *)
(** the rename pairs of one statement holder, in the order the implementation processes them: a later pair must not
    start from, nor end in, the old name of an earlier pair (that node no longer exists), and must not be the
    self-rename of the new name of an earlier pair (its self-loop has just been removed) *)
Fixpoint rn_guard (rs : list (node * node)) : bool :=
  match rs with
  | [] => true
  | (o, n) :: r =>
      forallb (fun p : node * node =>
                 negb (node_eqb (fst p) o) && negb (node_eqb (snd p) o) && negb (node_eqb (fst p) n && node_eqb (snd p) n)) r
      && rn_guard r
  end.

(** an order-independent sufficient form (what the harness should check - the implementation iterates a set):
    no old name occurs twice, and no new name is also an old name (which also excludes a self-rename) *)
Fixpoint src_distinct (rs : list (node * node)) : bool :=
  match rs with
  | [] => true
  | p :: r => negb (existsb (fun q : node * node => node_eqb (fst q) (fst p)) r) && src_distinct r
  end.
Definition rn_guard_sym (rs : list (node * node)) : bool :=
  src_distinct rs && forallb (fun p : node * node => negb (existsb (fun q : node * node => node_eqb (snd q) (fst p)) rs)) rs.

Lemma rn_guard_of_sym_aux all : (forall p q, In p all -> In q all -> node_eqb (snd q) (fst p) = false) ->
  forall rs, (forall p, In p rs -> In p all) -> src_distinct rs = true -> rn_guard rs = true.
Proof.
  intros Hall. induction rs as [|[o n] r IH]; intros Hin Hd; [reflexivity|]. cbn [src_distinct rn_guard fst] in *.
  apply andb_true_iff in Hd. destruct Hd as [Hd1 Hd2]. rewrite negb_true_iff in Hd1.
  apply andb_true_iff. split; [|apply IH; [intros p Hp; apply Hin; right; exact Hp|exact Hd2]].
  apply forallb_forall. intros p Hp.
  assert (H1 : node_eqb (fst p) o = false).
  { destruct (node_eqb (fst p) o) eqn:E; [|reflexivity]. rewrite <- Hd1. symmetry. apply existsb_exists. exists p. split; [exact Hp|exact E]. }
  assert (H2 : node_eqb (snd p) o = false) by exact (Hall (o, n) p (Hin _ (or_introl eq_refl)) (Hin _ (or_intror Hp))).
  rewrite H1, H2. cbn [negb andb]. rewrite negb_true_iff.
  destruct (node_eqb (fst p) n) eqn:E3; [|reflexivity]. destruct (node_eqb (snd p) n) eqn:E4; [|reflexivity]. exfalso.
  pose proof (Hall p p (Hin _ (or_intror Hp)) (Hin _ (or_intror Hp))) as K.
  rewrite (node_eqb_trans _ _ _ E4 (eqb_sym_true _ _ E3)) in K. discriminate K.
Qed.

Lemma rn_guard_of_sym rs : rn_guard_sym rs = true -> rn_guard rs = true.
Proof.
  unfold rn_guard_sym. intros H. apply andb_true_iff in H. destruct H as [H1 H2]. rewrite forallb_forall in H2.
  apply (rn_guard_of_sym_aux rs); [|intros p Hp; exact Hp|exact H1].
  intros p q Hp Hq. specialize (H2 p Hp). rewrite negb_true_iff in H2.
  destruct (node_eqb (snd q) (fst p)) eqn:E; [|reflexivity]. rewrite <- H2. symmetry. apply existsb_exists. exists q. split; [exact Hq|exact E].
Qed.

Definition live (g : graph) (p : node * node) : Prop := has_edge g (fst p) (snd p) = true /\ has_node g (fst p) = true.

Lemma rename_node_other old new x : node_eqb x old = false -> rename_node old new x = x.
Proof. intros H. unfold rename_node. rewrite H. reflexivity. Qed.

Lemma eqb_false_cong a b x : node_eqb a b = true -> node_eqb b x = false -> node_eqb a x = false.
Proof.
  intros H K. destruct (node_eqb a x) eqn:E; [|reflexivity]. rewrite <- K. symmetry.
  apply eqb_sym_true in H. exact (node_eqb_trans b a x H E).
Qed.

Lemma rename_step g o n :
  live g (o, n) ->
  exists g1, remove_edge (relabel g o n) n n = Some g1 /\
    forall p, live g p -> node_eqb (fst p) o = false -> node_eqb (snd p) o = false ->
              node_eqb (fst p) n && node_eqb (snd p) n = false ->
              live (if Nat.eqb (degree g1 n) 0 then remove_node g1 n else g1) p.
Proof.
  intros [He Hn]. cbn [fst snd] in He, Hn.
  assert (Hself : has_edge (relabel g o n) n n = true).
  { unfold has_edge in *. rewrite has_edge_existsb in *. rewrite (existsb_relabel _ g o n (eresp_edge_is n n) Hn).
    apply existsb_exists in He. destruct He as (e0 & Hin & E0). apply existsb_exists. exists e0. split; [exact Hin|].
    unfold edge_is in *. cbn [fst snd]. apply andb_true_iff in E0. destruct E0 as [E1 E2]. unfold esrc, etgt, rename_node.
    rewrite (eqb_sym_true _ _ E1). rewrite node_eqb_refl. cbn [andb].
    destruct (node_eqb (snd (fst e0)) o); [apply node_eqb_refl|exact E2]. }
  unfold remove_edge. rewrite Hself. eexists. split; [reflexivity|].
  intros [o' n'] [He' Hn'] Ho Hno Hnn. cbn [fst snd] in *.
  set (g1 := {| gnodes := gnodes (relabel g o n); gedges := filter (fun e => negb (edge_is n n e)) (gedges (relabel g o n)) |}).
  assert (E1 : has_edge g1 o' n' = true).
  { unfold has_edge in *. rewrite has_edge_existsb in *. unfold g1. cbn [gedges]. rewrite existsb_filter.
    rewrite (existsb_relabel (fun x => edge_is o' n' x && negb (edge_is n n x)) g o n).
    - apply existsb_exists in He'. destruct He' as (e1 & Hin & E). apply existsb_exists. exists e1. split; [exact Hin|].
      unfold edge_is in *. cbn [fst snd]. apply andb_true_iff in E. destruct E as [Ea Eb]. unfold esrc, etgt.
      assert (Hs : node_eqb (fst (fst e1)) o = false) by exact (eqb_false_cong _ _ _ (eqb_sym_true _ _ Ea) Ho).
      assert (Ht : node_eqb (snd (fst e1)) o = false) by exact (eqb_false_cong _ _ _ (eqb_sym_true _ _ Eb) Hno).
      rewrite (rename_node_other o n _ Hs), (rename_node_other o n _ Ht), Ea, Eb. cbn [andb].
      rewrite (eqb_cong_r _ _ n (eqb_sym_true _ _ Ea)), (eqb_cong_r _ _ n (eqb_sym_true _ _ Eb)).
      rewrite (node_eqb_sym n o'), (node_eqb_sym n n'), Hnn. reflexivity.
    - apply eresp_and; [apply eresp_edge_is|apply eresp_neg; apply eresp_edge_is].
    - exact Hn. }
  assert (N1 : has_node g1 o' = true).
  { unfold g1, has_node. cbn [gnodes]. pose proof (has_node_relabel g o n o' Hn Hn') as K. rewrite (rename_node_other o n o' Ho) in K. exact K. }
  destruct (Nat.eqb (degree g1 n) 0) eqn:Ed; [|split; assumption].
  split; cbn [fst snd].
  - unfold has_edge. rewrite (gedges_remove_isolated g1 n Ed). exact E1.
  - rewrite degree_zero, negb_true_iff in Ed. unfold has_node. rewrite gnodes_remove_node.
    destruct (node_eqb n o') eqn:Eno.
    + exfalso. unfold has_edge in E1. rewrite has_edge_existsb in E1. apply existsb_exists in E1. destruct E1 as (e1 & Hin & E).
      pose proof (existsb_false _ _ Ed e1 Hin) as K. unfold Pinc, esrc in K. unfold edge_is in E. apply andb_true_iff in E. destruct E as [Ea _].
      rewrite (node_eqb_trans _ _ _ Eno Ea) in K. discriminate K.
    + unfold has_node in N1. clear -N1 Eno. induction (gnodes g1) as [|[m a] r IH]; [exact N1|]. cbn [filter fst has_node_l] in *.
      destruct (node_eqb o' m) eqn:Em.
      * assert (Enm : node_eqb n m = false) by (rewrite node_eqb_sym; rewrite node_eqb_sym in Eno; exact (eqb_false_cong _ _ _ (eqb_sym_true _ _ Em) Eno)).
        rewrite Enm. cbn [negb has_node_l]. rewrite Em. reflexivity.
      * cbn [orb] in N1. destruct (negb (node_eqb n m)); [cbn [has_node_l]; rewrite Em; exact (IH N1)|exact (IH N1)].
Qed.

Lemma do_renames_ok : forall rs g, rn_guard rs = true -> (forall p, In p rs -> live g p) -> exists g', do_renames rs g = BOk g'.
Proof.
  induction rs as [|[o n] r IH]; intros g Hg Hl; cbn [do_renames]; [eexists; reflexivity|].
  cbn [rn_guard] in Hg. apply andb_true_iff in Hg. destruct Hg as [Hall Hg]. rewrite forallb_forall in Hall.
  destruct (rename_step g o n (Hl (o, n) (or_introl eq_refl))) as (g1 & -> & K).
  apply IH; [exact Hg|]. intros p Hp. specialize (Hall p Hp). apply andb_true_iff in Hall. destruct Hall as [Hall H3].
  apply andb_true_iff in Hall. destruct Hall as [H1 H2]. rewrite negb_true_iff in H1, H2, H3.
  exact (K p (Hl p (or_intror Hp)) H1 H2 H3).
Qed.

(** [holder_of]: the rename pairs are edges of the holder graph whose source is one of its nodes *)
Lemma holder_of_live g0 g p : In p (h_renames (holder_of g)) -> live (compose g0 g) p.
Proof.
  unfold holder_of. cbn [h_renames hg]. intros H. apply in_flat_map in H. destruct H as (ed & Hed & H).
  destruct (String.eqb (etype (snd ed)) "rename"); [|destruct H]. destruct H as [<-|[]].
  unfold edges_nx in Hed. apply in_flat_map in Hed. destruct Hed as (nd & Hnd & Hout). apply filter_In in Hout. destruct Hout as [Hin Esrc].
  split.
  - unfold has_edge. rewrite has_edge_existsb, (existsb_compose _ g0 g (eresp_edge_is _ _)). apply orb_true_iff. right.
    apply existsb_exists. exists ed. split; [exact Hin|]. unfold edge_is. rewrite !node_eqb_refl. reflexivity.
  - rewrite has_node_compose. apply orb_true_iff. left. unfold has_node. destruct nd as [m a]. cbn [fst] in Esrc.
    clear -Hnd Esrc. induction (gnodes g) as [|[m' a'] r IH]; [destruct Hnd|]. cbn [has_node_l]. destruct Hnd as [E|Hnd].
    + inversion E; subst. rewrite (eqb_sym_true _ _ Esrc). reflexivity.
    + rewrite (IH Hnd). apply orb_true_r.
Qed.

Definition holders_rn_ok (gs : list graph) : bool := forallb (fun g => rn_guard (h_renames (holder_of g))) gs.

Lemma step_ok g0 g : rn_guard (h_renames (holder_of g)) = true -> exists g', step g0 (holder_of g) = BOk g'.
Proof.
  intros Hg. unfold step. destruct (h_drop (holder_of g)); [|eexists; reflexivity].
  destruct (h_renames (holder_of g)) as [|p r] eqn:E.
  - destruct (h_read _), (h_write _); eexists; reflexivity.
  - rewrite <- E in *. apply do_renames_ok; [exact Hg|]. intros q Hq. cbn [hg holder_of]. exact (holder_of_live g0 g q Hq).
Qed.

Lemma fold_steps_ok : forall gs g0, holders_rn_ok gs = true -> exists g', fold_steps g0 (map holder_of gs) = BOk g'.
Proof.
  induction gs as [|g r IH]; intros g0 H; cbn [map fold_steps]; [eexists; reflexivity|].
  cbn [holders_rn_ok forallb] in H. apply andb_true_iff in H. destruct H as [H1 H2].
  destruct (step_ok g0 g H1) as (g1 & ->). exact (IH g1 H2).
Qed.

Theorem build_total p gs : holders_rn_ok gs = true -> exists g, build p (map holder_of gs) = BOk g.
Proof. intros H. unfold build. destruct (fold_steps_ok gs empty_graph H) as (g' & ->). eexists. reflexivity. Qed.
Print Assumptions build_total.

(* ================================================================== *)
(** * the script *)
(** executable guard of a script: the statement holders the statement loop produces satisfy [rn_guard]
    (vacuously true when the loop itself ends in an error) *)
Definition script_rn_ok (e : env) (silent : bool) (base : list (string * list string)) (stmts : list seg) : bool :=
  match run_statements e silent base stmts [] [] with
  | Ok (gs, _) => holders_rn_ok gs
  | Err _ => true
  end.

Theorem script_total : forall e silent base stmts,
  Forall (fun t => escape_free t = true) stmts -> script_rn_ok e silent base stmts = true ->
  match script_graph e silent base stmts with Ok _ => True | Err k => allowed_err k = true \/ k = EValue end.
Proof.
  intros e silent base stmts H Hg. unfold script_graph, script_rn_ok in *.
  pose proof (run_statements_total stmts e silent base [] [] H) as K.
  destruct (run_statements e silent base stmts [] []) as [[gs session]|k]; [|exact K]. cbn [fst snd].
  destruct (build_total {| p_truthy := p_truthy (e_provider e); p_cols := view_cols session base |} gs Hg) as (g & ->). exact I.
Qed.
Print Assumptions script_total.

(** without the guard only NetworkXError is added - never KeyError *)
Theorem script_total_unguarded : forall e silent base stmts,
  Forall (fun t => escape_free t = true) stmts ->
  match script_graph e silent base stmts with
  | Ok _ => True
  | Err k => allowed_err k = true \/ k = EValue \/ k = "NetworkXError"
  end.
Proof.
  intros e silent base stmts H. unfold script_graph.
  pose proof (run_statements_total stmts e silent base [] [] H) as K.
  destruct (run_statements e silent base stmts [] []) as [[gs session]|k]; [|destruct K as [K|K]; [left; exact K|right; left; exact K]].
  cbn [fst snd]. destruct (build _ _) eqn:E; [exact I|right; right; reflexivity|destruct (build_no_key _ _ E)].
Qed.
Print Assumptions script_total_unguarded.

(* ================================================================== *)
(** * the guard is needed; non-vacuity; silent mode *)
Definition rename_stmt (pairs : list (string * string)) : seg :=
  nd "rename_table_statement"
     (kw "RENAME" :: kw "TABLE" :: flat_map (fun p => [tref (fst p); kw "TO"; tref (snd p); leaf "comma" ","]) pairs).

(** K-C10-5 in the model's iteration order: RENAME TABLE c TO d, b TO c - the pair (b, c) is processed after c has
    been relabelled to d.  The tree is escape-free; the guard is false; the script ends in NetworkXError. *)
Definition cx_rename : list seg := [rename_stmt [("c", "d"); ("b", "c")]].
Theorem cx_rename_escapes :
  Forall (fun t => escape_free t = true) cx_rename /\ script_rn_ok env0 false [] cx_rename = false /\
  script_graph env0 false [] cx_rename = Err "NetworkXError".
Proof. split; [repeat constructor|split; vm_compute; reflexivity]. Qed.

(** non-vacuity of [script_total]: a chain in the other order, two independent pairs, and a script with a DROP, an
    INSERT and an unsupported statement (silent mode) *)
Definition ok_rename1 : list seg := [rename_stmt [("b", "c"); ("c", "d")]].
Definition ok_rename2 : list seg := [rename_stmt [("a", "b"); ("c", "d")]].
Example script_total_applies :
  script_rn_ok env0 false [] ok_rename1 = true /\ (exists g, script_graph env0 false [] ok_rename1 = Ok g) /\
  script_rn_ok env0 false [] ok_rename2 = true /\ (exists g, script_graph env0 false [] ok_rename2 = Ok g) /\
  rn_guard_sym (match analyze env0 false (rename_stmt [("a", "b"); ("c", "d")]) with Ok g => h_renames (holder_of g) | Err _ => [] end) = true /\
  rn_guard_sym (match analyze env0 false (rename_stmt [("b", "c"); ("c", "d")]) with Ok g => h_renames (holder_of g) | Err _ => [] end) = false.
Proof. repeat split; try (eexists; vm_compute; reflexivity); vm_compute; reflexivity. Qed.

Example script_silent_skips_unsupported :
  let stmts := [Props.Witness.w_drop; nd "grant_statement" [kw "GRANT"]; Props.Witness.w_insert_values] in
  Forall (fun t => escape_free t = true) stmts /\ script_rn_ok env0 true [] stmts = true /\
  (exists g, script_graph env0 true [] stmts = Ok g) /\
  script_graph env0 false [] stmts = Err EUnsupported /\
  analyze env0 true (nd "grant_statement" [kw "GRANT"]) = Ok empty_graph.
Proof. cbv zeta. split; [repeat constructor; vm_compute; reflexivity|]. repeat split; try (eexists; vm_compute; reflexivity); vm_compute; reflexivity. Qed.

(* ================================================================== *)
(** * only RENAME statements carry rename pairs: the holders of the SELECT / INSERT / CREATE / WITH / UPDATE extractors
      satisfy the guard whatever the tree ([extract_HI] of Tree/ExtractInv.v) *)
From SV Require Tree.HolderInv Tree.ExtractInv.

Lemma HI_no_renames g : HolderInv.HI g -> h_renames (holder_of g) = [].
Proof.
  intros (_ & T & _). unfold holder_of. cbn [h_renames hg].
  assert (K : forall l, (forall ed, In ed l -> In ed (gedges g)) ->
            flat_map (fun ed : node * node * eattrs => if String.eqb (etype (snd ed)) "rename" then [fst ed] else []) l = []).
  { induction l as [|ed r IH]; intros Hl; [reflexivity|]. cbn [flat_map]. rewrite (IH (fun x Hx => Hl x (or_intror Hx))).
    pose proof (T ed (Hl ed (or_introl eq_refl))) as Ht. unfold HolderInv.otypes in Ht. cbn [In] in Ht.
    destruct Ht as [<-|[<-|[<-|[]]]]; reflexivity. }
  apply K. intros ed Hed. unfold edges_nx in Hed. apply in_flat_map in Hed. destruct Hed as (nd & _ & Hout).
  apply filter_In in Hout. exact (proj1 Hout).
Qed.

Corollary extract_holder_rn_ok fuel e k stmt ctx g : extract fuel e k stmt ctx = Ok g -> rn_guard (h_renames (holder_of g)) = true.
Proof. intros H. rewrite (HI_no_renames g (ExtractInv.extract_HI fuel e k stmt ctx g H)). reflexivity. Qed.
Print Assumptions extract_holder_rn_ok.
