(** C03 end to end (source / target / intermediate tables of a script follow from the per-statement reads and writes)
    for scripts that also contain UPDATE, MERGE and SELECT ... INTO statements. *)
From Coq Require Import Lia Permutation.
From SV Require Import Ast.SpecDml Tree.Render Tree.RenderDml Tree.LemmaA Tree.LemmaAProofs Tree.LemmaADmlDefs Tree.LemmaADml
     Tree.LemmaB Tree.LemmaBProofs Holder.PathProofs Holder.SortProofs Tree.ProviderProofs Tree.ScriptExact Tree.ScriptWellFormed
     Tree.ScriptExactExt Tree.HolderInv Tree.ExtractInv Tree.TotalMerge Tree.ScriptExactDml Tree.ScriptRoles.
From SV Require Holder.RefineDefs Holder.RefineGraph Holder.Refinement Holder.CompDefs Holder.Composition Holder.TableLevel Holder.TableProofs.

(* ================================================================== *)
(** * Part 1: the MERGE extractor keeps the holder invariant [HI] (Tree/HolderInv.v), whatever the tree *)
Lemma hk_merge_matched s g direct g' : merge_matched s g direct = Ok g' -> hk g g'.
Proof.
  unfold merge_matched. intros H. eapply (fold_res_hk (fun g0 : graph => g0)); [|exact H].
  intros gg wm gg' Hs. cbv beta in Hs.
  destruct (get_child wm ["merge_update_clause"]) as [muc|]; [|inversion Hs; apply hk_refl].
  destruct (get_child muc ["set_clause_list"]) as [scl|]; [|inversion Hs; apply hk_refl].
  eapply (fold_res_hk (fun g0 : graph => g0)); [|exact Hs].
  intros g2 sc g3 H2. cbv beta in H2.
  destruct (get_children sc ["column_reference"]) as [|c0 [|c1 [|c2 rr]]]; try (inversion H2; apply hk_refl).
  destruct (extract_column_qualifier c1) as [sq|]; [|discriminate H2]. cbv beta iota in H2.
  destruct (match st_write g2 with
            | [] => Ok None
            | w :: _ => do tq <- extract_column_qualifier c0; Ok (match tq with Some t => Some (plain_col (fst t) (Some w)) | None => None end)
            end) as [tcol|]; [|discriminate H2]. cbv beta iota in H2.
  destruct sq as [sc0|]; [|inversion H2; apply hk_refl]. destruct tcol as [tc|]; [|inversion H2; apply hk_refl].
  exact (hk_add_column_lineage _ _ _ _ H2).
Qed.

Lemma hk_merge_not_matched s g direct g' : merge_not_matched s g direct = Ok g' -> hk g g'.
Proof.
  unfold merge_not_matched. intros H. eapply (fold_res_hk (fun g0 : graph => g0)); [|exact H].
  intros gg wn gg' Hs. cbv beta in Hs.
  destruct (get_child wn ["merge_insert_clause"]) as [mi|]; [|inversion Hs; apply hk_refl].
  destruct (get_child mi ["bracketed"]) as [b|]; [|inversion Hs; apply hk_refl].
  destruct (concat_res _) as [ins|]; [|discriminate Hs]. cbv beta iota in Hs.
  destruct (get_child mi ["values_clause"]) as [vc|]; [|inversion Hs; apply hk_refl].
  destruct (get_child vc ["bracketed"]) as [vb|]; [|inversion Hs; apply hk_refl].
  destruct (fold_idx_hk (fun g0 : graph => g0)
              (fun g3 j ex => match get_child ex ["column_reference"] with
                              | Some cro =>
                                  do q <- extract_column_qualifier cro;
                                  match q with
                                  | Some c => match nth_error ins j with
                                              | Some tc => add_column_lineage g3 (plain_col (fst c) direct) tc
                                              | None => Ok g3
                                              end
                                  | None => Ok g3
                                  end
                              | None => Ok g3
                              end)) with (l := get_children vb ["literal"; "expression"]) (rs := @Ok graph gg) (idx := 0) (st2 := gg')
    as (st & Est & K).
  - intros g3 j ex g4 H3. destruct (get_child ex ["column_reference"]) as [cro|]; [|inversion H3; apply hk_refl].
    destruct (extract_column_qualifier cro) as [q|]; [|discriminate H3]. cbv beta iota in H3.
    destruct q as [c|]; [|inversion H3; apply hk_refl]. destruct (nth_error ins j) as [tc|]; [|inversion H3; apply hk_refl].
    exact (hk_add_column_lineage _ _ _ _ H3).
  - exact Hs.
  - inversion Est. subst st. exact K.
Qed.

Definition mg (a : mstate) : graph := fst (fst (fst a)).

(** the second half of a step of the MERGE state machine: target table, source table or source sub-query *)
Definition merge_tail (fuel : nat) (e : env) (segments : list seg) (i : nat) (s : seg)
                      (st : graph * bool * bool * option dataset * bool) : res mstate :=
     let '(g1, tf, sf, dr, continued) := st in
     if continued then Ok (g1, tf, sf, dr)
     else
       do g2 <- (if tf then do t <- find_table e s; Ok (match t with Some d => add_write g1 d | None => g1 end) else Ok g1);
       if sf then
         do t <- find_table e s;
         match t with
         | Some d => Ok (add_read g2 d, false, false, Some d)
         | None =>
             if tyis s "bracketed" then
               do nx <- nth_res segments (S i);
               do alias <- (if tyis nx "alias_expression" then do a <- extract_identifier nx; Ok (Some a) else Ok None);
               let q := extract_innermost_bracketed s in
               let ds := mk_subquery q alias in
               let g3 := add_read g2 ds in
               let cls := match get_child q ["with_compound_statement"] with Some _ => XCte | None => XSelect end in
               do sub <- extract fuel e cls q {| c_cte := Some (sq_cte g3); c_write := Some [ds]; c_write_columns := None |};
               Ok (compose g3 sub, false, false, Some ds)
             else Ok (g2, false, false, dr)
         end
       else Ok (g2, false, sf, dr).

Lemma hk_merge_tail fuel e segs i s st a' : merge_tail fuel e segs i s st = Ok a' -> hk (fst (fst (fst (fst st)))) (mg a').
Proof.
  destruct st as [[[[g1 tf] sf] dr] continued]. unfold merge_tail, mg. cbn [fst]. intros H.
  destruct continued; [inversion H; apply hk_refl|].
  destruct (if tf then do t <- find_table e s; Ok (match t with Some d => add_write g1 d | None => g1 end) else Ok g1) as [g2|] eqn:E2; [|discriminate H].
  assert (K : hk g1 g2).
  { destruct tf; [|inversion E2; apply hk_refl]. destruct (find_table e s) as [[d|]|]; [| |discriminate E2]; inversion E2; [apply hk_add_write|apply hk_refl]. }
  cbv beta iota in H. apply (hk_trans _ g2 _ K). clear K E2.
  destruct sf; [|inversion H; apply hk_refl].
  destruct (find_table e s) as [[d|]|]; [| |discriminate H]; cbv beta iota in H; [inversion H; apply hk_add_read|].
  destruct (tyis s "bracketed"); [|inversion H; apply hk_refl].
  destruct (nth_res segs (S i)) as [nx|]; [|discriminate H]. cbv beta iota in H.
  destruct (if tyis nx "alias_expression" then do a <- extract_identifier nx; Ok (Some a) else Ok None) as [alias|]; [|discriminate H].
  cbv beta iota zeta in H.
  destruct (extract fuel e _ _ _) as [sub|] eqn:Es; [|discriminate H]. inversion H. cbn [fst].
  intros Hg. apply HI_compose; [apply hk_add_read; exact Hg|exact (extract_HI _ _ _ _ _ _ Es)].
Qed.

Lemma merge_step_tail fuel e segs a i s :
  merge_step fuel e segs a i s =
  (let '(g, tgt_flag, src_flag, direct) := a in
   do step1 <- (if tyis s "merge_match" then
                  do g1 <- merge_matched s g direct; do g2 <- merge_not_matched s g1 direct; Ok (g2, tgt_flag, src_flag, direct, false)
                else if tyis s "keyword" then
                  let u := raw_upper s in
                  if mem_string u ["MERGE"; "INTO"] then Ok (g, true, src_flag, direct, true)
                  else if String.eqb u "USING" then Ok (g, tgt_flag, true, direct, true)
                  else Ok (g, tgt_flag, src_flag, direct, true)
                else Ok (g, tgt_flag, src_flag, direct, false));
   merge_tail fuel e segs i s step1).
Proof. destruct a as [[[g tf] sf] direct]. reflexivity. Qed.

Lemma hk_merge_step fuel e segs a i s a' : merge_step fuel e segs a i s = Ok a' -> hk (mg a) (mg a').
Proof.
  rewrite merge_step_tail. destruct a as [[[g tf] sf] direct]. unfold mg at 1. cbn [fst]. intros H.
  match type of H with (do step1 <- ?X; _) = _ => destruct X as [st|] eqn:E1; [|discriminate H] end.
  cbv beta iota in H. apply (hk_trans _ (fst (fst (fst (fst st))))); [|exact (hk_merge_tail _ _ _ _ _ _ _ H)].
  destruct (tyis s "merge_match").
  - destruct (merge_matched s g direct) as [g1|] eqn:M1; [|discriminate E1]. cbv beta iota in E1.
    destruct (merge_not_matched s g1 direct) as [g2|] eqn:M2; [|discriminate E1]. inversion E1. cbn [fst].
    apply (hk_trans _ g1); [exact (hk_merge_matched _ _ _ _ M1)|exact (hk_merge_not_matched _ _ _ _ M2)].
  - destruct (tyis s "keyword"); [|inversion E1; apply hk_refl]. cbv zeta in E1.
    destruct (mem_string (raw_upper s) ["MERGE"; "INTO"]); [inversion E1; apply hk_refl|].
    destruct (String.eqb (raw_upper s) "USING"); inversion E1; apply hk_refl.
Qed.

Lemma hk_merge_fold fuel e segs : forall l (ra : res mstate) i r,
  fst (fold_left (fun (accp : res mstate * nat) s => let '(acc, i) := accp in
         (do a <- acc; merge_step fuel e segs a i s, S i)) l (ra, i)) = Ok r ->
  exists a, ra = Ok a /\ hk (mg a) (mg r).
Proof.
  induction l as [|s l IH]; intros ra i r H; cbn [fold_left fst] in H.
  - exists r. split; [exact H|apply hk_refl].
  - destruct (IH _ _ _ H) as (a1 & E1 & K1). destruct ra as [a|err]; [|discriminate E1]. exists a. split; [reflexivity|].
    apply (hk_trans _ (mg a1)); [exact (hk_merge_step _ _ _ _ _ _ _ E1)|exact K1].
Qed.

(** the holder of a MERGE statement - ANY tree - satisfies the invariant *)
Theorem extract_merge_HI : forall fuel e stmt g, extract_merge fuel e stmt = Ok g -> HI g.
Proof.
  intros fuel e stmt g H. rewrite extract_merge_eq in H. cbv zeta in H.
  match type of H with (do r <- ?X; _) = _ => destruct X as [r|] eqn:E; [|discriminate H] end.
  inversion H. destruct (hk_merge_fold _ _ _ _ _ _ _ E) as (a & Ea & K). inversion Ea. subst a.
  apply K. exact HI_empty.
Qed.
Print Assumptions extract_merge_HI.

(* ================================================================== *)
(** * Part 2: Lemma A for DML statements at node level, and the holder invariant *)
Theorem dml_nodes : forall noise e d,
  noise_ok noise = true -> env_ok e = true -> dml_ok d = true ->
  exists g, analyze e false (r_dml noise d) = Ok g /\ gok g /\
            (forall x, tset g "read" x <-> In x (dml_reads (e_cfg e) d)) /\
            (forall x, tset g "write" x <-> In x (dml_writes (e_cfg e) d)).
Proof.
  intros noise e d Hn He Hok. unfold dml_ok in Hok. apply andb_true_iff in Hok. destruct Hok as [Hok Hwh].
  assert (Fin : forall g t (l : list string), gok g ->
            (forall x, tset g "read" x <-> In x l) -> (forall x, tset g "write" x <-> x = tref_str (e_cfg e) t) ->
            (forall x, tset g "read" x <-> In x (dedup_s l [])) /\ (forall x, tset g "write" x <-> In x [tref_str (e_cfg e) t])).
  { intros g t l _ Hr Hw. split; intros x.
    - rewrite (Hr x), In_dedup_s. cbn [In]. tauto.
    - rewrite (Hw x). cbn [In]. split; [intros ->; left; reflexivity|intros [H|[]]; symmetry; exact H]. }
  unfold dml_ok_base in Hok. destruct d as [t al sets from cj wh|t al src upd ins|t items from cj wh]; cbn [dml_target dml_query] in Hok.
  - destruct wh as [w|]; [discriminate Hwh|].
    apply andb_true_iff in Hok. destruct Hok as [Ht Hok]. apply andb_true_iff in Hok. destruct Hok as [Hok Hfrom].
    apply andb_true_iff in Hok. destruct Hok as [Hok Hsets]. apply andb_true_iff in Hok. destruct Hok as [Hal _].
    assert (Hfrom' : from = [] \/ body_ok (S (q_size (QSelect [] from cj None))) (QSelect [] from cj None) = true).
    { unfold from_ok in Hfrom. destruct from as [|r0 rest]; [left; reflexivity|right]. apply qfrag_body_ok. exact Hfrom. }
    destruct (update_ok noise Hn e He t al sets from cj None Ht Hal Hsets Hfrom') as (g & E & G1 & G2 & G3).
    exists g. split; [exact E|]. split; [exact G1|]. exact (Fin g t _ G1 G2 G3).
  - apply andb_true_iff in Hok. destruct Hok as [Ht Hok]. apply andb_true_iff in Hok. destruct Hok as [Hok Hsrc].
    apply andb_true_iff in Hok. destruct Hok as [Hok _]. apply andb_true_iff in Hok. destruct Hok as [Hok _].
    apply andb_true_iff in Hok. destruct Hok as [Hal _].
    destruct (merge_ok noise Hn e He t al src upd ins Ht Hal (qfrag_body_ok _ _ Hsrc)) as (g & E & G1 & G2 & G3).
    exists g. split; [exact E|]. split; [exact G1|]. exact (Fin g t _ G1 G2 G3).
  - apply andb_true_iff in Hok. destruct Hok as [Ht Hq].
    destruct (select_into_ok noise Hn e He t items from cj wh Ht (qfrag_body_ok _ _ Hq)) as (g & E & G1 & G2 & G3).
    exists g. split; [exact E|]. split; [exact G1|]. exact (Fin g t _ G1 G2 G3).
Qed.
Print Assumptions dml_nodes.

(** every holder [analyze] returns for a rendered DML statement satisfies [HI] *)
Theorem analyze_dml_HI : forall noise e d G, analyze e false (r_dml noise d) = Ok G -> HI G.
Proof.
  intros noise e d G H. destruct d as [t al sets from cj wh|t al src upd ins|t items from cj wh].
  - assert (Ea : analyze e false (r_dml noise (DUpdate t al sets from cj wh)) =
                 extract (3 * depth (r_dml noise (DUpdate t al sets from cj wh)) + 10) e XUpdate (r_dml noise (DUpdate t al sets from cj wh)) empty_ctx)
      by (destruct from; reflexivity).
    rewrite Ea in H. exact (extract_HI _ _ _ _ _ _ H).
  - assert (Ea : analyze e false (r_dml noise (DMerge t al src upd ins)) =
                 extract_merge (3 * depth (r_dml noise (DMerge t al src upd ins)) + 10) e (r_dml noise (DMerge t al src upd ins))) by reflexivity.
    rewrite Ea in H. exact (extract_merge_HI _ _ _ _ H).
  - assert (Ea : analyze e false (r_dml noise (DSelectInto t items from cj wh)) =
                 extract (3 * depth (r_dml noise (DSelectInto t items from cj wh)) + 10) e XSelect (r_dml noise (DSelectInto t items from cj wh)) empty_ctx) by reflexivity.
    rewrite Ea in H. exact (extract_HI _ _ _ _ _ _ H).
Qed.
Print Assumptions analyze_dml_HI.

(* ================================================================== *)
(** * Part 3: scripts of statements (rendered by [r_stmt]) and DML statements (rendered by [r_dml]) *)
Definition r_sstmt_a (noise : list seg) (x : sstmt) : seg :=
  match x with SS s => r_stmt noise s | SD d => r_dml noise d end.
Definition sstmt_rw (ds : string) (x : sstmt) : rw :=
  match x with SS s => stmt_rw ds s | SD d => (dml_reads ds d, dml_writes ds d) end.

Definition spec_sources_xd (ds : string) (xs : list sstmt) : list string :=
  let rws := map (sstmt_rw ds) xs in sort_strings (filter (src_role rws) (universe rws)).
Definition spec_targets_xd (ds : string) (xs : list sstmt) : list string :=
  let rws := map (sstmt_rw ds) xs in sort_strings (filter (tgt_role rws) (universe rws)).
Definition spec_intermediates_xd (ds : string) (xs : list sstmt) : list string :=
  let rws := map (sstmt_rw ds) xs in sort_strings (filter (mid_role rws) (universe rws)).

(** what has a table-level theorem: the fragment of Lemma A, and [dml_ok] (UPDATE without WHERE sub-query, MERGE,
    SELECT ... INTO; derived tables, unions, WHERE-IN sub-queries at any depth in the relations read) *)
Definition roles_ok_xd (x : sstmt) : bool :=
  match x with SS s => stmt_ok s && sshape s | SD d => dml_ok d end.

Definition roles_check_xd (noise : list seg) (e : env) (xs : list sstmt) : string :=
  if negb (noise_ok noise && env_ok e && forallb roles_ok_xd xs) then "outside"
  else if list_eqb (script_sources e false [] (map (r_sstmt_a noise) xs)) (spec_sources_xd (e_cfg e) xs)
          && list_eqb (script_targets e false [] (map (r_sstmt_a noise) xs)) (spec_targets_xd (e_cfg e) xs)
          && list_eqb (script_intermediates e false [] (map (r_sstmt_a noise) xs)) (spec_intermediates_xd (e_cfg e) xs)
       then "holds" else "FAILS".

Lemma sstmt_role_facts noise e x :
  noise_ok noise = true -> env_ok e = true -> roles_ok_xd x = true ->
  exists G, analyze e false (r_sstmt_a noise x) = Ok G /\
            ScriptRoles.stmt_facts G (fst (sstmt_rw (e_cfg e) x)) (snd (sstmt_rw (e_cfg e) x)).
Proof.
  intros Hn He Hok. destruct x as [s|d]; cbn [roles_ok_xd r_sstmt_a sstmt_rw] in *.
  - apply andb_true_iff in Hok. destruct Hok as [H1 H2].
    destruct (lemA_nodes noise e s Hn He H1 H2) as (G & Ea & G1 & G2 & G3).
    destruct (HI_holder G (analyze_HI noise e s G Ea)) as [W P].
    exists G. split; [exact Ea|]. constructor; assumption.
  - destruct (dml_nodes noise e d Hn He Hok) as (G & Ea & G1 & G2 & G3).
    destruct (HI_holder G (analyze_dml_HI noise e d G Ea)) as [W P].
    exists G. split; [exact Ea|]. constructor; assumption.
Qed.

(** THE ROLES THEOREM for scripts with UPDATE / MERGE / SELECT INTO *)
Theorem script_roles_exact_xd : forall noise e xs,
  noise_ok noise = true -> env_ok e = true ->
  Forall (fun x => match x with
                   | SS s => stmt_ok s = true /\ sshape s = true
                   | SD d => dml_ok d = true
                   end) xs ->
  script_sources e false [] (map (r_sstmt_a noise) xs) = spec_sources_xd (e_cfg e) xs /\
  script_targets e false [] (map (r_sstmt_a noise) xs) = spec_targets_xd (e_cfg e) xs /\
  script_intermediates e false [] (map (r_sstmt_a noise) xs) = spec_intermediates_xd (e_cfg e) xs.
Proof.
  intros noise e xs Hn He H.
  assert (K : exists Gs, map_res (analyze e false) (map (r_sstmt_a noise) xs) = Ok Gs /\
              Forall2 (fun G (q : rw) => ScriptRoles.stmt_facts G (fst q) (snd q)) Gs (map (sstmt_rw (e_cfg e)) xs)).
  { induction H as [|x xs Hx _ IH].
    - exists []. split; [reflexivity|constructor].
    - destruct IH as (Gs & Em & HF).
      assert (Hok : roles_ok_xd x = true).
      { destruct x as [s|d]; cbn [roles_ok_xd]; [destruct Hx as [H1 H2]; rewrite H1, H2; reflexivity|exact Hx]. }
      destruct (sstmt_role_facts noise e x Hn He Hok) as (G & Ea & F).
      exists (G :: Gs). split; [cbn [map map_res]; rewrite Ea, Em; reflexivity|]. cbn [map]. constructor; [exact F|exact HF]. }
  destruct K as (Gs & Em & HF).
  destruct (run_statements_core e _ Gs (proj1 (env_facts e He)) Em) as (sess & Er).
  unfold script_sources, script_targets, script_intermediates, script_graph. rewrite Er. cbn [fst snd].
  set (p := {| p_truthy := p_truthy (e_provider e); p_cols := view_cols sess [] |}).
  destruct (facts_build_ok p Gs _ HF) as (g & Hb). rewrite Hb.
  exact (roles_of_facts p Gs _ g HF Hb).
Qed.
Print Assumptions script_roles_exact_xd.

Corollary roles_check_xd_never_fails noise e xs : roles_check_xd noise e xs <> "FAILS".
Proof.
  unfold roles_check_xd. destruct (noise_ok noise && env_ok e && forallb roles_ok_xd xs) eqn:G; cbn [negb]; [|discriminate].
  apply andb_true_iff in G. destruct G as [G Hss]. apply andb_true_iff in G. destruct G as [Hn He].
  assert (HF : Forall (fun x => match x with SS s => stmt_ok s = true /\ sshape s = true | SD d => dml_ok d = true end) xs).
  { apply Forall_forall. intros x Hx. rewrite forallb_forall in Hss. specialize (Hss x Hx). destruct x as [s|d]; cbn [roles_ok_xd] in Hss; [|exact Hss].
    apply andb_true_iff in Hss. exact Hss. }
  destruct (script_roles_exact_xd noise e xs Hn He HF) as (A & B & C). rewrite A, B, C, !ScriptExact.list_eqb_refl. discriminate.
Qed.
Print Assumptions roles_check_xd_never_fails.

(* ================================================================== *)
(** * Tests and non-vacuity *)
Module RDExamples.
  Import Tests TestsD.
  (** insert into m select c from s; update f set d = m.c from m; select d into g from f;
      merge into h using g ... update set x = d; select x from h *)
  Definition sc1 : list sstmt :=
    [SS (ins "m" (sel [c_ "c"] [T "s"])); upd "f" [st "d" (Some "m") "c"] [T "m"]; SD (DSelectInto (None, "g") [c_ "d"] [T "f"] false None);
     mrg "h" "g" [st "x" None "d"] None; SS (SQuery (sel [c_ "x"] [T "h"]))].
  (** the non-vacuity instances of Tree/LemmaADml.v (derived tables, a union, WHERE-IN sub-queries, a derived MERGE source,
      schemas and aliases) and a self-reading INSERT *)
  Definition sc2 : list sstmt := [SD upd_ex1; SD mrg_ex1; SD mrg_ex2; SD into_ex1; SS (ins "t" (sel [IStar None] [T "t"]))].

  Example roles_tests_hold :
    map (roles_check_xd noise3 e1) [sc1; sc2; []] = ["holds"; "holds"; "holds"] /\
    map (roles_check_xd [] e_dml) [sc1; sc2] = ["holds"; "holds"].
  Proof. vm_compute. split; reflexivity. Qed.

  Lemma sc1_ok : Forall (fun x => match x with SS s => stmt_ok s = true /\ sshape s = true | SD d => dml_ok d = true end) sc1.
  Proof. repeat (constructor; [try split; reflexivity|]). constructor. Qed.

  (** for EVERY admissible trivia: s is the source, h (written by the MERGE, then only read by a plain SELECT) is target
      and source, the tables in between are intermediate *)
  Example roles_chain noise : noise_ok noise = true ->
    script_sources e1 false [] (map (r_sstmt_a noise) sc1) = ["main.h"; "main.s"] /\
    script_targets e1 false [] (map (r_sstmt_a noise) sc1) = ["main.h"] /\
    script_intermediates e1 false [] (map (r_sstmt_a noise) sc1) = ["main.f"; "main.g"; "main.m"].
  Proof.
    intros Hn. destruct (script_roles_exact_xd noise e1 sc1 Hn eq_refl sc1_ok) as (A & B & C). rewrite A, B, C.
    vm_compute. repeat split; reflexivity.
  Qed.

  Example roles_sc2 :
    script_sources e_dml false [] (map (r_sstmt_a noise3) sc2) =
      ["<default>.inner"; "<default>.t"; "<default>.t1"; "<default>.u"; "<default>.ua"; "<default>.ub"; "<default>.x"; "<default>.y"; "s.z"] /\
    script_targets e_dml false [] (map (r_sstmt_a noise3) sc2) = ["<default>.t"; "db.sch.t"; "s.t"; "s.t2"] /\
    script_intermediates e_dml false [] (map (r_sstmt_a noise3) sc2) = [].
  Proof.
    destruct (script_roles_exact_xd noise3 e_dml sc2 eq_refl eq_refl) as (A & B & C);
      [repeat (constructor; [try split; reflexivity|]); constructor|].
    rewrite A, B, C. vm_compute. repeat split; reflexivity.
  Qed.

  (** the holder of a MERGE with a derived-table source is well formed (the case [extract_HI] does not cover) *)
  Example merge_holder_wf :
    exists G, analyze e_dml false (r_dml noise3 mrg_ex2) = Ok G /\ HI G /\
              RefineDefs.wf_holder (holder_of G) = true /\ CompDefs.plain_holder (holder_of G) = true.
  Proof.
    destruct (dml_nodes noise3 e_dml mrg_ex2 eq_refl eq_refl eq_refl) as (G & Ea & _).
    exists G. split; [exact Ea|]. pose proof (analyze_dml_HI noise3 e_dml mrg_ex2 G Ea) as H. split; [exact H|exact (HI_holder G H)].
  Qed.
End RDExamples.
