(** Lemma B, step 5d: the holder of INSERT / CTAS / VIEW over [WITH n AS (SELECT .. FROM base tables) SELECT .. FROM n]
    (the CTE referenced under its own name): the two cleanups, the tags the navigation needs, and the facts about the
    composed statement holder that [realises_two_layer_abs] consumes. *)
From Coq Require Import Permutation Lia.
From SV Require Import Tree.Render Tree.LemmaA Tree.LemmaAProofs Tree.LemmaB Tree.LemmaBProofs Tree.LemmaB5a Tree.LemmaB5cPaths Tree.LemmaB5c
     Tree.LemmaB5dDefs Ident.Escape Ident.EscapeProofs Holder.PathProofs Holder.SortProofs.

Section Bases.
Variables d D : dataset.
Hypothesis Hkd : dk d = KTable.
Hypothesis Hks : dk D = KSubq.

Lemma neq_dD : node_eqb (NData d) (NData D) = false.
Proof. cbn [node_eqb]. unfold dataset_eqb. rewrite Hkd, Hks. reflexivity. Qed.
Lemma neq_Dd : node_eqb (NData D) (NData d) = false.
Proof. cbn [node_eqb]. unfold dataset_eqb. rewrite Hkd, Hks. reflexivity. Qed.

Definition gbB : graph := add_write (add_cte empty_graph D) d.
Definition gbD : graph := add_write (add_cte empty_graph D) D.
Definition gI : graph := add_write empty_graph d.
Definition g1c : graph := add_cte gI D.

Lemma gbB_nodes : gnodes gbB = [(NData D, [("cte", true)]); (NData d, [("write", true)])].
Proof. unfold gbB, add_write, add_cte, add_node. cbn [gnodes empty_graph upsert_node]. rewrite neq_dD. reflexivity. Qed.
Lemma gbD_nodes : gnodes gbD = [(NData D, [("cte", true); ("write", true)])].
Proof. unfold gbD, add_write, add_cte, add_node. cbn [gnodes empty_graph upsert_node]. rewrite node_eqb_refl. reflexivity. Qed.
Lemma g1c_nodes : gnodes g1c = [(NData d, [("write", true)]); (NData D, [("cte", true)])].
Proof. unfold g1c, gI, add_write, add_cte, add_node. cbn [gnodes empty_graph upsert_node]. rewrite neq_Dd. reflexivity. Qed.

Lemma gbB_tags : sq_write gbB = [d] /\ sq_cte gbB = [D] /\ sq_read gbB = [].
Proof. unfold sq_write, sq_cte, sq_read, holder_nodes. rewrite gbB_nodes. cbn. auto. Qed.
Lemma gbD_tags : sq_write gbD = [D] /\ sq_cte gbD = [D] /\ sq_read gbD = [].
Proof. unfold sq_write, sq_cte, sq_read, holder_nodes. rewrite gbD_nodes. cbn. auto. Qed.
Lemma g1c_tags : sq_write g1c = [d] /\ sq_cte g1c = [D].
Proof. unfold sq_write, sq_cte, holder_nodes. rewrite g1c_nodes. cbn. auto. Qed.

Lemma no_edges_B x y : has_edge gbB x y = false. Proof. reflexivity. Qed.
Lemma no_edges_D x y : has_edge gbD x y = false. Proof. reflexivity. Qed.
Lemma no_edges_1 x y : has_edge g1c x y = false. Proof. reflexivity. Qed.
Lemma no_edges_I x y : has_edge gI x y = false. Proof. reflexivity. Qed.

Lemma drop_free_nodes g : (forall n a, In (n, a) (gnodes g) -> ~ In ("drop", true) a) -> drop_free g.
Proof. intros H. exact H. Qed.

Lemma drop_B : drop_free gbB.
Proof. apply drop_free_nodes. rewrite gbB_nodes. intros n a [H|[H|[]]]; inversion H; subst; intros [K|[]]; discriminate K. Qed.
Lemma drop_D : drop_free gbD.
Proof. apply drop_free_nodes. rewrite gbD_nodes. intros n a [H|[]]; inversion H; subst; intros [K|[K|[]]]; discriminate K. Qed.
Lemma drop_1 : drop_free g1c.
Proof. apply drop_free_nodes. rewrite g1c_nodes. intros n a [H|[H|[]]]; inversion H; subst; intros [K|[]]; discriminate K. Qed.
Lemma drop_I : drop_free gI.
Proof. intros n a [H|[]]. inversion H. intros [K|[]]. discriminate K. Qed.

Lemma gok_bases : data_ok d -> data_ok D -> gok gbB /\ gok gbD /\ gok g1c /\ gok gI.
Proof.
  intros Hdd HdD.
  assert (A : forall v k, data_ok v -> gok (add_node empty_graph (NData v) [(k, true)])) by (intros v k Hv; apply gok_add_tag; [exact gok_empty|exact Hv]).
  split; [|split; [|split]]; unfold gbB, gbD, g1c, gI, add_write, add_cte.
  - apply gok_add_tag; [apply A; exact HdD|exact Hdd].
  - apply gok_add_tag; [apply A; exact HdD|exact HdD].
  - apply gok_add_tag; [apply A; exact Hdd|exact HdD].
  - apply A. exact Hdd.
Qed.
End Bases.

Lemma clean_of (G : graph) AL :
  drop_free G -> (forall e0, In e0 (gedges G) -> edge_inv AL e0) -> clean_holder G.
Proof.
  intros Hd He. split.
  - intros n a Hin. destruct (attr_true "drop" a) eqn:E; [|reflexivity]. exfalso. apply attr_true_In in E. exact (Hd n a Hin E).
  - intros e0 He0. pose proof (He e0 He0) as Hi. unfold edge_inv in Hi.
    destruct (snd (fst e0)); [destruct Hi as [-> | ->]; reflexivity|destruct Hi as [-> | ->]; reflexivity|destruct Hi as [-> _]; reflexivity].
Qed.

Lemma cte_holders e d D ts' xs' xs :
  env_ok e = true -> dk d = KTable -> data_ok d -> dk D = KSubq -> data_ok D ->
  group_ok d ts' -> ts_inj ts' -> names_nodot ts' -> Forall data_ok ts' -> Forall xcol_ok xs' -> Forall xcol_ok xs ->
  (forall x, In x xs' -> xref_ok ts' x /\ nostar_x x) -> (forall x, In x xs -> xref_ok [D] x /\ nostar_x x) ->
  let PC := PCg ts' (unres_names ts' xs') D d in
  let DS := d :: D :: ts' in
  exists bsub sh,
    cte_body_holder e d D D xs = Ok bsub /\ cte_def_holder e D ts' xs' = Ok sh /\
    sq_cte (compose (add_cte (add_write empty_graph d) D) bsub) = [D] /\
    let G := compose (add_write empty_graph d) (compose (compose (add_cte (add_write empty_graph d) D) bsub) (set_attr sh [NData D] "write" false)) in
    (forall x y, has_edge G x y = ematch x y (EL_of D ts' xs') || ematch x y (EL_of d [D] xs)) /\
    (forall p, In p (EL_of D ts' xs' ++ EL_of d [D] xs) -> has_node G (fst p) = true /\ has_node G (snd p) = true) /\
    lits_in (QK DS PC) G /\ clean_holder G.
Proof.
  intros Henv Hkd Hdd Hks HdD Hgo Hinj Hnd Hdo Hxo' Hxo Hxs' Hxs PC DS.
  set (NM := unres_names ts' xs') in *.
  assert (Hp : p_truthy (e_provider e) = false) by exact (proj1 (env_facts e Henv)).
  assert (Hsqd : forall v, In v ts' -> dataset_eqb v D = false).
  { intros v Hv. unfold dataset_eqb. rewrite (go_tables _ _ Hgo v Hv), Hks. reflexivity. }
  assert (HdsD : dataset_eqb d D = false) by (unfold dataset_eqb; rewrite Hkd, Hks; reflexivity).
  destruct (gok_bases d D Hdd HdD) as (GB & GD & G1 & GI).
  destruct (gbB_tags d D Hkd Hks) as (WB & CB & RB). destruct (gbD_tags D) as (WD & CD & RD). destruct (g1c_tags d D Hkd Hks) as (W1 & C1).
  assert (HPCstar : forall c, PC c -> String.eqb (craw c) "*" = false) by (intros c [H _]; exact H).
  (* the definition of the CTE: written to the CTE object *)
  assert (Gin : group2 (D :: ts') ts' ts' D).
  { constructor; auto.
    - intros v Hv. right. exact Hv.
    - left. reflexivity.
    - rewrite Forall_forall in Hdo. exact Hdo.
    - intros v w [<-|Hv] [<-|Hw] E; [reflexivity| | |exact (go_distinct _ _ Hgo v w Hv Hw E)].
      + rewrite dataset_eqb_sym, (Hsqd w Hw) in E. discriminate.
      + rewrite (Hsqd v Hv) in E. discriminate. }
  destruct (select_core2 PC e (D :: ts') ts' D ts' xs' (S_of ts') (gbD D) Gin HPCstar) as (sh & Esh & Xsh & Ish & Tsh).
  { split; [intros n Hn; rewrite (gbD_nodes D) in Hn; destruct Hn as [<-|[]]; left; reflexivity|intros e0 []]. }
  { intros e0 []. }
  { apply drop_D. }
  { exact WD. }
  { reflexivity. }
  { intros g2 Hinv x Hx. apply (HS_of PC e D ts' g2 x); auto.
    - constructor; [exact (go_tables _ _ Hgo)|exact (go_distinct _ _ Hgo)|exact Hsqd].
    - apply sel_inv2_sel_inv. exact Hinv.
    - exact (proj1 (Hxs' x Hx)). }
  { intros x Hx. destruct (Hxs' x Hx) as [Hxr Hxn].
    destruct (S_of_props d ts' xs' x Hgo Hinj Hkd Hx Hxr) as (A1 & _ & A3 & A4 & _). split; [exact A1|]. split; [|split; [exact A3|]].
    - split; [rewrite (own_col_eq D x A1); exact (proj1 Hxn)|]. right. left. rewrite (own_col_eq D x A1). reflexivity.
    - intros s Hs. destruct (A4 s Hs) as [B1 B2]. split; [|exact B2]. split; [exact (S_of_nostar ts' x s Hxn Hs)|left; exact B1]. }
  assert (Gsh : gok sh).
  { destruct (select_tail e Henv (gbD D) ts' xs' []) as (g3 & E3 & G3 & _); [exact GD|exact Hdo|exact Hxo'|rewrite WD; cbn; lia|].
    rewrite Esh in E3. inversion E3. exact G3. }
  (* the body: reads the CTE object, writes the target *)
  assert (Gout : group2 DS (D :: ts') [D] d).
  { constructor.
    - intros v [<-|[]]. left. reflexivity.
    - intros v Hv. right. exact Hv.
    - left. reflexivity.
    - intros v [<-|[]]. exact HdD.
    - intros v w Hv Hw E. destruct Hv as [<-|Hv], Hw as [<-|Hw]; [reflexivity| | |exact (g2_distinct _ _ _ _ Gin v w Hv Hw E)].
      + destruct Hw as [<-|Hw]; [congruence|]. rewrite dataset_eqb_sym, (go_target _ _ Hgo w Hw) in E. discriminate.
      + destruct Hv as [<-|Hv]; [rewrite dataset_eqb_sym in E; congruence|]. rewrite (go_target _ _ Hgo v Hv) in E. discriminate.
    - intros v [<-|[]]. rewrite dataset_eqb_sym. exact HdsD. }
  destruct (select_core2 PC e DS (D :: ts') d [D] xs (S_of [D]) (gbB d D) Gout HPCstar) as (bsub & Ebs & Xbs & Ibs & Tbs).
  { split; [intros n Hn; rewrite (gbB_nodes d D Hkd Hks) in Hn; destruct Hn as [<-|[<-|[]]]; [right; left; reflexivity|left; reflexivity]|intros e0 []]. }
  { intros e0 []. }
  { apply drop_B; assumption. }
  { exact WB. }
  { reflexivity. }
  { intros g2 Hinv x Hx. apply (HS_of_single2 PC e DS (D :: ts') d D g2 x Gout Hinv). exact (proj1 (Hxs x Hx)). }
  { intros x Hx. destruct (Hxs x Hx) as [Hxr Hxn]. pose proof Hxr as (A1 & c & qq & Ex & Ec & Hq). split; [exact A1|]. split; [|split].
    - split; [rewrite (own_col_eq d x A1); exact (proj1 Hxn)|]. right. right. rewrite (own_col_eq d x A1). reflexivity.
    - unfold S_of. rewrite Ex. destruct qq; [destruct (find _ _)|]; cbn; lia.
    - intros s Hs. split.
      + split; [exact (S_of_nostar [D] x s Hxn Hs)|]. right. left. exact (S_of_single_parent D x s Hs).
      + intros p Hpp. rewrite (S_of_single_parent D x s Hs) in Hpp. exact Hpp. }
  assert (Gbs : gok bsub).
  { destruct (select_tail e Henv (gbB d D) [D] xs []) as (g3 & E3 & G3 & _); [exact GB|constructor; [exact HdD|constructor]|exact Hxo|rewrite WB; cbn; lia|].
    rewrite Ebs in E3. inversion E3. exact G3. }
  exists bsub, sh. split; [exact Ebs|]. split; [exact Esh|].
  set (g1 := add_cte (add_write empty_graph d) D). set (g2 := compose g1 bsub). set (sh' := set_attr sh [NData D] "write" false).
  assert (Hcte2 : sq_cte g2 = [D]).
  { assert (HinD : In D (sq_cte g2)).
    { unfold sq_cte, g2. apply tag_compose_mono; [exact Gbs|left; discriminate|]. fold (sq_cte g1). change g1 with (g1c d D). rewrite C1. left. reflexivity. }
    assert (Gg2 : gok g2) by (apply gok_compose; [exact G1|exact Gbs]).
    apply noeqb_single; [unfold sq_cte; rewrite holder_nodes_hn; apply hn_noeqb; exact (proj1 (proj1 Gg2))| |exact HinD].
    intros x Hx. unfold sq_cte, g2 in Hx. destruct (tag_compose_sound g1 bsub "cte" x Gbs Hx) as [H|(d' & Hd' & Ed)].
    - fold (sq_cte g1) in H. change g1 with (g1c d D) in H. rewrite C1 in H. destruct H as [<-|[]]. reflexivity.
    - rewrite (Tbs "cte") in Hd' by discriminate. fold (sq_cte (gbB d D)) in Hd'. rewrite CB in Hd'. destruct Hd' as [<-|[]].
      symmetry. apply (tagged_eqb_eq g2 "cte" "cte" D x Gg2 HinD Hx Ed). }
  split; [exact Hcte2|]. cbv zeta. fold g1 g2 sh'. set (G := compose (add_write empty_graph d) (compose g2 sh')).
  assert (HE : forall x y, has_edge G x y = ematch x y (EL_of D ts' xs') || ematch x y (EL_of d [D] xs)).
  { intros x y. unfold G, g2, sh'. rewrite !has_edge_compose, has_edge_set_attr, (ext_edges _ _ _ Xbs), (ext_edges _ _ _ Xsh).
    change (has_edge (add_write empty_graph d) x y) with false. change (has_edge g1 x y) with false.
    change (has_edge (gbB d D) x y) with false. change (has_edge (gbD D) x y) with false. cbn [orb]. apply orb_comm. }
  split; [exact HE|]. split; [|split].
  - intros p Hp0. apply in_app_iff in Hp0.
    assert (Hup2 : forall n, has_node bsub n = true -> has_node G n = true).
    { intros n Hn0. unfold G, g2. rewrite !has_node_compose, Hn0, !orb_true_r. reflexivity. }
    assert (Hups : forall n, has_node sh n = true -> has_node G n = true).
    { intros n Hn0. unfold G, sh'. rewrite !has_node_compose, has_node_set_attr, Hn0, !orb_true_r. reflexivity. }
    destruct Hp0 as [Hp0|Hp0].
    + destruct (ext_new _ _ _ Xsh p Hp0) as [N1 N2]. split; apply Hups; assumption.
    + destruct (ext_new _ _ _ Xbs p Hp0) as [N1 N2]. split; apply Hup2; assumption.
  - unfold G, g2, sh'. apply lits_compose; [split; [intros n [<-|[]]; left; reflexivity|intros e0 []]|].
    apply lits_compose; [apply lits_compose|].
    + split; [intros n Hn0; change g1 with (g1c d D) in Hn0; rewrite (g1c_nodes d D Hkd Hks) in Hn0; destruct Hn0 as [<-|[<-|[]]]; [left; reflexivity|right; left; reflexivity]|intros e0 []].
    + exact (si2_lits _ _ _ _ _ Ibs).
    + apply lits_set_attr. apply (lits_weaken (QK (D :: ts') PC)); [|exact (si2_lits _ _ _ _ _ Ish)].
      intros n. destruct n; cbn [QK]; auto. intros H. right. exact H.
  - apply (clean_of G (D :: ts')).
    + unfold G, g2, sh'. apply drop_free_compose; [apply drop_I|]. apply drop_free_compose; [apply drop_free_compose; [apply drop_1; assumption|exact (si2_drop _ _ _ _ _ Ibs)]|].
      apply drop_free_set_attr; [exact (si2_drop _ _ _ _ _ Ish)|discriminate].
    + assert (EI : edges_inv (D :: ts') G); [|exact EI].
      unfold G, g2, sh'. apply edges_inv_compose; [intros e0 []|]. apply edges_inv_compose; [apply edges_inv_compose; [intros e0 []|exact (si2_edges _ _ _ _ _ Ibs)]|].
      apply (edges_inv_mono ts'); [intros v Hv; right; exact Hv|]. exact (si2_edges _ _ _ _ _ Ish).
Qed.
Print Assumptions cte_holders.
