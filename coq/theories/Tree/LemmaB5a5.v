(** Lemma B, step 5a, continued: the INSERT column list together with unresolved columns in the sub-query.
    (Parts 1-2 repeat Parts 2-3 of LemmaB5a3.v over the section CoreX of LemmaB5a4.v.) *)
From Coq Require Import Permutation.
From SV Require Import Tree.Render Tree.LemmaA Tree.LemmaAProofs Tree.LemmaB Tree.LemmaBProofs Tree.LemmaB5a Tree.LemmaB5a2 Tree.LemmaB5a3 Tree.LemmaB5a4
     Ident.Escape Ident.EscapeProofs Holder.PathProofs Holder.SortProofs.

(* ================================================================== *)
(** * Part 1: the cleanup when the target columns are given, on a frame that may store unresolved columns of other scopes *)
Section CoreKX.
Variable e : env.
Hypothesis Hprov : p_truthy (e_provider e) = false.
Variable d : dataset.
Variable ts : list dataset.
Hypothesis Hgo : group_ok d ts.
Hypothesis Hinj : ts_inj ts.
Hypothesis Hnd : names_nodot ts.
Hypothesis Hdo : Forall data_ok ts.
Hypothesis Hd_ok : data_ok d.
Variable L : string -> dataset -> Prop.
Hypothesis HLdot : forall a w v, L a w -> In v ts -> a <> dstr v.
Variable NM : list string.
Variable QX : column -> Prop.
Variable cs : list string.

Lemma srcp_parents_not_targetX s : srcpX ts NM s -> forall p, In p (cparents s) -> dataset_eqb p d = false.
Proof.
  intros Hs p Hp0.
  assert (K : exists w, In w ts /\ dataset_eqb p w = true).
  { destruct Hs as [(u & Eu & _ & w & Hw & Ew)|(_ & _ & HP & _)]; [rewrite Eu in Hp0; destruct Hp0 as [<-|[]]; exists w; auto|exact (proj2 (HP p Hp0))]. }
  destruct K as (w & Hw & Ew). destruct (dataset_eqb p d) eqn:E; [|reflexivity].
  rewrite <- (go_target _ _ Hgo w Hw). symmetry. apply (dataset_eqb_trans w p d); [apply dataset_eqb_true_sym; exact Ew|exact E].
Qed.

Lemma eoq_fold_cols_fX cols :
  List.length cols = List.length cs -> (forall x, In x cols -> xref_ok_fX ts L NM x) ->
  forall l g2 idx,
    (forall x, In x l -> In x cols) -> sinvX ts L NM QX g2 -> sq_write g2 = [d] -> memd d (sq_read g2) = false ->
    out_edges g2 (NData d) = OE d cs -> idx + List.length l = List.length cols ->
    exists g', fst (fold_left (fun acc2 x => let '(rg, idx) := acc2 in
                                  (do g2 <- rg; eoq_step e ts (List.length cols) d g2 idx x, Datatypes.S idx)) l (Ok g2, idx)) = Ok g' /\
               ext g2 g' (sel_edges d (S_of ts) (combine l (skipn idx (map (Wcol d) cs)))) /\ sinvX ts L NM QX g' /\
               (forall k, holder_nodes g' k = holder_nodes g2 k) /\ out_edges g' (NData d) = OE d cs.
Proof.
  intros Hlen HX. induction l as [|x r IH]; intros g2 idx Hl Hs Hw Hr Ho Hn; cbn [fold_left].
  - exists g2. split; [reflexivity|]. split; [apply ext_refl|]. split; [exact Hs|]. split; [reflexivity|exact Ho].
  - cbn [List.length] in Hn. assert (Hidx : idx < List.length cs) by lia.
    destruct (nth_error cs idx) as [c|] eqn:Ec; [|apply nth_error_None in Ec; lia].
    pose proof (nth_error_In _ _ Ec) as Hc.
    assert (Ewc : write_columns g2 = map (Wcol d) cs) by (apply write_columns_exact; assumption).
    destruct (HS_fX e d ts Hgo Hinj Hnd Hdo L HLdot NM QX g2 x Hs (HX x (Hl x (or_introl eq_refl)))) as (s & s0 & Et & ES & Ecol & Hsrc).
    destruct (acl_ok_fX d ts Hgo Hd_ok L NM QX g2 s (Wcol d c) Hs eq_refl Hsrc) as (g3 & E3 & X3 & S3 & T3 & _).
    assert (Estep : eoq_step e ts (List.length cols) d g2 idx x = Ok g3).
    { unfold eoq_step. rewrite Et. cbv zeta. rewrite Ewc, map_length, Hlen, Nat.eqb_refl.
      rewrite (map_nth_error (Wcol d) idx cs Ec). cbn [fold_left]. exact E3. }
    rewrite Estep.
    assert (O3 : out_edges g3 (NData d) = OE d cs).
    { apply (acl_oed d cs g2 s c g3 E3 Ho Hc). exact (srcp_parents_not_targetX s Hsrc). }
    assert (Hw3 : sq_write g3 = [d]) by (unfold sq_write; rewrite T3; exact Hw).
    assert (Hr3 : memd d (sq_read g3) = false) by (unfold sq_read; rewrite T3; exact Hr).
    destruct (IH g3 (Datatypes.S idx) (fun y Hy => Hl y (or_intror Hy)) S3 Hw3 Hr3 O3 ltac:(lia)) as (g' & E' & X' & S' & T' & O').
    exists g'. split; [exact E'|]. split.
    + rewrite (skipn_nth (map (Wcol d) cs) idx (Wcol d c) (map_nth_error (Wcol d) idx cs Ec)).
      unfold sel_edges. cbn [combine flat_map fst snd]. apply (ext_trans g2 g3 g'); [|exact X'].
      rewrite ES. cbn [flat_map]. rewrite app_nil_r. apply (ext_eqbX _ _ _ _ X3). apply acl_edges_eqbX. exact Ecol.
    + split; [exact S'|]. split; [intros k; rewrite T', T3; reflexivity|exact O'].
Qed.

Lemma select_core_cols_fX g1 cols :
  gok g1 -> finvX ts L g1 -> lits_in (QCX ts NM QX) g1 -> sq_write g1 = [d] -> memd d (sq_read g1) = false ->
  out_edges g1 (NData d) = OE d cs -> List.length cols = List.length cs ->
  (forall x, In x cols -> xref_ok_fX ts L NM x) ->
  exists sub, (do g2 <- end_of_query_cleanup e g1 ts cols []; expand_wildcard e g2) = Ok sub /\
              ext g1 sub (map (fun v => (NData v, NStr (dalias v))) ts ++ sel_edges d (S_of ts) (combine cols (map (Wcol d) cs))) /\
              sinvX ts L NM QX sub /\ (forall k, k <> "read" -> holder_nodes sub k = holder_nodes g1 k).
Proof.
  intros Hg Hf Hq Hw Hr Ho Hlen HX.
  destruct (add_reads_fX d ts Hgo L NM QX ts g1 (fun v Hv => Hv) Hf Hq) as (A1 & A2 & A3 & A4).
  destruct (fold_add_read ts g1 Hg Hdo) as (G1 & G2 & _).
  rewrite eoq_single. cbv zeta. set (g0 := fold_left add_read ts g1) in *.
  assert (Hw0 : sq_write g0 = [d]) by (unfold sq_write; rewrite G2 by discriminate; exact Hw).
  rewrite Hw0.
  assert (Hr0 : memd d (sq_read g0) = false).
  { destruct (memd d (sq_read g0)) eqn:E; [|reflexivity]. exfalso. apply memd_In_eqb in E. destruct E as (v & Hv & Ev).
    unfold sq_read, g0 in Hv. apply reads_after_add_reads in Hv; [|exact (go_tables _ _ Hgo)].
    destruct Hv as [Hv|(w & Hw' & Ew)].
    - assert (K : memd d (sq_read g1) = true) by (unfold memd; apply existsb_exists; exists v; auto). congruence.
    - assert (K : dataset_eqb w d = true) by (apply (dataset_eqb_trans w v d Ew); apply dataset_eqb_true_sym; exact Ev).
      rewrite (go_target _ _ Hgo w Hw') in K. discriminate. }
  assert (Hs0 : sinvX ts L NM QX g0).
  { constructor; [exact G1|exact A1| |exact A2]. intros v Hv.
    assert (Hin : In (NData v, NStr (dalias v)) (map (fun v => (NData v, NStr (dalias v))) ts)) by (apply in_map_iff; exists v; auto).
    split.
    - rewrite (ext_edges _ _ _ A3). apply orb_true_iff. right. unfold ematch. apply existsb_exists. eexists. split; [exact Hin|].
      cbn [fst snd]. rewrite !node_eqb_refl. reflexivity.
    - exact (proj1 (ext_new _ _ _ A3 _ Hin)). }
  destruct (eoq_fold_cols_fX cols Hlen HX cols g0 0 (fun x Hx => Hx) Hs0 Hw0 Hr0) as (g' & E' & X' & S' & T' & _).
  - rewrite A4. exact Ho.
  - reflexivity.
  - rewrite E'. rewrite (expand_wildcard_id_fX e Hprov ts L g' (sv_finvX _ _ _ _ _ S')).
    exists g'. split; [reflexivity|]. split; [cbn [skipn] in X'; apply (ext_trans g1 g0 g'); assumption|]. split; [exact S'|].
    intros k Hk. rewrite T'. apply G2. exact Hk.
Qed.
End CoreKX.

(* ================================================================== *)
(** * Part 2: the frame with the write columns of the INSERT column list and unresolved columns of the sub-query *)
Section FrameKX.
Variable e : env.
Hypothesis Henv : env_ok e = true.
Variable sqd : dataset.
Hypothesis Hsqk : dk sqd = KSubq.
Hypothesis Hsqok : data_ok sqd.
Variable ts' : list dataset.
Variable xs' : list xcol.
Variable NM' : list string.
Hypothesis Hinj' : ts_inj ts'.
Hypothesis Hgo' : group_ok sqd ts'.
Hypothesis Hdo' : Forall data_ok ts'.
Hypothesis HX' : forall x, In x xs' -> xref_ok_fX ts' LF NM' x.
Hypothesis HNM' : forall nm, In nm NM' -> exists x, In x xs' /\ In (Ucol ts' nm) (S_of ts' x).
Hypothesis HNQ' : forall x' s' nm v, In nm NM' -> In x' xs' -> In s' (S_of ts' x') -> cparents s' = [v] -> craw s' <> nm.
Hypothesis Hxok' : Forall xcol_ok xs'.
Variable d : dataset.
Variable ts : list dataset.
Variable NM : list string.
Variable xs : list xcol.
Hypothesis Hd : dk d = KTable.
Hypothesis Hd_ok : data_ok d.
Hypothesis Hgo : group_ok d ts.
Hypothesis Hdo : Forall data_ok ts.
Hypothesis Hnoself : forall v', In v' ts' -> dataset_eqb v' d = false.
Hypothesis Hcross : forall nm x' s' v, In nm NM -> In x' xs' -> In s' (S_of ts' x') -> cparents s' = [v] -> craw s' <> escape nm.
Hypothesis Hdisj : forall nm, In nm NM -> In nm NM' -> False.
Hypothesis Hcross2 : forall nm v x s, In nm NM' -> In v ts -> In x xs -> In s (S_of ts x) -> cparents s = [v] -> craw s <> nm.
Variable cs : list string.
Hypothesis Hndc : NoDup cs.

Variable sh : graph.
Hypothesis Esh : (do g2 <- end_of_query_cleanup e (add_write empty_graph sqd) ts' xs' []; expand_wildcard e g2) = Ok sh.
Hypothesis HE : forall x y, has_edge sh x y = ematch x y (EL' sqd ts' xs').
Hypothesis Hs : sinvX ts' LF NM' QF sh.
Hypothesis Tw : holder_nodes sh "write" = [sqd].
Hypothesis Tc : holder_nodes sh "cte" = [].

Lemma sh_readsX v : In v (holder_nodes sh "read") -> dataset_eqb v d = false.
Proof.
  intros Hv. destruct (dataset_eqb v d) eqn:E; [|reflexivity]. exfalso.
  set (gbi := add_write empty_graph sqd).
  assert (G : gok gbi) by (apply gok_add_tag; [apply gok_empty|exact Hsqok]).
  destruct (select_tail e Henv gbi ts' xs' [] G Hdo' Hxok') as (g3 & E3 & _ & _ & Hr); [cbn; lia|].
  unfold gbi in E3. rewrite Esh in E3. inversion E3. subst g3.
  pose proof (gok_data sh v "read" (sv_gokX _ _ _ _ _ Hs) Hv) as Dv.
  assert (Kv : dk v = KTable) by (rewrite (dataset_eqb_dk _ _ E); exact Hd).
  destruct (eqb_table_dstr v d E Dv Hd_ok Kv) as [_ Ed].
  assert (T1 : tset sh "read" (dstr d)) by (exists v; split; [exact Hv|split; [exact Kv|symmetry; exact Ed]]).
  apply Hr in T1. destruct T1 as [(x & [] & _)|(v' & Hv' & Kv' & Ev')].
  assert (Tv' : tab_ok v') by (apply (ts_tab_ok sqd ts' Hgo' Hdo' v' Hv')).
  pose proof (tab_ok_dstr_eqb v' d Tv' (conj Hd Hd_ok) Ev') as K. rewrite (Hnoself v' Hv') in K. discriminate K.
Qed.

Lemma frame_facts_colsX :
  let gb := gb_of d cs in
  let g1 := frame_of gb sh sqd in
  gok g1 /\ finvX ts (leak ts') g1 /\ lits_in (QCX ts NM (UPX ts' NM')) g1 /\ sq_write g1 = [d] /\ sq_cte g1 = [] /\
  memd d (sq_read g1) = false /\ out_edges g1 (NData d) = OE d cs /\
  (forall x y, has_edge gb x y = true -> has_edge g1 x y = true) /\
  (forall x y, is_column x = true -> has_edge g1 x y = true -> parent_is KSubq y = true) /\
  (forall x y, parent_is KSubq x = true -> has_edge g1 x y = false) /\
  (forall nm y, has_edge g1 (NCol {| craw := nm; cparents := [d] |}) y = false) /\
  (forall nm p w, In nm NM -> tab_ok p -> In w ts -> dataset_eqb p w = true -> has_edge g1 (NData p) (NCol (mk_col nm p)) = false) /\
  (forall c, UPX ts' NM' c -> 2 <= List.length (cparents c) /\ (forall nm, In nm NM -> craw c <> nm) /\ (exists y, has_edge g1 (NCol c) y = true) /\
     forall p, In p (cparents c) -> tab_ok p /\ dataset_eqb p d = false /\ has_edge g1 (NData p) (NCol (mk_col (craw c) p)) = false /\
       forall v x' s', In v ts -> dataset_eqb p v = true -> In x' xs -> In s' (S_of ts x') -> cparents s' = [v] -> craw s' <> escape (craw c)).
Proof.
  intros gb g1.
  destruct (frame_factsX sqd Hsqk ts' xs' NM' Hgo' Hinj' Hdo' HX' HNM' HNQ' d ts NM xs Hd Hd_ok Hgo Hdo Hnoself Hcross Hdisj Hcross2 sh HE Hs Tw Tc)
    as (_ & F0 & L0 & _ & _ & N0 & FR3 & FR4 & FR5 & FR6 & HQ0).
  set (g0 := frame_of (add_write empty_graph d) sh sqd) in *.
  destruct (gb_facts d cs Hd Hndc) as (GA & GB & GC & GD & GO). fold gb in GA, GB, GC, GD, GO.
  assert (Ggb : gok gb).
  { apply (cstep_add_write_column (add_write empty_graph d) (cl_of cs)); [apply gok_add_tag; [apply gok_empty|exact Hd_ok]|].
    intros t0 _. apply Forall_forall. intros c Hc. unfold cl_of in Hc. apply in_map_iff in Hc. destruct Hc as (c0 & <- & _). left. reflexivity. }
  assert (Wgb : sq_write gb = [d]) by (unfold sq_write; rewrite GC; reflexivity).
  assert (Cgb : sq_cte gb = []) by (unfold sq_cte; rewrite GC; reflexivity).
  destruct (frame_tags gb sh sqd d Ggb (sv_gokX _ _ _ _ _ Hs) Hsqk Hd Wgb Cgb Tw Tc) as (G1 & W1 & C1).
  assert (Hsh0 : forall x y, has_edge g0 x y = has_edge sh x y) by (intros x y; unfold g0; apply frame_edges; reflexivity).
  assert (HE1 : forall x y, has_edge g1 x y = has_edge gb x y || has_edge g0 x y).
  { intros x y. unfold g1, frame_of. rewrite has_edge_compose, has_edge_set_attr, Hsh0. reflexivity. }
  assert (Hgbe : forall x y, has_edge gb x y = true -> node_eqb x (NData d) = true).
  { intros x y H. apply has_edge_In in H. destruct H as (e0 & He0 & E1 & _). rewrite GA in He0. destruct (OE_edge d cs e0 He0) as (j & c & _ & ->). exact E1. }
  assert (Hgbn : forall x y, (forall v, x <> NData v) -> has_edge gb x y = false).
  { intros x y Hx. destruct (has_edge gb x y) eqn:E; [|reflexivity]. apply Hgbe in E. destruct x as [v| |]; cbn in E; try discriminate. exfalso. exact (Hx v eq_refl). }
  assert (Esh' : forall e0, In e0 (gedges (set_attr sh [NData sqd] "write" false)) -> In e0 (gedges sh)) by (intros e0 H; exact H).
  assert (Hshd : forall e0, In e0 (gedges sh) -> node_eqb (NData d) (fst (fst e0)) = false).
  { intros e0 He0. destruct (node_eqb (NData d) (fst (fst e0))) eqn:E; [|reflexivity].
    assert (K : has_edge sh (NData d) (snd (fst e0)) = true) by (apply has_edge_In; exists e0; split; [exact He0|split; [exact E|apply node_eqb_refl]]).
    rewrite <- Hsh0, N0 in K. discriminate. }
  split; [exact G1|]. split; [|split; [|split; [exact W1|split; [exact C1|split; [|split]]]]].
  - (* finv: the edges of the frame are those of the write columns and, up to equality, those of the frame without them *)
    constructor.
    + intros e0 src a He Hf.
      refine (compose_edge_pred (fun u v at0 => forall src al, u = NData src -> v = NStr al ->
                etype at0 = "has_alias" /\ forall w, In w ts -> dataset_eqb src w = true -> al = dalias w \/ leak ts' al w)
              gb _ _ _ _ _ e0 He src a _ _).
      * intros u v at0 u' v' HP E1 E2 src' al -> ->. rewrite node_eqb_sym in E2. apply eqb_shape_str in E2. subst v.
        destruct u as [src0| |]; cbn [node_eqb] in E1; try discriminate. destruct (HP src0 al eq_refl eq_refl) as [Q1 Q2]. split; [exact Q1|].
        intros w Hw Ew. apply (Q2 w Hw). apply (dataset_eqb_trans src0 src' w E1 Ew).
      * intros u v at0 a' HP E src' al Eu Ev. rewrite E. exact (HP src' al Eu Ev).
      * intros e1 He1 src' al _ Ev. rewrite GA in He1. destruct (OE_edge d cs e1 He1) as (j & c & _ & ->). discriminate Ev.
      * intros e1 He1 src' al Eu Ev. apply Esh' in He1. destruct e1 as [[u v] at1]. cbn [fst snd] in *. subst u v.
        split; [exact (proj1 (fi_aliasX _ _ _ (sv_finvX _ _ _ _ _ Hs) _ src' al He1 eq_refl))|].
        assert (K : has_edge sh (NData src') (NStr al) = true).
        { apply has_edge_In. eexists. split; [exact He1|]. cbn [fst snd]. rewrite !node_eqb_refl. auto. }
        rewrite HE in K. unfold EL' in K. rewrite ematch_app, ematch_sel_ystr, orb_false_r in K.
        apply ematch_alias_in in K. destruct K as (v' & Hv' & E1 & E2). inversion E2. subst al. cbn [node_eqb] in E1.
        intros w Hw Ew. right. exists v'. split; [exact Hv'|]. split; [reflexivity|].
        apply (dataset_eqb_trans v' src' w); [apply dataset_eqb_true_sym; exact E1|exact Ew].
      * rewrite Hf. reflexivity.
      * rewrite Hf. reflexivity.
    + intros e0 He.
      refine (compose_edge_pred (fun _ _ at0 => etype at0 = "lineage" \/ etype at0 = "has_column" \/ etype at0 = "has_alias") gb _ _ _ _ _ e0 He).
      * auto.
      * intros u v at0 a' HP E. rewrite E. exact HP.
      * intros e1 He1. rewrite GA in He1. destruct (OE_edge d cs e1 He1) as (j & c & _ & ->). right. left. reflexivity.
      * intros e1 He1. exact (fi_typesX _ _ _ (sv_finvX _ _ _ _ _ Hs) e1 (Esh' e1 He1)).
    + intros e0 c p He Hf Hc.
      refine (compose_edge_pred (fun u _ _ => forall c p, u = NCol c -> cparents c = [p] -> dk p = KTable) gb _ _ _ _ _ e0 He c p Hf Hc).
      * intros u v at0 u' v' HP E1 _ c' p' -> Hc'. destruct u as [|cu|]; cbn [node_eqb] in E1; try discriminate.
        unfold col_eqb in E1. apply andb_true_iff in E1. destruct E1 as [_ E1]. unfold col_parent at 2 in E1. rewrite Hc' in E1.
        destruct (col_parent cu) as [pu|] eqn:Ecu; cbn [opt_dataset_eqb] in E1; [|discriminate].
        rewrite <- (dataset_eqb_dk _ _ E1). exact (HP cu pu eq_refl (col_parent_some _ _ Ecu)).
      * intros u v at0 a' HP _. exact HP.
      * intros e1 He1 c' p' Eu _. rewrite GA in He1. destruct (OE_edge d cs e1 He1) as (j & c0 & _ & ->). discriminate Eu.
      * intros e1 He1 c' p' Eu Hc'. exact (fi_srcqX _ _ _ (sv_finvX _ _ _ _ _ Hs) e1 c' p' (Esh' e1 He1) Eu Hc').
    + unfold g1, frame_of. apply drop_free_compose; [exact GD|]. apply drop_free_set_attr_write. exact (fi_dropX _ _ _ (sv_finvX _ _ _ _ _ Hs)).
  - (* stored column objects *)
    unfold g1, frame_of. apply lits_compose.
    + assert (Qn : forall n, In n (map fst (gnodes gb)) -> QCX ts NM (UPX ts' NM') n).
      { intros n Hn. rewrite GB in Hn. destruct Hn as [<-|Hn]; [exact I|]. apply in_map_iff in Hn. destruct Hn as (c & <- & _). left. reflexivity. }
      split; [exact Qn|]. intros e0 He0. rewrite GA in He0. destruct (OE_edge d cs e0 He0) as (j & c & _ & ->). cbn [fst snd]. split; [exact I|left; reflexivity].
    + apply lits_set_attr. apply (lits_weaken (QCX ts' NM' QF)); [|exact (sv_litsX _ _ _ _ _ Hs)]. intros n Hn. destruct n as [|c|]; try exact I.
      cbn [QCX] in *. destruct Hn as [Hn|[Hn|[]]]; [left; exact Hn|right; right; exact Hn].
  - (* the target is not read *)
    destruct (memd d (sq_read g1)) eqn:E; [|reflexivity]. exfalso. apply memd_In_eqb in E. destruct E as (v & Hv & Ev).
    unfold sq_read, g1, frame_of in Hv.
    destruct (tag_compose_sound gb _ "read" v (gok_set_attr_write sh sqd (sv_gokX _ _ _ _ _ Hs) Hsqk) Hv) as [K|(d' & K & Ed')].
    + rewrite GC in K. destruct K.
    + rewrite (tag_set_attr_other sh _ "write" false "read") in K by discriminate.
      assert (K2 : dataset_eqb d' d = true) by (apply (dataset_eqb_trans d' v d Ed'); apply dataset_eqb_true_sym; exact Ev).
      rewrite (sh_readsX d' K) in K2. discriminate.
  - unfold g1, frame_of. rewrite out_edges_compose_other; [exact GO|]. intros e0 He0. apply Hshd. apply Esh'. exact He0.
  - split; [intros x y H; rewrite HE1, H; reflexivity|]. split; [|split; [|split; [|split]]].
    + intros x y Hx Hxy. rewrite HE1, Hgbn in Hxy by (intros v ->; discriminate Hx). exact (FR3 x y Hx Hxy).
    + intros x y Hx. rewrite HE1, Hgbn by (intros v ->; discriminate Hx). exact (FR4 x y Hx).
    + intros nm y. rewrite HE1, Hgbn by (intros v; discriminate). exact (FR5 nm y).
    + intros nm p w Hnm Tp Hw Ew. rewrite HE1, (FR6 nm p w Hnm Tp Hw Ew), orb_false_r.
      destruct (has_edge gb (NData p) _) eqn:E; [|reflexivity]. apply Hgbe in E. cbn [node_eqb] in E.
      assert (K : dataset_eqb w d = true) by (apply (dataset_eqb_trans w p d); [apply dataset_eqb_true_sym; exact Ew|exact E]).
      rewrite (go_target _ _ Hgo w Hw) in K. discriminate.
    + intros c Hc. destruct (HQ0 c Hc) as (Hl & Hnq & (y0 & Hy0) & HPq). split; [exact Hl|]. split; [exact Hnq|].
      split; [exists y0; rewrite HE1, Hy0; apply orb_true_r|]. intros p Hp0. destruct (HPq p Hp0) as (Tp & Epd & Eg & Hout).
      split; [exact Tp|]. split; [exact Epd|]. split; [|exact Hout]. rewrite HE1, Eg, orb_false_r.
      destruct (has_edge gb (NData p) _) eqn:E; [|reflexivity]. apply Hgbe in E. cbn [node_eqb] in E. congruence.
Qed.
End FrameKX.

(* ================================================================== *)
(** * Part 3: the model side *)
Theorem model_pairs_wherein1_colsX noise e t cs items from cj c items' from' cj' :
  noise_ok noise = true -> env_ok e = true ->
  let q := QSelect items from cj (Some (c, QSelect items' from' cj' None)) in
  tref_ok t = true -> forallb id_ok cs = true -> NoDup cs -> List.length cs = List.length items ->
  forallb item_ok items = true -> from <> [] -> forallb rel_ok from = true ->
  forallb item_ok items' = true -> from' <> [] -> forallb rel_ok from' = true ->
  let d := tbl e t None in let ts := map (tbl_of e) from in let xs := map xcol_of items in
  let ts' := map (tbl_of e) from' in let xs' := map xcol_of items' in
  let NM := unres_names ts xs in let NM' := unres_names ts' xs' in
  group_ok d ts -> ts_inj ts -> names_nodot ts -> NoDup (map dstr ts) ->
  ts_inj ts' -> names_nodot ts' -> (forall v', In v' ts' -> dataset_eqb v' d = false) ->
  (forall x, In x xs -> xref_ok_fX ts (leak ts') NM x) -> noqual ts xs ->
  (forall x', In x' xs' -> xref_ok_fX ts' LF NM' x') -> noqual ts' xs' ->
  (forall nm x' s' v, In nm NM -> In x' xs' -> In s' (S_of ts' x') -> cparents s' = [v] -> craw s' <> nm) ->
  (forall nm, In nm NM -> In nm NM' -> False) ->
  (forall nm v x s0, In nm NM' -> In v ts -> In x xs -> In s0 (S_of ts x) -> cparents s0 = [v] -> craw s0 <> nm) ->
  script_pairs e false [] [r_stmt noise (SInsert t (Some cs) q)] =
  uniq_sorted (sort_strings (map flow_str (flows_of (S_of ts) (combine xs (map (Wcol d) cs))))).
Proof.
  intros Hn He q Ht Hcs Hndc Hlen Hit Hne Hrel Hit' Hne' Hrel' d ts xs ts' xs' NM NM' Hgo Hinj Hnd Hnds Hinj' Hnd' Hnoself HX Hnq HX' Hnq' Hcross Hdisj Hcross2.
  set (s := SInsert t (Some cs) q).
  set (e' := with_cols e (view_cols [] [])).
  assert (He' : env_ok e' = true) by exact He.
  assert (Hp : p_truthy (e_provider e') = false) by exact (proj1 (env_facts e' He')).
  assert (Htab : forall (fr : list rel), forallb rel_ok fr = true -> forall v, In v (map (tbl_of e') fr) -> tab_ok v).
  { intros fr Hfr v Hv. apply in_map_iff in Hv. destruct Hv as (r & <- & Hr). rewrite forallb_forall in Hfr. specialize (Hfr r Hr).
    destruct r; try discriminate. split; reflexivity. }
  assert (Hdo : Forall data_ok ts) by (apply Forall_forall; intros v Hv; exact (proj2 (Htab from Hrel v Hv))).
  assert (Hdo' : Forall data_ok ts') by (apply Forall_forall; intros v Hv; exact (proj2 (Htab from' Hrel' v Hv))).
  set (sq := QSelect items' from' cj' None) in *.
  assert (Hk : exists k, q_size q = S k) by (eexists; apply q_size_select). destruct Hk as [k Hk].
  set (sqd := mk_subquery (r_brq noise (S k) sq) None).
  assert (Hsqk : dk sqd = KSubq) by reflexivity.
  assert (Hsqok : data_ok sqd) by (unfold data_ok; cbn; discriminate).
  assert (Hgo' : group_ok sqd ts').
  { constructor; [intros v Hv; exact (proj1 (Htab from' Hrel' v Hv))|exact (proj1 Hinj')|].
    intros v Hv. unfold dataset_eqb. rewrite (proj1 (Htab from' Hrel' v Hv)), Hsqk. reflexivity. }
  set (gb := gb_of d cs).
  destruct (gb_facts d cs eq_refl Hndc) as (GA & GB & GC & GD & GO). fold gb in GA, GB, GC, GD, GO.
  assert (Cgb : sq_cte gb = []) by (unfold sq_cte; rewrite GC; reflexivity).
  assert (Hxs : forall x, In x xs -> xref_ok ts x) by (intros x Hx; apply (xref_ok_f_oldX ts (leak ts') NM x (HX x Hx))).
  assert (Hxs' : forall x, In x xs' -> xref_ok ts' x) by (intros x Hx; apply (xref_ok_f_oldX ts' LF NM' x (HX' x Hx))).
  destruct (inner_holderX e' Hp sqd Hsqok ts' xs' NM' Hgo' Hinj' Hnd' Hdo' HX') as (sh & Esh & HEsh & Ssh & Twsh & Tcsh).
  assert (Hcross' : forall nm x' s' v, In nm NM -> In x' xs' -> In s' (S_of ts' x') -> cparents s' = [v] -> craw s' <> escape nm).
  { intros nm x' s' v Hnm. rewrite (unres_escape ts (leak ts') NM xs nm HX Hnm). exact (Hcross nm x' s' v Hnm). }
  destruct (frame_facts_colsX e' He' sqd Hsqk Hsqok ts' xs' NM' Hinj' Hgo' Hdo' HX' (HNM_of ts' xs') (HNQ_of ts' xs' Hinj' Hxs' Hnq') (xcol_ok_of items' Hit')
              d ts NM xs eq_refl eq_refl Hgo Hdo Hnoself Hcross' Hdisj Hcross2 cs Hndc sh Esh HEsh Ssh Twsh Tcsh)
    as (G1 & F1 & L1 & W1 & C1 & R1 & O1 & Sub1 & FR3 & FR4 & FR5 & FR6 & HQ).
  fold gb in G1, F1, L1, W1, C1, R1, O1, Sub1, FR3, FR4, FR5, FR6, HQ. set (g1 := frame_of gb sh sqd) in *.
  assert (Hlx : List.length xs = List.length cs) by (unfold xs; rewrite map_length; lia).
  destruct (select_core_cols_fX e' Hp d ts Hgo Hinj Hnd Hdo eq_refl (leak ts')) with (NM := NM) (QX := UPX ts' NM') (cs := cs) (g1 := g1) (cols := xs) as (sub & Esub & Xsub & Ssub & Tsub); try assumption.
  { intros a w v (v' & Hv' & -> & _) Hv K.
    apply in_map_iff in Hv'. destruct Hv' as (r' & <- & Hr'). apply in_map_iff in Hv. destruct Hv as (r & <- & Hr).
    rewrite forallb_forall in Hrel, Hrel'. pose proof (Hrel r Hr) as Ok1. pose proof (Hrel' r' Hr') as Ok2.
    destruct r as [t1 al1| |]; try discriminate. destruct r' as [t2 al2| |]; try discriminate. cbn [tbl_of tbl dalias dstr] in K.
    cbn [rel_ok] in Ok2. apply andb_true_iff in Ok2. destruct Ok2 as [Ht2 Ha2]. unfold tref_ok in Ht2. apply andb_true_iff in Ht2.
    destruct al2 as [a2|]; [exact (id_ok_not_tref a2 _ _ Ha2 (eq_sym K))|exact (id_ok_not_tref (snd t2) _ _ (proj1 Ht2) (eq_sym K))]. }
  assert (Hinit : init_holder (dctx gb) = gb) by (apply init_delegate_cols; [reflexivity|exact Hndc]).
  assert (Ea : analyze e' false (r_stmt noise s) = Ok (compose gb sub)).
  { unfold s, q. rewrite (analyze_insert_cols_q noise Hn e' He' t cs items from cj _ Ht Hcs).
    set (F := 3 * depth _ + 6). change (q_size (QSelect items from cj (Some (c, sq)))) with (q_size q). rewrite Hk. change (tbl e' t None) with d. fold gb.
    assert (Ein : extract (S (S F)) e' XSelect (r_brq noise (S k) sq)
                    {| c_cte := Some (sq_cte (init_holder (dctx gb))); c_write := Some [sqd]; c_write_columns := None |} = Ok sh).
    { rewrite Hinit, Cgb.
      rewrite (select_tables_extract noise Hn e' He' F _ items' from' cj' k); [exact Esh| |exact Hit'|exact Hne'|exact Hrel'|reflexivity].
      unfold sq. rewrite (sel_segments_brq_select noise Hn). reflexivity. }
    rewrite (extract_select_where noise Hn e' He' (S F) _ items from cj k c sq (dctx gb) sh); [| |exact Hit|exact Hne|exact Hrel| |exact Ein|].
    - rewrite Hinit. fold sqd. fold g1. change (map (tbl_of e') from) with ts. change (map xcol_of items) with xs. rewrite Esub. reflexivity.
    - rewrite (sel_segments_top_select noise Hn). unfold clauses. rewrite r_wh_some. reflexivity.
    - apply body_ok_tables; assumption.
    - rewrite Hinit. exact C1. }
  destruct (holder_realises_gX d ts (leak ts') (UPX ts' NM') xs gb (combine xs (map (Wcol d) cs)) g1 sub Hgo Hinj Hdo Hnds eq_refl HX (HNM_of ts xs) (HNQ_of ts xs Hinj Hxs Hnq)) as (K1 & K2 & K3 & K4); try assumption.
  - intros [x w] Hp0. split; [exact (in_combine_l _ _ _ _ Hp0)|]. apply in_combine_r in Hp0. apply in_map_iff in Hp0.
    destruct Hp0 as (c0 & <- & _). reflexivity.
  - intros x Hx. apply (In_combine_l_ex xs (map (Wcol d) cs) x); [rewrite map_length; exact Hlx|exact Hx].
  - assert (Qn : forall n, In n (map fst (gnodes gb)) -> QCX ts NM (UPX ts' NM') n).
    { intros n Hn0. rewrite GB in Hn0. destruct Hn0 as [<-|Hn0]; [exact I|]. apply in_map_iff in Hn0. destruct Hn0 as (c0 & <- & _). left. reflexivity. }
    split; [exact Qn|]. intros e0 He0. rewrite GA in He0. destruct (OE_edge d cs e0 He0) as (j & c0 & _ & ->). cbn [fst snd]. split; [exact I|left; reflexivity].
  - intros e0 He0. rewrite GA in He0. destruct (OE_edge d cs e0 He0) as (j & c0 & _ & ->). reflexivity.
  - apply (script_pairs_of_holder_in e (r_stmt noise s) _ _ Ea (proj1 (env_facts e He)) K1 K2 K3 K4).
Qed.
Print Assumptions model_pairs_wherein1_colsX.

(* ================================================================== *)
(** * Part 4: Lemma B on the whole one-level fragment, purely syntactic guard *)
Definition wherein1c_syntactic (s : stmt) : bool :=
  match s with
  | SInsert t _ (QSelect items from _ (Some (_, QSelect items' from' _ None)))
  | SCtas t (QSelect items from _ (Some (_, QSelect items' from' _ None)))
  | SView t (QSelect items from _ (Some (_, QSelect items' from' _ None))) =>
      forallb is_rtable from && trefs_distinct (map rtref from) && forallb is_rtable from' && trefs_distinct (map rtref from')
  | _ => false
  end.

Theorem lemma_B_wherein1cu_colshape : forall noise e s,
  noise_ok noise = true -> env_ok e = true -> stmt_ok s = true -> sshape s = true -> colshape s = true ->
  wherein1c_syntactic s = true -> script_pairs e false [] [r_stmt noise s] = spec_pairs (e_cfg e) s.
Proof.
  intros noise e s Hn He Hok Hss Hc Hsyn.
  destruct s as [t [cs|] q|t q|t q|q|kind]; try discriminate Hsyn;
    try (apply lemma_B_wherein1u_colshape; try assumption;
         destruct q as [items from cj [[c sq]|]| |]; try discriminate Hsyn; destruct sq as [items' from' cj' [wh'|]| |]; try discriminate Hsyn; exact Hsyn).
  destruct q as [items from cj [[c sq]|]| |]; try discriminate Hsyn. destruct sq as [items' from' cj' [wh'|]| |]; try discriminate Hsyn.
  cbn [wherein1c_syntactic] in Hsyn.
  apply andb_true_iff in Hsyn. destruct Hsyn as [Hsh Hd']. apply andb_true_iff in Hsh. destruct Hsh as [Hsh Hrt']. apply andb_true_iff in Hsh. destruct Hsh as [Hrt Hd].
  cbn [stmt_ok] in Hok. apply andb_true_iff in Hok. destruct Hok as [Hok Hcs].
  destruct (stmt_ok_select_w t items from cj c items' from' cj' Hok Hrt Hrt') as (Ht & Hit & Hne & Hrel & Hit' & Hne' & Hrel').
  set (s := SInsert t (Some cs) (QSelect items from cj (Some (c, QSelect items' from' cj' None)))) in *.
  assert (Hs' : (exists cols, s = SInsert t cols (QSelect items from cj (Some (c, QSelect items' from' cj' None)))) \/
                s = SCtas t (QSelect items from cj (Some (c, QSelect items' from' cj' None))) \/
                s = SView t (QSelect items from cj (Some (c, QSelect items' from' cj' None)))) by (left; exists (Some cs); reflexivity).
  destruct (colshape_wherein1 (e_cfg e) s t items from cj c items' from' cj' Hs' Hc Ht Hne Hrel Hit Hne' Hrel' Hit' Hd Hd')
    as (Ptc & Pic & Pnq & Ptc' & Pic' & Pnq' & Hlk & Hcr).
  destruct (colshape_wherein1 "" s t items from cj c items' from' cj' Hs' Hc Ht Hne Hrel Hit Hne' Hrel' Hit' Hd Hd') as (Tc0 & _).
  pose proof (colshape_wherein1_inner_cross s t items from cj c items' from' cj' Hs' Hc Ht Hne Hrel Hit Hne' Hrel' Hit' Hd Hd') as Hcr'.
  destruct (colshape_cols_w s t cs items from cj _ eq_refl Hc Hrel Hit Tc0 Pic) as [Hndc Hlen].
  assert (Cross : forall fr its its' nm i', forallb item_ok its = true -> fr <> [] ->
            crossb fr its its' = true -> In nm (unres_names (map (tbl_of e) fr) (map xcol_of its)) -> In i' its' -> fst (item_ref i') <> nm).
  { intros fr its its' nm i' Hits Hfr Hb Hnm Hi' Ec. destruct (unres_names_in e fr its nm Hfr Hits Hnm) as (Hl & i & Hi & Ei).
    unfold crossb in Hb. apply orb_true_iff in Hb. destruct Hb as [Hb|Hb]; [apply negb_true_iff in Hb; apply Nat.leb_gt in Hb; lia|].
    rewrite forallb_forall in Hb. specialize (Hb i Hi). rewrite Ei in Hb. cbn [fst snd] in Hb. rewrite forallb_forall in Hb. specialize (Hb i' Hi').
    rewrite Ec, String.eqb_refl in Hb. discriminate. }
  unfold s. rewrite (model_pairs_wherein1_colsX noise e t cs items from cj c items' from' cj' Hn He Ht Hcs Hndc Hlen Hit Hne Hrel Hit' Hne' Hrel'
             (group_ok_of e t from Hrel Ptc) (ts_inj_of e t from Hrel Ptc) (names_nodot_of e from Hrel)).
  - unfold spec_pairs. rewrite (spec_strs_insert_cols_w (e_cfg e) t cs items from cj _ Hrt Hlen (item_cols_single e t from items Hrel Hit Ptc Pic)).
    f_equal. f_equal. unfold flows_of. rewrite combine_map, flat_map_map', map_flat_map'. cbn [fst snd].
    apply flat_map_ext_in'. intros [i c0] Hic'. cbn [fst snd]. pose proof (in_combine_l _ _ _ _ Hic') as Hi.
    pose proof Hit as Hit0. rewrite forallb_forall in Hit0.
    destruct (item_corr_n e t from i c0 Hrel (Hit0 i Hi) Ptc (Pic i Hi)) as (srcs & E1 & E2).
    rewrite E1. cbn [flat_map snd app]. rewrite app_nil_r. symmetry. exact E2.
  - rewrite (map_dstr_tbl e from Hrel). exact (proj1 Ptc).
  - exact (ts_inj_of e t from' Hrel' Ptc').
  - exact (names_nodot_of e from' Hrel').
  - intros v' Hv'. exact (go_target _ _ (group_ok_of e t from' Hrel' Ptc') v' Hv').
  - exact (xref_ok_f_of e t from from' items Hrel Hrel' Hit Ptc Pic Hlk).
  - exact (noqual_of e from items Hit Pnq).
  - intros x' Hx'. apply (xref_ok_fX_weaken _ (leak (map (tbl_of e) [])) LF); [intros a w []|].
    apply (xref_ok_f_of e t from' [] items' Hrel' eq_refl Hit' Ptc' Pic'); [|exact Hx'].
    unfold items_leakb. apply forallb_forall. intros i _. destruct (snd (item_ref i)); reflexivity.
  - exact (noqual_of e from' items' Hit' Pnq').
  - intros nm x' s' v Hnm Hx' Hss' _. apply in_map_iff in Hx'. destruct Hx' as (i' & <- & Hi'). pose proof Hit' as Hit1'. rewrite forallb_forall in Hit1'.
    rewrite (S_of_craw e from' i' s' (Hit1' i' Hi') Hss'). exact (Cross from items items' nm i' Hit Hne Hcr Hnm Hi').
  - intros nm Hnm Hnm'. destruct (unres_names_in e from' items' nm Hne' Hit' Hnm') as (_ & i' & Hi' & Ei').
    apply (Cross from items items' nm i' Hit Hne Hcr Hnm Hi'). rewrite Ei'. reflexivity.
  - intros nm v x s0 Hnm _ Hx Hs0 _. apply in_map_iff in Hx. destruct Hx as (i & <- & Hi). pose proof Hit as Hit0. rewrite forallb_forall in Hit0.
    rewrite (S_of_craw e from i s0 (Hit0 i Hi) Hs0). exact (Cross from' items' items nm i Hit' Hne' Hcr' Hnm Hi).
Qed.
Print Assumptions lemma_B_wherein1cu_colshape.

Example wherein1cu_nonvacuous :
  let s := SInsert tx (Some ["m"; "n"]) (selw [ci None "a"; ci (Some "t") "b"] [tb "t"; tb "v"] true "a" (sel1 [ci None "c"] [tb "u"; tb "w"])) in
  noise_ok [ws5; cm5] && env_ok e_cxB && stmt_ok s && sshape s && colshape s && wherein1c_syntactic s && negb (sel_wherein1c_syntactic s) = true.
Proof. vm_compute. reflexivity. Qed.
